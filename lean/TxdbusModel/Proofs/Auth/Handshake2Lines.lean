/-
C07 x C06 proofs, part 2 - single lines.

What the client's authenticator answers to each line the bus can write in this conversation, and what the
bus's authenticator answers to each line the client can write, as explicit results (new state, lines, ghost
outputs).  The DBUS_COOKIE_SHA1 exchange is kept abstract: only the shape of the two answers of the bus
(`sv_auth_cookie`, `sv_cookie_reply`) and of the client's answer (`cl_data_cookie`) is used.
-/
import TxdbusModel.Proofs.Auth.Handshake2Bytes
import TxdbusModel.Proofs.Auth.ClientComplete

namespace Txdbus.Handshake2

open Txdbus.AuthServer (real NoCR RealWorld Inst lit)
open Txdbus.Gen.ServerAuth (wOk wData wError wErrorSp wRejected maxRejects)

/-! ## the client's authenticator -/

/-- The client's authenticator while it is trying its `i`-th mechanism (0 EXTERNAL, 1 DBUS_COOKIE_SHA1,
otherwise ANONYMOUS) and nothing was accepted yet. -/
def authAt (unix : Bool) : Nat → AuthClient.Auth
  | 0 => ⟨[AuthClient.mCOOKIE, AuthClient.mANONYMOUS], some AuthClient.mEXTERNAL, unix, false, false, none⟩
  | 1 => ⟨[AuthClient.mANONYMOUS], some AuthClient.mCOOKIE, unix, false, false, none⟩
  | _ => ⟨[], some AuthClient.mANONYMOUS, unix, false, false, none⟩

/-- The name of the `i`-th mechanism. -/
def mechAt : Nat → Bytes
  | 0 => AuthClient.mEXTERNAL
  | 1 => AuthClient.mCOOKIE
  | _ => AuthClient.mANONYMOUS

theorem authAt_mech (unix : Bool) (i : Nat) : (authAt unix i).authMech = some (mechAt i) := by
  match i with
  | 0 => rfl
  | 1 => rfl
  | _ + 2 => rfl

theorem authAt_unix (unix : Bool) (i : Nat) : (authAt unix i).unixFD = unix := by
  match i with
  | 0 => rfl
  | 1 => rfl
  | _ + 2 => rfl

theorem authAt_flags (unix : Bool) (i : Nat) :
    (authAt unix i).authenticated = false ∧ (authAt unix i).negotiating = false := by
  match i with
  | 0 => exact ⟨rfl, rfl⟩
  | 1 => exact ⟨rfl, rfl⟩
  | _ + 2 => exact ⟨rfl, rfl⟩

/-- The REJECTED line of the bus (regenerated table). -/
theorem rejectLine_eq : AuthServer.rejectLine real = Gen.ServerAuth.rejectMsg := by decide

/-- REJECTED while a mechanism is left: the next AUTH line. -/
theorem cl_rejected (env : AuthClient.Env) (unix : Bool) (i : Nat) (hi : i < 2) :
    AuthClient.handleAuthMessage env (authAt unix i) (AuthServer.rejectLine real) =
      .ok (authAt unix (i + 1), [AuthClient.authLine env (mechAt (i + 1))]) := by
  have hs : AuthClient.splitCmd (AuthServer.rejectLine real) =
      (AuthClient.cREJECTED, b!"EXTERNAL DBUS_COOKIE_SHA1 ANONYMOUS") := by
    rw [rejectLine_eq]; decide
  unfold AuthClient.handleAuthMessage
  rw [hs]
  match i, hi with
  | 0, _ => simp [AuthClient.authREJECTED, AuthClient.authTryNextMethod, authAt, mechAt]
  | 1, _ => simp [AuthClient.authREJECTED, AuthClient.authTryNextMethod, authAt, mechAt]

theorem splitCmd_data (rest : Bytes) : AuthClient.splitCmd (wData ++ rest) = (AuthClient.cDATA, rest) := by
  simp [AuthClient.splitCmd, wData, AuthClient.cDATA, List.takeWhile, List.dropWhile]

theorem splitCmd_ok (rest : Bytes) : AuthClient.splitCmd (wOk ++ rest) = (AuthClient.cOK, rest) := by
  simp [AuthClient.splitCmd, wOk, AuthClient.cOK, List.takeWhile, List.dropWhile]

/-- The (empty) EXTERNAL challenge `DATA `: answered `DATA`. -/
theorem cl_data_ext (env : AuthClient.Env) (a : AuthClient.Auth) (rest : Bytes)
    (hm : a.authMech = some AuthClient.mEXTERNAL) :
    AuthClient.handleAuthMessage env a (wData ++ rest) = .ok (a, [AuthClient.lDATA]) := by
  unfold AuthClient.handleAuthMessage
  rw [splitCmd_data]
  simp [AuthClient.cDATA, AuthClient.cREJECTED, AuthClient.cOK, AuthClient.cAGREE, AuthClient.authDATA, hm]

/-- The DBUS_COOKIE_SHA1 challenge: the response, or ERROR with the text of what went wrong. -/
theorem cl_data_cookie (env : AuthClient.Env) (a : AuthClient.Auth) (rest : Bytes)
    (hm : a.authMech = some AuthClient.mCOOKIE) :
    AuthClient.handleAuthMessage env a (wData ++ rest) =
      .ok (a, [match AuthClient.cookieResponse env rest with
               | .ok l => l
               | .error e => b!"ERROR " ++ env.errText e]) := by
  unfold AuthClient.handleAuthMessage
  rw [splitCmd_data]
  simp only [AuthClient.cDATA, AuthClient.cREJECTED, AuthClient.cOK, AuthClient.cAGREE, AuthClient.authDATA, hm]
  have h1 : ¬ (some AuthClient.mCOOKIE = some AuthClient.mEXTERNAL) := by decide
  simp only [show (b!"DATA" = b!"REJECTED") = False from by decide, show (b!"DATA" = b!"OK") = False from by decide,
    show (b!"DATA" = b!"AGREE_UNIX_FD") = False from by decide, if_false, if_true, h1]
  cases AuthClient.cookieResponse env rest <;> rfl

/-- OK with the bus's GUID: NEGOTIATE_UNIX_FD on a UNIX transport, BEGIN otherwise. -/
theorem cl_ok (env : AuthClient.Env) (a : AuthClient.Auth) (g : Bytes) (hg : g ≠ []) :
    AuthClient.handleAuthMessage env a (wOk ++ AuthClient.hexlify g) =
      if a.unixFD then .ok ({ a with guid := some g, negotiating := true }, [AuthClient.lNEGOTIATE])
      else .ok ({ a with guid := some g, authenticated := true }, [AuthClient.lBEGIN]) := by
  unfold AuthClient.handleAuthMessage
  rw [splitCmd_ok]
  simp only [AuthClient.cOK, AuthClient.cREJECTED, show (b!"OK" = b!"REJECTED") = False from by decide, if_false, if_true,
    AuthClient.authOK, AuthClient.strip_hexlify, AuthClient.hexlify_isEmpty hg, Bool.false_eq_true,
    AuthClient.unhexlify_hexlify]

/-- ERROR in answer to NEGOTIATE_UNIX_FD: BEGIN (repair C07-02). -/
theorem cl_error_neg (env : AuthClient.Env) (a : AuthClient.Auth) (hn : a.negotiating = true) :
    AuthClient.handleAuthMessage env a wError = .ok ({ a with authenticated := true }, [AuthClient.lBEGIN]) := by
  have hs : AuthClient.splitCmd wError = (AuthClient.cERROR, []) := by decide
  unfold AuthClient.handleAuthMessage
  rw [hs]
  simp [AuthClient.cERROR, AuthClient.cREJECTED, AuthClient.cOK, AuthClient.cAGREE, AuthClient.cDATA,
    AuthClient.authERROR, hn]

/-! ### the lines the client writes -/

theorem authLine_ext (env : AuthClient.Env) : AuthClient.authLine env (mechAt 0) = lit "AUTH EXTERNAL" := by
  simp [AuthClient.authLine, mechAt, AuthClient.mEXTERNAL, AuthClient.mCOOKIE, AuthClient.mANONYMOUS]
  decide

theorem authLine_anon (env : AuthClient.Env) :
    AuthClient.authLine env (mechAt 2) = AuthServer.authLineOf (lit "ANONYMOUS") (some (lit "txdbus")) := by
  simp [AuthClient.authLine, mechAt, AuthClient.mCOOKIE, AuthClient.mANONYMOUS]
  decide

theorem authLine_cookie (env : AuthClient.Env) :
    AuthClient.authLine env (mechAt 1) = AuthServer.cookieAuthLine env.user := by
  simp only [AuthClient.authLine, mechAt, AuthClient.mCOOKIE, if_true, AuthServer.cookieAuthLine, hexlify_eq]
  have : (b!"AUTH " ++ b!"DBUS_COOKIE_SHA1" ++ b!" " : Bytes) = lit "AUTH DBUS_COOKIE_SHA1 " := by decide
  rw [this]

/-- The client's answer to a cookie challenge it can answer: `DATA hex(<hex digest> <hex digest>)`. -/
theorem cookieResponse_ok_shape {env : AuthClient.Env} {args l : Bytes} (h : AuthClient.cookieResponse env args = .ok l) :
    ∃ a b, l = wData ++ AuthServer.hexlify (AuthServer.hexlify (env.sha1 a) ++ 32 :: AuthServer.hexlify (env.sha1 b)) := by
  unfold AuthClient.cookieResponse at h
  split at h <;> try (simp at h)
  split at h <;> try (simp at h)
  split at h <;> try (simp at h)
  subst h
  exact ⟨env.rnd, _, by simp only [hexlify_eq]; rfl⟩

/-! ## the bus's authenticator -/

open Txdbus.AuthServer (Server Out handle reject stepAuth sendError decodeResponse cookieStep CookieSt RealGood
  cookieAuthLine getpwuidI)

/-- `reject()` when `cancel()` does not raise and the limit is not exceeded: REJECTED, WaitingForAuth. -/
theorem reject_ok (s : Server RealWorld Inst) (m : Option (Bytes × AuthServer.Outcome)) (w' : RealWorld)
    (hc : ∀ n i, s.cur = some (n, i) → real.cancel s.world i = some w')
    (hn : s.cur = none → w' = s.world)
    (hr : s.rejects + 1 ≤ maxRejects) :
    reject real s m =
      ⟨{ s with cur := none, world := w', rejects := s.rejects + 1, state := .waitingForAuth },
        [AuthServer.rejectLine real], .ok, m, true⟩ := by
  have : ¬ (s.rejects + 1 > maxRejects) := by omega
  unfold reject
  cases hcur : s.cur with
  | none => simp [this, hn hcur]
  | some ni =>
    obtain ⟨n, i⟩ := ni
    simp [hc n i hcur, this]

theorem sendError_nil (s : Server RealWorld Inst) : sendError s [] = ⟨s, [wError], .ok, none, false⟩ := by
  simp [sendError]

/-- `AUTH EXTERNAL` when the peer credentials carry a uid with a passwd entry: the empty challenge. -/
theorem sv_auth_ext_ok (s : Server RealWorld Inst) (uid : Int) (e : AuthServer.PwEnt)
    (hs : s.state = .waitingForAuth) (hc : s.world.cfg.creds = some uid) (hu : getpwuidI s.world.cfg uid = some e) :
    handle real s (lit "AUTH EXTERNAL") =
      ⟨{ s with cur := some (lit "EXTERNAL", .ext true (some uid)), state := .waitingForData }, [wData], .ok,
        some (lit "EXTERNAL", .challenge []), false⟩ := by
  have e1 : AuthServer.splitCmd (lit "AUTH EXTERNAL") = (lit "AUTH", lit "EXTERNAL") := by decide
  have e2 : AuthServer.utf8Valid (lit "AUTH") = true := by decide
  have e3 : AuthServer.parseCmd (lit "AUTH") = .auth := by decide
  have e4 : AuthServer.splitWs (lit "EXTERNAL") = [lit "EXTERNAL"] := by decide
  simp [handle, e1, e2, e3, AuthServer.authAUTH, hs, e4, AuthServer.real_offers_external, stepAuth, decodeResponse,
    AuthServer.real_start_external, hc, AuthServer.real_step_ext0 _ _ e _ hu, AuthServer.hexlify]

/-- `AUTH EXTERNAL` without usable peer credentials: REJECTED. -/
theorem sv_auth_ext_rej (s : Server RealWorld Inst) (hs : s.state = .waitingForAuth)
    (hc : ∀ uid, s.world.cfg.creds = some uid → getpwuidI s.world.cfg uid = none)
    (hr : s.rejects + 1 ≤ maxRejects) :
    handle real s (lit "AUTH EXTERNAL") =
      ⟨{ s with cur := none, rejects := s.rejects + 1, state := .waitingForAuth },
        [AuthServer.rejectLine real], .ok, some (lit "EXTERNAL", .reject), true⟩ := by
  have e1 : AuthServer.splitCmd (lit "AUTH EXTERNAL") = (lit "AUTH", lit "EXTERNAL") := by decide
  have e2 : AuthServer.utf8Valid (lit "AUTH") = true := by decide
  have e3 : AuthServer.parseCmd (lit "AUTH") = .auth := by decide
  have e4 : AuthServer.splitWs (lit "EXTERNAL") = [lit "EXTERNAL"] := by decide
  have hstep : real.step s.world (.ext false s.world.cfg.creds) none =
      (s.world, .ext false s.world.cfg.creds, .reject) := by
    cases hcr : s.world.cfg.creds with
    | none => simp [real]
    | some uid => simp [real, hc uid hcr]
  have h1 : handle real s (lit "AUTH EXTERNAL") =
      reject real { s with cur := some (lit "EXTERNAL", .ext false s.world.cfg.creds) }
        (some (lit "EXTERNAL", .reject)) := by
    simp [handle, e1, e2, e3, AuthServer.authAUTH, hs, e4, AuthServer.real_offers_external, stepAuth, decodeResponse,
      AuthServer.real_start_external, hstep]
  rw [h1]
  exact reject_ok _ _ s.world (by intro n i h; simp only [Option.some.injEq, Prod.mk.injEq] at h; rw [← h.2]; rfl)
    (by intro h; cases h) hr

/-- `DATA` answering the EXTERNAL challenge: OK. -/
theorem sv_data_ext (s : Server RealWorld Inst) (uid : Int) (e : AuthServer.PwEnt)
    (hs : s.state = .waitingForData) (hc : s.cur = some (lit "EXTERNAL", .ext true (some uid)))
    (hu : getpwuidI s.world.cfg uid = some e) :
    handle real s (lit "DATA") =
      ⟨{ s with cur := some (lit "EXTERNAL", .ext true (some uid)), state := .waitingForBegin },
        [wOk ++ s.serverGuid], .ok, some (lit "EXTERNAL", .accept), false⟩ := by
  have d1 : AuthServer.splitCmd (lit "DATA") = (lit "DATA", []) := by decide
  have d2 : AuthServer.utf8Valid (lit "DATA") = true := by decide
  have d3 : AuthServer.parseCmd (lit "DATA") = .data := by decide
  simp [handle, d1, d2, d3, AuthServer.authDATA, hs, stepAuth, hc, decodeResponse, AuthServer.real_step_ext1 _ _ e _ hu]

/-- `AUTH ANONYMOUS 747864627573`: OK. -/
theorem sv_auth_anon (s : Server RealWorld Inst) (hs : s.state = .waitingForAuth) :
    handle real s (AuthServer.authLineOf (lit "ANONYMOUS") (some (lit "txdbus"))) =
      ⟨{ s with cur := some (lit "ANONYMOUS", .anon), state := .waitingForBegin }, [wOk ++ s.serverGuid], .ok,
        some (lit "ANONYMOUS", .accept), false⟩ := by
  obtain ⟨r', h1, h2⟩ := AuthServer.handle_authLine real s (lit "ANONYMOUS") (some (lit "txdbus")) hs (by decide)
    (by unfold AuthServer.NoSpace; decide) AuthServer.real_offers_anonymous ⟨by decide, by decide⟩
  rw [h2]
  simp [stepAuth, h1, AuthServer.real_start_anonymous, AuthServer.real_step_anon]

/-- `NEGOTIATE_UNIX_FD`: ERROR, nothing changes. -/
theorem sv_negotiate (s : Server RealWorld Inst) :
    handle real s (lit "NEGOTIATE_UNIX_FD") = ⟨s, [wError], .ok, none, false⟩ := by
  rw [AuthServer.handle_negotiate, sendError_nil]

/-- `BEGIN` in WaitingForBegin with a mechanism that knows its user: authenticated. -/
theorem sv_begin (s : Server RealWorld Inst) (n : Bytes) (i : Inst) (u : Bytes)
    (hs : s.state = .waitingForBegin) (hc : s.cur = some (n, i)) (hu : real.userName s.world i = some u) :
    handle real s (lit "BEGIN") =
      ⟨{ s with authenticated := true, guid := some u, cur := none }, [], .ok, none, false⟩ := by
  have f1 : AuthServer.splitCmd (lit "BEGIN") = (lit "BEGIN", []) := by decide
  have f2 : AuthServer.utf8Valid (lit "BEGIN") = true := by decide
  have f3 : AuthServer.parseCmd (lit "BEGIN") = .begin := by decide
  simp [handle, f1, f2, f3, AuthServer.authBEGIN, hs, hc, hu]

/-! ### the DBUS_COOKIE_SHA1 exchange, abstractly -/

theorem cookieChallenge_cfg (w : RealWorld) (c : CookieSt) (home : Bytes) :
    (AuthServer.cookieChallenge w c home).1.cfg = w.cfg := by
  obtain ⟨w1, cid, cookie, chal, e1, e2, _⟩ := AuthServer.cookieChallenge_spec w c home
  rw [e1]; exact e2

theorem deleteCookie_cfg (w w1 : RealWorld) (home : Bytes) (id : Option Nat)
    (h : AuthServer.deleteCookie w home id = some w1) : w1.cfg = w.cfg := by
  have key : ∀ f, (AuthServer.setFile w home f).cfg = w.cfg := by
    intro f; unfold AuthServer.setFile; cases f <;> rfl
  have aux : ∀ cs' : List AuthServer.CookieEnt,
      (if cs'.isEmpty then
        (match AuthServer.lookupFile w home with
         | none => none
         | some _ => some (AuthServer.setFile w home none))
       else some (AuthServer.setFile w home (some cs'))) = some w1 → w1.cfg = w.cfg := by
    intro cs' h
    by_cases he : cs'.isEmpty = true
    · simp only [he, if_true] at h
      cases hl : AuthServer.lookupFile w home with
      | none => rw [hl] at h; cases h
      | some v => rw [hl] at h; injection h with h; rw [← h]; exact key _
    · simp only [he] at h
      injection h with h; rw [← h]; exact key _
  exact aux _ h

/-- The mechanisms never change the fixed part of the environment. -/
theorem cookieStep_cfg (w : RealWorld) (c : CookieSt) (a : Option Bytes) : (cookieStep w c a).1.cfg = w.cfg := by
  unfold cookieStep
  cases a with
  | none => rfl
  | some arg =>
    simp only
    split
    · unfold AuthServer.cookieStepOne
      cases AuthServer.resolveUser w.cfg arg with
      | none => rfl
      | some uname =>
        simp only
        cases AuthServer.getpwnam w.cfg uname with
        | none => rfl
        | some e =>
          simp only
          cases AuthServer.lookupDir w e.home with
          | bad => rfl
          | absent => simp only; rw [cookieChallenge_cfg]; rfl
          | good => simp only; rw [cookieChallenge_cfg]
    · split
      · unfold AuthServer.cookieStepTwo
        cases hd : AuthServer.deleteCookie w c.home c.cookieId with
        | none => rfl
        | some w1 =>
          simp only
          have := deleteCookie_cfg w w1 _ _ hd
          split
          · split <;> exact this
          · exact this
      · rfl

/-- After its first step the cookie mechanism never sends another challenge. -/
theorem cookieStep_no_challenge (w : RealWorld) (c : CookieSt) (a : Option Bytes) (h : c.stepNum ≥ 1) (m : Bytes) :
    (cookieStep w c a).2.2 ≠ .challenge m := by
  unfold cookieStep
  cases a with
  | none => simp
  | some arg =>
    simp only
    have h0 : ¬ c.stepNum = 0 := by omega
    simp only [h0, if_false]
    split
    · unfold AuthServer.cookieStepTwo
      split
      · simp
      · split
        · split <;> simp
        · simp
    · simp

theorem decodeResponse_hexlify' (x : Bytes) (hx : x ≠ []) :
    decodeResponse (some (AuthServer.hexlify x)) = if AuthServer.isAscii x then some (some x) else none := by
  have hne := AuthServer.hexlify_ne_nil x hx
  unfold decodeResponse
  cases hh : AuthServer.hexlify x with
  | nil => exact absurd hh hne
  | cons b t =>
    simp only
    rw [← hh, AuthServer.strip_noSpace _ (AuthServer.noSpace_hexlify x), AuthServer.unhexlify_hexlify]

/-- What the bus answers to `AUTH DBUS_COOKIE_SHA1 <hex user>` while it waits for AUTH and is below the reject
limit: REJECTED (nothing accepted), or a challenge, after which the mechanism in progress is "good" (its
`cancel()` and `getUserName()` cannot raise). -/
theorem sv_auth_cookie (s : Server RealWorld Inst) (user : Bytes) (hs : s.state = .waitingForAuth)
    (hr : s.rejects + 1 ≤ maxRejects) :
    (∃ w' mm, handle real s (cookieAuthLine user) =
        ⟨{ s with cur := none, world := w', rejects := s.rejects + 1, state := .waitingForAuth },
          [AuthServer.rejectLine real], .ok, mm, true⟩ ∧ (∀ n, mm ≠ some (n, .accept))) ∨
    (∃ m w1 c1, handle real s (cookieAuthLine user) =
        ⟨{ s with world := w1, cur := some (lit "DBUS_COOKIE_SHA1", .cookie c1), state := .waitingForData },
          [wData ++ AuthServer.hexlify m], .ok, some (lit "DBUS_COOKIE_SHA1", .challenge m), false⟩ ∧
        RealGood w1 (.cookie c1) ∧ w1.cfg = s.world.cfg ∧
        (user ≠ [] ∧ AuthServer.isAscii user = true ∧ cookieStep s.world CookieSt.init (some user) = (w1, c1, .challenge m))) := by
  have a3 : AuthServer.utf8Valid (lit "AUTH") = true := by decide
  have a4 : AuthServer.parseCmd (lit "AUTH") = .auth := by decide
  by_cases hu : user = []
  · -- no initial response: the mechanism is stepped with None and rejects
    subst hu
    have a2 : AuthServer.splitCmd (cookieAuthLine []) = (lit "AUTH", lit "DBUS_COOKIE_SHA1 ") := by decide
    have a5 : AuthServer.splitWs (lit "DBUS_COOKIE_SHA1 ") = [lit "DBUS_COOKIE_SHA1"] := by decide
    have h1 : handle real s (cookieAuthLine []) =
        reject real { s with cur := some (lit "DBUS_COOKIE_SHA1", .cookie { CookieSt.init with stepNum := 1 }) }
          (some (lit "DBUS_COOKIE_SHA1", .reject)) := by
      simp [handle, a2, a3, a4, AuthServer.authAUTH, hs, a5, AuthServer.real_offers_cookie, stepAuth, decodeResponse,
        AuthServer.real_start_cookie, AuthServer.real_step_cookie, cookieStep, CookieSt.init]
    left
    refine ⟨s.world, some (lit "DBUS_COOKIE_SHA1", .reject), ?_, fun n h => by simp at h⟩
    rw [h1]
    exact reject_ok _ _ s.world
      (by intro n i h; simp only [Option.some.injEq, Prod.mk.injEq] at h; rw [← h.2]; rfl) (by intro h; cases h) hr
  · have a1 : cookieAuthLine user = lit "AUTH" ++ 32 :: (lit "DBUS_COOKIE_SHA1" ++ 32 :: AuthServer.hexlify user) := rfl
    have a2 : AuthServer.splitCmd (cookieAuthLine user) =
        (lit "AUTH", lit "DBUS_COOKIE_SHA1" ++ 32 :: AuthServer.hexlify user) := by
      rw [a1]; exact AuthServer.splitCmd_noSpace _ _ (by decide)
    have a5 : AuthServer.splitWs (lit "DBUS_COOKIE_SHA1" ++ 32 :: AuthServer.hexlify user) =
        [lit "DBUS_COOKIE_SHA1", AuthServer.hexlify user] :=
      AuthServer.splitWs_two _ _ (by decide) (AuthServer.hexlify_ne_nil _ hu) (by unfold AuthServer.NoSpace; decide)
        (AuthServer.noSpace_hexlify _)
    have h1 : handle real s (cookieAuthLine user) =
        stepAuth real { s with cur := some (lit "DBUS_COOKIE_SHA1", .cookie CookieSt.init) }
          (some (AuthServer.hexlify user)) := by
      simp [handle, a2, a3, a4, AuthServer.authAUTH, hs, a5, AuthServer.real_offers_cookie, AuthServer.real_start_cookie]
    rw [h1]
    unfold stepAuth
    simp only [decodeResponse_hexlify' user hu]
    by_cases hasc : AuthServer.isAscii user = true
    · simp only [hasc, if_true, AuthServer.real_step_cookie]
      have hsafe := AuthServer.cookieStep_safe s.world CookieSt.init (some user) (Or.inr rfl)
      have hcfg := cookieStep_cfg s.world CookieSt.init (some user)
      have hnacc : (cookieStep s.world CookieSt.init (some user)).2.2 ≠ .accept := by
        intro h
        have := (AuthServer.cookieStep_accept _ _ _ h).1
        cases this
      generalize hr0 : cookieStep s.world CookieSt.init (some user) = r at hsafe hcfg hnacc
      obtain ⟨w1, c1, o⟩ := r
      cases o with
      | accept => exact absurd rfl hnacc
      | challenge m =>
        right
        exact ⟨m, w1, c1, rfl, hsafe.2 (by simp), hcfg, hu, trivial, rfl⟩
      | reject =>
        left
        obtain ⟨w', hw'⟩ := Option.isSome_iff_exists.1 (AuthServer.cancel_cookie_isSome w1 c1 hsafe.1)
        refine ⟨w', some (lit "DBUS_COOKIE_SHA1", .reject), ?_, fun n h => by simp at h⟩
        simp only
        exact reject_ok _ _ w'
          (by intro n i h; simp only [Option.some.injEq, Prod.mk.injEq] at h; rw [← h.2]; exact hw')
          (by intro h; cases h) hr
    · -- the user name is not ASCII: ValueError in stepAuth, reject()
      simp only [hasc, if_false]
      left
      refine ⟨s.world, none, ?_, fun n h => by simp at h⟩
      exact reject_ok _ _ s.world
        (by intro n i h; simp only [Option.some.injEq, Prod.mk.injEq] at h; rw [← h.2]; rfl) (by intro h; cases h) hr

/-- What the bus answers to the client's response `DATA <hex of non-empty ASCII text>` while the cookie
mechanism waits for it: OK (and then BEGIN cannot raise), or REJECTED. -/
theorem sv_cookie_data (s : Server RealWorld Inst) (c1 : CookieSt) (y : Bytes) (hs : s.state = .waitingForData)
    (hc : s.cur = some (lit "DBUS_COOKIE_SHA1", .cookie c1)) (hg : RealGood s.world (.cookie c1))
    (hy : y ≠ []) (hya : AuthServer.isAscii y = true) (hr : s.rejects + 1 ≤ maxRejects) :
    (∃ w2 c2 u, handle real s (wData ++ AuthServer.hexlify y) =
        ⟨{ s with world := w2, cur := some (lit "DBUS_COOKIE_SHA1", .cookie c2), state := .waitingForBegin },
          [wOk ++ s.serverGuid], .ok, some (lit "DBUS_COOKIE_SHA1", .accept), false⟩ ∧
        real.userName w2 (.cookie c2) = some u) ∨
    (∃ w' mm, handle real s (wData ++ AuthServer.hexlify y) =
        ⟨{ s with cur := none, world := w', rejects := s.rejects + 1, state := .waitingForAuth },
          [AuthServer.rejectLine real], .ok, mm, true⟩ ∧ (∀ n, mm ≠ some (n, .accept))) := by
  have b1 : wData ++ AuthServer.hexlify y = lit "DATA" ++ 32 :: AuthServer.hexlify y := rfl
  have b2 : AuthServer.splitCmd (wData ++ AuthServer.hexlify y) = (lit "DATA", AuthServer.hexlify y) := by
    rw [b1]; exact AuthServer.splitCmd_noSpace _ _ (by decide)
  have b3 : AuthServer.utf8Valid (lit "DATA") = true := by decide
  have b4 : AuthServer.parseCmd (lit "DATA") = .data := by decide
  have b5 := AuthServer.decodeResponse_hexlify y hy hya
  have h1 : handle real s (wData ++ AuthServer.hexlify y) = stepAuth real s (some (AuthServer.hexlify y)) := by
    simp [handle, b2, b3, b4, AuthServer.authDATA, hs]
  rw [h1]
  unfold stepAuth
  simp only [hc, b5, AuthServer.real_step_cookie]
  have hsafe := AuthServer.cookieStep_safe s.world c1 (some y) (Or.inl hg)
  have hnc := cookieStep_no_challenge s.world c1 (some y) hg.1
  generalize cookieStep s.world c1 (some y) = r at hsafe hnc
  obtain ⟨w2, c2, o⟩ := r
  cases o with
  | challenge m => exact absurd rfl (hnc m)
  | accept =>
    left
    have hgood : RealGood w2 (.cookie c2) := hsafe.2 (by simp)
    obtain ⟨u, hu⟩ := Option.isSome_iff_exists.1 hgood.2.1
    exact ⟨w2, c2, u, rfl, hu⟩
  | reject =>
    right
    obtain ⟨w', hw'⟩ := Option.isSome_iff_exists.1 (AuthServer.cancel_cookie_isSome w2 c2 hsafe.1)
    refine ⟨w', some (lit "DBUS_COOKIE_SHA1", .reject), ?_, fun n h => by simp at h⟩
    simp only
    exact reject_ok _ _ w'
      (by intro n i h; simp only [Option.some.injEq, Prod.mk.injEq] at h; rw [← h.2]; exact hw')
      (by intro h; cases h) hr

/-- What the bus answers to the client's `ERROR <text>` while the cookie mechanism waits for the response:
REJECTED. -/
theorem sv_cookie_error (s : Server RealWorld Inst) (c1 : CookieSt) (txt : Bytes) (hs : s.state = .waitingForData)
    (hc : s.cur = some (lit "DBUS_COOKIE_SHA1", .cookie c1)) (hg : RealGood s.world (.cookie c1))
    (hr : s.rejects + 1 ≤ maxRejects) :
    ∃ w', handle real s (wErrorSp ++ txt) =
      ⟨{ s with cur := none, world := w', rejects := s.rejects + 1, state := .waitingForAuth },
        [AuthServer.rejectLine real], .ok, none, true⟩ := by
  have b1 : wErrorSp ++ txt = lit "ERROR" ++ 32 :: txt := rfl
  have b2 : AuthServer.splitCmd (wErrorSp ++ txt) = (lit "ERROR", txt) := by
    rw [b1]; exact AuthServer.splitCmd_noSpace _ _ (by decide)
  have b3 : AuthServer.utf8Valid (lit "ERROR") = true := by decide
  have b4 : AuthServer.parseCmd (lit "ERROR") = .error := by decide
  have h1 : handle real s (wErrorSp ++ txt) = reject real s none := by
    simp [handle, b2, b3, b4, AuthServer.authERROR]
  obtain ⟨w', hw'⟩ := Option.isSome_iff_exists.1 (AuthServer.cancel_cookie_isSome s.world c1 hg.2.2)
  refine ⟨w', ?_⟩
  rw [h1]
  exact reject_ok _ _ w'
    (by intro n i h; rw [hc] at h; simp only [Option.some.injEq, Prod.mk.injEq] at h; rw [← h.2]; exact hw')
    (by intro h; rw [hc] at h; cases h) hr

end Txdbus.Handshake2
