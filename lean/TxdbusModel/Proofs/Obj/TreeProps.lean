/-
C16 x C17 - lemmas about the combined model `Obj/TreeProps.lean`: its table is the abstract table of
`Obj/Tree.lean` (objects mapped to instances), its property state is the C17 state after the projected
history, exported instances are attached, and the shape of `objDict` / `managedReply`.
-/
import TxdbusModel.Obj.TreeProps
import TxdbusModel.Proofs.Obj.Tree
import TxdbusModel.Proofs.Obj.PropsGetAll

namespace Txdbus.Obj.TreeProps
open Txdbus.Obj Txdbus.Obj.Tree Txdbus.Obj.TreeSpec Txdbus.Obj.TreeLemmas

/-! ### tables with mapped values -/

def mapVals {α β : Type} (f : α → β) (e : Table α) : Table β := e.map fun kv => (kv.1, f kv.2)

theorem keys_mapVals {α β : Type} (f : α → β) (e : Table α) : keys (mapVals f e) = keys e := by
  simp [keys, mapVals, Function.comp_def]

theorem lookup_mapVals {α β : Type} (f : α → β) (e : Table α) (k : Str) :
    lookup (mapVals f e) k = (lookup e k).map f := by
  induction e with
  | nil => rfl
  | cons kv e ih =>
    obtain ⟨k0, v0⟩ := kv
    simp only [mapVals, List.map_cons, lookup] at ih ⊢
    by_cases hk : k0 = k <;> simp [hk, ih]

theorem setItem_mapVals {α β : Type} (f : α → β) (e : Table α) (k : Str) (v : α) :
    setItem (mapVals f e) k (f v) = mapVals f (setItem e k v) := by
  induction e with
  | nil => rfl
  | cons kv e ih =>
    obtain ⟨k0, v0⟩ := kv
    simp only [mapVals, List.map_cons, setItem] at ih ⊢
    by_cases hk : k0 = k <;> simp [hk, ih]

theorem delItem_mapVals {α β : Type} (f : α → β) (e : Table α) (k : Str) :
    delItem (mapVals f e) k = mapVals f (delItem e k) := by
  simp [delItem, mapVals, List.filter_map, Function.comp_def]

theorem mem_setItem {α : Type} (e : Table α) (k : Str) (v : α) (x : Str × α) (h : x ∈ setItem e k v) :
    x ∈ e ∨ x = (k, v) := by
  induction e with
  | nil => simp [setItem] at h; exact Or.inr h
  | cons kv e ih =>
    obtain ⟨k0, v0⟩ := kv
    simp only [setItem] at h
    split at h
    · rename_i hk
      rcases List.mem_cons.mp h with h | h
      · subst hk; exact Or.inr h
      · exact Or.inl (List.mem_cons_of_mem _ h)
    · rcases List.mem_cons.mp h with h | h
      · exact Or.inl (h ▸ List.mem_cons_self)
      · rcases ih h with h | h
        · exact Or.inl (List.mem_cons_of_mem _ h)
        · exact Or.inr h

/-! ### the table: the combined model refines `Obj/Tree.lean` -/

/-- An instance as it sits in the abstract table (only announceable objects get in). -/
def tabObj (E : Env) (n : Nat) : Obj :=
  { path := E.pathOf n, ifaces := (E.wOf n).ifaces.map fun f => (f.name, n), sendable := true }

theorem absObj_of_some (E : Env) (st : Props.St) (n : Nat) (d : Table PropDict) (h : objDict E st n = some d) :
    absObj E st n = tabObj E n := by
  simp [absObj, tabObj, h]

theorem table_sim (E : Env) (s : State) (h : List Op) :
    TreeLemmas.runFrom (mapVals (tabObj E) s.exports) (absHistFrom E s h) =
      mapVals (tabObj E) (runFrom E s h).exports := by
  induction h generalizing s with
  | nil => rfl
  | cons op h ih =>
    cases op with
    | «export» n =>
      simp only [absHistFrom, runFrom, TreeLemmas.runFrom, List.foldl_cons]
      have ih' := ih (step E s (.export n)).state
      simp only [TreeLemmas.runFrom] at ih'
      rw [← ih']
      congr 1
      cases hd : objDict E (s.stOf E n) n with
      | none => simp [Tree.step, absObj, hd, TreeProps.step]
      | some d =>
        rw [absObj_of_some E (s.stOf E n) n d hd]
        simp [Tree.step, tabObj, TreeProps.step, hd, ← setItem_mapVals]
    | unexport p =>
      simp only [absHistFrom, runFrom, TreeLemmas.runFrom, List.foldl_cons]
      have ih' := ih (step E s (.unexport p)).state
      simp only [TreeLemmas.runFrom] at ih'
      rw [← ih']
      congr 1
      cases hl : lookup s.exports p with
      | none => simp [Tree.step, lookup_mapVals, hl, TreeProps.step]
      | some n => simp [Tree.step, lookup_mapVals, hl, TreeProps.step, delItem_mapVals]
    | assign n a v =>
      simp only [absHistFrom, runFrom]
      have ih' := ih (step E s (.assign n a v)).state
      simpa [TreeProps.step] using ih'
    | set p i pn v =>
      simp only [absHistFrom, runFrom]
      have ih' := ih (step E s (.set p i pn v)).state
      cases hl : lookup s.exports p with
      | none => simpa [TreeProps.step, hl] using ih'
      | some n => simpa [TreeProps.step, hl] using ih'

/-- The table after a history is the abstract table after the abstract history. -/
theorem table_eq (E : Env) (h : List Op) :
    Tree.run (absHist E h) = mapVals (tabObj E) (run E h).exports := by
  have := table_sim E State.init h
  simpa [absHist, run, Tree.run, TreeLemmas.runFrom, mapVals, State.init] using this

theorem lookup_run_abs (E : Env) (h : List Op) (k : Str) :
    exportedAfter (absHist E h) k = (lookup (run E h).exports k).map (tabObj E) := by
  rw [← lookup_run, table_eq, lookup_mapVals]

theorem keys_run_abs (E : Env) (h : List Op) : keys (run E h).exports = keys (Tree.run (absHist E h)) := by
  rw [table_eq, keys_mapVals]

/-! ### the property state of a class: C17's state after the projected history -/

theorem upd_same (f : Nat → Props.St) (c : Nat) (v : Props.St) : upd f c v c = v := by simp [upd]

theorem upd_other (f : Nat → Props.St) (c c' : Nat) (v : Props.St) (h : c' ≠ c) : upd f c v c' = f c' := by
  simp [upd, h]

theorem propStep_at (E : Env) (s : State) (n : Nat) (op : Props.Op) (c : Nat) :
    (propStep E s n op).1 c =
      if E.cls n = c then (Props.step E.cfg (E.W c) (s.pst c) op).1 else s.pst c := by
  simp only [propStep, upd, Env.wOf, State.stOf]
  by_cases h : E.cls n = c
  · subst h; simp
  · have : ¬ c = E.cls n := fun x => h x.symm
    simp [h, this]

theorem pst_sim (E : Env) (c : Nat) (s : State) (h : List Op) :
    (runFrom E s h).pst c = Props.runFrom E.cfg (E.W c) (s.pst c) (propHistFrom E c s h) := by
  induction h generalizing s with
  | nil => rfl
  | cons op h ih =>
    cases op with
    | «export» n =>
      simp only [runFrom, propHistFrom]
      rw [ih]
      have hst : (step E s (.export n)).state.pst c =
          if E.cls n = c then (Props.step E.cfg (E.W c) (s.pst c) (.export n)).1 else s.pst c := by
        cases hd : objDict E (s.stOf E n) n <;> simp [TreeProps.step, hd, propStep_at]
      rw [hst]
      by_cases hc : E.cls n = c <;> simp [hc, Props.runFrom]
    | unexport p =>
      simp only [runFrom, propHistFrom]
      rw [ih]
      cases hl : lookup s.exports p <;> simp [TreeProps.step, hl]
    | assign n a v =>
      simp only [runFrom, propHistFrom]
      rw [ih]
      have hst : (step E s (.assign n a v)).state.pst c =
          if E.cls n = c then (Props.step E.cfg (E.W c) (s.pst c) (.assign n a v)).1 else s.pst c := by
        simp [TreeProps.step, propStep_at]
      rw [hst]
      by_cases hc : E.cls n = c <;> simp [hc, Props.runFrom]
    | set p i pn v =>
      simp only [runFrom, propHistFrom]
      rw [ih]
      cases hl : lookup s.exports p with
      | none => simp [TreeProps.step, hl]
      | some n =>
        have hst : (step E s (.set p i pn v)).state.pst c =
            if E.cls n = c then (Props.step E.cfg (E.W c) (s.pst c) (.set n i pn v)).1 else s.pst c := by
          simp [TreeProps.step, hl, propStep_at]
        rw [hst]
        by_cases hc : E.cls n = c <;> simp [hc, Props.runFrom]

theorem pst_eq (E : Env) (c : Nat) (h : List Op) :
    (run E h).pst c = Props.run E.cfg (E.W c) (propHist E c h) :=
  pst_sim E c State.init h

/-- Remote Sets name an interface and carry a value that can have come off the wire (C17's `GoodOp`). -/
def GoodOps (h : List Op) : Prop :=
  ∀ op ∈ h, match op with
    | .set _ i _ v => i ≠ [] ∧ PropsSpec.wireOk v = true
    | _ => True

theorem goodHist_propHistFrom (E : Env) (c : Nat) (s : State) (h : List Op) (hg : GoodOps h) :
    Props.GoodHist (propHistFrom E c s h) := by
  induction h generalizing s with
  | nil => intro op hop; cases hop
  | cons op h ih =>
    have hg' : GoodOps h := fun o ho => hg o (List.mem_cons_of_mem _ ho)
    have h0 := hg op List.mem_cons_self
    cases op with
    | «export» n =>
      intro o ho
      simp only [propHistFrom, List.mem_append] at ho
      rcases ho with ho | ho
      · split at ho
        · simp at ho; subst ho; trivial
        · cases ho
      · exact ih _ hg' o ho
    | unexport p => exact ih _ hg'
    | assign n a v =>
      intro o ho
      simp only [propHistFrom, List.mem_append] at ho
      rcases ho with ho | ho
      · split at ho
        · simp at ho; subst ho; trivial
        · cases ho
      · exact ih _ hg' o ho
    | set p i pn v =>
      intro o ho
      simp only [propHistFrom, List.mem_append] at ho
      rcases ho with ho | ho
      · cases hl : lookup s.exports p with
        | none => simp [hl] at ho
        | some n =>
          simp only [hl] at ho
          split at ho
          · simp at ho; subst ho; exact h0
          · cases ho
      · exact ih _ hg' o ho

/-! ### `objDict` -/

theorem mapM_isSome {α β : Type} (f : α → Option β) (l : List α) :
    (l.mapM f).isSome = l.all fun x => (f x).isSome := by
  induction l with
  | nil => simp
  | cons a t ih =>
    rw [List.mapM_cons]
    cases ha : f a with
    | none => simp [ha]
    | some b =>
      cases ht : t.mapM f with
      | none => rw [ht] at ih; simp [ha, ← ih]
      | some r => rw [ht] at ih; simp [ha, ← ih]

theorem ifaceDict_isSome (E : Env) (st : Props.St) (n : Nat) (name : Str) :
    (ifaceDict E st n name).isSome =
      match Props.getAllProperties E.cfg (E.wOf n) st n name with
      | some r => r.all fun e => (Props.encodeVariant e.2).isSome
      | none => false := by
  unfold ifaceDict
  cases Props.getAllProperties E.cfg (E.wOf n) st n name with
  | none => rfl
  | some r => simp [mapM_isSome]

theorem objDictFrom_isSome (E : Env) (st : Props.St) (n : Nat) (fs : List Props.IfaceDef) (d : Table PropDict) :
    (objDictFrom E st n fs d).isSome = fs.all fun f => (ifaceDict E st n f.name).isSome := by
  induction fs generalizing d with
  | nil => rfl
  | cons f fs ih =>
    simp only [objDictFrom, List.all_cons]
    cases ifaceDict E st n f.name with
    | none => rfl
    | some l => simp [ih]

/-- Building the announcement succeeds exactly when C17's `exportOk` says so. -/
theorem objDict_isSome (E : Env) (st : Props.St) (n : Nat) :
    (objDict E st n).isSome = Props.exportOk E.cfg (E.wOf n) st n := by
  rw [objDict, objDictFrom_isSome, Props.exportOk]
  congr 1
  funext f
  exact ifaceDict_isSome E st n f.name

/-- Invariant of `objDictFrom`: keys distinct, keys = the names visited so far, every entry is the
marshalled `getAllProperties` of its interface. -/
theorem objDictFrom_spec (E : Env) (st : Props.St) (n : Nat) (fs : List Props.IfaceDef) (d r : Table PropDict)
    (hd : (keys d).Nodup) (hent : ∀ i l, (i, l) ∈ d → ifaceDict E st n i = some l)
    (h : objDictFrom E st n fs d = some r) :
    (keys r).Nodup ∧ (∀ i, i ∈ keys r ↔ i ∈ keys d ∨ i ∈ fs.map (·.name)) ∧
      ∀ i l, (i, l) ∈ r → ifaceDict E st n i = some l := by
  induction fs generalizing d with
  | nil =>
    simp only [objDictFrom, Option.some.injEq] at h
    subst h
    exact ⟨hd, by simp, hent⟩
  | cons f fs ih =>
    simp only [objDictFrom] at h
    cases hf : ifaceDict E st n f.name with
    | none => simp [hf] at h
    | some l =>
      simp only [hf] at h
      obtain ⟨h1, h2, h3⟩ := ih (setItem d f.name l) (nodup_keys_setItem _ _ _ hd)
        (fun i l' hm => by
          rcases mem_setItem _ _ _ _ hm with hm | hm
          · exact hent i l' hm
          · cases hm; exact hf) h
      refine ⟨h1, fun i => ?_, h3⟩
      rw [h2 i, keys_setItem]
      simp only [List.map_cons, List.mem_cons]
      split
      · rename_i hin
        constructor
        · rintro (h | h)
          · exact Or.inl h
          · exact Or.inr (Or.inr h)
        · rintro (h | rfl | h)
          · exact Or.inl h
          · exact Or.inl hin
          · exact Or.inr h
      · simp only [List.mem_append, List.mem_cons, List.not_mem_nil, or_false]
        constructor
        · rintro ((h | h) | h)
          · exact Or.inl h
          · exact Or.inr (Or.inl h)
          · exact Or.inr (Or.inr h)
        · rintro (h | h | h)
          · exact Or.inl (Or.inl h)
          · exact Or.inl (Or.inr h)
          · exact Or.inr h

theorem objDict_spec (E : Env) (st : Props.St) (n : Nat) (r : Table PropDict) (h : objDict E st n = some r) :
    (keys r).Nodup ∧ (∀ i, i ∈ keys r ↔ i ∈ (E.wOf n).ifaces.map (·.name)) ∧
      ∀ i l, (i, l) ∈ r → ifaceDict E st n i = some l := by
  have := objDictFrom_spec E st n (E.wOf n).ifaces [] r (by simp [keys]) (by simp) h
  simpa [keys] using this

/-! ### exported instances are attached and sit at their own path -/

theorem attached_descSet (cfg : Props.Cfg) (st : Props.St) (o : Nat) (b : Props.Bound) (v : Props.PVal) :
    (Props.descSet cfg st o b v).1.attached = st.attached := by
  unfold Props.descSet
  dsimp only
  split
  · split <;> rfl
  · rfl

theorem attached_mono (cfg : Props.Cfg) (W : Props.World) (st : Props.St) (op : Props.Op) (n : Nat)
    (h : n ∈ st.attached) : n ∈ (Props.step cfg W st op).1.attached := by
  cases op with
  | «export» o =>
    simp only [Props.step]
    split
    · dsimp only; split
      · exact h
      · exact List.mem_cons_of_mem _ h
    · exact h
  | assign o a v =>
    simp only [Props.step]
    split
    · exact h
    · rename_i b _
      have := attached_descSet cfg st o b v
      split <;> (rename_i heq; rw [heq] at this; simp only at this; rw [this]; exact h)
  | get o i p => simp only [Props.step]; split <;> exact h
  | set o i p v =>
    simp only [Props.step]
    split
    · unfold Props.opSet
      split
      · exact h
      · split
        · exact h
        · split
          · exact h
          · split
            · exact h
            · rename_i b' _
              have := attached_descSet cfg st o b' v
              split <;> (rename_i heq; rw [heq] at this; simp only at this; rw [this]; exact h)
    · exact h
  | getAll o i => simp only [Props.step]; split <;> exact h

theorem attached_propStep (E : Env) (s : State) (m : Nat) (op : Props.Op) (n : Nat)
    (h : n ∈ (s.stOf E n).attached) : n ∈ ((propStep E s m op).1 (E.cls n)).attached := by
  rw [propStep_at]
  split
  · exact attached_mono _ _ _ _ _ h
  · exact h

/-- Every instance in the table is attached (its `exportObject` returned) and sits at its own path. -/
def Inv (E : Env) (s : State) : Prop :=
  ∀ k n, lookup s.exports k = some n → n ∈ (s.stOf E n).attached ∧ E.pathOf n = k

theorem inv_step (E : Env) (s : State) (op : Op) (hI : Inv E s) : Inv E (step E s op).state := by
  intro k m hm
  cases op with
  | «export» n =>
    simp only [TreeProps.step] at hm ⊢
    cases hd : objDict E (s.stOf E n) n with
    | none =>
      simp only [hd] at hm ⊢
      exact ⟨attached_propStep E s n _ m (hI k m hm).1, (hI k m hm).2⟩
    | some d =>
      simp only [hd, lookup_setItem] at hm ⊢
      split at hm
      · rename_i hk
        cases hm
        refine ⟨?_, hk⟩
        have hok : Props.exportOk E.cfg (E.wOf m) (s.stOf E m) m = true := by rw [← objDict_isSome, hd]; rfl
        simp only [State.stOf, propStep, upd_same, Props.step]
        simp only [State.stOf] at hok
        simp only [hok, if_true]
        by_cases hin : m ∈ (s.pst (E.cls m)).attached <;> simp [hin]
      · exact ⟨attached_propStep E s n _ m (hI k m hm).1, (hI k m hm).2⟩
  | unexport p =>
    simp only [TreeProps.step] at hm ⊢
    cases hl : lookup s.exports p with
    | none => simp only [hl] at hm ⊢; exact hI k m hm
    | some n =>
      simp only [hl, lookup_delItem] at hm ⊢
      split at hm
      · cases hm
      · exact hI k m hm
  | assign n a v =>
    simp only [TreeProps.step] at hm ⊢
    exact ⟨attached_propStep E s n _ m (hI k m hm).1, (hI k m hm).2⟩
  | set p i pn v =>
    simp only [TreeProps.step] at hm ⊢
    cases hl : lookup s.exports p with
    | none => simp only [hl] at hm ⊢; exact hI k m hm
    | some n =>
      simp only [hl] at hm ⊢
      exact ⟨attached_propStep E s n _ m (hI k m hm).1, (hI k m hm).2⟩

theorem inv_runFrom (E : Env) (s : State) (h : List Op) (hI : Inv E s) : Inv E (runFrom E s h) := by
  induction h generalizing s with
  | nil => exact hI
  | cons op h ih => exact ih _ (inv_step E s op hI)

theorem inv_run (E : Env) (h : List Op) : Inv E (run E h) :=
  inv_runFrom E State.init h (by intro k n hk; simp [State.init, lookup] at hk)

/-! ### `managedReply` -/

theorem managedReply_spec (E : Env) (s : State) (p : Str) (ents : List Entry)
    (h : managedReply E s p = some ents) :
    ents.map (·.1) = managedKeys p s.exports ∧
      ∀ k d, (k, d) ∈ ents → k ∈ managedKeys p s.exports ∧
        ∃ n, lookup s.exports k = some n ∧ objDict E (s.stOf E n) n = some d := by
  unfold managedReply at h
  refine ⟨?_, fun k d hm => ?_⟩
  · refine Props.mapM_map_eq (g := fun k => k) (g' := fun (y : Entry) => y.1) (fun x y hxy => ?_) h |>.trans (by simp)
    cases hl : lookup s.exports x with
    | none => simp [hl] at hxy
    | some n =>
      cases hd : objDict E (s.stOf E n) n with
      | none => simp [hl, hd] at hxy
      | some d => simp [hl, hd] at hxy; rw [← hxy]
  · obtain ⟨x, hx, hfx⟩ := Props.mem_of_mapM_some h (k, d) hm
    cases hl : lookup s.exports x with
    | none => simp [hl] at hfx
    | some n =>
      cases hd : objDict E (s.stOf E n) n with
      | none => simp [hl, hd] at hfx
      | some d' =>
        simp [hl, hd] at hfx
        obtain ⟨rfl, rfl⟩ := hfx
        exact ⟨hx, n, hl, hd⟩

theorem managedReply_isSome (E : Env) (s : State) (p : Str)
    (h : ∀ k ∈ managedKeys p s.exports, ∃ n, lookup s.exports k = some n ∧ (objDict E (s.stOf E n) n).isSome = true) :
    ∃ ents, managedReply E s p = some ents := by
  unfold managedReply
  apply Props.mapM_some_of_forall
  intro k hk
  obtain ⟨n, hn, hd⟩ := h k hk
  cases hdd : objDict E (s.stOf E n) n with
  | none => rw [hdd] at hd; cases hd
  | some d => exact ⟨(k, d), by simp [hn, hdd]⟩

/-- The selected paths, in terms of the spec (shared with the abstract model). -/
theorem mem_managedKeys_iff_below {α : Type} (h : List Txdbus.Obj.Op) (wf : WfHistory h) (e : Table α)
    (he : keys e = keys (Tree.run h)) (p : Path) (hp : ValidPath p) (k : Str) :
    k ∈ managedKeys (render p) e ↔ ∃ q, q ∈ below p (exportedPaths h) ∧ k = render q := by
  rw [mem_managedKeys, he]
  constructor
  · rintro ⟨hk, hsw, hne⟩
    obtain ⟨q, hq, rfl, hqE⟩ := key_valid h wf k hk
    obtain ⟨e', rest, rfl⟩ := (TreePath.startsWith_dirPrefix_ne p q hp hq).mp ⟨hsw, hne⟩
    exact ⟨_, (mem_below p _ _).mpr ⟨hqE, e', rest, rfl⟩, rfl⟩
  · rintro ⟨q, hq, rfl⟩
    obtain ⟨hqE, hbelow⟩ := (mem_below p q _).mp hq
    have hqv := ((mem_exportedPaths h q).mp hqE).1
    have := (TreePath.startsWith_dirPrefix_ne p q hp hqv).mpr hbelow
    exact ⟨mem_keys_of_exported h q hqE, this.1, this.2⟩

theorem nodup_managedKeys {α : Type} (p : Str) (e : Table α) (h : (keys e).Nodup) : (managedKeys p e).Nodup := by
  unfold managedKeys
  exact ((sortStr_perm (keys e)).nodup_iff.mpr h).filter _

/-- For an interface the object has, C17's `_dbus_PropertyGetAll` model answers with the marshalled
`getAllProperties` - the dict this model puts into the GetManagedObjects reply. -/
theorem opGetAll_of_ifaceDict (E : Env) (st : Props.St) (n : Nat) (i : Str) (l : PropDict)
    (hi : i ∈ (E.wOf n).ifaces.map (·.name)) (hl : ifaceDict E st n i = some l) :
    Props.opGetAll E.cfg (E.wOf n) st n i = .retD l := by
  unfold Props.opGetAll
  have hno : ¬ (E.cfg.getAllUnknownErr = true ∧ i ≠ [] ∧ ((E.wOf n).ifaces.all fun f => decide (f.name ≠ i)) = true) := by
    rintro ⟨_, _, hall⟩
    obtain ⟨f, hf, rfl⟩ := List.mem_map.mp hi
    have := List.all_eq_true.mp hall f hf
    simp at this
  rw [if_neg hno]
  unfold ifaceDict at hl
  cases hg : Props.getAllProperties E.cfg (E.wOf n) st n i with
  | none => simp [hg] at hl
  | some r =>
    simp only [hg, Option.bind_some] at hl
    simp only [hl]

theorem ifaceDict_of_opGetAll (E : Env) (st : Props.St) (n : Nat) (i : Str) (l : PropDict)
    (h : Props.opGetAll E.cfg (E.wOf n) st n i = .retD l) : ifaceDict E st n i = some l := by
  unfold Props.opGetAll at h
  split at h
  · cases h
  · unfold ifaceDict
    cases hg : Props.getAllProperties E.cfg (E.wOf n) st n i with
    | none => simp [hg] at h
    | some r =>
      simp only [hg, Option.bind_some] at h ⊢
      split at h
      · rename_i l' hl'
        cases h
        exact hl'
      · cases h

theorem wf_absHistFrom (E : Env) (s : State) (h : List Op)
    (hv : ∀ n, Op.export n ∈ h → ValidText (E.pathOf n)) : WfHistory (absHistFrom E s h) := by
  induction h generalizing s with
  | nil => intro o ho; cases ho
  | cons op h ih =>
    have hv' : ∀ n, Op.export n ∈ h → ValidText (E.pathOf n) := fun n hn => hv n (List.mem_cons_of_mem _ hn)
    cases op with
    | «export» n =>
      intro o ho
      simp only [absHistFrom, List.mem_cons, Txdbus.Obj.Op.export.injEq] at ho
      rcases ho with rfl | ho
      · exact hv n List.mem_cons_self
      · exact ih _ hv' o ho
    | unexport p =>
      intro o ho
      simp only [absHistFrom, List.mem_cons, reduceCtorEq, false_or] at ho
      exact ih _ hv' o ho
    | assign n a v => exact ih _ hv'
    | set p i pn v => exact ih _ hv'

theorem runFrom_append (E : Env) (s : State) (h : List Op) (op : Op) :
    runFrom E s (h ++ [op]) = (step E (runFrom E s h) op).state := by
  induction h generalizing s with
  | nil => rfl
  | cons o h ih => simp only [List.cons_append, runFrom]; exact ih _

theorem run_append (E : Env) (h : List Op) (op : Op) : run E (h ++ [op]) = (step E (run E h) op).state :=
  runFrom_append E State.init h op

/-- The reply fails exactly when the announcement of some selected object cannot be built. -/
theorem managedReply_none_iff (E : Env) (s : State) (p : Str)
    (hk : ∀ k ∈ managedKeys p s.exports, (lookup s.exports k).isSome = true) :
    managedReply E s p = none ↔
      ∃ k ∈ managedKeys p s.exports, ∃ n, lookup s.exports k = some n ∧ objDict E (s.stOf E n) n = none := by
  have hsome := mapM_isSome (fun k => (lookup s.exports k).bind fun n => (objDict E (s.stOf E n) n).map fun d => (k, d))
    (managedKeys p s.exports)
  unfold managedReply
  constructor
  · intro hnone
    rw [hnone] at hsome
    have : ¬ ∀ k ∈ managedKeys p s.exports,
        ((lookup s.exports k).bind fun n => (objDict E (s.stOf E n) n).map fun d => (k, d)).isSome = true := by
      intro hall
      have := List.all_eq_true.mpr hall
      rw [← hsome] at this
      cases this
    apply Classical.byContradiction
    intro hcon
    apply this
    intro k hkm
    cases hl : lookup s.exports k with
    | none => have := hk k hkm; rw [hl] at this; cases this
    | some n =>
      cases hd : objDict E (s.stOf E n) n with
      | none => exact absurd ⟨k, hkm, n, hl, hd⟩ hcon
      | some d => simp [hd]
  · rintro ⟨k, hkm, n, hl, hd⟩
    cases hm : (managedKeys p s.exports).mapM
        (fun k => (lookup s.exports k).bind fun n => (objDict E (s.stOf E n) n).map fun d => (k, d)) with
    | none => rfl
    | some r =>
      rw [hm] at hsome
      have := List.all_eq_true.mp hsome.symm k hkm
      simp [hl, hd] at this

end Txdbus.Obj.TreeProps
