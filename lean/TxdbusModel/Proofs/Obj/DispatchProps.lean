/-
C10 x C17 lemmas (extension 2026-09-30): what the dispatcher sends for the outcome of a library
function of `DBusObject`, observed the way C17 observes replies.
-/
import TxdbusModel.Obj.DispatchProps
import TxdbusModel.Proofs.Obj.DispatchMain

namespace Txdbus.Obj.DispatchProofs

open Txdbus.Obj.Dispatch Txdbus.Obj.DispatchSpec Txdbus.Obj.DispatchProps

/-! ### the environment of a history with Properties calls -/

/-- The parameters of the dispatcher in the composition with C17:
* `enc`   - whether a result of the three LIBRARY functions can be marshalled is C17's business
            (`Props.encodeVariant` inside `opGet` / `opGetAll`; an unmarshallable result is C17's
            `err value`), so the dispatcher's own parameter does not object under the three reply
            signatures `v` / `` / `a{sv}`; for every other signature (user methods of the same
            history) it is unconstrained;
* `fix`   - the repaired `send_error`;
* `valid` - `validateErrorName` accepts the names `org.txdbus.PythonException.<Class>` that can occur;
* `vname`, `vcls` - the exception Python raises on a bad value carries no `dbusErrorName` and is
            not a plain `Exception` (it is a ValueError / TypeError / OverflowError / MarshallingError). -/
structure LibEnvOK (env : Env PV) (L : Lib) : Prop where
  enc : ∀ sg body, sg ∈ [Gen.DispatchBuiltin.getReplySig.toList, Gen.DispatchBuiltin.setReplySig.toList,
    Gen.DispatchBuiltin.getAllReplySig.toList] → env.encErr sg body = none
  fix : env.textFix = fixRepaired
  valid : ∀ cat, env.validErr (pyExceptionPrefix ++ (excOfCat L cat).cls) = true
  vname : L.vexc.errName = none
  vcls : L.vexc.cls ≠ invalidProperty.cls

/-- C17's outcome as far as a reply on the wire can tell: the categories that only say "Python raised"
are one. -/
def normOut : Props.Out → Props.Out
  | .err .noAttr => .err .value
  | .err .unknownObject => .err .value
  | o => o

/-- The outcomes that are replies. -/
def isReplyOut : Props.Out → Bool
  | .ret => true
  | .retV _ _ => true
  | .retD _ => true
  | .err _ => true
  | _ => false

/-- The declared return signature fits the outcome (Set: '', Get: 'v', GetAll: 'a{sv}'). -/
def sigFits (sigOut : Str) : Props.Out → Prop
  | .ret => sigOut = Gen.DispatchBuiltin.setReplySig.toList
  | .retV _ _ => sigOut = Gen.DispatchBuiltin.getReplySig.toList
  | .retD _ => sigOut = Gen.DispatchBuiltin.getAllReplySig.toList
  | _ => True

/-- What `send_reply` / `send_error` send for an outcome that is available at once. -/
def fireOutcome (env : Env PV) (p : Pending) : Outcome PV → List (Event PV)
  | .value r => fire env p (.value r)
  | .raise e => fire env p (.fail e)
  | .deferred => []

/-! ### table facts -/

theorem table_exc_no_name :
    invalidProperty.errName = none ∧ notReadable.errName = none ∧ notWritable.errName = none ∧
    invalidInterface.errName = none := ⟨rfl, rfl, rfl, rfl⟩

theorem excOfCat_errName (L : Lib) (hv : L.vexc.errName = none) (cat : Props.ErrCat) :
    (excOfCat L cat).errName = none := by
  cases cat <;> first | exact hv | rfl

theorem errCat_table :
    errCat (pyExceptionPrefix ++ invalidProperty.cls) (escapeNul invalidProperty.text) = some .unknownProp ∧
    errCat (pyExceptionPrefix ++ notReadable.cls) (escapeNul notReadable.text) = some .notReadable ∧
    errCat (pyExceptionPrefix ++ notWritable.cls) (escapeNul notWritable.text) = some .notWritable ∧
    errCat (pyExceptionPrefix ++ invalidInterface.cls) (escapeNul invalidInterface.text) = some .unknownIface := by
  decide

theorem prefix_not_unknownObject : pyExceptionPrefix.isPrefixOf unknownObjectName = false := by decide

theorem table_exc_classes :
    notReadable.cls = invalidProperty.cls ∧ notWritable.cls = invalidProperty.cls ∧
    invalidInterface.cls = invalidProperty.cls := by decide

theorem isPrefixOf_append_self (a b : Str) : a.isPrefixOf (a ++ b) = true := by
  induction a with
  | nil => simp [List.isPrefixOf]
  | cons x t ih => simp [ih]

/-- An exception of any class other than the table's, whatever its text, is C17's `value`. -/
theorem errCat_value (cls text : Str) (h : cls ≠ invalidProperty.cls) :
    errCat (pyExceptionPrefix ++ cls) text = some .value := by
  have hne : pyExceptionPrefix ++ cls ≠ pyExceptionPrefix ++ invalidProperty.cls := by
    intro hh; exact h (List.append_cancel_left hh)
  have hu : pyExceptionPrefix ++ cls ≠ unknownObjectName := by
    intro hh
    have := isPrefixOf_append_self pyExceptionPrefix cls
    rw [hh, prefix_not_unknownObject] at this
    cases this
  obtain ⟨c1, c2, c3⟩ := table_exc_classes
  have m : ∀ e : Exc, e.cls = invalidProperty.cls → excMatches e (pyExceptionPrefix ++ cls) text = false := by
    intro e he
    unfold excMatches
    rw [he]
    simp [hne]
  unfold errCat
  rw [if_neg hu, m _ rfl, m _ c1, m _ c2, m _ c3]
  simp [hne, isPrefixOf_append_self]

/-! ### one outcome, sent and observed -/

/-- The reply (at most one message) the dispatcher sends for a library outcome, EXACTLY: serial and
destination of the call, the reply signature of the member, the value C17's model computed; for an
error the name `org.txdbus.PythonException.<Class>` and the exception text as the repaired
`send_error` sends it (NUL escaped). -/
def exactReply (L : Lib) (serial : Nat) (sender : Option Str) : Props.Out → List (Msg PV)
  | .ret => [.ret serial sender (some Gen.DispatchBuiltin.setReplySig.toList) (.vals [.val .none])]
  | .retV s w => [.ret serial sender (some Gen.DispatchBuiltin.getReplySig.toList) (.vals [.variant s w])]
  | .retD l => [.ret serial sender (some Gen.DispatchBuiltin.getAllReplySig.toList) (.vals [.dict l])]
  | .err cat => [.err (pyExceptionPrefix ++ (excOfCat L cat).cls) serial sender (escapeNul (excOfCat L cat).text)]
  | _ => []

theorem fireOutcome_exact (env : Env PV) (L : Lib) (h : LibEnvOK env L) (p : Pending) (out : Props.Out)
    (hs : sigFits p.sigOut out) :
    replies (fireOutcome env p (outcomeOf L out)) =
      (if isReplyOut out then exactReply L p.serial p.sender out
       else [.err (pyExceptionPrefix ++ L.vexc.cls) p.serial p.sender (escapeNul L.vexc.text)]) := by
  have hv : ∀ e : Exc, e.errName = none → env.validErr (pyExceptionPrefix ++ e.cls) = true →
      replies (sendError env p e) = [.err (pyExceptionPrefix ++ e.cls) p.serial p.sender (escapeNul e.text)] := by
    intro e hn hval
    simp only [sendError_eq, errorText, errorName, hn, hval, if_true, h.fix, fixRepaired, replies,
      List.filterMap_cons, List.filterMap_nil]
  cases out with
  | ret =>
    simp only [sigFits] at hs
    have := h.enc p.sigOut [.val .none] (by simp [hs])
    rw [hs] at this
    simp [outcomeOf, fireOutcome, fire, sendReply, this, replies, hs, isReplyOut, exactReply]
  | retV s w =>
    simp only [sigFits] at hs
    have := h.enc p.sigOut [.variant s w] (by simp [hs])
    rw [hs] at this
    simp [outcomeOf, fireOutcome, fire, sendReply, this, replies, hs, isReplyOut, exactReply]
  | retD l =>
    simp only [sigFits] at hs
    have := h.enc p.sigOut [.dict l] (by simp [hs])
    rw [hs] at this
    simp [outcomeOf, fireOutcome, fire, sendReply, this, replies, hs, isReplyOut, exactReply]
  | err cat =>
    simp only [outcomeOf, fireOutcome, fire, isReplyOut, if_true, exactReply]
    exact hv _ (excOfCat_errName L h.vname cat) (h.valid cat)
  | signal o i pn s w =>
    simp only [outcomeOf, fireOutcome, fire, isReplyOut, Bool.false_eq_true, if_false]
    exact hv _ h.vname (h.valid .value)
  | raised =>
    simp only [outcomeOf, fireOutcome, fire, isReplyOut, Bool.false_eq_true, if_false]
    exact hv _ h.vname (h.valid .value)
  | done =>
    simp only [outcomeOf, fireOutcome, fire, isReplyOut, Bool.false_eq_true, if_false]
    exact hv _ h.vname (h.valid .value)

/-- The exact reply, observed the way C17 observes replies, is C17's outcome. -/
theorem exactReply_obs (L : Lib) (hvcls : L.vexc.cls ≠ invalidProperty.cls) (serial : Nat) (sender : Option Str)
    (out : Props.Out) (hr : isReplyOut out = true) :
    (exactReply L serial sender out).map obsMsg = [some (normOut out)] := by
  cases out with
  | ret => simp [exactReply, obsMsg, normOut]
  | retV s w => simp [exactReply, obsMsg, normOut]
  | retD l => simp [exactReply, obsMsg, normOut]
  | err cat =>
    obtain ⟨t1, t2, t3, t4⟩ := errCat_table
    simp only [exactReply, List.map_cons, List.map_nil, obsMsg]
    cases cat with
    | unknownProp => simp [excOfCat, t1, normOut]
    | notReadable => simp [excOfCat, t2, normOut]
    | notWritable => simp [excOfCat, t3, normOut]
    | unknownIface => simp [excOfCat, t4, normOut]
    | value => simp [excOfCat, errCat_value _ _ hvcls, normOut]
    | noAttr => simp [excOfCat, errCat_value _ _ hvcls, normOut]
    | unknownObject => simp [excOfCat, errCat_value _ _ hvcls, normOut]
  | signal o i pn s w => simp [isReplyOut] at hr
  | raised => simp [isReplyOut] at hr
  | done => simp [isReplyOut] at hr

theorem fireOutcome_obs (env : Env PV) (L : Lib) (h : LibEnvOK env L) (p : Pending) (out : Props.Out)
    (hr : isReplyOut out = true) (hs : sigFits p.sigOut out) :
    (replies (fireOutcome env p (outcomeOf L out))).map obsMsg = [some (normOut out)] := by
  rw [fireOutcome_exact env L h p out hs, if_pos hr]
  exact exactReply_obs L h.vcls _ _ out hr

/-- The outcome of a library function is available at once (no Deferred). -/
theorem outcomeOf_not_deferred (L : Lib) (out : Props.Out) : outcomeOf L out ≠ .deferred := by
  cases out <;> simp [outcomeOf]

theorem resultOf_outcomeOf (ops : List (Op PV)) (k : Nat) (L : Lib) (out : Props.Out) (env : Env PV) (p : Pending) :
    (match resultOf ops k (outcomeOf L out) with
      | some res => replies (fire env p res)
      | none => []) = replies (fireOutcome env p (outcomeOf L out)) := by
  cases out <;> simp [outcomeOf, resultOf, fireOutcome]

/-! ### the shapes of C17's three operations -/

theorem opGet_isReply (cfg : Props.Cfg) (W : Props.World) (st : Props.St) (o : Nat) (i p : Str) :
    isReplyOut (Props.opGet cfg W st o i p) = true := by
  unfold Props.opGet
  repeat' split
  all_goals rfl

theorem opGet_sigFits (cfg : Props.Cfg) (W : Props.World) (st : Props.St) (o : Nat) (i p : Str) :
    sigFits Gen.DispatchBuiltin.getReplySig.toList (Props.opGet cfg W st o i p) := by
  unfold Props.opGet
  repeat' split
  all_goals simp [sigFits]

theorem opGetAll_isReply (cfg : Props.Cfg) (W : Props.World) (st : Props.St) (o : Nat) (i : Str) :
    isReplyOut (Props.opGetAll cfg W st o i) = true := by
  unfold Props.opGetAll
  repeat' split
  all_goals rfl

theorem opGetAll_sigFits (cfg : Props.Cfg) (W : Props.World) (st : Props.St) (o : Nat) (i : Str) :
    sigFits Gen.DispatchBuiltin.getAllReplySig.toList (Props.opGetAll cfg W st o i) := by
  unfold Props.opGetAll
  repeat' split
  all_goals simp [sigFits]

theorem replyOut_snoc (l : List Props.Out) (x : Props.Out) : replyOut (l ++ [x]) = x := by
  simp [replyOut]

/-- `opSet` ends in its reply: the empty method return after the signals, or one error. -/
theorem opSet_reply (cfg : Props.Cfg) (W : Props.World) (st : Props.St) (o : Nat) (i p : Str) (v : PVal) :
    replyOut (Props.opSet cfg W st o i p v).2 = .ret ∨
    ∃ cat, replyOut (Props.opSet cfg W st o i p v).2 = .err cat := by
  unfold Props.opSet
  repeat' split
  all_goals first
    | (left; exact replyOut_snoc _ _)
    | (right; exact ⟨_, rfl⟩)

theorem opSet_isReply (cfg : Props.Cfg) (W : Props.World) (st : Props.St) (o : Nat) (i p : Str) (v : PVal) :
    isReplyOut (replyOut (Props.opSet cfg W st o i p v).2) = true := by
  rcases opSet_reply cfg W st o i p v with h | ⟨cat, h⟩ <;> rw [h] <;> rfl

theorem opSet_sigFits (cfg : Props.Cfg) (W : Props.World) (st : Props.St) (o : Nat) (i p : Str) (v : PVal) :
    sigFits Gen.DispatchBuiltin.setReplySig.toList (replyOut (Props.opSet cfg W st o i p v).2) := by
  rcases opSet_reply cfg W st o i p v with h | ⟨cat, h⟩ <;> rw [h] <;> simp [sigFits]

/-! ### lookup of a Properties call -/

/-- The Properties interface of `o` (first declared interface of that name) has `member` with these
signatures, and the implementation bound to it is the function with this id, which does not ask for
the caller. -/
def serves (o : Obj) (member : Str) (id : Nat) (sigIn sigOut : Str) : Bool :=
  match (declared o).find? (fun x => x.name = propsName) with
  | some i =>
    match memberOf i member with
    | some m =>
      m.sigIn == sigIn && m.sigOut == sigOut &&
        (match bound o i.name member with
         | some f => f.id == id && !f.wantsCaller
         | none => false)
    | none => false
  | none => false

/-- The object's Properties interface is DBusObject's, served by DBusObject's three functions: no
class of the chain redeclares the interface, defines `dbus_Get` / `dbus_Set` / `dbus_GetAll`, or
decorates a function of its own for it. -/
def LibraryServes (o : Obj) : Prop :=
  serves o getMember getId "ss".toList Gen.DispatchBuiltin.getReplySig.toList = true ∧
  serves o setMember setId "ssv".toList Gen.DispatchBuiltin.setReplySig.toList = true ∧
  serves o getAllMember getAllId "s".toList Gen.DispatchBuiltin.getAllReplySig.toList = true

instance (o : Obj) : Decidable (LibraryServes o) := by unfold LibraryServes; infer_instance

theorem propsName_not_builtin :
    propsName ≠ [] ∧ propsName ≠ peerPair.1 ∧ propsName ≠ introspectPair.1 ∧ propsName ≠ managedPair.1 := by
  decide

theorem addressedIface_named (o : Obj) (c : Call PV) (n : Str) (hn : n ≠ []) (hi : c.iface = some n) :
    addressedIface o c = (declared o).find? fun i => i.name = n := by
  unfold addressedIface
  rw [hi]
  cases n with
  | nil => exact absurd rfl hn
  | cons ch t => rfl

theorem isPair_false_of_iface (c : Call PV) (p : Str × Str) (n : Str) (hi : c.iface = some n) (hn : n ≠ p.1) :
    isPair c p = false := by
  unfold isPair
  rw [hi]
  have : ¬ (some n = some p.1) := fun h => hn (Option.some.inj h)
  simp [this]

/-- The verdict of a call to a member of the Properties interface that the library serves. -/
theorem verdict_props (ex : Exports) (c : Call PV) (o : Obj) (member : Str) (id : Nat) (sigIn sigOut : Str)
    (ho : exported ex c.path = some o) (hs : serves o member id sigIn sigOut = true)
    (hi : c.iface = some propsName) (hm : c.member = member) (hsig : c.sig.getD [] = sigIn) :
    ∃ f m, verdict ex c = .run f m ∧ f.id = id ∧ f.wantsCaller = false ∧ m.sigOut = sigOut := by
  obtain ⟨n0, n1, n2, n3⟩ := propsName_not_builtin
  unfold serves at hs
  cases hf : (declared o).find? (fun x => x.name = propsName) with
  | none => simp [hf] at hs
  | some i =>
    simp only [hf] at hs
    cases hmm : memberOf i member with
    | none => simp [hmm] at hs
    | some m =>
      simp only [hmm] at hs
      cases hb : bound o i.name member with
      | none => simp [hb] at hs
      | some f =>
        simp only [hb, Bool.and_eq_true, beq_iff_eq, Bool.not_eq_true'] at hs
        obtain ⟨⟨h1, h2⟩, h3, h4⟩ := hs
        refine ⟨f, m, ?_, h3, h4, h2⟩
        unfold verdict
        rw [isPair_false_of_iface c _ _ hi n1, isPair_false_of_iface c _ _ hi n2,
          isPair_false_of_iface c _ _ hi n3]
        simp only [Bool.false_and, Bool.false_eq_true, if_false, ho]
        unfold addressed
        rw [addressedIface_named o c propsName n0 hi, hf, hm]
        simp only [hmm, Option.map_some, hsig, h1, ne_eq, not_true_eq_false, if_false, hb]

/-- The replies to a Properties call the library serves, in a whole history: what `send_reply` /
`send_error` make of the library function's outcome. -/
theorem replies_props (env : Env PV) (ex : Exports) (ops : List (Op PV))
    (k : Nat) (c : Call PV) (b : Nat → Outcome PV) (hk : ops[k]? = some (.call c b))
    (he : c.expectReply = true) (f : Func) (m : Method)
    (hv : verdict (exportsAt ex ops k) c = .run f m) (L : Lib) (out : Props.Out)
    (hb : b f.id = outcomeOf L out) :
    replies (eventsOf k (run env ex ops).2) = replies (fireOutcome env (pendingOf k c m) (outcomeOf L out)) := by
  rw [eventsOf_run, replies_run env ex ops k c b hk f m hv he, hb]
  cases out <;> simp [outcomeOf, resultOf, fireOutcome]

/-- ... for a member the library serves: the replies are what the library function's outcome makes
`send_reply` / `send_error` send under the member's declared return signature. -/
theorem replies_props_served (env : Env PV) (ex : Exports) (ops : List (Op PV))
    (k : Nat) (c : Call PV) (b : Nat → Outcome PV) (hk : ops[k]? = some (.call c b))
    (he : c.expectReply = true) (o : Obj) (ho : exported (exportsAt ex ops k) c.path = some o)
    (member : Str) (id : Nat) (sigIn sigOut : Str) (hs : serves o member id sigIn sigOut = true)
    (hi : c.iface = some propsName) (hm : c.member = member) (hsig : c.sig.getD [] = sigIn)
    (L : Lib) (out : Props.Out) (hb : b id = outcomeOf L out) :
    ∃ m : Method, m.sigOut = sigOut ∧
      replies (eventsOf k (run env ex ops).2) =
        replies (fireOutcome env (pendingOf k c m) (outcomeOf L out)) := by
  obtain ⟨f, m, hv, hid, _, hso⟩ := verdict_props (exportsAt ex ops k) c o member id sigIn sigOut ho hs hi hm hsig
  exact ⟨m, hso, replies_props env ex ops k c b hk he f m hv L out (by rw [hid]; exact hb)⟩

theorem lib_ids_distinct : getId ≠ setId ∧ getId ≠ getAllId ∧ setId ≠ getAllId := by decide

theorem libBehav_get (L : Lib) (st : Props.St) (c : Call PV) (user : Nat → Outcome PV) (i p : Str)
    (hb : c.body = [.str i, .str p]) :
    libBehav L st c user getId = outcomeOf L (Props.opGet L.cfg L.W st L.o i p) := by
  simp [libBehav, hb, libGet]

theorem libBehav_set (L : Lib) (st : Props.St) (c : Call PV) (user : Nat → Outcome PV) (i p : Str) (v : PVal)
    (hb : c.body = [.str i, .str p, .val v]) :
    libBehav L st c user setId = outcomeOf L (replyOut (Props.opSet L.cfg L.W st L.o i p v).2) := by
  obtain ⟨d1, _, _⟩ := lib_ids_distinct
  have : ¬ (setId = getId) := fun h => d1 h.symm
  simp [libBehav, hb, libSet, this]

theorem libBehav_getAll (L : Lib) (st : Props.St) (c : Call PV) (user : Nat → Outcome PV) (i : Str)
    (hb : c.body = [.str i]) :
    libBehav L st c user getAllId = outcomeOf L (Props.opGetAll L.cfg L.W st L.o i) := by
  obtain ⟨_, d2, d3⟩ := lib_ids_distinct
  have h1 : ¬ (getAllId = getId) := fun h => d2 h.symm
  have h2 : ¬ (getAllId = setId) := fun h => d3 h.symm
  simp [libBehav, hb, libGetAll, h1, h2]

/-- The error reply for a category the code decides, exactly: name `org.txdbus.PythonException.<Class>`,
the code's text (it has no NUL: the escape leaves it alone). -/
theorem fireOutcome_err_exact (env : Env PV) (L : Lib) (h : LibEnvOK env L) (p : Pending) (cat : Props.ErrCat)
    (hnul : '\x00' ∉ (excOfCat L cat).text) :
    replies (fireOutcome env p (outcomeOf L (.err cat))) =
      [.err (pyExceptionPrefix ++ (excOfCat L cat).cls) p.serial p.sender (excOfCat L cat).text] := by
  have hn := excOfCat_errName L h.vname cat
  have hvalid := h.valid cat
  simp only [outcomeOf, fireOutcome, fire, sendError_eq, errorText, errorName, hn, hvalid, if_true, h.fix,
    fixRepaired, replies, List.filterMap_cons, List.filterMap_nil, escapeNul_id _ hnul]

theorem table_texts_no_nul :
    '\x00' ∉ invalidProperty.text ∧ '\x00' ∉ notReadable.text ∧ '\x00' ∉ notWritable.text ∧
    '\x00' ∉ invalidInterface.text := by decide

/-! ### `callStep`: when C17's state moves -/

theorem invokedIn_tag (id k : Nat) (evs : List (Event PV)) :
    invokedIn id (evs.map fun e => (k, e)) = (invocations evs).any (fun x => x.1 == id) := by
  induction evs with
  | nil => rfl
  | cons e t ih =>
    unfold invokedIn at ih ⊢
    cases e with
    | sent m => simpa [invocations] using ih
    | invoked f a cl =>
      simp only [List.map_cons, List.any_cons, invocations, List.filterMap_cons]
      simp only [invocations] at ih
      rw [ih]

theorem invocations_handleCall (env : Env PV) (ex : Exports) (k : Nat) (c : Call PV) (b : Nat → Outcome PV) :
    invocations (handleCall env ex k c b).1 = expectedInvocations c (verdict ex c) := by
  rw [handleCall_eq, expectedCall_split]
  simp only [invocations_append, callInv_invocations, (callReplies_replyish env k c b _).invocations,
    List.append_nil]

/-- The call is dispatched to `_dbus_PropertySet` (whatever it answers, whether or not a reply is expected). -/
def runsSet (ex : Exports) (c : Call PV) : Bool :=
  match verdict ex c with
  | .run f _ => f.id == setId
  | _ => false

theorem invokedIn_step_call (env : Env PV) (s : State) (c : Call PV) (b : Nat → Outcome PV) (id : Nat) :
    invokedIn id (step env s (.call c b)).2 =
      (match verdict s.exports c with
       | .run f _ => f.id == id
       | _ => false) := by
  simp only [step]
  rw [invokedIn_tag, invocations_handleCall]
  cases verdict s.exports c <;> simp [expectedInvocations, expectedInvocation]

/-- `callStep`: the dispatcher's part is its ordinary step with the library behaviours; C17's state after
the call is `opSet`'s (through `libSet`) exactly when the call is dispatched to `_dbus_PropertySet` - path
exported, interface and member found, signature `ssv`, the library function bound - and unchanged in
every other case (failed lookups, other members, other objects' calls).  `expectReply` plays no role. -/
theorem callStep_state (env : Env PV) (L : Lib) (s : State) (st : Props.St) (c : Call PV)
    (user : Nat → Outcome PV) :
    (callStep env L s st c user).1 = (step env s (.call c (libBehav L st c user))).1 ∧
    (callStep env L s st c user).2.2.1 = (step env s (.call c (libBehav L st c user))).2 ∧
    (callStep env L s st c user).2.1 = (if runsSet s.exports c then (libSet L st c.body).2.1 else st) ∧
    (callStep env L s st c user).2.2.2 = (if runsSet s.exports c then (libSet L st c.body).2.2 else []) := by
  unfold callStep runsSet
  simp only [invokedIn_step_call]
  cases hv : verdict s.exports c with
  | run f m =>
    simp only
    by_cases hf : (f.id == setId) = true
    · simp [hf]
    · simp [hf]
  | builtin x => simp
  | unknownObject => simp
  | unknownMethod => simp
  | invalidArgs m => simp
  | unbound m => simp

/-! ### when the library serves the Properties interface -/

/-- A class of the chain leaves the Properties interface to `DBusObject`: it declares no interface of that
name, defines no attribute under a name the resolution would look for (`dbus_Get` / `dbus_Set` /
`dbus_GetAll`, or the names of DBusObject's three functions, which the decorator table takes BY NAME from
the instance), and decorates no function for the interface. -/
def LeavesPropsAlone (c : Class) : Prop :=
  (∀ i ∈ c.ifaces.getD [], i.name ≠ propsName) ∧
  (∀ a ∈ c.attrs, a.1 ∉ [attrPrefix ++ getMember, attrPrefix ++ setMember, attrPrefix ++ getAllMember,
      Gen.DispatchBuiltin.getFunc.1.toList, Gen.DispatchBuiltin.setFunc.1.toList,
      Gen.DispatchBuiltin.getAllFunc.1.toList]) ∧
  (∀ a ∈ c.attrs, ∀ i m, a.2.deco = some (i, m) → i ≠ propsName)

theorem find?_append_of_none {α : Type} (l l' : List α) (p : α → Bool) (h : ∀ a ∈ l, p a = false) :
    (l ++ l').find? p = l'.find? p := by
  induction l with
  | nil => rfl
  | cons a t ih =>
    simp only [List.cons_append, List.find?_cons, h a List.mem_cons_self]
    exact ih (fun x hx => h x (List.mem_cons_of_mem _ hx))

theorem findSome?_append_of_none {α β : Type} (l l' : List α) (f : α → Option β) (h : ∀ a ∈ l, f a = none) :
    (l ++ l').findSome? f = l'.findSome? f := by
  induction l with
  | nil => rfl
  | cons a t ih =>
    simp only [List.cons_append, List.findSome?_cons, h a List.mem_cons_self]
    exact ih (fun x hx => h x (List.mem_cons_of_mem _ hx))

theorem find?_none_of_forall {α : Type} (l : List α) (p : α → Bool) (h : ∀ a ∈ l, p a = false) :
    l.find? p = none := by
  rw [List.find?_eq_none]
  intro a ha
  simp [h a ha]

/-- what `serves` computes on `DBusObject` alone (decide on the generated table) -/
theorem serves_base :
    serves { classes := [baseClass] } getMember getId "ss".toList Gen.DispatchBuiltin.getReplySig.toList = true ∧
    serves { classes := [baseClass] } setMember setId "ssv".toList Gen.DispatchBuiltin.setReplySig.toList = true ∧
    serves { classes := [baseClass] } getAllMember getAllId "s".toList Gen.DispatchBuiltin.getAllReplySig.toList = true := by
  decide

/-- the decorator table of `DBusObject` for the three members: its three functions, by name -/
theorem base_decorated_names :
    [baseClass].findSome? (fun c => decoratedName c propsName getMember) = some Gen.DispatchBuiltin.getFunc.1.toList ∧
    [baseClass].findSome? (fun c => decoratedName c propsName setMember) = some Gen.DispatchBuiltin.setFunc.1.toList ∧
    [baseClass].findSome? (fun c => decoratedName c propsName getAllMember) = some Gen.DispatchBuiltin.getAllFunc.1.toList := by
  decide

theorem attr_user_append (user : List Class) (name : Str)
    (h : ∀ c ∈ user, ∀ a ∈ c.attrs, a.1 ≠ name) :
    attr { classes := user ++ [baseClass] } name = attr { classes := [baseClass] } name := by
  unfold attr
  apply findSome?_append_of_none
  intro c hc
  rw [find?_none_of_forall]
  · rfl
  · intro a ha
    simp [h c hc a ha]

/-- Prepending classes that leave the Properties interface alone does not change who serves it. -/
theorem serves_user_append (user : List Class) (h : ∀ c ∈ user, LeavesPropsAlone c)
    (member : Str) (id : Nat) (sigIn sigOut : Str)
    (hmem : member = getMember ∨ member = setMember ∨ member = getAllMember)
    (hbase : serves { classes := [baseClass] } member id sigIn sigOut = true) :
    serves { classes := user ++ [baseClass] } member id sigIn sigOut = true := by
  -- the declared interfaces: the user's have other names
  have hdecl : (declared { classes := user ++ [baseClass] }).find? (fun x => x.name = propsName) =
      (declared { classes := [baseClass] }).find? (fun x => x.name = propsName) := by
    unfold declared
    rw [List.flatMap_append]
    apply find?_append_of_none
    intro i hi
    obtain ⟨c, hc, hic⟩ := List.mem_flatMap.mp hi
    simpa using (h c hc).1 i hic
  -- dbus_<member>: no user class has it
  have hdbus : attr { classes := user ++ [baseClass] } (attrPrefix ++ member) =
      attr { classes := [baseClass] } (attrPrefix ++ member) := by
    apply attr_user_append
    intro c hc a ha heq
    have := (h c hc).2.1 a ha
    rcases hmem with hm | hm | hm <;> subst hm <;> simp [heq] at this
  -- the decorator table: no user class decorates for the interface
  have hdeco : ∀ iname, iname = propsName →
      ({ classes := user ++ [baseClass] } : Obj).classes.findSome? (fun c => decoratedName c iname member) =
      ({ classes := [baseClass] } : Obj).classes.findSome? (fun c => decoratedName c iname member) := by
    intro iname hin
    apply findSome?_append_of_none
    intro c hc
    have hne : iname ≠ [] := by rw [hin]; exact propsName_not_builtin.1
    unfold decoratedName lastDecorated
    rw [if_pos hne, find?_none_of_forall]
    · rfl
    · intro a ha
      have ha' : a ∈ c.attrs := List.mem_reverse.mp ha
      cases hd : a.2.deco with
      | none => simp
      | some im =>
        obtain ⟨i, m⟩ := im
        have := (h c hc).2.2 a ha' i m hd
        have hne' : ¬ (i = iname) := by rw [hin]; exact this
        simp [hne']
  unfold serves at hbase ⊢
  rw [hdecl]
  cases hf : (declared { classes := [baseClass] }).find? (fun x => x.name = propsName) with
  | none => simp [hf] at hbase
  | some i =>
    simp only [hf] at hbase ⊢
    have hiname : i.name = propsName := by
      have := List.find?_some hf
      simpa using this
    cases hmm : memberOf i member with
    | none => simp [hmm] at hbase
    | some m =>
      simp only [hmm] at hbase ⊢
      have hbound : bound { classes := user ++ [baseClass] } i.name member =
          bound { classes := [baseClass] } i.name member := by
        unfold bound decorated
        rw [hdbus, hdeco i.name hiname]
        -- the name the table answers is one of DBusObject's three functions: no user class has it
        cases hn : ({ classes := [baseClass] } : Obj).classes.findSome? (fun c => decoratedName c i.name member) with
        | none => rfl
        | some name =>
          have hname : name ∈ [Gen.DispatchBuiltin.getFunc.1.toList, Gen.DispatchBuiltin.setFunc.1.toList,
              Gen.DispatchBuiltin.getAllFunc.1.toList] := by
            rw [hiname] at hn
            obtain ⟨d1, d2, d3⟩ := base_decorated_names
            rcases hmem with hm | hm | hm <;> subst hm
            · rw [d1] at hn; injection hn with hn; simp [← hn]
            · rw [d2] at hn; injection hn with hn; simp [← hn]
            · rw [d3] at hn; injection hn with hn; simp [← hn]
          have hattr : attr { classes := user ++ [baseClass] } name = attr { classes := [baseClass] } name := by
            apply attr_user_append
            intro c hc a ha heq
            have := (h c hc).2.1 a ha
            rw [heq] at this
            simp only [List.mem_cons, List.not_mem_nil, or_false, not_or] at this hname
            rcases hname with hh | hh | hh
            · exact this.2.2.2.1 hh
            · exact this.2.2.2.2.1 hh
            · exact this.2.2.2.2.2 hh
          simp only [hattr]
      rw [hbound]
      exact hbase

/-- An object whose classes (below `DBusObject`) leave the Properties interface alone is served by the library. -/
theorem libraryServes_of_plain (user : List Class) (h : ∀ c ∈ user, LeavesPropsAlone c) :
    LibraryServes { classes := user ++ [baseClass] } := by
  obtain ⟨b1, b2, b3⟩ := serves_base
  exact ⟨serves_user_append user h _ _ _ _ (Or.inl rfl) b1,
    serves_user_append user h _ _ _ _ (Or.inr (Or.inl rfl)) b2,
    serves_user_append user h _ _ _ _ (Or.inr (Or.inr rfl)) b3⟩

end Txdbus.Obj.DispatchProofs
