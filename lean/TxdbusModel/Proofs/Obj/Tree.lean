/-
C16 - lemmas about the code model of the exports table (Python dict semantics), the two loops
(`childLoop`, `managed`), `sorted`, dict-key collection, and about the spec functions
(`dedup`, `children`, `below`, `exportedAfter`, `exportedPaths`).
-/
import TxdbusModel.Obj.Tree
import TxdbusModel.Proofs.Obj.TreePath

namespace Txdbus.Obj
open TreeSpec Tree

namespace TreeLemmas

/-! ### the table -/

theorem lookup_setItem {α : Type} (e : Table α) (p : Str) (o : α) (s : Str) :
    lookup (setItem e p o) s = if p = s then some o else lookup e s := by
  induction e with
  | nil => simp [setItem, lookup]
  | cons kv e ih =>
    obtain ⟨k, v⟩ := kv
    by_cases hk : k = p
    · subst hk
      by_cases hs : k = s <;> simp [setItem, lookup, hs]
    · by_cases hs : k = s
      · subst hs
        have : ¬ p = k := fun h => hk h.symm
        simp [setItem, lookup, hk, this]
      · simp [setItem, lookup, hk, hs, ih]

theorem lookup_delItem {α : Type} (e : Table α) (p s : Str) :
    lookup (delItem e p) s = if p = s then none else lookup e s := by
  induction e with
  | nil => simp [delItem, lookup]
  | cons kv e ih =>
    obtain ⟨k, v⟩ := kv
    simp only [delItem] at ih
    by_cases hk : k = p
    · subst hk
      by_cases hs : k = s
      · subst hs; simpa [delItem, lookup] using ih
      · simp [delItem, lookup, hs, ih]
    · by_cases hs : k = s
      · subst hs
        have : ¬ p = k := fun h => hk h.symm
        simp [delItem, lookup, hk, this]
      · simp [delItem, lookup, hk, hs, ih]

theorem mem_keys_iff {α : Type} (e : Table α) (s : Str) : s ∈ keys e ↔ (lookup e s).isSome = true := by
  induction e with
  | nil => simp [keys, lookup]
  | cons kv e ih =>
    obtain ⟨k, v⟩ := kv
    simp only [keys, List.map_cons, List.mem_cons] at ih ⊢
    by_cases hs : k = s
    · simp [lookup, hs]
    · have : ¬ s = k := fun h => hs h.symm
      simp [lookup, hs, this, ih]

theorem keys_setItem {α : Type} (e : Table α) (p : Str) (o : α) :
    keys (setItem e p o) = if p ∈ keys e then keys e else keys e ++ [p] := by
  induction e with
  | nil => simp [setItem, keys]
  | cons kv e ih =>
    obtain ⟨k, v⟩ := kv
    simp only [keys, List.map_cons, List.mem_cons] at ih ⊢
    by_cases hk : k = p
    · simp [setItem, hk]
    · have : ¬ p = k := fun h => hk h.symm
      simp only [setItem, hk, if_false, List.map_cons, ih, this, false_or]
      split <;> simp [*]

theorem keys_delItem {α : Type} (e : Table α) (p : Str) : keys (delItem e p) = (keys e).filter (fun k => !(k == p)) := by
  simp [keys, delItem, List.filter_map, Function.comp_def]

theorem nodup_keys_setItem {α : Type} (e : Table α) (p : Str) (o : α) (h : (keys e).Nodup) :
    (keys (setItem e p o)).Nodup := by
  rw [keys_setItem]
  split
  · exact h
  · rename_i hn
    rw [List.nodup_append]
    refine ⟨h, by simp, ?_⟩
    intro a ha b hb
    simp at hb; subst hb
    intro hab; subst hab; exact hn ha

theorem mem_table_iff_lookup {α : Type} (e : Table α) (h : (keys e).Nodup) (k : Str) (v : α) :
    (k, v) ∈ e ↔ lookup e k = some v := by
  induction e with
  | nil => simp [lookup]
  | cons kv e ih =>
    obtain ⟨k0, v0⟩ := kv
    simp only [keys, List.map_cons, List.nodup_cons] at h
    have ih' := ih h.2
    by_cases hk : k0 = k
    · subst hk
      simp only [List.mem_cons, Prod.mk.injEq, true_and, lookup, if_true, Option.some.injEq]
      constructor
      · rintro (h1 | h1)
        · exact h1.symm
        · exact absurd (List.mem_map.mpr ⟨_, h1, rfl⟩) h.1
      · intro h1; exact Or.inl h1.symm
    · have hk' : ¬ k = k0 := fun x => hk x.symm
      simp [lookup, hk, hk', ih']

theorem nodup_keys_step (e : Exports) (op : Op) (h : (keys e).Nodup) : (keys (step e op).exports).Nodup := by
  cases op with
  | «export» o =>
    simp only [step]
    split
    · exact nodup_keys_setItem _ _ _ h
    · exact h
  | unexport p =>
    simp only [step]
    split
    · exact h
    · simp only [keys_delItem]
      exact h.filter _

/-- `run` from an arbitrary table, for inductions over histories. -/
def runFrom (e : Exports) (h : List Op) : Exports := h.foldl (fun e op => (step e op).exports) e

theorem run_eq_runFrom (h : List Op) : run h = runFrom [] h := rfl

theorem runFrom_append (e : Exports) (h : List Op) (op : Op) :
    runFrom e (h ++ [op]) = (step (runFrom e h) op).exports := by
  simp [runFrom, List.foldl_append]

theorem run_append (h : List Op) (op : Op) : run (h ++ [op]) = (step (run h) op).exports :=
  runFrom_append [] h op

theorem nodup_keys_runFrom (e : Exports) (h : List Op) (he : (keys e).Nodup) : (keys (runFrom e h)).Nodup := by
  induction h generalizing e with
  | nil => exact he
  | cons op h ih => exact ih _ (nodup_keys_step e op he)

theorem nodup_keys_run (h : List Op) : (keys (run h)).Nodup :=
  nodup_keys_runFrom [] h (by simp [keys])

/-- One call changes "what is visible at `s`" exactly as the spec says. -/
theorem lookup_step (e : Exports) (op : Op) (s : Str) :
    lookup (step e op).exports s = visibleStep s (lookup e s) op := by
  cases op with
  | «export» o =>
    simp only [step, visibleStep]
    by_cases hs : o.sendable = true
    · simp [hs, lookup_setItem]
    · simp [hs]
  | unexport p =>
    simp only [step, visibleStep]
    split
    · rename_i hnone
      by_cases hps : p = s
      · subst hps; simp [hnone]
      · simp [hps]
    · simp [lookup_delItem]

theorem lookup_runFrom (e : Exports) (h : List Op) (s : Str) :
    lookup (runFrom e h) s = h.foldl (visibleStep s) (lookup e s) := by
  induction h generalizing e with
  | nil => rfl
  | cons op h ih =>
    simp only [runFrom, List.foldl_cons] at ih ⊢
    rw [ih, lookup_step]

theorem lookup_run (h : List Op) (s : Str) : lookup (run h) s = exportedAfter h s := by
  rw [run_eq_runFrom, lookup_runFrom]; rfl

/-! ### several handlers -/

theorem multi_runFrom (T : Multi.Tables) (h : List (Nat × Op)) (k : Nat) :
    (h.foldl (fun T kop => (Multi.step T kop.1 kop.2).tables) T) k = runFrom (T k) (Multi.proj k h) := by
  induction h generalizing T with
  | nil => rfl
  | cons kop h ih =>
    obtain ⟨j, op⟩ := kop
    simp only [List.foldl_cons]
    rw [ih]
    by_cases hj : j = k
    · subst hj
      simp [Multi.proj, Multi.step, Multi.set, runFrom]
    · have hb : (j == k) = false := by simpa using hj
      have hkj : ¬ k = j := fun e => hj e.symm
      simp [Multi.proj, Multi.step, Multi.set, hb, hkj]

/-- Handler `k`'s table after an interleaved history is the table of the calls made on `k` alone. -/
theorem multi_run_proj (h : List (Nat × Op)) (k : Nat) : Multi.run h k = run (Multi.proj k h) := by
  rw [Multi.run, multi_runFrom, run_eq_runFrom]; rfl

/-! ### spec: histories -/

theorem foldl_visible_some (h : List Op) (s : Str) (cur : Option Obj) (o : Obj)
    (hs : h.foldl (visibleStep s) cur = some o) :
    cur = some o ∨ (Op.export o ∈ h ∧ o.path = s ∧ o.sendable = true) := by
  induction h generalizing cur with
  | nil => exact Or.inl hs
  | cons op h ih =>
    simp only [List.foldl_cons] at hs
    rcases ih _ hs with h1 | ⟨h1, h2⟩
    · cases op with
      | «export» o' =>
        simp only [visibleStep] at h1
        split at h1
        · rename_i hp
          cases h1
          exact Or.inr ⟨by simp, hp.2, hp.1⟩
        · exact Or.inl h1
      | unexport q =>
        simp only [visibleStep] at h1
        split at h1
        · cases h1
        · exact Or.inl h1
    · exact Or.inr ⟨List.mem_cons_of_mem _ h1, h2⟩

theorem exportedAfter_some {h : List Op} {s : Str} {o : Obj} (hs : exportedAfter h s = some o) :
    Op.export o ∈ h ∧ o.path = s := by
  rcases foldl_visible_some h s none o hs with h1 | h1
  · cases h1
  · exact ⟨h1.1, h1.2.1⟩

theorem exportedAfter_sendable {h : List Op} {s : Str} {o : Obj} (hs : exportedAfter h s = some o) :
    o.sendable = true := by
  rcases foldl_visible_some h s none o hs with h1 | h1
  · cases h1
  · exact h1.2.2

theorem mem_mentioned {h : List Op} {o : Obj} (ho : Op.export o ∈ h) : o.path ∈ mentioned h := by
  induction h with
  | nil => cases ho
  | cons op h ih =>
    cases op with
    | «export» o' =>
      simp only [List.mem_cons, Op.export.injEq] at ho
      rcases ho with rfl | ho
      · simp [mentioned]
      · simp [mentioned, ih ho]
    | unexport q =>
      simp only [List.mem_cons] at ho
      rcases ho with ho | ho
      · cases ho
      · simp [mentioned, ih ho]

/-! ### spec: `dedup`, `children`, `below` -/

theorem mem_dedup {α : Type} [BEq α] [LawfulBEq α] (l : List α) (a : α) : a ∈ dedup l ↔ a ∈ l := by
  induction l with
  | nil => simp [dedup]
  | cons x l ih =>
    simp only [dedup, List.mem_cons, List.mem_filter, ih, Bool.not_eq_true', beq_eq_false_iff_ne, ne_eq]
    constructor
    · rintro (h | ⟨h, _⟩)
      · exact Or.inl h
      · exact Or.inr h
    · intro h
      by_cases hax : a = x
      · exact Or.inl hax
      · rcases h with h | h
        · exact Or.inl h
        · exact Or.inr ⟨h, hax⟩

theorem nodup_dedup {α : Type} [BEq α] [LawfulBEq α] (l : List α) : (dedup l).Nodup := by
  induction l with
  | nil => simp [dedup]
  | cons x l ih =>
    rw [dedup, List.nodup_cons]
    refine ⟨fun h => ?_, ih.filter _⟩
    have := (List.mem_filter.mp h).2
    simp at this

theorem mem_below (p q : Path) (E : List Path) :
    q ∈ below p E ↔ q ∈ E ∧ ∃ e rest, q = p ++ e :: rest := by
  simp [below, List.mem_filter, TreePath.properPrefix_iff]

theorem childName_append (p : Path) (e : Elem) (rest : Path) : childName p (p ++ e :: rest) = some e := by
  simp [childName]

/-- `children p E` = the `e` such that some exported path continues `p` with `e`. -/
theorem mem_children (p : Path) (E : List Path) (name : Elem) :
    name ∈ children p E ↔ ∃ rest, p ++ name :: rest ∈ E := by
  simp only [children, mem_dedup, List.mem_filterMap, mem_below]
  constructor
  · rintro ⟨q, ⟨hq, e, rest, rfl⟩, hc⟩
    rw [childName_append] at hc
    cases hc
    exact ⟨rest, hq⟩
  · rintro ⟨rest, h⟩
    exact ⟨_, ⟨h, name, rest, rfl⟩, childName_append p name rest⟩

theorem nodup_children (p : Path) (E : List Path) : (children p E).Nodup := nodup_dedup _

/-- The spec's set of exported paths: valid paths whose text is visible after the history. -/
theorem mem_exportedPaths (h : List Op) (q : Path) :
    q ∈ exportedPaths h ↔ ValidPath q ∧ (exportedAfter h (render q)).isSome = true := by
  simp only [exportedPaths, List.mem_filterMap, mem_dedup, List.mem_filter]
  constructor
  · rintro ⟨s, ⟨_, hs⟩, hp⟩
    obtain ⟨hv, hr⟩ := TreePath.render_parse s q hp
    rw [hr]; exact ⟨hv, hs⟩
  · rintro ⟨hv, hs⟩
    refine ⟨render q, ⟨?_, hs⟩, TreePath.parse_render q hv⟩
    cases ho : exportedAfter h (render q) with
    | none => rw [ho] at hs; cases hs
    | some o =>
      obtain ⟨h1, h2⟩ := exportedAfter_some ho
      rw [← h2]; exact mem_mentioned h1

/-! ### table keys after a history -/

/-- Every key of the table after a well-formed history is the text of a valid path that the
spec lists as exported. -/
theorem key_valid (h : List Op) (wf : WfHistory h) (k : Str) (hk : k ∈ keys (run h)) :
    ∃ q, ValidPath q ∧ render q = k ∧ q ∈ exportedPaths h := by
  rw [mem_keys_iff, lookup_run] at hk
  cases ho : exportedAfter h k with
  | none => rw [ho] at hk; cases hk
  | some o =>
    obtain ⟨h1, h2⟩ := exportedAfter_some ho
    obtain ⟨q, hq, hr⟩ := (TreePath.validText_iff _).mp (wf o h1)
    rw [h2] at hr
    refine ⟨q, hq, hr, (mem_exportedPaths h q).mpr ⟨hq, ?_⟩⟩
    rw [hr, ho]; rfl

theorem mem_keys_of_exported (h : List Op) (q : Path) (hq : q ∈ exportedPaths h) : render q ∈ keys (run h) := by
  rw [mem_keys_iff, lookup_run]
  exact ((mem_exportedPaths h q).mp hq).2

/-! ### code: the child loop -/

theorem childCond (acc : List Str) (c : Str) :
    (!c.isEmpty && !acc.contains c) = true ↔ c ≠ [] ∧ c ∉ acc := by
  cases c <;> simp

theorem mem_childLoop (pre : Str) (ks acc : List Str) (name : Str) :
    name ∈ childLoop pre ks acc ↔
      name ∈ acc ∨ ∃ k ∈ ks, startsWith k pre = true ∧ childOf pre k = name ∧ name ≠ [] := by
  induction ks generalizing acc with
  | nil => simp [childLoop]
  | cons k ks ih =>
    rw [childLoop]
    dsimp only
    by_cases hsw : startsWith k pre = true
    · rw [if_pos hsw]
      by_cases hc : (!(childOf pre k).isEmpty && !acc.contains (childOf pre k)) = true
      · rw [if_pos hc, ih]
        obtain ⟨hne, hnin⟩ := (childCond _ _).mp hc
        simp only [List.mem_append, List.mem_cons, List.not_mem_nil, or_false, exists_eq_or_imp]
        constructor
        · rintro ((h | h) | h)
          · exact Or.inl h
          · exact Or.inr (Or.inl ⟨hsw, h.symm, h ▸ hne⟩)
          · exact Or.inr (Or.inr h)
        · rintro (h | ⟨_, h, _⟩ | h)
          · exact Or.inl (Or.inl h)
          · exact Or.inl (Or.inr h.symm)
          · exact Or.inr h
      · rw [if_neg hc, ih]
        have hc' : ¬ (childOf pre k ≠ [] ∧ childOf pre k ∉ acc) := fun h => hc ((childCond _ _).mpr h)
        simp only [List.mem_cons, exists_eq_or_imp]
        constructor
        · rintro (h | h)
          · exact Or.inl h
          · exact Or.inr (Or.inr h)
        · rintro (h | ⟨_, h, h'⟩ | h)
          · exact Or.inl h
          · by_cases hin : childOf pre k ∈ acc
            · exact Or.inl (h ▸ hin)
            · exact absurd ⟨h ▸ h', hin⟩ hc'
          · exact Or.inr h
    · rw [if_neg hsw, ih]
      simp only [List.mem_cons, exists_eq_or_imp, hsw, Bool.false_eq_true, false_and, false_or]

theorem nodup_childLoop (pre : Str) (ks acc : List Str) (h : acc.Nodup) : (childLoop pre ks acc).Nodup := by
  induction ks generalizing acc with
  | nil => exact h
  | cons k ks ih =>
    rw [childLoop]
    dsimp only
    split
    · split
      · rename_i hc
        apply ih
        replace hc := (childCond _ _).mp hc
        rw [List.nodup_append]
        refine ⟨h, by simp, ?_⟩
        intro a ha b hb
        simp at hb; subst hb
        intro hab; subst hab; exact hc.2 ha
      · exact ih _ h
    · exact ih _ h

/-! ### code: `sorted`, dict keys -/

theorem insertSorted_perm (x : Str) (l : List Str) : (insertSorted x l).Perm (x :: l) := by
  induction l with
  | nil => exact List.Perm.refl _
  | cons y l ih =>
    rw [insertSorted]
    split
    · exact List.Perm.refl _
    · exact (List.Perm.cons y ih).trans (List.Perm.swap x y l)

theorem sortStr_perm (l : List Str) : (sortStr l).Perm l := by
  induction l with
  | nil => exact List.Perm.refl _
  | cons x l ih =>
    simp only [sortStr, List.foldr_cons] at ih ⊢
    exact (insertSorted_perm x _).trans (List.Perm.cons x ih)

theorem nodup_keys_foldl_setItem (l : List (Str × Nat)) (d : Table Nat) (hd : (keys d).Nodup) :
    (keys (l.foldl (fun d kv => setItem d kv.1 kv.2) d)).Nodup := by
  induction l generalizing d with
  | nil => exact hd
  | cons kv l ih => exact ih _ (nodup_keys_setItem _ _ _ hd)

theorem lookup_foldl_setItem (l : List (Str × Nat)) (d : Table Nat)
    (hc : ∀ n t t', (n, t) ∈ l → (n, t') ∈ l → t = t') (n : Str) (t : Nat) :
    lookup (l.foldl (fun d kv => setItem d kv.1 kv.2) d) n = some t ↔
      (n, t) ∈ l ∨ (n ∉ l.map Prod.fst ∧ lookup d n = some t) := by
  induction l generalizing d with
  | nil => simp
  | cons kv l ih =>
    obtain ⟨m, u⟩ := kv
    have hc' : ∀ n t t', (n, t) ∈ l → (n, t') ∈ l → t = t' :=
      fun n t t' h1 h2 => hc n t t' (List.mem_cons_of_mem _ h1) (List.mem_cons_of_mem _ h2)
    simp only [List.foldl_cons]
    rw [ih _ hc', lookup_setItem]
    simp only [List.mem_cons, Prod.mk.injEq, List.map_cons, not_or]
    by_cases hm : m = n
    · subst hm
      simp only [if_true, Option.some.injEq, true_and, not_true_eq_false, false_and, or_false]
      constructor
      · rintro (h1 | ⟨_, h1⟩)
        · exact Or.inr h1
        · exact Or.inl h1.symm
      · rintro (h1 | h1)
        · by_cases hin : m ∈ l.map Prod.fst
          · obtain ⟨⟨m', t'⟩, hmem, hm'⟩ := List.mem_map.mp hin
            simp only at hm'; subst hm'
            have := hc m' u t' (by simp) (List.mem_cons_of_mem _ hmem)
            subst this; subst h1
            exact Or.inl hmem
          · exact Or.inr ⟨hin, h1.symm⟩
        · exact Or.inl h1
    · have hm' : ¬ n = m := fun x => hm x.symm
      simp [hm, hm']

/-- The reported dict has each interface name once, and (the same name carrying the same
properties) exactly the object's (interface, properties) pairs. -/
theorem dictOf_complete (l : List (Str × Nat)) (hc : ∀ n t t', (n, t) ∈ l → (n, t') ∈ l → t = t') :
    (keys (dictOf l)).Nodup ∧ ∀ n t, (n, t) ∈ dictOf l ↔ (n, t) ∈ l := by
  have hn : (keys (dictOf l)).Nodup := nodup_keys_foldl_setItem l [] (by simp [keys])
  refine ⟨hn, fun n t => ?_⟩
  rw [mem_table_iff_lookup _ hn, dictOf, lookup_foldl_setItem l [] hc]
  simp [lookup]

theorem mem_keys_foldl_setItem (l : List (Str × Nat)) (d : Table Nat) (n : Str) :
    n ∈ keys (l.foldl (fun d kv => setItem d kv.1 kv.2) d) ↔ n ∈ keys d ∨ n ∈ l.map Prod.fst := by
  induction l generalizing d with
  | nil => simp
  | cons kv l ih =>
    simp only [List.foldl_cons, ih, keys_setItem, List.map_cons, List.mem_cons]
    split
    · rename_i hin
      constructor
      · rintro (h | h)
        · exact Or.inl h
        · exact Or.inr (Or.inr h)
      · rintro (h | rfl | h)
        · exact Or.inl h
        · exact Or.inl hin
        · exact Or.inr h
    · simp only [List.mem_append, List.mem_cons, List.not_mem_nil, or_false]
      constructor
      · rintro ((h | h) | h)
        · exact Or.inl h
        · exact Or.inr (Or.inl h)
        · exact Or.inr (Or.inr h)
      · rintro (h | h | h)
        · exact Or.inl (Or.inl h)
        · exact Or.inl (Or.inr h)
        · exact Or.inr h

/-- Without any assumption: the reported interface names are exactly the object's, each once. -/
theorem keys_dictOf (l : List (Str × Nat)) (n : Str) : n ∈ keys (dictOf l) ↔ n ∈ l.map Prod.fst := by
  rw [dictOf, mem_keys_foldl_setItem]; simp [keys]

/-! ### code: `getManagedObjects` -/

theorem mem_managedKeys {α : Type} (p : Str) (e : Table α) (k : Str) :
    k ∈ managedKeys p e ↔ k ∈ keys e ∧ startsWith k (dirPrefix p) = true ∧ k ≠ p := by
  simp only [managedKeys, List.mem_filter, (sortStr_perm (keys e)).mem_iff]
  constructor
  · rintro ⟨h1, h2⟩; exact ⟨h1, by simpa using h2⟩
  · rintro ⟨h1, h2⟩; exact ⟨h1, by simpa using h2⟩

theorem mem_managed (p : Str) (e : Exports) (k : Str) (d : Table Nat) :
    (k, d) ∈ managed p e ↔
      (startsWith k (dirPrefix p) = true ∧ k ≠ p) ∧ ∃ o, lookup e k = some o ∧ d = dictOf o.ifaces := by
  simp only [managed, List.mem_filterMap, mem_managedKeys, entryOf, Option.map_eq_some_iff, Prod.mk.injEq]
  constructor
  · rintro ⟨k', ⟨_, hc⟩, o, ho, rfl, rfl⟩
    exact ⟨hc, o, ho, rfl⟩
  · rintro ⟨hc, o, ho, rfl⟩
    refine ⟨k, ⟨?_, hc⟩, o, ho, rfl, rfl⟩
    rw [mem_keys_iff, ho]; rfl

theorem map_fst_filterMap_entryOf (e : Exports) (l : List Str) :
    (l.filterMap (entryOf e)).map (fun x => x.1) = l.filter (fun k => (lookup e k).isSome) := by
  induction l with
  | nil => rfl
  | cons k l ih =>
    cases ho : lookup e k with
    | none => simp [entryOf, ho, ih]
    | some o => simp [entryOf, ho, ih]

theorem nodup_managed_keys (p : Str) (e : Exports) (h : (keys e).Nodup) :
    ((managed p e).map (fun x => x.1)).Nodup := by
  simp only [managed, managedKeys, map_fst_filterMap_entryOf]
  exact (((sortStr_perm (keys e)).nodup_iff.mpr h).filter _).filter _

/-- When every object of the table can be sent, GetManagedObjects does not fail. -/
theorem managedSendable_of_all (p : Str) (e : Exports) (h : ∀ k o, lookup e k = some o → o.sendable = true) :
    managedSendable p e = true := by
  simp only [managedSendable, List.all_eq_true]
  intro k _
  cases ho : lookup e k with
  | none => rfl
  | some o => exact h k o ho

/-! ### code: head of `handleMethodCallMessage` -/

theorem handle_ordinary (e : Exports) (p : Str) :
    handle e p .ordinary = match lookup e p with
      | none => .unknownObject p
      | some o => .dispatch o := by
  simp only [handle]
  cases lookup e p <;> simp

theorem handle_managed (e : Exports) (p : Str) :
    handle e p .getManagedObjects = match lookup e p with
      | none => .unknownObject p
      | some o => if managedSendable o.path e then .managed (managed o.path e) else .managedFailed := by
  simp only [handle]
  cases lookup e p <;> simp

theorem handle_introspect (e : Exports) (p : Str) :
    handle e p .introspect =
      if lookup e p = none ∧ introspectChildren p e = [] then .unknownObject p
      else .introspection ((lookup e p).map (·.ifaceNames)) (introspectChildren p e) := by
  simp only [handle, introspect]
  cases ho : lookup e p with
  | none =>
    cases hk : introspectChildren p e with
    | nil => simp
    | cons a l => simp
  | some o => simp

end TreeLemmas
end Txdbus.Obj
