/-
C10 lemmas, part 2: one call.  `handleCall` by cases of the spec's verdict, and what each case
sends / invokes / leaves pending.
-/
import TxdbusModel.Proofs.Obj.DispatchLookup

namespace Txdbus.Obj.DispatchProofs

open Txdbus.Obj.Dispatch Txdbus.Obj.DispatchSpec

variable {V : Type}

/-- `handleCall` per verdict, in terms of the reply helpers of the code model. -/
def expectedCall (env : Env V) (k : Nat) (c : Call V) (behav : Nat → Outcome V) :
    Verdict → List (Event V) × Option Pending
  | .builtin .ping => ([.sent (.ret c.serial c.sender none .empty)], none)
  | .builtin .introspect => ([.sent (.ret c.serial c.sender (some introspectSig) (.xml c.path))], none)
  | .builtin .managed =>
    match env.managedErr c.path with
    | none => ([.sent (.ret c.serial c.sender (some managedSig) (.managed c.path))], none)
    | some e => ([managedFailedErr c e], none)
  | .unknownObject => ([unknownObjectErr c], none)
  | .unknownMethod => ([unknownMethodErr c], none)
  | .invalidArgs m => ([invalidArgsErr c m], none)
  | .unbound m => (if c.expectReply then sendError env (pendingOf k c m) notImplemented else [], none)
  | .run f m => afterExecute env (pendingOf k c m) c f (behav f.id)

theorem isPair_iff (c : Call V) (p : Str × Str) :
    isPair c p = true ↔ c.iface = some p.1 ∧ c.member = p.2 := by
  simp [isPair]

theorem exported_mem {ex : Exports} {path : Str} {o : Obj} (h : exported ex path = some o) :
    (path, o) ∈ ex := by
  unfold exported at h
  cases hf : ex.find? (fun e => e.1 = path) with
  | none => simp [hf] at h
  | some e =>
    simp [hf] at h
    have hm := List.mem_of_find?_eq_some hf
    have hp := List.find?_some hf
    simp at hp
    obtain ⟨p, o'⟩ := e
    simp at h hp
    subst h; subst hp
    exact hm

theorem addressedIface_mem {o : Obj} {c : Call V} {i : Iface} (h : addressedIface o c = some i) :
    i ∈ declared o := by
  unfold addressedIface at h
  split at h <;> exact List.mem_of_find?_eq_some h

theorem handleCall_eq (env : Env V) (ex : Exports) (k : Nat) (c : Call V) (behav : Nat → Outcome V) :
    handleCall env ex k c behav = expectedCall env k c behav (verdict ex c) := by
  unfold handleCall verdict lookupMethod dispatchMethod
  simp only [← isPair_iff, introspectable_eq, dictGet_eq_exported, findIface_eq, dictGet_methods]
  by_cases h1 : isPair c peerPair = true
  · rw [if_pos h1, if_pos h1]; rfl
  · rw [if_neg h1, if_neg h1]
    by_cases h2 : isPair c introspectPair = true ∧ nodeKnown ex c.path = true
    · have h2' : (isPair c introspectPair && nodeKnown ex c.path) = true := by
        simpa [Bool.and_eq_true] using h2
      rw [if_pos h2, if_pos h2']; rfl
    · have h2' : ¬ ((isPair c introspectPair && nodeKnown ex c.path) = true) := by
        simpa [Bool.and_eq_true] using h2
      rw [if_neg h2, if_neg h2']
      cases ho : exported ex c.path with
      | none => rfl
      | some o =>
        simp only
        by_cases h3 : isPair c managedPair = true
        · rw [if_pos h3, if_pos h3]; rfl
        · rw [if_neg h3, if_neg h3]
          unfold addressed
          cases hi : addressedIface o c with
          | none => rfl
          | some i =>
            simp only
            cases hm : memberOf i c.member with
            | none => rfl
            | some m =>
              simp only [Option.map_some]
              by_cases hs : m.sigIn = c.sig.getD []
              · have hs' : ¬ (c.sig.getD [] ≠ m.sigIn) := by simp [hs]
                have hs'' : ¬ (m.sigIn ≠ c.sig.getD []) := by simp [hs]
                rw [if_neg hs', if_neg hs'', resolveImpl_eq o i.name c.member]
                cases bound o i.name c.member <;> rfl
              · have hs' : c.sig.getD [] ≠ m.sigIn := fun h => hs h.symm
                rw [if_pos hs', if_pos hs]; rfl

/-! ### The three parts of what a call produces -/

/-- The invocation of user code (at most one, first in the code's order). -/
def callInv (c : Call V) : Verdict → List (Event V)
  | .run f _ => [.invoked f.id c.body (if f.wantsCaller then some c.sender else none)]
  | _ => []

/-- What is sent before `handleMethodCallMessage` returns. -/
def callReplies (env : Env V) (k : Nat) (c : Call V) (behav : Nat → Outcome V) : Verdict → List (Event V)
  | .run f m =>
    if c.expectReply then
      match behav f.id with
      | .value r => sendReply env (pendingOf k c m) r
      | .raise e => sendError env (pendingOf k c m) e
      | .deferred => []
    else []
  | v => (expectedCall env k c behav v).1

/-- The reply callbacks waiting for a Deferred. -/
def callPending (k : Nat) (c : Call V) (behav : Nat → Outcome V) : Verdict → Option Pending
  | .run f m =>
    if c.expectReply then
      match behav f.id with
      | .deferred => some (pendingOf k c m)
      | _ => none
    else none
  | _ => none

theorem expectedCall_split (env : Env V) (k : Nat) (c : Call V) (behav : Nat → Outcome V) (v : Verdict) :
    expectedCall env k c behav v =
      (callInv c v ++ callReplies env k c behav v, callPending k c behav v) := by
  cases v with
  | builtin b =>
    cases b with
    | ping => rfl
    | introspect => rfl
    | managed =>
      simp only [expectedCall, callInv, callReplies, callPending]
      cases env.managedErr c.path <;> rfl
  | unknownObject => rfl
  | unknownMethod => rfl
  | invalidArgs m => rfl
  | unbound m => rfl
  | run f m =>
    simp only [expectedCall, afterExecute, callInv, callReplies, callPending]
    cases c.expectReply with
    | false => rfl
    | true => cases behav f.id <;> rfl

/-! ### Shapes of reply lists -/

/-- Nothing, or exactly one message addressed with serial `s` to `d`. -/
def Replyish (s : Nat) (d : Option Str) (evs : List (Event V)) : Prop :=
  evs = [] ∨ ∃ m, evs = [.sent m] ∧ m.replySerial = s ∧ m.dest = d

/-- Exactly one message addressed with serial `s` to `d`. -/
def OneReply (s : Nat) (d : Option Str) (evs : List (Event V)) : Prop :=
  ∃ m, evs = [.sent m] ∧ m.replySerial = s ∧ m.dest = d

theorem OneReply.replyish {s : Nat} {d : Option Str} {evs : List (Event V)} (h : OneReply s d evs) :
    Replyish s d evs := Or.inr h

theorem Replyish.replies_le {s : Nat} {d : Option Str} {evs : List (Event V)} (h : Replyish s d evs) :
    (replies evs).length ≤ 1 := by
  rcases h with h | ⟨m, h, _, _⟩ <;> subst h <;> simp [replies]

theorem Replyish.invocations {s : Nat} {d : Option Str} {evs : List (Event V)} (h : Replyish s d evs) :
    invocations evs = [] := by
  rcases h with h | ⟨m, h, _, _⟩ <;> subst h <;> simp [DispatchSpec.invocations]

theorem Replyish.addressed {s : Nat} {d : Option Str} {evs : List (Event V)} (h : Replyish s d evs) :
    ∀ m ∈ replies evs, m.replySerial = s ∧ m.dest = d := by
  rcases h with h | ⟨m, h, h1, h2⟩
  · subst h; simp [replies]
  · subst h; simp [replies, h1, h2]

theorem OneReply.replies_length {s : Nat} {d : Option Str} {evs : List (Event V)} (h : OneReply s d evs) :
    (replies evs).length = 1 := by
  obtain ⟨m, h, _, _⟩ := h
  subst h; simp [replies]

theorem sendError_eq (env : Env V) (p : Pending) (e : Exc) :
    sendError env p e =
      match env.textFix (errorText env.validErr e) with
      | some t => [.sent (.err (errorName env.validErr e) p.serial p.sender t)]
      | none => [] := by
  unfold sendError errorText errorName
  cases e.errName with
  | none =>
    simp only
    by_cases hv : env.validErr (pyExceptionPrefix ++ e.cls) = true
    · simp only [hv, if_true]
      cases env.textFix e.text <;> rfl
    · simp only [hv, if_false, Bool.false_eq_true]
      cases env.textFix (pyFormat invalidNameNotice [pyExceptionPrefix ++ e.cls] ++ e.text) <;> rfl
  | some n =>
    simp only
    by_cases hv : env.validErr n = true
    · simp only [hv, if_true]
      cases env.textFix e.text <;> rfl
    · simp only [hv, if_false, Bool.false_eq_true]
      cases env.textFix (pyFormat invalidNameNotice [n] ++ e.text) <;> rfl

theorem sendError_replyish (env : Env V) (p : Pending) (e : Exc) :
    Replyish p.serial p.sender (sendError env p e) := by
  rw [sendError_eq]
  cases env.textFix (errorText env.validErr e) with
  | none => exact Or.inl rfl
  | some t => exact Or.inr ⟨_, rfl, rfl, rfl⟩

theorem sendError_one (env : Env V) (ht : TextTotal env) (p : Pending) (e : Exc) :
    OneReply p.serial p.sender (sendError env p e) := by
  rw [sendError_eq]
  have := ht (errorText env.validErr e)
  cases h : env.textFix (errorText env.validErr e) with
  | none => simp [h] at this
  | some t => exact ⟨_, rfl, rfl, rfl⟩

theorem sendReply_eq (env : Env V) (p : Pending) (r : Ret V) :
    sendReply env p r =
      match env.encErr p.sigOut (replyBody env.ofSeq p.nret r) with
      | none => [.sent (.ret p.serial p.sender (some p.sigOut) (.vals (replyBody env.ofSeq p.nret r)))]
      | some e => sendError env p e := by
  unfold sendReply replyBody
  cases r <;> rfl

theorem sendReply_replyish (env : Env V) (p : Pending) (r : Ret V) :
    Replyish p.serial p.sender (sendReply env p r) := by
  rw [sendReply_eq]
  cases env.encErr p.sigOut (replyBody env.ofSeq p.nret r) with
  | none => exact Or.inr ⟨_, rfl, rfl, rfl⟩
  | some e => exact sendError_replyish env p e

theorem sendReply_one (env : Env V) (ht : TextTotal env) (p : Pending) (r : Ret V) :
    OneReply p.serial p.sender (sendReply env p r) := by
  rw [sendReply_eq]
  cases env.encErr p.sigOut (replyBody env.ofSeq p.nret r) with
  | none => exact ⟨_, rfl, rfl, rfl⟩
  | some e => exact sendError_one env ht p e

theorem fire_replyish (env : Env V) (p : Pending) (res : Resolution V) :
    Replyish p.serial p.sender (fire env p res) := by
  cases res with
  | value r => exact sendReply_replyish env p r
  | fail e => exact sendError_replyish env p e

theorem fire_one (env : Env V) (ht : TextTotal env) (p : Pending) (res : Resolution V) :
    OneReply p.serial p.sender (fire env p res) := by
  cases res with
  | value r => exact sendReply_one env ht p r
  | fail e => exact sendError_one env ht p e

/-! ### One call, by verdict -/

theorem callInv_replies (c : Call V) (v : Verdict) : replies (callInv c v) = [] := by
  cases v <;> simp [callInv, replies]

theorem callInv_invocations (c : Call V) (v : Verdict) :
    invocations (callInv c v) = expectedInvocations c v := by
  cases v <;> simp [callInv, invocations, expectedInvocation, expectedInvocations]

theorem sendErr_one (c : Call V) (name text : Str) : OneReply c.serial c.sender [sendErr c name text] :=
  ⟨_, rfl, rfl, rfl⟩

theorem callReplies_replyish (env : Env V) (k : Nat) (c : Call V) (behav : Nat → Outcome V) (v : Verdict) :
    Replyish c.serial c.sender (callReplies env k c behav v) := by
  cases v with
  | builtin b =>
    cases b with
    | ping => exact Or.inr ⟨_, rfl, rfl, rfl⟩
    | introspect => exact Or.inr ⟨_, rfl, rfl, rfl⟩
    | managed =>
      simp only [callReplies, expectedCall]
      cases env.managedErr c.path <;> exact Or.inr ⟨_, rfl, rfl, rfl⟩
  | unknownObject => exact Or.inr ⟨_, rfl, rfl, rfl⟩
  | unknownMethod => exact Or.inr ⟨_, rfl, rfl, rfl⟩
  | invalidArgs m => exact Or.inr ⟨_, rfl, rfl, rfl⟩
  | unbound m =>
    simp only [callReplies, expectedCall]
    cases c.expectReply with
    | false => exact Or.inl rfl
    | true => exact sendError_replyish env (pendingOf k c m) notImplemented
  | run f m =>
    simp only [callReplies]
    cases c.expectReply with
    | false => exact Or.inl rfl
    | true =>
      cases behav f.id with
      | value r => exact sendReply_replyish env (pendingOf k c m) r
      | raise e => exact sendError_replyish env (pendingOf k c m) e
      | deferred => exact Or.inl rfl

/-- With the reply callbacks waiting, nothing has been sent yet. -/
theorem callReplies_of_pending (env : Env V) (k : Nat) (c : Call V) (behav : Nat → Outcome V) (v : Verdict)
    (p : Pending) (h : callPending k c behav v = some p) :
    callReplies env k c behav v = [] ∧ c.expectReply = true ∧
      ∃ f m, v = .run f m ∧ behav f.id = .deferred ∧ p = pendingOf k c m := by
  cases v with
  | run f m =>
    simp only [callPending] at h
    cases he : c.expectReply with
    | false => simp [he] at h
    | true =>
      cases hb : behav f.id with
      | deferred =>
        simp [he, hb] at h
        exact ⟨by simp [callReplies, he, hb], rfl, f, m, rfl, hb, h.symm⟩
      | value r => simp [he, hb] at h
      | raise e => simp [he, hb] at h
  | builtin b => simp [callPending] at h
  | unknownObject => simp [callPending] at h
  | unknownMethod => simp [callPending] at h
  | invalidArgs m => simp [callPending] at h
  | unbound m => simp [callPending] at h

/-- A call that expects a reply and leaves nothing pending has been answered exactly once. -/
theorem callReplies_one (env : Env V) (ht : TextTotal env) (k : Nat) (c : Call V) (behav : Nat → Outcome V)
    (v : Verdict) (he : c.expectReply = true) (hp : callPending k c behav v = none) :
    OneReply c.serial c.sender (callReplies env k c behav v) := by
  cases v with
  | builtin b =>
    cases b with
    | ping => exact ⟨_, rfl, rfl, rfl⟩
    | introspect => exact ⟨_, rfl, rfl, rfl⟩
    | managed =>
      simp only [callReplies, expectedCall]
      cases env.managedErr c.path <;> exact ⟨_, rfl, rfl, rfl⟩
  | unknownObject => exact ⟨_, rfl, rfl, rfl⟩
  | unknownMethod => exact ⟨_, rfl, rfl, rfl⟩
  | invalidArgs m => exact ⟨_, rfl, rfl, rfl⟩
  | unbound m =>
    simp only [callReplies, expectedCall, he, if_true]
    exact sendError_one env ht (pendingOf k c m) notImplemented
  | run f m =>
    simp only [callReplies, callPending, he, if_true] at hp ⊢
    cases hb : behav f.id with
    | value r => exact sendReply_one env ht (pendingOf k c m) r
    | raise e => exact sendError_one env ht (pendingOf k c m) e
    | deferred => simp [hb] at hp

/-- A no-reply call that is dispatched to user code sends nothing and leaves nothing pending. -/
theorem callReplies_noreply_run (env : Env V) (k : Nat) (c : Call V) (behav : Nat → Outcome V)
    (f : Func) (m : Method) (he : c.expectReply = false) :
    callReplies env k c behav (.run f m) = [] ∧ callPending k c behav (.run f m) = none := by
  simp [callReplies, callPending, he]

end Txdbus.Obj.DispatchProofs
