/-
C17 lemmas for class families (Obj/PropsFamily.lean):

  1. the class-level state: under `stable` every walk succeeds, every cache that exists is the class's own
     binding, and what an instance of class `k` sees is `elaborate (D.drop k)` - whoever built the caches;
  2. frame: `Props.step` on an operation of object `x` reads and writes only `x`'s part of the state;
  3. the projection theorem `family_core`.
-/
import TxdbusModel.Obj.PropsFamily
import TxdbusModel.Proofs.Obj.PropsDict
import TxdbusModel.Proofs.Obj.PropsSim

namespace Txdbus.Obj.Props

/-! ### Option.mapM helpers -/

theorem mapM_congr_mem {α β : Type} {f g : α → Option β} :
    ∀ {l : List α}, (∀ x ∈ l, f x = g x) → l.mapM f = l.mapM g := by
  intro l
  induction l with
  | nil => intro _; simp
  | cons a t ih =>
    intro h
    rw [List.mapM_cons, List.mapM_cons, h a List.mem_cons_self,
      ih fun x hx => h x (List.mem_cons_of_mem _ hx)]

theorem mapM_isSome_of_all {α β : Type} {f : α → Option β} :
    ∀ {l : List α}, (∀ x ∈ l, (f x).isSome) → (l.mapM f).isSome := by
  intro l
  induction l with
  | nil => intro _; simp
  | cons a t ih =>
    intro h
    rw [List.mapM_cons]
    have ha := h a List.mem_cons_self
    have ht := ih fun x hx => h x (List.mem_cons_of_mem _ hx)
    obtain ⟨b, hb⟩ := Option.isSome_iff_exists.mp ha
    obtain ⟨r, hr⟩ := Option.isSome_iff_exists.mp ht
    simp [hb, hr]

/-! ### 1. class-level state -/

/-- The class's own binding: `_cacheInterfaces` run by an instance of the class itself. -/
def ownLevel (c : ClassDef) (ds : Decls) : Option (List Bound) :=
  c.descs.mapM (bindDesc (getInterfaces (c :: ds)))

/-- Every cache that exists holds the class's own binding. -/
def CcOk : Decls → ClassCaches → Prop
  | [], [] => True
  | c :: ds, e :: cc => (e = none ∨ e = ownLevel c ds) ∧ CcOk ds cc
  | [], _ :: _ => False
  | _ :: _, [] => False

/-- The caches of class `k` and of all its base classes exist and hold their own bindings. -/
def Built : Nat → Decls → ClassCaches → Prop
  | _, [], [] => True
  | 0, c :: ds, e :: cc => e = ownLevel c ds ∧ Built 0 ds cc
  | k + 1, _ :: ds, _ :: cc => Built k ds cc
  | _, [], _ :: _ => False
  | _, _ :: _, [] => False

theorem stableFrom_cons {ifs : List IfaceDef} {c : ClassDef} {ds : Decls}
    (h : stableFrom ifs (c :: ds) = true) :
    c.descs.mapM (bindDesc ifs) = ownLevel c ds ∧ (ownLevel c ds).isSome ∧ stableFrom ifs ds = true := by
  simp only [stableFrom, Bool.and_eq_true, List.all_eq_true, decide_eq_true_eq] at h
  obtain ⟨hd, ht⟩ := h
  have e : c.descs.mapM (bindDesc ifs) = ownLevel c ds :=
    mapM_congr_mem fun d hd' => (hd d hd').1
  refine ⟨e, ?_, ht⟩
  rw [← e]
  exact mapM_isSome_of_all fun d hd' => (hd d hd').2

theorem stable_self : ∀ {D : Decls}, stable D = true → stableFrom (getInterfaces D) D = true
  | [], _ => rfl
  | _ :: _, h => by
    simp only [stable, Bool.and_eq_true] at h
    exact h.1

theorem stable_drop : ∀ (k : Nat) {D : Decls}, stable D = true → stable (D.drop k) = true
  | 0, _, h => by simpa using h
  | _ + 1, [], _ => by simp [stable]
  | k + 1, _ :: ds, h => by
    simp only [stable, Bool.and_eq_true] at h
    simpa using stable_drop k h.2

theorem ccOk_init : ∀ (D : Decls), CcOk D (D.map fun _ => none)
  | [] => trivial
  | _ :: ds => ⟨Or.inl rfl, ccOk_init ds⟩

theorem walkLevels_ok (ifs : List IfaceDef) :
    ∀ (D : Decls) (k : Nat) (cc : ClassCaches), stableFrom ifs (D.drop k) = true → CcOk D cc →
      ∃ cc', walkLevels ifs k D cc = some cc' ∧ CcOk D cc' ∧ Built k D cc' ∧
        ∀ k', Built k' D cc → Built k' D cc' := by
  intro D
  induction D with
  | nil =>
    intro k cc _ hok
    cases cc with
    | nil => exact ⟨[], by simp [walkLevels], trivial, by cases k <;> trivial, fun _ h => h⟩
    | cons e cc => exact absurd hok (by simp [CcOk])
  | cons c ds ih =>
    intro k cc hst hok
    cases cc with
    | nil => exact absurd hok (by simp [CcOk])
    | cons e cc =>
      obtain ⟨he, hok'⟩ := hok
      cases k with
      | succ k =>
        obtain ⟨cc', hw, hok2, hb, hmono⟩ := ih k cc (by simpa using hst) hok'
        refine ⟨e :: cc', by simp [walkLevels, hw], ⟨he, hok2⟩, hb, ?_⟩
        intro k' hk'
        cases k' with
        | zero => exact ⟨hk'.1, hmono 0 hk'.2⟩
        | succ k' => exact hmono k' hk'
      | zero =>
        obtain ⟨hm, hsome, hst'⟩ := stableFrom_cons (by simpa using hst)
        obtain ⟨cc', hw, hok2, hb, hmono⟩ := ih 0 cc (by simpa using hst') hok'
        obtain ⟨lv, hlv⟩ := Option.isSome_iff_exists.mp hsome
        have hmono' : ∀ k', Built k' (c :: ds) (some lv :: cc) → Built k' (c :: ds) (some lv :: cc') := by
          intro k' hk'
          cases k' with
          | zero => exact ⟨hk'.1, hmono 0 hk'.2⟩
          | succ k' => exact hmono k' hk'
        cases e with
        | none =>
          refine ⟨some lv :: cc', ?_, ⟨Or.inr hlv.symm, hok2⟩, ⟨hlv.symm, hb⟩, ?_⟩
          · simp [walkLevels, hm, hlv, hw]
          · intro k' hk'
            cases k' with
            | zero => exact absurd (hk'.1.trans hlv) (by simp)
            | succ k' => exact hmono k' hk'
        | some lv' =>
          have e' : some lv' = ownLevel c ds := by
            rcases he with h | h
            · exact absurd h (by simp)
            · exact h
          have : lv' = lv := by rw [hlv] at e'; exact Option.some.inj e'
          subst this
          exact ⟨some lv' :: cc', by simp [walkLevels, hw], ⟨Or.inr e', hok2⟩, ⟨e', hb⟩, hmono'⟩

theorem built_drop : ∀ (k : Nat) (D : Decls) (cc : ClassCaches), Built k D cc → Built 0 (D.drop k) (cc.drop k)
  | 0, _, _, h => by simpa using h
  | _ + 1, [], [], _ => by simp [Built]
  | _ + 1, [], _ :: _, h => absurd h (by simp [Built])
  | _ + 1, _ :: _, [], h => absurd h (by simp [Built])
  | k + 1, _ :: ds, _ :: cc, h => by simpa using built_drop k ds cc h

theorem built0_mapM (ifs : List IfaceDef) :
    ∀ (D : Decls) (cc : ClassCaches), Built 0 D cc → stableFrom ifs D = true →
      cc.mapM id = D.mapM fun c => c.descs.mapM (bindDesc ifs)
  | [], [], _, _ => by simp
  | [], _ :: _, h, _ => absurd h (by simp [Built])
  | _ :: _, [], h, _ => absurd h (by simp [Built])
  | c :: ds, e :: cc, h, hs => by
    obtain ⟨hm, _, hs'⟩ := stableFrom_cons hs
    rw [List.mapM_cons, List.mapM_cons, built0_mapM ifs ds cc h.2 hs', hm, h.1]
    rfl

/-- What an instance of class `k` sees once the caches of its MRO exist: exactly the one-chain model of its own
class. -/
theorem worldOf_eq_elaborate {D : Decls} (hS : stable D = true) {k : Nat} {cc : ClassCaches}
    (hb : Built k D cc) : worldOf D k cc = elaborate (D.drop k) := by
  have hs := stable_self (stable_drop k hS)
  unfold worldOf elaborate ifacesAt
  rw [built0_mapM _ _ _ (built_drop k D cc hb) hs]

theorem elaborate_isSome_of_stable : ∀ {D : Decls}, stable D = true → (elaborate D).isSome := by
  intro D hS
  have hs := stable_self hS
  unfold elaborate
  simp only [Option.isSome_map]
  generalize getInterfaces D = ifs at hs
  clear hS
  induction D with
  | nil => simp
  | cons c ds ih =>
    obtain ⟨hm, hsome, hs'⟩ := stableFrom_cons hs
    rw [List.mapM_cons, hm]
    obtain ⟨lv, hlv⟩ := Option.isSome_iff_exists.mp hsome
    obtain ⟨r, hr⟩ := Option.isSome_iff_exists.mp (ih hs')
    simp [hlv, hr]

/-! ### 2. frame: an operation of object `x` reads and writes only `x`'s part of the state -/

/-- The two states agree on everything that belongs to object `o`: whether it is exported, and its
`_dbusProperties`. -/
def SameFor (o : Nat) (a b : St) : Prop :=
  (o ∈ a.attached ↔ o ∈ b.attached) ∧ ∀ key, dget a.store (o, key) = dget b.store (o, key)

theorem SameFor.refl (o : Nat) (a : St) : SameFor o a a := ⟨Iff.rfl, fun _ => rfl⟩

theorem SameFor.trans {o : Nat} {a b c : St} (h1 : SameFor o a b) (h2 : SameFor o b c) : SameFor o a c :=
  ⟨h1.1.trans h2.1, fun k => (h1.2 k).trans (h2.2 k)⟩

section congr
variable {cfg : Cfg} {W : World} {a b : St} {o : Nat}

theorem descGet_congr (h : SameFor o a b) : descGet cfg a o = descGet cfg b o := by
  funext bd
  unfold descGet
  rw [h.2]

theorem getattrProp_congr (h : SameFor o a b) : getattrProp cfg W a o = getattrProp cfg W b o := by
  funext x
  unfold getattrProp
  rw [descGet_congr h]

theorem addp_congr (h : SameFor o a b) : addp cfg W a o = addp cfg W b o := by
  funext r bd
  unfold addp
  rw [getattrProp_congr h]

theorem addpNew_congr (h : SameFor o a b) : addpNew cfg W a o = addpNew cfg W b o := by
  funext r e
  unfold addpNew
  rw [addp_congr h]

theorem getAllProperties_congr (h : SameFor o a b) :
    getAllProperties cfg W a o = getAllProperties cfg W b o := by
  funext i
  unfold getAllProperties
  rw [addpNew_congr h, addp_congr h]

theorem opGet_congr (h : SameFor o a b) (i p : Str) : opGet cfg W a o i p = opGet cfg W b o i p := by
  unfold opGet
  rw [getattrProp_congr h]

theorem opGetAll_congr (h : SameFor o a b) (i : Str) : opGetAll cfg W a o i = opGetAll cfg W b o i := by
  unfold opGetAll
  rw [getAllProperties_congr h]

theorem exportOk_congr (h : SameFor o a b) : exportOk cfg W a o = exportOk cfg W b o := by
  unfold exportOk
  rw [getAllProperties_congr h]

theorem descSet_congr (h : SameFor o a b) (bd : Bound) (v : PVal) :
    (descSet cfg a o bd v).2 = (descSet cfg b o bd v).2 ∧
      SameFor o (descSet cfg a o bd v).1 (descSet cfg b o bd v).1 := by
  refine ⟨?_, ?_⟩
  · rw [descSet_out, descSet_out]
    by_cases ha : o ∈ a.attached
    · have hb : o ∈ b.attached := h.1.mp ha
      simp only [ha, hb]
    · have hb : ¬ o ∈ b.attached := fun x => ha (h.1.mpr x)
      simp only [ha, hb]
  · rw [descSet_store, descSet_store]
    refine ⟨h.1, fun key => ?_⟩
    simp only [dget_dset, h.2]

theorem descSet_frame {o' : Nat} (hne : o' ≠ o) (bd : Bound) (v : PVal) :
    SameFor o' (descSet cfg a o bd v).1 a := by
  rw [descSet_store]
  refine ⟨Iff.rfl, fun key => ?_⟩
  have : (o, cfg.key bd.iface bd.pname) ≠ (o', key) := fun e => hne (congrArg Prod.fst e).symm
  simp only [dget_dset_ne _ _ this]

/-- `opSet` without the pattern match on the triple. -/
theorem opSet_some (st : St) (i p : Str) (v : PVal) {bd bd' : Bound}
    (hg : getProperty W i p = some bd) (hr : ¬ bd.iprop.access = .read)
    (hc : ¬ (cfg.setChecks ∧ conforms bd.iprop.sig v = false)) (hres : resolveAttr W bd.attr = some bd') :
    opSet cfg W st o i p v =
      ((descSet cfg st o bd' v).1,
        if (descSet cfg st o bd' v).2.2 then [.err .value] else (descSet cfg st o bd' v).2.1 ++ [.ret]) := by
  unfold opSet
  simp only [hg, hr, hc, hres, if_false]
  rcases hd : descSet cfg st o bd' v with ⟨s', outs, _ | _⟩ <;> simp

theorem opSet_cases (_st : St) (i p : Str) (v : PVal) :
    (∃ e, ∀ st' : St, opSet cfg W st' o i p v = (st', [.err e])) ∨
    ∃ bd', ∀ st' : St, opSet cfg W st' o i p v =
      ((descSet cfg st' o bd' v).1,
        if (descSet cfg st' o bd' v).2.2 then [.err .value] else (descSet cfg st' o bd' v).2.1 ++ [.ret]) := by
  cases hg : getProperty W i p with
  | none => exact Or.inl ⟨.unknownProp, fun st' => by simp [opSet, hg]⟩
  | some bd =>
    by_cases hr : bd.iprop.access = .read
    · exact Or.inl ⟨.notWritable, fun st' => by simp [opSet, hg, hr]⟩
    · by_cases hc : cfg.setChecks ∧ conforms bd.iprop.sig v = false
      · exact Or.inl ⟨.value, fun st' => by simp [opSet, hg, hr, hc]⟩
      · cases hres : resolveAttr W bd.attr with
        | none => exact Or.inl ⟨.noAttr, fun st' => by simp [opSet, hg, hr, hc, hres]⟩
        | some bd' => exact Or.inr ⟨bd', fun st' => opSet_some st' i p v hg hr hc hres⟩

theorem opSet_congr (h : SameFor o a b) (i p : Str) (v : PVal) :
    (opSet cfg W a o i p v).2 = (opSet cfg W b o i p v).2 ∧
      SameFor o (opSet cfg W a o i p v).1 (opSet cfg W b o i p v).1 := by
  rcases opSet_cases (cfg := cfg) (W := W) (o := o) a i p v with ⟨e, he⟩ | ⟨bd', he⟩
  · rw [he a, he b]; exact ⟨rfl, h⟩
  · rw [he a, he b]
    obtain ⟨h2, h1⟩ := descSet_congr (cfg := cfg) h bd' v
    exact ⟨by simp only [h2], h1⟩

theorem opSet_frame {o' : Nat} (hne : o' ≠ o) (i p : Str) (v : PVal) :
    SameFor o' (opSet cfg W a o i p v).1 a := by
  rcases opSet_cases (cfg := cfg) (W := W) (o := o) a i p v with ⟨e, he⟩ | ⟨bd', he⟩
  · rw [he a]; exact SameFor.refl _ _
  · rw [he a]; exact descSet_frame hne bd' v

end congr

/-- What an operation answers, and what it leaves behind for its object, depends only on that object's part of
the state. -/
theorem step_congr (cfg : Cfg) (W : World) {a b : St} (x : Op) (h : SameFor x.obj a b) :
    (step cfg W a x).2 = (step cfg W b x).2 ∧ SameFor x.obj (step cfg W a x).1 (step cfg W b x).1 := by
  have hatt : ∀ o, o = x.obj → (o ∈ a.attached ↔ o ∈ b.attached) := fun o e => e ▸ h.1
  cases x with
  | «export» o =>
    simp only [Op.obj] at h
    simp only [step, exportOk_congr (cfg := cfg) (W := W) h, Op.obj]
    by_cases he : exportOk cfg W b o = true
    · simp only [he, if_true]
      refine ⟨by first | rfl | trivial, ?_, h.2⟩
      by_cases ha : o ∈ a.attached
      · have hb : o ∈ b.attached := h.1.mp ha
        simp [ha, hb]
      · have hb : ¬ o ∈ b.attached := fun x => ha (h.1.mpr x)
        simp [ha, hb]
    · simp only [he]
      exact ⟨rfl, h⟩
  | assign o an v =>
    simp only [Op.obj] at h
    simp only [step, Op.obj]
    cases hres : resolveAttr W an with
    | none => exact ⟨rfl, h⟩
    | some bd =>
      dsimp only
      obtain ⟨h2, h1⟩ := descSet_congr (cfg := cfg) h bd v
      rcases hda : descSet cfg a o bd v with ⟨sa, oa, ba⟩
      rcases hdb : descSet cfg b o bd v with ⟨sb, ob, bb⟩
      rw [hda, hdb] at h2 h1
      simp only [Prod.mk.injEq] at h2
      obtain ⟨rfl, rfl⟩ := h2
      cases ba <;> exact ⟨rfl, h1⟩
  | get o i p =>
    simp only [Op.obj] at h
    simp only [Op.obj]
    rw [step_fst_get, step_fst_get]
    refine ⟨?_, h⟩
    simp only [step]
    by_cases ha : o ∈ a.attached
    · have hb : o ∈ b.attached := h.1.mp ha
      simp only [ha, hb, if_true, opGet_congr h]
    · have hb : ¬ o ∈ b.attached := fun x => ha (h.1.mpr x)
      simp only [ha, hb, if_false]
  | getAll o i =>
    simp only [Op.obj] at h
    simp only [Op.obj]
    rw [step_fst_getAll, step_fst_getAll]
    refine ⟨?_, h⟩
    simp only [step]
    by_cases ha : o ∈ a.attached
    · have hb : o ∈ b.attached := h.1.mp ha
      simp only [ha, hb, if_true, opGetAll_congr h]
    · have hb : ¬ o ∈ b.attached := fun x => ha (h.1.mpr x)
      simp only [ha, hb, if_false]
  | set o i p v =>
    simp only [Op.obj] at h
    simp only [step, Op.obj]
    by_cases ha : o ∈ a.attached
    · have hb : o ∈ b.attached := h.1.mp ha
      simp only [ha, hb, if_true]
      exact opSet_congr h i p v
    · have hb : ¬ o ∈ b.attached := fun x => ha (h.1.mpr x)
      simp only [ha, hb, if_false]
      exact ⟨by first | rfl | trivial, h⟩

/-- An operation of another object leaves this object's part of the state alone. -/
theorem step_frame (cfg : Cfg) (W : World) (a : St) (x : Op) {o : Nat} (hne : o ≠ x.obj) :
    SameFor o (step cfg W a x).1 a := by
  cases x with
  | «export» o' =>
    simp only [Op.obj] at hne
    simp only [step]
    split
    · refine ⟨?_, fun _ => rfl⟩
      by_cases ha : o' ∈ a.attached
      · simp [ha]
      · simp [ha, hne]
    · exact SameFor.refl _ _
  | assign o' an v =>
    simp only [Op.obj] at hne
    simp only [step]
    cases hres : resolveAttr W an with
    | none => exact SameFor.refl _ _
    | some bd =>
      dsimp only
      have hf := descSet_frame (cfg := cfg) (a := a) hne bd v
      rcases hda : descSet cfg a o' bd v with ⟨sa, oa, ba⟩
      rw [hda] at hf
      cases ba <;> exact hf
  | get o' i p => rw [step_fst_get]; exact SameFor.refl _ _
  | getAll o' i => rw [step_fst_getAll]; exact SameFor.refl _ _
  | set o' i p v =>
    simp only [Op.obj] at hne
    simp only [step]
    split
    · exact opSet_frame hne i p v
    · exact SameFor.refl _ _

/-! ### 3. the projection theorem -/

/-- Invariant of the family state: every existing class cache is the class's own binding, and every instance
created so far has walked the caches of its MRO. -/
structure FInv (D : Decls) (s : FSt) : Prop where
  ok : CcOk D s.cc
  built : ∀ o k, dget s.cls o = some k → Built k D s.cc

theorem finv_init (D : Decls) : FInv D (FSt.init D) :=
  ⟨ccOk_init D, fun o k h => by simp [FSt.init, dget] at h⟩

theorem fstep_new {D : Decls} (hS : stable D = true) (cfg : Cfg) {s : FSt} (hI : FInv D s) {o k : Nat}
    (hfresh : dget s.cls o = none) (hk : k ≤ D.length) :
    ∃ cc', fstep cfg D s (.new o k) = ({ s with cc := cc', cls := dset s.cls o k }, [.done]) ∧
      FInv D { s with cc := cc', cls := dset s.cls o k } := by
  have hs : stableFrom (ifacesAt D k) (D.drop k) = true := stable_self (stable_drop k hS)
  obtain ⟨cc', hw, hok, hb, hmono⟩ := walkLevels_ok (ifacesAt D k) D k s.cc hs hI.ok
  refine ⟨cc', ?_, hok, ?_⟩
  · have : ¬ D.length < k := Nat.not_lt.mpr hk
    simp [fstep, hfresh, this, walkFrom, hw]
  · intro o' k' h'
    simp only [dget_dset] at h'
    by_cases e : o = o'
    · simp only [e, if_true, Option.some.injEq] at h'
      subst h'
      exact hb
    · simp only [e, if_false] at h'
      exact hmono k' (hI.built o' k' h')

theorem fstep_op {D : Decls} (hS : stable D = true) (cfg : Cfg) {s : FSt} (hI : FInv D s) {x : Op} {k : Nat}
    (hc : dget s.cls x.obj = some k) {W : World} (hW : elaborate (D.drop k) = some W) :
    fstep cfg D s (.op x) = ({ s with st := (step cfg W s.st x).1 }, (step cfg W s.st x).2) := by
  have : worldOf D k s.cc = some W := by rw [worldOf_eq_elaborate hS (hI.built _ _ hc), hW]
  simp [fstep, hc, this]

theorem family_core {D : Decls} (hS : stable D = true) (cfg : Cfg) :
    ∀ (h : List FOp) (s : FSt) (t : St) (created : List Nat) (o k : Nat) (W : World),
      FInv D s → (∀ o', o' ∈ created ↔ (dget s.cls o').isSome) → wf D created h = true →
      elaborate (D.drop k) = some W →
      (dget s.cls o = some k ∨ (dget s.cls o = none ∧ classIn o h = some k)) →
      SameFor o s.st t →
      projOuts o (ftrace cfg D s h) = trace cfg W t (projOps o h) := by
  intro h
  induction h with
  | nil => intro s t created o k W _ _ _ _ _ _; simp [ftrace, projOuts, projOps, trace]
  | cons f h ih =>
    intro s t created o k W hI hcr hwf hW hlink hsame
    cases f with
    | new o' k' =>
      simp only [wf, Bool.and_eq_true, Bool.not_eq_true', decide_eq_true_eq] at hwf
      obtain ⟨⟨hnot, hk'⟩, hwf'⟩ := hwf
      have hfresh : dget s.cls o' = none := by
        cases hd : dget s.cls o' with
        | none => rfl
        | some x =>
          have : o' ∈ created := (hcr o').mpr (by simp [hd])
          simp [this] at hnot
      obtain ⟨cc', hstep, hI'⟩ := fstep_new hS cfg hI hfresh hk'
      simp only [ftrace, hstep, projOuts, projOps]
      refine ih _ t (o' :: created) o k W hI' ?_ hwf' hW ?_ hsame
      · intro o''
        simp only [List.mem_cons, dget_dset]
        by_cases e : o' = o''
        · simp [e]
        · have e' : ¬ o'' = o' := fun x => e x.symm
          simp only [e, e', if_false, false_or]
          exact hcr o''
      · simp only [dget_dset]
        by_cases e : o' = o
        · subst e
          rcases hlink with h1 | ⟨_, h2⟩
          · rw [hfresh] at h1; exact absurd h1 (by simp)
          · simp only [classIn, if_true, Option.some.injEq] at h2
            subst h2
            exact Or.inl (by simp)
        · simp only [e, if_false]
          rcases hlink with h1 | ⟨h1, h2⟩
          · exact Or.inl h1
          · simp only [classIn, e, if_false] at h2
            exact Or.inr ⟨h1, h2⟩
    | op x =>
      simp only [wf, Bool.and_eq_true] at hwf
      obtain ⟨hin, hwf'⟩ := hwf
      have hx : (dget s.cls x.obj).isSome := (hcr x.obj).mp (by simpa [List.contains_iff_mem] using hin)
      obtain ⟨kx, hkx⟩ := Option.isSome_iff_exists.mp hx
      obtain ⟨Wx, hWx⟩ := Option.isSome_iff_exists.mp (elaborate_isSome_of_stable (stable_drop kx hS))
      have hstep := fstep_op hS cfg hI hkx hWx
      have hI' : FInv D { s with st := (step cfg Wx s.st x).1 } := ⟨hI.ok, hI.built⟩
      simp only [ftrace, hstep, projOuts, projOps]
      have hlink' : dget s.cls o = some k ∨ (dget s.cls o = none ∧ classIn o h = some k) := by
        rcases hlink with h1 | ⟨h1, h2⟩
        · exact Or.inl h1
        · exact Or.inr ⟨h1, by simpa [classIn] using h2⟩
      by_cases e : x.obj = o
      · simp only [e, if_true, trace]
        have hk : kx = k := by
          rcases hlink with h1 | ⟨h1, _⟩
          · rw [e, h1] at hkx; exact (Option.some.inj hkx).symm
          · rw [e, h1] at hkx; exact absurd hkx (by simp)
        subst hk
        have hWW : Wx = W := Option.some.inj (hWx.symm.trans hW)
        subst hWW
        obtain ⟨h2, h1⟩ := step_congr cfg Wx x (e ▸ hsame : SameFor x.obj s.st t)
        rw [h2]
        congr 1
        exact ih _ _ created o kx Wx hI' hcr hwf' hW hlink' (e ▸ h1)
      · simp only [e, if_false]
        have hne : o ≠ x.obj := fun y => e y.symm
        exact ih _ t created o k W hI' hcr hwf' hW hlink' ((step_frame cfg Wx s.st x hne).trans hsame)

/-- What the operations applied to an object produce in a family history is what the one-chain model of the
object's OWN class produces on those operations alone. -/
theorem family_proj {D : Decls} (hS : stable D = true) (cfg : Cfg) (h : List FOp) (hwf : wf D [] h = true)
    (o k : Nat) (hk : classIn o h = some k) :
    ∃ W, elaborate (D.drop k) = some W ∧
      projOuts o (ftrace cfg D (FSt.init D) h) = trace cfg W St.init (projOps o h) := by
  obtain ⟨W, hW⟩ := Option.isSome_iff_exists.mp (elaborate_isSome_of_stable (stable_drop k hS))
  refine ⟨W, hW, family_core hS cfg h (FSt.init D) St.init [] o k W (finv_init D) ?_ hwf hW ?_
    (SameFor.refl _ _)⟩
  · intro o'; simp [FSt.init, dget]
  · exact Or.inr ⟨by simp [FSt.init, dget], hk⟩

/-! ### histories that end with one more operation of the object -/

theorem classIn_append {o k : Nat} : ∀ {h : List FOp} (g : List FOp), classIn o h = some k →
    classIn o (h ++ g) = some k
  | [], _, hk => by simp [classIn] at hk
  | .new o' k' :: h, g, hk => by
    simp only [classIn, List.cons_append] at hk ⊢
    by_cases e : o' = o
    · simpa [e] using hk
    · simp only [e, if_false] at hk ⊢
      exact classIn_append g hk
  | .op _ :: h, g, hk => by
    simp only [classIn, List.cons_append] at hk ⊢
    exact classIn_append g hk

theorem projOps_snoc (o : Nat) (x : Op) (hx : x.obj = o) : ∀ (h : List FOp),
    projOps o (h ++ [.op x]) = projOps o h ++ [x]
  | [] => by simp [projOps, hx]
  | .new _ _ :: h => by simpa [projOps] using projOps_snoc o x hx h
  | .op y :: h => by
    by_cases e : y.obj = o <;> simp [projOps, e, projOps_snoc o x hx h]

theorem trace_snoc (cfg : Cfg) (W : World) (x : Op) : ∀ (l : List Op) (st : St),
    trace cfg W st (l ++ [x]) = trace cfg W st l ++ [(step cfg W (runFrom cfg W st l) x).2]
  | [], st => by simp [trace, runFrom]
  | y :: l, st => by simp [trace, runFrom, trace_snoc cfg W x l]

end Txdbus.Obj.Props
