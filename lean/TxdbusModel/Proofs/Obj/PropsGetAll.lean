/-
C17 lemmas: GetAll of a named interface returns exactly the readable declared properties of that
interface, across the whole class chain.
-/
import TxdbusModel.Proofs.Obj.PropsSim

namespace Txdbus.Obj.Props
open Txdbus.Obj.PropsSpec

/-! ### the loop of `getAllProperties`, seen per property name -/

/-- One iteration, as a function of the property name only. -/
def stepG (R : Str → Bool) (T : Str → Option Typed) (r : List (Str × Typed)) (p : Str) :
    Option (List (Str × Typed)) :=
  if (dget r p).isSome then some r
  else if R p = false then some r
  else (T p).map fun t => dset r p t

/-- What the dictionary holds for `p` after the loop ran over `ps` from `r0`. -/
def expectG (R : Str → Bool) (T : Str → Option Typed) (ps : List Str) (r0 : List (Str × Typed)) (p : Str) :
    Option Typed :=
  match dget r0 p with
  | some t => some t
  | none => if p ∈ ps ∧ R p = true then T p else none

theorem stepG_spec {R : Str → Bool} {T : Str → Option Typed} {r0 r1 : List (Str × Typed)} {q : Str}
    (h : stepG R T r0 q = some r1) (hn : (keys r0).Nodup) :
    (keys r1).Nodup ∧ ∀ p, dget r1 p = expectG R T [q] r0 p := by
  unfold stepG at h
  by_cases h1 : (dget r0 q).isSome = true
  · rw [if_pos h1] at h; cases h
    refine ⟨hn, fun p => ?_⟩
    unfold expectG
    cases hp : dget r0 p with
    | some t => rfl
    | none =>
      simp only [List.mem_singleton]
      rw [if_neg]
      rintro ⟨rfl, _⟩
      simp [hp] at h1
  · rw [if_neg h1] at h
    by_cases h2 : R q = false
    · rw [if_pos h2] at h; cases h
      refine ⟨hn, fun p => ?_⟩
      unfold expectG
      cases hp : dget r0 p with
      | some t => rfl
      | none =>
        simp only [List.mem_singleton]
        rw [if_neg]
        rintro ⟨rfl, hr⟩
        simp [h2] at hr
    · rw [if_neg h2] at h
      cases ht : T q with
      | none => simp [ht] at h
      | some tq =>
        simp only [ht, Option.map_some, Option.some.injEq] at h
        subst h
        refine ⟨nodup_keys_dset q tq hn, fun p => ?_⟩
        unfold expectG
        rw [dget_dset]
        have hq0 : dget r0 q = none := by
          cases hd : dget r0 q with
          | none => rfl
          | some x => simp [hd] at h1
        by_cases hqp : q = p
        · subst hqp
          simp only [if_true, hq0, List.mem_singleton, true_and]
          have : R q = true := by cases hr : R q <;> simp_all
          simp [this, ht]
        · rw [if_neg hqp]
          cases hp : dget r0 p with
          | some t => rfl
          | none =>
            simp only [List.mem_singleton]
            rw [if_neg]
            rintro ⟨rfl, _⟩
            exact hqp rfl

theorem foldG_some {R : Str → Bool} {T : Str → Option Typed} :
    ∀ (ps : List Str) (r0 r' : List (Str × Typed)), ps.foldlM (stepG R T) r0 = some r' →
      (keys r0).Nodup → (keys r').Nodup ∧ ∀ p, dget r' p = expectG R T ps r0 p := by
  intro ps
  induction ps with
  | nil =>
    intro r0 r' h hn
    simp only [List.foldlM_nil, pure, Option.some.injEq] at h
    subst h
    refine ⟨hn, fun p => ?_⟩
    unfold expectG
    cases dget r0 p <;> simp
  | cons q qs ih =>
    intro r0 r' h hn
    rw [List.foldlM_cons] at h
    cases h1 : stepG R T r0 q with
    | none => simp [h1] at h
    | some r1 =>
      simp only [h1, bind, Option.bind_some] at h
      obtain ⟨hn1, e1⟩ := stepG_spec h1 hn
      obtain ⟨hn', e'⟩ := ih r1 r' h hn1
      refine ⟨hn', fun p => ?_⟩
      rw [e', expectG, e1 p]
      unfold expectG
      cases hp : dget r0 p with
      | some t => rfl
      | none =>
        simp only [List.mem_singleton, List.mem_cons]
        by_cases hq : p = q ∧ R p = true
        · obtain ⟨rfl, hr⟩ := hq
          simp only [true_and, hr, and_self, if_true, true_or]
          -- T p is `some` here because the step succeeded
          have := e1 p
          unfold expectG at this
          simp only [hp, List.mem_singleton, true_and, hr, if_true] at this
          cases ht : T p with
          | none =>
            -- then dget r1 p = none, and the step would have failed
            exfalso
            unfold stepG at h1
            simp [hp, hr, ht] at h1
          | some t => rfl
        · have hq' : ¬ ((p = q ∨ p ∈ ([] : List Str)) ∧ R p = true) := by
            rintro ⟨h | h, hr⟩
            · exact hq ⟨h, hr⟩
            · simp at h
          rw [if_neg hq']
          by_cases hr : R p = true
          · have hne : p ≠ q := fun e => hq ⟨e, hr⟩
            simp [hr, hne]
          · simp [hr]

theorem foldG_none {R : Str → Bool} {T : Str → Option Typed} :
    ∀ (ps : List Str) (r0 : List (Str × Typed)), ps.foldlM (stepG R T) r0 = none →
      ∃ p ∈ ps, R p = true ∧ T p = none := by
  intro ps
  induction ps with
  | nil => intro r0 h; simp [pure] at h
  | cons q qs ih =>
    intro r0 h
    rw [List.foldlM_cons] at h
    cases h1 : stepG R T r0 q with
    | none =>
      refine ⟨q, List.mem_cons_self, ?_⟩
      unfold stepG at h1
      by_cases a : (dget r0 q).isSome = true
      · simp [a] at h1
      · by_cases b : R q = false
        · simp [a, b] at h1
        · cases ht : T q with
          | none => exact ⟨by cases hr : R q <;> simp_all, rfl⟩
          | some t => simp [a, b, ht] at h1
    | some r1 =>
      simp only [h1, bind, Option.bind_some] at h
      obtain ⟨p, hp, hr⟩ := ih r1 h
      exact ⟨p, List.mem_cons_of_mem _ hp, hr⟩

theorem foldlM_map_congr {α β γ : Type} {f : β → α → Option β} {g : β → γ → Option β} {k : α → γ} :
    ∀ (es : List α), (∀ e ∈ es, ∀ r, f r e = g r (k e)) → ∀ r0, es.foldlM f r0 = (es.map k).foldlM g r0 := by
  intro es
  induction es with
  | nil => intro _ r0; rfl
  | cons e t ih =>
    intro h r0
    rw [List.map_cons, List.foldlM_cons, List.foldlM_cons, h e List.mem_cons_self r0]
    cases g r0 (k e) with
    | none => rfl
    | some r1 =>
      simp only [bind, Option.bind_some]
      exact ih (fun e' he' => h e' (List.mem_cons_of_mem _ he')) r1

theorem mapM_map_eq {α β γ : Type} {f : α → Option β} {g : α → γ} {g' : β → γ}
    (hfg : ∀ x y, f x = some y → g' y = g x) :
    ∀ {l : List α} {r : List β}, l.mapM f = some r → r.map g' = l.map g := by
  intro l
  induction l with
  | nil => intro r h; simp at h; subst h; rfl
  | cons a t ih =>
    intro r h
    rw [List.mapM_cons] at h
    cases ha : f a with
    | none => simp [ha] at h
    | some b =>
      cases ht : t.mapM f with
      | none => simp [ha, ht] at h
      | some r' =>
        simp [ha, ht] at h
        subst h
        simp [hfg a b ha, ih ht]

theorem mapM_some_of_forall {α β : Type} {f : α → Option β} :
    ∀ {l : List α}, (∀ x ∈ l, ∃ y, f x = some y) → ∃ r, l.mapM f = some r := by
  intro l
  induction l with
  | nil => intro _; exact ⟨[], by simp⟩
  | cons a t ih =>
    intro h
    obtain ⟨b, hb⟩ := h a List.mem_cons_self
    obtain ⟨r, hr⟩ := ih fun x hx => h x (List.mem_cons_of_mem _ hx)
    exact ⟨b :: r, by rw [List.mapM_cons]; simp [hb, hr]⟩

/-! ### per property name of interface `i`: readable?, typed value -/

def gaR (W : World) (i p : Str) : Bool :=
  match lookupProp W.ifaces i p with
  | some ip => decide (ip.access ≠ .write)
  | none => false

def gaT (W : World) (s : SSt) (o : Nat) (i p : Str) : Option Typed :=
  match lookupProp W.ifaces i p with
  | some ip => castClass ip.sig ((s.val o i p).getD .none)
  | none => none

theorem addpNew_eq {cfg : Cfg} {W : World} {st : St} {s : SSt} (hW : W.Good) (hA : AttrConsistent W)
    (hS : Sim cfg W st s) (o : Nat) {i : Str} {e : Str × Bound} (he : e.2 ∈ W.levels.flatten)
    (hp : e.2.pname = e.1) (hi : e.2.iface = i) (r : List (Str × Typed)) :
    addpNew cfg W st o r e = stepG (gaR W i) (gaT W s o i) r e.1 := by
  have hl : lookupProp W.ifaces i e.1 = some e.2.iprop := by
    rw [← hi, ← hp]; exact hW.iprop_eq _ he
  have hga := getattr_declared hA hS he o
  rw [hi, hp] at hga
  unfold addpNew addp stepG gaR gaT
  rw [hl, hp, hga]
  by_cases h1 : (dget r e.1).isSome = true
  · simp [h1]
  · by_cases h2 : e.2.iprop.access = .write
    · simp [h1, h2]
    · simp [h1, h2]

theorem namedEntries_mem {cfg : Cfg} {W : World} (hW : W.Good) (hc : cfg.getAllAllLevels = true) {i : Str}
    {e : Str × Bound} (h : e ∈ namedEntries cfg W i) :
    e.2.pname = e.1 ∧ e.2.iface = i ∧ e.2 ∈ W.levels.flatten := by
  unfold namedEntries at h
  rw [if_pos hc, hW.caches_eq] at h
  obtain ⟨c, hcm, hec⟩ := List.mem_flatMap.mp h
  rcases List.mem_append.mp hcm with hcm | hcm
  · obtain ⟨bs, hbs, rfl⟩ := List.mem_map.mp hcm
    cases hd : dget (buildCache bs) i with
    | none => simp [hd] at hec
    | some ic =>
      simp only [hd, Option.getD_some] at hec
      obtain ⟨a, b, c⟩ := cacheInv_build bs i ic hd e hec
      exact ⟨a, b, List.mem_flatten.mpr ⟨bs, hbs, c⟩⟩
  · simp at hcm; subst hcm
    unfold baseCache at hec
    simp only [dget] at hec
    split at hec <;> simp at hec

theorem namedEntries_has {cfg : Cfg} {W : World} (hW : W.Good) (hc : cfg.getAllAllLevels = true)
    {b : Bound} (hb : b ∈ W.levels.flatten) :
    ∃ b', (b.pname, b') ∈ namedEntries cfg W b.iface := by
  obtain ⟨bs, hbs, hb⟩ := List.mem_flatten.mp hb
  obtain ⟨b', hb'⟩ := entry_of_bound (i := b.iface) (p := b.pname) ⟨b, hb, rfl, rfl⟩
  refine ⟨b', ?_⟩
  unfold namedEntries
  rw [if_pos hc, hW.caches_eq]
  exact List.mem_flatMap.mpr ⟨buildCache bs, List.mem_append_left _ (List.mem_map.mpr ⟨bs, hbs, rfl⟩), hb'⟩

/-- A bound descriptor of (i, p) makes (i, p) a declared property whose definition `lookupProp` finds. -/
theorem declared_lookup {W : World} (hW : W.Good) {b : Bound} (hb : b ∈ W.levels.flatten) {i p : Str}
    (hi : b.iface = i) (hp : b.pname = p) :
    ∃ b0, (W.levels.flatten.find? fun b => b.iface = i ∧ b.pname = p) = some b0 ∧
      lookupProp W.ifaces i p = some b0.iprop ∧ b0 ∈ W.levels.flatten := by
  have : (W.levels.flatten.find? fun b => decide (b.iface = i ∧ b.pname = p)).isSome = true := by
    rw [List.find?_isSome]; exact ⟨b, hb, by simp [hi, hp]⟩
  obtain ⟨b0, hf⟩ := Option.isSome_iff_exists.mp this
  have hb0 := List.mem_of_find?_eq_some hf
  have hip0 : b0.iface = i ∧ b0.pname = p := by simpa using List.find?_some hf
  refine ⟨b0, hf, ?_, hb0⟩
  have := hW.iprop_eq b0 hb0
  rwa [hip0.1, hip0.2] at this

theorem typed_ok {W : World} {s : SSt} {o : Nat} {i p : Str} {ip : PropDef} {v : PVal}
    (hl : lookupProp W.ifaces i p = some ip) (hv : s.val o i p = some v)
    (ht : HasTypeSig ip.sig v = true) :
    ∃ t sg, gaT W s o i p = some t ∧ encodeVariant t = some (sg, v.plain) ∧
      (IsBasic ip.sig = true → sg = ip.sig) := by
  obtain ⟨sg, e, hb⟩ := getReply_of_hasType ht
  unfold getReply at e
  obtain ⟨t, ht1, ht2⟩ := Option.bind_eq_some_iff.mp e
  exact ⟨t, sg, by simp [gaT, hl, hv, ht1], ht2, hb⟩

/-- Every readable name the loop visited is in the dictionary when the loop succeeds. -/
theorem foldG_visited {R : Str → Bool} {T : Str → Option Typed} :
    ∀ (ps : List Str) (r0 r' : List (Str × Typed)), ps.foldlM (stepG R T) r0 = some r' →
      (keys r0).Nodup → ∀ p ∈ ps, R p = true → (dget r' p).isSome = true := by
  intro ps
  induction ps with
  | nil => intro r0 r' _ _ p hp; simp at hp
  | cons q qs ih =>
    intro r0 r' h hn p hp hR
    rw [List.foldlM_cons] at h
    cases h1 : stepG R T r0 q with
    | none => simp [h1] at h
    | some r1 =>
      simp only [h1, bind, Option.bind_some] at h
      obtain ⟨hn1, _⟩ := stepG_spec h1 hn
      rcases List.mem_cons.mp hp with rfl | hp
      · have hq : (dget r1 p).isSome = true := by
          unfold stepG at h1
          by_cases a : (dget r0 p).isSome = true
          · simp only [a, if_true, Option.some.injEq] at h1; subst h1; exact a
          · simp only [a, hR] at h1
            cases ht : T p with
            | none => simp [ht] at h1
            | some t =>
              simp [ht] at h1
              subst h1
              rw [dget_dset_self]; rfl
        obtain ⟨_, e'⟩ := foldG_some qs r1 r' h hn1
        rw [e' p]
        unfold expectG
        cases hd : dget r1 p with
        | none => simp [hd] at hq
        | some t => rfl
      · exact ih r1 r' h hn1 p hp hR

/-! ### GetAll -/

theorem opGetAll_allowed {cfg : Cfg} {W : World} {st : St} {s : SSt} (hW : W.Good)
    (hA : AttrConsistent W) (hc : cfg.Sound) (hS : Sim cfg W st s) (o : Nat) {i : Str} (hi : i ≠ []) :
    GetAllAllowed (sdeclOf W) s o i [opGetAll cfg W st o i] := by
  unfold GetAllAllowed
  have hk : (W.ifaces.all fun f => decide (f.name ≠ i)) = true ↔ i ∉ (sdeclOf W).ifaces := by
    simp only [sdeclOf, List.all_eq_true, decide_eq_true_eq, List.mem_map, not_exists, not_and]
  by_cases hin : i ∈ (sdeclOf W).ifaces
  · rw [if_pos hin]
    have hnot : ¬ (cfg.getAllUnknownErr = true ∧ i ≠ [] ∧ (W.ifaces.all fun f => decide (f.name ≠ i)) = true) :=
      fun h => (hk.mp h.2.2) hin
    -- the loop, per property name
    let es := namedEntries cfg W i
    let ps := es.map Prod.fst
    have hfold : getAllProperties cfg W st o i = ps.foldlM (stepG (gaR W i) (gaT W s o i)) [] := by
      unfold getAllProperties
      rw [if_pos hi]
      exact foldlM_map_congr es (fun e he r => by
        obtain ⟨a, b, c⟩ := namedEntries_mem hW hc.allLevels he
        exact addpNew_eq hW hA hS o c a b r) []
    -- facts about a name the loop visits
    have visit : ∀ p, p ∈ ps → ∃ b0,
        (W.levels.flatten.find? fun b => b.iface = i ∧ b.pname = p) = some b0 ∧
        lookupProp W.ifaces i p = some b0.iprop ∧ b0 ∈ W.levels.flatten := by
      intro p hp
      obtain ⟨e, he, rfl⟩ := List.mem_map.mp hp
      obtain ⟨a, b, c⟩ := namedEntries_mem hW hc.allLevels he
      exact declared_lookup hW c b a
    -- a declared property is visited
    have visited : ∀ p b0, (W.levels.flatten.find? fun b => b.iface = i ∧ b.pname = p) = some b0 → p ∈ ps := by
      intro p b0 hf
      have hb0 := List.mem_of_find?_eq_some hf
      have hip0 : b0.iface = i ∧ b0.pname = p := by simpa using List.find?_some hf
      obtain ⟨b', hb'⟩ := namedEntries_has hW hc.allLevels hb0
      rw [hip0.1, hip0.2] at hb'
      exact List.mem_map.mpr ⟨(p, b'), hb', rfl⟩
    -- the premise of completeness makes every readable declared property typable
    have good : (∀ sp ∈ (sdeclOf W).props, sp.iface = i → sp.readable = true →
          ∃ v, s.val o i sp.name = some v ∧ HasTypeSig sp.sig v = true) →
        ∀ p b0, (W.levels.flatten.find? fun b => b.iface = i ∧ b.pname = p) = some b0 →
        lookupProp W.ifaces i p = some b0.iprop → gaR W i p = true →
        ∃ t sg w, gaT W s o i p = some t ∧ encodeVariant t = some (sg, w) := by
      intro H p b0 hf hl hr
      have hb0 := List.mem_of_find?_eq_some hf
      have hip0 : b0.iface = i ∧ b0.pname = p := by simpa using List.find?_some hf
      have hr' : decide (b0.iprop.access ≠ .write) = true := by simpa [gaR, hl] using hr
      obtain ⟨v, hv, ht⟩ := H (toS b0) (List.mem_map.mpr ⟨b0, hb0, rfl⟩) hip0.1 hr'
      simp only [toS] at hv ht
      rw [hip0.2] at hv
      obtain ⟨t, sg, h1, h2, _⟩ := typed_ok hl hv ht
      exact ⟨t, sg, _, h1, h2⟩
    cases hg : getAllProperties cfg W st o i with
    | none =>
      have hout : opGetAll cfg W st o i = .err .value := by
        unfold opGetAll; rw [if_neg hnot, hg]
      rw [hout]
      refine ⟨Or.inl ⟨_, rfl⟩, (fun l hl => by simp at hl), fun H => ?_⟩
      exfalso
      rw [hfold] at hg
      obtain ⟨p, hp, hr, ht⟩ := foldG_none ps [] hg
      obtain ⟨b0, hf, hl, _⟩ := visit p hp
      obtain ⟨t, sg, w, h1, _⟩ := good H p b0 hf hl hr
      rw [ht] at h1; cases h1
    | some r' =>
      have hg0 := hg
      rw [hfold] at hg
      obtain ⟨hnd, hget⟩ := foldG_some ps [] r' hg (by simp [keys])
      have hget' : ∀ p, dget r' p = if p ∈ ps ∧ gaR W i p = true then gaT W s o i p else none := by
        intro p; rw [hget p]; simp [expectG, dget]
      have entryT : ∀ e ∈ r', e.1 ∈ ps ∧ gaR W i e.1 = true ∧ gaT W s o i e.1 = some e.2 := by
        intro e he
        have hd := dget_of_mem_nodup (k := e.1) (v := e.2) hnd he
        rw [hget' e.1] at hd
        by_cases hc' : e.1 ∈ ps ∧ gaR W i e.1 = true
        · rw [if_pos hc'] at hd; exact ⟨hc'.1, hc'.2, hd⟩
        · rw [if_neg hc'] at hd; cases hd
      let f : Str × Typed → Option (Str × Str × PVal) :=
        fun e => (encodeVariant e.2).map fun sw => (e.1, sw.1, sw.2)
      cases hm : r'.mapM f with
      | none =>
        have hout : opGetAll cfg W st o i = .err .value := by
          unfold opGetAll
          rw [if_neg hnot, hg0]
          simp only
          rw [show (List.mapM (fun e => Option.map (fun sw => (e.1, sw.1, sw.2)) (encodeVariant e.2)) r') =
            none from hm]
        rw [hout]
        refine ⟨Or.inl ⟨_, rfl⟩, (fun l hl => by simp at hl), fun H => ?_⟩
        exfalso
        obtain ⟨l, hl⟩ := mapM_some_of_forall (f := f) (l := r') (fun e he => by
          obtain ⟨hp, hr, ht⟩ := entryT e he
          obtain ⟨b0, hf, hl0, _⟩ := visit e.1 hp
          obtain ⟨t, sg, w, h1, h2⟩ := good H e.1 b0 hf hl0 hr
          rw [ht] at h1; cases h1
          exact ⟨(e.1, sg, w), by simp [f, h2]⟩)
        rw [hl] at hm; cases hm
      | some l =>
        have hout : opGetAll cfg W st o i = .retD l := by
          unfold opGetAll
          rw [if_neg hnot, hg0]
          simp only
          rw [show (List.mapM (fun e => Option.map (fun sw => (e.1, sw.1, sw.2)) (encodeVariant e.2)) r') =
            some l from hm]
        have hkeys : l.map (·.1) = keys r' :=
          mapM_map_eq (f := f) (g := Prod.fst) (g' := fun y => y.1) (fun x y hxy => by
            simp only [f, Option.map_eq_some_iff] at hxy
            obtain ⟨sw, _, rfl⟩ := hxy
            rfl) hm
        rw [hout]
        refine ⟨Or.inr ⟨l, rfl⟩, ?_, fun _ => ⟨l, rfl⟩⟩
        intro l' hl'
        simp only [List.cons.injEq, Out.retD.injEq, and_true] at hl'
        subst hl'
        refine ⟨?_, ?_, ?_⟩
        · rw [hkeys]; exact hnd
        · intro p
          rw [hkeys, ← dget_isSome_iff, sdecl_find]
          constructor
          · intro h
            rw [hget' p] at h
            by_cases hc' : p ∈ ps ∧ gaR W i p = true
            · obtain ⟨b0, hf, hl0, _⟩ := visit p hc'.1
              refine ⟨toS b0, by rw [hf]; rfl, ?_⟩
              simpa [gaR, hl0, toS] using hc'.2
            · rw [if_neg hc'] at h; cases h
          · rintro ⟨sp, hsp, hr⟩
            cases hf : W.levels.flatten.find? fun b => b.iface = i ∧ b.pname = p with
            | none => rw [hf] at hsp; cases hsp
            | some b0 =>
              rw [hf] at hsp
              simp only [Option.map_some, Option.some.injEq] at hsp
              subst hsp
              have hp : p ∈ ps := visited p b0 hf
              obtain ⟨b1, hf1, hl1, _⟩ := visit p hp
              rw [hf] at hf1; cases hf1
              have hR : gaR W i p = true := by simpa [gaR, hl1, toS] using hr
              exact foldG_visited ps [] r' hg (by simp [keys]) p hp hR
        · intro p sg w hmem
          obtain ⟨e, he, hfe⟩ := mem_of_mapM_some hm (p, sg, w) hmem
          obtain ⟨hp, hr, ht⟩ := entryT e he
          obtain ⟨b0, hf, hl0, _⟩ := visit e.1 hp
          simp only [f, Option.map_eq_some_iff] at hfe
          obtain ⟨sw, henc, hsw⟩ := hfe
          simp only [Prod.mk.injEq] at hsw
          obtain ⟨rfl, rfl, rfl⟩ := hsw
          refine ⟨toS b0, by rw [sdecl_find, hf]; rfl, ?_⟩
          intro v hv hty
          simp only [toS] at hty
          obtain ⟨t', sg', h1, h2, h3⟩ := typed_ok hl0 hv hty
          rw [ht] at h1; cases h1
          rw [h2] at henc; cases henc
          exact ⟨rfl, by simpa [toS] using h3⟩
  · rw [if_neg hin]
    refine ⟨.unknownIface, ?_⟩
    unfold opGetAll
    rw [if_pos ⟨hc.unknownErr, hi, hk.mpr hin⟩]

end Txdbus.Obj.Props
