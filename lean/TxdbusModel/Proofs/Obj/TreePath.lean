/-
C16 - lemmas linking the text form of object paths (what the code computes on) with element
lists (what the spec speaks about): `render`/`parse` are inverse on valid paths, and the code's
textual tests (`startswith(p + '/')`, slice, `partition('/')[0]`) mean "strictly below" and
"first element of the remainder" on valid paths.
-/
import TxdbusModel.Obj.Tree
import TxdbusModel.Gen.Validators

namespace Txdbus.Obj
open TreeSpec Tree

namespace TreePath

/-! ### Python string helpers -/

theorem startsWith_iff (s t : Str) : startsWith s t = true ↔ t <+: s := by
  induction s generalizing t with
  | nil => cases t <;> simp [startsWith]
  | cons a s ih =>
    cases t with
    | nil => simp [startsWith]
    | cons b t =>
      simp only [startsWith, Bool.and_eq_true, beq_iff_eq, ih, List.cons_prefix_cons]
      constructor
      · rintro ⟨h1, h2⟩; exact ⟨h1.symm, h2⟩
      · rintro ⟨h1, h2⟩; exact ⟨h1.symm, h2⟩

theorem endsWithSlash_append (a b : Str) (hb : b ≠ []) : endsWithSlash (a ++ b) = endsWithSlash b := by
  induction a with
  | nil => rfl
  | cons c a ih =>
    cases hab : a ++ b with
    | nil => simp at hab; exact absurd hab.2 hb
    | cons d r =>
      rw [List.cons_append, hab, endsWithSlash, ← hab, ih]

theorem endsWithSlash_of_not_mem (e : Str) (h : '/' ∉ e) : endsWithSlash e = false := by
  induction e with
  | nil => rfl
  | cons c e ih =>
    cases e with
    | nil =>
      simp only [endsWithSlash, beq_eq_false_iff_ne, ne_eq]
      intro hc; subst hc; simp at h
    | cons d r =>
      rw [endsWithSlash]
      exact ih (fun hm => h (List.mem_cons_of_mem _ hm))

/-! ### the element alphabet and the source's character class -/

/-- membership in a list of inclusive code-point ranges (the form of `Gen.Validators`) -/
def inRanges (rs : List (Nat × Nat)) (n : Nat) : Bool := rs.any fun r => r.1 ≤ n && n ≤ r.2

theorem elemCode_eq_gen (n : Nat) :
    elemCode n = (inRanges Gen.Validators.objPathAllowed n && n != 47) := by
  rw [Bool.eq_iff_iff]
  simp only [elemCode, inRanges, Gen.Validators.objPathAllowed, List.any_cons, List.any_nil, Bool.or_false,
    Bool.or_eq_true, Bool.and_eq_true, decide_eq_true_eq, beq_iff_eq, bne_iff_ne, ne_eq]
  omega

/-! ### validity -/

theorem elemChar_slash : elemChar '/' = false := by decide

theorem slashFree_of_validElem {e : Elem} (h : validElem e = true) : '/' ∉ e := by
  intro hm
  simp only [validElem, Bool.and_eq_true, List.all_eq_true] at h
  have := h.2 _ hm
  rw [elemChar_slash] at this
  exact absurd this (by decide)

theorem ne_nil_of_validElem {e : Elem} (h : validElem e = true) : e ≠ [] := by
  intro he; subst he; simp [validElem] at h

/-- Every element is free of `/`. -/
def SlashFree (p : Path) : Prop := ∀ e ∈ p, '/' ∉ e

theorem ValidPath.slashFree {p : Path} (h : ValidPath p) : SlashFree p :=
  fun e he => slashFree_of_validElem (h e he)

theorem validPath_cons {e : Elem} {p : Path} : ValidPath (e :: p) ↔ validElem e = true ∧ ValidPath p := by
  simp [ValidPath]

theorem validPath_append {p q : Path} : ValidPath (p ++ q) ↔ ValidPath p ∧ ValidPath q := by
  simp only [ValidPath, List.mem_append]
  constructor
  · intro h; exact ⟨fun e he => h e (Or.inl he), fun e he => h e (Or.inr he)⟩
  · rintro ⟨h1, h2⟩ e (he | he)
    · exact h1 e he
    · exact h2 e he

/-! ### `flat` -/

theorem flat_append (p q : Path) : flat (p ++ q) = flat p ++ flat q := by
  induction p with
  | nil => rfl
  | cons e p ih => simp [flat, ih]

/-- empty, or starting with `/` -/
def NilOrSlash (y : Str) : Prop := y = [] ∨ ∃ y', y = '/' :: y'

theorem flat_nilOrSlash (p : Path) : NilOrSlash (flat p) := by
  cases p with
  | nil => exact Or.inl rfl
  | cons e p => exact Or.inr ⟨_, rfl⟩

theorem flat_slash_start (p : Path) : ∃ x', flat p ++ ['/'] = '/' :: x' := by
  cases p with
  | nil => exact ⟨[], rfl⟩
  | cons e p => exact ⟨_, rfl⟩

theorem flat_eq_nil {p : Path} : flat p = [] ↔ p = [] := by
  cases p <;> simp [flat]

/-- Two slash-free words followed by "a slash or nothing": prefix means equal words. -/
theorem prefix_elem (a b x' y : Str) (ha : '/' ∉ a) (hb : '/' ∉ b) (hy : NilOrSlash y) :
    a ++ '/' :: x' <+: b ++ y ↔ a = b ∧ '/' :: x' <+: y := by
  induction a generalizing b with
  | nil =>
    cases b with
    | nil => simp
    | cons d b =>
      simp only [List.nil_append, List.cons_append, List.cons_prefix_cons]
      constructor
      · rintro ⟨h, _⟩; subst h; simp at hb
      · rintro ⟨h, _⟩; simp at h
  | cons c a ih =>
    have hc : c ≠ '/' := fun h => ha (by simp [h])
    have ha' : '/' ∉ a := fun h => ha (List.mem_cons_of_mem _ h)
    cases b with
    | nil =>
      simp only [List.cons_append, List.nil_append]
      constructor
      · intro h
        rcases hy with rfl | ⟨y', rfl⟩
        · simp at h
        · rw [List.cons_prefix_cons] at h; exact absurd h.1 hc
      · rintro ⟨h, _⟩; simp at h
    | cons d b =>
      have hb' : '/' ∉ b := fun h => hb (List.mem_cons_of_mem _ h)
      simp only [List.cons_append, List.cons_prefix_cons, ih b ha' hb', List.cons.injEq]
      constructor
      · rintro ⟨h1, h2, h3⟩; exact ⟨⟨h1, h2⟩, h3⟩
      · rintro ⟨⟨h1, h2⟩, h3⟩; exact ⟨h1, h2, h3⟩

/-- The code's prefix test, on element lists: `p + '/'` is a prefix of `q` exactly when `q`
continues `p` by at least one element. -/
theorem flat_prefix_iff (p q : Path) (hp : SlashFree p) (hq : SlashFree q) :
    flat p ++ ['/'] <+: flat q ↔ ∃ e rest, q = p ++ e :: rest := by
  induction p generalizing q with
  | nil =>
    cases q with
    | nil => simp [flat]
    | cons b q => simp [flat]
  | cons a p ih =>
    cases q with
    | nil => simp [flat]
    | cons b q =>
      have ha : '/' ∉ a := hp a (by simp)
      have hb : '/' ∉ b := hq b (by simp)
      have hp' : SlashFree p := fun e he => hp e (List.mem_cons_of_mem _ he)
      have hq' : SlashFree q := fun e he => hq e (List.mem_cons_of_mem _ he)
      obtain ⟨x', hx'⟩ := flat_slash_start p
      have h1 : flat (a :: p) ++ ['/'] = '/' :: (a ++ '/' :: x') := by
        simp only [flat, List.cons_append, List.append_assoc, hx']
      rw [h1]
      simp only [flat, List.cons_prefix_cons, true_and]
      rw [prefix_elem a b x' (flat q) ha hb (flat_nilOrSlash q), ← hx', ih q hp' hq']
      constructor
      · rintro ⟨rfl, e, rest, rfl⟩; exact ⟨e, rest, rfl⟩
      · rintro ⟨e, rest, h⟩
        simp only [List.cons_append, List.cons.injEq] at h
        exact ⟨h.1.symm, e, rest, h.2⟩

/-! ### `dirPrefix`, `childOf` -/

theorem endsWithSlash_flat (p : Path) (hne : p ≠ []) (hp : ValidPath p) : endsWithSlash (flat p) = false := by
  induction p with
  | nil => exact absurd rfl hne
  | cons e p ih =>
    have he := (validPath_cons.mp hp).1
    have hp' := (validPath_cons.mp hp).2
    by_cases hnil : p = []
    · subst hnil
      have : flat [e] = ['/'] ++ e := by simp [flat]
      rw [this, endsWithSlash_append _ _ (ne_nil_of_validElem he)]
      exact endsWithSlash_of_not_mem _ (slashFree_of_validElem he)
    · have : flat (e :: p) = ('/' :: e) ++ flat p := by simp [flat]
      rw [this, endsWithSlash_append _ _ (fun h => hnil (flat_eq_nil.mp h))]
      exact ih hnil hp'

/-- `if not objectPath.endswith('/'): objectPath += '/'` on a valid path: always `flat p + '/'`
(the root is the only path that already ends with `/`). -/
theorem dirPrefix_render (p : Path) (hp : ValidPath p) : dirPrefix (render p) = flat p ++ ['/'] := by
  cases p with
  | nil => simp [dirPrefix, render, flat, endsWithSlash]
  | cons e p =>
    have h := endsWithSlash_flat (e :: p) (by simp) hp
    show (if endsWithSlash (flat (e :: p)) = true then flat (e :: p) else flat (e :: p) ++ ['/']) = _
    simp [h]

theorem beforeSlash_append (e y : Str) (he : '/' ∉ e) (hy : NilOrSlash y) : beforeSlash (e ++ y) = e := by
  induction e with
  | nil =>
    rcases hy with rfl | ⟨y', rfl⟩ <;> simp [beforeSlash]
  | cons c e ih =>
    have hc : c ≠ '/' := fun h => he (by simp [h])
    have he' : '/' ∉ e := fun h => he (List.mem_cons_of_mem _ h)
    have := ih he'
    simp only [beforeSlash] at this ⊢
    simp [hc, this]

/-- slice + `partition('/')[0]` yields the first element of the remainder -/
theorem childOf_below (p : Path) (e : Elem) (rest : Path) (he : '/' ∉ e) :
    childOf (flat p ++ ['/']) (flat (p ++ e :: rest)) = e := by
  have h : flat (p ++ e :: rest) = (flat p ++ ['/']) ++ (e ++ flat rest) := by
    simp [flat_append, flat]
  rw [childOf, h, List.drop_left]
  exact beforeSlash_append e _ he (flat_nilOrSlash rest)

/-! ### `render` / `parse` -/

theorem splitSlash_ne_nil (s : Str) : splitSlash s ≠ [] := by
  induction s with
  | nil => simp [splitSlash]
  | cons c s ih =>
    rw [splitSlash]
    split
    · simp
    · split <;> simp

theorem splitSlash_word (e : Str) (p : Path) (he : '/' ∉ e) (hp : SlashFree p) :
    splitSlash (e ++ flat p) = e :: p := by
  induction p generalizing e with
  | nil =>
    induction e with
    | nil => simp [flat, splitSlash]
    | cons c e ih =>
      have hc : c ≠ '/' := fun h => he (by simp [h])
      have he' : '/' ∉ e := fun h => he (List.mem_cons_of_mem _ h)
      have := ih he'
      simp only [flat, List.append_nil] at this ⊢
      simp [splitSlash, hc, this]
  | cons a p ihp =>
    have ha : '/' ∉ a := hp a (by simp)
    have hp' : SlashFree p := fun e he => hp e (List.mem_cons_of_mem _ he)
    induction e with
    | nil => simp [flat, splitSlash, ihp a ha hp']
    | cons c e ih =>
      have hc : c ≠ '/' := fun h => he (by simp [h])
      have he' : '/' ∉ e := fun h => he (List.mem_cons_of_mem _ h)
      have := ih he'
      simp [splitSlash, hc, this]

theorem parse_render (p : Path) (hp : ValidPath p) : parse (render p) = some p := by
  cases p with
  | nil => simp [parse, render]
  | cons e p =>
    have he := (validPath_cons.mp hp).1
    have hsf := ValidPath.slashFree hp
    have hne : render (e :: p) ≠ ['/'] := by
      have := ne_nil_of_validElem he
      cases e with
      | nil => exact absurd rfl this
      | cons c e => simp [render, flat]
    have hs : splitSlash (render (e :: p)) = [] :: e :: p := by
      simp only [render, flat, splitSlash, if_true]
      rw [splitSlash_word e p (hsf e (by simp)) (fun x hx => hsf x (List.mem_cons_of_mem _ hx))]
    have hall : (e :: p).all validElem = true := by
      rw [List.all_eq_true]; exact hp
    simp only [parse, hne, if_false, hs, hall, if_true]

/-- `'/'.join(words)` -/
def joinSlash : List Str → Str
  | [] => []
  | [w] => w
  | w :: v :: ws => w ++ '/' :: joinSlash (v :: ws)

theorem joinSlash_splitSlash (s : Str) : joinSlash (splitSlash s) = s := by
  induction s with
  | nil => simp [splitSlash, joinSlash]
  | cons c s ih =>
    rw [splitSlash]
    cases hs : splitSlash s with
    | nil => exact absurd hs (splitSlash_ne_nil s)
    | cons w ws =>
      rw [hs] at ih
      split
      · rename_i hc
        simp [joinSlash, ih, hc]
      · cases ws with
        | nil => simp only [joinSlash] at ih ⊢; rw [ih]
        | cons v ws => simp only [joinSlash, List.cons_append] at ih ⊢; rw [ih]

theorem joinSlash_cons (e : Str) (p : Path) : joinSlash (e :: p) = e ++ flat p := by
  induction p generalizing e with
  | nil => simp [joinSlash, flat]
  | cons a p ih => simp [joinSlash, flat, ih]

theorem render_parse (s : Str) (p : Path) (h : parse s = some p) : ValidPath p ∧ render p = s := by
  unfold parse at h
  split at h
  · rename_i hs
    cases h
    exact ⟨by simp [ValidPath], by simp [render, hs]⟩
  · split at h
    · rename_i e es hsplit
      split at h
      · rename_i hall
        cases h
        refine ⟨by rw [List.all_eq_true] at hall; exact hall, ?_⟩
        have := joinSlash_splitSlash s
        rw [hsplit] at this
        simp only [joinSlash, List.nil_append, joinSlash_cons] at this
        simpa [render, flat] using this
      · cases h
    · cases h

theorem validText_iff (s : Str) : ValidText s ↔ ∃ p, ValidPath p ∧ render p = s := by
  constructor
  · intro h
    unfold ValidText at h
    cases hp : parse s with
    | none => rw [hp] at h; cases h
    | some p => exact ⟨p, render_parse s p hp⟩
  · rintro ⟨p, hp, rfl⟩
    simp [ValidText, parse_render p hp]

theorem render_inj (p q : Path) (hp : ValidPath p) (hq : ValidPath q) (h : render p = render q) : p = q := by
  have h1 := parse_render p hp
  rw [h, parse_render q hq] at h1
  exact (Option.some.inj h1).symm

/-! ### the spec's `properPrefix` -/

theorem properPrefix_iff (p q : Path) : properPrefix p q = true ↔ ∃ e rest, q = p ++ e :: rest := by
  induction p generalizing q with
  | nil => cases q <;> simp [properPrefix]
  | cons a p ih =>
    cases q with
    | nil => simp [properPrefix]
    | cons b q =>
      simp only [properPrefix, Bool.and_eq_true, beq_iff_eq, ih, List.cons_append, List.cons.injEq]
      constructor
      · rintro ⟨rfl, e, rest, rfl⟩; exact ⟨e, rest, rfl, rfl⟩
      · rintro ⟨e, rest, rfl, rfl⟩; exact ⟨rfl, e, rest, rfl⟩

/-! ### the code's two textual tests, on valid paths -/

/-- `key.startswith(dirPrefix p)`: the key is strictly below `p`, or both are the root. -/
theorem startsWith_dirPrefix (p q : Path) (hp : ValidPath p) (hq : ValidPath q) :
    startsWith (render q) (dirPrefix (render p)) = true ↔
      (p = [] ∧ q = []) ∨ ∃ e rest, q = p ++ e :: rest := by
  rw [dirPrefix_render p hp, startsWith_iff]
  cases q with
  | nil =>
    cases p with
    | nil => simp [render, flat]
    | cons a p =>
      simp only [render, flat, List.cons_append, List.cons_prefix_cons, true_and]
      constructor
      · intro h
        have := ne_nil_of_validElem (validPath_cons.mp hp).1
        cases a with
        | nil => exact absurd rfl this
        | cons c a => simp at h
      · rintro (⟨h, _⟩ | ⟨e, rest, h⟩)
        · cases h
        · simp at h
  | cons b q =>
    rw [show render (b :: q) = flat (b :: q) from rfl, flat_prefix_iff p (b :: q) (ValidPath.slashFree hp) (ValidPath.slashFree hq)]
    constructor
    · intro h; exact Or.inr h
    · rintro (⟨_, h⟩ | h)
      · cases h
      · exact h

/-- `key.startswith(dirPrefix p) and key != p`: the key is strictly below `p`. -/
theorem startsWith_dirPrefix_ne (p q : Path) (hp : ValidPath p) (hq : ValidPath q) :
    (startsWith (render q) (dirPrefix (render p)) = true ∧ render q ≠ render p) ↔
      ∃ e rest, q = p ++ e :: rest := by
  rw [startsWith_dirPrefix p q hp hq]
  constructor
  · rintro ⟨(⟨rfl, rfl⟩ | h), hne⟩
    · exact absurd rfl hne
    · exact h
  · rintro ⟨e, rest, rfl⟩
    refine ⟨Or.inr ⟨e, rest, rfl⟩, fun h => ?_⟩
    have := render_inj _ _ hq hp h
    have hl := congrArg List.length this
    simp at hl

theorem render_cons (e : Elem) (p : Path) : render (e :: p) = flat (e :: p) := rfl

theorem render_below (p : Path) (e : Elem) (rest : Path) : render (p ++ e :: rest) = flat (p ++ e :: rest) := by
  cases p <;> rfl

/-- `objectPath + '/'` unless it already ends with `/`, written the way the assignment states it. -/
theorem dirPrefix_eq_ite (p : Path) (hp : ValidPath p) :
    dirPrefix (render p) = (if render p = ['/'] then ['/'] else render p ++ ['/']) := by
  rw [dirPrefix_render p hp]
  cases p with
  | nil => simp [render, flat]
  | cons a p =>
    have : flat (a :: p) ≠ ['/'] := by
      have := ne_nil_of_validElem (validPath_cons.mp hp).1
      cases a with
      | nil => exact absurd rfl this
      | cons c a => simp [flat]
    simp [this, render]

/-- The lemma of the assignment: for valid paths, `q` is strictly below `p` iff the text of `q`
starts with (`"/"` if `p` is the root, else `p + "/"`) and `q ≠ p`. -/
theorem strictlyBelow_text (p q : Path) (hp : ValidPath p) (hq : ValidPath q) :
    properPrefix p q = true ↔
      (startsWith (render q) (if render p = ['/'] then ['/'] else render p ++ ['/']) = true ∧ render q ≠ render p) := by
  rw [← dirPrefix_eq_ite p hp, startsWith_dirPrefix_ne p q hp hq, properPrefix_iff]

end TreePath
end Txdbus.Obj
