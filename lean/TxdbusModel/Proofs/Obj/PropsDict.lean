/-
C17 lemmas: the association-list dictionary `dget` / `dset` of Obj/Props.lean.
-/
import TxdbusModel.Obj.Props

namespace Txdbus.Obj.Props

variable {κ α : Type} [DecidableEq κ]

theorem dget_dset (l : List (κ × α)) (k k' : κ) (v : α) :
    dget (dset l k v) k' = if k = k' then some v else dget l k' := by
  induction l with
  | nil => simp [dset, dget]
  | cons h t ih =>
    obtain ⟨k0, v0⟩ := h
    by_cases h0 : k0 = k
    · subst h0
      by_cases h1 : k0 = k' <;> simp [dset, dget, h1]
    · by_cases h1 : k0 = k'
      · subst h1
        have : ¬ k = k0 := fun e => h0 e.symm
        simp [dset, dget, h0, this]
      · simp [dset, dget, h0, h1, ih]

theorem dget_dset_self (l : List (κ × α)) (k : κ) (v : α) : dget (dset l k v) k = some v := by
  simp [dget_dset]

theorem dget_dset_ne (l : List (κ × α)) {k k' : κ} (v : α) (h : k ≠ k') :
    dget (dset l k v) k' = dget l k' := by
  simp [dget_dset, h]

/-- Keys of a dictionary. -/
def keys (l : List (κ × α)) : List κ := l.map Prod.fst

theorem dget_isSome_iff (l : List (κ × α)) (k : κ) : (dget l k).isSome ↔ k ∈ keys l := by
  induction l with
  | nil => simp [dget, keys]
  | cons h t ih =>
    obtain ⟨k0, v0⟩ := h
    by_cases h0 : k0 = k
    · subst h0; simp [dget, keys]
    · have : ¬ k = k0 := fun e => h0 e.symm
      simp [dget, keys, h0, this] at ih ⊢
      exact ih

theorem dget_eq_none_iff (l : List (κ × α)) (k : κ) : dget l k = none ↔ k ∉ keys l := by
  rw [← dget_isSome_iff]; cases dget l k <;> simp

theorem mem_of_dget {l : List (κ × α)} {k : κ} {v : α} (h : dget l k = some v) : (k, v) ∈ l := by
  induction l with
  | nil => simp [dget] at h
  | cons hd t ih =>
    obtain ⟨k0, v0⟩ := hd
    by_cases h0 : k0 = k
    · subst h0; simp [dget] at h; simp [h]
    · simp [dget, h0] at h; exact List.mem_cons_of_mem _ (ih h)

theorem mem_dset {l : List (κ × α)} {k : κ} {v : α} {x : κ × α} (h : x ∈ dset l k v) :
    x = (k, v) ∨ x ∈ l := by
  induction l with
  | nil => simp [dset] at h; exact Or.inl h
  | cons hd t ih =>
    obtain ⟨k0, v0⟩ := hd
    by_cases h0 : k0 = k
    · subst h0
      simp [dset] at h
      rcases h with h | h
      · exact Or.inl h
      · exact Or.inr (List.mem_cons_of_mem _ h)
    · simp [dset, h0] at h
      rcases h with h | h
      · exact Or.inr (by simp [h])
      · rcases ih h with h | h
        · exact Or.inl h
        · exact Or.inr (List.mem_cons_of_mem _ h)

theorem keys_dset (l : List (κ × α)) (k : κ) (v : α) :
    keys (dset l k v) = if k ∈ keys l then keys l else keys l ++ [k] := by
  induction l with
  | nil => simp [dset, keys]
  | cons hd t ih =>
    obtain ⟨k0, v0⟩ := hd
    by_cases h0 : k0 = k
    · subst h0; simp [dset, keys]
    · have : ¬ k = k0 := fun e => h0 e.symm
      simp only [keys] at ih
      by_cases hm : k ∈ List.map Prod.fst t <;> simp [dset, keys, h0, this, ih, hm]

theorem nodup_keys_dset {l : List (κ × α)} (k : κ) (v : α) (h : (keys l).Nodup) :
    (keys (dset l k v)).Nodup := by
  rw [keys_dset]
  split
  · exact h
  · rename_i hk
    rw [List.nodup_append]
    refine ⟨h, by simp, ?_⟩
    intro a ha b hb
    simp at hb
    subst hb
    intro e; subst e; exact hk ha

theorem mem_keys_dset (l : List (κ × α)) (k k' : κ) (v : α) :
    k' ∈ keys (dset l k v) ↔ k' = k ∨ k' ∈ keys l := by
  rw [keys_dset]
  split
  · rename_i hk
    constructor
    · exact Or.inr
    · rintro (h | h)
      · subst h; exact hk
      · exact h
  · simp [or_comm]

theorem dget_of_mem_nodup {l : List (κ × α)} {k : κ} {v : α} (hn : (keys l).Nodup) (h : (k, v) ∈ l) :
    dget l k = some v := by
  induction l with
  | nil => simp at h
  | cons hd t ih =>
    obtain ⟨k0, v0⟩ := hd
    simp [keys] at hn
    by_cases h0 : k0 = k
    · subst h0
      simp at h
      rcases h with h | h
      · simp [dget, h]
      · exact absurd h (hn.1 v)
    · simp at h
      have : (k, v) ∈ t := by
        rcases h with h | h
        · exact absurd h.1.symm h0
        · exact h
      simp [dget, h0]
      exact ih (by simpa [keys] using hn.2) this

end Txdbus.Obj.Props
