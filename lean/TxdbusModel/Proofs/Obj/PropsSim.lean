/-
C17 lemmas: the code model refines the specification (Get, Set, local assignment, export), step by step
and over whole histories.
-/
import TxdbusModel.Obj.PropsRefine
import TxdbusModel.Proofs.Obj.PropsCache
import TxdbusModel.Proofs.Obj.PropsValue

namespace Txdbus.Obj.Props
open Txdbus.Obj.PropsSpec

/-! ### declared properties: specification view = flattened bound descriptors -/

theorem sdecl_find (W : World) (i p : Str) :
    (sdeclOf W).find i p = (W.levels.flatten.find? fun b => b.iface = i ∧ b.pname = p).map toS := by
  unfold SDecl.find sdeclOf
  rw [List.find?_map]
  rfl

theorem sdecl_byAttr (W : World) (a : Str) : (sdeclOf W).byAttr a = (resolveAttr W a).map toS := by
  unfold SDecl.byAttr sdeclOf
  rw [List.find?_map, resolveAttr_eq_find]
  rfl

theorem same_iprop {W : World} (hW : W.Good) {b1 b2 : Bound} (h1 : b1 ∈ W.levels.flatten)
    (h2 : b2 ∈ W.levels.flatten) (hi : b1.iface = b2.iface) (hp : b1.pname = b2.pname) :
    b1.iprop = b2.iprop := by
  have e1 := hW.iprop_eq b1 h1
  have e2 := hW.iprop_eq b2 h2
  rw [hi, hp, e2] at e1
  exact (Option.some.inj e1).symm

/-- Get/Set's property search against the declared properties, for a named interface. -/
theorem getProperty_declared {W : World} (hW : W.Good) {i p : Str} (hi : i ≠ []) :
    match W.levels.flatten.find? fun b => b.iface = i ∧ b.pname = p with
    | none => getProperty W i p = none
    | some b0 => ∃ b, getProperty W i p = some b ∧ b ∈ W.levels.flatten ∧ b.iface = i ∧ b.pname = p ∧
        b.iprop = b0.iprop := by
  have hg : getProperty W i p = searchNamed W.caches i p := by simp [getProperty, hi]
  cases hf : W.levels.flatten.find? fun b => b.iface = i ∧ b.pname = p with
  | none =>
    simp only
    rw [hg]
    cases hs : searchNamed W.caches i p with
    | none => rfl
    | some b =>
      obtain ⟨hb, hip⟩ := searchNamed_some hW hs
      have := List.find?_eq_none.mp hf b hb
      simp [hip] at this
  | some b0 =>
    simp only
    have hb0 := List.mem_of_find?_eq_some hf
    have hip0 : b0.iface = i ∧ b0.pname = p := by simpa using List.find?_some hf
    obtain ⟨b, hs⟩ := searchNamed_isSome hW ⟨b0, hb0, hip0⟩
    obtain ⟨hb, hip⟩ := searchNamed_some hW hs
    exact ⟨b, hg ▸ hs, hb, hip.1, hip.2,
      same_iprop hW hb hb0 (hip.1.trans hip0.1.symm) (hip.2.trans hip0.2.symm)⟩

/-- `getattr(self, b.attr_name)` of a bound descriptor reads the specification's value of its property. -/
theorem getattr_declared {cfg : Cfg} {W : World} {st : St} {s : SSt} (hA : AttrConsistent W)
    (hS : Sim cfg W st s) {b : Bound} (hb : b ∈ W.levels.flatten) (o : Nat) :
    getattrProp cfg W st o b.attr = some ((s.val o b.iface b.pname).getD .none) := by
  obtain ⟨b', hr⟩ := resolveAttr_isSome ⟨b, hb, rfl⟩
  obtain ⟨hb', ha⟩ := resolveAttr_some hr
  obtain ⟨e1, e2⟩ := hA b' hb' b hb ha
  unfold getattrProp descGet
  rw [hr]
  simp only [Option.map_some]
  rw [e1, e2, hS.val o b hb]

/-! ### Get -/

theorem opGet_allowed {cfg : Cfg} {W : World} {st : St} {s : SSt} (hW : W.Good) (hA : AttrConsistent W)
    (hS : Sim cfg W st s) (o : Nat) {i : Str} (p : Str) (hi : i ≠ []) :
    GetAllowed (sdeclOf W) s o i p [opGet cfg W st o i p] := by
  unfold GetAllowed
  rw [sdecl_find]
  have hd := getProperty_declared hW (p := p) hi
  cases hf : W.levels.flatten.find? fun b => b.iface = i ∧ b.pname = p with
  | none =>
    rw [hf] at hd
    simp only [Option.map_none]
    exact ⟨.unknownProp, by simp [opGet, hd]⟩
  | some b0 =>
    rw [hf] at hd
    obtain ⟨b, hg, hb, hbi, hbp, hip⟩ := hd
    simp only [Option.map_some, toS]
    by_cases hr : b0.iprop.access = .write
    · simp only [hr, ne_eq, not_true_eq_false, decide_false]
      exact ⟨.notReadable, by simp [opGet, hg, hip, hr]⟩
    · simp only [hr, ne_eq, not_false_eq_true, decide_true, if_true]
      intro v hv ht
      obtain ⟨sg, e, hbasic⟩ := getReply_of_hasType ht
      refine ⟨sg, ?_, hbasic⟩
      have hga := getattr_declared hA hS hb o
      rw [hbi, hbp, hv] at hga
      simp [opGet, hg, hip, hr, hga, e]

/-! ### the descriptor's `__set__` -/

theorem descSet_store (cfg : Cfg) (st : St) (o : Nat) (b : Bound) (v : PVal) :
    (descSet cfg st o b v).1 = { st with store := dset st.store (o, cfg.key b.iface b.pname) v } := by
  unfold descSet
  split
  · split <;> rfl
  · rfl

theorem descSet_out (cfg : Cfg) (st : St) (o : Nat) (b : Bound) (v : PVal) :
    (descSet cfg st o b v).2 =
      if b.iprop.emits = .yes ∧ o ∈ st.attached then
        (match encodeVariant ⟨none, v⟩ with
          | some (sg, w) => ([.signal o b.iface b.pname sg w], false)
          | none => ([], true))
      else ([], false) := by
  unfold descSet
  by_cases he : b.iprop.emits = .yes ∧ o ∈ st.attached
  · simp only [he, and_self, if_true]
    cases encodeVariant ⟨none, v⟩ with
    | none => rfl
    | some x => rfl
  · simp only [he, if_false]

theorem sim_write {cfg : Cfg} {W : World} {st : St} {s : SSt} (hc : cfg.Sound) (hS : Sim cfg W st s)
    (o : Nat) (i p : Str) (v : PVal) :
    Sim cfg W { st with store := dset st.store (o, cfg.key i p) v } (s.write o i p v) := by
  refine ⟨hS.att, ?_⟩
  intro o2 b2 hb2
  simp only [SSt.write]
  rw [dget_dset]
  by_cases h : o2 = o ∧ b2.iface = i ∧ b2.pname = p
  · obtain ⟨rfl, rfl, rfl⟩ := h
    simp
  · have : ¬ ((o, cfg.key i p) = (o2, cfg.key b2.iface b2.pname)) := by
      intro e
      have e1 : o = o2 := congrArg Prod.fst e
      have e2 : cfg.key i p = cfg.key b2.iface b2.pname := congrArg Prod.snd e
      obtain ⟨rfl, rfl⟩ := hc.key_inj _ _ _ _ e2
      exact h ⟨e1.symm, rfl, rfl⟩
    rw [if_neg this, if_neg h]
    exact hS.val o2 b2 hb2

/-! ### local assignment -/

theorem assign_step {cfg : Cfg} {W : World} {st : St} {s : SSt} (hc : cfg.Sound) (hS : Sim cfg W st s)
    (o : Nat) (a : Str) (v : PVal) :
    Sim cfg W (step cfg W st (.assign o a v)).1 (next (sdeclOf W) s (.assign o a v) (step cfg W st (.assign o a v)).2) ∧
    AssignAllowed (sdeclOf W) s o a v (step cfg W st (.assign o a v)).2 := by
  unfold AssignAllowed
  simp only [next, sdecl_byAttr, step]
  cases hr : resolveAttr W a with
  | none => exact ⟨hS, rfl⟩
  | some b =>
    simp only [Option.map_some]
    have h1 := descSet_store cfg st o b v
    have h2 := descSet_out cfg st o b v
    rcases hd : descSet cfg st o b v with ⟨st', outs, raised⟩
    rw [hd] at h1 h2
    simp only at h1 h2
    have hsim : Sim cfg W st' (s.write o b.iface b.pname v) := h1 ▸ sim_write hc hS o b.iface b.pname v
    have hatt : (o ∈ st.attached) ↔ s.attached o = true := hS.att o
    simp only [toS, decide_eq_true_eq]
    by_cases he : b.iprop.emits = .yes ∧ o ∈ st.attached
    · rw [if_pos he] at h2
      have he' : b.iprop.emits = .yes ∧ s.attached o = true := ⟨he.1, hatt.mp he.2⟩
      rw [if_pos he']
      cases henc : encodeVariant ⟨none, v⟩ with
      | none =>
        rw [henc] at h2
        simp only [Prod.mk.injEq] at h2
        obtain ⟨rfl, rfl⟩ := h2
        refine ⟨hsim, ?_⟩
        intro hsend
        obtain ⟨sg, e⟩ := encodeVariant_sendable hsend
        rw [e] at henc; cases henc
      | some x =>
        obtain ⟨sg, w⟩ := x
        rw [henc] at h2
        simp only [Prod.mk.injEq] at h2
        obtain ⟨rfl, rfl⟩ := h2
        refine ⟨hsim, ?_⟩
        intro hsend
        obtain ⟨sg', e⟩ := encodeVariant_sendable hsend
        rw [e] at henc
        simp only [Option.some.injEq, Prod.mk.injEq] at henc
        obtain ⟨rfl, rfl⟩ := henc
        exact ⟨_, rfl⟩
    · rw [if_neg he] at h2
      simp only [Prod.mk.injEq] at h2
      obtain ⟨rfl, rfl⟩ := h2
      refine ⟨hsim, ?_⟩
      have : ¬ (b.iprop.emits = .yes ∧ s.attached o = true) := fun h => he ⟨h.1, hatt.mpr h.2⟩
      rw [if_neg this]
      rfl

theorem assign_signal_count (cfg : Cfg) (W : World) (st : St) (o : Nat) (a : Str) (v : PVal) :
    ((step cfg W st (.assign o a v)).2.filter isSignal).length ≤ 1 := by
  simp only [step]
  cases resolveAttr W a with
  | none => simp [isSignal]
  | some b =>
    have h2 := descSet_out cfg st o b v
    rcases hd : descSet cfg st o b v with ⟨st', outs, raised⟩
    rw [hd] at h2
    simp only at h2
    by_cases he : b.iprop.emits = .yes ∧ o ∈ st.attached
    · rw [if_pos he] at h2
      cases henc : encodeVariant ⟨none, v⟩ with
      | none =>
        rw [henc] at h2; simp only [Prod.mk.injEq] at h2
        obtain ⟨rfl, rfl⟩ := h2
        simp [hd, isSignal]
      | some x =>
        rw [henc] at h2; simp only [Prod.mk.injEq] at h2
        obtain ⟨rfl, rfl⟩ := h2
        simp [hd, List.filter, isSignal]
    · rw [if_neg he] at h2
      simp only [Prod.mk.injEq] at h2
      obtain ⟨rfl, rfl⟩ := h2
      simp [hd, isSignal]

/-! ### Set -/

theorem opSet_step {cfg : Cfg} {W : World} {st : St} {s : SSt} (hW : W.Good) (hA : AttrConsistent W)
    (hM : Modelled W) (hc : cfg.Sound) (hS : Sim cfg W st s) {o : Nat} (ho : o ∈ st.attached) {i : Str} (p : Str)
    (hi : i ≠ []) {v : PVal} (hw : wireOk v = true) :
    Sim cfg W (opSet cfg W st o i p v).1 (next (sdeclOf W) s (.set o i p v) (opSet cfg W st o i p v).2) ∧
    SetAllowed (sdeclOf W) o i p v (opSet cfg W st o i p v).2 ∧
    (IsErr (opSet cfg W st o i p v).2 → (opSet cfg W st o i p v).1 = st) := by
  unfold SetAllowed
  simp only [next, sdecl_find]
  have hd := getProperty_declared hW (p := p) hi
  have hatt : s.attached o = true := (hS.att o).mp ho
  cases hf : W.levels.flatten.find? fun b => b.iface = i ∧ b.pname = p with
  | none =>
    rw [hf] at hd
    simp only [Option.map_none, opSet, hd]
    exact ⟨hS, ⟨_, rfl⟩, fun _ => trivial⟩
  | some b0 =>
    rw [hf] at hd
    obtain ⟨b, hg, hb, hbi, hbp, hip⟩ := hd
    simp only [Option.map_some, toS, decide_eq_true_eq]
    by_cases hr : b0.iprop.access = .read
    · have : ¬ (b0.iprop.access ≠ .read ∧ HasTypeSig b0.iprop.sig v = true) := fun h => h.1 hr
      have this' : ¬ (s.attached o = true ∧ b0.iprop.access ≠ .read ∧ HasTypeSig b0.iprop.sig v = true) :=
        fun h => h.2.1 hr
      rw [if_neg this, if_neg this']
      simp only [opSet, hg, hip, hr, if_true]
      exact ⟨hS, ⟨_, rfl⟩, fun _ => trivial⟩
    · have hcf := conforms_eq_hasType b0.iprop.sig v (hM b0 (List.mem_of_find?_eq_some hf)) hw
      cases ht : HasTypeSig b0.iprop.sig v
      · have : ¬ (b0.iprop.access ≠ .read ∧ false = true) := fun h => by simp at h
        have this' : ¬ (s.attached o = true ∧ b0.iprop.access ≠ .read ∧ false = true) :=
          fun h => by simp at h
        rw [if_neg this, if_neg this']
        rw [ht] at hcf
        simp only [opSet, hg, hip, hr, if_false, hc.setChecks, hcf, and_self, if_true]
        exact ⟨hS, ⟨_, rfl⟩, fun _ => trivial⟩
      · have c1 : (b0.iprop.access ≠ .read ∧ true = true) := ⟨hr, rfl⟩
        have c2 : (s.attached o = true ∧ b0.iprop.access ≠ .read ∧ true = true) := ⟨hatt, hr, rfl⟩
        rw [if_pos c1, if_pos c2]
        rw [ht] at hcf
        obtain ⟨b', hres⟩ := resolveAttr_isSome ⟨b, hb, rfl⟩
        obtain ⟨hb', ha⟩ := resolveAttr_some hres
        obtain ⟨e1, e2⟩ := hA b' hb' b hb ha
        have hip' : b'.iprop = b0.iprop :=
          (same_iprop hW hb' hb e1 e2).trans hip
        have h1 := descSet_store cfg st o b' v
        have h2 := descSet_out cfg st o b' v
        rcases hd : descSet cfg st o b' v with ⟨st', outs, raised⟩
        rw [hd] at h1 h2
        simp only at h1 h2
        rw [e1, e2, hbi, hbp] at h1 h2
        obtain ⟨sgv, henc⟩ := encodeVariant_raw v hw
        rw [henc, hip'] at h2
        simp only at h2
        have hpl : v.plain = v := plain_of_wireOk hw
        have hsim : Sim cfg W st' (s.write o i p v) := h1 ▸ sim_write hc hS o i p v
        by_cases he : b0.iprop.emits = .yes
        · rw [if_pos ⟨he, ho⟩] at h2
          simp only [Prod.mk.injEq] at h2
          obtain ⟨rfl, rfl⟩ := h2
          have hop : opSet cfg W st o i p v = (st', [Out.signal o i p sgv v] ++ [.ret]) := by
            simp [opSet, hg, hip, hr, hc.setChecks, hcf, hres, hd]
          rw [hop]
          simp only [he, if_true, hpl]
          refine ⟨hsim, ⟨_, rfl⟩, ?_⟩
          rintro ⟨e, he'⟩
          simp at he'
        · have : ¬ (b0.iprop.emits = .yes ∧ o ∈ st.attached) := fun h => he h.1
          rw [if_neg this] at h2
          simp only [Prod.mk.injEq] at h2
          obtain ⟨rfl, rfl⟩ := h2
          have hop : opSet cfg W st o i p v = (st', [] ++ [.ret]) := by
            simp [opSet, hg, hip, hr, hc.setChecks, hcf, hres, hd]
          rw [hop]
          simp only [he, if_false]
          refine ⟨hsim, rfl, ?_⟩
          rintro ⟨e, he'⟩
          simp at he'

/-! ### every step, every history -/

theorem step_fst_get (cfg : Cfg) (W : World) (st : St) (o : Nat) (i p : Str) :
    (step cfg W st (.get o i p)).1 = st := by
  simp only [step]; split <;> rfl

theorem step_fst_getAll (cfg : Cfg) (W : World) (st : St) (o : Nat) (i : Str) :
    (step cfg W st (.getAll o i)).1 = st := by
  simp only [step]; split <;> rfl

theorem next_set_unattached (d : SDecl) (s : SSt) {o : Nat} (i p : Str) (v : PVal) (outs : List Out)
    (h : s.attached o = false) : next d s (.set o i p v) outs = s := by
  simp only [next]
  split
  · rw [if_neg]; simp [h]
  · rfl

theorem step_sim {cfg : Cfg} {W : World} {st : St} {s : SSt} (hW : W.Good) (hA : AttrConsistent W)
    (hM : Modelled W) (hc : cfg.Sound) (hS : Sim cfg W st s) (op : Op) (hop : GoodOp op) :
    Sim cfg W (step cfg W st op).1 (next (sdeclOf W) s op (step cfg W st op).2) := by
  cases op with
  | «export» o =>
    simp only [step, next]
    by_cases hx : exportOk cfg W st o = true
    case neg =>
      simp only [hx]
      have : ¬ ([Out.raised] = [Out.done]) := by simp
      simpa [this] using hS
    simp only [hx, if_true]
    refine ⟨?_, hS.val⟩
    intro o'
    simp only [Bool.or_eq_true, decide_eq_true_eq]
    by_cases h : o ∈ st.attached
    · rw [if_pos h]
      constructor
      · intro h'; exact Or.inr ((hS.att o').mp h')
      · rintro (rfl | h')
        · exact h
        · exact (hS.att o').mpr h'
    · rw [if_neg h]
      simp only [List.mem_cons]
      constructor
      · rintro (rfl | h')
        · exact Or.inl rfl
        · exact Or.inr ((hS.att o').mp h')
      · rintro (rfl | h')
        · exact Or.inl rfl
        · exact Or.inr ((hS.att o').mpr h')
  | assign o a v => exact (assign_step hc hS o a v).1
  | get o i p => rw [step_fst_get]; exact hS
  | getAll o i => rw [step_fst_getAll]; exact hS
  | set o i p v =>
    obtain ⟨hi, hw⟩ := hop
    by_cases ho : o ∈ st.attached
    · have : step cfg W st (.set o i p v) = opSet cfg W st o i p v := by simp [step, ho]
      rw [this]
      exact (opSet_step hW hA hM hc hS ho p hi hw).1
    · have : step cfg W st (.set o i p v) = (st, [.err .unknownObject]) := by simp [step, ho]
      rw [this, next_set_unattached]
      · exact hS
      · cases h : s.attached o
        · rfl
        · exact absurd ((hS.att o).mpr h) ho

theorem runFrom_sim {cfg : Cfg} {W : World} (hW : W.Good) (hA : AttrConsistent W) (hM : Modelled W)
    (hc : cfg.Sound)
    (h : List Op) : ∀ {st : St} {s : SSt}, Sim cfg W st s → GoodHist h →
      Sim cfg W (Props.runFrom cfg W st h) (PropsSpec.runFrom (sdeclOf W) s (annotate cfg W st h)) := by
  induction h with
  | nil => intro st s hS _; exact hS
  | cons op t ih =>
    intro st s hS hg
    simp only [Props.runFrom, PropsSpec.runFrom, annotate]
    exact ih (step_sim hW hA hM hc hS op (hg op List.mem_cons_self))
      (fun x hx => hg x (List.mem_cons_of_mem _ hx))

theorem sim_init (cfg : Cfg) (W : World) : Sim cfg W St.init SSt.init := by
  refine ⟨?_, ?_⟩
  · intro o; simp [St.init, SSt.init]
  · intro o b _; simp [St.init, SSt.init, dget]

theorem run_sim {cfg : Cfg} {W : World} (hW : W.Good) (hA : AttrConsistent W) (hM : Modelled W)
    (hc : cfg.Sound)
    {h : List Op} (hg : GoodHist h) :
    Sim cfg W (Props.run cfg W h) (specRun cfg W h) :=
  runFrom_sim hW hA hM hc h (sim_init cfg W) hg

end Txdbus.Obj.Props
