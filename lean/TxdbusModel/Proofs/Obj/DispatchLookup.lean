/-
C10 lemmas, part 1: the code model's lookups (loops, caches, `dict` association lists) compute
what the spec phrases with the `List` library; `handleCall` by cases of the spec's verdict.
-/
import TxdbusModel.Obj.Dispatch
import TxdbusModel.Obj.DispatchSpec

namespace Txdbus.Obj.DispatchProofs

open Txdbus.Obj.Dispatch Txdbus.Obj.DispatchSpec

/-! ### dict / loop helpers -/

theorem dictGet_eq_find {α : Type} (d : List (Str × α)) (k : Str) :
    dictGet d k = (d.find? fun e => e.1 = k).map (·.2) := by
  induction d with
  | nil => rfl
  | cons e t ih =>
    obtain ⟨k', v⟩ := e
    by_cases h : k' = k
    · simp [dictGet, List.find?, h]
    · simp [dictGet, List.find?, h, ih]

theorem firstSome_eq_findSome {α β : Type} (f : α → Option β) (l : List α) :
    firstSome f l = l.findSome? f := by
  induction l with
  | nil => rfl
  | cons a t ih =>
    simp only [firstSome, List.findSome?]
    cases f a <;> simp [ih]

theorem dictGet_dictSet {α : Type} (d : List (Str × α)) (k k' : Str) (v : α) :
    dictGet (dictSet d k v) k' = if k = k' then some v else dictGet d k' := by
  induction d with
  | nil => simp [dictSet, dictGet]
  | cons e t ih =>
    obtain ⟨k'', v''⟩ := e
    by_cases h : k'' = k
    · subst h
      by_cases h' : k'' = k' <;> simp [dictSet, dictGet, h']
    · by_cases h' : k = k'
      · subst h'
        simp [dictSet, dictGet, h, ih]
      · simp [dictSet, dictGet, h, h', ih]

/-! ### introspection, interface lookup -/

theorem dictGet_eq_exported (ex : Exports) (path : Str) : dictGet ex path = exported ex path :=
  dictGet_eq_find ex path

theorem introspectable_eq (ex : Exports) (path : Str) : introspectable ex path = nodeKnown ex path := by
  simp [introspectable, nodeKnown, below, dictGet_eq_exported]

theorem getInterfaces_eq (o : Obj) : getInterfaces o = declared o := rfl

theorem dictGet_methods (i : Iface) (member : Str) : dictGet i.methods member = memberOf i member :=
  dictGet_eq_find _ _

theorem findIface_eq {V : Type} (o : Obj) (c : Call V) :
    findIface c.iface c.member (getInterfaces o) = addressedIface o c := by
  rw [getInterfaces_eq]
  unfold addressedIface
  generalize declared o = l
  cases hi : c.iface with
  | none =>
    induction l with
    | nil => rfl
    | cons x t ih =>
      simp only [findIface, truthy, List.find?, dictGet_methods] at ih ⊢
      cases memberOf x c.member <;> simp [ih]
  | some s =>
    cases s with
    | nil =>
      induction l with
      | nil => rfl
      | cons x t ih =>
        simp only [findIface, truthy, List.find?, dictGet_methods] at ih ⊢
        cases memberOf x c.member <;> simp [ih]
    | cons ch tl =>
      induction l with
      | nil => rfl
      | cons x t ih =>
        simp only [findIface, truthy, List.find?] at ih ⊢
        by_cases h : x.name = ch :: tl <;> simp [h, ih]

/-! ### attribute lookup and the decorated-method cache -/

theorem getattrFunc_eq (o : Obj) (name : Str) : getattrFunc o name = attr o name := by
  simp [getattrFunc, attr, firstSome_eq_findSome, dictGet_eq_find]

/-- `cache[i].methods[m]` -/
def lookup2 (cache : Cache) (i m : Str) : Option Str :=
  match dictGet cache i with
  | some ms => dictGet ms m
  | none => none

theorem lookup2_cacheAdd (cache : Cache) (i m a i' m' : Str) :
    lookup2 (cacheAdd cache i m a) i' m' =
      if i = i' ∧ m = m' then some a else lookup2 cache i' m' := by
  unfold lookup2 cacheAdd
  cases h : dictGet cache i with
  | none =>
    by_cases hi : i = i'
    · subst hi
      by_cases hm : m = m' <;> simp [dictGet_dictSet, dictGet, h, hm]
    · simp [dictGet_dictSet, hi]
  | some ms =>
    by_cases hi : i = i'
    · subst hi
      by_cases hm : m = m' <;> simp [dictGet_dictSet, h, hm]
    · simp [dictGet_dictSet, hi]

theorem lookup2_nil (i m : Str) : lookup2 [] i m = none := rfl

/-! ### the class body: functions and properties -/

/-- the functions of a class body -/
def bodyFuncs (body : List BodyEntry) : List (Str × Func) :=
  body.filterMap fun e => match e with
    | .func a => some a
    | .prop _ => none

theorem bodyFuncs_props (l : List (Nat × Str)) : bodyFuncs (l.map fun p => BodyEntry.prop p.2) = [] := by
  induction l with
  | nil => rfl
  | cons p t ih => simp [bodyFuncs]

theorem bodyFuncs_mergeBody (attrs : List (Str × Func)) (props : List (Nat × Str)) (n : Nat) :
    bodyFuncs (mergeBody attrs props n) = attrs := by
  induction attrs generalizing n with
  | nil => exact bodyFuncs_props _
  | cons a t ih =>
    unfold mergeBody
    have h1 := bodyFuncs_props (props.filter fun p => p.1 = n)
    unfold bodyFuncs at h1 ih ⊢
    rw [List.filterMap_append, h1, List.filterMap_cons]
    simp only [List.nil_append]
    rw [ih (n + 1)]

theorem bodyFuncs_body (c : Class) : bodyFuncs c.body = c.attrs := bodyFuncs_mergeBody _ _ _

theorem lookup2_cacheTouch (cache : Cache) (i i' m' : Str) :
    lookup2 (cacheTouch cache i) i' m' = lookup2 cache i' m' := by
  unfold cacheTouch
  cases h : dictGet cache i with
  | some ms => rfl
  | none =>
    unfold lookup2
    by_cases hi : i = i'
    · subst hi; simp [dictGet_dictSet, h, dictGet]
    · simp [dictGet_dictSet, hi]

theorem lookup2_body_foldl (body : List BodyEntry) (cache : Cache) (i m : Str) :
    lookup2 (body.foldl bodyStep cache) i m =
    match (bodyFuncs body).reverse.find? (fun a => a.2.deco = some (i, m)) with
    | some a => some a.1
    | none => lookup2 cache i m := by
  induction body generalizing cache with
  | nil => simp [bodyFuncs]
  | cons e t ih =>
    cases e with
    | prop j =>
      have hb : bodyFuncs (BodyEntry.prop j :: t) = bodyFuncs t := by simp [bodyFuncs]
      rw [List.foldl_cons, ih, hb]
      simp only [bodyStep, lookup2_cacheTouch]
    | func a =>
      have hb : bodyFuncs (BodyEntry.func a :: t) = a :: bodyFuncs t := by simp [bodyFuncs]
      rw [List.foldl_cons, ih, hb, List.reverse_cons, List.find?_append]
      cases ht : (bodyFuncs t).reverse.find? (fun a => a.2.deco = some (i, m)) with
      | some x => simp
      | none =>
        simp only [Option.none_or, List.find?, bodyStep]
        obtain ⟨an, ⟨aid, adeco, aw⟩⟩ := a
        cases adeco with
        | none => simp [cacheStep]
        | some im =>
          obtain ⟨i', m'⟩ := im
          simp only [cacheStep]
          by_cases h : i' = i ∧ m' = m
          · obtain ⟨h1, h2⟩ := h
            subst h1; subst h2
            simp [lookup2_cacheAdd]
          · have : ¬ (some (i', m') = some (i, m)) := by
              intro hh; injection hh with hh; injection hh with h1 h2; exact h ⟨h1, h2⟩
            simp [lookup2_cacheAdd, h, this]

theorem lookup2_cacheOfClass (c : Class) (i m : Str) :
    lookup2 (cacheOfClass c) i m =
      (c.attrs.reverse.find? fun a => a.2.deco = some (i, m)).map (·.1) := by
  unfold cacheOfClass
  rw [lookup2_body_foldl, bodyFuncs_body]
  cases c.attrs.reverse.find? (fun a => a.2.deco = some (i, m)) <;> simp [lookup2_nil]

/-! ### the branch of `_searchCache` for an empty interface name -/

def keysOf {α : Type} (d : List (Str × α)) : List Str := d.map (·.1)

theorem dictGet_isSome_iff {α : Type} (d : List (Str × α)) (k : Str) : (dictGet d k).isSome = true ↔ k ∈ keysOf d := by
  induction d with
  | nil => simp [dictGet, keysOf]
  | cons e t ih =>
    obtain ⟨k', v⟩ := e
    by_cases h : k' = k
    · simp [dictGet, keysOf, h]
    · have : ¬ (k = k') := fun hh => h hh.symm
      simp only [dictGet, h, if_false, ih, keysOf, List.map_cons, List.mem_cons, this, false_or]

theorem keysOf_dictSet {α : Type} (d : List (Str × α)) (k : Str) (v : α) :
    keysOf (dictSet d k v) = if k ∈ keysOf d then keysOf d else keysOf d ++ [k] := by
  induction d with
  | nil => simp [dictSet, keysOf]
  | cons e t ih =>
    obtain ⟨k', v'⟩ := e
    by_cases h : k' = k
    · subst h; simp [dictSet, keysOf]
    · have hk : ¬ (k = k') := fun hh => h hh.symm
      simp only [dictSet, h, if_false, keysOf, List.map_cons, List.mem_cons, hk, false_or] at ih ⊢
      rw [ih]
      by_cases hm : k ∈ List.map (fun x => x.fst) t <;> simp [hm]

theorem keysOf_cacheAdd (cache : Cache) (i m a : Str) :
    keysOf (cacheAdd cache i m a) = if i ∈ keysOf cache then keysOf cache else keysOf cache ++ [i] := by
  unfold cacheAdd
  cases h : dictGet cache i <;> simp [keysOf_dictSet]

theorem findSome?_congr_mem {α β : Type} (l : List α) (f g : α → Option β) (h : ∀ a ∈ l, f a = g a) :
    l.findSome? f = l.findSome? g := by
  induction l with
  | nil => rfl
  | cons a t ih =>
    simp only [List.findSome?_cons, h a List.mem_cons_self]
    rw [ih (fun x hx => h x (List.mem_cons_of_mem _ hx))]

/-- scanning the entries of a dict with distinct keys = scanning its keys and looking each up -/
theorem firstSome_entries {α β : Type} (d : List (Str × α)) (f : α → Option β) (hn : (keysOf d).Nodup) :
    firstSome (fun e => f e.2) d = (keysOf d).findSome? fun k => (dictGet d k).bind f := by
  induction d with
  | nil => rfl
  | cons e t ih =>
    obtain ⟨k, v⟩ := e
    have hn' : (keysOf t).Nodup := (List.nodup_cons.mp hn).2
    have hk : k ∉ keysOf t := (List.nodup_cons.mp hn).1
    simp only [firstSome, keysOf, List.map_cons, List.findSome?_cons, dictGet, if_true, Option.bind_some]
    cases hf : f v with
    | some b => rfl
    | none =>
      simp only
      rw [ih hn']
      apply findSome?_congr_mem
      intro k' hk'
      have : k ≠ k' := fun hh => hk (hh ▸ hk')
      simp [this]

theorem nodup_keysOf_cacheAdd (cache : Cache) (i m a : Str) (h : (keysOf cache).Nodup) :
    (keysOf (cacheAdd cache i m a)).Nodup := by
  rw [keysOf_cacheAdd]
  split
  · exact h
  · rename_i hni
    rw [List.nodup_append]
    refine ⟨h, by simp, ?_⟩
    intro x hx y hy
    simp at hy
    subst hy
    intro hxy; subst hxy; exact hni hx

theorem keysOf_cacheTouch (cache : Cache) (i : Str) :
    keysOf (cacheTouch cache i) = if i ∈ keysOf cache then keysOf cache else keysOf cache ++ [i] := by
  unfold cacheTouch
  cases h : dictGet cache i with
  | some ms =>
    have : i ∈ keysOf cache := (dictGet_isSome_iff cache i).mp (by simp [h])
    simp [this]
  | none =>
    simp only [keysOf_dictSet]

/-- the invariant of the cache-building fold, relative to the class-body entries processed so far -/
structure CacheInv (cache : Cache) (pre : List BodyEntry) : Prop where
  nodup : (keysOf cache).Nodup
  scan : ∀ {β : Type} (g : Str → Option β), (keysOf cache).findSome? g = (bodyIfaces pre).findSome? g

theorem nodup_addKey (ks : List Str) (i : Str) (h : ks.Nodup) :
    (if i ∈ ks then ks else ks ++ [i]).Nodup := by
  split
  · exact h
  · rename_i hni
    rw [List.nodup_append]
    refine ⟨h, by simp, ?_⟩
    intro x hx y hy
    simp at hy
    subst hy
    intro hxy; subst hxy; exact hni hx

/-- one more key `i` (appended when new), one more mention of `i` in the class body -/
theorem cacheInv_addKey (cache cache' : Cache) (pre : List BodyEntry) (e : BodyEntry) (i : Str)
    (h : CacheInv cache pre)
    (hk : keysOf cache' = if i ∈ keysOf cache then keysOf cache else keysOf cache ++ [i])
    (he : bodyIfaces (pre ++ [e]) = bodyIfaces pre ++ [i]) : CacheInv cache' (pre ++ [e]) := by
  refine ⟨by rw [hk]; exact nodup_addKey _ _ h.nodup, ?_⟩
  intro β g
  rw [he, hk, List.findSome?_append]
  by_cases hi : i ∈ keysOf cache
  · rw [if_pos hi, h.scan g]
    cases hs : (bodyIfaces pre).findSome? g with
    | some b => rfl
    | none =>
      have := h.scan g
      rw [hs, List.findSome?_eq_none_iff] at this
      simp [this i hi]
  · rw [if_neg hi, List.findSome?_append, h.scan g]

theorem cacheInv_step (cache : Cache) (pre : List BodyEntry) (e : BodyEntry) (h : CacheInv cache pre) :
    CacheInv (bodyStep cache e) (pre ++ [e]) := by
  cases e with
  | prop i =>
    exact cacheInv_addKey cache _ pre _ i h (keysOf_cacheTouch cache i) (by simp [bodyIfaces])
  | func a =>
    simp only [bodyStep, cacheStep]
    cases hd : a.2.deco with
    | none =>
      refine ⟨h.nodup, ?_⟩
      intro β g
      have : bodyIfaces (pre ++ [BodyEntry.func a]) = bodyIfaces pre := by simp [bodyIfaces, hd]
      rw [this]; exact h.scan g
    | some im =>
      obtain ⟨i, m⟩ := im
      exact cacheInv_addKey cache _ pre _ i h (keysOf_cacheAdd cache i m a.1) (by simp [bodyIfaces, hd])

theorem cacheInv_foldl (t : List BodyEntry) (cache : Cache) (pre : List BodyEntry) (h : CacheInv cache pre) :
    CacheInv (t.foldl bodyStep cache) (pre ++ t) := by
  induction t generalizing cache pre with
  | nil => simpa using h
  | cons a t ih =>
    have := ih (bodyStep cache a) (pre ++ [a]) (cacheInv_step cache pre a h)
    simpa using this

theorem cacheInv_nil : CacheInv [] [] := ⟨by simp [keysOf], by intro β g; rfl⟩

/-- `_searchCache('', 'methods', key)` on one class. -/
theorem searchAny_cacheOfClass (c : Class) (key : Str) :
    firstSome (fun ic => dictGet ic.2 key) (cacheOfClass c) = decoratedAnyIn c key := by
  have inv := cacheInv_foldl c.body [] [] cacheInv_nil
  simp only [List.nil_append] at inv
  unfold decoratedAnyIn
  have hc : cacheOfClass c = List.foldl bodyStep [] c.body := rfl
  rw [hc, firstSome_entries _ (fun ms => dictGet ms key) inv.nodup]
  have : (fun k => (dictGet (List.foldl bodyStep [] c.body) k).bind fun ms => dictGet ms key) =
      fun k => lastDecorated c.attrs k key := by
    funext k
    have := lookup2_cacheOfClass c k key
    unfold lookup2 at this
    rw [hc] at this
    unfold lastDecorated
    rw [← this]
    cases dictGet (List.foldl bodyStep [] c.body) k <;> rfl
  rw [this]
  exact inv.scan _

theorem searchCache_eq (o : Obj) (iname key : Str) :
    searchCache o iname key = o.classes.findSome? fun c => decoratedName c iname key := by
  unfold searchCache
  rw [firstSome_eq_findSome]
  congr 1
  funext c
  unfold decoratedName
  by_cases h : iname ≠ []
  · rw [if_pos h, if_pos h]
    exact lookup2_cacheOfClass c iname key
  · rw [if_neg h, if_neg h]
    exact searchAny_cacheOfClass c key

theorem getDecorated_eq (o : Obj) (iname member : Str) :
    getDecorated o iname member = decorated o iname member := by
  unfold getDecorated decorated
  rw [searchCache_eq o iname member]
  cases o.classes.findSome? _ <;> simp [getattrFunc_eq]

/-- `executeMethod`'s resolution is the spec's binding - for every interface name, the empty one
included (`decoratedName`). -/
theorem resolveImpl_eq (o : Obj) (iname member : Str) :
    resolveImpl o iname member = bound o iname member := by
  unfold resolveImpl bound
  simp only [getattrFunc_eq, getDecorated_eq o iname member]
  cases hm : attr o (attrPrefix ++ member) with
  | some f =>
    obtain ⟨fid, fdeco, fw⟩ := f
    simp only [foreignDeco]
    cases fdeco with
    | none => simp
    | some im =>
      obtain ⟨i, m⟩ := im
      by_cases hi : i = iname <;> simp [hi]
  | none =>
    simp only
    cases hdec : decorated o iname member with
    | none => rfl
    | some f =>
      obtain ⟨fid, fdeco, fw⟩ := f
      simp only
      cases fdeco with
      | none => rfl
      | some im =>
        obtain ⟨i, m⟩ := im
        by_cases hi : i = iname <;> simp [hi]

end Txdbus.Obj.DispatchProofs
