/-
C10 lemmas, part 1: the code model's lookups (loops, caches, `dict` association lists) compute
what the spec phrases with the `List` library; `handleCall` by cases of the spec's verdict.
-/
import TxdbusModel.Obj.Dispatch
import TxdbusModel.Obj.DispatchSpec

namespace Txdbus.Obj.DispatchProofs

open Txdbus.Obj.Dispatch Txdbus.Obj.DispatchSpec

/-! ### dict / loop helpers -/

theorem dictGet_eq_find {α : Type} (d : List (Str × α)) (k : Str) :
    dictGet d k = (d.find? fun e => e.1 = k).map (·.2) := by
  induction d with
  | nil => rfl
  | cons e t ih =>
    obtain ⟨k', v⟩ := e
    by_cases h : k' = k
    · simp [dictGet, List.find?, h]
    · simp [dictGet, List.find?, h, ih]

theorem firstSome_eq_findSome {α β : Type} (f : α → Option β) (l : List α) :
    firstSome f l = l.findSome? f := by
  induction l with
  | nil => rfl
  | cons a t ih =>
    simp only [firstSome, List.findSome?]
    cases f a <;> simp [ih]

theorem dictGet_dictSet {α : Type} (d : List (Str × α)) (k k' : Str) (v : α) :
    dictGet (dictSet d k v) k' = if k = k' then some v else dictGet d k' := by
  induction d with
  | nil => simp [dictSet, dictGet]
  | cons e t ih =>
    obtain ⟨k'', v''⟩ := e
    by_cases h : k'' = k
    · subst h
      by_cases h' : k'' = k' <;> simp [dictSet, dictGet, h']
    · by_cases h' : k = k'
      · subst h'
        simp [dictSet, dictGet, h, ih]
      · simp [dictSet, dictGet, h, h', ih]

/-! ### introspection, interface lookup -/

theorem dictGet_eq_exported (ex : Exports) (path : Str) : dictGet ex path = exported ex path :=
  dictGet_eq_find ex path

theorem introspectable_eq (ex : Exports) (path : Str) : introspectable ex path = nodeKnown ex path := by
  simp [introspectable, nodeKnown, below, dictGet_eq_exported]

theorem getInterfaces_eq (o : Obj) : getInterfaces o = declared o := rfl

theorem dictGet_methods (i : Iface) (member : Str) : dictGet i.methods member = memberOf i member :=
  dictGet_eq_find _ _

theorem findIface_eq {V : Type} (o : Obj) (c : Call V) :
    findIface c.iface c.member (getInterfaces o) = addressedIface o c := by
  rw [getInterfaces_eq]
  unfold addressedIface
  generalize declared o = l
  cases hi : c.iface with
  | none =>
    induction l with
    | nil => rfl
    | cons x t ih =>
      simp only [findIface, truthy, List.find?, dictGet_methods] at ih ⊢
      cases memberOf x c.member <;> simp [ih]
  | some s =>
    cases s with
    | nil =>
      induction l with
      | nil => rfl
      | cons x t ih =>
        simp only [findIface, truthy, List.find?, dictGet_methods] at ih ⊢
        cases memberOf x c.member <;> simp [ih]
    | cons ch tl =>
      induction l with
      | nil => rfl
      | cons x t ih =>
        simp only [findIface, truthy, List.find?] at ih ⊢
        by_cases h : x.name = ch :: tl <;> simp [h, ih]

/-! ### attribute lookup and the decorated-method cache -/

theorem getattrFunc_eq (o : Obj) (name : Str) : getattrFunc o name = attr o name := by
  simp [getattrFunc, attr, firstSome_eq_findSome, dictGet_eq_find]

/-- `cache[i].methods[m]` -/
def lookup2 (cache : Cache) (i m : Str) : Option Str :=
  match dictGet cache i with
  | some ms => dictGet ms m
  | none => none

theorem lookup2_cacheAdd (cache : Cache) (i m a i' m' : Str) :
    lookup2 (cacheAdd cache i m a) i' m' =
      if i = i' ∧ m = m' then some a else lookup2 cache i' m' := by
  unfold lookup2 cacheAdd
  cases h : dictGet cache i with
  | none =>
    by_cases hi : i = i'
    · subst hi
      by_cases hm : m = m' <;> simp [dictGet_dictSet, dictGet, h, hm]
    · simp [dictGet_dictSet, hi]
  | some ms =>
    by_cases hi : i = i'
    · subst hi
      by_cases hm : m = m' <;> simp [dictGet_dictSet, h, hm]
    · simp [dictGet_dictSet, hi]

theorem lookup2_foldl (attrs : List (Str × Func)) (cache : Cache) (i m : Str) :
    lookup2 (attrs.foldl cacheStep cache) i m =
    match attrs.reverse.find? (fun a => a.2.deco = some (i, m)) with
    | some a => some a.1
    | none => lookup2 cache i m := by
  induction attrs generalizing cache with
  | nil => simp
  | cons a t ih =>
    rw [List.foldl_cons, ih, List.reverse_cons, List.find?_append]
    cases ht : t.reverse.find? (fun a => a.2.deco = some (i, m)) with
    | some x => simp
    | none =>
      simp only [Option.none_or, List.find?]
      obtain ⟨an, ⟨aid, adeco, aw⟩⟩ := a
      cases adeco with
      | none => simp [cacheStep]
      | some im =>
        obtain ⟨i', m'⟩ := im
        simp only [cacheStep]
        by_cases h : i' = i ∧ m' = m
        · obtain ⟨h1, h2⟩ := h
          subst h1; subst h2
          simp [lookup2_cacheAdd]
        · have : ¬ (some (i', m') = some (i, m)) := by
            intro hh; injection hh with hh; injection hh with h1 h2; exact h ⟨h1, h2⟩
          simp [lookup2_cacheAdd, h, this]

theorem lookup2_nil (i m : Str) : lookup2 [] i m = none := rfl

theorem lookup2_cacheOfClass (c : Class) (i m : Str) :
    lookup2 (cacheOfClass c) i m =
      (c.attrs.reverse.find? fun a => a.2.deco = some (i, m)).map (·.1) := by
  unfold cacheOfClass
  rw [lookup2_foldl]
  cases c.attrs.reverse.find? (fun a => a.2.deco = some (i, m)) <;> simp [lookup2_nil]

theorem searchCache_eq (o : Obj) (iname key : Str) (h : iname ≠ []) :
    searchCache o iname key =
      o.classes.findSome? fun c =>
        (c.attrs.reverse.find? fun a => a.2.deco = some (iname, key)).map (·.1) := by
  unfold searchCache
  rw [firstSome_eq_findSome]
  congr 1
  funext c
  simp only [h, ne_eq, not_false_eq_true, if_true]
  exact lookup2_cacheOfClass c iname key

theorem getDecorated_eq (o : Obj) (iname member : Str) (h : iname ≠ []) :
    getDecorated o iname member = decorated o iname member := by
  unfold getDecorated decorated
  rw [searchCache_eq o iname member h]
  cases o.classes.findSome? _ <;> simp [getattrFunc_eq]

theorem resolveImpl_eq (o : Obj) (iname member : Str) (h : iname ≠ []) :
    resolveImpl o iname member = bound o iname member := by
  unfold resolveImpl bound
  simp only [getattrFunc_eq, getDecorated_eq o iname member h]
  cases hm : attr o (attrPrefix ++ member) with
  | some f =>
    obtain ⟨fid, fdeco, fw⟩ := f
    simp only [foreignDeco]
    cases fdeco with
    | none => simp
    | some im =>
      obtain ⟨i, m⟩ := im
      by_cases hi : i = iname <;> simp [hi]
  | none =>
    simp only
    cases hdec : decorated o iname member with
    | none => rfl
    | some f =>
      obtain ⟨fid, fdeco, fw⟩ := f
      simp only
      cases fdeco with
      | none => rfl
      | some im =>
        obtain ⟨i, m⟩ := im
        by_cases hi : i = iname <;> simp [hi]

end Txdbus.Obj.DispatchProofs
