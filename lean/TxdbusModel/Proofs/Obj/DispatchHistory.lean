/-
C10 lemmas, part 3: histories.  The events of call number `k` in the trace of a whole history
are what `handleCall` produced for it followed by what the first later `resolve k` fired.
-/
import TxdbusModel.Proofs.Obj.DispatchCall

namespace Txdbus.Obj.DispatchProofs

open Txdbus.Obj.Dispatch Txdbus.Obj.DispatchSpec

variable {V : Type}

/-! ### small facts -/

theorem afterExecute_pending (env : Env V) (p q : Pending) (c : Call V) (f : Func) (oc : Outcome V)
    (h : (afterExecute env p c f oc).2 = some q) : q = p := by
  unfold afterExecute at h
  cases he : c.expectReply with
  | false => simp [he] at h
  | true =>
    cases oc with
    | value r => simp [he] at h
    | raise e => simp [he] at h
    | deferred => simp [he] at h; exact h.symm

theorem dispatchMethod_pending_id (env : Env V) (o : Obj) (k : Nat) (c : Call V) (b : Nat → Outcome V)
    (i : Iface) (m : Method) (p : Pending) (h : (dispatchMethod env o k c b i m).2 = some p) : p.id = k := by
  unfold dispatchMethod at h
  split at h
  · simp at h
  · split at h
    · simp at h
    · have := afterExecute_pending env _ p c _ _ h
      subst this
      rfl

theorem handleCall_pending_id (env : Env V) (ex : Exports) (k : Nat) (c : Call V) (b : Nat → Outcome V)
    (p : Pending) (h : (handleCall env ex k c b).2 = some p) : p.id = k := by
  unfold handleCall at h
  split at h
  · simp at h
  · split at h
    · simp at h
    · split at h
      · simp at h
      · split at h
        · split at h <;> simp at h
        · split at h
          · simp at h
          · exact dispatchMethod_pending_id env _ k c b _ _ p h

theorem firstResolve_append (k : Nat) (l l' : List (Op V)) :
    firstResolve k (l ++ l') =
      match firstResolve k l with
      | some r => some r
      | none => firstResolve k l' := by
  induction l with
  | nil => simp [firstResolve]
  | cons op t ih =>
    cases op with
    | call c b => simpa [firstResolve] using ih
    | resolve j r =>
      by_cases h : j = k
      · simp [firstResolve, h]
      · simpa [firstResolve, h] using ih

theorem eventsOf_append (k : Nat) (a b : List (Nat × Event V)) :
    eventsOf k (a ++ b) = eventsOf k a ++ eventsOf k b := by
  simp [eventsOf]

theorem eventsOf_tag (k j : Nat) (evs : List (Event V)) :
    eventsOf k (evs.map fun e => (j, e)) = if j = k then evs else [] := by
  unfold eventsOf
  by_cases h : j = k
  · subst h
    simp [List.filter_map, Function.comp_def]
  · simp [List.filter_map, Function.comp_def, h]

theorem eventsOf_nil (k : Nat) : eventsOf k ([] : List (Nat × Event V)) = [] := rfl

/-! ### runs -/

theorem runFrom_append (env : Env V) (ex : Exports) (s : State) (a b : List (Op V)) :
    runFrom env ex s (a ++ b) =
      ((runFrom env ex (runFrom env ex s a).1 b).1,
       (runFrom env ex s a).2 ++ (runFrom env ex (runFrom env ex s a).1 b).2) := by
  induction a generalizing s with
  | nil => simp [runFrom]
  | cons op t ih =>
    simp only [List.cons_append, runFrom, ih, List.append_assoc]

theorem run_snoc (env : Env V) (ex : Exports) (ops : List (Op V)) (op : Op V) :
    run env ex (ops ++ [op]) =
      ((step env ex (run env ex ops).1 op).1, (run env ex ops).2 ++ (step env ex (run env ex ops).1 op).2) := by
  unfold run
  rw [runFrom_append]
  simp [runFrom]

/-! ### what call `k` produced in a history -/

/-- What `handleMethodCallMessage` did for call `k`, followed by what the first later firing of
its Deferred did. -/
def callEvents (env : Env V) (ex : Exports) (ops : List (Op V)) (k : Nat) : List (Event V) :=
  match ops[k]? with
  | some (.call c b) =>
    (handleCall env ex k c b).1 ++
      (match (handleCall env ex k c b).2 with
       | some p =>
         match firstResolve k (ops.drop (k + 1)) with
         | some res => fire env p res
         | none => []
       | none => [])
  | _ => []

/-- The reply callbacks of call `p.id` are still waiting at the end of the history. -/
def IsPending (env : Env V) (ex : Exports) (ops : List (Op V)) (p : Pending) : Prop :=
  ∃ c b, ops[p.id]? = some (.call c b) ∧ (handleCall env ex p.id c b).2 = some p ∧
    firstResolve p.id (ops.drop (p.id + 1)) = none

theorem IsPending.lt {env : Env V} {ex : Exports} {ops : List (Op V)} {p : Pending}
    (h : IsPending env ex ops p) : p.id < ops.length := by
  obtain ⟨c, b, h1, _, _⟩ := h
  by_cases hl : p.id < ops.length
  · exact hl
  · rw [List.getElem?_eq_none (by omega)] at h1
    simp at h1

theorem callEvents_ge (env : Env V) (ex : Exports) (ops : List (Op V)) (k : Nat) (h : ops.length ≤ k) :
    callEvents env ex ops k = [] := by
  unfold callEvents
  rw [List.getElem?_eq_none h]

theorem getElem?_snoc_lt (ops : List (Op V)) (op : Op V) (k : Nat) (h : k < ops.length) :
    (ops ++ [op])[k]? = ops[k]? := List.getElem?_append_left h

theorem drop_snoc_lt (ops : List (Op V)) (op : Op V) (k : Nat) (h : k < ops.length) :
    (ops ++ [op]).drop (k + 1) = ops.drop (k + 1) ++ [op] :=
  List.drop_append_of_le_length (by omega)

theorem callEvents_snoc_call (env : Env V) (ex : Exports) (ops : List (Op V)) (c : Call V)
    (b : Nat → Outcome V) (k : Nat) :
    callEvents env ex (ops ++ [.call c b]) k =
      if k = ops.length then (handleCall env ex k c b).1 else callEvents env ex ops k := by
  by_cases hlt : k < ops.length
  · have hne : k ≠ ops.length := by omega
    simp only [hne, if_false]
    unfold callEvents
    rw [getElem?_snoc_lt _ _ _ hlt, drop_snoc_lt _ _ _ hlt, firstResolve_append]
    simp only [firstResolve]
    cases ops[k]? with
    | none => rfl
    | some op =>
      cases op with
      | resolve j r => rfl
      | call c' b' =>
        simp only
        cases (handleCall env ex k c' b').2 with
        | none => rfl
        | some p =>
          simp only
          cases firstResolve k (List.drop (k + 1) ops) <;> rfl
  · by_cases heq : k = ops.length
    · subst heq
      simp only [if_true]
      unfold callEvents
      have h1 : (ops ++ [Op.call c b])[ops.length]? = some (Op.call c b) := by simp
      have h2 : (ops ++ [Op.call c b]).drop (ops.length + 1) = [] := by simp
      rw [h1, h2]
      simp only [firstResolve]
      cases (handleCall env ex ops.length c b).2 <;> simp
    · simp only [heq, if_false]
      rw [callEvents_ge _ _ _ _ (by simp; omega), callEvents_ge _ _ _ _ (by omega)]

theorem callEvents_snoc_resolve (env : Env V) (ex : Exports) (ops : List (Op V)) (j : Nat)
    (res : Resolution V) (k : Nat) :
    callEvents env ex (ops ++ [.resolve j res]) k =
      match ops[k]? with
      | some (.call c b) =>
        (handleCall env ex k c b).1 ++
          (match (handleCall env ex k c b).2 with
           | some p =>
             match firstResolve k (ops.drop (k + 1)) with
             | some x => fire env p x
             | none => if j = k then fire env p res else []
           | none => [])
      | _ => [] := by
  by_cases hlt : k < ops.length
  · unfold callEvents
    rw [getElem?_snoc_lt _ _ _ hlt, drop_snoc_lt _ _ _ hlt, firstResolve_append]
    simp only [firstResolve]
    cases ops[k]? with
    | none => rfl
    | some op =>
      cases op with
      | resolve j r => rfl
      | call c' b' =>
        simp only
        cases (handleCall env ex k c' b').2 with
        | none => rfl
        | some p =>
          simp only
          cases firstResolve k (List.drop (k + 1) ops) with
          | some x => rfl
          | none =>
            by_cases hj : j = k <;> simp [hj]
  · rw [List.getElem?_eq_none (by omega)]
    by_cases heq : k = ops.length
    · subst heq
      unfold callEvents
      have h1 : (ops ++ [Op.resolve j res])[ops.length]? = some (Op.resolve j res) := by simp
      rw [h1]
    · rw [callEvents_ge _ _ _ _ (by simp; omega)]

theorem isPending_snoc_call (env : Env V) (ex : Exports) (ops : List (Op V)) (c : Call V)
    (b : Nat → Outcome V) (p : Pending) :
    IsPending env ex (ops ++ [.call c b]) p ↔
      IsPending env ex ops p ∨ (p.id = ops.length ∧ (handleCall env ex ops.length c b).2 = some p) := by
  constructor
  · rintro ⟨c', b', h1, h2, h3⟩
    by_cases hlt : p.id < ops.length
    · left
      rw [getElem?_snoc_lt _ _ _ hlt] at h1
      rw [drop_snoc_lt _ _ _ hlt, firstResolve_append] at h3
      refine ⟨c', b', h1, h2, ?_⟩
      cases hf : firstResolve p.id (List.drop (p.id + 1) ops) with
      | none => rfl
      | some x => simp [hf] at h3
    · by_cases heq : p.id = ops.length
      · right
        rw [heq] at h1 h2
        have : (ops ++ [Op.call c b])[ops.length]? = some (Op.call c b) := by simp
        rw [this] at h1
        injection h1 with h1
        injection h1 with hc hb
        subst hc; subst hb
        exact ⟨heq, h2⟩
      · rw [List.getElem?_eq_none (by simp; omega)] at h1
        simp at h1
  · rintro (h | ⟨heq, h2⟩)
    · have hlt := h.lt
      obtain ⟨c', b', h1, h2, h3⟩ := h
      refine ⟨c', b', ?_, h2, ?_⟩
      · rw [getElem?_snoc_lt _ _ _ hlt]; exact h1
      · rw [drop_snoc_lt _ _ _ hlt, firstResolve_append, h3]
        simp [firstResolve]
    · refine ⟨c, b, ?_, ?_, ?_⟩
      · rw [heq]; simp
      · rw [heq]; exact h2
      · rw [heq]; simp [firstResolve]

theorem isPending_snoc_resolve (env : Env V) (ex : Exports) (ops : List (Op V)) (j : Nat)
    (res : Resolution V) (p : Pending) :
    IsPending env ex (ops ++ [.resolve j res]) p ↔ IsPending env ex ops p ∧ p.id ≠ j := by
  constructor
  · rintro ⟨c', b', h1, h2, h3⟩
    by_cases hlt : p.id < ops.length
    · rw [getElem?_snoc_lt _ _ _ hlt] at h1
      rw [drop_snoc_lt _ _ _ hlt, firstResolve_append] at h3
      cases hf : firstResolve p.id (List.drop (p.id + 1) ops) with
      | some x => simp [hf] at h3
      | none =>
        rw [hf] at h3
        simp only [firstResolve] at h3
        by_cases hj : j = p.id
        · simp [hj] at h3
        · exact ⟨⟨c', b', h1, h2, hf⟩, fun h => hj h.symm⟩
    · by_cases heq : p.id = ops.length
      · rw [heq] at h1
        have : (ops ++ [Op.resolve j res])[ops.length]? = some (Op.resolve j res) := by simp
        rw [this] at h1
        injection h1 with h1
        cases h1
      · rw [List.getElem?_eq_none (by simp; omega)] at h1
        simp at h1
  · rintro ⟨h, hne⟩
    have hlt := h.lt
    obtain ⟨c', b', h1, h2, h3⟩ := h
    refine ⟨c', b', ?_, h2, ?_⟩
    · rw [getElem?_snoc_lt _ _ _ hlt]; exact h1
    · rw [drop_snoc_lt _ _ _ hlt, firstResolve_append, h3]
      have : ¬ (j = p.id) := fun h => hne h.symm
      simp [firstResolve, this]

/-! ### the invariant of `run` -/

/-- After a history: the operation counter, who is pending, and the events of every call. -/
def RunInv (env : Env V) (ex : Exports) (ops : List (Op V)) : Prop :=
  (run env ex ops).1.next = ops.length ∧
  (∀ p, p ∈ (run env ex ops).1.pending ↔ IsPending env ex ops p) ∧
  (∀ k, eventsOf k (run env ex ops).2 = callEvents env ex ops k)

theorem runInv_nil (env : Env V) (ex : Exports) : RunInv env ex ([] : List (Op V)) := by
  refine ⟨rfl, ?_, ?_⟩
  · intro p
    constructor
    · intro h; simp [run, runFrom, State.init] at h
    · intro h; have := h.lt; simp at this
  · intro k; rfl

theorem runInv_snoc (env : Env V) (ex : Exports) (ops : List (Op V)) (op : Op V)
    (ih : RunInv env ex ops) : RunInv env ex (ops ++ [op]) := by
  obtain ⟨hn, hp, he⟩ := ih
  unfold RunInv
  rw [run_snoc]
  cases op with
  | call c b =>
    simp only [step, hn]
    refine ⟨by simp, ?_, ?_⟩
    · intro p
      rw [isPending_snoc_call]
      cases hr : (handleCall env ex ops.length c b).2 with
      | none =>
        simp only [hp]
        constructor
        · intro h; exact Or.inl h
        · rintro (h | ⟨_, h⟩)
          · exact h
          · simp at h
      | some q =>
        simp only [List.mem_cons, hp]
        constructor
        · rintro (h | h)
          · subst h
            exact Or.inr ⟨handleCall_pending_id env ex _ c b p hr, rfl⟩
          · exact Or.inl h
        · rintro (h | ⟨_, h⟩)
          · exact Or.inr h
          · injection h with h; exact Or.inl h.symm
    · intro k
      rw [eventsOf_append, eventsOf_tag, he, callEvents_snoc_call]
      by_cases hk : k = ops.length
      · subst hk
        simp [callEvents_ge]
      · have : ¬ (ops.length = k) := fun h => hk h.symm
        simp [hk, this]
  | resolve j res =>
    simp only [step, hn]
    cases hf : (run env ex ops).1.pending.find? (fun p => decide (p.id = j)) with
    | none =>
      simp only
      have hnone : ∀ p, p ∈ (run env ex ops).1.pending → p.id ≠ j := by
        intro p hm
        have := List.find?_eq_none.mp hf p hm
        simpa using this
      refine ⟨by simp, ?_, ?_⟩
      · intro p
        rw [isPending_snoc_resolve, ← hp]
        constructor
        · intro h; exact ⟨h, hnone p h⟩
        · intro h; exact h.1
      · intro k
        rw [List.append_nil, he, callEvents_snoc_resolve]
        unfold callEvents
        cases hk : ops[k]? with
        | none => rfl
        | some op =>
          cases op with
          | resolve j' r' => rfl
          | call c' b' =>
            simp only
            cases hr : (handleCall env ex k c' b').2 with
            | none => rfl
            | some p =>
              simp only
              cases hfr : firstResolve k (List.drop (k + 1) ops) with
              | some x => rfl
              | none =>
                by_cases hj : j = k
                · exfalso
                  have hid := handleCall_pending_id env ex k c' b' p hr
                  have : IsPending env ex ops p := by
                    refine ⟨c', b', ?_, ?_, ?_⟩
                    · rw [hid]; exact hk
                    · rw [hid]; exact hr
                    · rw [hid]; exact hfr
                  exact hnone p ((hp p).mpr this) (by omega)
                · simp [hj]
    | some q =>
      simp only
      have hq_mem : q ∈ (run env ex ops).1.pending := List.mem_of_find?_eq_some hf
      have hq_id : q.id = j := by
        have := List.find?_some hf
        simpa using this
      have hq := (hp q).mp hq_mem
      obtain ⟨cq, bq, hq1, hq2, hq3⟩ := hq
      rw [hq_id] at hq1 hq2 hq3
      refine ⟨by simp, ?_, ?_⟩
      · intro p
        rw [isPending_snoc_resolve, ← hp]
        simp [List.mem_filter]
      · intro k
        rw [eventsOf_append, eventsOf_tag, he, callEvents_snoc_resolve]
        by_cases hj : j = k
        · subst hj
          unfold callEvents
          simp [hq1, hq2, hq3]
        · unfold callEvents
          simp only [hj, if_false, List.append_nil]

theorem runInv (env : Env V) (ex : Exports) (ops : List (Op V)) : RunInv env ex ops := by
  have : ∀ l : List (Op V), RunInv env ex l.reverse := by
    intro l
    induction l with
    | nil => exact runInv_nil env ex
    | cons op t ih =>
      rw [List.reverse_cons]
      exact runInv_snoc env ex _ op ih
  simpa using this ops.reverse

/-- The events of call `k` in the trace of a history. -/
theorem eventsOf_run (env : Env V) (ex : Exports) (ops : List (Op V)) (k : Nat) :
    eventsOf k (run env ex ops).2 = callEvents env ex ops k :=
  (runInv env ex ops).2.2 k

/-- Who is pending at the end of a history. -/
theorem pending_run (env : Env V) (ex : Exports) (ops : List (Op V)) (p : Pending) :
    p ∈ (run env ex ops).1.pending ↔ IsPending env ex ops p :=
  (runInv env ex ops).2.1 p

end Txdbus.Obj.DispatchProofs
