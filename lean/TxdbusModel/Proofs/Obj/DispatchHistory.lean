/-
C10 lemmas, part 3: histories.  The events of call number `k` in the trace of a whole history
are what `handleCall` produced for it followed by what the first later `resolve k` fired.
-/
import TxdbusModel.Proofs.Obj.DispatchCall

namespace Txdbus.Obj.DispatchProofs

open Txdbus.Obj.Dispatch Txdbus.Obj.DispatchSpec

variable {V : Type}

/-! ### small facts -/

theorem afterExecute_pending (env : Env V) (p q : Pending) (c : Call V) (f : Func) (oc : Outcome V)
    (h : (afterExecute env p c f oc).2 = some q) : q = p := by
  unfold afterExecute at h
  cases he : c.expectReply with
  | false => simp [he] at h
  | true =>
    cases oc with
    | value r => simp [he] at h
    | raise e => simp [he] at h
    | deferred => simp [he] at h; exact h.symm

theorem dispatchMethod_pending_id (env : Env V) (o : Obj) (k : Nat) (c : Call V) (b : Nat → Outcome V)
    (i : Iface) (m : Method) (p : Pending) (h : (dispatchMethod env o k c b i m).2 = some p) : p.id = k := by
  unfold dispatchMethod at h
  split at h
  · simp at h
  · split at h
    · simp at h
    · have := afterExecute_pending env _ p c _ _ h
      subst this
      rfl

theorem handleCall_pending_id (env : Env V) (ex : Exports) (k : Nat) (c : Call V) (b : Nat → Outcome V)
    (p : Pending) (h : (handleCall env ex k c b).2 = some p) : p.id = k := by
  unfold handleCall at h
  split at h
  · simp at h
  · split at h
    · simp at h
    · split at h
      · simp at h
      · split at h
        · split at h <;> simp at h
        · split at h
          · simp at h
          · exact dispatchMethod_pending_id env _ k c b _ _ p h

theorem firstResolve_append (k : Nat) (l l' : List (Op V)) :
    firstResolve k (l ++ l') =
      match firstResolve k l with
      | some r => some r
      | none => firstResolve k l' := by
  induction l with
  | nil => simp [firstResolve]
  | cons op t ih =>
    cases op with
    | call c b => simpa [firstResolve] using ih
    | exportObj pa o => simpa [firstResolve] using ih
    | unexportObj pa => simpa [firstResolve] using ih
    | resolve j r =>
      by_cases h : j = k
      · simp [firstResolve, h]
      · simpa [firstResolve, h] using ih

theorem eventsOf_append (k : Nat) (a b : List (Nat × Event V)) :
    eventsOf k (a ++ b) = eventsOf k a ++ eventsOf k b := by
  simp [eventsOf]

theorem eventsOf_tag (k j : Nat) (evs : List (Event V)) :
    eventsOf k (evs.map fun e => (j, e)) = if j = k then evs else [] := by
  unfold eventsOf
  by_cases h : j = k
  · subst h
    simp [List.filter_map, Function.comp_def]
  · simp [List.filter_map, Function.comp_def, h]

theorem eventsOf_nil (k : Nat) : eventsOf k ([] : List (Nat × Event V)) = [] := rfl

/-! ### runs -/

theorem runFrom_append (env : Env V) (s : State) (a b : List (Op V)) :
    runFrom env s (a ++ b) =
      ((runFrom env (runFrom env s a).1 b).1,
       (runFrom env s a).2 ++ (runFrom env (runFrom env s a).1 b).2) := by
  induction a generalizing s with
  | nil => simp [runFrom]
  | cons op t ih =>
    simp only [List.cons_append, runFrom, ih, List.append_assoc]

theorem run_snoc (env : Env V) (ex : Exports) (ops : List (Op V)) (op : Op V) :
    run env ex (ops ++ [op]) =
      ((step env (run env ex ops).1 op).1, (run env ex ops).2 ++ (step env (run env ex ops).1 op).2) := by
  unfold run
  rw [runFrom_append]
  simp [runFrom]

/-! ### exports over a history -/

theorem exportsAfter_append (ex : Exports) (a b : List (Op V)) :
    exportsAfter ex (a ++ b) = exportsAfter (exportsAfter ex a) b := by
  induction a generalizing ex with
  | nil => rfl
  | cons op t ih => cases op <;> simp [exportsAfter, ih]

theorem exportsAt_snoc_le (ex : Exports) (ops : List (Op V)) (op : Op V) (k : Nat) (h : k ≤ ops.length) :
    exportsAt ex (ops ++ [op]) k = exportsAt ex ops k := by
  unfold exportsAt
  rw [List.take_append_of_le_length h]

theorem exportsAt_length (ex : Exports) (ops : List (Op V)) :
    exportsAt ex ops ops.length = exportsAfter ex ops := by
  unfold exportsAt
  rw [List.take_length]

/-! ### what call `k` produced in a history -/

/-- What `handleMethodCallMessage` did for call `k`, followed by what the first later firing of
its Deferred did. -/
def callEvents (env : Env V) (ex : Exports) (ops : List (Op V)) (k : Nat) : List (Event V) :=
  match ops[k]? with
  | some (.call c b) =>
    (handleCall env (exportsAt ex ops k) k c b).1 ++
      (match (handleCall env (exportsAt ex ops k) k c b).2 with
       | some p =>
         match firstResolve k (ops.drop (k + 1)) with
         | some res => fire env p res
         | none => []
       | none => [])
  | _ => []

/-- The reply callbacks of call `p.id` are still waiting at the end of the history. -/
def IsPending (env : Env V) (ex : Exports) (ops : List (Op V)) (p : Pending) : Prop :=
  ∃ c b, ops[p.id]? = some (.call c b) ∧ (handleCall env (exportsAt ex ops p.id) p.id c b).2 = some p ∧
    firstResolve p.id (ops.drop (p.id + 1)) = none

theorem IsPending.lt {env : Env V} {ex : Exports} {ops : List (Op V)} {p : Pending}
    (h : IsPending env ex ops p) : p.id < ops.length := by
  obtain ⟨c, b, h1, _, _⟩ := h
  by_cases hl : p.id < ops.length
  · exact hl
  · rw [List.getElem?_eq_none (by omega)] at h1
    simp at h1

theorem callEvents_ge (env : Env V) (ex : Exports) (ops : List (Op V)) (k : Nat) (h : ops.length ≤ k) :
    callEvents env ex ops k = [] := by
  unfold callEvents
  rw [List.getElem?_eq_none h]

theorem getElem?_snoc_lt (ops : List (Op V)) (op : Op V) (k : Nat) (h : k < ops.length) :
    (ops ++ [op])[k]? = ops[k]? := List.getElem?_append_left h

theorem drop_snoc_lt (ops : List (Op V)) (op : Op V) (k : Nat) (h : k < ops.length) :
    (ops ++ [op]).drop (k + 1) = ops.drop (k + 1) ++ [op] :=
  List.drop_append_of_le_length (by omega)

/-- Adding one operation at the end: the events of an earlier call `k` grow only when the new
operation is the first `resolve k` after it. -/
theorem callEvents_snoc_lt (env : Env V) (ex : Exports) (ops : List (Op V)) (op : Op V) (k : Nat)
    (hlt : k < ops.length) :
    callEvents env ex (ops ++ [op]) k =
      match ops[k]? with
      | some (.call c b) =>
        (handleCall env (exportsAt ex ops k) k c b).1 ++
          (match (handleCall env (exportsAt ex ops k) k c b).2 with
           | some p =>
             match firstResolve k (ops.drop (k + 1)) with
             | some x => fire env p x
             | none =>
               match firstResolve k [op] with
               | some res => fire env p res
               | none => []
           | none => [])
      | _ => [] := by
  unfold callEvents
  rw [getElem?_snoc_lt _ _ _ hlt, drop_snoc_lt _ _ _ hlt, firstResolve_append,
    exportsAt_snoc_le ex ops op k (by omega)]
  cases ops[k]? with
  | none => rfl
  | some o =>
    cases o with
    | resolve j r => rfl
    | exportObj pa ob => rfl
    | unexportObj pa => rfl
    | call c' b' =>
      simp only
      cases (handleCall env (exportsAt ex ops k) k c' b').2 with
      | none => rfl
      | some p =>
        simp only
        cases firstResolve k (List.drop (k + 1) ops) <;> rfl

theorem callEvents_snoc_lt_same (env : Env V) (ex : Exports) (ops : List (Op V)) (op : Op V) (k : Nat)
    (hlt : k < ops.length) (hop : firstResolve k [op] = none) :
    callEvents env ex (ops ++ [op]) k = callEvents env ex ops k := by
  rw [callEvents_snoc_lt env ex ops op k hlt, hop]
  unfold callEvents
  cases ops[k]? with
  | none => rfl
  | some o =>
    cases o with
    | resolve j r => rfl
    | exportObj pa ob => rfl
    | unexportObj pa => rfl
    | call c' b' => simp only

/-- The new last operation when it is not a call: no events of its own number. -/
theorem callEvents_snoc_last_notcall (env : Env V) (ex : Exports) (ops : List (Op V)) (op : Op V)
    (h : ∀ c b, op ≠ .call c b) : callEvents env ex (ops ++ [op]) ops.length = [] := by
  unfold callEvents
  have h1 : (ops ++ [op])[ops.length]? = some op := by simp
  rw [h1]
  cases op with
  | call c b => exact absurd rfl (h c b)
  | resolve j r => rfl
  | exportObj pa ob => rfl
  | unexportObj pa => rfl

theorem callEvents_snoc_last_call (env : Env V) (ex : Exports) (ops : List (Op V)) (c : Call V)
    (b : Nat → Outcome V) :
    callEvents env ex (ops ++ [.call c b]) ops.length =
      (handleCall env (exportsAfter ex ops) ops.length c b).1 := by
  unfold callEvents
  have h1 : (ops ++ [Op.call c b])[ops.length]? = some (Op.call c b) := by simp
  have h2 : (ops ++ [Op.call c b]).drop (ops.length + 1) = [] := by simp
  rw [h1, h2, exportsAt_snoc_le ex ops _ ops.length (Nat.le_refl _), exportsAt_length]
  simp only [firstResolve]
  cases (handleCall env (exportsAfter ex ops) ops.length c b).2 <;> simp

theorem callEvents_snoc_gt (env : Env V) (ex : Exports) (ops : List (Op V)) (op : Op V) (k : Nat)
    (h : ops.length < k) : callEvents env ex (ops ++ [op]) k = [] :=
  callEvents_ge _ _ _ _ (by simp; omega)

/-- Who is pending after one more operation. -/
theorem isPending_snoc_lt (env : Env V) (ex : Exports) (ops : List (Op V)) (op : Op V) (p : Pending)
    (hlt : p.id < ops.length) :
    IsPending env ex (ops ++ [op]) p ↔ IsPending env ex ops p ∧ firstResolve p.id [op] = none := by
  unfold IsPending
  rw [getElem?_snoc_lt _ _ _ hlt, drop_snoc_lt _ _ _ hlt, firstResolve_append,
    exportsAt_snoc_le ex ops op p.id (by omega)]
  constructor
  · rintro ⟨c', b', h1, h2, h3⟩
    cases hf : firstResolve p.id (List.drop (p.id + 1) ops) with
    | some x => simp [hf] at h3
    | none =>
      rw [hf] at h3
      exact ⟨⟨c', b', h1, h2, rfl⟩, h3⟩
  · rintro ⟨⟨c', b', h1, h2, h3⟩, h4⟩
    exact ⟨c', b', h1, h2, by rw [h3]; exact h4⟩

theorem isPending_snoc (env : Env V) (ex : Exports) (ops : List (Op V)) (op : Op V) (p : Pending) :
    IsPending env ex (ops ++ [op]) p ↔
      (IsPending env ex ops p ∧ firstResolve p.id [op] = none) ∨
      (p.id = ops.length ∧ ∃ c b, op = .call c b ∧
        (handleCall env (exportsAfter ex ops) ops.length c b).2 = some p) := by
  by_cases hlt : p.id < ops.length
  · rw [isPending_snoc_lt env ex ops op p hlt]
    constructor
    · intro h; exact Or.inl h
    · rintro (h | ⟨h, _⟩)
      · exact h
      · omega
  · constructor
    · intro h
      have hl := h.lt
      have heq : p.id = ops.length := by simp at hl; omega
      obtain ⟨c', b', h1, h2, _⟩ := h
      right
      rw [heq] at h1 h2
      have : (ops ++ [op])[ops.length]? = some op := by simp
      rw [this] at h1
      injection h1 with h1
      rw [exportsAt_snoc_le ex ops op ops.length (Nat.le_refl _), exportsAt_length] at h2
      exact ⟨heq, c', b', h1, h2⟩
    · rintro (⟨h, _⟩ | ⟨heq, c, b, hop, h2⟩)
      · exact absurd h.lt hlt
      · subst hop
        refine ⟨c, b, ?_, ?_, ?_⟩
        · rw [heq]; simp
        · rw [heq, exportsAt_snoc_le ex ops _ ops.length (Nat.le_refl _), exportsAt_length]; exact h2
        · rw [heq]; simp [firstResolve]

/-! ### the invariant of `run` -/

/-- After a history: the operation counter, the exports, who is pending, and the events of every call. -/
def RunInv (env : Env V) (ex : Exports) (ops : List (Op V)) : Prop :=
  (run env ex ops).1.next = ops.length ∧
  (run env ex ops).1.exports = exportsAfter ex ops ∧
  (∀ p, p ∈ (run env ex ops).1.pending ↔ IsPending env ex ops p) ∧
  (∀ k, eventsOf k (run env ex ops).2 = callEvents env ex ops k)

theorem runInv_nil (env : Env V) (ex : Exports) : RunInv env ex ([] : List (Op V)) := by
  refine ⟨rfl, rfl, ?_, ?_⟩
  · intro p
    constructor
    · intro h; simp [run, runFrom, State.init] at h
    · intro h; have := h.lt; simp at this
  · intro k; rfl

/-- An operation that neither is a call nor fires a Deferred leaves pending set and events alone. -/
theorem runInv_snoc_quiet (env : Env V) (ex : Exports) (ops : List (Op V)) (op : Op V)
    (hq : ∀ k, firstResolve k [op] = none) (hc : ∀ c b, op ≠ .call c b)
    (hstep : step env (run env ex ops).1 op =
      ({ next := (run env ex ops).1.next + 1, pending := (run env ex ops).1.pending,
         exports := exportsAfter (run env ex ops).1.exports [op] }, []))
    (ih : RunInv env ex ops) : RunInv env ex (ops ++ [op]) := by
  obtain ⟨hn, hx, hp, he⟩ := ih
  unfold RunInv
  rw [run_snoc, hstep]
  refine ⟨by simp [hn], ?_, ?_, ?_⟩
  · simp only [hx, exportsAfter_append]
  · intro p
    rw [isPending_snoc]
    simp only [hp, hq, and_true]
    constructor
    · intro h; exact Or.inl h
    · rintro (h | ⟨_, c, b, hop, _⟩)
      · exact h
      · exact absurd hop (hc c b)
  · intro k
    rw [List.append_nil, he]
    by_cases hlt : k < ops.length
    · rw [callEvents_snoc_lt_same env ex ops op k hlt (hq k)]
    · by_cases heq : k = ops.length
      · subst heq
        rw [callEvents_snoc_last_notcall env ex ops op hc, callEvents_ge _ _ _ _ (Nat.le_refl _)]
      · rw [callEvents_snoc_gt env ex ops op k (by omega), callEvents_ge _ _ _ _ (by omega)]

theorem runInv_snoc (env : Env V) (ex : Exports) (ops : List (Op V)) (op : Op V)
    (ih : RunInv env ex ops) : RunInv env ex (ops ++ [op]) := by
  cases op with
  | exportObj pa ob =>
    exact runInv_snoc_quiet env ex ops _ (fun _ => rfl) (fun _ _ h => by cases h) rfl ih
  | unexportObj pa =>
    exact runInv_snoc_quiet env ex ops _ (fun _ => rfl) (fun _ _ h => by cases h) rfl ih
  | call c b =>
    obtain ⟨hn, hx, hp, he⟩ := ih
    unfold RunInv
    rw [run_snoc]
    simp only [step, hn, hx]
    refine ⟨by simp, ?_, ?_, ?_⟩
    · rw [exportsAfter_append]; rfl
    · intro p
      rw [isPending_snoc]
      have hfr : firstResolve p.id [Op.call c b] = none := rfl
      simp only [hfr, and_true]
      cases hr : (handleCall env (exportsAfter ex ops) ops.length c b).2 with
      | none =>
        simp only [hp]
        constructor
        · intro h; exact Or.inl h
        · rintro (h | ⟨_, c', b', hop, h⟩)
          · exact h
          · injection hop with hc hb; subst hc; subst hb
            rw [hr] at h; cases h
      | some q =>
        simp only [List.mem_cons, hp]
        constructor
        · rintro (h | h)
          · subst h
            exact Or.inr ⟨handleCall_pending_id env _ _ c b p hr, c, b, rfl, hr⟩
          · exact Or.inl h
        · rintro (h | ⟨_, c', b', hop, h⟩)
          · exact Or.inr h
          · injection hop with hc hb; subst hc; subst hb
            rw [hr] at h; injection h with h; exact Or.inl h.symm
    · intro k
      rw [eventsOf_append, eventsOf_tag, he]
      by_cases hlt : k < ops.length
      · have : ¬ (ops.length = k) := by omega
        rw [callEvents_snoc_lt_same env ex ops _ k hlt rfl]
        simp [this]
      · by_cases heq : k = ops.length
        · subst heq
          rw [callEvents_snoc_last_call, callEvents_ge _ _ _ _ (Nat.le_refl _)]
          simp
        · have : ¬ (ops.length = k) := fun h => heq h.symm
          rw [callEvents_snoc_gt env ex ops _ k (by omega), callEvents_ge _ _ _ _ (by omega)]
          simp [this]
  | resolve j res =>
    obtain ⟨hn, hx, hp, he⟩ := ih
    unfold RunInv
    rw [run_snoc]
    simp only [step, hn]
    have hfr : ∀ k, firstResolve k [Op.resolve j res] = if j = k then some res else none := by
      intro k; simp [firstResolve]
    have hnc : ∀ c b, Op.resolve j res ≠ Op.call c b := fun _ _ h => by cases h
    cases hf : (run env ex ops).1.pending.find? (fun p => decide (p.id = j)) with
    | none =>
      simp only
      have hnone : ∀ p, p ∈ (run env ex ops).1.pending → p.id ≠ j := by
        intro p hm
        have := List.find?_eq_none.mp hf p hm
        simpa using this
      refine ⟨by simp, ?_, ?_, ?_⟩
      · rw [exportsAfter_append, hx]; rfl
      · intro p
        rw [isPending_snoc, ← hp, hfr]
        constructor
        · intro h
          left
          refine ⟨h, ?_⟩
          have := hnone p h
          have hjp : ¬ (j = p.id) := fun hh => this hh.symm
          simp [hjp]
        · rintro (⟨h, _⟩ | ⟨_, c, b, hop, _⟩)
          · exact h
          · exact absurd hop (hnc c b)
      · intro k
        rw [List.append_nil, he]
        by_cases hlt : k < ops.length
        · rw [callEvents_snoc_lt env ex ops _ k hlt, hfr]
          unfold callEvents
          cases hk : ops[k]? with
          | none => rfl
          | some op =>
            cases op with
            | resolve j' r' => rfl
            | exportObj pa ob => rfl
            | unexportObj pa => rfl
            | call c' b' =>
              simp only
              cases hr : (handleCall env (exportsAt ex ops k) k c' b').2 with
              | none => rfl
              | some p =>
                simp only
                cases hfr' : firstResolve k (List.drop (k + 1) ops) with
                | some x => rfl
                | none =>
                  by_cases hj : j = k
                  · exfalso
                    have hid := handleCall_pending_id env _ k c' b' p hr
                    have : IsPending env ex ops p := by
                      refine ⟨c', b', ?_, ?_, ?_⟩
                      · rw [hid]; exact hk
                      · rw [hid]; exact hr
                      · rw [hid]; exact hfr'
                    exact hnone p ((hp p).mpr this) (by omega)
                  · simp [hj]
        · by_cases heq : k = ops.length
          · subst heq
            rw [callEvents_snoc_last_notcall env ex ops _ hnc, callEvents_ge _ _ _ _ (Nat.le_refl _)]
          · rw [callEvents_snoc_gt env ex ops _ k (by omega), callEvents_ge _ _ _ _ (by omega)]
    | some q =>
      simp only
      have hq_mem : q ∈ (run env ex ops).1.pending := List.mem_of_find?_eq_some hf
      have hq_id : q.id = j := by
        have := List.find?_some hf
        simpa using this
      have hq := (hp q).mp hq_mem
      have hjlt : j < ops.length := hq_id ▸ hq.lt
      obtain ⟨cq, bq, hq1, hq2, hq3⟩ := hq
      rw [hq_id] at hq1 hq2 hq3
      refine ⟨by simp, ?_, ?_, ?_⟩
      · rw [exportsAfter_append, hx]; rfl
      · intro p
        rw [isPending_snoc, ← hp, hfr]
        simp only [List.mem_filter, decide_eq_true_eq]
        constructor
        · rintro ⟨h, hne⟩
          left
          have hjp : ¬ (j = p.id) := fun hh => hne hh.symm
          exact ⟨h, by simp [hjp]⟩
        · rintro (⟨h, hh⟩ | ⟨_, c, b, hop, _⟩)
          · refine ⟨h, ?_⟩
            intro heq
            simp [heq] at hh
          · exact absurd hop (hnc c b)
      · intro k
        rw [eventsOf_append, eventsOf_tag, he]
        by_cases hj : j = k
        · subst hj
          rw [callEvents_snoc_lt env ex ops _ j hjlt, hfr]
          unfold callEvents
          simp [hq1, hq2, hq3]
        · simp only [hj, if_false, List.append_nil]
          by_cases hlt : k < ops.length
          · rw [callEvents_snoc_lt_same env ex ops _ k hlt (by rw [hfr]; simp [hj])]
          · by_cases heq : k = ops.length
            · subst heq
              rw [callEvents_snoc_last_notcall env ex ops _ hnc, callEvents_ge _ _ _ _ (Nat.le_refl _)]
            · rw [callEvents_snoc_gt env ex ops _ k (by omega), callEvents_ge _ _ _ _ (by omega)]

theorem runInv (env : Env V) (ex : Exports) (ops : List (Op V)) : RunInv env ex ops := by
  have : ∀ l : List (Op V), RunInv env ex l.reverse := by
    intro l
    induction l with
    | nil => exact runInv_nil env ex
    | cons op t ih =>
      rw [List.reverse_cons]
      exact runInv_snoc env ex _ op ih
  simpa using this ops.reverse

/-- The events of call `k` in the trace of a history. -/
theorem eventsOf_run (env : Env V) (ex : Exports) (ops : List (Op V)) (k : Nat) :
    eventsOf k (run env ex ops).2 = callEvents env ex ops k :=
  (runInv env ex ops).2.2.2 k

/-- Who is pending at the end of a history. -/
theorem pending_run (env : Env V) (ex : Exports) (ops : List (Op V)) (p : Pending) :
    p ∈ (run env ex ops).1.pending ↔ IsPending env ex ops p :=
  (runInv env ex ops).2.2.1 p

/-- What is exported at the end of a history. -/
theorem exports_run (env : Env V) (ex : Exports) (ops : List (Op V)) :
    (run env ex ops).1.exports = exportsAfter ex ops :=
  (runInv env ex ops).2.1

end Txdbus.Obj.DispatchProofs
