/-
C10 lemmas, part 5 (extension 2026-09-30): positions in histories with export / unexport
operations - where the first firing of a Deferred sits, what is exported right after an
`unexportObject`.
-/
import TxdbusModel.Proofs.Obj.DispatchMain

namespace Txdbus.Obj.DispatchProofs

open Txdbus.Obj.Dispatch Txdbus.Obj.DispatchSpec

variable {V : Type}

/-- The first `resolve k` of a list sits at position `n`: it is there, nothing before it is one. -/
theorem firstResolve_at (k : Nat) (l : List (Op V)) (n : Nat) (res : Resolution V)
    (h1 : l[n]? = some (.resolve k res))
    (h2 : ∀ i, i < n → ∀ r, l[i]? ≠ some (.resolve k r)) :
    firstResolve k l = some res := by
  induction l generalizing n with
  | nil => simp at h1
  | cons op t ih =>
    cases n with
    | zero =>
      simp at h1
      subst h1
      simp [firstResolve]
    | succ n =>
      have ht : firstResolve k t = some res :=
        ih n (by simpa using h1) (fun i hi r => by
          have := h2 (i + 1) (by omega) r
          simpa using this)
      have h0 := h2 0 (by omega)
      cases op with
      | call c b => simpa [firstResolve] using ht
      | exportObj pa o => simpa [firstResolve] using ht
      | unexportObj pa => simpa [firstResolve] using ht
      | resolve j r =>
        by_cases hj : j = k
        · subst hj
          exact absurd (by simp) (h0 r)
        · simpa [firstResolve, hj] using ht

/-- The first firing of the Deferred of call `k` in a history, by position. -/
theorem firstResolve_drop_at (ops : List (Op V)) (k l : Nat) (res : Resolution V) (hl : k < l)
    (h1 : ops[l]? = some (.resolve k res))
    (h2 : ∀ i, k < i → i < l → ∀ r, ops[i]? ≠ some (.resolve k r)) :
    firstResolve k (ops.drop (k + 1)) = some res := by
  apply firstResolve_at k _ (l - (k + 1)) res
  · rw [List.getElem?_drop]
    have : k + 1 + (l - (k + 1)) = l := by omega
    rw [this]; exact h1
  · intro i hi r
    rw [List.getElem?_drop]
    exact h2 (k + 1 + i) (by omega) (by omega) r

theorem exported_dictErase (ex : Exports) (path : Str) : exported (dictErase ex path) path = none := by
  unfold exported dictErase
  have : (ex.filter fun e => e.1 ≠ path).find? (fun e => e.1 = path) = none := by
    rw [List.find?_eq_none]
    intro e he
    have := (List.mem_filter.mp he).2
    simpa using this
  rw [this]; rfl

theorem take_succ_of_getElem? (ops : List (Op V)) (j : Nat) (op : Op V) (h : ops[j]? = some op) :
    ops.take (j + 1) = ops.take j ++ [op] := by
  have hlt : j < ops.length := by
    by_cases hl : j < ops.length
    · exact hl
    · rw [List.getElem?_eq_none (by omega)] at h; cases h
  rw [List.take_add_one, h]; rfl

/-- Right after `unexportObject(path)` (operation `j`) nothing is exported at `path`. -/
theorem exportsAt_after_unexport (ex : Exports) (ops : List (Op V)) (j : Nat) (path : Str)
    (h : ops[j]? = some (.unexportObj path)) :
    exported (exportsAt ex ops (j + 1)) path = none := by
  unfold exportsAt
  rw [take_succ_of_getElem? ops j _ h, exportsAfter_append]
  simp only [exportsAfter]
  exact exported_dictErase _ path

end Txdbus.Obj.DispatchProofs
