/-
C17 lemmas: typing of values (variantClassMap cast, sigFromPy, marshalling acceptance) against the
spec-level `HasType`, and the table lemmas tying the model's normalisation functions to the generated
tables.
-/
import TxdbusModel.Obj.Props
import TxdbusModel.Obj.PropsSpec

namespace Txdbus.Obj.Props
open Txdbus.Obj.PropsSpec

/-! ### generated tables -/

theorem accessTable_eq :
    Gen.C17Props.accessTable =
      [(false, false, (normAccess false false).name), (false, true, (normAccess false true).name),
       (true, false, (normAccess true false).name), (true, true, (normAccess true true).name)] := by
  decide

theorem emitsTable_eq :
    Gen.C17Props.emitsTable =
      [EmitsArg.true_, .false_, .invalidates, .const].map fun a =>
        (a.label, match normEmits a with | some e => e.name | none => "TypeError") := by
  decide

/-- Every key of `variantClassMap` maps to a class whose `dbusSignature` is the key itself, integer
classes for the eight integer-like codes and `str` classes for 'g' and 'o'; 's' and 'd' are not keys. -/
theorem classMap_facts :
    Gen.C17Props.classMap.all (fun e => e.2.2 = e.1) = true ∧
    (Gen.C17Props.classMap.map fun e => (e.1, e.2.1)) =
      [('y', "int"), ('b', "int"), ('n', "int"), ('q', "int"), ('i', "int"), ('u', "int"), ('x', "int"),
       ('t', "int"), ('g', "str"), ('o', "str")] := by
  decide

theorem propsIface_tables :
    Gen.C17Props.propsMethods = [("Get", "ss", "v"), ("Set", "ssv", ""), ("GetAll", "s", "a{sv}")] ∧
    Gen.C17Props.changedSignalSig = "sa{sv}as" := by
  decide

/-! ### signature dispatch -/

theorem ofSig_some {sig : Str} {ty : DTy} (h : DTy.ofSig sig = some ty) : sig = ty.render := by
  unfold DTy.ofSig at h
  split at h <;> first | (cases h; rfl) | (cases h)

theorem ofSig_render (ty : DTy) : DTy.ofSig ty.render = some ty := by
  cases ty <;> rfl

/-! ### object paths -/

theorem pathChar_eq (c : Char) : inRanges Gen.C17Props.objPathAllowed c.toNat = pathChar c := by
  unfold pathChar
  generalize c.toNat = n
  rw [Bool.eq_iff_iff]
  simp only [inRanges, Gen.C17Props.objPathAllowed, List.any_cons, List.any_nil, Bool.or_false,
    Bool.or_eq_true, decide_eq_true_eq]
  omega

theorem pathOk_eq_validPath (p : Str) : pathOk p = validPath p := by
  unfold pathOk validPath
  have : (fun c : Char => inRanges Gen.C17Props.objPathAllowed c.toNat) = pathChar :=
    funext pathChar_eq
  rw [this]

/-! ### marshalling acceptance = having the type -/

theorem marshalPlain_render (ty : DTy) (v : PyVal) : marshalPlain ty.render v = marshalTy ty v := by
  simp [marshalPlain, ofSig_render]

@[simp] theorem isSome_ite_some {α : Type} (c : Prop) [Decidable c] (a : α) :
    (if c then some a else none).isSome = decide c := by
  split <;> simp [*]

theorem marshalPlain_i (v : PyVal) : marshalPlain ['i'] v = marshalTy .i v := marshalPlain_render .i v
theorem marshalPlain_x (v : PyVal) : marshalPlain ['x'] v = marshalTy .x v := marshalPlain_render .x v
theorem marshalPlain_t (v : PyVal) : marshalPlain ['t'] v = marshalTy .t v := marshalPlain_render .t v
theorem marshalPlain_b (v : PyVal) : marshalPlain ['b'] v = marshalTy .b v := marshalPlain_render .b v
theorem marshalPlain_d (v : PyVal) : marshalPlain ['d'] v = marshalTy .d v := marshalPlain_render .d v
theorem marshalPlain_s (v : PyVal) : marshalPlain ['s'] v = marshalTy .s v := marshalPlain_render .s v
theorem marshalPlain_as (v : PyVal) : marshalPlain ['a', 's'] v = marshalTy .as v := marshalPlain_render .as v
theorem marshalPlain_av (v : PyVal) : marshalPlain ['a', 'v'] v = marshalTy .av v := marshalPlain_render .av v

/-- A raw (unwrapped) Python value marshals as a variant exactly when it is a wire value, and the peer
decodes the same value. -/
theorem encodeVariant_raw (v : PyVal) :
    (wireOk v = true → ∃ sg, encodeVariant ⟨none, v⟩ = some (sg, v)) ∧
    (wireOk v = false → encodeVariant ⟨none, v⟩ = none) := by
  cases v with
  | none => simp [wireOk, encodeVariant, sigFromPy]
  | bool b =>
    simp [wireOk, encodeVariant, sigFromPy, marshalPlain_b, marshalTy, truthy]
  | dbl b => simp [wireOk, encodeVariant, sigFromPy, marshalPlain_d, marshalTy]
  | str s =>
    have e : noNul s = strOk s := rfl
    cases hs : strOk s <;>
      simp [wireOk, encodeVariant, sigFromPy, marshalPlain_s, marshalTy, e, hs]
  | strs l =>
    cases l with
    | nil => simp [wireOk, encodeVariant, sigFromPy, marshalPlain_av, marshalTy]
    | cons a t =>
      have e : (a :: t).all noNul = (a :: t).all strOk := rfl
      have hs' : sigFromPy ⟨none, .strs (a :: t)⟩ = some ['a', 's'] := rfl
      cases hs : (a :: t).all strOk <;>
        simp [wireOk, encodeVariant, hs', marshalPlain_as, marshalTy, e, hs]
  | int n =>
    by_cases h1 : -2147483648 ≤ n ∧ n < 2147483648
    · have h1' : -2147483648 ≤ n ∧ n ≤ 2147483647 := by omega
      have hw : -9223372036854775808 ≤ n ∧ n ≤ 18446744073709551615 := by omega
      have hs' : sigFromPy ⟨none, .int n⟩ = some ['i'] := by simp [sigFromPy, h1]
      simp [wireOk, encodeVariant, hs', marshalPlain_i, marshalTy, DTy.intRange, h1', hw]
    · by_cases h2 : -9223372036854775808 ≤ n ∧ n < 9223372036854775808
      · have h2' : -9223372036854775808 ≤ n ∧ n ≤ 9223372036854775807 := by omega
        have hw : -9223372036854775808 ≤ n ∧ n ≤ 18446744073709551615 := by omega
        have hs' : sigFromPy ⟨none, .int n⟩ = some ['x'] := by
          simp [sigFromPy, h1, h2]
        simp [wireOk, encodeVariant, hs', marshalPlain_x, marshalTy, DTy.intRange, h2', hw]
      · have hs' : sigFromPy ⟨none, .int n⟩ = some ['t'] := by
          simp [sigFromPy, h1, h2]
        by_cases h3 : (0 : Int) ≤ n ∧ n ≤ 18446744073709551615
        · have hw : -9223372036854775808 ≤ n ∧ n ≤ 18446744073709551615 := by omega
          simp [wireOk, encodeVariant, hs', marshalPlain_t, marshalTy, DTy.intRange, h3, hw]
        · have hw : ¬ (-9223372036854775808 ≤ n ∧ n ≤ 18446744073709551615) := by omega
          simp [wireOk, encodeVariant, hs', hw]
          rw [marshalPlain_t]
          simp [marshalTy, DTy.intRange, h3]

theorem encodeVariant_raw_val {v : PyVal} {sg : Str} {w : PyVal}
    (h : encodeVariant ⟨none, v⟩ = some (sg, w)) : w = v := by
  cases hw : wireOk v
  · rw [(encodeVariant_raw v).2 hw] at h; cases h
  · obtain ⟨sg', e⟩ := (encodeVariant_raw v).1 hw
    rw [e] at h; cases h; rfl

theorem hasType_v (v : PyVal) : HasType .v v = wireOk v := by
  cases v <;> simp [HasType, wireOk]

theorem conforms_eq_hasType (sig : Str) (v : PyVal) (hw : wireOk v = true) :
    conforms sig v = HasTypeSig sig v := by
  unfold HasTypeSig
  cases h : DTy.ofSig sig with
  | none =>
    have hv : sig ≠ ['v'] := by intro e; subst e; simp [DTy.ofSig] at h
    simp [conforms, marshalAs, hv, marshalPlain, h]
  | some ty =>
    have := ofSig_some h; subst this
    cases ty
    case v =>
      obtain ⟨sg, e⟩ := (encodeVariant_raw v).1 hw
      simp [conforms, kindOk, DTy.render, marshalAs, e, hasType_v, hw]
    case av =>
      cases v with
      | strs l => cases l <;> simp [conforms, kindOk, DTy.render, marshalAs, marshalPlain_av, marshalTy, HasType]
      | _ => simp [conforms, kindOk, DTy.render, marshalAs, marshalPlain_av, marshalTy, HasType]
    all_goals
      cases v <;>
      simp [conforms, kindOk, DTy.render, marshalAs, marshalPlain, DTy.ofSig, marshalTy, HasType,
        DTy.intRange, wireOk, noNul, strOk, pathOk_eq_validPath] at hw ⊢
    all_goals try simp_all
    · simp [List.all_eq]
    · intro x hx; simp [strOk, hw x hx]

theorem validPath_noNul {s : Str} (h : validPath s = true) : ¬ Char.ofNat 0 ∈ s := by
  intro hm
  unfold validPath at h
  simp only [Bool.and_eq_true, List.all_eq_true] at h
  have := h.2 _ hm
  revert this
  decide

theorem castClass_raw_of_not_key {sig : Str} (v : PyVal)
    (h : ∀ c, sig = [c] → classOf c = none) : castClass sig v = some ⟨none, v⟩ := by
  unfold castClass
  split
  · rename_i c
    rw [h c rfl]
  · rfl

/-- Get's typing of a value of the declared type: the reply carries that very value, in a variant of
exactly the declared type when the type is basic. -/
theorem getReply_of_hasType {sig : Str} {v : PyVal} (h : HasTypeSig sig v = true) :
    ∃ sg, getReply sig v = some (sg, v) ∧ (IsBasic sig = true → sg = sig) := by
  unfold HasTypeSig at h
  cases hs : DTy.ofSig sig with
  | none => simp [hs] at h
  | some ty =>
    rw [hs] at h
    have := ofSig_some hs; subst this
    -- the types Get leaves to inference: the raw value is marshalled as a variant
    have raw : ∀ (sig : Str), (∀ c, sig = [c] → classOf c = none) → wireOk v = true →
        ∀ sg0, sigFromPy ⟨none, v⟩ = some sg0 →
        ∃ sg, getReply sig v = some (sg, v) ∧ sg = sg0 := by
      intro sig hk hw sg0 hsg
      obtain ⟨sg, e⟩ := (encodeVariant_raw v).1 hw
      refine ⟨sg, ?_, ?_⟩
      · simp [getReply, castClass_raw_of_not_key v hk, e]
      · simp only [encodeVariant, hsg, Option.bind_some] at e
        cases hm : marshalPlain sg0 v with
        | none => simp [hm] at e
        | some w => simp [hm] at e; exact e.1.symm
    cases ty
    case s =>
      cases v <;> simp [HasType] at h
      obtain ⟨sg, e, rfl⟩ := raw ['s'] (by intro c hc; cases hc; decide) (by simpa [wireOk] using h) ['s'] rfl
      exact ⟨_, e, fun _ => rfl⟩
    case d =>
      cases v <;> simp [HasType] at h
      obtain ⟨sg, e, rfl⟩ := raw ['d'] (by intro c hc; cases hc; decide) (by simp [wireOk]) ['d'] rfl
      exact ⟨_, e, fun _ => rfl⟩
    case as =>
      cases v <;> simp [HasType] at h
      rename_i l
      have hw : wireOk (.strs l) = true := by simpa [wireOk] using h
      obtain ⟨sg, e⟩ := (encodeVariant_raw (.strs l)).1 hw
      exact ⟨sg, by simp [getReply, castClass, DTy.render, e], by simp [IsBasic, DTy.render]⟩
    case av =>
      cases v <;> simp [HasType] at h
      rename_i l
      cases l with
      | nil =>
        obtain ⟨sg, e⟩ := (encodeVariant_raw (.strs [])).1 (by simp [wireOk])
        exact ⟨sg, by simp [getReply, castClass, DTy.render, e], by simp [IsBasic, DTy.render]⟩
      | cons a t => simp [HasType] at h
    case v =>
      have hw : wireOk v = true := by rw [← hasType_v]; exact h
      obtain ⟨sg, e⟩ := (encodeVariant_raw v).1 hw
      refine ⟨sg, ?_, by simp [IsBasic, DTy.render]⟩
      have : castClass ['v'] v = some ⟨none, v⟩ :=
        castClass_raw_of_not_key v (by intro c hc; cases hc; decide)
      simp [getReply, DTy.render, this, e]
    case o =>
      cases v <;> simp [HasType] at h
      have hn := validPath_noNul h
      simp [getReply, castClass, classOf, dget, Gen.C17Props.classMap, DTy.render, pyStr,
        encodeVariant, sigFromPy, marshalPlain, DTy.ofSig, marshalTy, IsBasic,
        noNul, pathOk_eq_validPath, h, hn]
    case g =>
      cases v <;> simp [HasType] at h
      simp [getReply, castClass, classOf, dget, Gen.C17Props.classMap, DTy.render, pyStr,
        encodeVariant, sigFromPy, marshalPlain, DTy.ofSig, marshalTy, IsBasic, h]
      exact h.1.2
    all_goals
      cases v <;> simp [HasType] at h <;>
      simp [getReply, castClass, classOf, dget, Gen.C17Props.classMap, DTy.render, pyInt,
        encodeVariant, sigFromPy, marshalPlain, DTy.ofSig, marshalTy, DTy.intRange, truthy, IsBasic, h]

end Txdbus.Obj.Props
