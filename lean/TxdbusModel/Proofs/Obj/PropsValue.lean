/-
C17 lemmas: typing of values (variantClassMap cast, sigFromPy, marshalling acceptance) against the
spec-level `HasType`, and the table lemmas tying the model's normalisation functions to the generated
tables.
-/
import TxdbusModel.Obj.Props
import TxdbusModel.Obj.PropsSpec

namespace Txdbus.Obj.Props
open Txdbus.Obj.PropsSpec

/-! ### generated tables -/

theorem accessTable_eq :
    Gen.C17Props.accessTable =
      [(false, false, (normAccess false false).name), (false, true, (normAccess false true).name),
       (true, false, (normAccess true false).name), (true, true, (normAccess true true).name)] := by
  decide

theorem emitsTable_eq :
    Gen.C17Props.emitsTable =
      [EmitsArg.true_, .false_, .invalidates, .const].map fun a =>
        (a.label, match normEmits a with | some e => e.name | none => "TypeError") := by
  decide

/-- Every key of `variantClassMap` maps to a class whose `dbusSignature` is the key itself, integer
classes for the eight integer-like codes and `str` classes for 'g' and 'o'; 's' and 'd' are not keys. -/
theorem classMap_facts :
    Gen.C17Props.classMap.all (fun e => e.2.2 = e.1) = true ∧
    (Gen.C17Props.classMap.map fun e => (e.1, e.2.1)) =
      [('y', "int"), ('b', "int"), ('n', "int"), ('q', "int"), ('i', "int"), ('u', "int"), ('x', "int"),
       ('t', "int"), ('g', "str"), ('o', "str")] := by
  decide

theorem propsIface_tables :
    Gen.C17Props.propsMethods = [("Get", "ss", "v"), ("Set", "ssv", ""), ("GetAll", "s", "a{sv}")] ∧
    Gen.C17Props.changedSignalSig = "sa{sv}as" := by
  decide

/-! ### signature dispatch -/

theorem ofSig_some {sig : Str} {ty : DTy} (h : DTy.ofSig sig = some ty) : sig = ty.render := by
  unfold DTy.ofSig at h
  split at h <;> first | (cases h; rfl) | (cases h)

theorem ofSig_render (ty : DTy) : DTy.ofSig ty.render = some ty := by
  cases ty <;> rfl

/-! ### object paths -/

theorem pathChar_eq (c : Char) : inRanges Gen.C17Props.objPathAllowed c.toNat = pathChar c := by
  unfold pathChar
  generalize c.toNat = n
  rw [Bool.eq_iff_iff]
  simp only [inRanges, Gen.C17Props.objPathAllowed, List.any_cons, List.any_nil, Bool.or_false,
    Bool.or_eq_true, decide_eq_true_eq]
  omega

theorem pathOk_eq_validPath (p : Str) : pathOk p = validPath p := by
  unfold pathOk validPath
  have : (fun c : Char => inRanges Gen.C17Props.objPathAllowed c.toNat) = pathChar :=
    funext pathChar_eq
  rw [this]

/-! ### marshalling acceptance = having the type -/

theorem marshalPlain_render (ty : DTy) (v : PVal) (h : v.isContainer = false) :
    marshalPlain ty.render v = marshalTy ty v := by
  simp [marshalPlain, ofSig_render, h]

@[simp] theorem isSome_ite_some {α : Type} (c : Prop) [Decidable c] (a : α) :
    (if c then some a else none).isSome = decide c := by
  split <;> simp [*]

theorem marshalPlain_i (v : PVal) (h : v.isContainer = false) : marshalPlain ['i'] v = marshalTy .i v :=
  marshalPlain_render .i v h
theorem marshalPlain_x (v : PVal) (h : v.isContainer = false) : marshalPlain ['x'] v = marshalTy .x v :=
  marshalPlain_render .x v h
theorem marshalPlain_t (v : PVal) (h : v.isContainer = false) : marshalPlain ['t'] v = marshalTy .t v :=
  marshalPlain_render .t v h
theorem marshalPlain_b (v : PVal) (h : v.isContainer = false) : marshalPlain ['b'] v = marshalTy .b v :=
  marshalPlain_render .b v h
theorem marshalPlain_d (v : PVal) (h : v.isContainer = false) : marshalPlain ['d'] v = marshalTy .d v :=
  marshalPlain_render .d v h
theorem marshalPlain_s (v : PVal) (h : v.isContainer = false) : marshalPlain ['s'] v = marshalTy .s v :=
  marshalPlain_render .s v h
theorem marshalPlain_as (v : PVal) (h : v.isContainer = false) : marshalPlain ['a', 's'] v = marshalTy .as v :=
  marshalPlain_render .as v h
theorem marshalPlain_av (v : PVal) (h : v.isContainer = false) : marshalPlain ['a', 'v'] v = marshalTy .av v :=
  marshalPlain_render .av v h

/-- A wire value marshals as a variant, and the peer decodes the same value. -/
theorem encodeVariant_raw (v : PVal) (hw : wireOk v = true) :
    ∃ sg, encodeVariant ⟨none, v⟩ = some (sg, v) := by
  cases v with
  | wint c n => simp [wireOk] at hw
  | wstr c s => simp [wireOk] at hw
  | list l => simp [wireOk] at hw
  | tuple l => simp [wireOk] at hw
  | dict l => simp [wireOk] at hw
  | lists l => simp [wireOk] at hw
  | none => simp [wireOk] at hw
  | bool b =>
    simp [encodeVariant, sigFromPy, marshalPlain, DTy.ofSig, PVal.isContainer, marshalTy, truthy]
  | dbl b => simp [encodeVariant, sigFromPy, marshalPlain, DTy.ofSig, PVal.isContainer, marshalTy]
  | str s =>
    have e : noNul s = strOk s := rfl
    simp only [wireOk] at hw
    simp [encodeVariant, sigFromPy, marshalPlain, DTy.ofSig, PVal.isContainer, marshalTy, e, hw]
  | strs l =>
    simp only [wireOk] at hw
    cases l with
    | nil => simp [encodeVariant, sigFromPy, marshalPlain, DTy.ofSig, PVal.isContainer, marshalTy]
    | cons a t =>
      have e : (a :: t).all noNul = (a :: t).all strOk := rfl
      have hs' : sigFromPy ⟨none, .strs (a :: t)⟩ = some ['a', 's'] := rfl
      simp [encodeVariant, hs', marshalPlain, DTy.ofSig, PVal.isContainer, marshalTy, e, hw]
  | int n =>
    simp only [wireOk, decide_eq_true_eq] at hw
    by_cases h1 : -2147483648 ≤ n ∧ n < 2147483648
    · have h1' : -2147483648 ≤ n ∧ n ≤ 2147483647 := by omega
      have hs' : sigFromPy ⟨none, .int n⟩ = some ['i'] := by simp [sigFromPy, h1]
      simp [encodeVariant, hs', marshalPlain, DTy.ofSig, PVal.isContainer, marshalTy, DTy.intRange, h1']
    · by_cases h2 : -9223372036854775808 ≤ n ∧ n < 9223372036854775808
      · have h2' : -9223372036854775808 ≤ n ∧ n ≤ 9223372036854775807 := by omega
        have hs' : sigFromPy ⟨none, .int n⟩ = some ['x'] := by
          simp [sigFromPy, h1, h2]
        simp [encodeVariant, hs', marshalPlain, DTy.ofSig, PVal.isContainer, marshalTy, DTy.intRange, h2']
      · have hs' : sigFromPy ⟨none, .int n⟩ = some ['t'] := by
          simp [sigFromPy, h1, h2]
        have h3 : (0 : Int) ≤ n ∧ n ≤ 18446744073709551615 := by omega
        simp [encodeVariant, hs', marshalPlain, DTy.ofSig, PVal.isContainer, marshalTy, DTy.intRange, h3]

theorem plain_of_wireOk {v : PVal} (hw : wireOk v = true) : v.plain = v := by
  cases v <;> simp [wireOk] at hw <;> rfl

theorem wrapperOk_of_wireOk {v : PVal} (hw : wireOk v = true) : wrapperOk v = true := by
  cases v <;> simp [wireOk] at hw <;> rfl

theorem hasType_of_wireOk (ty : DTy) {v : PVal} (hw : wireOk v = true) : HasType ty v = HasTypeP ty v := by
  simp [HasType, wrapperOk_of_wireOk hw, plain_of_wireOk hw]

theorem hasType_v (v : PVal) : HasTypeP .v v = wireOk v := by
  cases v <;> simp [HasTypeP, wireOk]

theorem conforms_eq_hasType (sig : Str) (v : PVal) (hm : declarable sig = true)
    (hw : wireOk v = true) : conforms sig v = HasTypeSig sig v := by
  unfold HasTypeSig
  simp only [hasType_of_wireOk _ hw]
  cases h : DTy.ofSig sig with
  | none => simp [declarable, h] at hm
  | some ty =>
    have := ofSig_some h; subst this
    cases ty
    case v =>
      obtain ⟨sg, e⟩ := encodeVariant_raw v hw
      simp [conforms, kindOk, marshalOk, DTy.ofSig, DTy.render, marshalAs, e, hasType_v, hw]
      cases v <;> simp [wireOk] at hw <;> simp [PVal.isContainer]
    case av => simp [declarable, h] at hm
    all_goals
      cases v <;>
      simp [conforms, kindOk, marshalOk, DTy.render, marshalAs, marshalPlain, PVal.isContainer, DTy.ofSig, marshalTy, HasTypeP,
        DTy.intRange, wireOk, noNul, strOk, pathOk_eq_validPath] at hw ⊢
    all_goals try simp_all
    · simp [List.all_eq]
    · intro x hx; simp [strOk, hw x hx]

theorem validPath_noNul {s : Str} (h : validPath s = true) : ¬ Char.ofNat 0 ∈ s := by
  intro hm
  unfold validPath at h
  simp only [Bool.and_eq_true, List.all_eq_true] at h
  have := h.2 _ hm
  revert this
  decide

theorem castClass_raw_of_not_key {sig : Str} (v : PVal)
    (h : ∀ c, sig = [c] → classOf c = none) (hv : ∀ c s, v ≠ .wstr c s) :
    castClass sig v = some ⟨none, v⟩ := by
  unfold castClass
  split
  · rename_i c
    rw [h c rfl]
    by_cases hc : c = 's'
    · subst hc
      cases v <;> first | rfl | (rename_i c' s'; exact absurd rfl (hv c' s'))
    · simp only [hc, if_false]
  · rfl

/-- Get's typing of a plain value of the declared type: the reply carries that very value, in a variant of
exactly the declared type when the type is basic. -/
theorem getReply_of_hasTypeP {sig : Str} {v : PVal}
    (h : (match DTy.ofSig sig with | some ty => HasTypeP ty v | none => false) = true) :
    ∃ sg, getReply sig v = some (sg, v) ∧ (IsBasic sig = true → sg = sig) := by
  cases hs : DTy.ofSig sig with
  | none => simp [hs] at h
  | some ty =>
    rw [hs] at h
    simp only at h
    have := ofSig_some hs; subst this
    -- the types Get leaves to inference: the raw value is marshalled as a variant
    have raw : ∀ (sig : Str), (∀ c, sig = [c] → classOf c = none) → (∀ c s, v ≠ .wstr c s) →
        wireOk v = true → ∀ sg0, sigFromPy ⟨none, v⟩ = some sg0 →
        ∃ sg, getReply sig v = some (sg, v) ∧ sg = sg0 := by
      intro sig hk hv hw sg0 hsg
      obtain ⟨sg, e⟩ := encodeVariant_raw v hw
      refine ⟨sg, ?_, ?_⟩
      · simp [getReply, castClass_raw_of_not_key v hk hv, e]
      · simp only [encodeVariant, hsg, Option.bind_some] at e
        cases hm : marshalPlain sg0 v with
        | none => simp [hm] at e
        | some w => simp [hm] at e; exact e.1.symm
    cases ty
    case s =>
      cases v <;> simp [HasTypeP] at h
      obtain ⟨sg, e, rfl⟩ := raw ['s'] (by intro c hc; cases hc; decide) (by intro c s e; cases e)
        (by simpa [wireOk] using h) ['s'] rfl
      exact ⟨_, e, fun _ => rfl⟩
    case d =>
      cases v <;> simp [HasTypeP] at h
      obtain ⟨sg, e, rfl⟩ := raw ['d'] (by intro c hc; cases hc; decide) (by intro c s e; cases e)
        (by simp [wireOk]) ['d'] rfl
      exact ⟨_, e, fun _ => rfl⟩
    case as =>
      cases v <;> simp [HasTypeP] at h
      rename_i l
      have hw : wireOk (.strs l) = true := by simpa [wireOk] using h
      obtain ⟨sg, e⟩ := encodeVariant_raw (.strs l) hw
      exact ⟨sg, by simp [getReply, castClass, DTy.render, e], by simp [IsBasic, DTy.render]⟩
    case av =>
      cases v <;> simp [HasTypeP] at h
      rename_i l
      cases l with
      | nil =>
        obtain ⟨sg, e⟩ := encodeVariant_raw (.strs []) (by simp [wireOk])
        exact ⟨sg, by simp [getReply, castClass, DTy.render, e], by simp [IsBasic, DTy.render]⟩
      | cons a t => simp [HasTypeP] at h
    case v =>
      have hw : wireOk v = true := by rw [← hasType_v]; exact h
      obtain ⟨sg, e⟩ := encodeVariant_raw v hw
      refine ⟨sg, ?_, by simp [IsBasic, DTy.render]⟩
      have : castClass ['v'] v = some ⟨none, v⟩ :=
        castClass_raw_of_not_key v (by intro c hc; cases hc; decide)
          (by intro c s e; subst e; simp [wireOk] at hw)
      simp [getReply, DTy.render, this, e]
    case o =>
      cases v <;> simp [HasTypeP] at h
      have hn := validPath_noNul h
      simp [getReply, castClass, classOf, dget, Gen.C17Props.classMap, DTy.render, pyStr,
        encodeVariant, sigFromPy, marshalPlain, PVal.isContainer, DTy.ofSig, marshalTy, IsBasic,
        noNul, pathOk_eq_validPath, h, hn]
    case g =>
      cases v <;> simp [HasTypeP] at h
      simp [getReply, castClass, classOf, dget, Gen.C17Props.classMap, DTy.render, pyStr,
        encodeVariant, sigFromPy, marshalPlain, PVal.isContainer, DTy.ofSig, marshalTy, IsBasic, h]
      exact h.1.2
    all_goals
      cases v <;> simp [HasTypeP] at h <;>
      simp [getReply, castClass, classOf, dget, Gen.C17Props.classMap, DTy.render, pyInt,
        encodeVariant, sigFromPy, marshalPlain, PVal.isContainer, DTy.ofSig, marshalTy, DTy.intRange, truthy, IsBasic, h]

/-- A sendable value (wire value or valid wrapper instance) marshals as a variant; the peer decodes its plain
value. -/
theorem encodeVariant_sendable {v : PVal} (h : Sendable v = true) :
    ∃ sg, encodeVariant ⟨none, v⟩ = some (sg, v.plain) := by
  simp only [Sendable, Bool.and_eq_true] at h
  cases v with
  | wint c n =>
    simp only [wrapperOk, Bool.and_eq_true] at h
    cases hs : DTy.ofSig [c] with
    | none => simp [hs] at h
    | some ty =>
      rw [hs] at h
      have hc := ofSig_some hs
      cases ty <;> simp [DTy.render] at hc <;> subst hc <;> simp [PVal.plain, HasTypeP, IsBasic] at h ⊢ <;>
        simp [encodeVariant, sigFromPy, marshalPlain, PVal.isContainer, DTy.ofSig, marshalTy, DTy.intRange, truthy, h]
  | wstr c s =>
    simp only [wrapperOk, Bool.and_eq_true] at h
    cases hs : DTy.ofSig [c] with
    | none => simp [hs] at h
    | some ty =>
      rw [hs] at h
      have hc := ofSig_some hs
      cases ty <;> simp [DTy.render] at hc <;> subst hc <;> simp [PVal.plain, HasTypeP, IsBasic] at h ⊢ <;>
        simp [encodeVariant, sigFromPy, marshalPlain, PVal.isContainer, DTy.ofSig, marshalTy, noNul,
          pathOk_eq_validPath, h]
      · have := h.1; simpa [strOk] using this
      · exact validPath_noNul h.1
      · exact h.1.1.2
  | none => exact encodeVariant_raw _ h.2
  | int n => exact encodeVariant_raw _ h.2
  | bool b => exact encodeVariant_raw _ h.2
  | str s => exact encodeVariant_raw _ h.2
  | dbl b => exact encodeVariant_raw _ h.2
  | strs l => exact encodeVariant_raw _ h.2
  | list l => simp [PVal.plain, wireOk] at h
  | tuple l => simp [PVal.plain, wireOk] at h
  | dict l => simp [PVal.plain, wireOk] at h
  | lists l => simp [PVal.plain, wireOk] at h

/-- Get's typing of a value of the declared type (plain or a valid wrapper instance): the reply carries its
plain value, in a variant of exactly the declared type when the type is basic. -/
theorem getReply_of_hasType {sig : Str} {v : PVal} (h : HasTypeSig sig v = true) :
    ∃ sg, getReply sig v = some (sg, v.plain) ∧ (IsBasic sig = true → sg = sig) := by
  unfold HasTypeSig at h
  cases hs : DTy.ofSig sig with
  | none => simp [hs] at h
  | some ty =>
    rw [hs] at h
    simp only [HasType, Bool.and_eq_true] at h
    have plainCase : ∀ w : PVal, w.plain = w → getReply sig v = getReply sig w → HasTypeP ty w = true →
        v.plain = w → ∃ sg, getReply sig v = some (sg, v.plain) ∧ (IsBasic sig = true → sg = sig) := by
      intro w _ hg hw hp
      obtain ⟨sg, e, hb⟩ := getReply_of_hasTypeP (sig := sig) (v := w) (by rw [hs]; exact hw)
      exact ⟨sg, by rw [hg, hp]; exact e, hb⟩
    have hsig := ofSig_some hs
    cases v with
    | wint c n =>
      cases ty
      case v =>
        subst hsig
        obtain ⟨sg, e⟩ := encodeVariant_sendable (v := .wint c n)
          (by simp only [Sendable, Bool.and_eq_true]; exact ⟨h.1, by rw [← hasType_v]; exact h.2⟩)
        refine ⟨sg, ?_, by simp [IsBasic, DTy.render]⟩
        have : castClass ['v'] (.wint c n) = some ⟨none, .wint c n⟩ :=
          castClass_raw_of_not_key _ (by intro c hc; cases hc; decide) (by intro c s e; cases e)
        simp [getReply, DTy.render, this, e]
      all_goals
        subst hsig
        by_cases hb : c = 'b'
        · subst hb
          simp [PVal.plain, HasTypeP] at h ⊢ <;>
          simp [getReply, castClass, classOf, dget, Gen.C17Props.classMap, DTy.render, pyInt,
            encodeVariant, sigFromPy, marshalPlain, PVal.isContainer, DTy.ofSig, marshalTy, DTy.intRange, truthy, IsBasic]
        · simp [PVal.plain, hb, HasTypeP] at h ⊢ <;>
          simp [getReply, castClass, classOf, dget, Gen.C17Props.classMap, DTy.render, pyInt,
            encodeVariant, sigFromPy, marshalPlain, PVal.isContainer, DTy.ofSig, marshalTy, DTy.intRange, truthy, IsBasic, h]
    | wstr c s =>
      cases ty
      case v =>
        subst hsig
        obtain ⟨sg, e⟩ := encodeVariant_sendable (v := .wstr c s)
          (by simp only [Sendable, Bool.and_eq_true]; exact ⟨h.1, by rw [← hasType_v]; exact h.2⟩)
        refine ⟨sg, ?_, by simp [IsBasic, DTy.render]⟩
        have : castClass ['v'] (.wstr c s) = some ⟨none, .wstr c s⟩ := by
          simp [castClass, classOf, dget, Gen.C17Props.classMap]
        simp [getReply, DTy.render, this, e]
      case s =>
        subst hsig
        exact plainCase (.str s) rfl (by simp [getReply, castClass, classOf, dget, Gen.C17Props.classMap, DTy.render]) h.2 rfl
      case o =>
        subst hsig
        exact plainCase (.str s) rfl (by simp [getReply, castClass, classOf, dget, Gen.C17Props.classMap, DTy.render, pyStr]) h.2 rfl
      case g =>
        subst hsig
        exact plainCase (.str s) rfl (by simp [getReply, castClass, classOf, dget, Gen.C17Props.classMap, DTy.render, pyStr]) h.2 rfl
      all_goals simp [PVal.plain, HasTypeP] at h
    | none => exact plainCase _ rfl rfl h.2 rfl
    | int n => exact plainCase _ rfl rfl h.2 rfl
    | bool b => exact plainCase _ rfl rfl h.2 rfl
    | str s => exact plainCase _ rfl rfl h.2 rfl
    | dbl b => exact plainCase _ rfl rfl h.2 rfl
    | strs l => exact plainCase _ rfl rfl h.2 rfl
    | list l => exact plainCase _ rfl rfl h.2 rfl
    | tuple l => exact plainCase _ rfl rfl h.2 rfl
    | dict l => exact plainCase _ rfl rfl h.2 rfl
    | lists l => exact plainCase _ rfl rfl h.2 rfl

end Txdbus.Obj.Props
