/-
C17 lemmas: the per-class interface caches (`cacheAdd`, `buildCache`), the searches over them, and what
`elaborate` guarantees about a `World`.
-/
import TxdbusModel.Proofs.Obj.PropsDict

namespace Txdbus.Obj.Props

theorem look_cacheAdd (c : IfCache) (b : Bound) (i p : Str) :
    look (cacheAdd c b) i p = if b.iface = i ∧ b.pname = p then some b else look c i p := by
  unfold look cacheAdd
  rw [dget_dset]
  by_cases hi : b.iface = i
  · subst hi
    cases hc : dget c b.iface with
    | none => by_cases hp : b.pname = p <;> simp [hp, dget_dset, dget]
    | some ic => by_cases hp : b.pname = p <;> simp [hp, dget_dset]
  · simp [hi]

theorem look_foldl_some {i p : Str} {b : Bound} (bs : List Bound) (c : IfCache)
    (h : look (bs.foldl cacheAdd c) i p = some b) :
    (b ∈ bs ∧ b.iface = i ∧ b.pname = p) ∨ look c i p = some b := by
  induction bs generalizing c with
  | nil => exact Or.inr h
  | cons x t ih =>
    simp only [List.foldl_cons] at h
    rcases ih _ h with h | h
    · exact Or.inl ⟨List.mem_cons_of_mem _ h.1, h.2⟩
    · rw [look_cacheAdd] at h
      by_cases hx : x.iface = i ∧ x.pname = p
      · rw [if_pos hx] at h
        cases h
        exact Or.inl ⟨List.mem_cons_self, hx⟩
      · rw [if_neg hx] at h
        exact Or.inr h

theorem look_foldl_isSome {i p : Str} (bs : List Bound) (c : IfCache)
    (h : (∃ b ∈ bs, b.iface = i ∧ b.pname = p) ∨ (look c i p).isSome = true) :
    (look (bs.foldl cacheAdd c) i p).isSome = true := by
  induction bs generalizing c with
  | nil =>
    rcases h with ⟨b, hb, _⟩ | h
    · simp at hb
    · exact h
  | cons x t ih =>
    simp only [List.foldl_cons]
    apply ih
    rcases h with ⟨b, hb, hip⟩ | h
    · rcases List.mem_cons.mp hb with rfl | hb
      · right; rw [look_cacheAdd, if_pos hip]; rfl
      · left; exact ⟨b, hb, hip⟩
    · right
      rw [look_cacheAdd]
      split
      · rfl
      · exact h

theorem look_build_some {i p : Str} {b : Bound} {bs : List Bound}
    (h : look (buildCache bs) i p = some b) : b ∈ bs ∧ b.iface = i ∧ b.pname = p := by
  rcases look_foldl_some bs [] h with h | h
  · exact h
  · simp [look, dget] at h

theorem look_build_isSome {i p : Str} {bs : List Bound}
    (h : ∃ b ∈ bs, b.iface = i ∧ b.pname = p) : (look (buildCache bs) i p).isSome = true :=
  look_foldl_isSome bs [] (Or.inl h)

/-! ### the entries `getAllProperties` walks -/

/-- Every entry of every inner dictionary is keyed by its own property name, belongs to the interface the
inner dictionary is stored under, and is one of `S`. -/
def CacheInv (S : List Bound) (c : IfCache) : Prop :=
  ∀ i ic, dget c i = some ic → ∀ e ∈ ic, e.2.pname = e.1 ∧ e.2.iface = i ∧ e.2 ∈ S

theorem cacheInv_nil (S : List Bound) : CacheInv S [] := by
  intro i ic h; simp [dget] at h

theorem cacheInv_add {S : List Bound} {c : IfCache} {b : Bound} (hc : CacheInv S c) (hb : b ∈ S) :
    CacheInv S (cacheAdd c b) := by
  intro i ic h e he
  unfold cacheAdd at h
  rw [dget_dset] at h
  by_cases hi : b.iface = i
  · rw [if_pos hi] at h
    cases h
    rcases mem_dset he with rfl | he
    · exact ⟨rfl, hi, hb⟩
    · cases hd : dget c b.iface with
      | none => simp [hd] at he
      | some ic0 =>
        simp [hd] at he
        exact hc i ic0 (hi ▸ hd) e he
  · rw [if_neg hi] at h
    exact hc i ic h e he

theorem cacheInv_foldl {S : List Bound} (bs : List Bound) (c : IfCache) (hc : CacheInv S c)
    (hb : ∀ b ∈ bs, b ∈ S) : CacheInv S (bs.foldl cacheAdd c) := by
  induction bs generalizing c with
  | nil => exact hc
  | cons x t ih =>
    simp only [List.foldl_cons]
    exact ih _ (cacheInv_add hc (hb x List.mem_cons_self)) fun b h => hb b (List.mem_cons_of_mem _ h)

theorem cacheInv_build (bs : List Bound) : CacheInv bs (buildCache bs) :=
  cacheInv_foldl bs [] (cacheInv_nil bs) fun _ h => h

/-- An entry with key `p` exists in the inner dictionary of `i` as soon as some descriptor of the class is
bound to (i, p). -/
theorem entry_of_bound {i p : Str} {bs : List Bound} (h : ∃ b ∈ bs, b.iface = i ∧ b.pname = p) :
    ∃ b', (p, b') ∈ (dget (buildCache bs) i).getD [] := by
  have := look_build_isSome h
  unfold look at this
  cases hd : dget (buildCache bs) i with
  | none => simp [hd] at this
  | some ic =>
    simp only [hd, Option.bind_some] at this
    cases hp : dget ic p with
    | none => simp [hp] at this
    | some b' => exact ⟨b', by simpa [hd] using mem_of_dget hp⟩

/-! ### what `elaborate` guarantees -/

structure World.Good (W : World) : Prop where
  caches_eq : W.caches = W.levels.map buildCache ++ [baseCache]
  iprop_eq : ∀ b ∈ W.levels.flatten, lookupProp W.ifaces b.iface b.pname = some b.iprop

theorem mem_of_mapM_some {α β : Type} {f : α → Option β} :
    ∀ {l : List α} {r : List β}, l.mapM f = some r → ∀ y ∈ r, ∃ x ∈ l, f x = some y := by
  intro l
  induction l with
  | nil => intro r h y hy; simp at h; subst h; simp at hy
  | cons a t ih =>
    intro r h y hy
    rw [List.mapM_cons] at h
    cases ha : f a with
    | none => simp [ha] at h
    | some b =>
      cases ht : t.mapM f with
      | none => simp [ha, ht] at h
      | some r' =>
        simp [ha, ht] at h
        subst h
        rcases List.mem_cons.mp hy with rfl | hy
        · exact ⟨a, List.mem_cons_self, ha⟩
        · obtain ⟨x, hx, e⟩ := ih ht y hy
          exact ⟨x, List.mem_cons_of_mem _ hx, e⟩

theorem bindDesc_iprop {ifs : List IfaceDef} {d : Desc} {b : Bound} (h : bindDesc ifs d = some b) :
    lookupProp ifs b.iface b.pname = some b.iprop ∧ b.attr = d.attr ∧ b.pname = d.pname := by
  unfold bindDesc at h
  simp only [Option.bind_eq_some_iff, Option.map_eq_some_iff] at h
  obtain ⟨iname, _, ip, hip, rfl⟩ := h
  exact ⟨hip, rfl, rfl⟩

theorem elaborate_good {D : Decls} {W : World} (h : elaborate D = some W) : W.Good := by
  unfold elaborate at h
  simp only [Option.map_eq_some_iff] at h
  obtain ⟨lv, hlv, rfl⟩ := h
  refine ⟨rfl, ?_⟩
  intro b hb
  simp only [List.mem_flatten] at hb
  obtain ⟨bs, hbs, hb⟩ := hb
  obtain ⟨c, _, hc⟩ := mem_of_mapM_some hlv bs hbs
  obtain ⟨d, _, hd⟩ := mem_of_mapM_some hc b hb
  exact (bindDesc_iprop hd).1

/-! ### the searches -/

theorem look_baseCache (i p : Str) : look baseCache i p = none := by
  unfold look baseCache
  simp only [dget]
  split <;> simp [dget]

theorem searchNamed_some {W : World} (hW : W.Good) {i p : Str} {b : Bound}
    (h : searchNamed W.caches i p = some b) :
    b ∈ W.levels.flatten ∧ b.iface = i ∧ b.pname = p := by
  unfold searchNamed at h
  rw [hW.caches_eq] at h
  obtain ⟨c, hc, hl⟩ := List.exists_of_findSome?_eq_some h
  rcases List.mem_append.mp hc with hc | hc
  · obtain ⟨bs, hbs, rfl⟩ := List.mem_map.mp hc
    obtain ⟨hb, hip⟩ := look_build_some hl
    exact ⟨List.mem_flatten.mpr ⟨bs, hbs, hb⟩, hip⟩
  · simp at hc; subst hc
    rw [look_baseCache] at hl; cases hl

theorem searchNamed_isSome {W : World} (hW : W.Good) {i p : Str}
    (h : ∃ b ∈ W.levels.flatten, b.iface = i ∧ b.pname = p) :
    ∃ b, searchNamed W.caches i p = some b := by
  obtain ⟨b, hb, hip⟩ := h
  obtain ⟨bs, hbs, hb⟩ := List.mem_flatten.mp hb
  have h1 := look_build_isSome (i := i) (p := p) ⟨b, hb, hip⟩
  have : (searchNamed W.caches i p).isSome = true := by
    unfold searchNamed
    rw [List.findSome?_isSome_iff]
    refine ⟨buildCache bs, ?_, h1⟩
    rw [hW.caches_eq]
    exact List.mem_append_left _ (List.mem_map.mpr ⟨bs, hbs, rfl⟩)
  exact Option.isSome_iff_exists.mp this

theorem resolveAttr_eq_find (W : World) (a : Str) :
    resolveAttr W a = W.levels.flatten.find? fun b => b.attr = a := by
  unfold resolveAttr
  induction W.levels with
  | nil => rfl
  | cons bs t ih =>
    simp only [List.findSome?_cons, List.flatten_cons, List.find?_append]
    cases bs.find? fun b => b.attr = a with
    | none => simpa using ih
    | some b => rfl

theorem resolveAttr_some {W : World} {a : Str} {b : Bound} (h : resolveAttr W a = some b) :
    b ∈ W.levels.flatten ∧ b.attr = a := by
  rw [resolveAttr_eq_find] at h
  exact ⟨List.mem_of_find?_eq_some h, by simpa using List.find?_some h⟩

theorem resolveAttr_isSome {W : World} {a : Str} (h : ∃ b ∈ W.levels.flatten, b.attr = a) :
    ∃ b, resolveAttr W a = some b := by
  rw [resolveAttr_eq_find]
  obtain ⟨b, hb, ha⟩ := h
  have : (W.levels.flatten.find? fun b => b.attr = a).isSome = true := by
    rw [List.find?_isSome]
    exact ⟨b, hb, by simpa using ha⟩
  exact Option.isSome_iff_exists.mp this

end Txdbus.Obj.Props
