/-
C10 lemmas, part 4: the events of call `k` of a history split into invocation, immediate replies
and replies fired later by its Deferred - by the spec's verdict.
-/
import TxdbusModel.Proofs.Obj.DispatchHistory

namespace Txdbus.Obj.DispatchProofs

open Txdbus.Obj.Dispatch Txdbus.Obj.DispatchSpec

variable {V : Type}

/-- What the first firing of the Deferred of call `k` sends. -/
def laterEvents (env : Env V) (ops : List (Op V)) (k : Nat) (c : Call V) (b : Nat → Outcome V)
    (v : Verdict) : List (Event V) :=
  match callPending k c b v with
  | some p =>
    match firstResolve k (ops.drop (k + 1)) with
    | some res => fire env p res
    | none => []
  | none => []

theorem callEvents_eq (env : Env V) (ex : Exports) (hwf : NamedIfaces ex) (ops : List (Op V)) (k : Nat)
    (c : Call V) (b : Nat → Outcome V) (hk : ops[k]? = some (.call c b)) :
    callEvents env ex ops k =
      callInv c (verdict ex c) ++ callReplies env k c b (verdict ex c) ++
        laterEvents env ops k c b (verdict ex c) := by
  unfold callEvents laterEvents
  rw [hk]
  simp only [handleCall_eq env ex k c b hwf, expectedCall_split]
  cases callPending k c b (verdict ex c) with
  | none => rfl
  | some p => cases firstResolve k (List.drop (k + 1) ops) <;> rfl

theorem replies_append (a b : List (Event V)) : replies (a ++ b) = replies a ++ replies b := by
  simp [replies]

theorem invocations_append (a b : List (Event V)) :
    invocations (a ++ b) = invocations a ++ invocations b := by
  simp [invocations]

theorem pendingOf_serial (k : Nat) (c : Call V) (m : Method) :
    (pendingOf k c m).serial = c.serial ∧ (pendingOf k c m).sender = c.sender := ⟨rfl, rfl⟩

theorem laterEvents_replyish (env : Env V) (ops : List (Op V)) (k : Nat) (c : Call V)
    (b : Nat → Outcome V) (v : Verdict) :
    Replyish c.serial c.sender (laterEvents env ops k c b v) := by
  unfold laterEvents
  cases hp : callPending k c b v with
  | none => exact Or.inl rfl
  | some p =>
    simp only
    obtain ⟨_, _, f, m, _, _, hpm⟩ := callReplies_of_pending env k c b v p hp
    cases firstResolve k (List.drop (k + 1) ops) with
    | none => exact Or.inl rfl
    | some res =>
      have := fire_replyish env p res
      rw [hpm] at this ⊢
      exact this

/-- Replies of call `k`: the immediate ones, then the ones its Deferred fired. -/
theorem replies_callEvents (env : Env V) (ex : Exports) (hwf : NamedIfaces ex) (ops : List (Op V)) (k : Nat)
    (c : Call V) (b : Nat → Outcome V) (hk : ops[k]? = some (.call c b)) :
    replies (callEvents env ex ops k) =
      replies (callReplies env k c b (verdict ex c)) ++ replies (laterEvents env ops k c b (verdict ex c)) := by
  rw [callEvents_eq env ex hwf ops k c b hk, replies_append, replies_append, callInv_replies]
  simp

/-- Invocations of call `k`. -/
theorem invocations_callEvents (env : Env V) (ex : Exports) (hwf : NamedIfaces ex) (ops : List (Op V)) (k : Nat)
    (c : Call V) (b : Nat → Outcome V) (hk : ops[k]? = some (.call c b)) :
    invocations (callEvents env ex ops k) = expectedInvocations c (verdict ex c) := by
  rw [callEvents_eq env ex hwf ops k c b hk, invocations_append, invocations_append,
    (callReplies_replyish env k c b _).invocations, (laterEvents_replyish env ops k c b _).invocations,
    callInv_invocations]
  simp

/-- An operation that is not a call produces no events of its own number. -/
theorem callEvents_not_call (env : Env V) (ex : Exports) (ops : List (Op V)) (k : Nat)
    (h : ∀ c b, ops[k]? ≠ some (.call c b)) : callEvents env ex ops k = [] := by
  unfold callEvents
  cases hk : ops[k]? with
  | none => rfl
  | some op =>
    cases op with
    | resolve j r => rfl
    | call c b => exact absurd hk (h c b)

/-- Either the call was answered before the handler returned and nothing fires later, or nothing
was sent and the reply callbacks wait for the Deferred. -/
theorem immediate_or_later (env : Env V) (ops : List (Op V)) (k : Nat) (c : Call V)
    (b : Nat → Outcome V) (v : Verdict) :
    laterEvents env ops k c b v = [] ∨ callReplies env k c b v = [] := by
  cases hp : callPending k c b v with
  | none => left; simp [laterEvents, hp]
  | some p => right; exact (callReplies_of_pending env k c b v p hp).1

/-- The replies to a dispatched call that expects one: what its result (now, or through the
Deferred) makes `send_reply` / `send_error` send. -/
theorem replies_run (env : Env V) (ex : Exports) (hwf : NamedIfaces ex) (ops : List (Op V)) (k : Nat)
    (c : Call V) (b : Nat → Outcome V) (hk : ops[k]? = some (.call c b)) (f : Func) (m : Method)
    (hv : verdict ex c = .run f m) (he : c.expectReply = true) :
    replies (callEvents env ex ops k) =
      match resultOf ops k (b f.id) with
      | some res => replies (fire env (pendingOf k c m) res)
      | none => [] := by
  rw [replies_callEvents env ex hwf ops k c b hk, hv]
  unfold laterEvents resultOf
  simp only [callReplies, callPending, he, if_true]
  cases b f.id with
  | value r => simp [fire, replies]
  | raise e => simp [fire, replies]
  | deferred =>
    simp only [replies, List.filterMap_nil, List.nil_append]
    cases firstResolve k (List.drop (k + 1) ops) <;> rfl

theorem escapeNul_id (t : Str) (h : '\x00' ∉ t) : escapeNul t = t := by
  unfold escapeNul
  induction t with
  | nil => rfl
  | cons ch tl ih =>
    have h1 : ch ≠ '\x00' := fun hh => h (by simp [hh])
    have h2 : '\x00' ∉ tl := fun hh => h (by simp [hh])
    simp [List.flatMap_cons, h1, ih h2]

theorem verdict_run_iff (ex : Exports) (c : Call V) (f : Func) (m : Method) :
    verdict ex c = .run f m ↔ Runnable ex c f m := by
  constructor
  · intro h
    unfold verdict at h
    by_cases h1 : isPair c peerPair = true
    · simp [h1] at h
    · by_cases h2 : (isPair c introspectPair && nodeKnown ex c.path) = true
      · simp [h1, h2] at h
      · simp only [h1, h2, if_false, Bool.false_eq_true] at h
        cases ho : exported ex c.path with
        | none => simp [ho] at h
        | some o =>
          simp only [ho] at h
          by_cases h3 : isPair c managedPair = true
          · simp [h3] at h
          · simp only [h3, if_false, Bool.false_eq_true] at h
            cases ha : addressed o c with
            | none => simp [ha] at h
            | some im =>
              obtain ⟨i, m'⟩ := im
              simp only [ha] at h
              by_cases hs : c.sig.getD [] = m'.sigIn
              · simp only [hs, ne_eq, not_true_eq_false, if_false] at h
                cases hb : bound o i.name c.member with
                | none => simp [hb] at h
                | some f' =>
                  simp only [hb] at h
                  injection h with hf hm
                  subst hf; subst hm
                  refine ⟨?_, o, i, ho, ha, hs, hb⟩
                  simp [handledByHandler, h1, h2, h3, ho]
              · simp [hs] at h
  · rintro ⟨hh, o, i, ho, ha, hs, hb⟩
    simp only [handledByHandler, ho, Option.isSome_some, Bool.true_and, Bool.or_eq_false_iff] at hh
    obtain ⟨⟨h1, h2⟩, h3⟩ := hh
    unfold verdict
    simp [h1, h2, h3, ho, ha, hs, hb]

/-- The three lookup failures in the statement's terms. -/
theorem verdict_unknownObject_of (ex : Exports) (c : Call V)
    (hh : handledByHandler ex c = false) (ho : exported ex c.path = none) :
    verdict ex c = .unknownObject := by
  simp only [handledByHandler, ho, Option.isSome_none, Bool.false_and, Bool.or_false,
    Bool.or_eq_false_iff] at hh
  obtain ⟨h1, h2⟩ := hh
  unfold verdict
  simp [h1, h2, ho]

theorem verdict_unknownMethod_of (ex : Exports) (c : Call V) (o : Obj)
    (hh : handledByHandler ex c = false) (ho : exported ex c.path = some o)
    (ha : addressed o c = none) :
    verdict ex c = .unknownMethod := by
  simp only [handledByHandler, ho, Option.isSome_some, Bool.true_and, Bool.or_eq_false_iff] at hh
  obtain ⟨⟨h1, h2⟩, h3⟩ := hh
  unfold verdict
  simp [h1, h2, h3, ho, ha]

theorem verdict_invalidArgs_of (ex : Exports) (c : Call V) (o : Obj) (i : Iface) (m : Method)
    (hh : handledByHandler ex c = false) (ho : exported ex c.path = some o)
    (ha : addressed o c = some (i, m)) (hs : c.sig.getD [] ≠ m.sigIn) :
    verdict ex c = .invalidArgs m := by
  simp only [handledByHandler, ho, Option.isSome_some, Bool.true_and, Bool.or_eq_false_iff] at hh
  obtain ⟨⟨h1, h2⟩, h3⟩ := hh
  unfold verdict
  simp [h1, h2, h3, ho, ha, hs]

end Txdbus.Obj.DispatchProofs
