/-
C10 lemmas, part 4: the events of call `k` of a history split into invocation, immediate replies
and replies fired later by its Deferred - by the spec's verdict.
-/
import TxdbusModel.Proofs.Obj.DispatchHistory

namespace Txdbus.Obj.DispatchProofs

open Txdbus.Obj.Dispatch Txdbus.Obj.DispatchSpec

variable {V : Type}

/-- What the first firing of the Deferred of call `k` sends. -/
def laterEvents (env : Env V) (ops : List (Op V)) (k : Nat) (c : Call V) (b : Nat → Outcome V)
    (v : Verdict) : List (Event V) :=
  match callPending k c b v with
  | some p =>
    match firstResolve k (ops.drop (k + 1)) with
    | some res => fire env p res
    | none => []
  | none => []

theorem callEvents_eq (env : Env V) (ex : Exports) (ops : List (Op V)) (k : Nat)
    (c : Call V) (b : Nat → Outcome V) (hk : ops[k]? = some (.call c b)) :
    callEvents env ex ops k =
      callInv c (verdict (exportsAt ex ops k) c) ++ callReplies env k c b (verdict (exportsAt ex ops k) c) ++
        laterEvents env ops k c b (verdict (exportsAt ex ops k) c) := by
  unfold callEvents laterEvents
  rw [hk]
  simp only [handleCall_eq env (exportsAt ex ops k) k c b, expectedCall_split]
  cases callPending k c b (verdict (exportsAt ex ops k) c) with
  | none => rfl
  | some p => cases firstResolve k (List.drop (k + 1) ops) <;> rfl

theorem replies_append (a b : List (Event V)) : replies (a ++ b) = replies a ++ replies b := by
  simp [replies]

theorem invocations_append (a b : List (Event V)) :
    invocations (a ++ b) = invocations a ++ invocations b := by
  simp [invocations]

theorem pendingOf_serial (k : Nat) (c : Call V) (m : Method) :
    (pendingOf k c m).serial = c.serial ∧ (pendingOf k c m).sender = c.sender := ⟨rfl, rfl⟩

theorem laterEvents_replyish (env : Env V) (ops : List (Op V)) (k : Nat) (c : Call V)
    (b : Nat → Outcome V) (v : Verdict) :
    Replyish c.serial c.sender (laterEvents env ops k c b v) := by
  unfold laterEvents
  cases hp : callPending k c b v with
  | none => exact Or.inl rfl
  | some p =>
    simp only
    obtain ⟨_, _, f, m, _, _, hpm⟩ := callReplies_of_pending env k c b v p hp
    cases firstResolve k (List.drop (k + 1) ops) with
    | none => exact Or.inl rfl
    | some res =>
      have := fire_replyish env p res
      rw [hpm] at this ⊢
      exact this

/-- Replies of call `k`: the immediate ones, then the ones its Deferred fired. -/
theorem replies_callEvents (env : Env V) (ex : Exports) (ops : List (Op V)) (k : Nat)
    (c : Call V) (b : Nat → Outcome V) (hk : ops[k]? = some (.call c b)) :
    replies (callEvents env ex ops k) =
      replies (callReplies env k c b (verdict (exportsAt ex ops k) c)) ++ replies (laterEvents env ops k c b (verdict (exportsAt ex ops k) c)) := by
  rw [callEvents_eq env ex ops k c b hk, replies_append, replies_append, callInv_replies]
  simp

/-- Invocations of call `k`. -/
theorem invocations_callEvents (env : Env V) (ex : Exports) (ops : List (Op V)) (k : Nat)
    (c : Call V) (b : Nat → Outcome V) (hk : ops[k]? = some (.call c b)) :
    invocations (callEvents env ex ops k) = expectedInvocations c (verdict (exportsAt ex ops k) c) := by
  rw [callEvents_eq env ex ops k c b hk, invocations_append, invocations_append,
    (callReplies_replyish env k c b _).invocations, (laterEvents_replyish env ops k c b _).invocations,
    callInv_invocations]
  simp

/-- An operation that is not a call produces no events of its own number. -/
theorem callEvents_not_call (env : Env V) (ex : Exports) (ops : List (Op V)) (k : Nat)
    (h : ∀ c b, ops[k]? ≠ some (.call c b)) : callEvents env ex ops k = [] := by
  unfold callEvents
  cases hk : ops[k]? with
  | none => rfl
  | some op =>
    cases op with
    | resolve j r => rfl
    | exportObj pa o => rfl
    | unexportObj pa => rfl
    | call c b => exact absurd hk (h c b)

/-- Either the call was answered before the handler returned and nothing fires later, or nothing
was sent and the reply callbacks wait for the Deferred. -/
theorem immediate_or_later (env : Env V) (ops : List (Op V)) (k : Nat) (c : Call V)
    (b : Nat → Outcome V) (v : Verdict) :
    laterEvents env ops k c b v = [] ∨ callReplies env k c b v = [] := by
  cases hp : callPending k c b v with
  | none => left; simp [laterEvents, hp]
  | some p => right; exact (callReplies_of_pending env k c b v p hp).1

/-- The replies to a dispatched call that expects one: what its result (now, or through the
Deferred) makes `send_reply` / `send_error` send. -/
theorem replies_run (env : Env V) (ex : Exports) (ops : List (Op V)) (k : Nat)
    (c : Call V) (b : Nat → Outcome V) (hk : ops[k]? = some (.call c b)) (f : Func) (m : Method)
    (hv : verdict (exportsAt ex ops k) c = .run f m) (he : c.expectReply = true) :
    replies (callEvents env ex ops k) =
      match resultOf ops k (b f.id) with
      | some res => replies (fire env (pendingOf k c m) res)
      | none => [] := by
  rw [replies_callEvents env ex ops k c b hk, hv]
  unfold laterEvents resultOf
  simp only [callReplies, callPending, he, if_true]
  cases b f.id with
  | value r => simp [fire, replies]
  | raise e => simp [fire, replies]
  | deferred =>
    simp only [replies, List.filterMap_nil, List.nil_append]
    cases firstResolve k (List.drop (k + 1) ops) <;> rfl

theorem replaceChar_id (a : Char) (b t : Str) (h : a ∉ t) : replaceChar a b t = t := by
  unfold replaceChar
  induction t with
  | nil => rfl
  | cons ch tl ih =>
    have h1 : ch ≠ a := fun hh => h (by simp [hh])
    have h2 : a ∉ tl := fun hh => h (by simp [hh])
    simp [List.flatMap_cons, h1, ih h2]

theorem escapeNul_id (t : Str) (h : '\x00' ∉ t) : escapeNul t = t :=
  replaceChar_id _ _ t h

theorem verdict_run_iff (ex : Exports) (c : Call V) (f : Func) (m : Method) :
    verdict ex c = .run f m ↔ Runnable ex c f m := by
  constructor
  · intro h
    unfold verdict at h
    by_cases h1 : isPair c peerPair = true
    · simp [h1] at h
    · by_cases h2 : (isPair c introspectPair && nodeKnown ex c.path) = true
      · simp [h1, h2] at h
      · simp only [h1, h2, if_false, Bool.false_eq_true] at h
        cases ho : exported ex c.path with
        | none => simp [ho] at h
        | some o =>
          simp only [ho] at h
          by_cases h3 : isPair c managedPair = true
          · simp [h3] at h
          · simp only [h3, if_false, Bool.false_eq_true] at h
            cases ha : addressed o c with
            | none => simp [ha] at h
            | some im =>
              obtain ⟨i, m'⟩ := im
              simp only [ha] at h
              by_cases hs : c.sig.getD [] = m'.sigIn
              · simp only [hs, ne_eq, not_true_eq_false, if_false] at h
                cases hb : bound o i.name c.member with
                | none => simp [hb] at h
                | some f' =>
                  simp only [hb] at h
                  injection h with hf hm
                  subst hf; subst hm
                  refine ⟨?_, o, i, ho, ha, hs, hb⟩
                  simp [handledByHandler, h1, h2, h3, ho]
              · simp [hs] at h
  · rintro ⟨hh, o, i, ho, ha, hs, hb⟩
    simp only [handledByHandler, ho, Option.isSome_some, Bool.true_and, Bool.or_eq_false_iff] at hh
    obtain ⟨⟨h1, h2⟩, h3⟩ := hh
    unfold verdict
    simp [h1, h2, h3, ho, ha, hs, hb]

/-- The three lookup failures in the statement's terms. -/
theorem verdict_unknownObject_of (ex : Exports) (c : Call V)
    (hh : handledByHandler ex c = false) (ho : exported ex c.path = none) :
    verdict ex c = .unknownObject := by
  simp only [handledByHandler, ho, Option.isSome_none, Bool.false_and, Bool.or_false,
    Bool.or_eq_false_iff] at hh
  obtain ⟨h1, h2⟩ := hh
  unfold verdict
  simp [h1, h2, ho]

theorem verdict_unknownMethod_of (ex : Exports) (c : Call V) (o : Obj)
    (hh : handledByHandler ex c = false) (ho : exported ex c.path = some o)
    (ha : addressed o c = none) :
    verdict ex c = .unknownMethod := by
  simp only [handledByHandler, ho, Option.isSome_some, Bool.true_and, Bool.or_eq_false_iff] at hh
  obtain ⟨⟨h1, h2⟩, h3⟩ := hh
  unfold verdict
  simp [h1, h2, h3, ho, ha]

theorem verdict_invalidArgs_of (ex : Exports) (c : Call V) (o : Obj) (i : Iface) (m : Method)
    (hh : handledByHandler ex c = false) (ho : exported ex c.path = some o)
    (ha : addressed o c = some (i, m)) (hs : c.sig.getD [] ≠ m.sigIn) :
    verdict ex c = .invalidArgs m := by
  simp only [handledByHandler, ho, Option.isSome_some, Bool.true_and, Bool.or_eq_false_iff] at hh
  obtain ⟨⟨h1, h2⟩, h3⟩ := hh
  unfold verdict
  simp [h1, h2, h3, ho, ha, hs]

/-! ### the text escape read off the source -/

theorem escapeNul_no_nul (t : Str) : '\x00' ∉ escapeNul t := by
  unfold escapeNul replaceChar
  induction t with
  | nil => simp
  | cons ch tl ih =>
    rw [List.flatMap_cons, List.mem_append]
    rintro (h | h)
    · by_cases hc : ch = '\x00'
      · simp [hc] at h
      · simp [hc] at h; exact hc h.symm
    · exact ih h

/-- The source under test carries the escape of repair C10-01 (this is a statement about the
generated table: it fails to check when the line is removed or changed). -/
theorem fixSource_eq_repaired : (fixSource : Str → Option Str) = fixRepaired := by
  funext t
  have h1 : Gen.Dispatch.textEscape = some (0, "\\x00") := by decide
  have h2 : replaceChar (Char.ofNat 0) "\\x00".toList t = escapeNul t := by
    have : "\\x00".toList = ['\\', 'x', '0', '0'] := by decide
    rw [this]; rfl
  unfold fixSource
  rw [h1]
  simp only [h2, fixRepaired]
  have := escapeNul_no_nul t
  simp [this]

/-! ### well-formed histories -/

theorem namedIfaces_dictSet (ex : Exports) (path : Str) (o : Obj) (h : NamedIfaces ex)
    (ho : ∀ i ∈ declared o, i.name ≠ []) : NamedIfaces (dictSet ex path o) := by
  induction ex with
  | nil =>
    intro e he i hi
    simp [dictSet] at he
    subst he
    exact ho i hi
  | cons e t ih =>
    obtain ⟨k', v'⟩ := e
    have ht : NamedIfaces t := fun e he => h e (List.mem_cons_of_mem _ he)
    intro e he i hi
    by_cases hk : k' = path
    · simp only [dictSet, hk, if_true, List.mem_cons] at he
      rcases he with he | he
      · subst he; exact ho i hi
      · exact ht e he i hi
    · simp only [dictSet, hk, if_false, List.mem_cons] at he
      rcases he with he | he
      · subst he; exact h (k', v') (List.mem_cons_self) i hi
      · exact ih ht e he i hi

theorem namedIfaces_dictErase (ex : Exports) (path : Str) (h : NamedIfaces ex) :
    NamedIfaces (dictErase ex path) := by
  intro e he i hi
  exact h e (List.mem_filter.mp he).1 i hi

theorem namedIfaces_exportsAfter (ex : Exports) (ops : List (Op V)) (h : NamedIfaces ex)
    (ho : ∀ path o, Op.exportObj path o ∈ ops → ∀ i ∈ declared o, i.name ≠ []) :
    NamedIfaces (exportsAfter ex ops) := by
  induction ops generalizing ex with
  | nil => exact h
  | cons op t ih =>
    have ht : ∀ path o, Op.exportObj path o ∈ t → ∀ i ∈ declared o, i.name ≠ [] :=
      fun path o hm => ho path o (List.mem_cons_of_mem _ hm)
    cases op with
    | call c b => exact ih ex h ht
    | resolve j r => exact ih ex h ht
    | exportObj pa o =>
      exact ih _ (namedIfaces_dictSet ex pa o h (ho pa o List.mem_cons_self)) ht
    | unexportObj pa => exact ih _ (namedIfaces_dictErase ex pa h) ht

/-- A sufficient condition for `HistoryNamed`: the initial exports and every object exported in
the history have named interfaces. -/
theorem historyNamed_of (ex : Exports) (ops : List (Op V)) (h : NamedIfaces ex)
    (ho : ∀ path o, Op.exportObj path o ∈ ops → ∀ i ∈ declared o, i.name ≠ []) :
    HistoryNamed ex ops := by
  intro k
  exact namedIfaces_exportsAfter ex (ops.take k) h
    (fun path o hm => ho path o (List.mem_of_mem_take hm))

end Txdbus.Obj.DispatchProofs
