import TxdbusModel.Sig.Parse
import TxdbusModel.Proofs.Sig.Split
/-
`render` has a left inverse (the grammar parser), hence is injective: the decomposition of a
signature into complete types is unique.  Core Lean only.
-/
namespace Txdbus

theorem Basic.ofCode_code (c : Basic) : Basic.ofCode? c.code = some c := by
  cases c <;> decide

/-- A rendered type starts with a character that is not a closing bracket. -/
theorem render_head : ∀ t : Ty, ∃ c cs, t.render = c :: cs ∧ c ≠ ')' ∧ c ≠ '}'
  | .basic bc => ⟨bc.code, [], by simp [Ty.render], (Basic.code_ne bc).2.1, (Basic.code_ne bc).2.2.2.1⟩
  | .variant => ⟨'v', [], by simp [Ty.render], by decide, by decide⟩
  | .array e => ⟨'a', e.render, by simp [Ty.render], by decide, by decide⟩
  | .struct fs => ⟨'(', renderAll fs ++ [')'], by simp [Ty.render], by decide, by decide⟩
  | .dict k v => ⟨'{', k.render ++ v.render ++ ['}'], by simp [Ty.render], by decide, by decide⟩

/-- What may follow a type list for `parseManyF` to stop there. -/
def StopsMany (rest : List Char) : Prop := rest = [] ∨ ∃ r, rest = ')' :: r ∨ rest = '}' :: r

theorem parseManyF_stop (fuel : Nat) (rest : List Char) (h : StopsMany rest) :
    parseManyF (fuel + 1) rest = some ([], rest) := by
  rcases h with rfl | ⟨r, rfl | rfl⟩ <;> simp [parseManyF]

mutual
theorem parseTyF_render : ∀ (t : Ty) (fuel : Nat) (rest : List Char), t.render.length ≤ fuel →
    parseTyF fuel (t.render ++ rest) = some (t, rest)
  | .basic bc, fuel, rest, h => by
      obtain ⟨f, rfl⟩ : ∃ f, fuel = f + 1 := ⟨fuel - 1, by simp [Ty.render] at h; omega⟩
      have := Basic.code_ne bc
      simp [Ty.render, parseTyF, this, Basic.ofCode_code]
  | .variant, fuel, rest, h => by
      obtain ⟨f, rfl⟩ : ∃ f, fuel = f + 1 := ⟨fuel - 1, by simp [Ty.render] at h; omega⟩
      simp [Ty.render, parseTyF]
  | .array e, fuel, rest, h => by
      obtain ⟨f, rfl⟩ : ∃ f, fuel = f + 1 := ⟨fuel - 1, by simp [Ty.render] at h; omega⟩
      have ih := parseTyF_render e f rest (by simp [Ty.render] at h; omega)
      simp [Ty.render, parseTyF, ih]
  | .struct fs, fuel, rest, h => by
      obtain ⟨f, rfl⟩ : ∃ f, fuel = f + 1 := ⟨fuel - 1, by simp [Ty.render] at h; omega⟩
      have ih := parseManyF_render fs f (')' :: rest) (by simp [Ty.render] at h; omega)
        (Or.inr ⟨rest, Or.inl rfl⟩)
      simp [Ty.render, parseTyF, ih]
  | .dict k v, fuel, rest, h => by
      obtain ⟨f, rfl⟩ : ∃ f, fuel = f + 1 := ⟨fuel - 1, by simp [Ty.render] at h; omega⟩
      have ihk := parseTyF_render k f (v.render ++ '}' :: rest) (by simp [Ty.render] at h; omega)
      have ihv := parseTyF_render v f ('}' :: rest) (by simp [Ty.render] at h; omega)
      simp [Ty.render, parseTyF, ihk, ihv]
theorem parseManyF_render : ∀ (ts : List Ty) (fuel : Nat) (rest : List Char),
    (renderAll ts).length + 1 ≤ fuel → StopsMany rest →
    parseManyF fuel (renderAll ts ++ rest) = some (ts, rest)
  | [], fuel, rest, h, hs => by
      obtain ⟨f, rfl⟩ : ∃ f, fuel = f + 1 := ⟨fuel - 1, by omega⟩
      simpa [renderAll] using parseManyF_stop f rest hs
  | t :: ts, fuel, rest, h, hs => by
      obtain ⟨f, rfl⟩ : ∃ f, fuel = f + 1 := ⟨fuel - 1, by omega⟩
      have hpos := render_length_pos t
      simp only [renderAll, List.length_append] at h
      have ih1 := parseTyF_render t f (renderAll ts ++ rest) (by omega)
      have ih2 := parseManyF_render ts f rest (by omega) hs
      obtain ⟨c, cs, hc, h1, h2⟩ := render_head t
      simp only [renderAll, List.append_assoc]
      rw [hc] at ih1 ⊢
      simp only [List.cons_append] at ih1 ⊢
      simp [parseManyF, h1, h2, ih1, ih2]
end

/-- The grammar parser inverts rendering: the decomposition into complete types is unique. -/
theorem parseTypes_renderAll (ts : List Ty) : parseTypes (renderAll ts) = some ts := by
  have := parseManyF_render ts ((renderAll ts).length + 1) [] (Nat.le_refl _) (Or.inl rfl)
  simp only [List.append_nil] at this
  simp [parseTypes, this]

theorem parseType_render (t : Ty) : parseType t.render = some t := by
  have := parseTyF_render t t.render.length [] (Nat.le_refl _)
  simp only [List.append_nil] at this
  simp [parseType, this]

theorem renderAll_injective {ts us : List Ty} (h : renderAll ts = renderAll us) : ts = us := by
  have h1 := parseTypes_renderAll ts
  rw [h, parseTypes_renderAll] at h1
  exact (Option.some.inj h1).symm

theorem render_injective {t u : Ty} (h : t.render = u.render) : t = u := by
  have h1 := parseType_render t
  rw [h, parseType_render] at h1
  exact (Option.some.inj h1).symm

theorem renderAll_append (ts us : List Ty) : renderAll (ts ++ us) = renderAll ts ++ renderAll us := by
  induction ts with
  | nil => simp [renderAll]
  | cons t ts ih => simp [renderAll, ih]

theorem renderAll_eq_flatten (ts : List Ty) : renderAll ts = (ts.map Ty.render).flatten := by
  induction ts with
  | nil => simp [renderAll]
  | cons t ts ih => simp [renderAll, ih]

end Txdbus
