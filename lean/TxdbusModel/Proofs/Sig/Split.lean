import TxdbusModel.Sig.Split
/-
Lemmas about the splitter model (`Sig/Split.lean`) on rendered types.  Hypothesis-free: any list of
types, any nesting depth, validity not needed (`find_end` only needs its own bracket pair balanced,
which rendering guarantees).  Core Lean only.
-/
namespace Txdbus

/-! ### `find_end` over rendered types -/

/-- `Option.map (· + n)`, kept opaque to `simp` so that shifts compose by `shift_shift`. -/
def shift (o : Option Nat) (n : Nat) : Option Nat := o.map (· + n)

@[simp] theorem shift_shift (o : Option Nat) (a b : Nat) : shift (shift o a) b = shift o (a + b) := by
  cases o <;> simp [shift, Nat.add_assoc]
@[simp] theorem shift_some (x n : Nat) : shift (some x) n = some (x + n) := rfl
@[simp] theorem shift_none (n : Nat) : shift none n = none := rfl
theorem shift_zero (o : Option Nat) : shift o 0 = o := by cases o <;> simp [shift]

/-- `findEnd` restated with `shift` (same function). -/
def findEnd' (b e : Char) : Nat → List Char → Option Nat
  | _, [] => none
  | d, c :: cs =>
    if c = b then shift (findEnd' b e (d + 1) cs) 1
    else if c = e then (if d = 1 then some 0 else shift (findEnd' b e (d - 1) cs) 1)
    else shift (findEnd' b e d cs) 1

theorem findEnd_eq (b e : Char) : ∀ d s, findEnd b e d s = findEnd' b e d s := by
  intro d s
  induction s generalizing d with
  | nil => rfl
  | cons c cs ih => simp [findEnd, findEnd', ih, shift]

theorem fe_other (b e c : Char) (d : Nat) (cs : List Char) (h1 : c ≠ b) (h2 : c ≠ e) :
    findEnd' b e d (c :: cs) = shift (findEnd' b e d cs) 1 := by
  simp [findEnd', h1, h2]
theorem fe_open (b e : Char) (d : Nat) (cs : List Char) :
    findEnd' b e d (b :: cs) = shift (findEnd' b e (d + 1) cs) 1 := by
  simp [findEnd']
theorem fe_close (b e : Char) (d : Nat) (cs : List Char) (hbe : e ≠ b) (hd : d ≠ 1) :
    findEnd' b e d (e :: cs) = shift (findEnd' b e (d - 1) cs) 1 := by
  simp [findEnd', hbe, hd]
theorem fe_close1 (b e : Char) (cs : List Char) (hbe : e ≠ b) :
    findEnd' b e 1 (e :: cs) = some 0 := by
  simp [findEnd', hbe]

mutual
/-- Key lemma: scanning a rendered type at depth `d > 0` leaves the depth unchanged and never
closes, for either bracket pair. -/
theorem findEnd_ty (b e : Char) (hb : (b = '(' ∧ e = ')') ∨ (b = '{' ∧ e = '}')) :
    ∀ (t : Ty) (d : Nat) (rest : List Char), 0 < d →
      findEnd' b e d (t.render ++ rest) = shift (findEnd' b e d rest) t.render.length
  | .basic c, d, rest, hd => by
      have := Basic.code_ne c
      rcases hb with ⟨rfl, rfl⟩ | ⟨rfl, rfl⟩ <;>
        simp [Ty.render, fe_other, this]
  | .variant, d, rest, hd => by
      rcases hb with ⟨rfl, rfl⟩ | ⟨rfl, rfl⟩ <;> simp [Ty.render, fe_other]
  | .array el, d, rest, hd => by
      have ih := findEnd_ty b e hb el d rest hd
      rcases hb with ⟨rfl, rfl⟩ | ⟨rfl, rfl⟩ <;>
        simp [Ty.render, fe_other, ih]
  | .struct fs, d, rest, hd => by
      have ih := findEnd_tys b e hb fs
      rcases hb with ⟨rfl, rfl⟩ | ⟨rfl, rfl⟩
      · simp only [Ty.render, List.cons_append, List.append_assoc, fe_open]
        rw [ih (d+1) _ (by omega), fe_close _ _ _ _ (by decide) (by omega)]
        simp; congr 1; omega
      · simp only [Ty.render, List.cons_append, List.append_assoc]
        rw [fe_other _ _ _ _ _ (by decide) (by decide), ih d _ hd,
            fe_other _ _ _ _ _ (by decide) (by decide)]
        simp; congr 1; omega
  | .dict k v, d, rest, hd => by
      have ihk := findEnd_ty b e hb k
      have ihv := findEnd_ty b e hb v
      rcases hb with ⟨rfl, rfl⟩ | ⟨rfl, rfl⟩
      · simp only [Ty.render, List.cons_append, List.append_assoc]
        rw [fe_other _ _ _ _ _ (by decide) (by decide), ihk d _ hd, ihv d _ hd,
            fe_other _ _ _ _ _ (by decide) (by decide)]
        simp; congr 1; omega
      · simp only [Ty.render, List.cons_append, List.append_assoc, fe_open]
        rw [ihk (d+1) _ (by omega), ihv (d+1) _ (by omega), fe_close _ _ _ _ (by decide) (by omega)]
        simp; congr 1; omega
theorem findEnd_tys (b e : Char) (hb : (b = '(' ∧ e = ')') ∨ (b = '{' ∧ e = '}')) :
    ∀ (ts : List Ty) (d : Nat) (rest : List Char), 0 < d →
      findEnd' b e d (renderAll ts ++ rest) = shift (findEnd' b e d rest) (renderAll ts).length
  | [], d, rest, hd => by cases h : findEnd' b e d rest <;> simp [renderAll, h]
  | t :: ts, d, rest, hd => by
      have ih1 := findEnd_ty b e hb t
      have ih2 := findEnd_tys b e hb ts
      simp only [renderAll, List.append_assoc]
      rw [ih1 d _ hd, ih2 d _ hd]
      simp; congr 1; omega
end

/-- The struct body: the scan started after `(` stops exactly at the matching `)`. -/
theorem findEnd_struct_body (fs : List Ty) (rest : List Char) :
    findEnd '(' ')' 1 (renderAll fs ++ ')' :: rest) = some (renderAll fs).length := by
  rw [findEnd_eq, findEnd_tys '(' ')' (Or.inl ⟨rfl, rfl⟩) fs 1 _ (by omega), fe_close1 _ _ _ (by decide)]
  simp

theorem findEnd_dict_body (k v : Ty) (rest : List Char) :
    findEnd '{' '}' 1 (k.render ++ (v.render ++ '}' :: rest)) = some (k.render.length + v.render.length) := by
  rw [findEnd_eq, findEnd_ty '{' '}' (Or.inr ⟨rfl, rfl⟩) k 1 _ (by omega),
      findEnd_ty '{' '}' (Or.inr ⟨rfl, rfl⟩) v 1 _ (by omega), fe_close1 _ _ _ (by decide)]
  simp; omega

/-! ### one generator step on a rendered type -/

theorem take_append_cons (l : List Char) (c : Char) (r : List Char) :
    (l ++ c :: r).take (l.length + 1) = l ++ [c] := by
  induction l with
  | nil => simp
  | cons a l ih => simpa using ih

theorem drop_append_cons (l : List Char) (c : Char) (r : List Char) :
    (l ++ c :: r).drop (l.length + 1) = r := by
  induction l with
  | nil => simp
  | cons a l ih => simp [ih]

/-- `next(genCompleteTypes(render t ++ rest))` yields exactly `render t` and leaves `rest`. -/
theorem firstType_render : ∀ (t : Ty) (rest : List Char),
    firstType (t.render ++ rest) = .ok (t.render, rest)
  | .basic c, rest => by
      have := Basic.code_ne c
      simp [Ty.render, firstType, this]
  | .variant, rest => by simp [Ty.render, firstType]
  | .array el, rest => by
      have ih := firstType_render el rest
      simp [Ty.render, firstType, ih]
  | .struct fs, rest => by
      simp only [Ty.render, List.cons_append, List.append_assoc, firstType]
      rw [findEnd_struct_body]
      simp [take_append_cons]
  | .dict k v, rest => by
      simp only [Ty.render, List.cons_append, List.append_assoc, firstType]
      rw [findEnd_dict_body]
      have h1 := take_append_cons (k.render ++ v.render) '}' rest
      have h2 := drop_append_cons (k.render ++ v.render) '}' rest
      simp only [List.length_append, List.append_assoc] at h1 h2
      simp [h1, h2]

theorem render_ne_nil : ∀ t : Ty, t.render ≠ []
  | .basic _ => by simp [Ty.render]
  | .variant => by simp [Ty.render]
  | .array _ => by simp [Ty.render]
  | .struct _ => by simp [Ty.render]
  | .dict _ _ => by simp [Ty.render]

theorem render_length_pos (t : Ty) : 0 < t.render.length :=
  List.length_pos_iff.mpr (render_ne_nil t)

/-! ### the whole generator on a rendered type list -/

theorem splitFuel_renderAll : ∀ (ts : List Ty) (n : Nat), (renderAll ts).length ≤ n →
    splitFuel n (renderAll ts) = .ok (ts.map Ty.render)
  | [], n, _ => by cases n <;> simp [renderAll, splitFuel]
  | t :: ts, n, h => by
      have hpos := render_length_pos t
      simp only [renderAll, List.length_append] at h
      obtain ⟨m, rfl⟩ : ∃ m, n = m + 1 := ⟨n - 1, by omega⟩
      have ih := splitFuel_renderAll ts m (by omega)
      have hf := firstType_render t (renderAll ts)
      cases hr : t.render ++ renderAll ts with
      | nil => simp [render_ne_nil t] at hr
      | cons c cs =>
        rw [hr] at hf
        simp [renderAll, hr, splitFuel, hf, ih]

/-- `list(genCompleteTypes(render ts)) == [render t for t in ts]`. -/
theorem genCompleteTypes_renderAll (ts : List Ty) :
    genCompleteTypes (renderAll ts) = .ok (ts.map Ty.render) :=
  splitFuel_renderAll ts _ (Nat.le_refl _)

theorem renderAll_singleton (t : Ty) : renderAll [t] = t.render := by simp [renderAll]

theorem genCompleteTypes_render (t : Ty) : genCompleteTypes t.render = .ok [t.render] := by
  have := genCompleteTypes_renderAll [t]
  rwa [renderAll_singleton] at this

theorem countCompleteTypes_renderAll (ts : List Ty) :
    countCompleteTypes (renderAll ts) = .ok ts.length := by
  simp [countCompleteTypes, genCompleteTypes_renderAll, Except.map]

theorem lazyFuel_renderAll : ∀ (ts : List Ty) (n : Nat), (renderAll ts).length ≤ n →
    lazyFuel n (renderAll ts) = (ts.map Ty.render, none)
  | [], n, _ => by cases n <;> simp [renderAll, lazyFuel]
  | t :: ts, n, h => by
      have hpos := render_length_pos t
      simp only [renderAll, List.length_append] at h
      obtain ⟨m, rfl⟩ : ∃ m, n = m + 1 := ⟨n - 1, by omega⟩
      have ih := lazyFuel_renderAll ts m (by omega)
      have hf := firstType_render t (renderAll ts)
      cases hr : t.render ++ renderAll ts with
      | nil => simp [render_ne_nil t] at hr
      | cons c cs =>
        rw [hr] at hf
        simp [renderAll, hr, lazyFuel, hf, ih]

/-- A lazy consumer of the generator sees exactly the rendered types and no exception. -/
theorem lazyPieces_renderAll (ts : List Ty) :
    lazyPieces (renderAll ts) = (ts.map Ty.render, none) :=
  lazyFuel_renderAll ts _ (Nat.le_refl _)

/-! ### concatenation: on ANY input, the pieces of a successful split concatenate to the input -/

theorem firstType_concat : ∀ (s ct rest : List Char), firstType s = .ok (ct, rest) →
    ct ++ rest = s ∧ ct ≠ []
  | [], ct, rest, h => by simp [firstType] at h
  | c :: cs, ct, rest, h => by
    unfold firstType at h
    split at h
    · split at h
      · cases h; simp [List.take_append_drop]
      · cases h
    · split at h
      · split at h
        · cases h; simp [List.take_append_drop]
        · cases h
      · split at h
        · split at h
          · rename_i ct' rest' heq
            have := firstType_concat cs ct' rest' heq
            cases h
            simp_all
          · cases h
        · cases h; simp

theorem splitFuel_concat : ∀ (n : Nat) (s : List Char) (ps : List (List Char)),
    s.length ≤ n → splitFuel n s = .ok ps → ps.flatten = s
  | 0, [], ps, _, h => by simp [splitFuel] at h; subst h; rfl
  | 0, _ :: _, _, hl, _ => by simp at hl
  | n + 1, [], ps, _, h => by simp [splitFuel] at h; subst h; rfl
  | n + 1, c :: cs, ps, hl, h => by
    unfold splitFuel at h
    split at h
    · cases h
    · rename_i ct rest hf
      split at h
      · cases h
      · rename_i cts hs
        cases h
        have hc := firstType_concat (c :: cs) ct rest hf
        have hlen : rest.length ≤ n := by
          have h1 : (ct ++ rest).length = (c :: cs).length := by rw [hc.1]
          have h2 : 0 < ct.length := List.length_pos_iff.mpr hc.2
          simp only [List.length_append, List.length_cons] at h1 hl
          omega
        have ih := splitFuel_concat n rest cts hlen hs
        simp [ih, hc.1]

theorem genCompleteTypes_concat (s : List Char) (ps : List (List Char))
    (h : genCompleteTypes s = .ok ps) : ps.flatten = s :=
  splitFuel_concat s.length s ps (Nat.le_refl _) h

/-- More step budget than the length changes nothing (the budget is an artefact of the model). -/
theorem splitFuel_enough : ∀ (n : Nat) (s : List Char), s.length ≤ n →
    splitFuel n s = splitFuel s.length s
  | 0, [], _ => rfl
  | 0, _ :: _, hl => by simp at hl
  | n + 1, [], _ => by simp [splitFuel]
  | n + 1, c :: cs, hl => by
    simp only [List.length_cons, splitFuel]
    cases hf : firstType (c :: cs) with
    | error e => rfl
    | ok p =>
      obtain ⟨ct, rest⟩ := p
      have hc := firstType_concat (c :: cs) ct rest hf
      have h1 : (ct ++ rest).length = (c :: cs).length := by rw [hc.1]
      have h2 : 0 < ct.length := List.length_pos_iff.mpr hc.2
      simp only [List.length_append, List.length_cons] at h1 hl
      have e1 := splitFuel_enough n rest (by omega)
      have e2 := splitFuel_enough cs.length rest (by omega)
      simp only [e1, e2]


end Txdbus
