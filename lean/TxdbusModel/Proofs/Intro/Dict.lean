import TxdbusModel.Intro.Xml
/-
Lemmas about the name-keyed dict model (`dget`, `dset`), `sortStrs` and `sortedValues`.
Core Lean only.
-/
namespace Txdbus.Intro

variable {α : Type}

theorem dget_some {nm : α → Str} {l : List α} {k : Str} {x : α} (h : dget nm l k = some x) :
    x ∈ l ∧ nm x = k := by
  induction l with
  | nil => simp [dget] at h
  | cons y ys ih =>
    simp only [dget] at h
    split at h
    · cases h; simp_all
    · have := ih h; simp [this]

theorem dget_none_iff {nm : α → Str} {l : List α} {k : Str} : dget nm l k = none ↔ k ∉ l.map nm := by
  induction l with
  | nil => simp [dget]
  | cons y ys ih =>
    simp only [dget, List.map_cons, List.mem_cons, not_or]
    split
    · rename_i h; simp [h]
    · rename_i h; rw [ih]; constructor
      · intro h2; exact ⟨fun e => h e.symm, h2⟩
      · intro h2; exact h2.2

theorem dget_isSome_of_mem {nm : α → Str} {l : List α} {k : Str} (h : k ∈ l.map nm) :
    ∃ x, dget nm l k = some x := by
  cases hd : dget nm l k with
  | some x => exact ⟨x, rfl⟩
  | none => exact absurd h (dget_none_iff.mp hd)

theorem eq_of_nodup_names {nm : α → Str} {l : List α} (hn : (l.map nm).Nodup) {x y : α}
    (hx : x ∈ l) (hy : y ∈ l) (h : nm x = nm y) : x = y := by
  induction l with
  | nil => cases hx
  | cons z zs ih =>
    simp only [List.map_cons, List.nodup_cons, List.mem_map, not_exists, not_and] at hn
    rcases List.mem_cons.mp hx with rfl | hx' <;> rcases List.mem_cons.mp hy with rfl | hy'
    · rfl
    · exact absurd h.symm (hn.1 y hy')
    · exact absurd h (hn.1 x hx')
    · exact ih hn.2 hx' hy'

theorem dget_of_mem {nm : α → Str} {l : List α} (hn : (l.map nm).Nodup) {x : α} (hx : x ∈ l) :
    dget nm l (nm x) = some x := by
  obtain ⟨y, hy⟩ := dget_isSome_of_mem (nm := nm) (l := l) (k := nm x) (List.mem_map.mpr ⟨x, hx, rfl⟩)
  have := dget_some hy
  rw [hy, eq_of_nodup_names hn this.1 hx this.2]

theorem dset_append_new {nm : α → Str} {l : List α} {v : α} (h : nm v ∉ l.map nm) :
    dset nm l v = l ++ [v] := by
  induction l with
  | nil => rfl
  | cons y ys ih =>
    simp only [List.map_cons, List.mem_cons, not_or] at h
    simp only [dset, List.cons_append]
    rw [if_neg (fun e => h.1 e.symm), ih h.2]

theorem foldl_dset_nodup {nm : α → Str} (l acc : List α) (h : ((acc ++ l).map nm).Nodup) :
    l.foldl (dset nm) acc = acc ++ l := by
  induction l generalizing acc with
  | nil => simp
  | cons x xs ih =>
    have hx : nm x ∉ acc.map nm := by
      simp only [List.map_append, List.map_cons] at h
      have := (List.nodup_append.mp h).2.2
      intro hmem
      exact this _ hmem _ (List.mem_cons_self) rfl
    simp only [List.foldl_cons]
    rw [dset_append_new hx, ih]
    · simp
    · simpa using h

/-! ### sorting -/

theorem insertStr_perm (x : Str) (l : List Str) : (insertStr x l).Perm (x :: l) := by
  induction l with
  | nil => exact List.Perm.refl _
  | cons y ys ih =>
    simp only [insertStr]
    split
    · exact List.Perm.refl _
    · exact ((List.Perm.cons y ih).trans (List.Perm.swap x y ys))

theorem sortStrs_perm (l : List Str) : (sortStrs l).Perm l := by
  induction l with
  | nil => exact List.Perm.refl _
  | cons x xs ih => exact (insertStr_perm x _).trans (List.Perm.cons x ih)

theorem filterMap_dget_names {nm : α → Str} {d : List α} (ks : List Str) (h : ∀ k ∈ ks, k ∈ d.map nm) :
    (ks.filterMap (dget nm d)).map nm = ks := by
  induction ks with
  | nil => rfl
  | cons k ks ih =>
    obtain ⟨x, hx⟩ := dget_isSome_of_mem (h k List.mem_cons_self)
    simp only [List.filterMap_cons, hx, List.map_cons]
    rw [(dget_some hx).2, ih (fun k' hk' => h k' (List.mem_cons_of_mem _ hk'))]

theorem sortedValues_names (nm : α → Str) (d : List α) :
    (sortedValues nm d).map nm = sortStrs (d.map nm) :=
  filterMap_dget_names _ (fun _ hk => (sortStrs_perm _).mem_iff.mp hk)

theorem sortedValues_nodup {nm : α → Str} {d : List α} (h : (d.map nm).Nodup) :
    ((sortedValues nm d).map nm).Nodup := by
  rw [sortedValues_names]; exact (sortStrs_perm _).nodup_iff.mpr h

theorem sortedValues_mem {nm : α → Str} {d : List α} {x : α} (h : x ∈ sortedValues nm d) : x ∈ d := by
  simp only [sortedValues, List.mem_filterMap] at h
  obtain ⟨k, _, hk⟩ := h
  exact (dget_some hk).1

/-- sorting the members does not change what a lookup by name finds -/
theorem dget_sortedValues {nm : α → Str} {d : List α} (h : (d.map nm).Nodup) (k : Str) :
    dget nm (sortedValues nm d) k = dget nm d k := by
  cases hd : dget nm d k with
  | none =>
    rw [dget_none_iff] at hd ⊢
    rw [sortedValues_names]
    exact fun hm => hd ((sortStrs_perm _).mem_iff.mp hm)
  | some x =>
    have hx := dget_some hd
    have hk : k ∈ (sortedValues nm d).map nm := by
      rw [sortedValues_names]
      exact (sortStrs_perm _).mem_iff.mpr (List.mem_map.mpr ⟨x, hx.1, hx.2⟩)
    obtain ⟨y, hy⟩ := dget_isSome_of_mem hk
    have hy' := dget_some hy
    rw [hy, eq_of_nodup_names h (sortedValues_mem hy'.1) hx.1 (hy'.2.trans hx.2.symm)]

/-- every member is listed exactly once by `sortedValues` (as a permutation) -/
theorem sortedValues_perm {nm : α → Str} {d : List α} (h : (d.map nm).Nodup) :
    ∀ x, x ∈ sortedValues nm d ↔ x ∈ d := by
  intro x
  constructor
  · exact sortedValues_mem
  · intro hx
    have := dget_of_mem h hx
    rw [← dget_sortedValues h] at this
    exact (dget_some this).1

/-! ### `dset` keeps names distinct (so every reachable dict satisfies the `Nodup` hypotheses) -/

theorem dset_names_mem {nm : α → Str} {l : List α} {v : α} {k : Str} :
    k ∈ (dset nm l v).map nm ↔ k ∈ l.map nm ∨ k = nm v := by
  induction l with
  | nil => simp [dset]
  | cons y ys ih =>
    simp only [dset]
    split
    · rename_i he
      simp only [List.map_cons, List.mem_cons, he]
      constructor
      · rintro (h | h)
        · exact Or.inr h
        · exact Or.inl (Or.inr h)
      · rintro ((h | h) | h)
        · exact Or.inl h
        · exact Or.inr h
        · exact Or.inl h
    · simp only [List.map_cons, List.mem_cons, ih]
      constructor
      · rintro (h | h | h)
        · exact Or.inl (Or.inl h)
        · exact Or.inl (Or.inr h)
        · exact Or.inr h
      · rintro ((h | h) | h)
        · exact Or.inl h
        · exact Or.inr (Or.inl h)
        · exact Or.inr (Or.inr h)

theorem dset_nodup {nm : α → Str} {l : List α} (v : α) (h : (l.map nm).Nodup) :
    ((dset nm l v).map nm).Nodup := by
  induction l with
  | nil => simp [dset]
  | cons y ys ih =>
    simp only [List.map_cons, List.nodup_cons] at h
    simp only [dset]
    split
    · rename_i he
      simp only [List.map_cons, List.nodup_cons]
      exact ⟨he ▸ h.1, h.2⟩
    · rename_i he
      simp only [List.map_cons, List.nodup_cons]
      refine ⟨?_, ih h.2⟩
      intro hm
      rcases dset_names_mem.mp hm with hm | hm
      · exact h.1 hm
      · exact he hm

theorem ddel_nodup {nm : α → Str} {l l' : List α} {k : Str} (h : (l.map nm).Nodup)
    (hd : ddel nm l k = some l') : (l'.map nm).Nodup ∧ ∀ x ∈ l', x ∈ l := by
  induction l generalizing l' with
  | nil => simp [ddel] at hd
  | cons y ys ih =>
    simp only [List.map_cons, List.nodup_cons] at h
    simp only [ddel] at hd
    split at hd
    · cases hd; exact ⟨h.2, fun x hx => List.mem_cons_of_mem _ hx⟩
    · cases hr : ddel nm ys k with
      | none => simp [hr] at hd
      | some r =>
        simp only [hr, Option.map_some, Option.some.injEq] at hd
        subst hd
        have := ih h.2 hr
        refine ⟨?_, ?_⟩
        · simp only [List.map_cons, List.nodup_cons]
          refine ⟨fun hm => h.1 ?_, this.1⟩
          obtain ⟨x, hx, hxe⟩ := List.mem_map.mp hm
          exact List.mem_map.mpr ⟨x, this.2 x hx, hxe⟩
        · intro x hx
          rcases List.mem_cons.mp hx with rfl | hx
          · exact List.mem_cons_self
          · exact List.mem_cons_of_mem _ (this.2 x hx)

end Txdbus.Intro
