import TxdbusModel.Proofs.Intro.Dict
/-
`sortStrs` really sorts (the "sorted members" of `_getXml`): its output is ordered by `strLe`, Python's
code-point-lexicographic `str` order.  Not needed for the round trip (any permutation would do), it pins
the order of the generated events.
Core Lean only.
-/
namespace Txdbus.Intro

theorem strLe_total : ∀ a b : Str, strLe a b = true ∨ strLe b a = true
  | [], _ => Or.inl rfl
  | _ :: _, [] => Or.inr rfl
  | a :: as, b :: bs => by
    simp only [strLe]
    by_cases h1 : a.toNat < b.toNat
    · simp [h1]
    · by_cases h2 : b.toNat < a.toNat
      · simp [h2]
      · have : a = b := Char.ext (UInt32.toNat_inj.mp (by simp only [Char.toNat] at h1 h2; omega))
        subst this
        simp [strLe_total as bs]

theorem strLe_trans : ∀ a b c : Str, strLe a b = true → strLe b c = true → strLe a c = true
  | [], _, _, _, _ => rfl
  | _ :: _, [], _, h, _ => by simp [strLe] at h
  | _ :: _, _ :: _, [], _, h => by simp [strLe] at h
  | a :: as, b :: bs, c :: cs, h1, h2 => by
    simp only [strLe] at h1 h2 ⊢
    by_cases hab : a.toNat < b.toNat
    · by_cases hbc : b.toNat < c.toNat
      · simp [show a.toNat < c.toNat by omega]
      · simp only [hbc, if_false] at h2
        by_cases e : b = c
        · subst e; simp [hab]
        · simp [e] at h2
    · simp only [hab, if_false] at h1
      by_cases e : a = b
      · subst e
        simp only [if_true] at h1
        by_cases hbc : a.toNat < c.toNat
        · simp [hbc]
        · simp only [hbc, if_false] at h2 ⊢
          by_cases e2 : a = c
          · subst e2
            simp only [if_true] at h2 ⊢
            exact strLe_trans as bs cs h1 h2
          · simp [e2] at h2
      · simp [e] at h1

theorem mem_insertStr {x y : Str} {l : List Str} : y ∈ insertStr x l ↔ y = x ∨ y ∈ l :=
  (insertStr_perm x l).mem_iff.trans List.mem_cons

theorem insertStr_sorted (x : Str) : ∀ l : List Str, l.Pairwise (fun a b => strLe a b = true) →
    (insertStr x l).Pairwise (fun a b => strLe a b = true)
  | [], _ => by simp [insertStr]
  | y :: ys, h => by
    simp only [insertStr]
    have hy := List.pairwise_cons.mp h
    split
    · rename_i hxy
      refine List.pairwise_cons.mpr ⟨?_, h⟩
      intro z hz
      rcases List.mem_cons.mp hz with rfl | hz
      · exact hxy
      · exact strLe_trans _ _ _ hxy (hy.1 z hz)
    · rename_i hxy
      have hyx : strLe y x = true := (strLe_total x y).resolve_left hxy
      refine List.pairwise_cons.mpr ⟨?_, insertStr_sorted x ys hy.2⟩
      intro z hz
      rcases mem_insertStr.mp hz with rfl | hz
      · exact hyx
      · exact hy.1 z hz

/-- the keys come out in Python's `sorted` order -/
theorem sortStrs_sorted : ∀ l : List Str, (sortStrs l).Pairwise (fun a b => strLe a b = true)
  | [] => List.Pairwise.nil
  | x :: xs => insertStr_sorted x _ (sortStrs_sorted xs)

end Txdbus.Intro
