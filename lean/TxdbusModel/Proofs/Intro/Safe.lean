import TxdbusModel.Proofs.Intro.Declared
/-
No generated attribute value needs XML escaping: a lemma about the character classes of the
validators (generated table `Gen/Validators.lean`) and about the characters of rendered types.
Core Lean only.
-/
namespace Txdbus.Intro

/-- the six code points `attrSafe` excludes -/
def specials : List Nat := [60, 38, 34, 9, 10, 13]

theorem attrSafe_of_not_special (c : Char) (h : c.toNat ∉ specials) : attrSafe c = true := by
  simp only [attrSafe, Bool.and_eq_true, bne_iff_ne, ne_eq]
  refine ⟨⟨⟨⟨⟨?_, ?_⟩, ?_⟩, ?_⟩, ?_⟩, ?_⟩ <;> (rintro rfl; exact h (by decide))

/-- a character class that lists none of the six special code points lists only safe characters -/
theorem attrSafe_of_class (T : List (Nat × Nat)) (hT : (specials.all fun n => !inRanges T n) = true)
    (c : Char) (hc : inRanges T c.toNat = true) : attrSafe c = true := by
  apply attrSafe_of_not_special
  intro hm
  have := List.all_eq_true.mp hT _ hm
  simp [hc] at this

/-- table lemmas: none of `<`, `&`, `"`, TAB, LF, CR is in `mbr_re`'s, `if_re`'s or
`invalid_obj_path_re`'s allowed set -/
theorem memberAllowed_no_special :
    (specials.all fun n => !inRanges Gen.Validators.memberAllowed n) = true := by decide
theorem ifaceAllowed_no_special :
    (specials.all fun n => !inRanges Gen.Validators.ifaceAllowed n) = true := by decide
theorem objPathAllowed_no_special :
    (specials.all fun n => !inRanges Gen.Validators.objPathAllowed n) = true := by decide

theorem inClass_safe {T : List (Nat × Nat)} (hT : (specials.all fun n => !inRanges T n) = true)
    {s : Str} (h : inClass T s = true) : s.all attrSafe = true := by
  simp only [inClass, List.all_eq_true] at h ⊢
  exact fun c hc => attrSafe_of_class T hT c (h c hc)

mutual
theorem render_safe : ∀ t : Ty, t.render.all attrSafe = true
  | .basic c => by cases c <;> decide
  | .variant => by decide
  | .array e => by
    simp only [Ty.render, List.all_cons, render_safe e, Bool.and_true]; decide
  | .struct fs => by
    simp only [Ty.render, List.all_cons, List.all_append, renderAll_safe fs, List.all_nil, Bool.and_true,
      Bool.true_and]
    decide
  | .dict k v => by
    simp only [Ty.render, List.all_cons, List.all_append, render_safe k, render_safe v, List.all_nil,
      Bool.and_true, Bool.true_and]
    decide
theorem renderAll_safe : ∀ ts : List Ty, (renderAll ts).all attrSafe = true
  | [] => rfl
  | t :: ts => by simp only [renderAll, List.all_append, render_safe t, renderAll_safe ts, Bool.and_true]
end

theorem argsEvents_safe (dir : Option Str) (hd : ∀ d, dir = some d → d.all attrSafe = true) :
    ∀ (ts : List Str), (∀ t ∈ ts, t.all attrSafe = true) → ∀ e ∈ argsEvents dir ts, e.attrsSafe = true
  | [], _, e, he => by simp [argsEvents] at he
  | t :: ts, h, e, he => by
    simp only [argsEvents, List.mem_append] at he
    rcases he with he | he
    · have ht := h t List.mem_cons_self
      cases dir with
      | none =>
        simp only [argEvents, List.mem_cons, List.not_mem_nil, or_false] at he
        rcases he with rfl | rfl
        · simp [Event.attrsSafe, ht]
        · rfl
      | some d =>
        simp only [argEvents, List.mem_cons, List.not_mem_nil, or_false] at he
        rcases he with rfl | rfl
        · simp [Event.attrsSafe, ht, hd d rfl]
        · rfl
    · exact argsEvents_safe dir hd ts (fun t' ht' => h t' (List.mem_cons_of_mem _ ht')) e he

theorem pieces_safe (ts : List Ty) : ∀ t ∈ ts.map Ty.render, t.all attrSafe = true := by
  intro t ht
  obtain ⟨ty, _, rfl⟩ := List.mem_map.mp ht
  exact render_safe ty

theorem methodEvents_safe {m : Method} (hn : inClass Gen.Validators.memberAllowed m.name = true)
    {ins outs : List Ty} (hi : m.sigIn = renderAll ins) (ho : m.sigOut = renderAll outs)
    {evs : List Event} (h : methodEvents m = .ok evs) : ∀ e ∈ evs, e.attrsSafe = true := by
  simp only [methodEvents, hi, ho, genCompleteTypes_renderAll, liftSplit] at h
  cases h
  intro e he
  simp only [List.mem_cons, List.mem_append, List.not_mem_nil, or_false] at he
  rcases he with rfl | he | he | rfl
  · simp [Event.attrsSafe, inClass_safe memberAllowed_no_special hn]
  · exact argsEvents_safe _ (fun d hd => by cases hd; decide) _ (pieces_safe ins) e he
  · exact argsEvents_safe _ (fun d hd => by cases hd; decide) _ (pieces_safe outs) e he
  · rfl

theorem signalEvents_safe {s : Signal} (hn : inClass Gen.Validators.memberAllowed s.name = true)
    {ts : List Ty} (hs : s.sig = renderAll ts)
    {evs : List Event} (h : signalEvents s = .ok evs) : ∀ e ∈ evs, e.attrsSafe = true := by
  simp only [signalEvents, hs, genCompleteTypes_renderAll, liftSplit] at h
  cases h
  intro e he
  simp only [List.mem_cons, List.mem_append, List.not_mem_nil, or_false] at he
  rcases he with rfl | he | rfl
  · simp [Event.attrsSafe, inClass_safe memberAllowed_no_special hn]
  · exact argsEvents_safe _ (fun d hd => by cases hd) _ (pieces_safe ts) e he
  · rfl

theorem propertyEvents_safe {p : Property} (hn : inClass Gen.Validators.memberAllowed p.name = true)
    {ts : List Ty} (hs : p.sig = renderAll ts)
    (ha : p.access = kRead ∨ p.access = kWrite ∨ p.access = kReadWrite)
    {ea : EmitsArg} (he : p.emits = ea.toEmits) : ∀ e ∈ propertyEvents p, e.attrsSafe = true := by
  intro e hmem
  simp only [propertyEvents, List.mem_cons, List.not_mem_nil, or_false] at hmem
  have hacc : p.access.all attrSafe = true := by
    rcases ha with h | h | h <;> rw [h] <;> decide
  have hem : p.emits.fmt.all attrSafe = true := by
    rw [he]; cases ea <;> decide
  have hann : Gen.IntroStd.annotationNameGen.all attrSafe = true := by decide
  rcases hmem with rfl | rfl | rfl | rfl
  · simp [Event.attrsSafe, inClass_safe memberAllowed_no_special hn, hs, renderAll_safe, hacc]
  · simp [Event.attrsSafe, hem, hann]
  · rfl
  · rfl

theorem methodsEvents_safe : ∀ (ms : List Method),
    (∀ m ∈ ms, inClass Gen.Validators.memberAllowed m.name = true ∧
      ∃ ins outs : List Ty, m.sigIn = renderAll ins ∧ m.sigOut = renderAll outs) →
    ∀ {evs : List Event}, methodsEvents ms = .ok evs → ∀ e ∈ evs, e.attrsSafe = true
  | [], _, evs, h => by cases h; intro e he; cases he
  | m :: ms, hv, evs, h => by
    unfold methodsEvents at h
    split at h
    · cases h
    · rename_i a ha
      split at h
      · cases h
      · rename_i b hb
        cases h
        intro e he
        obtain ⟨hn, ins, outs, hi, ho⟩ := hv m List.mem_cons_self
        rcases List.mem_append.mp he with he | he
        · exact methodEvents_safe hn hi ho ha e he
        · exact methodsEvents_safe ms (fun m' hm' => hv m' (List.mem_cons_of_mem _ hm')) hb e he

theorem signalsEvents_safe : ∀ (ss : List Signal),
    (∀ s ∈ ss, inClass Gen.Validators.memberAllowed s.name = true ∧ ∃ ts : List Ty, s.sig = renderAll ts) →
    ∀ {evs : List Event}, signalsEvents ss = .ok evs → ∀ e ∈ evs, e.attrsSafe = true
  | [], _, evs, h => by cases h; intro e he; cases he
  | s :: ss, hv, evs, h => by
    unfold signalsEvents at h
    split at h
    · cases h
    · rename_i a ha
      split at h
      · cases h
      · rename_i b hb
        cases h
        intro e he
        obtain ⟨hn, ts, hs⟩ := hv s List.mem_cons_self
        rcases List.mem_append.mp he with he | he
        · exact signalEvents_safe hn hs ha e he
        · exact signalsEvents_safe ss (fun s' hs' => hv s' (List.mem_cons_of_mem _ hs')) hb e he

theorem propertiesEvents_safe : ∀ (ps : List Property),
    (∀ p ∈ ps, inClass Gen.Validators.memberAllowed p.name = true ∧ (∃ ts : List Ty, p.sig = renderAll ts) ∧
      (p.access = kRead ∨ p.access = kWrite ∨ p.access = kReadWrite) ∧ ∃ e : EmitsArg, p.emits = e.toEmits) →
    ∀ e ∈ propertiesEvents ps, e.attrsSafe = true
  | [], _, e, he => by cases he
  | p :: ps, hv, e, he => by
    simp only [propertiesEvents, List.mem_append] at he
    obtain ⟨hn, ⟨ts, hs⟩, ha, ea, hea⟩ := hv p List.mem_cons_self
    rcases he with he | he
    · exact propertyEvents_safe hn hs ha hea e he
    · exact propertiesEvents_safe ps (fun p' hp' => hv p' (List.mem_cons_of_mem _ hp')) e he

/-- every attribute value `_getXml` writes for a definition with valid names and signatures consists of
characters that need no escaping -/
theorem ifaceEvents_safe {i : Interface} (hv : i.ValidNames) {evs : List Event}
    (h : ifaceEvents i = .ok evs) : ∀ e ∈ evs, e.attrsSafe = true := by
  unfold ifaceEvents at h
  split at h
  · cases h
  · rename_i body hb
    cases h
    unfold memberEvents at hb
    split at hb
    · cases hb
    · rename_i ms hms
      split at hb
      · cases hb
      · rename_i ss hss
        cases hb
        intro e he
        simp only [List.mem_cons, List.mem_append, List.not_mem_nil, or_false] at he
        rcases he with rfl | (he | he | he) | rfl
        · simp [Event.attrsSafe, inClass_safe ifaceAllowed_no_special hv.name]
        · exact methodsEvents_safe _ (fun m hm => hv.methods m (sortedValues_mem hm)) hms e he
        · exact signalsEvents_safe _ (fun s hs => hv.signals s (sortedValues_mem hs)) hss e he
        · exact propertiesEvents_safe _ (fun p hp => hv.properties p (sortedValues_mem hp)) e he
        · rfl

/-- table lemma: the same for the text of the three standard interfaces -/
theorem introEvents_safe : introEvents.all Event.attrsSafe = true := by decide

end Txdbus.Intro
