import TxdbusModel.Proofs.Intro.Dict
/-
The handler state machine run over generated events: per-element lemmas.
Core Lean only.
-/
namespace Txdbus.Intro

theorem run_append (a b : List Event) : ∀ st : HState,
    run st (a ++ b) = match run st a with
      | .ok st' => run st' b
      | .error e => .error e := by
  induction a with
  | nil => intro st; rfl
  | cons e es ih =>
    intro st
    simp only [List.cons_append, run]
    cases step st e with
    | error err => rfl
    | ok st' => exact ih st'

/-! ### constants -/

theorem tag_node : tagOf kNode = .node := by decide
theorem tag_interface : tagOf kInterface = .interface := by decide
theorem tag_method : tagOf kMethod = .method := by decide
theorem tag_signal : tagOf kSignal = .signal := by decide
theorem tag_property : tagOf kProperty = .property := by decide
theorem tag_annotation : tagOf kAnnotation = .annotation := by decide
theorem tag_arg : tagOf kArg = .arg := by decide

theorem attr_name1 (v : Str) : attrGet? [(kName, v)] kName = some v := by simp [attrGet?]
theorem attr_type1 (t : Str) : attrGet? [(kType, t)] kType = some t := by simp [attrGet?]
theorem attr_dt_type (d t : Str) : attrGet? [(kDirection, d), (kType, t)] kType = some t := by
  simp [attrGet?, show kDirection ≠ kType by decide]
theorem attr_dt_dir (d t : Str) : attrGet? [(kDirection, d), (kType, t)] kDirection = some d := by
  simp [attrGet?]

/-! ### `<arg>` elements inside a method / a signal -/

theorem run_argsIn (ps : List Str) : ∀ (st : HState) (m : Method),
    st.skip = false → st.isMethod = some true → st.member = .method m → st.memberAdded = false →
    run st (argsEvents (some kIn) ps) =
      .ok { st with member := .method { m with nargs := m.nargs + ps.length, sigIn := m.sigIn ++ ps.flatten } } := by
  induction ps with
  | nil =>
    intro st m _ _ h3 _
    cases st; simp_all [argsEvents, run]
  | cons t ts ih =>
    intro st m h1 h2 h3 h4
    simp only [argsEvents, argEvents, List.cons_append, List.nil_append, run, step, startElement, h1,
      tag_arg, startArg, attr_dt_type, attr_dt_dir, h2, h3, h4, endElement]
    simp
    rw [ih _ _ rfl rfl rfl rfl]
    simp
    omega

theorem run_argsOut (ps : List Str) : ∀ (st : HState) (m : Method),
    st.skip = false → st.isMethod = some true → st.member = .method m → st.memberAdded = false →
    run st (argsEvents (some kOut) ps) =
      .ok { st with member := .method { m with nret := m.nret + ps.length, sigOut := m.sigOut ++ ps.flatten } } := by
  induction ps with
  | nil =>
    intro st m _ _ h3 _
    cases st; simp_all [argsEvents, run]
  | cons t ts ih =>
    intro st m h1 h2 h3 h4
    simp only [argsEvents, argEvents, List.cons_append, List.nil_append, run, step, startElement, h1,
      tag_arg, startArg, attr_dt_type, attr_dt_dir, h2, h3, h4, endElement]
    simp [show kOut ≠ kIn by decide]
    rw [ih _ _ rfl rfl rfl rfl]
    simp
    omega

theorem run_argsSig (ps : List Str) : ∀ (st : HState) (s : Signal),
    st.skip = false → st.isMethod = some false → st.member = .signal s → st.memberAdded = false →
    run st (argsEvents none ps) =
      .ok { st with member := .signal { s with nargs := s.nargs + ps.length, sig := s.sig ++ ps.flatten } } := by
  induction ps with
  | nil =>
    intro st s _ _ h3 _
    cases st; simp_all [argsEvents, run]
  | cons t ts ih =>
    intro st s h1 h2 h3 h4
    simp only [argsEvents, argEvents, List.cons_append, List.nil_append, run, step, startElement, h1,
      tag_arg, startArg, attr_type1, h2, h3, h4, endElement]
    simp
    rw [ih _ _ rfl rfl rfl rfl]
    simp
    omega

/-! ### member elements inside an open (not skipped) interface -/

/-- the handler is inside an `<interface>` element it parses: `self.iface` is the newest object -/
structure Open (st : HState) (H : List Interface) (i : Interface) : Prop where
  skip : st.skip = false
  iface : st.iface = some H.length
  heap : st.heap = H ++ [i]

/-- what member elements never touch -/
structure Frame (a b : HState) : Prop where
  known : b.known = a.known
  skipKnown : b.skipKnown = a.skipKnown
  interfaces : b.interfaces = a.interfaces

theorem Frame.refl (a : HState) : Frame a a := ⟨rfl, rfl, rfl⟩

theorem Frame.trans {a b c : HState} (h1 : Frame a b) (h2 : Frame b c) : Frame a c :=
  ⟨h2.known.trans h1.known, h2.skipKnown.trans h1.skipKnown, h2.interfaces.trans h1.interfaces⟩

theorem getElem?_snoc {α : Type} (H : List α) (i : α) : (H ++ [i])[H.length]? = some i := by simp

theorem set_snoc {α : Type} (H : List α) (i x : α) : (H ++ [i]).set H.length x = H ++ [x] := by
  simp

def Interface.withMethod (i : Interface) (m : Method) : Interface :=
  { i with methods := dset Method.name i.methods m }

def Interface.withSignal (i : Interface) (s : Signal) : Interface :=
  { i with signals := dset Signal.name i.signals s }

theorem run_methodBlock {st : HState} {H : List Interface} {i : Interface} (ho : Open st H i)
    (name : Str) (ins outs : List Str) :
    ∃ st', run st (.start kMethod [(kName, name)] ::
        (argsEvents (some kIn) ins ++ (argsEvents (some kOut) outs ++ [.stop kMethod]))) = .ok st'
      ∧ Open st' H (i.withMethod ⟨name, ins.length, outs.length, ins.flatten, outs.flatten⟩)
      ∧ Frame st st' := by
  obtain ⟨h1, h2, h3⟩ := ho
  simp only [run, step, startElement, h1, tag_method, startMethod, attr_name1]
  simp only [Bool.false_eq_true, if_false]
  rw [run_append, run_argsIn _ _ _ rfl rfl rfl rfl]
  simp only []
  rw [run_append, run_argsOut _ _ _ rfl rfl rfl rfl]
  simp only [run, step, endElement, tag_method, endMethod, h2, heapUpdate, h3, getElem?_snoc,
    Interface.addMethod, set_snoc]
  rw [if_neg (by omega : ¬ ((0 : Int) + ↑ins.length = -1))]
  simp only [Bool.false_and, Bool.false_eq_true, if_false, Int.zero_add, List.nil_append]
  exact ⟨_, rfl, ⟨rfl, rfl, rfl⟩, ⟨rfl, rfl, rfl⟩⟩

theorem run_signalBlock {st : HState} {H : List Interface} {i : Interface} (ho : Open st H i)
    (name : Str) (ts : List Str) :
    ∃ st', run st (.start kSignal [(kName, name)] :: (argsEvents none ts ++ [.stop kSignal])) = .ok st'
      ∧ Open st' H (i.withSignal ⟨name, ts.length, ts.flatten⟩)
      ∧ Frame st st' := by
  obtain ⟨h1, h2, h3⟩ := ho
  simp only [run, step, startElement, h1, tag_signal, startSignal, attr_name1]
  simp only [Bool.false_eq_true, if_false]
  rw [run_append, run_argsSig _ _ _ rfl rfl rfl rfl]
  simp only [run, step, endElement, tag_signal, endSignal, h2, heapUpdate, h3, getElem?_snoc,
    Interface.addSignal, set_snoc]
  rw [if_neg (by omega : ¬ ((0 : Int) + ↑ts.length = -1))]
  simp only [Bool.false_and, Bool.false_eq_true, if_false, Int.zero_add, List.nil_append]
  exact ⟨_, rfl, ⟨rfl, rfl, rfl⟩, ⟨rfl, rfl, rfl⟩⟩

/-- table tie: `_getXml` writes the annotation name `start_annotation` looks for -/
theorem annotationName_agree : Gen.IntroStd.annotationNameGen = Gen.IntroStd.annotationName := by decide

/-- what `start_property` + `start_annotation` rebuild from the attributes `_getXml` wrote for `p` -/
def recProperty (p : Property) : Property :=
  ⟨p.name, p.sig,
   accessOf (Gen.IntroStd.readableWords.contains (lower p.access))
            (Gen.IntroStd.writeableWords.contains (lower p.access)),
   .bool (Gen.IntroStd.emitsTrueWords.contains p.emits.fmt)⟩

def Interface.withProperty (i : Interface) (p : Property) : Interface :=
  { i with properties := dset Property.name i.properties p }

theorem attr_p_name (a b c : Str) : attrGet? [(kName, a), (kType, b), (kAccess, c)] kName = some a := by
  simp [attrGet?]
theorem attr_p_type (a b c : Str) : attrGet? [(kName, a), (kType, b), (kAccess, c)] kType = some b := by
  simp [attrGet?, show kName ≠ kType by decide]
theorem attr_p_access (a b c : Str) : attrGet? [(kName, a), (kType, b), (kAccess, c)] kAccess = some c := by
  simp [attrGet?, show kName ≠ kAccess by decide, show kType ≠ kAccess by decide]
theorem attr_a_name (a b : Str) : attrGet? [(kName, a), (kValue, b)] kName = some a := by
  simp [attrGet?]
theorem attr_a_value (a b : Str) : attrGet? [(kName, a), (kValue, b)] kValue = some b := by
  simp [attrGet?, show kName ≠ kValue by decide]

theorem run_propertyBlock {st : HState} {H : List Interface} {i : Interface} (ho : Open st H i)
    (p : Property) :
    ∃ st', run st (propertyEvents p) = .ok st'
      ∧ Open st' H (i.withProperty (recProperty p))
      ∧ Frame st st' := by
  obtain ⟨h1, h2, h3⟩ := ho
  simp only [propertyEvents, run, step, startElement, h1, tag_property, startProperty, attr_p_name,
    attr_p_type, attr_p_access, tag_annotation, startAnnotation, attr_a_name, attr_a_value,
    annotationName_agree, endElement, endProperty, h2, heapUpdate, h3, getElem?_snoc, set_snoc,
    Interface.addProperty, Property.new, Bool.false_eq_true, Bool.false_and, ↓reduceIte]
  exact ⟨_, rfl, ⟨rfl, rfl, rfl⟩, ⟨rfl, rfl, rfl⟩⟩

end Txdbus.Intro
