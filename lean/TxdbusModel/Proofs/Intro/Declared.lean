import TxdbusModel.Proofs.Intro.Main
import TxdbusModel.Proofs.Sig.Split
/-
Interfaces declared through the API with signatures from the type grammar are well formed
(`Interface.WF`) and their `_xml` cache is coherent.  Uses C19's splitter theorem.
Core Lean only.
-/
namespace Txdbus.Intro

theorem flatten_map_render : ∀ ts : List Ty, (ts.map Ty.render).flatten = renderAll ts
  | [] => rfl
  | t :: ts => by simp [renderAll, flatten_map_render ts]

theorem splitsTo_renderAll (ts : List Ty) : SplitsTo (renderAll ts) (ts.map Ty.render) :=
  ⟨genCompleteTypes_renderAll ts, flatten_map_render ts⟩

theorem dset_mem {α : Type} {nm : α → Str} {l : List α} {v x : α} (h : x ∈ dset nm l v) :
    x ∈ l ∨ x = v := by
  induction l with
  | nil => simp [dset] at h; exact Or.inr h
  | cons y ys ih =>
    simp only [dset] at h
    split at h
    · rcases List.mem_cons.mp h with rfl | h
      · exact Or.inr rfl
      · exact Or.inl (List.mem_cons_of_mem _ h)
    · rcases List.mem_cons.mp h with rfl | h
      · exact Or.inl List.mem_cons_self
      · rcases ih h with h | h
        · exact Or.inl (List.mem_cons_of_mem _ h)
        · exact Or.inr h

theorem Interface.new_wf (n : Str) : (Interface.new n).WF :=
  ⟨by simp [Interface.new], by simp [Interface.new], by simp [Interface.new],
   by simp [Interface.new], by simp [Interface.new], by simp [Interface.new]⟩

theorem accessOf_cases (r w : Bool) :
    accessOf r w = kRead ∨ accessOf r w = kWrite ∨ accessOf r w = kReadWrite := by
  cases r <;> cases w <;> simp [accessOf]

theorem apply_declOp_wf {c c' : Cached} (hwf : c.iface.WF) (hc : c.Coherent) (o : DeclOp)
    (h : c.apply o.toOp = .ok c') : c'.iface.WF := by
  cases o with
  | addMethod n ins outs =>
    simp only [DeclOp.toOp, Cached.apply, Interface.addMethod, Method.new, countCompleteTypes_renderAll,
      liftSplit] at h
    simp only [if_true] at h
    cases h
    refine { hwf with methods := ?_, mnames := dset_nodup _ hwf.mnames }
    intro m hm
    rcases dset_mem hm with hm | rfl
    · exact hwf.methods m hm
    · exact ⟨ins.map Ty.render, outs.map Ty.render, splitsTo_renderAll ins, splitsTo_renderAll outs,
        by simp, by simp⟩
  | addSignal n ts =>
    simp only [DeclOp.toOp, Cached.apply, Interface.addSignal, Signal.new, countCompleteTypes_renderAll,
      liftSplit] at h
    simp only [if_true] at h
    cases h
    refine { hwf with signals := ?_, snames := dset_nodup _ hwf.snames }
    intro s hs
    rcases dset_mem hs with hs | rfl
    · exact hwf.signals s hs
    · exact ⟨ts.map Ty.render, splitsTo_renderAll ts, by simp⟩
  | addCountedMethod n ins outs =>
    simp only [DeclOp.toOp, Cached.apply, Interface.addMethod] at h
    rw [if_neg (by omega : ¬ ((ins.length : Int) = -1))] at h
    cases h
    refine { hwf with methods := ?_, mnames := dset_nodup _ hwf.mnames }
    intro m hm
    rcases dset_mem hm with hm | rfl
    · exact hwf.methods m hm
    · exact ⟨ins.map Ty.render, outs.map Ty.render, splitsTo_renderAll ins, splitsTo_renderAll outs,
        by simp, by simp⟩
  | addCountedSignal n ts =>
    simp only [DeclOp.toOp, Cached.apply, Interface.addSignal] at h
    rw [if_neg (by omega : ¬ ((ts.length : Int) = -1))] at h
    cases h
    refine { hwf with signals := ?_, snames := dset_nodup _ hwf.snames }
    intro s hs
    rcases dset_mem hs with hs | rfl
    · exact hwf.signals s hs
    · exact ⟨ts.map Ty.render, splitsTo_renderAll ts, by simp⟩
  | addProperty n ty r w e =>
    simp only [DeclOp.toOp, Cached.apply, Interface.addProperty] at h
    cases h
    refine { hwf with props := ?_, pnames := dset_nodup _ hwf.pnames }
    intro p hp
    rcases dset_mem hp with hp | rfl
    · exact hwf.props p hp
    · exact accessOf_cases r w
  | delMethod n =>
    simp only [DeclOp.toOp, Cached.apply, Interface.delMethod] at h
    cases hd : ddel Method.name c.iface.methods n with
    | none => simp [hd] at h
    | some d =>
      simp only [hd] at h
      cases h
      have := ddel_nodup hwf.mnames hd
      exact { hwf with methods := fun m hm => hwf.methods m (this.2 m hm), mnames := this.1 }
  | delSignal n =>
    simp only [DeclOp.toOp, Cached.apply, Interface.delSignal] at h
    cases hd : ddel Signal.name c.iface.signals n with
    | none => simp [hd] at h
    | some d =>
      simp only [hd] at h
      cases h
      have := ddel_nodup hwf.snames hd
      exact { hwf with signals := fun m hm => hwf.signals m (this.2 m hm), snames := this.1 }
  | delProperty n =>
    simp only [DeclOp.toOp, Cached.apply, Interface.delProperty] at h
    cases hd : ddel Property.name c.iface.properties n with
    | none => simp [hd] at h
    | some d =>
      simp only [hd] at h
      cases h
      have := ddel_nodup hwf.pnames hd
      exact { hwf with props := fun m hm => hwf.props m (this.2 m hm), pnames := this.1 }
  | getXml =>
    simp only [DeclOp.toOp, Cached.apply] at h
    cases hg : c.getXml with
    | error e => simp [hg] at h
    | ok r =>
      obtain ⟨x, c''⟩ := r
      simp only [hg] at h
      cases h
      rw [(Cached.getXml_coherent hc hg).2]
      exact hwf

theorem applyAll_declared_wf : ∀ (ops : List DeclOp) {c c' : Cached}, c.iface.WF → c.Coherent →
    c.applyAll (ops.map DeclOp.toOp) = .ok c' → c'.iface.WF ∧ c'.Coherent
  | [], c, c', hwf, hc, h => by cases h; exact ⟨hwf, hc⟩
  | o :: ops, c, c', hwf, hc, h => by
    simp only [List.map_cons, Cached.applyAll] at h
    split at h
    · cases h
    · rename_i c1 h1
      exact applyAll_declared_wf ops (apply_declOp_wf hwf hc o h1) (Cached.apply_coherent hc _ h1) h

/-! ### declared methods carry the declared type lists -/

/-- the method is what `Method(name, ''.join(ins), ''.join(outs))` + `addMethod` leave: rendered signatures
and one argument per complete type -/
def Method.TyDeclared (m : Method) : Prop :=
  ∃ ins outs : List Ty, m.sigIn = renderAll ins ∧ m.sigOut = renderAll outs ∧
    m.nargs = ins.length ∧ m.nret = outs.length

theorem apply_declOp_ty {c c' : Cached} (hty : ∀ m ∈ c.iface.methods, m.TyDeclared) (hc : c.Coherent)
    (hwf : c.iface.WF) (o : DeclOp) (h : c.apply o.toOp = .ok c') : ∀ m ∈ c'.iface.methods, m.TyDeclared := by
  cases o with
  | addMethod n ins outs =>
    simp only [DeclOp.toOp, Cached.apply, Interface.addMethod, Method.new, countCompleteTypes_renderAll,
      liftSplit] at h
    simp only [if_true] at h
    cases h
    intro m hm
    rcases dset_mem hm with hm | rfl
    · exact hty m hm
    · exact ⟨ins, outs, rfl, rfl, rfl, rfl⟩
  | addSignal n ts =>
    simp only [DeclOp.toOp, Cached.apply, Interface.addSignal, Signal.new, countCompleteTypes_renderAll,
      liftSplit] at h
    simp only [if_true] at h
    cases h
    exact hty
  | addCountedMethod n ins outs =>
    simp only [DeclOp.toOp, Cached.apply, Interface.addMethod] at h
    rw [if_neg (by omega : ¬ ((ins.length : Int) = -1))] at h
    cases h
    intro m hm
    rcases dset_mem hm with hm | rfl
    · exact hty m hm
    · exact ⟨ins, outs, rfl, rfl, rfl, rfl⟩
  | addCountedSignal n ts =>
    simp only [DeclOp.toOp, Cached.apply, Interface.addSignal] at h
    rw [if_neg (by omega : ¬ ((ts.length : Int) = -1))] at h
    cases h
    exact hty
  | addProperty n ty r w e =>
    simp only [DeclOp.toOp, Cached.apply, Interface.addProperty] at h
    cases h
    exact hty
  | delMethod n =>
    simp only [DeclOp.toOp, Cached.apply, Interface.delMethod] at h
    cases hd : ddel Method.name c.iface.methods n with
    | none => simp [hd] at h
    | some d =>
      simp only [hd] at h
      cases h
      exact fun m hm => hty m ((ddel_nodup hwf.mnames hd).2 m hm)
  | delSignal n =>
    simp only [DeclOp.toOp, Cached.apply, Interface.delSignal] at h
    cases hd : ddel Signal.name c.iface.signals n with
    | none => simp [hd] at h
    | some d => simp only [hd] at h; cases h; exact hty
  | delProperty n =>
    simp only [DeclOp.toOp, Cached.apply, Interface.delProperty] at h
    cases hd : ddel Property.name c.iface.properties n with
    | none => simp [hd] at h
    | some d => simp only [hd] at h; cases h; exact hty
  | getXml =>
    simp only [DeclOp.toOp, Cached.apply] at h
    cases hg : c.getXml with
    | error e => simp [hg] at h
    | ok r =>
      obtain ⟨x, c''⟩ := r
      simp only [hg] at h
      cases h
      rw [(Cached.getXml_coherent hc hg).2]
      exact hty

theorem applyAll_declared_ty : ∀ (ops : List DeclOp) {c c' : Cached}, (∀ m ∈ c.iface.methods, m.TyDeclared) →
    c.iface.WF → c.Coherent → c.applyAll (ops.map DeclOp.toOp) = .ok c' → ∀ m ∈ c'.iface.methods, m.TyDeclared
  | [], c, c', hty, _, _, h => by cases h; exact hty
  | o :: ops, c, c', hty, hwf, hc, h => by
    simp only [List.map_cons, Cached.applyAll] at h
    split at h
    · cases h
    · rename_i c1 h1
      exact applyAll_declared_ty ops (apply_declOp_ty hty hc hwf o h1) (apply_declOp_wf hwf hc o h1)
        (Cached.apply_coherent hc _ h1) h

theorem declare_ty {name : Str} {ops : List DeclOp} {c : Cached} (h : declare name ops = .ok c) :
    ∀ m ∈ c.iface.methods, m.TyDeclared :=
  applyAll_declared_ty ops (by intro m hm; simp [Cached.new, Interface.new] at hm) (Interface.new_wf name)
    (Cached.new_coherent name) h

/-- an interface declared through the API is well formed and its cache coherent -/
theorem declare_wf {name : Str} {ops : List DeclOp} {c : Cached} (h : declare name ops = .ok c) :
    c.iface.WF ∧ c.Coherent :=
  applyAll_declared_wf ops (Interface.new_wf name) (Cached.new_coherent name) h

end Txdbus.Intro
