import TxdbusModel.Proofs.Intro.Doc
/-
Composition: the parse of a generated document in terms of the specification (`World.parseBlocks`,
`SameDefinition`), the index-wise reading of `parseBlocks`, and the proxy's call check.
Core Lean only.
-/
namespace Txdbus.Intro

/-- running the handler over the text generated for an exported object does to the cache exactly what
the specification says for the definitions `recIface` of its interfaces followed by the standard three -/
theorem parse_generated {path : Str} {exported : List (Str × List Cached)} {cs : List Cached}
    (hobj : exportedGet? exported path = some cs) (hcoh : ∀ c ∈ cs, c.Coherent)
    (hwf : ∀ c ∈ cs, c.iface.WF) (heap : List Interface) (known : List (Str × Nat)) (replace : Bool) :
    ∃ evs st, generate path exported = .ok (some evs) ∧
      getInterfaces heap known replace evs = .ok st ∧
      st.world = World.parseBlocks (!replace) ⟨heap, known, []⟩
        ((cs.map (·.iface) ++ stdIfaces).map recIface) := by
  have hall : ∀ i ∈ cs.map (·.iface) ++ stdIfaces, i.WF := by
    intro i hi
    rcases List.mem_append.mp hi with hi | hi
    · obtain ⟨c, hc, rfl⟩ := List.mem_map.mp hi
      exact hwf c hc
    · exact std_wf i hi
  obtain ⟨blocks, hb, hrun⟩ := run_blocks _ hall
  obtain ⟨st', h1, h2, h3, _⟩ := hrun (HState.init heap known replace) rfl
  refine ⟨_, st', generate_exported hobj hb hcoh, ?_, h2⟩
  have hs : step (HState.init heap known replace) (.start kNode [(kName, path)]) =
      .ok (HState.init heap known replace) := by
    simp [step, startElement, HState.init, tag_node]
  simp only [getInterfaces, run, hs]
  rw [run_append, h1]
  exact run_children _ _ h3

/-! ### the rebuilt definition is the declared one -/

theorem dget_map_same_name {α : Type} {nm : α → Str} (f : α → α) (hf : ∀ x, nm (f x) = nm x) :
    ∀ (l : List α) (k : Str), dget nm (l.map f) k = (dget nm l k).map f
  | [], _ => rfl
  | x :: xs, k => by
    simp only [List.map_cons, dget, hf]
    split
    · rfl
    · exact dget_map_same_name f hf xs k

theorem recProperty_view {p : Property}
    (h : p.access = kRead ∨ p.access = kWrite ∨ p.access = kReadWrite) : (recProperty p).view = p.view := by
  have : (recProperty p).access = p.access := by
    rcases h with h | h | h <;> simp only [recProperty, h] <;> decide
  simp [Property.view, recProperty] at this ⊢
  exact this

theorem recIface_same {i : Interface} (hwf : i.WF) : SameDefinition i (recIface i) where
  name := rfl
  methods := dget_sortedValues hwf.mnames
  signals := dget_sortedValues hwf.snames
  properties := by
    intro n
    simp only [recIface]
    rw [dget_map_same_name recProperty recProperty_name, dget_sortedValues hwf.pnames]
    cases hd : dget Property.name i.properties n with
    | none => rfl
    | some p =>
      simp only [Option.map_some]
      rw [recProperty_view (hwf.props p (dget_some hd).1)]

/-! ### the cache -/

theorem kget_kset_self (k : Str) (v : Nat) : ∀ (l : List (Str × Nat)), kget? (kset l k v) k = some v
  | [] => by simp [kset, kget?]
  | (k', v') :: r => by
    simp only [kset]
    split
    · rename_i h; simp [kget?, h]
    · rename_i h; simp only [kget?, h, if_false]; exact kget_kset_self k v r

theorem kget_kset_ne {k n : Str} (v : Nat) (h : n ≠ k) : ∀ (l : List (Str × Nat)),
    kget? (kset l k v) n = kget? l n
  | [] => by simp [kset, kget?, Ne.symm h]
  | (k', v') :: r => by
    simp only [kset]
    split
    · rename_i hk
      simp only [kget?]
      rw [if_neg (fun e => h (e.symm.trans hk)), if_neg (fun e => h (e.symm.trans hk))]
    · simp only [kget?]
      split
      · rfl
      · exact kget_kset_ne v h r

/-! ### reading `World.parseBlocks` index by index (distinct interface names) -/

theorem parseBlock_cases (sk : Bool) (w : World) (r : Interface) :
    (sk = true ∧ ∃ k, kget? w.known r.name = some k ∧
        World.parseBlock sk w r = { w with interfaces := w.interfaces ++ [k] }) ∨
    ((sk = false ∨ kget? w.known r.name = none) ∧
        World.parseBlock sk w r = ⟨w.heap ++ [r], kset w.known r.name w.heap.length,
                                    w.interfaces ++ [w.heap.length]⟩) := by
  cases hk : kget? w.known r.name with
  | none => right; exact ⟨Or.inr rfl, by simp [World.parseBlock, hk]⟩
  | some k =>
    cases sk with
    | false => right; exact ⟨Or.inl rfl, by simp [World.parseBlock, hk]⟩
    | true => left; exact ⟨rfl, k, rfl, by simp [World.parseBlock, hk]⟩

/-- what the `j`-th interface element did: `slot` is the `j`-th returned object -/
structure BlockFacts (sk : Bool) (w w' : World) (r : Interface) (slot : Option Nat) : Prop where
  /-- known and no replacement: the cached object, and the cache entry stays -/
  reused : sk = true → ∀ k, kget? w.known r.name = some k →
    slot = some k ∧ kget? w'.known r.name = some k
  /-- otherwise: a new object holding `r`, registered under its name -/
  fresh : (sk = false ∨ kget? w.known r.name = none) →
    ∃ id, slot = some id ∧ w.heap.length ≤ id ∧ w'.heap[id]? = some r ∧ kget? w'.known r.name = some id

theorem parseBlocks_index (sk : Bool) : ∀ (rs : List Interface) (w : World),
    (rs.map (·.name)).Nodup →
    ∃ ext more, (World.parseBlocks sk w rs).heap = w.heap ++ ext ∧
      (World.parseBlocks sk w rs).interfaces = w.interfaces ++ more ∧ more.length = rs.length ∧
      (∀ n, n ∉ rs.map (·.name) → kget? (World.parseBlocks sk w rs).known n = kget? w.known n) ∧
      ∀ (j : Nat) (r : Interface), rs[j]? = some r → BlockFacts sk w (World.parseBlocks sk w rs) r more[j]?
  | [], w, _ => ⟨[], [], by simp [World.parseBlocks], by simp [World.parseBlocks], rfl,
      fun _ _ => rfl, fun j r h => by simp at h⟩
  | r0 :: rest, w, hn => by
    simp only [List.map_cons, List.nodup_cons] at hn
    obtain ⟨hr0, hrest⟩ := hn
    have hfold : World.parseBlocks sk w (r0 :: rest) =
        World.parseBlocks sk (World.parseBlock sk w r0) rest := rfl
    obtain ⟨ext1, more1, hheap, hifs, hlen, hkeep, hidx⟩ :=
      parseBlocks_index sk rest (World.parseBlock sk w r0) hrest
    rw [hfold]
    -- the first block
    have hfirst : ∃ e0 id0, (World.parseBlock sk w r0).heap = w.heap ++ e0 ∧
        (World.parseBlock sk w r0).interfaces = w.interfaces ++ [id0] ∧
        (∀ n, n ≠ r0.name → kget? (World.parseBlock sk w r0).known n = kget? w.known n) ∧
        (sk = true → ∀ k, kget? w.known r0.name = some k →
          id0 = k ∧ kget? (World.parseBlock sk w r0).known r0.name = some k) ∧
        ((sk = false ∨ kget? w.known r0.name = none) →
          id0 = w.heap.length ∧ e0 = [r0] ∧
          kget? (World.parseBlock sk w r0).known r0.name = some w.heap.length) := by
      rcases parseBlock_cases sk w r0 with ⟨hsk, k, hk, he⟩ | ⟨hc, he⟩
      · refine ⟨[], k, by simp [he], by simp [he], fun n _ => by simp [he], ?_, ?_⟩
        · intro _ k' hk'
          rw [hk] at hk'; cases hk'
          exact ⟨rfl, by simp [he, hk]⟩
        · rintro (h | h)
          · rw [hsk] at h; cases h
          · rw [hk] at h; cases h
      · refine ⟨[r0], w.heap.length, by simp [he], by simp [he],
          fun n hne => by simp [he, kget_kset_ne _ hne], ?_, ?_⟩
        · intro hsk k hk
          rcases hc with h | h
          · rw [hsk] at h; cases h
          · rw [hk] at h; cases h
        · intro _
          exact ⟨rfl, rfl, by simp [he, kget_kset_self]⟩
    obtain ⟨e0, id0, h0heap, h0ifs, h0keep, h0reuse, h0fresh⟩ := hfirst
    refine ⟨e0 ++ ext1, id0 :: more1, ?_, ?_, by simp [hlen], ?_, ?_⟩
    · rw [hheap, h0heap, List.append_assoc]
    · rw [hifs, h0ifs, List.append_assoc]; rfl
    · intro n hnot
      simp only [List.map_cons, List.mem_cons, not_or] at hnot
      rw [hkeep n hnot.2, h0keep n hnot.1]
    · intro j r hj
      cases j with
      | zero =>
        simp only [List.getElem?_cons_zero, Option.some.injEq] at hj
        subst hj
        constructor
        · intro hsk k hk
          obtain ⟨e1, e2⟩ := h0reuse hsk k hk
          exact ⟨by simp [e1], by rw [hkeep _ hr0, e2]⟩
        · intro hc
          obtain ⟨e1, e2, e3⟩ := h0fresh hc
          refine ⟨w.heap.length, by simp [e1], Nat.le_refl _, ?_, by rw [hkeep _ hr0, e3]⟩
          rw [hheap, h0heap, e2]
          simp
      | succ j =>
        simp only [List.getElem?_cons_succ] at hj
        have hne : r.name ≠ r0.name := by
          intro e
          exact hr0 (e ▸ List.mem_map.mpr ⟨r, List.mem_of_getElem? hj, rfl⟩)
        have hsame := h0keep r.name hne
        have hf := hidx j r hj
        constructor
        · intro hsk k hk
          have := hf.reused hsk k (hsame.trans hk)
          simpa using this
        · intro hc
          have hc' : sk = false ∨ kget? (World.parseBlock sk w r0).known r.name = none := by
            rcases hc with h | h
            · exact Or.inl h
            · exact Or.inr (hsame.trans h)
          obtain ⟨id, e1, e2, e3, e4⟩ := hf.fresh hc'
          refine ⟨id, by simpa using e1, ?_, e3, e4⟩
          rw [h0heap] at e2
          simp only [List.length_append] at e2
          omega

/-! ### the proxy's call check only looks at names and methods -/

theorem findMethod_congr (filter : Option Str) (methodName : Str) :
    ∀ {ds rs : List Interface}, SameDefinitions ds rs →
      findMethod filter methodName rs = findMethod filter methodName ds
  | _, _, .nil => rfl
  | _, _, .cons h t => by
    simp only [findMethod, h.name, h.methods methodName]
    rw [findMethod_congr filter methodName t]

theorem callCheck_congr {ds rs : List Interface} (h : SameDefinitions ds rs)
    (filter : Option Str) (methodName : Str) (nargs : Nat) :
    callCheck rs filter methodName nargs = callCheck ds filter methodName nargs := by
  simp only [callCheck, findMethod_congr filter methodName h]

theorem sameDefinitions_recIface : ∀ (is : List Interface), (∀ i ∈ is, i.WF) →
    SameDefinitions is (is.map recIface)
  | [], _ => .nil
  | i :: is, h => .cons (recIface_same (h i List.mem_cons_self))
      (sameDefinitions_recIface is (fun j hj => h j (List.mem_cons_of_mem _ hj)))

theorem SameDefinitions.getElem? : ∀ {ds rs : List Interface}, SameDefinitions ds rs →
    ∀ (j : Nat) (d : Interface), ds[j]? = some d → ∃ r, rs[j]? = some r ∧ SameDefinition d r
  | _, _, .nil, j, d, h => by simp at h
  | _, _, .cons h t, 0, d, hd => by
    simp only [List.getElem?_cons_zero, Option.some.injEq] at hd
    subst hd
    exact ⟨_, rfl, h⟩
  | _, _, .cons _ t, j + 1, d, hd => by
    simp only [List.getElem?_cons_succ] at hd ⊢
    exact SameDefinitions.getElem? t j d hd

end Txdbus.Intro
