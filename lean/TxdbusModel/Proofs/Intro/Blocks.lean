import TxdbusModel.Proofs.Intro.Handler
import TxdbusModel.Intro.Spec
/-
The handler run over whole `<interface>` elements: parsed (new object) and skipped (known) blocks.
Core Lean only.
-/
namespace Txdbus.Intro

/-- the splitter succeeds on `s` with pieces `ps`, and the pieces concatenate back to `s` -/
def SplitsTo (s : Str) (ps : List Str) : Prop := genCompleteTypes s = .ok ps ∧ ps.flatten = s

/-- the counts stored in the `Method` are those of its signatures -/
def Method.Consistent (m : Method) : Prop :=
  ∃ ins outs, SplitsTo m.sigIn ins ∧ SplitsTo m.sigOut outs ∧ m.nargs = ins.length ∧ m.nret = outs.length

def Signal.Consistent (s : Signal) : Prop :=
  ∃ ts, SplitsTo s.sig ts ∧ s.nargs = ts.length

/-- a `DBusInterface` as the API leaves it: distinct keys per dict, counted members -/
structure Interface.WF (i : Interface) : Prop where
  methods : ∀ m ∈ i.methods, m.Consistent
  signals : ∀ s ∈ i.signals, s.Consistent
  /-- `Property.__init__` only ever stores one of the three access strings -/
  props : ∀ p ∈ i.properties, p.access = kRead ∨ p.access = kWrite ∨ p.access = kReadWrite
  mnames : (i.methods.map Method.name).Nodup
  snames : (i.signals.map Signal.name).Nodup
  pnames : (i.properties.map Property.name).Nodup

/-! ### lists of member elements -/

theorem methodEvents_consistent {m : Method} {ins outs : List Str}
    (hi : SplitsTo m.sigIn ins) (ho : SplitsTo m.sigOut outs) :
    methodEvents m = .ok (.start kMethod [(kName, m.name)] ::
      (argsEvents (some kIn) ins ++ (argsEvents (some kOut) outs ++ [.stop kMethod]))) := by
  simp [methodEvents, hi.1, ho.1, liftSplit]

theorem run_methods : ∀ (ms : List Method), (∀ m ∈ ms, m.Consistent) →
    ∃ evs, methodsEvents ms = .ok evs ∧ ∀ (st : HState) (H : List Interface) (i : Interface), Open st H i →
      ∃ st', run st evs = .ok st' ∧
        Open st' H { i with methods := ms.foldl (dset Method.name) i.methods } ∧ Frame st st'
  | [], _ => ⟨[], rfl, fun st H i ho => ⟨st, rfl, ho, Frame.refl st⟩⟩
  | m :: ms, hc => by
    obtain ⟨ins, outs, hi, ho, hn, hr⟩ := hc m List.mem_cons_self
    obtain ⟨evs, he, hrun⟩ := run_methods ms (fun m' hm' => hc m' (List.mem_cons_of_mem _ hm'))
    refine ⟨(.start kMethod [(kName, m.name)] ::
      (argsEvents (some kIn) ins ++ (argsEvents (some kOut) outs ++ [.stop kMethod]))) ++ evs,
      by simp only [methodsEvents, methodEvents_consistent hi ho, he], ?_⟩
    intro st H i hopen
    obtain ⟨st1, h1, o1, f1⟩ := run_methodBlock hopen m.name ins outs
    obtain ⟨st2, h2, o2, f2⟩ := hrun st1 H _ o1
    refine ⟨st2, ?_, ?_, f1.trans f2⟩
    · rw [run_append, h1]; exact h2
    · have hm : (⟨m.name, ins.length, outs.length, ins.flatten, outs.flatten⟩ : Method) = m := by
        rw [hi.2, ho.2, ← hn, ← hr]
      simpa [Interface.withMethod, hm] using o2

theorem signalEvents_consistent {s : Signal} {ts : List Str} (h : SplitsTo s.sig ts) :
    signalEvents s = .ok (.start kSignal [(kName, s.name)] :: (argsEvents none ts ++ [.stop kSignal])) := by
  simp [signalEvents, h.1, liftSplit]

theorem run_signals : ∀ (ss : List Signal), (∀ s ∈ ss, s.Consistent) →
    ∃ evs, signalsEvents ss = .ok evs ∧ ∀ (st : HState) (H : List Interface) (i : Interface), Open st H i →
      ∃ st', run st evs = .ok st' ∧
        Open st' H { i with signals := ss.foldl (dset Signal.name) i.signals } ∧ Frame st st'
  | [], _ => ⟨[], rfl, fun st H i ho => ⟨st, rfl, ho, Frame.refl st⟩⟩
  | s :: ss, hc => by
    obtain ⟨ts, ht, hn⟩ := hc s List.mem_cons_self
    obtain ⟨evs, he, hrun⟩ := run_signals ss (fun s' hs' => hc s' (List.mem_cons_of_mem _ hs'))
    refine ⟨(.start kSignal [(kName, s.name)] :: (argsEvents none ts ++ [.stop kSignal])) ++ evs,
      by simp only [signalsEvents, signalEvents_consistent ht, he], ?_⟩
    intro st H i hopen
    obtain ⟨st1, h1, o1, f1⟩ := run_signalBlock hopen s.name ts
    obtain ⟨st2, h2, o2, f2⟩ := hrun st1 H _ o1
    refine ⟨st2, ?_, ?_, f1.trans f2⟩
    · rw [run_append, h1]; exact h2
    · have hm : (⟨s.name, ts.length, ts.flatten⟩ : Signal) = s := by
        rw [ht.2, ← hn]
      simpa [Interface.withSignal, hm] using o2

theorem run_properties : ∀ (ps : List Property) (st : HState) (H : List Interface) (i : Interface),
    Open st H i →
      ∃ st', run st (propertiesEvents ps) = .ok st' ∧
        Open st' H { i with properties := (ps.map recProperty).foldl (dset Property.name) i.properties } ∧
        Frame st st'
  | [], st, H, i, ho => ⟨st, rfl, ho, Frame.refl st⟩
  | p :: ps, st, H, i, hopen => by
    obtain ⟨st1, h1, o1, f1⟩ := run_propertyBlock hopen p
    obtain ⟨st2, h2, o2, f2⟩ := run_properties ps st1 H _ o1
    refine ⟨st2, ?_, ?_, f1.trans f2⟩
    · simp only [propertiesEvents]; rw [run_append, h1]; exact h2
    · simpa [Interface.withProperty] using o2

/-! ### a parsed `<interface>` element -/

/-- the definition the handler rebuilds from the events `_getXml` emits for `i` -/
def recIface (i : Interface) : Interface :=
  ⟨i.name, sortedValues Method.name i.methods, sortedValues Signal.name i.signals,
   (sortedValues Property.name i.properties).map recProperty⟩

theorem recProperty_name (p : Property) : (recProperty p).name = p.name := rfl

theorem map_recProperty_names (ps : List Property) :
    (ps.map recProperty).map Property.name = ps.map Property.name := by
  induction ps with
  | nil => rfl
  | cons p ps ih => simp [recProperty_name]

theorem ifaceEvents_wf {i : Interface} (hwf : i.WF) : ∃ body, memberEvents i = .ok body ∧
    ifaceEvents i = .ok (.start kInterface [(kName, i.name)] :: (body ++ [.stop kInterface])) ∧
    ∀ (st : HState) (H : List Interface), Open st H (Interface.new i.name) →
      ∃ st', run st body = .ok st' ∧ Open st' H (recIface i) ∧ Frame st st' := by
  obtain ⟨ms, hms, rm⟩ := run_methods (sortedValues Method.name i.methods)
    (fun m hm => hwf.methods m (sortedValues_mem hm))
  obtain ⟨ss, hss, rs⟩ := run_signals (sortedValues Signal.name i.signals)
    (fun s hs => hwf.signals s (sortedValues_mem hs))
  refine ⟨ms ++ (ss ++ propertiesEvents (sortedValues Property.name i.properties)), ?_, ?_, ?_⟩
  · simp only [memberEvents, hms, hss]
  · simp only [ifaceEvents, memberEvents, hms, hss]
  · intro st H ho
    obtain ⟨st1, h1, o1, f1⟩ := rm st H _ ho
    obtain ⟨st2, h2, o2, f2⟩ := rs st1 H _ o1
    obtain ⟨st3, h3, o3, f3⟩ := run_properties (sortedValues Property.name i.properties) st2 H _ o2
    refine ⟨st3, ?_, ?_, (f1.trans f2).trans f3⟩
    · rw [run_append, h1]; simp only []; rw [run_append, h2]; exact h3
    · have e1 := foldl_dset_nodup (nm := Method.name) (sortedValues Method.name i.methods) []
        (by simpa using sortedValues_nodup hwf.mnames)
      have e2 := foldl_dset_nodup (nm := Signal.name) (sortedValues Signal.name i.signals) []
        (by simpa using sortedValues_nodup hwf.snames)
      have e3 := foldl_dset_nodup (nm := Property.name)
        ((sortedValues Property.name i.properties).map recProperty) []
        (by rw [List.nil_append, map_recProperty_names]; exact sortedValues_nodup hwf.pnames)
      simp only [Interface.new, e1, e2, e3, List.nil_append] at o3
      exact o3

theorem run_ifaceNew {i : Interface} (hwf : i.WF) {evs : List Event} (he : ifaceEvents i = .ok evs)
    (st : HState) (hs : st.skip = false) (hnew : kget? st.known i.name = none ∨ st.skipKnown = false) :
    ∃ st', run st evs = .ok st' ∧
      st'.world = World.parseBlock st.skipKnown st.world (recIface i) ∧
      st'.skip = false ∧ st'.skipKnown = st.skipKnown := by
  obtain ⟨body, _, hev, hrun⟩ := ifaceEvents_wf hwf
  rw [hev] at he
  cases he
  -- the start tag allocates the object
  have hstart : step st (.start kInterface [(kName, i.name)]) =
      .ok { st with heap := st.heap ++ [Interface.new i.name], known := kset st.known i.name st.heap.length,
                    iface := some st.heap.length, interfaces := st.interfaces ++ [st.heap.length] } := by
    simp only [step, startElement, hs, tag_interface, startInterface, attr_name1]
    rcases hnew with h | h
    · simp [h]
    · rw [h]; cases kget? st.known i.name <;> simp
  obtain ⟨st2, h2, o2, f2⟩ := hrun
    { st with heap := st.heap ++ [Interface.new i.name], known := kset st.known i.name st.heap.length,
              iface := some st.heap.length, interfaces := st.interfaces ++ [st.heap.length] }
    st.heap ⟨hs, rfl, rfl⟩
  refine ⟨{ st2 with skip := false }, ?_, ?_, rfl, ?_⟩
  · simp only [run, hstart]
    rw [run_append, h2]
    simp only [run, step, endElement, o2.skip, tag_interface, Bool.false_and, Bool.false_eq_true, if_false]
  · have hpb : World.parseBlock st.skipKnown st.world (recIface i) =
        ⟨st.heap ++ [recIface i], kset st.known i.name st.heap.length, st.interfaces ++ [st.heap.length]⟩ := by
      simp only [World.parseBlock, HState.world, recIface]
      rcases hnew with h | h
      · simp [h]
      · rw [h]; cases kget? st.known i.name <;> simp
    rw [hpb]
    simp only [HState.world, o2.heap, f2.known, f2.interfaces]
  · exact f2.skipKnown

/-! ### a skipped `<interface>` element -/

/-- not the end tag of an interface -/
def Event.inner : Event → Bool
  | .start _ _ => true
  | .stop n => n != kInterface

theorem run_skip_inner : ∀ (evs : List Event), (∀ e ∈ evs, e.inner = true) →
    ∀ st : HState, st.skip = true → run st evs = .ok st
  | [], _, _, _ => rfl
  | e :: es, h, st, hs => by
    have he := h e List.mem_cons_self
    have : step st e = .ok st := by
      cases e with
      | start n a => simp [step, startElement, hs]
      | stop n =>
        simp only [Event.inner] at he
        simp [step, endElement, hs, he]
    simp only [run, this]
    exact run_skip_inner es (fun e' he' => h e' (List.mem_cons_of_mem _ he')) st hs

theorem argsEvents_inner (dir : Option Str) : ∀ (ts : List Str), ∀ e ∈ argsEvents dir ts, e.inner = true
  | [], e, he => by simp [argsEvents] at he
  | t :: ts, e, he => by
    simp only [argsEvents, List.mem_append] at he
    rcases he with he | he
    · cases dir <;> simp only [argEvents, List.mem_cons, List.not_mem_nil, or_false] at he <;>
        rcases he with rfl | rfl <;> first | rfl | decide
    · exact argsEvents_inner dir ts e he

theorem methodEvents_inner {m : Method} {evs : List Event} (h : methodEvents m = .ok evs) :
    ∀ e ∈ evs, e.inner = true := by
  unfold methodEvents at h
  split at h
  · cases h
  · split at h
    · cases h
    · cases h
      intro e he
      simp only [List.mem_cons, List.mem_append, List.not_mem_nil, or_false] at he
      rcases he with rfl | he | he | rfl
      · rfl
      · exact argsEvents_inner _ _ e he
      · exact argsEvents_inner _ _ e he
      · decide

theorem signalEvents_inner {s : Signal} {evs : List Event} (h : signalEvents s = .ok evs) :
    ∀ e ∈ evs, e.inner = true := by
  unfold signalEvents at h
  split at h
  · cases h
  · cases h
    intro e he
    simp only [List.mem_cons, List.mem_append, List.not_mem_nil, or_false] at he
    rcases he with rfl | he | rfl
    · rfl
    · exact argsEvents_inner _ _ e he
    · decide

theorem methodsEvents_inner : ∀ (ms : List Method) {evs : List Event}, methodsEvents ms = .ok evs →
    ∀ e ∈ evs, e.inner = true
  | [], evs, h => by cases h; intro e he; cases he
  | m :: ms, evs, h => by
    unfold methodsEvents at h
    split at h
    · cases h
    · rename_i a ha
      split at h
      · cases h
      · rename_i b hb
        cases h
        intro e he
        rcases List.mem_append.mp he with he | he
        · exact methodEvents_inner ha e he
        · exact methodsEvents_inner ms hb e he

theorem signalsEvents_inner : ∀ (ss : List Signal) {evs : List Event}, signalsEvents ss = .ok evs →
    ∀ e ∈ evs, e.inner = true
  | [], evs, h => by cases h; intro e he; cases he
  | s :: ss, evs, h => by
    unfold signalsEvents at h
    split at h
    · cases h
    · rename_i a ha
      split at h
      · cases h
      · rename_i b hb
        cases h
        intro e he
        rcases List.mem_append.mp he with he | he
        · exact signalEvents_inner ha e he
        · exact signalsEvents_inner ss hb e he

theorem propertiesEvents_inner : ∀ (ps : List Property), ∀ e ∈ propertiesEvents ps, e.inner = true
  | [], e, he => by cases he
  | p :: ps, e, he => by
    simp only [propertiesEvents, List.mem_append] at he
    rcases he with he | he
    · simp only [propertyEvents, List.mem_cons, List.not_mem_nil, or_false] at he
      rcases he with rfl | rfl | rfl | rfl <;> first | rfl | decide
    · exact propertiesEvents_inner ps e he

theorem memberEvents_inner {i : Interface} {body : List Event} (h : memberEvents i = .ok body) :
    ∀ e ∈ body, e.inner = true := by
  unfold memberEvents at h
  split at h
  · cases h
  · rename_i ms hms
    split at h
    · cases h
    · rename_i ss hss
      cases h
      intro e he
      rcases List.mem_append.mp he with he | he
      · exact methodsEvents_inner _ hms e he
      · rcases List.mem_append.mp he with he | he
        · exact signalsEvents_inner _ hss e he
        · exact propertiesEvents_inner _ e he

/-- a known interface (and no replacement): the cached object is appended, nothing else changes -/
theorem run_ifaceSkip {i : Interface} {evs : List Event} (he : ifaceEvents i = .ok evs)
    (st : HState) (hs : st.skip = false) {id : Nat} (hk : kget? st.known i.name = some id)
    (hsk : st.skipKnown = true) :
    run st evs = .ok { st with interfaces := st.interfaces ++ [id] } := by
  unfold ifaceEvents at he
  split at he
  · cases he
  · rename_i body hb
    cases he
    simp only [run, step, startElement, hs, tag_interface, startInterface, attr_name1, hk, hsk,
      Bool.false_eq_true, if_false]
    rw [run_append, run_skip_inner body (memberEvents_inner hb) _ rfl]
    simp [run, step, endElement, tag_interface]

end Txdbus.Intro
