import TxdbusModel.Proofs.Intro.Blocks
/-
Whole documents: `generateIntrospectionXML` for an exported object, parsed by the handler.
Core Lean only.
-/
namespace Txdbus.Intro

/-- the interface elements of a list of definitions, in order -/
def ifacesEvents : List Interface → Except Err (List Event)
  | [] => .ok []
  | i :: is =>
    match ifaceEvents i with
    | .error e => .error e
    | .ok x =>
      match ifacesEvents is with
      | .error e => .error e
      | .ok r => .ok (x ++ r)

theorem ifacesEvents_append : ∀ (a b : List Interface) {x y : List Event},
    ifacesEvents a = .ok x → ifacesEvents b = .ok y → ifacesEvents (a ++ b) = .ok (x ++ y)
  | [], b, x, y, hx, hy => by cases hx; simpa using hy
  | i :: a, b, x, y, hx, hy => by
    simp only [ifacesEvents] at hx
    split at hx
    · cases hx
    · rename_i xi hxi
      split at hx
      · cases hx
      · rename_i xa hxa
        cases hx
        simp only [List.cons_append, ifacesEvents, hxi, ifacesEvents_append a b hxa hy, List.append_assoc]

theorem ifacesEvents_append_ok : ∀ (a b : List Interface) {z : List Event},
    ifacesEvents (a ++ b) = .ok z → ∃ x, ifacesEvents a = .ok x
  | [], _, _, _ => ⟨[], rfl⟩
  | i :: a, b, z, h => by
    simp only [List.cons_append, ifacesEvents] at h ⊢
    split at h
    · cases h
    · rename_i xi hxi
      split at h
      · cases h
      · rename_i r hr
        obtain ⟨x, hx⟩ := ifacesEvents_append_ok a b hr
        exact ⟨xi ++ x, by simp only [hx]⟩

theorem run_blocks : ∀ (is : List Interface), (∀ i ∈ is, i.WF) →
    ∃ evs, ifacesEvents is = .ok evs ∧ ∀ st : HState, st.skip = false →
      ∃ st', run st evs = .ok st' ∧
        st'.world = World.parseBlocks st.skipKnown st.world (is.map recIface) ∧
        st'.skip = false ∧ st'.skipKnown = st.skipKnown
  | [], _ => ⟨[], rfl, fun st hs => ⟨st, rfl, rfl, hs, rfl⟩⟩
  | i :: is, hwf => by
    obtain ⟨body, _, hev, _⟩ := ifaceEvents_wf (hwf i List.mem_cons_self)
    obtain ⟨evs, he, hrun⟩ := run_blocks is (fun j hj => hwf j (List.mem_cons_of_mem _ hj))
    refine ⟨(.start kInterface [(kName, i.name)] :: (body ++ [.stop kInterface])) ++ evs,
      by simp only [ifacesEvents, hev, he], ?_⟩
    intro st hs
    -- first block: skipped or parsed
    have hfirst : ∃ st1, run st (.start kInterface [(kName, i.name)] :: (body ++ [.stop kInterface])) = .ok st1 ∧
        st1.world = World.parseBlock st.skipKnown st.world (recIface i) ∧
        st1.skip = false ∧ st1.skipKnown = st.skipKnown := by
      cases hk : kget? st.known i.name with
      | none => exact run_ifaceNew (hwf i List.mem_cons_self) hev st hs (Or.inl hk)
      | some id =>
        cases hsk : st.skipKnown with
        | false => exact hsk ▸ run_ifaceNew (hwf i List.mem_cons_self) hev st hs (Or.inr hsk)
        | true =>
          refine ⟨_, run_ifaceSkip hev st hs hk hsk, ?_, hs, hsk⟩
          simp [HState.world, World.parseBlock, recIface, hk]
    obtain ⟨st1, h1, w1, s1, k1⟩ := hfirst
    obtain ⟨st2, h2, w2, s2, k2⟩ := hrun st1 s1
    refine ⟨st2, ?_, ?_, s2, k2.trans k1⟩
    · rw [run_append, h1]; exact h2
    · rw [w2, w1, k1]; simp [World.parseBlocks]

/-! ### the `_xml` cache -/

/-- a cached text is the text `_getXml` would build now -/
def Cached.Coherent (c : Cached) : Prop := ∀ x, c.xml = some x → ifaceEvents c.iface = .ok x

theorem Cached.new_coherent (n : Str) : (Cached.new n).Coherent := by
  intro x h; cases h

theorem Cached.getXml_eq {c : Cached} (hc : c.Coherent) :
    (match c.getXml with
     | .ok (x, _) => Except.ok x
     | .error e => .error e) = ifaceEvents c.iface := by
  unfold Cached.getXml
  cases hx : c.xml with
  | some x => simp [hc x hx]
  | none => cases ifaceEvents c.iface <;> simp

theorem Cached.getXml_coherent {c c' : Cached} {x : List Event} (hc : c.Coherent)
    (h : c.getXml = .ok (x, c')) : c'.Coherent ∧ c'.iface = c.iface := by
  unfold Cached.getXml at h
  cases hx : c.xml with
  | some y => simp only [hx] at h; cases h; exact ⟨hc, rfl⟩
  | none =>
    simp only [hx] at h
    cases he : ifaceEvents c.iface with
    | error e => simp [he] at h
    | ok y =>
      simp only [he] at h
      cases h
      exact ⟨fun z hz => by cases hz; exact he, rfl⟩

/-- every operation of the API leaves the cache empty or current -/
theorem Cached.apply_coherent {c c' : Cached} (hc : c.Coherent) (o : Op) (h : c.apply o = .ok c') :
    c'.Coherent := by
  cases o <;> simp only [Cached.apply] at h
  case getXml =>
    cases hg : c.getXml with
    | error e => simp [hg] at h
    | ok r =>
      obtain ⟨x, c''⟩ := r
      simp only [hg] at h
      cases h
      exact (Cached.getXml_coherent hc hg).1
  all_goals
    first
    | (split at h
       · cases h
       · cases h; intro x hx; cases hx)
    | (cases h; intro x hx; cases hx)

theorem Cached.applyAll_coherent : ∀ (os : List Op) {c c' : Cached}, c.Coherent →
    c.applyAll os = .ok c' → c'.Coherent
  | [], c, c', hc, h => by cases h; exact hc
  | o :: os, c, c', hc, h => by
    simp only [Cached.applyAll] at h
    split at h
    · cases h
    · rename_i c1 h1
      exact Cached.applyAll_coherent os (Cached.apply_coherent hc o h1) h

theorem blocksEvents_coherent : ∀ (cs : List Cached), (∀ c ∈ cs, c.Coherent) →
    blocksEvents cs = ifacesEvents (cs.map (·.iface))
  | [], _ => rfl
  | c :: cs, hc => by
    have h1 := Cached.getXml_eq (hc c List.mem_cons_self)
    have h2 := blocksEvents_coherent cs (fun c' hc' => hc c' (List.mem_cons_of_mem _ hc'))
    simp only [blocksEvents, List.map_cons, ifacesEvents, ← h1, h2]
    cases c.getXml with
    | error e => rfl
    | ok r => obtain ⟨x, c'⟩ := r; rfl

/-! ### the three standard interfaces -/

/-- table tie: the text `_intro` is what `_getXml` would emit for `stdIfaces` -/
theorem std_events : ifacesEvents stdIfaces = .ok introEvents := by decide

/-! ### the templates of `_getXml`, probed -/

/-- the probe interface of the table, declared through the modelled API -/
def probeOps : List Op :=
  Gen.IntroStd.probeMethods.map (fun x => Op.addMethod (Method.new x.1 x.2.1 x.2.2)) ++
  Gen.IntroStd.probeSignals.map (fun x => Op.addSignal (Signal.new x.1 x.2)) ++
  Gen.IntroStd.probeProperties.map (fun x => Op.addProperty (Property.new x.1 x.2.1 x.2.2.1 x.2.2.2.1
    (match x.2.2.2.2 with
     | 0 => EmitsArg.true
     | 1 => EmitsArg.false
     | _ => EmitsArg.invalidates)))

/-- table tie: for the probe interface (methods with and without arguments, a signal, a property per access and
change-notification mode) the model's `_getXml` emits exactly the events of the text the real `_getXml` wrote
when the table was generated - element and attribute names, attribute order, member order, access and emits
strings. -/
theorem probe_events :
    (match (Cached.new Gen.IntroStd.probeName).applyAll probeOps with
     | .ok c => ifaceEvents c.iface
     | .error e => .error e) = .ok (Gen.IntroStd.probeEvents.map toEvent) := by decide

/-- executable form of `Interface.WF` -/
def Method.consistentB (m : Method) : Bool :=
  match genCompleteTypes m.sigIn, genCompleteTypes m.sigOut with
  | .ok ins, .ok outs =>
    decide (ins.flatten = m.sigIn) && decide (outs.flatten = m.sigOut) &&
    decide (m.nargs = ins.length) && decide (m.nret = outs.length)
  | _, _ => false

def Signal.consistentB (s : Signal) : Bool :=
  match genCompleteTypes s.sig with
  | .ok ts => decide (ts.flatten = s.sig) && decide (s.nargs = ts.length)
  | _ => false

def Interface.wfB (i : Interface) : Bool :=
  i.methods.all Method.consistentB && i.signals.all Signal.consistentB &&
  i.properties.all (fun p => p.access = kRead || p.access = kWrite || p.access = kReadWrite) &&
  decide (i.methods.map Method.name).Nodup && decide (i.signals.map Signal.name).Nodup &&
  decide (i.properties.map Property.name).Nodup

theorem Method.consistentB_sound {m : Method} (h : m.consistentB = true) : m.Consistent := by
  unfold Method.consistentB at h
  split at h
  · rename_i ins outs hi ho
    simp only [Bool.and_eq_true, decide_eq_true_eq] at h
    exact ⟨ins, outs, ⟨hi, h.1.1.1⟩, ⟨ho, h.1.1.2⟩, h.1.2, h.2⟩
  · cases h

theorem Signal.consistentB_sound {s : Signal} (h : s.consistentB = true) : s.Consistent := by
  unfold Signal.consistentB at h
  split at h
  · rename_i ts ht
    simp only [Bool.and_eq_true, decide_eq_true_eq] at h
    exact ⟨ts, ⟨ht, h.1⟩, h.2⟩
  · cases h

theorem Interface.wfB_sound {i : Interface} (h : i.wfB = true) : i.WF := by
  simp only [Interface.wfB, Bool.and_eq_true, List.all_eq_true, decide_eq_true_eq, Bool.or_eq_true] at h
  obtain ⟨⟨⟨⟨⟨hm, hs⟩, hp⟩, n1⟩, n2⟩, n3⟩ := h
  exact ⟨fun m hmem => Method.consistentB_sound (hm m hmem), fun s hmem => Signal.consistentB_sound (hs s hmem),
    fun p hmem => by
      rcases hp p hmem with (h | h) | h
      · exact Or.inl h
      · exact Or.inr (Or.inl h)
      · exact Or.inr (Or.inr h),
    n1, n2, n3⟩

/-- table lemma: the definitions read off `_intro` are well formed -/
theorem std_wfB : stdIfaces.all Interface.wfB = true := by decide

theorem std_wf : ∀ i ∈ stdIfaces, i.WF :=
  fun i hi => Interface.wfB_sound (List.all_eq_true.mp std_wfB i hi)

/-! ### `generateIntrospectionXML` and the parse of its output -/

theorem run_children : ∀ (ms : List Str) (st : HState), st.skip = false →
    run st (childEvents ms ++ [.stop kNode]) = .ok st
  | [], st, hs => by simp [childEvents, run, step, endElement, hs, tag_node]
  | m :: ms, st, hs => by
    simp only [childEvents, List.cons_append, run, step, startElement, hs, tag_node, endElement,
      Bool.false_and, Bool.false_eq_true, if_false]
    exact run_children ms st hs

/-- the children `generateIntrospectionXML` lists below `path` -/
def childrenOf (path : Str) (exported : List (Str × List Cached)) : List Str :=
  childMatches (if endsWithSlash path then path else path ++ ['/']) (exported.map (·.1)) []

theorem generate_exported {path : Str} {exported : List (Str × List Cached)} {cs : List Cached}
    (hobj : exportedGet? exported path = some cs) {blocks : List Event}
    (hb : ifacesEvents (cs.map (·.iface) ++ stdIfaces) = .ok blocks) (hcoh : ∀ c ∈ cs, c.Coherent) :
    generate path exported = .ok (some (.start kNode [(kName, path)] ::
      (blocks ++ (childEvents (childrenOf path exported) ++ [.stop kNode])))) := by
  have hbe := blocksEvents_coherent cs hcoh
  obtain ⟨x, hx⟩ := ifacesEvents_append_ok _ _ hb
  have := ifacesEvents_append _ _ hx std_events
  rw [hb] at this
  cases this
  simp only [generate, hobj, hbe, hx, childrenOf, Option.isNone_some, Bool.false_and,
    Bool.false_eq_true, if_false, List.append_assoc]

end Txdbus.Intro
