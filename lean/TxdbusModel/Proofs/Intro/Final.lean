import TxdbusModel.Proofs.Intro.Safe
/-
Last step before the property theorems: the parse of a generated document read index by index, for
objects whose interfaces have pairwise distinct names.
Core Lean only.
-/
namespace Txdbus.Intro

theorem map_recIface_names (is : List Interface) :
    (is.map recIface).map (·.name) = is.map (·.name) := by
  induction is with
  | nil => rfl
  | cons i is ih => simp only [List.map_cons, ih]; rfl

/-- the returned list has one entry per interface element; entry `j` is described by `BlockFacts`;
objects that existed before the parse keep their identity and content -/
theorem parsed_index {decl : List Interface} (hn : (decl.map (·.name)).Nodup)
    (heap : List Interface) (known : List (Str × Nat)) (sk : Bool) {w' : World}
    (hw : w' = World.parseBlocks sk ⟨heap, known, []⟩ (decl.map recIface)) :
    (∃ ext, w'.heap = heap ++ ext) ∧ w'.interfaces.length = decl.length ∧
    ∀ (j : Nat) (d : Interface), decl[j]? = some d →
      BlockFacts sk ⟨heap, known, []⟩ w' (recIface d) w'.interfaces[j]? := by
  subst hw
  obtain ⟨ext, more, h1, h2, h3, _, h5⟩ := parseBlocks_index sk (decl.map recIface) ⟨heap, known, []⟩
    (by rw [map_recIface_names]; exact hn)
  refine ⟨⟨ext, h1⟩, ?_, ?_⟩
  · rw [h2]; simpa using h3
  · intro j d hd
    have := h5 j (recIface d) (by simp [hd])
    rw [h2]
    simpa using this

/-- old objects are untouched: the heap only grows -/
theorem heap_prefix {heap ext : List Interface} {id : Nat} (h : id < heap.length) :
    (heap ++ ext)[id]? = heap[id]? := by
  simp [List.getElem?_append_left h]

/-- when every element is parsed (replacement requested, or no name known before), the returned objects
are new and hold exactly the rebuilt definitions -/
theorem fresh_result {decl : List Interface} (hn : (decl.map (·.name)).Nodup)
    (heap : List Interface) (known : List (Str × Nat)) (sk : Bool)
    (hfresh : sk = false ∨ ∀ d ∈ decl, kget? known d.name = none) {st : HState}
    (hw : st.world = World.parseBlocks sk ⟨heap, known, []⟩ (decl.map recIface)) :
    st.result = (decl.map recIface).map some := by
  obtain ⟨_, hlen, hidx⟩ := parsed_index hn heap known sk hw
  simp only [HState.world] at hlen hidx
  apply List.ext_getElem?
  intro j
  simp only [HState.result, List.getElem?_map]
  cases hd : decl[j]? with
  | none =>
    have : decl.length ≤ j := by
      rcases Nat.lt_or_ge j decl.length with h | h
      · simp [List.getElem?_eq_getElem h] at hd
      · exact h
    rw [List.getElem?_eq_none (by omega)]
    rfl
  | some d =>
    have hf := (hidx j d hd).fresh (by
      rcases hfresh with h | h
      · exact Or.inl h
      · exact Or.inr (h d (List.mem_of_getElem? hd)))
    obtain ⟨id, e1, _, e3, _⟩ := hf
    simp only [e1, Option.map_some, e3]

theorem Declared.wf {cs : List Cached} (h : Declared cs) : (∀ c ∈ cs, c.Coherent) ∧ ∀ c ∈ cs, c.iface.WF :=
  ⟨fun c hc => by obtain ⟨n, ops, hd⟩ := h c hc; exact (declare_wf hd).2,
   fun c hc => by obtain ⟨n, ops, hd⟩ := h c hc; exact (declare_wf hd).1⟩

theorem decl_wf {cs : List Cached} (h : Declared cs) : ∀ i ∈ decl cs, i.WF := by
  intro i hi
  rcases List.mem_append.mp hi with hi | hi
  · obtain ⟨c, hc, rfl⟩ := List.mem_map.mp hi
    exact h.wf.2 c hc
  · exact std_wf i hi

end Txdbus.Intro
