import TxdbusModel.Intro.Registry
import TxdbusModel.Proofs.Intro.Main
/-
Process-level facts for C15: which operations of a process can change `DBusInterface.knownInterfaces`.
-/
namespace Txdbus.Intro

theorem tagOf_interface {n : Str} (h : tagOf n = .interface) : n = kInterface := by
  unfold tagOf at h
  repeat' split at h
  all_goals first | assumption | cases h

theorem heapUpdate_known {st st' : HState} {id : Nat} {f : Interface → Except Err Interface}
    (h : heapUpdate st id f = .ok st') : st'.known = st.known := by
  unfold heapUpdate at h
  repeat' split at h
  all_goals first | (cases h; rfl) | cases h

theorem endElement_known {st st' : HState} {n : Str} (h : endElement st n = .ok st') :
    st'.known = st.known := by
  unfold endElement at h
  split at h
  · cases h; rfl
  · split at h
    · cases h; rfl
    · unfold endMethod at h
      repeat' split at h
      all_goals first | exact heapUpdate_known h | cases h
    · unfold endSignal at h
      repeat' split at h
      all_goals first | exact heapUpdate_known h | cases h
    · unfold endProperty at h
      repeat' split at h
      all_goals first | exact heapUpdate_known h | cases h
    · cases h; rfl

/-- `startElement` changes the table only in `start_interface`, and only under the element's own name -/
theorem startElement_known {st st' : HState} {n : Str} {attrs : List (Str × Str)}
    (h : startElement st n attrs = .ok st') {name : Str} {id : Nat} (hk : kget? st'.known name = some id) :
    kget? st.known name = some id ∨ (Event.start n attrs).Names name := by
  unfold startElement at h
  split at h
  · cases h; exact Or.inl hk
  · split at h
    · cases h; exact Or.inl hk
    · rename_i htag
      have hn := tagOf_interface htag
      subst hn
      unfold startInterface at h
      split at h
      · cases h
      · rename_i iname hname
        split at h
        · cases h; exact Or.inl hk
        · cases h
          by_cases hc : name = iname
          · subst hc; exact Or.inr ⟨attrs, rfl, hname⟩
          · simp only at hk
            rw [kget_kset_ne _ hc] at hk
            exact Or.inl hk
    · unfold startMethod at h
      split at h <;> cases h
      exact Or.inl hk
    · unfold startSignal at h
      split at h <;> cases h
      exact Or.inl hk
    · unfold startProperty at h
      repeat' split at h
      all_goals first | (cases h; exact Or.inl hk) | cases h
    · unfold startAnnotation at h
      repeat' split at h
      all_goals first | (cases h; exact Or.inl hk) | cases h
    · unfold startArg at h
      repeat' split at h
      all_goals first | (cases h; exact Or.inl hk) | cases h
    · cases h; exact Or.inl hk

theorem step_known {st st' : HState} {e : Event} (h : step st e = .ok st') {name : Str} {id : Nat}
    (hk : kget? st'.known name = some id) : kget? st.known name = some id ∨ e.Names name := by
  cases e with
  | start n a => exact startElement_known h hk
  | stop n => exact Or.inl (by rw [← endElement_known h]; exact hk)

/-- a parse (complete or ended by an exception) adds entries only under the names of the `<interface>`
elements it was shown -/
theorem runKeep_known : ∀ (evs : List Event) (st : HState) {name : Str} {id : Nat},
    kget? (runKeep st evs).1.known name = some id →
      kget? st.known name = some id ∨ ∃ e ∈ evs, e.Names name
  | [], st, _, _, hk => Or.inl hk
  | e :: es, st, name, id, hk => by
    unfold runKeep at hk
    split at hk
    · exact Or.inl hk
    · rename_i st' hs
      rcases runKeep_known es st' hk with h | ⟨e', he', hn⟩
      · rcases step_known hs h with h | h
        · exact Or.inl h
        · exact Or.inr ⟨e, List.mem_cons_self, h⟩
      · exact Or.inr ⟨e', List.mem_cons_of_mem _ he', hn⟩

/-- `runKeep` and `run` agree on parses that reach the end -/
theorem runKeep_of_run : ∀ (evs : List Event) (st st' : HState), run st evs = .ok st' →
    runKeep st evs = (st', none)
  | [], st, st', h => by cases h; rfl
  | e :: es, st, st', h => by
    unfold run at h
    unfold runKeep
    split at h
    · cases h
    · rename_i st1 hs
      rw [hs]
      exact runKeep_of_run es st1 st' h

theorem construct_error {w : Proc} {name : Str} {args : List CtorArg} {register : Bool} {e : Err}
    (h : ctorLoop (Interface.new name) args = .error e) :
    w.construct name args register = (.error e, w) := by
  simp only [Proc.construct, h]

theorem step_declaresNothing {w : Proc} {op : ProcOp} (h : op.DeclaresNothing) :
    (w.step op).known = w.known := by
  cases op with
  | parse r evs => exact h.elim
  | construct n a reg =>
    simp only [Proc.step, Proc.construct]
    rcases h with h | ⟨e, h⟩
    · subst h
      split <;> simp
    · rw [h]

theorem step_failed {w : Proc} {n : Str} {a : List CtorArg} {reg : Bool} {e : Err}
    (h : ctorLoop (Interface.new n) a = .error e) : w.step (.construct n a reg) = w := by
  simp only [Proc.step, construct_error h]

theorem step_known_proc {w : Proc} {op : ProcOp} {name : Str} {id : Nat}
    (hk : kget? (w.step op).known name = some id) :
    kget? w.known name = some id ∨ op.MakesKnown name := by
  cases op with
  | parse r evs =>
    simp only [Proc.step, Proc.parse] at hk
    rcases runKeep_known evs _ hk with h | h
    · exact Or.inl h
    · exact Or.inr h
  | construct n a reg =>
    simp only [Proc.step, Proc.construct] at hk
    split at hk
    · exact Or.inl hk
    · rename_i i hi
      cases reg with
      | false => exact Or.inl hk
      | true =>
        simp only [if_true] at hk
        by_cases hc : name = n
        · exact Or.inr ⟨hc.symm, rfl, i, hi⟩
        · rw [kget_kset_ne _ hc] at hk
          exact Or.inl hk

theorem runAll_known : ∀ (ops : List ProcOp) (w : Proc) {name : Str} {id : Nat},
    kget? (w.runAll ops).known name = some id →
      kget? w.known name = some id ∨ ∃ op ∈ ops, op.MakesKnown name
  | [], _, _, _, hk => Or.inl hk
  | op :: ops, w, name, id, hk => by
    simp only [Proc.runAll, List.foldl_cons] at hk
    rcases runAll_known ops (w.step op) hk with h | ⟨o, ho, hm⟩
    · rcases step_known_proc h with h | h
      · exact Or.inl h
      · exact Or.inr ⟨op, List.mem_cons_self, h⟩
    · exact Or.inr ⟨o, List.mem_cons_of_mem _ ho, hm⟩

theorem runAll_declaresNothing : ∀ (ops : List ProcOp) (w : Proc), (∀ op ∈ ops, op.DeclaresNothing) →
    (w.runAll ops).known = w.known
  | [], _, _ => rfl
  | op :: ops, w, h => by
    simp only [Proc.runAll, List.foldl_cons]
    have := runAll_declaresNothing ops (w.step op) (fun o ho => h o (List.mem_cons_of_mem _ ho))
    simp only [Proc.runAll] at this
    rw [this]
    exact step_declaresNothing (h op List.mem_cons_self)

end Txdbus.Intro
