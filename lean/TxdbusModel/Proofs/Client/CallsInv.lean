/-
C08 - the invariant of the pending-call table under distinct serials, and what each operation
does to a state that satisfies it.
-/
import TxdbusModel.Proofs.Client.CallsDict
import TxdbusModel.Client.CallsSpec

namespace Txdbus.Calls

open Txdbus.Calls.Spec
open Txdbus.Gen

variable {V R : Type}

/-- The invariant: the table is a dict whose Deferreds are distinct, issued and not yet fired;
an entry's timer is its own and is active; every active timer belongs to an entry; no exception
has been raised. -/
structure Inv (s : St V R) : Prop where
  nodup : s.pending.Nodup
  key_inj : KeyInj s.pending
  did_inj : ∀ e ∈ s.pending, ∀ e' ∈ s.pending, e.2.did = e'.2.did → e = e'
  did_lt : ∀ e ∈ s.pending, e.2.did < s.nextId
  unfired : ∀ e ∈ s.pending, ∀ x ∈ s.log, x.1 ≠ e.2.did
  timer_did : ∀ e ∈ s.pending, ∀ t, e.2.timer = some t → t = e.2.did ∧ (t, e.1) ∈ s.timers
  timer_pending : ∀ x ∈ s.timers, (x.2, (⟨x.1, some x.1⟩ : Pending)) ∈ s.pending
  log_lt : ∀ x ∈ s.log, x.1 < s.nextId
  faults : s.faults = []

theorem Inv.init (ready : Bool) : Inv (St.init V R ready) := by
  constructor <;> simp [St.init, KeyInj]

/-- Completion of the call registered under `σ` whose Deferred is `did`: the entry and the timer
go, the firing is logged. -/
def complete (s : St V R) (σ did : Nat) (f : Firing V R) : St V R :=
  { s with timers := s.timers.filter (fun e => e.1 ≠ did), pending := dDel σ s.pending,
           log := s.log ++ [(did, f)] }

/-- The operation registers a call under a serial that is not in the table. -/
def FreshOp (s : St V R) (op : Op V R) : Prop :=
  ∀ σ, regSerial op = some σ → ∀ e ∈ s.pending, e.1 ≠ σ

theorem no_timer_of_none {s : St V R} (hI : Inv s) {σ : Nat} {p : Pending} (hp : (σ, p) ∈ s.pending)
    (hn : p.timer = none) : ∀ x ∈ s.timers, x.1 ≠ p.did := by
  intro x hx hxd
  have h1 := hI.timer_pending x hx
  have h2 := hI.did_inj _ h1 _ hp (by simpa using hxd)
  have h3 := congrArg (fun e => e.2.timer) h2
  simp only [hn] at h3
  cases h3

theorem cancelOpt_eq {s : St V R} (hI : Inv s) {σ : Nat} {p : Pending} (hp : (σ, p) ∈ s.pending) :
    cancelOpt p.timer s.timers = some (s.timers.filter (fun e => e.1 ≠ p.did)) := by
  cases ht : p.timer with
  | none =>
    have h := no_timer_of_none hI hp ht
    simp only [cancelOpt]
    congr 1
    symm
    rw [List.filter_eq_self]
    intro x hx
    simpa using h x hx
  | some t =>
    have h1 : t = p.did := (hI.timer_did _ hp t ht).1
    have h2 : (t, σ) ∈ s.timers := (hI.timer_did _ hp t ht).2
    rw [h1] at h2 ⊢
    have hact : timerActive p.did s.timers = true := by
      simp only [timerActive, List.any_eq_true]
      exact ⟨_, h2, by simp⟩
    simp [cancelOpt, cancel, hact]

theorem retOp_char {s : St V R} (hI : Inv s) (rsn : Nat) (msg : Reply V) :
    ((∀ e ∈ s.pending, e.1 ≠ rsn) ∧ retOp s rsn msg = s) ∨
    (∃ p, (rsn, p) ∈ s.pending ∧ retOp s rsn msg = complete s rsn p.did (.callback (some msg))) := by
  cases hg : dGet rsn s.pending with
  | none => exact Or.inl ⟨dGet_none_iff.mp hg, by simp [retOp, hg]⟩
  | some p =>
    have hp := dGet_some_mem hg
    refine Or.inr ⟨p, hp, ?_⟩
    simp [retOp, hg, cancelOpt_eq hI hp, complete, fire]

theorem errOp_char {s : St V R} (hI : Inv s) (asStr : V → Option (List Char)) (rsn : Nat)
    (name : List Char) (body : Option (List V)) :
    ((∀ e ∈ s.pending, e.1 ≠ rsn) ∧ errOp asStr s rsn name body = s) ∨
    (∃ p, (rsn, p) ∈ s.pending ∧ errOp asStr s rsn name body =
      complete s rsn p.did (.remoteError name (remoteErrorFields asStr body).1 (remoteErrorFields asStr body).2)) := by
  cases hg : dGet rsn s.pending with
  | none => exact Or.inl ⟨dGet_none_iff.mp hg, by simp [errOp, hg]⟩
  | some p =>
    have hp := dGet_some_mem hg
    refine Or.inr ⟨p, hp, ?_⟩
    simp [errOp, hg, cancelOpt_eq hI hp, complete, fire]

theorem expireOp_char {s : St V R} (hI : Inv s) (tid : Nat) :
    ((∀ x ∈ s.timers, x.1 ≠ tid) ∧ expireOp s tid = s) ∨
    (∃ σ, (tid, σ) ∈ s.timers ∧ (σ, (⟨tid, some tid⟩ : Pending)) ∈ s.pending ∧
      expireOp s tid = complete s σ tid (.timeOut localText)) := by
  cases hf : s.timers.find? (fun e => e.1 == tid) with
  | none =>
    refine Or.inl ⟨?_, by simp [expireOp, hf]⟩
    intro x hx
    have := List.find?_eq_none.mp hf x hx
    simpa using this
  | some x =>
    obtain ⟨t, σ⟩ := x
    have hm := List.mem_of_find?_eq_some hf
    have ht : t = tid := by simpa using List.find?_some hf
    subst ht
    have hp := hI.timer_pending _ hm
    have hg := dGet_of_mem hI.key_inj hp
    refine Or.inr ⟨σ, hm, hp, ?_⟩
    simp only [expireOp, hf]
    simp [hg, complete, fire]

/-- The loop of `connectionLost` neither faults nor leaves a timer of the table behind. -/
theorem lostLoop_eq (r : R) : ∀ (l : List (Nat × Pending)) (ts : List (Nat × Nat)) (lg : List (Nat × Firing V R)),
    (∀ e ∈ l, ∀ t, e.2.timer = some t → ∃ σ, (t, σ) ∈ ts) →
    l.Pairwise (fun a b => ∀ t, a.2.timer = some t → b.2.timer ≠ some t) →
    ∃ ts', lostLoop r l ts lg = (ts', lg ++ l.map (fun e => (e.2.did, Firing.lost r)), none) ∧
      ∀ x ∈ ts', x ∈ ts ∧ ∀ e ∈ l, e.2.timer ≠ some x.1
  | [], ts, lg, _, _ => ⟨ts, by simp [lostLoop], by simp⟩
  | (σ, p) :: rest, ts, lg, hact, hpw => by
    have hpw' := List.pairwise_cons.mp hpw
    cases ht : p.timer with
    | none =>
      obtain ⟨ts', h1, h2⟩ := lostLoop_eq r rest ts (lg ++ [(p.did, Firing.lost r)])
        (fun e he => hact e (List.mem_cons_of_mem _ he)) hpw'.2
      refine ⟨ts', ?_, ?_⟩
      · simp only [lostLoop, ht, cancelOpt]
        rw [h1]
        simp
      · intro x hx
        refine ⟨(h2 x hx).1, ?_⟩
        intro e he
        rcases List.mem_cons.mp he with he | he
        · subst he; simp [ht]
        · exact (h2 x hx).2 e he
    | some t =>
      obtain ⟨σ', hσ'⟩ := hact (σ, p) List.mem_cons_self t ht
      have hactive : timerActive t ts = true := by
        simp only [timerActive, List.any_eq_true]
        exact ⟨_, hσ', by simp⟩
      obtain ⟨ts', h1, h2⟩ := lostLoop_eq r rest (ts.filter (fun e => e.1 ≠ t)) (lg ++ [(p.did, Firing.lost r)])
        (by
          intro e he t' ht'
          obtain ⟨σ'', h⟩ := hact e (List.mem_cons_of_mem _ he) t' ht'
          refine ⟨σ'', ?_⟩
          have hne : t' ≠ t := by
            intro heq
            subst heq
            exact hpw'.1 e he t' ht ht'
          simp [h, hne])
        hpw'.2
      refine ⟨ts', ?_, ?_⟩
      · simp only [lostLoop, ht, cancelOpt, cancel, hactive, if_true]
        rw [h1]
        simp
      · intro x hx
        have hx' := (h2 x hx).1
        simp only [List.mem_filter] at hx'
        refine ⟨hx'.1, ?_⟩
        intro e he
        rcases List.mem_cons.mp he with he | he
        · subst he
          simp only [ht]
          intro h
          cases h
          simp at hx'
        · exact (h2 x hx).2 e he

theorem lostOp_char {s : St V R} (hI : Inv s) (hr : s.ready = true) (r : R) :
    lostOp s r = { s with timers := [], pending := [],
                          log := s.log ++ s.pending.map (fun e => (e.2.did, Firing.lost r)) } := by
  have hact : ∀ e ∈ s.pending, ∀ t, e.2.timer = some t → ∃ σ, (t, σ) ∈ s.timers := by
    intro e he t ht
    exact ⟨e.1, (hI.timer_did e he t ht).2⟩
  have hpw : s.pending.Pairwise (fun a b => ∀ t, a.2.timer = some t → b.2.timer ≠ some t) := by
    refine List.Pairwise.imp_of_mem ?_ hI.nodup
    intro a b ha hb hab t hta htb
    have h1 := (hI.timer_did a ha t hta).1
    have h2 := (hI.timer_did b hb t htb).1
    exact hab (hI.did_inj a ha b hb (by rw [← h1, ← h2]))
  obtain ⟨ts', h1, h2⟩ := lostLoop_eq r s.pending s.timers s.log hact hpw
  have hnil : ts' = [] := by
    apply List.eq_nil_iff_forall_not_mem.mpr
    intro x hx
    obtain ⟨hx1, hx2⟩ := h2 x hx
    exact hx2 _ (hI.timer_pending x hx1) rfl
  subst hnil
  simp [lostOp, hr, h1]

end Txdbus.Calls
