/-
C08 - `Spec.firstCompletion` in terms of positions: it is the delivery of the first event that
concerns the call.
-/
import TxdbusModel.Client.CallsSpec

namespace Txdbus.Calls.Spec

open Txdbus.Calls

variable {V R : Type}

theorem firstCompletion_some (asStr : V → Option (List Char)) (σ k : Nat) (tm : Bool) {f : Firing V R} :
    ∀ (l : List (Op V R)), firstCompletion asStr σ k tm l = some f →
      ∃ (j : Nat) (op : Op V R), l[j]? = some op ∧ completes asStr σ k tm op = some f ∧
        ∀ (j' : Nat) (op' : Op V R), j' < j → l[j']? = some op' → completes asStr σ k tm op' = none
  | [], h => by simp [firstCompletion] at h
  | op :: rest, h => by
    unfold firstCompletion at h
    cases hc : completes asStr σ k tm op with
    | some g =>
      rw [hc] at h
      simp only [Option.some.injEq] at h
      subst h
      exact ⟨0, op, rfl, hc, fun j' _ hlt _ => absurd hlt (Nat.not_lt_zero _)⟩
    | none =>
      rw [hc] at h
      obtain ⟨j, opj, h1, h2, h3⟩ := firstCompletion_some asStr σ k tm rest h
      refine ⟨j + 1, opj, by simpa using h1, h2, ?_⟩
      intro j' op' hlt hget
      cases j' with
      | zero =>
        simp only [List.getElem?_cons_zero, Option.some.injEq] at hget
        subst hget
        exact hc
      | succ n =>
        exact h3 n op' (by omega) (by simpa using hget)

theorem firstCompletion_of_first (asStr : V → Option (List Char)) (σ k : Nat) (tm : Bool) {f : Firing V R} :
    ∀ (l : List (Op V R)) (j : Nat) (op : Op V R), l[j]? = some op → completes asStr σ k tm op = some f →
      (∀ (j' : Nat) (op' : Op V R), j' < j → l[j']? = some op' → completes asStr σ k tm op' = none) →
      firstCompletion asStr σ k tm l = some f
  | [], j, op, h, _, _ => by simp at h
  | o :: rest, 0, op, h, hc, _ => by
    simp only [List.getElem?_cons_zero, Option.some.injEq] at h
    subst h
    simp [firstCompletion, hc]
  | o :: rest, j + 1, op, h, hc, hfirst => by
    have h0 := hfirst 0 o (by omega) rfl
    simp only [firstCompletion, h0]
    refine firstCompletion_of_first asStr σ k tm rest j op (by simpa using h) hc ?_
    intro j' op' hlt hget
    exact hfirst (j' + 1) op' (by omega) (by simpa using hget)

theorem firstCompletion_none (asStr : V → Option (List Char)) (σ k : Nat) (tm : Bool) :
    ∀ (l : List (Op V R)), firstCompletion asStr σ k tm l = none ↔
      ∀ op ∈ l, completes asStr σ k tm op = none
  | [] => by simp [firstCompletion]
  | op :: rest => by
    unfold firstCompletion
    cases hc : completes asStr σ k tm op with
    | some g => simp [hc]
    | none => simp [hc, firstCompletion_none asStr σ k tm rest]

end Txdbus.Calls.Spec
