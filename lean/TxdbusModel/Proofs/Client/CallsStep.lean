/-
C08 - every operation preserves the invariant (for calls: when the serial is not in the table).
-/
import TxdbusModel.Proofs.Client.CallsInv

namespace Txdbus.Calls

open Txdbus.Calls.Spec
open Txdbus.Gen

variable {V R : Type}

theorem Inv.complete {s : St V R} (hI : Inv s) {σ : Nat} {p : Pending} (hp : (σ, p) ∈ s.pending)
    (f : Firing V R) : Inv (complete s σ p.did f) := by
  have hother : ∀ e ∈ s.pending, e.1 ≠ σ → e.2.did ≠ p.did := by
    intro e he hne hd
    have := hI.did_inj e he _ hp hd
    exact hne (by rw [this])
  constructor
  · exact hI.nodup.sublist List.filter_sublist
  · intro e he e' he' h
    exact hI.key_inj e (mem_dDel.mp he).1 e' (mem_dDel.mp he').1 h
  · intro e he e' he' h
    exact hI.did_inj e (mem_dDel.mp he).1 e' (mem_dDel.mp he').1 h
  · intro e he
    exact hI.did_lt e (mem_dDel.mp he).1
  · intro e he x hx
    have he' := mem_dDel.mp he
    simp only [Txdbus.Calls.complete, List.mem_append, List.mem_singleton] at hx
    rcases hx with hx | hx
    · exact hI.unfired e he'.1 x hx
    · subst hx
      exact fun h => hother e he'.1 he'.2 h.symm
  · intro e he t ht
    have he' := mem_dDel.mp he
    obtain ⟨h1, h2⟩ := hI.timer_did e he'.1 t ht
    refine ⟨h1, ?_⟩
    simp only [Txdbus.Calls.complete, List.mem_filter]
    refine ⟨h2, ?_⟩
    have := hother e he'.1 he'.2
    simp [h1, this]
  · intro x hx
    simp only [Txdbus.Calls.complete, List.mem_filter] at hx
    have h1 := hI.timer_pending x hx.1
    apply mem_dDel.mpr
    refine ⟨h1, ?_⟩
    intro hk
    have := hI.key_inj _ h1 _ hp hk
    have hd := congrArg (fun e => e.2.did) this
    simp at hd
    simp [hd] at hx
  · intro x hx
    simp only [Txdbus.Calls.complete, List.mem_append, List.mem_singleton] at hx
    rcases hx with hx | hx
    · exact hI.log_lt x hx
    · subst hx
      exact hI.did_lt _ hp
  · exact hI.faults

theorem Inv.callOpen {s : St V R} (hI : Inv s) {σ : Nat} (hfresh : ∀ e ∈ s.pending, e.1 ≠ σ)
    (tmo : Option Nat) (rs : RetSig) : Inv (callOp s σ true tmo rs) := by
  unfold callOp
  simp only [if_true]
  split
  · -- with a timer
    rw [dSet_fresh hfresh]
    constructor
    · simp only
      rw [List.nodup_append]
      refine ⟨hI.nodup, by simp, ?_⟩
      intro a ha b hb
      simp only [List.mem_singleton] at hb
      subst hb
      intro h
      subst h
      exact hfresh _ ha rfl
    · intro e he e' he' h
      simp only [List.mem_append, List.mem_singleton] at he he'
      rcases he with he | he <;> rcases he' with he' | he'
      · exact hI.key_inj e he e' he' h
      · subst he'; exact absurd h (hfresh e he)
      · subst he; exact absurd h.symm (hfresh e' he')
      · rw [he, he']
    · intro e he e' he' h
      simp only [List.mem_append, List.mem_singleton] at he he'
      rcases he with he | he <;> rcases he' with he' | he'
      · exact hI.did_inj e he e' he' h
      · subst he'; have := hI.did_lt e he; simp at h; omega
      · subst he; have := hI.did_lt e' he'; simp at h; omega
      · rw [he, he']
    · intro e he
      simp only [List.mem_append, List.mem_singleton] at he
      rcases he with he | he
      · have := hI.did_lt e he; simp only; omega
      · subst he; simp
    · intro e he x hx
      simp only [List.mem_append, List.mem_singleton] at he
      rcases he with he | he
      · exact hI.unfired e he x hx
      · subst he
        have := hI.log_lt x hx
        simp only
        omega
    · intro e he t ht
      simp only [List.mem_append, List.mem_singleton] at he
      rcases he with he | he
      · obtain ⟨h1, h2⟩ := hI.timer_did e he t ht
        exact ⟨h1, List.mem_append_left _ h2⟩
      · subst he
        simp only at ht
        cases ht
        exact ⟨rfl, by simp⟩
    · intro x hx
      simp only [List.mem_append, List.mem_singleton] at hx
      rcases hx with hx | hx
      · exact List.mem_append_left _ (hI.timer_pending x hx)
      · subst hx; simp
    · intro x hx
      have := hI.log_lt x hx
      simp only
      omega
    · exact hI.faults
  · -- without a timer
    rw [dSet_fresh hfresh]
    constructor
    · simp only
      rw [List.nodup_append]
      refine ⟨hI.nodup, by simp, ?_⟩
      intro a ha b hb
      simp only [List.mem_singleton] at hb
      subst hb
      intro h
      subst h
      exact hfresh _ ha rfl
    · intro e he e' he' h
      simp only [List.mem_append, List.mem_singleton] at he he'
      rcases he with he | he <;> rcases he' with he' | he'
      · exact hI.key_inj e he e' he' h
      · subst he'; exact absurd h (hfresh e he)
      · subst he; exact absurd h.symm (hfresh e' he')
      · rw [he, he']
    · intro e he e' he' h
      simp only [List.mem_append, List.mem_singleton] at he he'
      rcases he with he | he <;> rcases he' with he' | he'
      · exact hI.did_inj e he e' he' h
      · subst he'; have := hI.did_lt e he; simp at h; omega
      · subst he; have := hI.did_lt e' he'; simp at h; omega
      · rw [he, he']
    · intro e he
      simp only [List.mem_append, List.mem_singleton] at he
      rcases he with he | he
      · have := hI.did_lt e he; simp only; omega
      · subst he; simp
    · intro e he x hx
      simp only [List.mem_append, List.mem_singleton] at he
      rcases he with he | he
      · exact hI.unfired e he x hx
      · subst he
        have := hI.log_lt x hx
        simp only
        omega
    · intro e he t ht
      simp only [List.mem_append, List.mem_singleton] at he
      rcases he with he | he
      · exact hI.timer_did e he t ht
      · subst he
        simp at ht
    · intro x hx
      exact List.mem_append_left _ (hI.timer_pending x hx)
    · intro x hx
      have := hI.log_lt x hx
      simp only
      omega
    · exact hI.faults

/-- A call that completes at once (`expectReply=False`, or construction failed): a fresh Deferred is
fired, the table is untouched. -/
theorem Inv.immediate {s : St V R} (hI : Inv s) (rs : RetSig) (f : Firing V R) :
    Inv (fire { s with nextId := s.nextId + 1, issued := s.issued ++ [(s.nextId, rs)] } s.nextId f) := by
  constructor
  · exact hI.nodup
  · exact hI.key_inj
  · exact hI.did_inj
  · intro e he
    have := hI.did_lt e he
    simp only [fire]
    omega
  · intro e he x hx
    simp only [fire, List.mem_append, List.mem_singleton] at hx
    rcases hx with hx | hx
    · exact hI.unfired e he x hx
    · subst hx
      have := hI.did_lt e he
      simp only
      omega
  · exact hI.timer_did
  · exact hI.timer_pending
  · intro x hx
    simp only [fire, List.mem_append, List.mem_singleton] at hx
    rcases hx with hx | hx
    · have := hI.log_lt x hx
      simp only [fire]
      omega
    · subst hx
      simp [fire]
  · exact hI.faults

theorem Inv.lost {s : St V R} (hI : Inv s) (r : R) : Inv (lostOp s r) := by
  cases hr : s.ready with
  | false => simpa [lostOp, hr] using hI
  | true =>
    rw [lostOp_char hI hr]
    constructor
    · simp
    · simp [KeyInj]
    · simp
    · simp
    · simp
    · simp
    · simp
    · intro x hx
      simp only [List.mem_append, List.mem_map] at hx
      rcases hx with hx | ⟨e, he, hx⟩
      · exact hI.log_lt x hx
      · subst hx
        exact hI.did_lt e he
    · exact hI.faults

theorem Inv.step {s : St V R} (hI : Inv s) (asStr : V → Option (List Char)) (op : Op V R)
    (hf : FreshOp s op) : Inv (step asStr s op) := by
  cases op with
  | call σ er tmo rs =>
    cases er with
    | true => exact hI.callOpen (hf σ rfl) tmo rs
    | false => simpa [Txdbus.Calls.step, callOp] using hI.immediate rs (.callback none)
  | callBad rs => simpa [Txdbus.Calls.step, callBadOp] using hI.immediate rs .constructFailed
  | ret rsn msg =>
    rcases retOp_char hI rsn msg with ⟨_, h⟩ | ⟨p, hp, h⟩
    · simpa [Txdbus.Calls.step, h] using hI
    · simpa [Txdbus.Calls.step, h] using hI.complete hp _
  | err rsn name body =>
    rcases errOp_char hI asStr rsn name body with ⟨_, h⟩ | ⟨p, hp, h⟩
    · simpa [Txdbus.Calls.step, h] using hI
    · simpa [Txdbus.Calls.step, h] using hI.complete hp _
  | expire tid =>
    rcases expireOp_char hI tid with ⟨_, h⟩ | ⟨σ, _, hp, h⟩
    · simpa [Txdbus.Calls.step, h] using hI
    · simpa [Txdbus.Calls.step, h] using hI.complete (p := ⟨tid, some tid⟩) hp _
  | lost r => exact hI.lost r

end Txdbus.Calls
