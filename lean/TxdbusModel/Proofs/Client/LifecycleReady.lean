import TxdbusModel.Proofs.Client.LifecycleFrame
/-
C09 - structural invariant of a ready connection: distinct serials and callback identities, every live
timer belongs to a pending timed call, and the registry holds exactly the live proxies (explicit and
introspected alike), each under its own slot.
-/
namespace Txdbus.Client.Lifecycle
open Txdbus.Client.Endpoints

/-! ## List helpers -/

theorem removeCall_sublist (n : Nat) : ∀ l : List Call, (removeCall n l).Sublist l
  | [] => List.Sublist.slnil
  | c :: t => by
    unfold removeCall
    split
    · exact List.sublist_cons_self c t
    · exact List.Sublist.cons_cons c (removeCall_sublist n t)

theorem mem_removeCall_of_ne {n : Nat} {c : Call} : ∀ {l : List Call}, c ∈ l → c.serial ≠ n → c ∈ removeCall n l
  | [], h, _ => by cases h
  | d :: t, h, hn => by
    unfold removeCall
    split
    · rename_i hd
      rcases List.mem_cons.mp h with rfl | h
      · exact absurd hd hn
      · exact h
    · rcases List.mem_cons.mp h with rfl | h
      · exact List.mem_cons_self
      · exact List.mem_cons_of_mem _ (mem_removeCall_of_ne h hn)

theorem findCall_some {n : Nat} {c : Call} : ∀ {l : List Call}, findCall n l = some c → c ∈ l ∧ c.serial = n
  | [], h => by simp [findCall] at h
  | d :: t, h => by
    unfold findCall at h
    split at h
    · rename_i hd
      cases h
      exact ⟨List.mem_cons_self, hd⟩
    · obtain ⟨h1, h2⟩ := findCall_some h
      exact ⟨List.mem_cons_of_mem _ h1, h2⟩

theorem findCall_none {n : Nat} : ∀ {l : List Call}, findCall n l = none → ∀ c ∈ l, c.serial ≠ n
  | [], _, c, hc => by cases hc
  | d :: t, h, c, hc => by
    unfold findCall at h
    split at h
    · cases h
    · rename_i hd
      rcases List.mem_cons.mp hc with rfl | hc
      · exact hd
      · exact findCall_none h c hc

theorem eq_of_nodup_map {α β : Type} {f : α → β} : ∀ {l : List α}, (l.map f).Nodup →
    ∀ {a b : α}, a ∈ l → b ∈ l → f a = f b → a = b
  | [], _, _, _, ha, _, _ => by cases ha
  | x :: t, hnd, a, b, ha, hb, hab => by
    have hnd' : (t.map f).Nodup := (List.nodup_cons.mp (by simpa using hnd)).2
    have hx : f x ∉ t.map f := (List.nodup_cons.mp (by simpa using hnd)).1
    rcases List.mem_cons.mp ha with ha | ha <;> rcases List.mem_cons.mp hb with hb | hb
    · rw [ha, hb]
    · exact absurd (by rw [← ha, hab]; exact List.mem_map_of_mem hb) hx
    · exact absurd (by rw [← hb, ← hab]; exact List.mem_map_of_mem ha) hx
    · exact eq_of_nodup_map hnd' ha hb hab

theorem removeCb_sublist (i : Nat) : ∀ l : List Cb, (removeCb i l).Sublist l
  | [] => List.Sublist.slnil
  | c :: t => by
    unfold removeCb
    split
    · exact List.sublist_cons_self c t
    · exact List.Sublist.cons_cons c (removeCb_sublist i t)

theorem nodup_append_fresh {l : List Nat} {n : Nat} (hnd : l.Nodup) (hlt : ∀ x ∈ l, x < n) : (l ++ [n]).Nodup := by
  rw [List.nodup_append]
  refine ⟨hnd, by simp, ?_⟩
  intro a ha b hb
  simp at hb
  subst hb
  exact Nat.ne_of_lt (hlt a ha)

theorem modifyProxy_ids (p : Nat) (f : Proxy → Proxy) (hf : ∀ x, (f x).id = x.id) :
    ∀ l : List Proxy, (modifyProxy p f l).map (·.id) = l.map (·.id)
  | [] => rfl
  | x :: t => by
    unfold modifyProxy
    split
    · simp [hf]
    · simp [modifyProxy_ids p f hf t]

theorem mem_modifyProxy {p : Nat} {f : Proxy → Proxy} {q : Proxy} :
    ∀ {l : List Proxy}, q ∈ modifyProxy p f l → q ∈ l ∨ ∃ q0 ∈ l, q0.id = p ∧ q = f q0
  | [], h => by cases h
  | x :: t, h => by
    unfold modifyProxy at h
    split at h
    · rename_i hx
      rcases List.mem_cons.mp h with rfl | h
      · exact Or.inr ⟨x, List.mem_cons_self, hx, rfl⟩
      · exact Or.inl (List.mem_cons_of_mem _ h)
    · rcases List.mem_cons.mp h with rfl | h
      · exact Or.inl List.mem_cons_self
      · rcases mem_modifyProxy h with h | ⟨q0, h0, h1, h2⟩
        · exact Or.inl (List.mem_cons_of_mem _ h)
        · exact Or.inr ⟨q0, List.mem_cons_of_mem _ h0, h1, h2⟩

theorem modifyProxy_alive_ids (p : Nat) (f : Proxy → Proxy) (hf : ∀ x, (f x).id = x.id) (ha : ∀ x, (f x).alive = x.alive) :
    ∀ l : List Proxy, ((modifyProxy p f l).filter (·.alive)).map (·.id) = (l.filter (·.alive)).map (·.id)
  | [] => rfl
  | x :: t => by
    unfold modifyProxy
    split
    · simp only [List.filter_cons, ha]
      split <;> simp [hf]
    · simp only [List.filter_cons]
      split <;> simp [modifyProxy_alive_ids p f hf ha t]

theorem filter_ne_self {l : List Nat} {p : Nat} (h : p ∉ l) : l.filter (· ≠ p) = l := by
  apply List.filter_eq_self.mpr
  intro a ha
  simp
  exact fun e => h (e ▸ ha)

/-- Letting go of proxy `p`: the live proxies are the former ones without `p`. -/
theorem dropProxy_alive_ids (p : Nat) :
    ∀ l : List Proxy, (l.map (·.id)).Nodup →
      ((modifyProxy p (fun q => { q with alive := false }) l).filter (·.alive)).map (·.id)
        = ((l.filter (·.alive)).map (·.id)).filter (· ≠ p)
  | [], _ => rfl
  | x :: t, hnd => by
    have hnd' : (t.map (·.id)).Nodup := (List.nodup_cons.mp (by simpa using hnd)).2
    have hx : x.id ∉ t.map (·.id) := (List.nodup_cons.mp (by simpa using hnd)).1
    unfold modifyProxy
    split
    · rename_i hxp
      have hp : p ∉ (t.filter (·.alive)).map (·.id) := by
        intro hmem
        obtain ⟨y, hy, hyp⟩ := List.mem_map.mp hmem
        exact hx (hxp ▸ hyp ▸ List.mem_map_of_mem (List.mem_filter.mp hy).1)
      simp only [List.filter_cons]
      cases hal : x.alive <;> simp [hxp] <;> simpa using (filter_ne_self hp).symm
    · rename_i hxp
      simp only [List.filter_cons]
      cases hal : x.alive
      · simp [dropProxy_alive_ids p t hnd']
      · simp [dropProxy_alive_ids p t hnd', hxp]

theorem regSet_fresh (k p : Nat) : ∀ reg : List (Nat × Nat), (∀ e ∈ reg, e.1 ≠ k) → regSet k p reg = reg ++ [(k, p)]
  | [], _ => rfl
  | (k', p') :: t, h => by
    have hk : k' ≠ k := h (k', p') List.mem_cons_self
    simp [regSet, hk, regSet_fresh k p t (fun e he => h e (List.mem_cons_of_mem _ he))]

/-! ## The invariant -/

structure ReadyOk (s : St) : Prop where
  pend : PendOk s
  timersOk : ∀ t ∈ s.timers, ∃ c ∈ s.pending, c.serial = t ∧ c.timed = true
  cbIds : (s.dcCallbacks.map (·.id)).Nodup
  cbLt : ∀ c ∈ s.dcCallbacks, c.id < s.nextCb
  proxyIds : (s.proxies.map (·.id)).Nodup
  proxyLt : ∀ p ∈ s.proxies, p.id < s.nextProxy
  proxyCbIds : ∀ p ∈ s.proxies, (p.cbs.map (·.id)).Nodup
  proxyCbLt : ∀ p ∈ s.proxies, ∀ c ∈ p.cbs, c.id < s.nextCb
  regSlots : ∀ e ∈ s.registry, e.1 = e.2
  reg : s.registry.map (·.2) = (s.proxies.filter (·.alive)).map (·.id)

theorem readyOk_issueCall (timed : Bool) (k : CallKind) (s : St) (h : ReadyOk s) : ReadyOk (issueCall timed k s) := by
  obtain ⟨h1, h2, h3, h4, h5, h6, h7, h8, h9, h10⟩ := h
  refine ⟨pendOk_issueCall timed k s h1, ?_, h3, h4, h5, h6, h7, h8, h9, h10⟩
  intro t ht
  cases timed
  · simp only [issueCall, Bool.false_eq_true, if_false] at ht ⊢
    obtain ⟨c, hc, hcs, hct⟩ := h2 t ht
    exact ⟨c, by simp [hc], hcs, hct⟩
  · simp only [issueCall, if_true, List.mem_append, List.mem_singleton] at ht ⊢
    rcases ht with ht | ht
    · obtain ⟨c, hc, hcs, hct⟩ := h2 t ht
      exact ⟨c, Or.inl hc, hcs, hct⟩
    · exact ⟨_, Or.inr rfl, ht.symm, rfl⟩

/-- Deleting the entry `serial` and cancelling its timer. -/
theorem readyOk_removeCall (serial : Nat) (s : St) (h : ReadyOk s) :
    ReadyOk { s with timers := s.timers.filter (· ≠ serial), pending := removeCall serial s.pending } := by
  obtain ⟨h1, h2, h3, h4, h5, h6, h7, h8, h9, h10⟩ := h
  refine ⟨⟨?_, ?_⟩, ?_, h3, h4, h5, h6, h7, h8, h9, h10⟩
  · exact h1.1.sublist ((removeCall_sublist serial s.pending).map _)
  · intro c hc; exact h1.2 c ((removeCall_sublist serial s.pending).subset hc)
  · intro t ht
    simp only [List.mem_filter, decide_eq_true_eq] at ht
    obtain ⟨c, hc, hcs, hct⟩ := h2 t ht.1
    exact ⟨c, mem_removeCall_of_ne hc (hcs ▸ ht.2), hcs, hct⟩

theorem readyOk_log (s : St) (l : List Fx) (h : ReadyOk s) : ReadyOk { s with log := l } :=
  ⟨h.1, h.2, h.3, h.4, h.5, h.6, h.7, h.8, h.9, h.10⟩

theorem readyOk_takeCall (c : Call) (s : St) (h : ReadyOk s) (hc : c ∈ s.pending) : ReadyOk (takeCall c s) := by
  have hrm := readyOk_removeCall c.serial s h
  unfold takeCall
  cases hct : c.timed
  · -- no timer: filtering the timers changes nothing
    have hnt : s.timers.filter (· ≠ c.serial) = s.timers := by
      apply List.filter_eq_self.mpr
      intro t ht
      obtain ⟨d, hd, hds, hdt⟩ := h.timersOk t ht
      simp only [decide_eq_true_eq]
      intro hts
      have : d = c := eq_of_nodup_map h.pend.1 hd hc (by rw [hds, hts])
      rw [this, hct] at hdt
      cases hdt
    rw [hnt] at hrm
    exact ⟨hrm.1, hrm.2, hrm.3, hrm.4, hrm.5, hrm.6, hrm.7, hrm.8, hrm.9, hrm.10⟩
  · exact ⟨hrm.1, hrm.2, hrm.3, hrm.4, hrm.5, hrm.6, hrm.7, hrm.8, hrm.9, hrm.10⟩

/-- The part of the invariant about proxies and the registry. -/
structure ProxOk (s : St) : Prop where
  proxyIds : (s.proxies.map (·.id)).Nodup
  proxyLt : ∀ p ∈ s.proxies, p.id < s.nextProxy
  proxyCbIds : ∀ p ∈ s.proxies, (p.cbs.map (·.id)).Nodup
  proxyCbLt : ∀ p ∈ s.proxies, ∀ c ∈ p.cbs, c.id < s.nextCb
  regSlots : ∀ e ∈ s.registry, e.1 = e.2
  reg : s.registry.map (·.2) = (s.proxies.filter (·.alive)).map (·.id)

theorem ReadyOk.proxOk {s : St} (h : ReadyOk s) : ProxOk s := ⟨h.5, h.6, h.7, h.8, h.9, h.10⟩

/-- ProxOk only looks at the proxies, the registry and the two counters. -/
theorem proxOk_congr {s s' : St} (h : ProxOk s) (hp : s'.proxies = s.proxies) (hr : s'.registry = s.registry)
    (hn : s'.nextProxy = s.nextProxy) (hc : s.nextCb ≤ s'.nextCb) : ProxOk s' := by
  obtain ⟨h5, h6, h7, h8, h9, h10⟩ := h
  refine ⟨by rw [hp]; exact h5, ?_, ?_, ?_, by rw [hr]; exact h9, by rw [hr, hp]; exact h10⟩
  · intro p hp'; rw [hp] at hp'; rw [hn]; exact h6 p hp'
  · intro p hp'; rw [hp] at hp'; exact h7 p hp'
  · intro p hp' c hcc; rw [hp] at hp'; exact Nat.lt_of_lt_of_le (h8 p hp' c hcc) hc

/-- A new proxy with callbacks `cbs` (ids distinct and below the new callback counter `n`) takes the
fresh slot `nextProxy`: the registry grows by exactly that slot. -/
theorem proxOk_makeProxyCbs (key : Nat) (explicit : Bool) (cbs : List Cb) (n : Nat) (s : St) (h : ProxOk s)
    (hn : s.nextCb ≤ n) (hnd : (cbs.map (·.id)).Nodup) (hlt : ∀ c ∈ cbs, c.id < n) :
    ProxOk { makeProxyCbs .repaired key explicit cbs s with nextCb := n } ∧
    (makeProxyCbs .repaired key explicit cbs s).registry = s.registry ++ [(s.nextProxy, s.nextProxy)] := by
  obtain ⟨h5, h6, h7, h8, h9, h10⟩ := h
  have hfresh : ∀ e ∈ s.registry, e.1 ≠ s.nextProxy := by
    intro e he heq
    have hmem : e.2 ∈ (s.proxies.filter (·.alive)).map (·.id) := h10 ▸ List.mem_map_of_mem he
    obtain ⟨q, hq, hqe⟩ := List.mem_map.mp hmem
    have := h6 q (List.mem_filter.mp hq).1
    rw [hqe, ← h9 e he, heq] at this
    exact Nat.lt_irrefl _ this
  have hreg : (makeProxyCbs .repaired key explicit cbs s).registry = s.registry ++ [(s.nextProxy, s.nextProxy)] := by
    simp only [makeProxyCbs, Variant.repaired]
    cases explicit <;> simp [regSet_fresh _ _ _ hfresh]
  refine ⟨⟨?_, ?_, ?_, ?_, ?_, ?_⟩, hreg⟩
  · simp only [makeProxyCbs, List.map_append, List.map_cons, List.map_nil]
    exact nodup_append_fresh h5 (fun x hx => by
      obtain ⟨q, hq, rfl⟩ := List.mem_map.mp hx
      exact h6 q hq)
  · intro p hp
    simp only [makeProxyCbs, List.mem_append, List.mem_singleton] at hp ⊢
    rcases hp with hp | rfl
    · exact Nat.lt_succ_of_lt (h6 p hp)
    · exact Nat.lt_succ_self _
  · intro p hp
    simp only [makeProxyCbs, List.mem_append, List.mem_singleton] at hp
    rcases hp with hp | rfl
    · exact h7 p hp
    · exact hnd
  · intro p hp c hc
    simp only [makeProxyCbs, List.mem_append, List.mem_singleton] at hp
    rcases hp with hp | rfl
    · exact Nat.lt_of_lt_of_le (h8 p hp c hc) hn
    · exact hlt c hc
  · intro e he
    simp only [] at he
    rw [hreg] at he
    simp only [List.mem_append, List.mem_singleton] at he
    rcases he with he | rfl
    · exact h9 e he
    · rfl
  · simp only []
    rw [hreg]
    simp [makeProxyCbs, h10, List.filter_append]

theorem readyOk_makeProxy (key : Nat) (explicit : Bool) (s : St) (h : ReadyOk s) :
    ReadyOk (makeProxy .repaired key explicit s) := by
  obtain ⟨p5, p6, p7, p8, p9, p10⟩ :=
    (proxOk_makeProxyCbs key explicit [] s.nextCb s h.proxOk (Nat.le_refl _) (by simp) (by simp)).1
  exact ⟨h.1, h.2, h.3, h.4, p5, p6, p7, p8, p9, p10⟩

theorem readyOk_completeCall (c : Call) (ok : Bool) (s : St) (h : ReadyOk s) :
    ReadyOk (completeCall .repaired c ok s) := by
  unfold completeCall
  split
  · exact h
  · cases c.kind <;> cases ok <;> simp only [St.emit] <;>
      first
        | exact readyOk_log s _ h
        | exact readyOk_makeProxy _ false _ (readyOk_log s _ h)

/-! ### The caller cancels a Deferred: the entry stays, marked -/

theorem markCancelled_serials (n : Nat) : ∀ l : List Call, (markCancelled n l).map (·.serial) = l.map (·.serial)
  | [] => rfl
  | c :: t => by
    unfold markCancelled
    split
    · simp
    · simp [markCancelled_serials n t]

/-- Every entry of the marked table is an entry of the old one up to the mark. -/
theorem mem_markCancelled {n : Nat} {c : Call} : ∀ {l : List Call}, c ∈ markCancelled n l →
    ∃ c0 ∈ l, c.serial = c0.serial ∧ c.timed = c0.timed ∧ c.kind = c0.kind ∧ (c = c0 ∨ (c0.serial = n ∧ c.cancelled = true))
  | [], h => by cases h
  | d :: t, h => by
    unfold markCancelled at h
    split at h
    · rename_i hd
      rcases List.mem_cons.mp h with rfl | h
      · exact ⟨d, List.mem_cons_self, rfl, rfl, rfl, Or.inr ⟨hd, rfl⟩⟩
      · exact ⟨c, List.mem_cons_of_mem _ h, rfl, rfl, rfl, Or.inl rfl⟩
    · rcases List.mem_cons.mp h with rfl | h
      · exact ⟨c, List.mem_cons_self, rfl, rfl, rfl, Or.inl rfl⟩
      · obtain ⟨c0, h0, h1⟩ := mem_markCancelled h
        exact ⟨c0, List.mem_cons_of_mem _ h0, h1⟩

/-- Every entry of the old table is still there, up to the mark. -/
theorem markCancelled_keeps {n : Nat} {c0 : Call} : ∀ {l : List Call}, c0 ∈ l →
    ∃ c ∈ markCancelled n l, c.serial = c0.serial ∧ c.timed = c0.timed
  | [], h => by cases h
  | d :: t, h => by
    unfold markCancelled
    split
    · rcases List.mem_cons.mp h with rfl | h
      · exact ⟨_, List.mem_cons_self, rfl, rfl⟩
      · exact ⟨c0, List.mem_cons_of_mem _ h, rfl, rfl⟩
    · rcases List.mem_cons.mp h with rfl | h
      · exact ⟨c0, List.mem_cons_self, rfl, rfl⟩
      · obtain ⟨c, hc, h1⟩ := markCancelled_keeps (n := n) h
        exact ⟨c, List.mem_cons_of_mem _ hc, h1⟩

theorem readyOk_markCancelled (n : Nat) (l : List Fx) (s : St) (h : ReadyOk s) :
    ReadyOk { s with pending := markCancelled n s.pending, log := l } := by
  obtain ⟨h1, h2, h3, h4, h5, h6, h7, h8, h9, h10⟩ := h
  refine ⟨⟨?_, ?_⟩, ?_, h3, h4, h5, h6, h7, h8, h9, h10⟩
  · simp only []; rw [markCancelled_serials]; exact h1.1
  · intro c hc
    obtain ⟨c0, h0, hs, _⟩ := mem_markCancelled hc
    rw [hs]; exact h1.2 c0 h0
  · intro t ht
    obtain ⟨c0, h0, hs, htm⟩ := h2 t ht
    obtain ⟨c, hc, hcs, hct⟩ := markCancelled_keeps (n := n) h0
    exact ⟨c, hc, hcs.trans hs, hct.trans htm⟩

theorem readyOk_modifyCbs (p : Nat) (g : List Cb → List Cb) (s : St) (n : Nat) (h : ReadyOk s) (hn : s.nextCb ≤ n)
    (hg : ∀ l : List Cb, (l.map (·.id)).Nodup → (∀ c ∈ l, c.id < s.nextCb) →
      ((g l).map (·.id)).Nodup ∧ ∀ c ∈ g l, c.id < n) :
    ReadyOk { s with proxies := modifyProxy p (fun q => { q with cbs := g q.cbs }) s.proxies, nextCb := n } := by
  obtain ⟨h1, h2, h3, h4, h5, h6, h7, h8, h9, h10⟩ := h
  refine ⟨h1, h2, h3, fun c hc => Nat.lt_of_lt_of_le (h4 c hc) hn, ?_, ?_, ?_, ?_, h9, ?_⟩
  · have := modifyProxy_ids p (fun q => { q with cbs := g q.cbs }) (fun _ => rfl) s.proxies
    simp only []; rw [this]; exact h5
  · intro q hq
    rcases mem_modifyProxy hq with hq | ⟨q0, hq0, _, rfl⟩
    · exact h6 q hq
    · exact h6 q0 hq0
  · intro q hq
    rcases mem_modifyProxy hq with hq | ⟨q0, hq0, _, rfl⟩
    · exact h7 q hq
    · exact (hg q0.cbs (h7 q0 hq0) (h8 q0 hq0)).1
  · intro q hq c hc
    rcases mem_modifyProxy hq with hq | ⟨q0, hq0, _, rfl⟩
    · exact Nat.lt_of_lt_of_le (h8 q hq c hc) hn
    · exact (hg q0.cbs (h7 q0 hq0) (h8 q0 hq0)).2 c hc
  · have := modifyProxy_alive_ids p (fun q => { q with cbs := g q.cbs }) (fun _ => rfl) (fun _ => rfl) s.proxies
    simp only []; rw [this]; exact h10

theorem proxOk_modifyCbs (p : Nat) (g : List Cb → List Cb) (s : St) (n : Nat) (h : ProxOk s) (hn : s.nextCb ≤ n)
    (hg : ∀ l : List Cb, (l.map (·.id)).Nodup → (∀ c ∈ l, c.id < s.nextCb) →
      ((g l).map (·.id)).Nodup ∧ ∀ c ∈ g l, c.id < n) :
    ProxOk { s with proxies := modifyProxy p (fun q => { q with cbs := g q.cbs }) s.proxies, nextCb := n } := by
  obtain ⟨h5, h6, h7, h8, h9, h10⟩ := h
  refine ⟨?_, ?_, ?_, ?_, h9, ?_⟩
  · have := modifyProxy_ids p (fun q => { q with cbs := g q.cbs }) (fun _ => rfl) s.proxies
    simp only []; rw [this]; exact h5
  · intro q hq
    rcases mem_modifyProxy hq with hq | ⟨q0, hq0, _, rfl⟩
    · exact h6 q hq
    · exact h6 q0 hq0
  · intro q hq
    rcases mem_modifyProxy hq with hq | ⟨q0, hq0, _, rfl⟩
    · exact h7 q hq
    · exact (hg q0.cbs (h7 q0 hq0) (h8 q0 hq0)).1
  · intro q hq c hc
    rcases mem_modifyProxy hq with hq | ⟨q0, hq0, _, rfl⟩
    · exact Nat.lt_of_lt_of_le (h8 q hq c hc) hn
    · exact (hg q0.cbs (h7 q0 hq0) (h8 q0 hq0)).2 c hc
  · have := modifyProxy_alive_ids p (fun q => { q with cbs := g q.cbs }) (fun _ => rfl) (fun _ => rfl) s.proxies
    simp only []; rw [this]; exact h10

/-- Whatever a callback does while `connectionLost` runs, the proxies / registry part of the invariant
survives, and the registry only grows. -/
theorem react_proxOk (w : Who) (r : Reaction) (s : St) (h : ProxOk s) :
    ProxOk (react .repaired w r s) ∧ RegMono s (react .repaired w r s) := by
  cases r with
  | nothing => exact ⟨h, RegMono.refl s⟩
  | newCall => exact ⟨proxOk_congr h rfl rfl rfl (Nat.le_refl _), fun e he => he⟩
  | unregisterSelf =>
    cases w with
    | connCb c => exact ⟨proxOk_congr h rfl rfl rfl (Nat.le_refl _), fun e he => he⟩
    | errback c => exact ⟨h, RegMono.refl s⟩
    | proxyCb p c =>
      exact ⟨proxOk_modifyCbs p (fun l => removeCb c.id l) s s.nextCb h (Nat.le_refl _)
        (fun l hnd hlt => ⟨hnd.sublist ((removeCb_sublist c.id l).map _),
          fun d hd => hlt d ((removeCb_sublist c.id l).subset hd)⟩), fun e he => he⟩
  | registerAnother =>
    cases w with
    | connCb c => exact ⟨proxOk_congr h rfl rfl rfl (Nat.le_succ _), fun e he => he⟩
    | errback c => exact ⟨proxOk_congr h rfl rfl rfl (Nat.le_succ _), fun e he => he⟩
    | proxyCb p c =>
      exact ⟨proxOk_modifyCbs p (fun l => l ++ [(⟨s.nextCb, Reaction.nothing⟩ : Cb)]) s (s.nextCb + 1) h (Nat.le_succ _)
        (fun l hnd hlt => ⟨by
          simp only [List.map_append, List.map_cons, List.map_nil]
          exact nodup_append_fresh hnd (fun x hx => by
            obtain ⟨c, hc, rfl⟩ := List.mem_map.mp hx
            exact hlt c hc), by
          intro c hc
          simp only [List.mem_append, List.mem_singleton] at hc
          rcases hc with hc | rfl
          · exact Nat.lt_succ_of_lt (hlt c hc)
          · exact Nat.lt_succ_self _⟩), fun e he => he⟩
  | raises => cases w <;> exact ⟨h, RegMono.refl s⟩
  | newProxy =>
    obtain ⟨h1, h2⟩ := proxOk_makeProxyCbs 0 true [⟨s.nextCb, .nothing⟩] (s.nextCb + 1) s h (Nat.le_succ _)
      (by simp) (by simp)
    refine ⟨?_, ?_⟩
    · cases w <;> exact h1
    · intro e he
      have : e ∈ (makeProxyCbs .repaired 0 true [⟨s.nextCb, .nothing⟩] s).registry := by rw [h2]; simp [he]
      cases w <;> exact this

theorem proxOk_emit (s : St) (f : Fx) (h : ProxOk s) : ProxOk (s.emit f) :=
  proxOk_congr h rfl rfl rfl (Nat.le_refl _)

theorem runConnCbs_proxOk (cbs : List Cb) : ∀ s : St, ProxOk s →
    ProxOk (runConnCbs .repaired cbs s) ∧ RegMono s (runConnCbs .repaired cbs s) := by
  induction cbs with
  | nil => intro s h; exact ⟨h, RegMono.refl s⟩
  | cons c t ih =>
    intro s h
    obtain ⟨a1, a2⟩ := react_proxOk (.connCb c) c.react (s.emit (.connCb c.id)) (proxOk_emit s _ h)
    obtain ⟨b1, b2⟩ := ih (runConnCb .repaired c s) a1
    exact ⟨b1, RegMono.trans (a := s) (fun e he => a2 e he) b2⟩

theorem failCall_proxOk (c : Call) (s : St) (h : ProxOk s) :
    ProxOk (failCall .repaired c s) ∧ RegMono s (failCall .repaired c s) := by
  unfold failCall
  cases c.cancelled
  · cases c.timed
    · simp only [Bool.false_eq_true, if_false]
      obtain ⟨a1, a2⟩ := react_proxOk (.errback c) (reactionOf c.kind) (s.emit (.callErr c.serial (errKindOf c.kind)))
        (proxOk_emit s _ h)
      exact ⟨a1, fun e he => a2 e he⟩
    · simp only [if_true, Bool.false_eq_true, if_false]
      have h' : ProxOk ({ s with timers := s.timers.filter (· ≠ c.serial), log := s.log ++ [Fx.timerCancelled c.serial] }.emit
          (Fx.callErr c.serial (errKindOf c.kind))) := proxOk_congr h rfl rfl rfl (Nat.le_refl _)
      obtain ⟨a1, a2⟩ := react_proxOk (.errback c) (reactionOf c.kind) _ h'
      exact ⟨a1, fun e he => a2 e he⟩
  · -- the errback is swallowed: only the timer is cancelled
    cases c.timed
    · simp only [Bool.false_eq_true, if_false, if_true]
      exact ⟨h, RegMono.refl s⟩
    · simp only [if_true]
      exact ⟨proxOk_congr h rfl rfl rfl (Nat.le_refl _), fun e he => he⟩

theorem failCalls_proxOk (calls : List Call) : ∀ s : St, ProxOk s →
    ProxOk (failCalls .repaired calls s) ∧ RegMono s (failCalls .repaired calls s) := by
  induction calls with
  | nil => intro s h; exact ⟨h, RegMono.refl s⟩
  | cons c t ih =>
    intro s h
    obtain ⟨a1, a2⟩ := failCall_proxOk c s h
    obtain ⟨b1, b2⟩ := ih (failCall .repaired c s) a1
    exact ⟨b1, a2.trans b2⟩

end Txdbus.Client.Lifecycle
