/-
C08 - (a) which return signature is bound to which Deferred (`issued` / `rsOf`), so that the raw firing
can be composed with `_cbCvtReply` for a call in a run; (b) where the retries issued by errbacks inside
`connectionLost` land.
-/
import TxdbusModel.Proofs.Client.CallsReentrant

namespace Txdbus.Calls

open Txdbus.Calls.Spec
open Txdbus.Gen

variable {V R : Type}

/-! ### `issued`: Deferred number -> the `returnSignature` of the `callRemote` that made it -/

/-- The `returnSignature` argument of an invocation of `callRemote`. -/
def opRs : Op V R → Option RetSig
  | .call _ _ _ rs => some rs
  | .callBad rs => some rs
  | _ => none

theorem step_issued (asStr : V → Option (List Char)) (s : St V R) (op : Op V R) :
    (step asStr s op).issued = s.issued ++ (match opRs op with | some rs => [(s.nextId, rs)] | none => []) := by
  cases op <;>
    simp only [Txdbus.Calls.step, callOp, callBadOp, retOp, errOp, expireOp, lostOp, fire, opRs,
      List.append_nil] <;>
    repeat' (first | rfl | split)

theorem run_issued_prefix (asStr : V → Option (List Char)) : ∀ (ops : List (Op V R)) (s : St V R),
    ∃ extra, (run asStr s ops).issued = s.issued ++ extra
  | [], s => ⟨[], by simp [run]⟩
  | op :: rest, s => by
    obtain ⟨extra, h⟩ := run_issued_prefix asStr rest (step asStr s op)
    rw [run_cons, h, step_issued, List.append_assoc]
    exact ⟨_, rfl⟩

/-- Every binding recorded so far is for a Deferred already handed out. -/
def IssuedLt (s : St V R) : Prop := ∀ e ∈ s.issued, e.1 < s.nextId

theorem issuedLt_step (asStr : V → Option (List Char)) {s : St V R} (h : IssuedLt s) (op : Op V R) :
    IssuedLt (step asStr s op) := by
  intro e he
  rw [step_issued] at he
  rw [step_nextId]
  rcases List.mem_append.mp he with he | he
  · have := h e he; omega
  · cases op <;> simp only [opRs, isCall, List.mem_singleton, List.not_mem_nil] at he ⊢
    · subst he; simp
    · subst he; simp

theorem issuedLt_run (asStr : V → Option (List Char)) : ∀ (ops : List (Op V R)) {s : St V R},
    IssuedLt s → IssuedLt (run asStr s ops)
  | [], _, h => h
  | op :: rest, _, h => issuedLt_run asStr rest (issuedLt_step asStr h op)

/-- The Deferred of the `callRemote` at position `i` carries that invocation's `returnSignature`. -/
theorem rsOf_call (asStr : V → Option (List Char)) (ops : List (Op V R)) {i : Nat} {op : Op V R}
    (hi : ops[i]? = some op) {rs : RetSig} (hrs : opRs op = some rs) :
    rsOf (run asStr (St.init V R true) ops) (callId ops i) = rs := by
  have hsplit := split_at hi
  have hrun : run asStr (St.init V R true) ops =
      run asStr (step asStr (run asStr (St.init V R true) (ops.take i)) op) (ops.drop (i + 1)) := by
    conv => lhs; rw [hsplit]
    rw [run_append, run_cons]
  have hid : (run asStr (St.init V R true) (ops.take i)).nextId = callId ops i := by
    simp only [run_nextId, callId]; simp [St.init]
  have hlt : IssuedLt (run asStr (St.init V R true) (ops.take i)) :=
    issuedLt_run asStr _ (by intro e he; simp [St.init] at he)
  obtain ⟨extra, hx⟩ := run_issued_prefix asStr (ops.drop (i + 1))
    (step asStr (run asStr (St.init V R true) (ops.take i)) op)
  unfold rsOf
  rw [hrun, hx, step_issued, hrs, List.append_assoc, hid]
  rw [dGet_append_of_not_mem (fun e he => by have := hlt e he; omega)]
  simp [dGet]

/-! ### Where the retries of `connectionLost` land -/

theorem issue_log : ∀ (cs : List NewCall) (s : St V R), (issue s cs).log = s.log
  | [], _ => rfl
  | c :: cs, s => by
    simp only [issue, List.foldl_cons]
    have := issue_log cs (callOp s c.serial true c.timeout c.rs)
    simp only [issue] at this
    rw [this]
    unfold callOp; simp only [if_true]; split <;> rfl

theorem callOp_true_pending_self (s : St V R) (σ : Nat) (tmo : Option Nat) (rs : RetSig) :
    ∃ e ∈ (callOp s σ true tmo rs).pending, e.1 = σ ∧ e.2.did = s.nextId := by
  unfold callOp; simp only [if_true]; split
  · exact ⟨_, mem_dSet_self, rfl, rfl⟩
  · exact ⟨_, mem_dSet_self, rfl, rfl⟩

theorem callOp_true_pending_mem (s : St V R) (σ : Nat) (tmo : Option Nat) (rs : RetSig)
    {e : Nat × Pending} (he : e ∈ (callOp s σ true tmo rs).pending) :
    (e.1 = σ ∧ e.2.did = s.nextId) ∨ e ∈ s.pending := by
  unfold callOp at he; simp only [if_true] at he; split at he
  · rcases mem_dSet he with h | h
    · exact Or.inl (by rw [h]; exact ⟨rfl, rfl⟩)
    · exact Or.inr h
  · rcases mem_dSet he with h | h
    · exact Or.inl (by rw [h]; exact ⟨rfl, rfl⟩)
    · exact Or.inr h

theorem callOp_true_pending_keep (s : St V R) (σ : Nat) (tmo : Option Nat) (rs : RetSig)
    {e : Nat × Pending} (he : e ∈ s.pending) (hne : e.1 ≠ σ) : e ∈ (callOp s σ true tmo rs).pending := by
  unfold callOp; simp only [if_true]; split
  · exact mem_dSet_of_ne he hne
  · exact mem_dSet_of_ne he hne

/-- Every call an errback issues is registered under its serial, with a Deferred newer than `n`. -/
theorem issue_registers (n : Nat) : ∀ (cs : List NewCall) (s : St V R), n ≤ s.nextId →
    (∀ k, (∃ e ∈ s.pending, e.1 = k ∧ n ≤ e.2.did) → ∃ e ∈ (issue s cs).pending, e.1 = k ∧ n ≤ e.2.did) ∧
    (∀ c ∈ cs, ∃ e ∈ (issue s cs).pending, e.1 = c.serial ∧ n ≤ e.2.did)
  | [], s, _ => ⟨fun _ h => h, fun c hc => by simp at hc⟩
  | c :: cs, s, hn => by
    have hn' : n ≤ (callOp s c.serial true c.timeout c.rs).nextId := by rw [callOp_true_nextId]; omega
    obtain ⟨ih1, ih2⟩ := issue_registers n cs (callOp s c.serial true c.timeout c.rs) hn'
    have hself : ∃ e ∈ (callOp s c.serial true c.timeout c.rs).pending, e.1 = c.serial ∧ n ≤ e.2.did := by
      obtain ⟨e, he, h1, h2⟩ := callOp_true_pending_self s c.serial c.timeout c.rs
      exact ⟨e, he, h1, by omega⟩
    refine ⟨?_, ?_⟩
    · intro k ⟨e, he, hk, hd⟩
      apply ih1 k
      by_cases hkc : k = c.serial
      · subst hkc; exact hself
      · exact ⟨e, callOp_true_pending_keep s _ _ _ he (by rw [hk]; exact hkc), hk, hd⟩
    · intro c' hc'
      rcases List.mem_cons.mp hc' with h | h
      · subst h; exact ih1 _ hself
      · exact ih2 c' h

theorem issue_pending_ge (n : Nat) : ∀ (cs : List NewCall) (s : St V R), n ≤ s.nextId →
    (∀ e ∈ s.pending, n ≤ e.2.did) → ∀ e ∈ (issue s cs).pending, n ≤ e.2.did
  | [], _, _, h => h
  | c :: cs, s, hn, h => by
    refine issue_pending_ge n cs (callOp s c.serial true c.timeout c.rs)
      (by rw [callOp_true_nextId]; omega) ?_
    intro e he
    rcases callOp_true_pending_mem s _ _ _ he with ⟨_, hd⟩ | hm
    · omega
    · exact h e hm

/-- `connectionLost` with re-entrant errbacks, as "plain `connectionLost`, then the errbacks' calls". -/
theorem lostOpR_eq_issue (rx : Reactions) {s : St V R} (hI : Inv s) (hr : s.ready = true) (r : R) :
    lostOpR rx s r = issue (lostOp s r) (s.pending.flatMap (fun e => reactionOf rx e.2.did false)) := by
  have h := lostOpR_eq (fun _ => none) rx hI r
  rw [if_pos hr, ← issue_eq_run] at h
  exact h

/-- Where a retry lands: after `connectionLost` (ready connection, any state satisfying the invariant, any
errbacks) every call that was in the table has fired exactly with the loss reason; every call an errback
issued meanwhile is registered under its serial with a NEW Deferred that has not fired (it is not owed the
loss reason: it was issued after the table was swapped); and nothing older is left in the table. -/
theorem retry_lands_after_loss_state (rx : Reactions) {s : St V R} (hI : Inv s) (hr : s.ready = true) (r : R) :
    (∀ e ∈ s.pending, firingsOf e.2.did (lostOpR rx s r).log = [Firing.lost r]) ∧
    (∀ e ∈ s.pending, ∀ c ∈ reactionOf rx e.2.did false,
      ∃ e' ∈ (lostOpR rx s r).pending, e'.1 = c.serial ∧ s.nextId ≤ e'.2.did ∧
        firingsOf e'.2.did (lostOpR rx s r).log = []) ∧
    (∀ e' ∈ (lostOpR rx s r).pending, s.nextId ≤ e'.2.did) := by
  rw [lostOpR_eq_issue rx hI hr r]
  have hlog : (issue (lostOp s r) (s.pending.flatMap (fun e => reactionOf rx e.2.did false))).log
      = s.log ++ s.pending.map (fun e => (e.2.did, Firing.lost r)) := by
    rw [issue_log, lostOp_char hI hr]
  have hbase : (lostOp s r).nextId = s.nextId ∧ (lostOp s r).pending = [] := by
    rw [lostOp_char hI hr]; exact ⟨rfl, rfl⟩
  have hnew : ∀ k, s.nextId ≤ k →
      firingsOf k (s.log ++ s.pending.map (fun e => (e.2.did, Firing.lost r))) = [] := by
    intro k hk
    apply firingsOf_eq_nil
    intro x hx
    rcases List.mem_append.mp hx with hx | hx
    · have := hI.log_lt x hx; omega
    · obtain ⟨e, he, rfl⟩ := List.mem_map.mp hx
      have := hI.did_lt e he
      simp only; omega
  refine ⟨?_, ?_, ?_⟩
  · intro e he
    obtain ⟨σ, p⟩ := e
    obtain ⟨k, tm⟩ := p
    rw [hlog, firingsOf_append, firingsOf_eq_nil (fun x hx => hI.unfired _ he x hx),
      firingsOf_map_entry _ s.pending hI.nodup hI.did_inj he]
    rfl
  · intro e he c hc
    have hmem : c ∈ s.pending.flatMap (fun e => reactionOf rx e.2.did false) :=
      List.mem_flatMap.mpr ⟨e, he, hc⟩
    obtain ⟨e', he', h1, h2⟩ := (issue_registers s.nextId _ (lostOp s r) (by rw [hbase.1]; exact Nat.le_refl _)).2 c hmem
    exact ⟨e', he', h1, h2, by rw [hlog]; exact hnew _ h2⟩
  · exact issue_pending_ge s.nextId _ (lostOp s r) (by rw [hbase.1]; exact Nat.le_refl _)
      (by rw [hbase.2]; intro e he; simp at he)

theorem callOp_true_timers_new (s : St V R) (σ : Nat) (tmo : Option Nat) (rs : RetSig) {x : Nat × Nat}
    (hx : x ∈ (callOp s σ true tmo rs).timers) : x ∈ s.timers ∨ x.1 = s.nextId := by
  unfold callOp at hx; simp only [if_true] at hx; split at hx
  · rcases List.mem_append.mp hx with h | h
    · exact Or.inl h
    · rw [List.mem_singleton] at h
      exact Or.inr (by rw [h])
  · exact Or.inl hx

/-- The timers of the calls a callback issues are new ones. -/
theorem issue_timers_ge (n : Nat) : ∀ (cs : List NewCall) (s : St V R), n ≤ s.nextId →
    (∀ x ∈ s.timers, n ≤ x.1) → ∀ x ∈ (issue s cs).timers, n ≤ x.1
  | [], _, _, h => h
  | c :: cs, s, hn, h => by
    refine issue_timers_ge n cs (callOp s c.serial true c.timeout c.rs)
      (by rw [callOp_true_nextId]; omega) ?_
    intro x hx
    rcases callOp_true_timers_new s _ _ _ hx with hm | hd
    · exact h x hm
    · omega

/-- `connectionLost` as a whole, when no disconnect callback lets an exception out: the disconnect callbacks'
calls are issued first, as ordinary calls, and the table that results is the one that is failed. -/
theorem lostOpD_eq (asStr : V → Option (List Char)) (rx : Reactions) (dcs : List DcAction) (hq : QuietDcs dcs)
    (s : St V R) (hr : s.ready = true) (r : R) :
    lostOpD rx dcs s r = lostOpR rx (run asStr s ((dcCalls dcs).map NewCall.toOp)) r := by
  have hnr : (!s.ready) = false := by simp [hr]
  unfold lostOpD
  simp only [hnr, Bool.false_eq_true, if_false, runDcs_quiet dcs s hq]
  rw [issue_eq_run asStr]

/-- After `connectionLost` with re-entrant errbacks every timer left is one of a retry (a new Deferred). -/
theorem lostOpR_timers_ge (rx : Reactions) {s : St V R} (hI : Inv s) (hr : s.ready = true) (r : R) :
    ∀ x ∈ (lostOpR rx s r).timers, s.nextId ≤ x.1 := by
  rw [lostOpR_eq_issue rx hI hr r]
  refine issue_timers_ge s.nextId _ (lostOp s r) ?_ ?_
  · rw [lostOp_char hI hr]; exact Nat.le_refl _
  · rw [lostOp_char hI hr]; intro x hx; simp at hx

end Txdbus.Calls
