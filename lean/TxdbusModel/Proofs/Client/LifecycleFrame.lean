import TxdbusModel.Client.Lifecycle
/-
C09 - frame lemmas for the passes of `connectionLost` (repaired variant): what a user callback running
inside `connectionLost` can and cannot change.
-/
namespace Txdbus.Client.Lifecycle
open Txdbus.Client.Endpoints

/-! ## `react`: fields it never touches -/

@[simp] theorem react_phase (w : Who) (r : Reaction) (s : St) : (react w r s).phase = s.phase := by
  cases r <;> cases w <;> simp [react, issueCall]
@[simp] theorem react_fired (w : Who) (r : Reaction) (s : St) : (react w r s).fired = s.fired := by
  cases r <;> cases w <;> simp [react, issueCall]
@[simp] theorem react_busName (w : Who) (r : Reaction) (s : St) : (react w r s).busName = s.busName := by
  cases r <;> cases w <;> simp [react, issueCall]
@[simp] theorem react_timers (w : Who) (r : Reaction) (s : St) : (react w r s).timers = s.timers := by
  cases r <;> cases w <;> simp [react, issueCall]
@[simp] theorem react_registry (w : Who) (r : Reaction) (s : St) : (react w r s).registry = s.registry := by
  cases r <;> cases w <;> simp [react, issueCall]
@[simp] theorem react_log (w : Who) (r : Reaction) (s : St) : (react w r s).log = s.log := by
  cases r <;> cases w <;> simp [react, issueCall]
@[simp] theorem react_remaining (w : Who) (r : Reaction) (s : St) : (react w r s).remaining = s.remaining := by
  cases r <;> cases w <;> simp [react, issueCall]
@[simp] theorem react_current (w : Who) (r : Reaction) (s : St) : (react w r s).current = s.current := by
  cases r <;> cases w <;> simp [react, issueCall]

/-- Proxies other than `p` are untouched by anything that runs on behalf of proxy `p`. -/
theorem findProxy_modifyProxy_ne {p q : Nat} (f : Proxy → Proxy) (hf : ∀ x, (f x).id = x.id) (h : q ≠ p) :
    ∀ l : List Proxy, findProxy q (modifyProxy p f l) = findProxy q l
  | [] => rfl
  | x :: t => by
    by_cases hx : x.id = p
    · have : x.id ≠ q := fun e => h (e ▸ hx ▸ rfl)
      simp [modifyProxy, findProxy, hx, hf, this]
      intro e; exact absurd (hx ▸ e) (fun e' => h e'.symm)
    · by_cases hq : x.id = q
      · simp [modifyProxy, findProxy, hx, hq]
      · simp [modifyProxy, findProxy, hx, hq, findProxy_modifyProxy_ne f hf h t]

theorem react_proxies_conn (c : Cb) (r : Reaction) (s : St) : (react (.connCb c) r s).proxies = s.proxies := by
  cases r <;> simp [react, issueCall]
theorem react_proxies_errback (c : Call) (r : Reaction) (s : St) : (react (.errback c) r s).proxies = s.proxies := by
  cases r <;> simp [react, issueCall]

theorem react_findProxy_ne (p : Nat) (c : Cb) (r : Reaction) (s : St) (q : Nat) (h : q ≠ p) :
    findProxy q (react (.proxyCb p c) r s).proxies = findProxy q s.proxies := by
  cases r <;> simp [react, issueCall]
  · exact findProxy_modifyProxy_ne _ (fun _ => rfl) h _
  · exact findProxy_modifyProxy_ne _ (fun _ => rfl) h _

/-! ## Pass 1: connection-level callbacks -/

@[simp] theorem runConnCb_phase (c : Cb) (s : St) : (runConnCb c s).phase = s.phase := by simp [runConnCb, St.emit]
@[simp] theorem runConnCb_fired (c : Cb) (s : St) : (runConnCb c s).fired = s.fired := by simp [runConnCb, St.emit]
@[simp] theorem runConnCb_busName (c : Cb) (s : St) : (runConnCb c s).busName = s.busName := by simp [runConnCb, St.emit]
@[simp] theorem runConnCb_timers (c : Cb) (s : St) : (runConnCb c s).timers = s.timers := by simp [runConnCb, St.emit]
@[simp] theorem runConnCb_registry (c : Cb) (s : St) : (runConnCb c s).registry = s.registry := by simp [runConnCb, St.emit]
@[simp] theorem runConnCb_proxies (c : Cb) (s : St) : (runConnCb c s).proxies = s.proxies := by
  simp [runConnCb, St.emit, react_proxies_conn]
@[simp] theorem runConnCb_log (c : Cb) (s : St) : (runConnCb c s).log = s.log ++ [.connCb c.id] := by simp [runConnCb, St.emit]

theorem runConnCbs_frame (cbs : List Cb) : ∀ s : St,
    (runConnCbs cbs s).phase = s.phase ∧ (runConnCbs cbs s).fired = s.fired ∧
    (runConnCbs cbs s).busName = s.busName ∧ (runConnCbs cbs s).timers = s.timers ∧
    (runConnCbs cbs s).registry = s.registry ∧ (runConnCbs cbs s).proxies = s.proxies ∧
    (runConnCbs cbs s).log = s.log ++ cbs.map (fun c => Fx.connCb c.id) := by
  induction cbs with
  | nil => intro s; simp [runConnCbs]
  | cons c t ih =>
    intro s
    obtain ⟨h1, h2, h3, h4, h5, h6, h7⟩ := ih (runConnCb c s)
    simp [runConnCbs, h1, h2, h3, h4, h5, h6, h7]

end Txdbus.Client.Lifecycle
