import TxdbusModel.Client.Lifecycle
/-
C09 - frame lemmas for the passes of `connectionLost` (repaired variant): what a user callback running
inside `connectionLost` can and cannot change.
-/
namespace Txdbus.Client.Lifecycle
open Txdbus.Client.Endpoints

theorem flatMap_congr' {α β : Type} (l : List α) (f g : α → List β) (h : ∀ x ∈ l, f x = g x) :
    l.flatMap f = l.flatMap g := by
  induction l with
  | nil => rfl
  | cons a t ih =>
    rw [List.flatMap_cons, List.flatMap_cons, h a (by simp), ih (fun x hx => h x (by simp [hx]))]

/-! ## `react`: fields it never touches -/

@[simp] theorem react_phase (w : Who) (r : Reaction) (s : St) : (react w r s).phase = s.phase := by
  cases r <;> cases w <;> simp [react, issueCall]
@[simp] theorem react_fired (w : Who) (r : Reaction) (s : St) : (react w r s).fired = s.fired := by
  cases r <;> cases w <;> simp [react, issueCall]
@[simp] theorem react_busName (w : Who) (r : Reaction) (s : St) : (react w r s).busName = s.busName := by
  cases r <;> cases w <;> simp [react, issueCall]
@[simp] theorem react_timers (w : Who) (r : Reaction) (s : St) : (react w r s).timers = s.timers := by
  cases r <;> cases w <;> simp [react, issueCall]
@[simp] theorem react_registry (w : Who) (r : Reaction) (s : St) : (react w r s).registry = s.registry := by
  cases r <;> cases w <;> simp [react, issueCall]
@[simp] theorem react_log (w : Who) (r : Reaction) (s : St) : (react w r s).log = s.log := by
  cases r <;> cases w <;> simp [react, issueCall]
@[simp] theorem react_remaining (w : Who) (r : Reaction) (s : St) : (react w r s).remaining = s.remaining := by
  cases r <;> cases w <;> simp [react, issueCall]
@[simp] theorem react_current (w : Who) (r : Reaction) (s : St) : (react w r s).current = s.current := by
  cases r <;> cases w <;> simp [react, issueCall]

/-! ## The reply path -/

@[simp] theorem takeCall_phase (c : Call) (s : St) : (takeCall c s).phase = s.phase := by
  unfold takeCall; cases c.timed <;> simp
@[simp] theorem takeCall_fired (c : Call) (s : St) : (takeCall c s).fired = s.fired := by
  unfold takeCall; cases c.timed <;> simp
@[simp] theorem takeCall_busName (c : Call) (s : St) : (takeCall c s).busName = s.busName := by
  unfold takeCall; cases c.timed <;> simp
@[simp] theorem completeCall_phase (c : Call) (ok : Bool) (s : St) : (completeCall .repaired c ok s).phase = s.phase := by
  unfold completeCall; cases c.kind <;> cases ok <;> simp [St.emit, makeProxy]
@[simp] theorem completeCall_fired (c : Call) (ok : Bool) (s : St) : (completeCall .repaired c ok s).fired = s.fired := by
  unfold completeCall; cases c.kind <;> cases ok <;> simp [St.emit, makeProxy]
@[simp] theorem completeCall_busName (c : Call) (ok : Bool) (s : St) : (completeCall .repaired c ok s).busName = s.busName := by
  unfold completeCall; cases c.kind <;> cases ok <;> simp [St.emit, makeProxy]

/-- Proxies other than `p` are untouched by anything that runs on behalf of proxy `p`. -/
theorem findProxy_modifyProxy_ne {p q : Nat} (f : Proxy → Proxy) (hf : ∀ x, (f x).id = x.id) (h : q ≠ p) :
    ∀ l : List Proxy, findProxy q (modifyProxy p f l) = findProxy q l
  | [] => rfl
  | x :: t => by
    unfold modifyProxy
    split
    · rename_i hx
      have hxq : ¬ x.id = q := fun e => h (by rw [← e, hx])
      have hfq : ¬ (f x).id = q := by rw [hf]; exact hxq
      simp [findProxy, hxq, hfq]
    · simp only [findProxy]
      rw [findProxy_modifyProxy_ne f hf h t]

theorem react_proxies_conn (c : Cb) (r : Reaction) (s : St) : (react (.connCb c) r s).proxies = s.proxies := by
  cases r <;> simp [react, issueCall]
theorem react_proxies_errback (c : Call) (r : Reaction) (s : St) : (react (.errback c) r s).proxies = s.proxies := by
  cases r <;> simp [react, issueCall]

theorem react_findProxy_ne (p : Nat) (c : Cb) (r : Reaction) (s : St) (q : Nat) (h : q ≠ p) :
    findProxy q (react (.proxyCb p c) r s).proxies = findProxy q s.proxies := by
  cases r <;> simp [react, issueCall]
  · apply findProxy_modifyProxy_ne _ _ h; intro x; rfl
  · apply findProxy_modifyProxy_ne _ _ h; intro x; rfl

/-! ## Pass 1: connection-level callbacks -/

@[simp] theorem runConnCb_phase (c : Cb) (s : St) : (runConnCb c s).phase = s.phase := by simp [runConnCb, St.emit]
@[simp] theorem runConnCb_fired (c : Cb) (s : St) : (runConnCb c s).fired = s.fired := by simp [runConnCb, St.emit]
@[simp] theorem runConnCb_busName (c : Cb) (s : St) : (runConnCb c s).busName = s.busName := by simp [runConnCb, St.emit]
@[simp] theorem runConnCb_timers (c : Cb) (s : St) : (runConnCb c s).timers = s.timers := by simp [runConnCb, St.emit]
@[simp] theorem runConnCb_registry (c : Cb) (s : St) : (runConnCb c s).registry = s.registry := by simp [runConnCb, St.emit]
@[simp] theorem runConnCb_proxies (c : Cb) (s : St) : (runConnCb c s).proxies = s.proxies := by
  simp [runConnCb, St.emit, react_proxies_conn]
@[simp] theorem runConnCb_log (c : Cb) (s : St) : (runConnCb c s).log = s.log ++ [.connCb c.id] := by simp [runConnCb, St.emit]

theorem runConnCbs_frame (cbs : List Cb) : ∀ s : St,
    (runConnCbs cbs s).phase = s.phase ∧ (runConnCbs cbs s).fired = s.fired ∧
    (runConnCbs cbs s).busName = s.busName ∧ (runConnCbs cbs s).timers = s.timers ∧
    (runConnCbs cbs s).registry = s.registry ∧ (runConnCbs cbs s).proxies = s.proxies ∧
    (runConnCbs cbs s).log = s.log ++ cbs.map (fun c => Fx.connCb c.id) := by
  induction cbs with
  | nil => intro s; simp [runConnCbs]
  | cons c t ih =>
    intro s
    obtain ⟨h1, h2, h3, h4, h5, h6, h7⟩ := ih (runConnCb c s)
    simp [runConnCbs, h1, h2, h3, h4, h5, h6, h7]

/-- The pending table has distinct serials, all below the counter. -/
def PendOk (s : St) : Prop :=
  (s.pending.map (·.serial)).Nodup ∧ ∀ c ∈ s.pending, c.serial < s.nextSerial

theorem pendOk_issueCall (timed : Bool) (k : CallKind) (s : St) (h : PendOk s) : PendOk (issueCall timed k s) := by
  obtain ⟨hnd, hlt⟩ := h
  constructor
  · simp only [issueCall, List.map_append, List.map_cons, List.map_nil]
    rw [List.nodup_append]
    refine ⟨hnd, by simp, ?_⟩
    intro a ha b hb
    simp at hb
    subst hb
    obtain ⟨c, hc, rfl⟩ := List.mem_map.mp ha
    exact Nat.ne_of_lt (hlt c hc)
  · intro c hc
    simp only [issueCall, List.mem_append, List.mem_singleton] at hc
    rcases hc with hc | hc
    · exact Nat.lt_succ_of_lt (hlt c hc)
    · subst hc; simp [issueCall]

theorem react_pendOk (w : Who) (r : Reaction) (s : St) (h : PendOk s) : PendOk (react w r s) := by
  cases r
  · exact h
  · exact pendOk_issueCall _ _ _ h
  · cases w <;> exact h
  · cases w <;> exact h

theorem react_pending_mono (w : Who) (r : Reaction) (s : St) (c : Call) (h : c ∈ s.pending) : c ∈ (react w r s).pending := by
  cases r <;> cases w <;> simp [react, issueCall, h]

theorem runConnCbs_pendOk (cbs : List Cb) : ∀ s : St, PendOk s → PendOk (runConnCbs cbs s) := by
  induction cbs with
  | nil => intro s h; exact h
  | cons c t ih =>
    intro s h
    apply ih
    exact react_pendOk _ _ _ h

theorem runConnCbs_pending_mono (cbs : List Cb) : ∀ (s : St) (c : Call), c ∈ s.pending → c ∈ (runConnCbs cbs s).pending := by
  induction cbs with
  | nil => intro s c h; exact h
  | cons d t ih =>
    intro s c h
    apply ih
    exact react_pending_mono _ _ _ c h

/-! ## Pass 2: the pending calls -/

/-- What failing one entry of the table shows. -/
def failFx (c : Call) : List Fx :=
  (if c.timed then [Fx.timerCancelled c.serial] else []) ++ [Fx.callErr c.serial (errKindOf c.kind)]

theorem failCall_frame (c : Call) (s : St) :
    (failCall c s).phase = s.phase ∧ (failCall c s).fired = s.fired ∧ (failCall c s).busName = s.busName ∧
    (failCall c s).registry = s.registry ∧ (failCall c s).proxies = s.proxies ∧
    (failCall c s).log = s.log ++ failFx c ∧
    (failCall c s).timers = if c.timed then s.timers.filter (· ≠ c.serial) else s.timers := by
  unfold failCall failFx
  cases c.timed <;> simp [St.emit, react_proxies_errback]

theorem failCalls_frame (calls : List Call) : ∀ s : St,
    (failCalls calls s).phase = s.phase ∧ (failCalls calls s).fired = s.fired ∧
    (failCalls calls s).busName = s.busName ∧ (failCalls calls s).registry = s.registry ∧
    (failCalls calls s).proxies = s.proxies ∧
    (failCalls calls s).log = s.log ++ calls.flatMap failFx ∧
    (∀ t ∈ (failCalls calls s).timers, t ∈ s.timers ∧ ∀ c ∈ calls, c.timed = true → c.serial ≠ t) := by
  induction calls with
  | nil => intro s; simp [failCalls]
  | cons c t ih =>
    intro s
    obtain ⟨h1, h2, h3, h4, h5, h6, h7⟩ := ih (failCall c s)
    obtain ⟨g1, g2, g3, g4, g5, g6, g7⟩ := failCall_frame c s
    refine ⟨by simp [failCalls, h1, g1], by simp [failCalls, h2, g2], by simp [failCalls, h3, g3],
      by simp [failCalls, h4, g4], by simp [failCalls, h5, g5], by simp [failCalls, h6, g6], ?_⟩
    intro x hx
    simp only [failCalls] at hx
    obtain ⟨hx1, hx2⟩ := h7 x hx
    rw [g7] at hx1
    by_cases hc : c.timed = true
    · simp [hc] at hx1
      refine ⟨hx1.1, ?_⟩
      intro d hd hdt
      simp at hd
      rcases hd with rfl | hd
      · exact fun e => hx1.2 e.symm
      · exact hx2 d hd hdt
    · simp [hc] at hx1
      refine ⟨hx1, ?_⟩
      intro d hd hdt
      simp at hd
      rcases hd with rfl | hd
      · exact absurd hdt hc
      · exact hx2 d hd hdt

/-! ## Pass 3: the proxy registry -/

/-- What visiting one registry slot shows, given the proxies as they are when the walk starts. -/
def proxyFx (proxies : List Proxy) (slot : Nat × Nat) : List Fx :=
  match findProxy slot.2 proxies with
  | some q => if q.alive then q.cbs.map (fun c => Fx.proxyCb slot.2 c.id) else []
  | none => []

theorem runProxyCb_frame (p : Nat) (c : Cb) (s : St) :
    (runProxyCb p c s).phase = s.phase ∧ (runProxyCb p c s).fired = s.fired ∧
    (runProxyCb p c s).busName = s.busName ∧ (runProxyCb p c s).registry = s.registry ∧
    (runProxyCb p c s).timers = s.timers ∧
    (runProxyCb p c s).log = s.log ++ [Fx.proxyCb p c.id] ∧
    (∀ q, q ≠ p → findProxy q (runProxyCb p c s).proxies = findProxy q s.proxies) := by
  refine ⟨by simp [runProxyCb, St.emit], by simp [runProxyCb, St.emit], by simp [runProxyCb, St.emit],
    by simp [runProxyCb, St.emit], by simp [runProxyCb, St.emit], by simp [runProxyCb, St.emit], ?_⟩
  intro q hq
  simp only [runProxyCb]
  rw [react_findProxy_ne p c _ _ q hq]
  simp [St.emit]

theorem runProxyCbs_frame (p : Nat) (cbs : List Cb) : ∀ s : St,
    (runProxyCbs p cbs s).phase = s.phase ∧ (runProxyCbs p cbs s).fired = s.fired ∧
    (runProxyCbs p cbs s).busName = s.busName ∧ (runProxyCbs p cbs s).registry = s.registry ∧
    (runProxyCbs p cbs s).timers = s.timers ∧
    (runProxyCbs p cbs s).log = s.log ++ cbs.map (fun c => Fx.proxyCb p c.id) ∧
    (∀ q, q ≠ p → findProxy q (runProxyCbs p cbs s).proxies = findProxy q s.proxies) := by
  induction cbs with
  | nil => intro s; simp [runProxyCbs]
  | cons c t ih =>
    intro s
    obtain ⟨h1, h2, h3, h4, h5, h6, h7⟩ := ih (runProxyCb p c s)
    obtain ⟨g1, g2, g3, g4, g5, g6, g7⟩ := runProxyCb_frame p c s
    refine ⟨by simp [runProxyCbs, h1, g1], by simp [runProxyCbs, h2, g2], by simp [runProxyCbs, h3, g3],
      by simp [runProxyCbs, h4, g4], by simp [runProxyCbs, h5, g5], by simp [runProxyCbs, h6, g6], ?_⟩
    intro q hq
    simp only [runProxyCbs]
    rw [h7 q hq, g7 q hq]

theorem runProxies_basic (reg : List (Nat × Nat)) : ∀ s : St,
    (runProxies .repaired reg s).phase = s.phase ∧ (runProxies .repaired reg s).fired = s.fired ∧
    (runProxies .repaired reg s).busName = s.busName ∧ (runProxies .repaired reg s).registry = s.registry ∧
    (runProxies .repaired reg s).timers = s.timers := by
  induction reg with
  | nil => intro s; simp [runProxies]
  | cons e t ih =>
    intro s
    obtain ⟨k, p⟩ := e
    simp only [runProxies]
    cases findProxy p s.proxies with
    | none => exact ih s
    | some q =>
      by_cases ha : q.alive = true
      · have hv : Variant.repaired.snapshotCallbacks = true := rfl
        simp only [ha, hv, if_true]
        obtain ⟨g1, g2, g3, g4, g5, _, _⟩ := runProxyCbs_frame p q.cbs s
        obtain ⟨h1, h2, h3, h4, h5⟩ := ih (runProxyCbs p q.cbs s)
        exact ⟨by rw [h1, g1], by rw [h2, g2], by rw [h3, g3], by rw [h4, g4], by rw [h5, g5]⟩
      · have ha' : q.alive = false := by simpa using ha
        simp only [ha', Bool.false_eq_true, if_false]
        exact ih s

theorem runProxies_frame (reg : List (Nat × Nat)) (hnd : (reg.map (·.2)).Nodup) : ∀ s : St,
    (runProxies .repaired reg s).phase = s.phase ∧ (runProxies .repaired reg s).fired = s.fired ∧
    (runProxies .repaired reg s).busName = s.busName ∧ (runProxies .repaired reg s).registry = s.registry ∧
    (runProxies .repaired reg s).timers = s.timers ∧
    (runProxies .repaired reg s).log = s.log ++ reg.flatMap (proxyFx s.proxies) := by
  induction reg with
  | nil => intro s; simp [runProxies]
  | cons e t ih =>
    intro s
    obtain ⟨k, p⟩ := e
    have hnd' : (t.map (·.2)).Nodup := (List.nodup_cons.mp (by simpa using hnd)).2
    have hp : p ∉ t.map (·.2) := (List.nodup_cons.mp (by simpa using hnd)).1
    simp only [runProxies]
    cases hf : findProxy p s.proxies with
    | none =>
      obtain ⟨h1, h2, h3, h4, h5, h6⟩ := ih hnd' s
      simp [h1, h2, h3, h4, h5, h6, proxyFx, hf]
    | some q =>
      by_cases ha : q.alive = true
      · have hv : Variant.repaired.snapshotCallbacks = true := rfl
        simp only [ha, hv, if_true]
        obtain ⟨g1, g2, g3, g4, g5, g6, g7⟩ := runProxyCbs_frame p q.cbs s
        obtain ⟨h1, h2, h3, h4, h5, h6⟩ := ih hnd' (runProxyCbs p q.cbs s)
        refine ⟨by rw [h1, g1], by rw [h2, g2], by rw [h3, g3], by rw [h4, g4], by rw [h5, g5], ?_⟩
        rw [h6, g6]
        have hcongr : t.flatMap (proxyFx (runProxyCbs p q.cbs s).proxies) = t.flatMap (proxyFx s.proxies) := by
          apply flatMap_congr'
          intro x hx
          have hxp : x.2 ≠ p := fun e => hp (e ▸ List.mem_map_of_mem hx)
          simp only [proxyFx]
          rw [g7 x.2 hxp]
        rw [hcongr]
        simp [proxyFx, hf, ha]
      · have ha' : q.alive = false := by simpa using ha
        simp only [ha', Bool.false_eq_true, if_false]
        obtain ⟨h1, h2, h3, h4, h5, h6⟩ := ih hnd' s
        simp [h1, h2, h3, h4, h5, h6, proxyFx, hf, ha']

end Txdbus.Client.Lifecycle
