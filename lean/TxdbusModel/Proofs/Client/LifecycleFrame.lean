import TxdbusModel.Client.Lifecycle
/-
C09 - frame lemmas for the passes of `connectionLost` (repaired variant): what a user callback running
inside `connectionLost` can and cannot change.
-/
namespace Txdbus.Client.Lifecycle
open Txdbus.Client.Endpoints

theorem flatMap_congr' {α β : Type} (l : List α) (f g : α → List β) (h : ∀ x ∈ l, f x = g x) :
    l.flatMap f = l.flatMap g := by
  induction l with
  | nil => rfl
  | cons a t ih =>
    rw [List.flatMap_cons, List.flatMap_cons, h a (by simp), ih (fun x hx => h x (by simp [hx]))]

/-! ## The repaired variant: its flags, and the walkers unfolded (no callback can abort the walk) -/

@[simp] theorem repaired_guard : Variant.repaired.guardCallbacks = true := rfl
@[simp] theorem repaired_helloNeedsName : Variant.repaired.helloNeedsName = true := rfl

@[simp] theorem runConnCbs_nil (s : St) : runConnCbs .repaired [] s = s := rfl
@[simp] theorem runConnCbs_cons (c : Cb) (t : List Cb) (s : St) :
    runConnCbs .repaired (c :: t) s = runConnCbs .repaired t (runConnCb .repaired c s) := rfl
@[simp] theorem runProxyCbs_nil (p : Nat) (s : St) : runProxyCbs .repaired p [] s = s := rfl
@[simp] theorem runProxyCbs_cons (p : Nat) (c : Cb) (t : List Cb) (s : St) :
    runProxyCbs .repaired p (c :: t) s = runProxyCbs .repaired p t (runProxyCb .repaired p c s) := rfl

/-! ## `react`: fields it never touches -/

@[simp] theorem react_phase (w : Who) (r : Reaction) (s : St) : (react .repaired w r s).phase = s.phase := by
  cases r <;> cases w <;> simp [react, issueCall, makeProxyCbs]
@[simp] theorem react_fired (w : Who) (r : Reaction) (s : St) : (react .repaired w r s).fired = s.fired := by
  cases r <;> cases w <;> simp [react, issueCall, makeProxyCbs]
@[simp] theorem react_busName (w : Who) (r : Reaction) (s : St) : (react .repaired w r s).busName = s.busName := by
  cases r <;> cases w <;> simp [react, issueCall, makeProxyCbs]
@[simp] theorem react_timers (w : Who) (r : Reaction) (s : St) : (react .repaired w r s).timers = s.timers := by
  cases r <;> cases w <;> simp [react, issueCall, makeProxyCbs]
@[simp] theorem react_log (w : Who) (r : Reaction) (s : St) : (react .repaired w r s).log = s.log := by
  cases r <;> cases w <;> simp [react, issueCall, makeProxyCbs]
@[simp] theorem react_remaining (w : Who) (r : Reaction) (s : St) : (react .repaired w r s).remaining = s.remaining := by
  cases r <;> cases w <;> simp [react, issueCall, makeProxyCbs]
@[simp] theorem react_current (w : Who) (r : Reaction) (s : St) : (react .repaired w r s).current = s.current := by
  cases r <;> cases w <;> simp [react, issueCall, makeProxyCbs]

/-! ## The reply path -/

@[simp] theorem takeCall_phase (c : Call) (s : St) : (takeCall c s).phase = s.phase := by
  unfold takeCall; cases c.timed <;> simp
@[simp] theorem takeCall_fired (c : Call) (s : St) : (takeCall c s).fired = s.fired := by
  unfold takeCall; cases c.timed <;> simp
@[simp] theorem takeCall_busName (c : Call) (s : St) : (takeCall c s).busName = s.busName := by
  unfold takeCall; cases c.timed <;> simp
@[simp] theorem completeCall_phase (c : Call) (ok : Bool) (s : St) : (completeCall .repaired c ok s).phase = s.phase := by
  unfold completeCall; cases c.cancelled <;> cases c.kind <;> cases ok <;> simp [St.emit, makeProxy, makeProxyCbs]
@[simp] theorem completeCall_fired (c : Call) (ok : Bool) (s : St) : (completeCall .repaired c ok s).fired = s.fired := by
  unfold completeCall; cases c.cancelled <;> cases c.kind <;> cases ok <;> simp [St.emit, makeProxy, makeProxyCbs]
@[simp] theorem completeCall_busName (c : Call) (ok : Bool) (s : St) : (completeCall .repaired c ok s).busName = s.busName := by
  unfold completeCall; cases c.cancelled <;> cases c.kind <;> cases ok <;> simp [St.emit, makeProxy, makeProxyCbs]

/-- Proxies other than `p` are untouched by anything that runs on behalf of proxy `p`. -/
theorem findProxy_modifyProxy_ne {p q : Nat} (f : Proxy → Proxy) (hf : ∀ x, (f x).id = x.id) (h : q ≠ p) :
    ∀ l : List Proxy, findProxy q (modifyProxy p f l) = findProxy q l
  | [] => rfl
  | x :: t => by
    unfold modifyProxy
    split
    · rename_i hx
      have hxq : ¬ x.id = q := fun e => h (by rw [← e, hx])
      have hfq : ¬ (f x).id = q := by rw [hf]; exact hxq
      simp [findProxy, hxq, hfq]
    · simp only [findProxy]
      rw [findProxy_modifyProxy_ne f hf h t]

theorem findProxy_append_some {q : Nat} {x : Proxy} (ex : List Proxy) :
    ∀ {l : List Proxy}, findProxy q l = some x → findProxy q (l ++ ex) = some x
  | [], h => by simp [findProxy] at h
  | y :: t, h => by
    simp only [List.cons_append, findProxy] at h ⊢
    split
    · rename_i hy; simpa [hy] using h
    · rename_i hy; simp only [hy, if_false] at h; exact findProxy_append_some ex h

/-- Every proxy that exists keeps existing, unchanged (callbacks at connection level and errbacks only
ever add proxies). -/
def KeepsAll (s s' : St) : Prop := ∀ q x, findProxy q s.proxies = some x → findProxy q s'.proxies = some x

/-- The same for every proxy other than `p` (the callbacks of proxy `p` may edit `p`'s own list). -/
def Keeps (p : Nat) (s s' : St) : Prop :=
  ∀ q x, q ≠ p → findProxy q s.proxies = some x → findProxy q s'.proxies = some x

/-- The registry only grows. -/
def RegMono (s s' : St) : Prop := ∀ e, e ∈ s.registry → e ∈ s'.registry

theorem KeepsAll.refl (s : St) : KeepsAll s s := fun _ _ h => h
theorem KeepsAll.trans {a b c : St} (h1 : KeepsAll a b) (h2 : KeepsAll b c) : KeepsAll a c :=
  fun q x h => h2 q x (h1 q x h)
theorem Keeps.refl (p : Nat) (s : St) : Keeps p s s := fun _ _ _ h => h
theorem Keeps.trans {p : Nat} {a b c : St} (h1 : Keeps p a b) (h2 : Keeps p b c) : Keeps p a c :=
  fun q x hq h => h2 q x hq (h1 q x hq h)
theorem RegMono.refl (s : St) : RegMono s s := fun _ h => h
theorem RegMono.trans {a b c : St} (h1 : RegMono a b) (h2 : RegMono b c) : RegMono a c :=
  fun e h => h2 e (h1 e h)

theorem mem_regSet_of_mem {k p : Nat} {e : Nat × Nat} : ∀ {reg : List (Nat × Nat)}, e ∈ reg → e.1 ≠ k → e ∈ regSet k p reg
  | [], h, _ => by cases h
  | (k', p') :: t, h, hk => by
    unfold regSet
    split
    · rename_i hk'
      rcases List.mem_cons.mp h with rfl | h
      · exact absurd hk' hk
      · exact List.mem_cons_of_mem _ h
    · rcases List.mem_cons.mp h with rfl | h
      · exact List.mem_cons_self
      · exact List.mem_cons_of_mem _ (mem_regSet_of_mem h hk)

theorem react_keepsAll_conn (c : Cb) (r : Reaction) (s : St) : KeepsAll s (react .repaired (.connCb c) r s) := by
  intro q x h
  cases r <;> simp only [react, issueCall, makeProxyCbs, repaired_guard, ↓reduceIte] <;>
    first | exact h | exact findProxy_append_some _ h

theorem react_keepsAll_errback (c : Call) (r : Reaction) (s : St) : KeepsAll s (react .repaired (.errback c) r s) := by
  intro q x h
  cases r <;> simp only [react, issueCall, makeProxyCbs] <;>
    first | exact h | exact findProxy_append_some _ h

theorem react_keeps_proxy (p : Nat) (c : Cb) (r : Reaction) (s : St) : Keeps p s (react .repaired (.proxyCb p c) r s) := by
  intro q x hq h
  cases r with
  | nothing => exact h
  | newCall => exact h
  | unregisterSelf =>
    simp only [react]; refine Eq.trans ?_ h; apply findProxy_modifyProxy_ne _ _ hq; intro y; rfl
  | registerAnother =>
    simp only [react]; refine Eq.trans ?_ h; apply findProxy_modifyProxy_ne _ _ hq; intro y; rfl
  | raises => exact h
  | newProxy => exact findProxy_append_some _ h

/-! ## Pass 1: connection-level callbacks -/

@[simp] theorem runConnCb_phase (c : Cb) (s : St) : (runConnCb .repaired c s).phase = s.phase := by simp [runConnCb, St.emit]
@[simp] theorem runConnCb_fired (c : Cb) (s : St) : (runConnCb .repaired c s).fired = s.fired := by simp [runConnCb, St.emit]
@[simp] theorem runConnCb_busName (c : Cb) (s : St) : (runConnCb .repaired c s).busName = s.busName := by simp [runConnCb, St.emit]
@[simp] theorem runConnCb_timers (c : Cb) (s : St) : (runConnCb .repaired c s).timers = s.timers := by simp [runConnCb, St.emit]
@[simp] theorem runConnCb_log (c : Cb) (s : St) : (runConnCb .repaired c s).log = s.log ++ [.connCb c.id] := by simp [runConnCb, St.emit]
theorem runConnCb_keepsAll (c : Cb) (s : St) : KeepsAll s (runConnCb .repaired c s) := by
  intro q x h
  exact react_keepsAll_conn c c.react (s.emit (.connCb c.id)) q x (by simpa [St.emit] using h)

theorem runConnCbs_frame (cbs : List Cb) : ∀ s : St,
    (runConnCbs .repaired cbs s).phase = s.phase ∧ (runConnCbs .repaired cbs s).fired = s.fired ∧
    (runConnCbs .repaired cbs s).busName = s.busName ∧ (runConnCbs .repaired cbs s).timers = s.timers ∧
    KeepsAll s (runConnCbs .repaired cbs s) ∧
    (runConnCbs .repaired cbs s).log = s.log ++ cbs.map (fun c => Fx.connCb c.id) := by
  induction cbs with
  | nil => intro s; simp [runConnCbs, KeepsAll.refl]
  | cons c t ih =>
    intro s
    obtain ⟨h1, h2, h3, h4, h5, h6⟩ := ih (runConnCb .repaired c s)
    refine ⟨by simp [runConnCbs, h1], by simp [runConnCbs, h2], by simp [runConnCbs, h3], by simp [runConnCbs, h4],
      (runConnCb_keepsAll c s).trans h5, by simp [runConnCbs, h6]⟩

/-- The pending table has distinct serials, all below the counter. -/
def PendOk (s : St) : Prop :=
  (s.pending.map (·.serial)).Nodup ∧ ∀ c ∈ s.pending, c.serial < s.nextSerial

theorem pendOk_issueCall (timed : Bool) (k : CallKind) (s : St) (h : PendOk s) : PendOk (issueCall timed k s) := by
  obtain ⟨hnd, hlt⟩ := h
  constructor
  · simp only [issueCall, List.map_append, List.map_cons, List.map_nil]
    rw [List.nodup_append]
    refine ⟨hnd, by simp, ?_⟩
    intro a ha b hb
    simp at hb
    subst hb
    obtain ⟨c, hc, rfl⟩ := List.mem_map.mp ha
    exact Nat.ne_of_lt (hlt c hc)
  · intro c hc
    simp only [issueCall, List.mem_append, List.mem_singleton] at hc
    rcases hc with hc | hc
    · exact Nat.lt_succ_of_lt (hlt c hc)
    · subst hc; simp [issueCall]

theorem react_pendOk (w : Who) (r : Reaction) (s : St) (h : PendOk s) : PendOk (react .repaired w r s) := by
  cases r
  · exact h
  · exact pendOk_issueCall _ _ _ h
  · cases w <;> exact h
  · cases w <;> exact h
  · cases w <;> exact h
  · exact h

theorem react_pending_mono (w : Who) (r : Reaction) (s : St) (c : Call) (h : c ∈ s.pending) : c ∈ (react .repaired w r s).pending := by
  cases r <;> cases w <;> simp [react, issueCall, makeProxyCbs, h]

theorem runConnCbs_pendOk (cbs : List Cb) : ∀ s : St, PendOk s → PendOk (runConnCbs .repaired cbs s) := by
  induction cbs with
  | nil => intro s h; exact h
  | cons c t ih =>
    intro s h
    apply ih
    exact react_pendOk _ _ _ h

theorem runConnCbs_pending_mono (cbs : List Cb) : ∀ (s : St) (c : Call), c ∈ s.pending → c ∈ (runConnCbs .repaired cbs s).pending := by
  induction cbs with
  | nil => intro s c h; exact h
  | cons d t ih =>
    intro s c h
    apply ih
    exact react_pending_mono _ _ _ c h

/-! ## Pass 2: the pending calls -/

/-- What failing one entry of the table shows: the cancellation of its timer if it has one, and the errback
of its Deferred with the loss - unless the caller has cancelled that Deferred (then the errback is swallowed). -/
def failFx (c : Call) : List Fx :=
  (if c.timed then [Fx.timerCancelled c.serial] else []) ++
    (if c.cancelled then [] else [Fx.callErr c.serial (errKindOf c.kind)])

theorem failCall_frame (c : Call) (s : St) :
    (failCall .repaired c s).phase = s.phase ∧ (failCall .repaired c s).fired = s.fired ∧
    (failCall .repaired c s).busName = s.busName ∧ KeepsAll s (failCall .repaired c s) ∧
    (failCall .repaired c s).log = s.log ++ failFx c ∧
    (failCall .repaired c s).timers = if c.timed then s.timers.filter (· ≠ c.serial) else s.timers := by
  refine ⟨?_, ?_, ?_, ?_, ?_, ?_⟩
  · unfold failCall; cases c.timed <;> cases c.cancelled <;> simp [St.emit]
  · unfold failCall; cases c.timed <;> cases c.cancelled <;> simp [St.emit]
  · unfold failCall; cases c.timed <;> cases c.cancelled <;> simp [St.emit]
  · intro q x h
    unfold failCall
    cases c.cancelled
    · simp only [Bool.false_eq_true, if_false]
      apply react_keepsAll_errback
      cases c.timed <;> simpa [St.emit] using h
    · cases c.timed <;> simpa using h
  · unfold failCall failFx; cases c.timed <;> cases c.cancelled <;> simp [St.emit]
  · unfold failCall; cases c.timed <;> cases c.cancelled <;> simp [St.emit]

theorem failCalls_frame (calls : List Call) : ∀ s : St,
    (failCalls .repaired calls s).phase = s.phase ∧ (failCalls .repaired calls s).fired = s.fired ∧
    (failCalls .repaired calls s).busName = s.busName ∧ KeepsAll s (failCalls .repaired calls s) ∧
    (failCalls .repaired calls s).log = s.log ++ calls.flatMap failFx ∧
    (∀ t ∈ (failCalls .repaired calls s).timers, t ∈ s.timers ∧ ∀ c ∈ calls, c.timed = true → c.serial ≠ t) := by
  induction calls with
  | nil => intro s; simp [failCalls, KeepsAll.refl]
  | cons c t ih =>
    intro s
    obtain ⟨h1, h2, h3, h5, h6, h7⟩ := ih (failCall .repaired c s)
    obtain ⟨g1, g2, g3, g5, g6, g7⟩ := failCall_frame c s
    refine ⟨by simp [failCalls, h1, g1], by simp [failCalls, h2, g2], by simp [failCalls, h3, g3],
      g5.trans h5, by simp [failCalls, h6, g6], ?_⟩
    intro x hx
    simp only [failCalls] at hx
    obtain ⟨hx1, hx2⟩ := h7 x hx
    rw [g7] at hx1
    by_cases hc : c.timed = true
    · simp [hc] at hx1
      refine ⟨hx1.1, ?_⟩
      intro d hd hdt
      simp at hd
      rcases hd with rfl | hd
      · exact fun e => hx1.2 e.symm
      · exact hx2 d hd hdt
    · simp [hc] at hx1
      refine ⟨hx1, ?_⟩
      intro d hd hdt
      simp at hd
      rcases hd with rfl | hd
      · exact absurd hdt hc
      · exact hx2 d hd hdt

/-! ## Pass 3: the proxy registry -/

/-- What visiting one registry slot shows, given the proxies as they are when the walk starts. -/
def proxyFx (proxies : List Proxy) (slot : Nat × Nat) : List Fx :=
  match findProxy slot.2 proxies with
  | some q => if q.alive then q.cbs.map (fun c => Fx.proxyCb slot.2 c.id) else []
  | none => []

theorem runProxyCb_frame (p : Nat) (c : Cb) (s : St) :
    (runProxyCb .repaired p c s).phase = s.phase ∧ (runProxyCb .repaired p c s).fired = s.fired ∧
    (runProxyCb .repaired p c s).busName = s.busName ∧
    (runProxyCb .repaired p c s).timers = s.timers ∧
    (runProxyCb .repaired p c s).log = s.log ++ [Fx.proxyCb p c.id] ∧
    Keeps p s (runProxyCb .repaired p c s) := by
  refine ⟨by simp [runProxyCb, St.emit], by simp [runProxyCb, St.emit], by simp [runProxyCb, St.emit],
    by simp [runProxyCb, St.emit], by simp [runProxyCb, St.emit], ?_⟩
  intro q x hq h
  exact react_keeps_proxy p c c.react (s.emit (.proxyCb p c.id)) q x hq (by simpa [St.emit] using h)

theorem runProxyCbs_frame (p : Nat) (cbs : List Cb) : ∀ s : St,
    (runProxyCbs .repaired p cbs s).phase = s.phase ∧ (runProxyCbs .repaired p cbs s).fired = s.fired ∧
    (runProxyCbs .repaired p cbs s).busName = s.busName ∧
    (runProxyCbs .repaired p cbs s).timers = s.timers ∧
    (runProxyCbs .repaired p cbs s).log = s.log ++ cbs.map (fun c => Fx.proxyCb p c.id) ∧
    Keeps p s (runProxyCbs .repaired p cbs s) := by
  induction cbs with
  | nil => intro s; simp [runProxyCbs, Keeps.refl]
  | cons c t ih =>
    intro s
    obtain ⟨h1, h2, h3, h5, h6, h7⟩ := ih (runProxyCb .repaired p c s)
    obtain ⟨g1, g2, g3, g5, g6, g7⟩ := runProxyCb_frame p c s
    exact ⟨by simp [runProxyCbs, h1, g1], by simp [runProxyCbs, h2, g2], by simp [runProxyCbs, h3, g3],
      by simp [runProxyCbs, h5, g5], by simp [runProxyCbs, h6, g6], g7.trans h7⟩

theorem runProxies_basic (reg : List (Nat × Nat)) : ∀ s : St,
    (runProxies .repaired reg s).phase = s.phase ∧ (runProxies .repaired reg s).fired = s.fired ∧
    (runProxies .repaired reg s).busName = s.busName ∧
    (runProxies .repaired reg s).timers = s.timers := by
  induction reg with
  | nil => intro s; simp [runProxies]
  | cons e t ih =>
    intro s
    obtain ⟨k, p⟩ := e
    simp only [runProxies]
    cases findProxy p s.proxies with
    | none => exact ih s
    | some q =>
      by_cases ha : q.alive = true
      · have hv : Variant.repaired.snapshotCallbacks = true := rfl
        simp only [ha, hv, if_true, repaired_guard, Bool.not_true, Bool.false_and, Bool.false_eq_true, if_false]
        obtain ⟨g1, g2, g3, g5, _, _⟩ := runProxyCbs_frame p q.cbs s
        obtain ⟨h1, h2, h3, h5⟩ := ih (runProxyCbs .repaired p q.cbs s)
        exact ⟨by rw [h1, g1], by rw [h2, g2], by rw [h3, g3], by rw [h5, g5]⟩
      · have ha' : q.alive = false := by simpa using ha
        simp only [ha', Bool.false_eq_true, if_false]
        exact ih s

/-- The walk over a snapshot `reg` of the registry whose slots name distinct, existing proxies: each live
proxy's callbacks (as they are when the walk starts), slot by slot - whatever the callbacks do, including
obtaining new proxies (which are not part of this walk). -/
theorem runProxies_log (reg : List (Nat × Nat)) (hnd : (reg.map (·.2)).Nodup) : ∀ s : St,
    (∀ e ∈ reg, ∃ x, findProxy e.2 s.proxies = some x) →
    (runProxies .repaired reg s).log = s.log ++ reg.flatMap (proxyFx s.proxies) := by
  induction reg with
  | nil => intro s _; simp [runProxies]
  | cons e t ih =>
    intro s hex
    obtain ⟨k, p⟩ := e
    have hnd' : (t.map (·.2)).Nodup := (List.nodup_cons.mp (by simpa using hnd)).2
    have hp : p ∉ t.map (·.2) := (List.nodup_cons.mp (by simpa using hnd)).1
    have hext : ∀ e ∈ t, ∃ x, findProxy e.2 s.proxies = some x := fun e he => hex e (List.mem_cons_of_mem _ he)
    simp only [runProxies]
    cases hf : findProxy p s.proxies with
    | none => rw [ih hnd' s hext]; simp [proxyFx, hf]
    | some q =>
      by_cases ha : q.alive = true
      · have hv : Variant.repaired.snapshotCallbacks = true := rfl
        simp only [ha, hv, if_true, repaired_guard, Bool.not_true, Bool.false_and, Bool.false_eq_true, if_false]
        obtain ⟨_, _, _, _, g6, g7⟩ := runProxyCbs_frame p q.cbs s
        have hext' : ∀ e ∈ t, ∃ x, findProxy e.2 (runProxyCbs .repaired p q.cbs s).proxies = some x := by
          intro e he
          obtain ⟨x, hx⟩ := hext e he
          exact ⟨x, g7 e.2 x (fun h => hp (h ▸ List.mem_map_of_mem he)) hx⟩
        rw [ih hnd' _ hext', g6]
        have hcongr : t.flatMap (proxyFx (runProxyCbs .repaired p q.cbs s).proxies) = t.flatMap (proxyFx s.proxies) := by
          apply flatMap_congr'
          intro e he
          obtain ⟨x, hx⟩ := hext e he
          have hxp : e.2 ≠ p := fun h => hp (h ▸ List.mem_map_of_mem he)
          simp only [proxyFx]
          rw [g7 e.2 x hxp hx, hx]
        rw [hcongr]
        simp [proxyFx, hf, ha]
      · have ha' : q.alive = false := by simpa using ha
        simp only [ha', Bool.false_eq_true, if_false]
        rw [ih hnd' s hext]; simp [proxyFx, hf, ha']

end Txdbus.Client.Lifecycle
