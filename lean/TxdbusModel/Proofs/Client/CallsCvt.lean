/-
C08 - the value convention of `_cbCvtReply` against its specification, and the serial counter.
-/
import TxdbusModel.Client.CallsSpec

namespace Txdbus.Calls

open Txdbus.Calls.Spec
open Txdbus.Gen

variable {V R : Type}

/-! ### Facts about the generated table (re-checked whenever the source changes) -/

theorem structOpen_eq : C08Client.structOpen = '(' := by decide
/-- All the distinctness argument needs of the counter: it moves forward. -/
theorem serialStep_pos : 0 < C08Client.serialStep := by decide

/-! ### `_cbCvtReply` -/

theorem cvtReply_none (rs : RetSig) : cvtReply (none : Option (Reply V)) rs = .none := rfl

/-- On a reply as it comes off the wire, `_cbCvtReply` raises RemoteError when the signature check fails
and otherwise follows the convention. -/
theorem cvtReply_wellFormed (m : Reply V) (hw : WellFormed m) (rs : RetSig) :
    cvtReply (some m) rs =
      match sigCheck rs m.signature with
      | some t => .remoteError t
      | none => convention (sigOf m) (valuesOf m) := by
  obtain ⟨sig, body⟩ := m
  simp only [cvtReply]
  cases hs : sigCheck rs sig with
  | some t => rfl
  | none =>
    simp only
    unfold WellFormed at hw
    cases body with
    | none => rfl
    | some vs =>
      simp only at hw
      obtain ⟨hne, c, cs, hsig⟩ := hw
      subst hsig
      cases vs with
      | nil => exact absurd rfl hne
      | cons v rest =>
        cases rest with
        | nil =>
          simp only [convention, sigOf, valuesOf, Option.getD_some, List.head?_cons, structOpen_eq]
          by_cases hc : c = '('
          · simp [hc]
          · simp [hc]
        | cons w rest' => rfl

theorem truthyStr_iff (sig : Option (List Char)) : truthyStr sig = true ↔ sig.getD [] ≠ [] := by
  cases sig with
  | none => simp [truthyStr]
  | some s => cases s <;> simp [truthyStr]

/-- The signature check fails exactly when a signature was declared and the reply's differs. -/
theorem truthyStr_false_iff (sig : Option (List Char)) : truthyStr sig = false ↔ sig.getD [] = [] := by
  cases sig with
  | none => simp [truthyStr]
  | some s => cases s <;> simp [truthyStr]

theorem sigCheck_isSome_iff (rs : RetSig) (sig : Option (List Char)) :
    (sigCheck rs sig).isSome = true ↔ ∃ d, declared rs = some d ∧ d ≠ sig.getD [] := by
  cases rs with
  | noCheck => simp [sigCheck, declared]
  | pyNone =>
    simp only [sigCheck, declared]
    by_cases ht : truthyStr sig = true
    · simp only [ht, if_true, Option.isSome_some, true_iff]
      exact ⟨[], rfl, fun h => (truthyStr_iff sig).mp ht h.symm⟩
    · simp only [ht]
      simp only [Bool.false_eq_true, if_false, Option.isSome_none, false_iff, not_exists, not_and]
      intro d hd
      cases hd
      have hf : truthyStr sig = false := by simpa using ht
      have := (truthyStr_false_iff sig).mp hf
      simp only [ne_eq, Decidable.not_not]
      exact this.symm
  | str r =>
    simp only [sigCheck, declared]
    cases hk : isSentinel r with
    | true => simp
    | false =>
      simp only [if_false, Bool.false_eq_true]
      cases r with
      | nil =>
        by_cases ht : truthyStr sig = true
        · simp only [List.isEmpty_nil, ht, if_true, Option.isSome_some, true_iff]
          exact ⟨[], rfl, fun h => (truthyStr_iff sig).mp ht h.symm⟩
        · simp only [List.isEmpty_nil, if_true, ht]
          simp only [Bool.false_eq_true, if_false, Option.isSome_none, false_iff, not_exists, not_and]
          intro d hd
          cases hd
          have hf : truthyStr sig = false := by simpa using ht
          have := (truthyStr_false_iff sig).mp hf
          simp only [ne_eq, Decidable.not_not]
          exact this.symm
      | cons c cs =>
        simp only [List.isEmpty_cons, Bool.false_eq_true, if_false]
        cases sig with
        | none => simp [truthyStr]
        | some s =>
          cases s with
          | nil => simp [truthyStr]
          | cons a as =>
            by_cases he : (a :: as) = (c :: cs)
            · simp [truthyStr, he]
            · have he' : (c :: cs) ≠ (a :: as) := fun h => he h.symm
              simp [truthyStr, he, he']

/-! ### The serial counter -/

theorem assign_serials_ge : ∀ (evs : List (Ev V R)) (c : Nat),
    ∀ σ ∈ (assign c evs).filterMap regSerial, c ≤ σ
  | [], _, σ, h => by simp [assign] at h
  | ev :: t, c, σ, h => by
    cases ev with
    | call er tmo rs =>
      simp only [assign, allocSerial, List.filterMap_cons] at h
      cases er with
      | true =>
        simp only [regSerial, List.mem_cons] at h
        rcases h with h | h
        · omega
        · have := assign_serials_ge t _ σ h; omega
      | false =>
        simp only [regSerial] at h
        have := assign_serials_ge t _ σ h; omega
    | otherMessage =>
      simp only [assign, allocSerial] at h
      have := assign_serials_ge t _ σ h; omega
    | callBad rs taken =>
      simp only [assign, allocSerial, List.filterMap_cons, regSerial] at h
      have := assign_serials_ge t _ σ h
      split at this <;> omega
    | ret rsn msg =>
      simp only [assign, List.filterMap_cons, regSerial] at h
      exact assign_serials_ge t _ σ h
    | err rsn name body =>
      simp only [assign, List.filterMap_cons, regSerial] at h
      exact assign_serials_ge t _ σ h
    | expire tid =>
      simp only [assign, List.filterMap_cons, regSerial] at h
      exact assign_serials_ge t _ σ h
    | lost r =>
      simp only [assign, List.filterMap_cons, regSerial] at h
      exact assign_serials_ge t _ σ h

theorem assign_distinct : ∀ (evs : List (Ev V R)) (c : Nat), DistinctSerials (assign c evs)
  | [], _ => by simp [assign, DistinctSerials]
  | ev :: t, c => by
    cases ev with
    | call er tmo rs =>
      cases er with
      | true =>
        simp only [DistinctSerials, assign, allocSerial, List.filterMap_cons, regSerial, List.nodup_cons]
        refine ⟨?_, assign_distinct t _⟩
        intro h
        have := assign_serials_ge t _ _ h
        have hpos := serialStep_pos
        omega
      | false =>
        simp only [DistinctSerials, assign, allocSerial, List.filterMap_cons, regSerial]
        exact assign_distinct t _
    | otherMessage => simpa [DistinctSerials, assign] using assign_distinct t _
    | callBad rs taken =>
      simp only [DistinctSerials, assign, List.filterMap_cons, regSerial]
      exact assign_distinct t _
    | ret rsn msg =>
      simp only [DistinctSerials, assign, List.filterMap_cons, regSerial]
      exact assign_distinct t _
    | err rsn name body =>
      simp only [DistinctSerials, assign, List.filterMap_cons, regSerial]
      exact assign_distinct t _
    | expire tid =>
      simp only [DistinctSerials, assign, List.filterMap_cons, regSerial]
      exact assign_distinct t _
    | lost r =>
      simp only [DistinctSerials, assign, List.filterMap_cons, regSerial]
      exact assign_distinct t _

end Txdbus.Calls
