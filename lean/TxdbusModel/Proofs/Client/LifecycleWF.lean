import TxdbusModel.Proofs.Client.LifecycleInv
import TxdbusModel.Proofs.Client.LifecycleReady
/-
C09 - the structural invariant holds in every reachable state.
-/
namespace Txdbus.Client.Lifecycle
open Txdbus.Client.Endpoints

structure WF (s : St) : Prop where
  early : s.phase ≠ .ready → s.phase ≠ .lost → s.proxies = [] ∧ s.registry = []
  hs : s.phase = .helloSent → PendOk s ∧ s.dcCallbacks = []
  ready : s.phase = .ready → ReadyOk s

theorem wf_connect (eps : List Endpoint) : WF (connect eps) := by
  unfold connect
  simp only []
  split
  · constructor <;> simp [fire, St.empty]
  · simp only [tryNext]
    split
    · constructor <;> simp [St.empty]
    · constructor <;> simp [fire, St.empty]

theorem wf_step (s : St) (e : Ev) (hi : Inv1 s) (hw : WF s) : WF (step .repaired s e) := by
  obtain ⟨w1, w2, w3⟩ := hw
  cases e with
  | attemptFails why =>
    simp only [step]
    split
    · rename_i hp
      have := w1 (by simp [hp]) (by simp [hp])
      unfold tryNext
      split <;> (constructor <;> simp_all [fire])
    · exact ⟨w1, w2, w3⟩
  | attemptConnects =>
    simp only [step]
    split
    · rename_i hp
      have := w1 (by simp [hp]) (by simp [hp])
      constructor <;> simp_all
    · exact ⟨w1, w2, w3⟩
  | authProgress => exact ⟨w1, w2, w3⟩
  | authOk =>
    simp only [step]
    split
    · rename_i hp
      have := w1 (by simp [hp]) (by simp [hp])
      refine ⟨by simp_all [issueCall], ?_, by simp [issueCall]⟩
      intro _
      refine ⟨?_, by simp [issueCall]⟩
      exact pendOk_issueCall false .hello _ ⟨by simp, by simp⟩
    · exact ⟨w1, w2, w3⟩
  | authFailed =>
    simp only [step]
    split
    · rename_i hp
      have hb : s.busName = false := by
        cases hbn : s.busName with
        | false => rfl
        | true => have := hi.bus.mp hbn; simp_all
      have := w1 (by simp [hp]) (by simp [hp])
      rw [connectionLost_early s hb]
      constructor <;> (split <;> simp_all [fire])
    · exact ⟨w1, w2, w3⟩
  | helloReply named =>
    simp only [step, repaired_helloNeedsName, if_true]
    split
    · rename_i hp
      split
      · rename_i c hc
        have he := w1 (by simp [hp]) (by simp [hp])
        obtain ⟨hpo, hdc⟩ := w2 hp
        have htm := hi.quiet (by simp [hp, Phase.concluded])
        cases named
        · -- no bus name: the attempt failed, nothing else changes
          constructor <;> simp_all [fire]
        · refine ⟨by simp [fire], by simp [fire], ?_⟩
          intro _
          refine ⟨⟨?_, ?_⟩, ?_, ?_, ?_, ?_, ?_, ?_, ?_, ?_, ?_⟩
          · exact hpo.1.sublist ((removeCall_sublist c.serial s.pending).map _)
          · intro d hd; exact hpo.2 d ((removeCall_sublist c.serial s.pending).subset hd)
          all_goals simp_all [fire]
      · exact ⟨w1, w2, w3⟩
    · exact ⟨w1, w2, w3⟩
  | helloError =>
    simp only [step]
    split
    · rename_i hp
      split
      · have he := w1 (by simp [hp]) (by simp [hp])
        constructor <;> simp_all [fire]
      · exact ⟨w1, w2, w3⟩
    · exact ⟨w1, w2, w3⟩
  | close =>
    simp only [step]
    split
    · cases hbn : s.busName with
      | false =>
        have hnr : ¬ (s.phase = .ready ∨ s.phase = .lost) := fun hh => by
          have := hi.bus.mpr hh; simp_all
        have he := w1 (fun h => hnr (Or.inl h)) (fun h => hnr (Or.inr h))
        rw [connectionLost_early s hbn]
        constructor <;> (split <;> simp_all [fire])
      | true =>
        rw [connectionLost_ready_eq s hbn]
        have hl := (lost3_basic s).1
        constructor <;> simp [hl]
    · exact ⟨w1, w2, w3⟩
  | reply serial ok =>
    simp only [step]
    split
    · rename_i hp
      split
      · exact ⟨w1, w2, w3⟩
      · rename_i c hc
        have hr := readyOk_completeCall c ok _ (readyOk_takeCall c s (w3 hp) (findCall_some hc).1)
        constructor <;> simp_all
    · exact ⟨w1, w2, w3⟩
  | expire serial =>
    simp only [step]
    split
    · rename_i hen
      have hc : s.phase.concluded = true := by
        cases hcc : s.phase.concluded with
        | true => rfl
        | false => simp [hi.quiet hcc] at hen
      have hns : s.phase ≠ .helloSent := fun e => by simp [e, Phase.concluded] at hc
      split
      · rename_i hnone
        refine ⟨by simpa [St.emit] using w1, by simp_all [St.emit], ?_⟩
        intro hp
        have hp' : s.phase = .ready := by simpa [St.emit] using hp
        exfalso
        obtain ⟨c, hc1, hc2, _⟩ := (w3 hp').timersOk serial (by simpa using hen)
        exact findCall_none hnone c hc1 hc2
      · refine ⟨by simpa using w1, by simp_all, ?_⟩
        intro hp
        have hp' : s.phase = .ready := by simpa using hp
        exact readyOk_log _ _ (readyOk_removeCall serial s (w3 hp'))
    · exact ⟨w1, w2, w3⟩
  | call timed r =>
    simp only [step]
    split
    · rename_i hp
      have := readyOk_issueCall timed (.user r) s (w3 hp)
      constructor <;> simp_all [issueCall]
    · exact ⟨w1, w2, w3⟩
  | notify r =>
    simp only [step]
    split
    · rename_i hp
      obtain ⟨h1, h2, h3, h4, h5, h6, h7, h8, h9, h10⟩ := w3 hp
      refine ⟨by simp [hp], by simp [hp], fun _ => ⟨h1, h2, ?_, ?_, h5, h6, h7, ?_, h9, h10⟩⟩
      · simp only [List.map_append, List.map_cons, List.map_nil]
        exact nodup_append_fresh h3 (fun x hx => by
          obtain ⟨c, hc, rfl⟩ := List.mem_map.mp hx
          exact h4 c hc)
      · intro c hc
        simp only [List.mem_append, List.mem_singleton] at hc
        rcases hc with hc | rfl
        · exact Nat.lt_succ_of_lt (h4 c hc)
        · exact Nat.lt_succ_self _
      · intro p hp' c hc; exact Nat.lt_succ_of_lt (h8 p hp' c hc)
    · exact ⟨w1, w2, w3⟩
  | cancelNotify c =>
    simp only [step]
    split
    · rename_i hp
      obtain ⟨h1, h2, h3, h4, h5, h6, h7, h8, h9, h10⟩ := w3 hp
      refine ⟨by simp [hp], by simp [hp], fun _ => ⟨h1, h2, ?_, ?_, h5, h6, h7, h8, h9, h10⟩⟩
      · exact h3.sublist ((removeCb_sublist c s.dcCallbacks).map _)
      · intro d hd; exact h4 d ((removeCb_sublist c s.dcCallbacks).subset hd)
    · exact ⟨w1, w2, w3⟩
  | proxyExplicit key =>
    simp only [step]
    split
    · rename_i hp
      have := readyOk_makeProxy key true s (w3 hp)
      constructor <;> simp_all [makeProxy, makeProxyCbs]
    · exact ⟨w1, w2, w3⟩
  | proxyIntrospect key =>
    simp only [step]
    split
    · rename_i hp
      have := readyOk_issueCall false (.introspect key) s (w3 hp)
      constructor <;> simp_all [issueCall]
    · exact ⟨w1, w2, w3⟩
  | proxyNotify p r =>
    simp only [step]
    split
    · rename_i hp
      split
      · split
        · have := readyOk_modifyCbs p (fun l => l ++ [⟨s.nextCb, r⟩]) s (s.nextCb + 1) (w3 hp) (Nat.le_succ _)
            (fun l hnd hlt => ⟨by
              simp only [List.map_append, List.map_cons, List.map_nil]
              exact nodup_append_fresh hnd (fun x hx => by
                obtain ⟨c, hc, rfl⟩ := List.mem_map.mp hx
                exact hlt c hc), by
              intro c hc
              simp only [List.mem_append, List.mem_singleton] at hc
              rcases hc with hc | rfl
              · exact Nat.lt_succ_of_lt (hlt c hc)
              · exact Nat.lt_succ_self _⟩)
          exact ⟨by simp [hp], by simp [hp], fun _ => this⟩
        · exact ⟨w1, w2, w3⟩
      · exact ⟨w1, w2, w3⟩
    · exact ⟨w1, w2, w3⟩
  | proxyCancelNotify p c =>
    simp only [step]
    split
    · rename_i hp
      have := readyOk_modifyCbs p (fun l => removeCb c l) s s.nextCb (w3 hp) (Nat.le_refl _)
        (fun l hnd hlt => ⟨hnd.sublist ((removeCb_sublist c l).map _),
          fun d hd => hlt d ((removeCb_sublist c l).subset hd)⟩)
      exact ⟨by simp [hp], by simp [hp], fun _ => this⟩
    · exact ⟨w1, w2, w3⟩
  | dropProxy p =>
    simp only [step]
    split
    · rename_i hp
      obtain ⟨h1, h2, h3, h4, h5, h6, h7, h8, h9, h10⟩ := w3 hp
      refine ⟨by simp [hp], by simp [hp], fun _ => ⟨h1, h2, h3, h4, ?_, ?_, ?_, ?_, ?_, ?_⟩⟩
      · have := modifyProxy_ids p (fun q => { q with alive := false }) (fun _ => rfl) s.proxies
        simp only []; rw [this]; exact h5
      · intro q hq
        rcases mem_modifyProxy hq with hq | ⟨q0, hq0, _, rfl⟩
        · exact h6 q hq
        · exact h6 q0 hq0
      · intro q hq
        rcases mem_modifyProxy hq with hq | ⟨q0, hq0, _, rfl⟩
        · exact h7 q hq
        · exact h7 q0 hq0
      · intro q hq c hc
        rcases mem_modifyProxy hq with hq | ⟨q0, hq0, _, rfl⟩
        · exact h8 q hq c hc
        · exact h8 q0 hq0 c hc
      · intro e he; exact h9 e (List.mem_filter.mp he).1
      · simp only []
        rw [dropProxy_alive_ids p s.proxies h5, ← h10, List.filter_map]
        rfl
    · exact ⟨w1, w2, w3⟩
  | cancelCall serial =>
    simp only [step]
    split
    · rename_i hp
      split
      · split
        · exact ⟨w1, w2, w3⟩
        · exact ⟨by simp [hp], by simp [hp], fun _ => readyOk_markCancelled serial _ s (w3 hp)⟩
      · exact ⟨w1, w2, w3⟩
    · exact ⟨w1, w2, w3⟩

theorem reachable_inv (eps : List Endpoint) (h : List Ev) :
    Inv1 (run .repaired (connect eps) h) ∧ WF (run .repaired (connect eps) h) := by
  suffices ∀ (h : List Ev) (s : St), Inv1 s → WF s → Inv1 (run .repaired s h) ∧ WF (run .repaired s h) from
    this h _ (inv1_connect eps) (wf_connect eps)
  intro h
  induction h with
  | nil => intro s hi hw; exact ⟨hi, hw⟩
  | cons e t ih => intro s hi hw; exact ih _ (inv1_step s e hi) (wf_step s e hi hw)

end Txdbus.Client.Lifecycle
