/-
C08 - refinement: the firings of a call's Deferred in the code model are exactly what the
specification (`Spec.firstCompletion`) prescribes, over every operation sequence.
-/
import TxdbusModel.Proofs.Client.CallsStep

namespace Txdbus.Calls

open Txdbus.Calls.Spec
open Txdbus.Gen

variable {V R : Type}

/-! ### `firingsOf` -/

theorem firingsOf_append (k : Nat) (a b : List (Nat × Firing V R)) :
    firingsOf k (a ++ b) = firingsOf k a ++ firingsOf k b := by
  simp [firingsOf]

theorem firingsOf_eq_nil {k : Nat} {l : List (Nat × Firing V R)} (h : ∀ x ∈ l, x.1 ≠ k) :
    firingsOf k l = [] := by
  simp only [firingsOf, List.map_eq_nil_iff, List.filter_eq_nil_iff]
  intro x hx
  simpa using h x hx

theorem firingsOf_single_self (k : Nat) (f : Firing V R) : firingsOf k [(k, f)] = [f] := by
  simp [firingsOf]

theorem firingsOf_single_ne {k d : Nat} (f : Firing V R) (h : d ≠ k) : firingsOf k [(d, f)] = [] := by
  simp [firingsOf, h]

/-- The errbacks of `connectionLost`: the Deferred of a table entry is fired exactly once. -/
theorem firingsOf_map_entry (f : Firing V R) {k σ : Nat} {tm : Option Nat} :
    ∀ (l : List (Nat × Pending)), l.Nodup →
      (∀ e ∈ l, ∀ e' ∈ l, e.2.did = e'.2.did → e = e') → (σ, (⟨k, tm⟩ : Pending)) ∈ l →
      firingsOf k (l.map (fun e => (e.2.did, f))) = [f]
  | [], _, _, h => by simp at h
  | e :: rest, hnd, hinj, hmem => by
    have hnd' := List.nodup_cons.mp hnd
    rw [List.map_cons, ← List.singleton_append, firingsOf_append]
    by_cases hk : e.2.did = k
    · have he : e = (σ, ⟨k, tm⟩) := hinj e List.mem_cons_self _ hmem (by simpa using hk)
      have hrest : ∀ x ∈ rest.map (fun e => (e.2.did, f)), x.1 ≠ k := by
        intro x hx
        obtain ⟨e', he', hx⟩ := List.mem_map.mp hx
        subst hx
        intro hd
        have := hinj e' (List.mem_cons_of_mem _ he') e List.mem_cons_self (by simpa [hk] using hd)
        rw [this] at he'
        exact hnd'.1 he'
      rw [firingsOf_eq_nil hrest, hk, firingsOf_single_self]
      rfl
    · have hin : (σ, (⟨k, tm⟩ : Pending)) ∈ rest := by
        rcases List.mem_cons.mp hmem with h | h
        · rw [← h] at hk; exact absurd rfl hk
        · exact h
      rw [firingsOf_single_ne f hk, List.nil_append]
      exact firingsOf_map_entry f rest hnd'.2
        (fun a ha b hb => hinj a (List.mem_cons_of_mem _ ha) b (List.mem_cons_of_mem _ hb)) hin

/-! ### Normal form of `callOp` for a fresh serial -/

theorem callOp_true_eq {s : St V R} {σ : Nat} (hfresh : ∀ e ∈ s.pending, e.1 ≠ σ) (tmo : Option Nat)
    (rs : RetSig) :
    callOp s σ true tmo rs =
      { s with nextId := s.nextId + 1, issued := s.issued ++ [(s.nextId, rs)],
               timers := if truthyTimeout tmo then s.timers ++ [(s.nextId, σ)] else s.timers,
               pending := s.pending ++ [(σ, ⟨s.nextId, if truthyTimeout tmo then some s.nextId else none⟩)] } := by
  unfold callOp
  cases truthyTimeout tmo <;> simp [dSet_fresh hfresh]

/-! ### Closed calls stay closed -/

/-- Deferred `k` has been handed out and no table entry refers to it. -/
def Closed (k : Nat) (s : St V R) : Prop := k < s.nextId ∧ ∀ e ∈ s.pending, e.2.did ≠ k

theorem closed_complete {s : St V R} {k σ : Nat} {p : Pending} (hc : Closed k s) (hp : (σ, p) ∈ s.pending)
    (f : Firing V R) :
    Closed k (complete s σ p.did f) ∧ firingsOf k (complete s σ p.did f).log = firingsOf k s.log := by
  refine ⟨⟨hc.1, fun e he => hc.2 e (mem_dDel.mp he).1⟩, ?_⟩
  simp only [complete, firingsOf_append, firingsOf_single_ne f (hc.2 _ hp), List.append_nil]

theorem closed_step {s : St V R} (hI : Inv s) (asStr : V → Option (List Char)) (op : Op V R)
    (hf : FreshOp s op) {k : Nat} (hc : Closed k s) :
    Closed k (step asStr s op) ∧ firingsOf k (step asStr s op).log = firingsOf k s.log := by
  have hne : s.nextId ≠ k := by have := hc.1; omega
  cases op with
  | call σ er tmo rs =>
    cases er with
    | true =>
      simp only [Txdbus.Calls.step, callOp_true_eq (hf σ rfl)]
      refine ⟨⟨by have := hc.1; simp only; omega, ?_⟩, by first | rfl | trivial⟩
      intro e he
      simp only [List.mem_append, List.mem_singleton] at he
      rcases he with he | he
      · exact hc.2 e he
      · subst he; exact hne
    | false =>
      simp only [Txdbus.Calls.step, callOp, fire, firingsOf_append, firingsOf_single_ne _ hne,
        List.append_nil, Bool.false_eq_true, if_false]
      exact ⟨⟨by have := hc.1; simp only; omega, hc.2⟩, by first | rfl | trivial⟩
  | callBad rs =>
    simp only [Txdbus.Calls.step, callBadOp, fire, firingsOf_append, firingsOf_single_ne _ hne,
      List.append_nil]
    exact ⟨⟨by have := hc.1; simp only; omega, hc.2⟩, by first | rfl | trivial⟩
  | ret rsn msg =>
    rcases retOp_char hI rsn msg with ⟨_, h⟩ | ⟨p, hp, h⟩
    · simp only [Txdbus.Calls.step, h]; exact ⟨hc, by first | rfl | trivial⟩
    · simp only [Txdbus.Calls.step, h]; exact closed_complete hc hp _
  | err rsn name body =>
    rcases errOp_char hI asStr rsn name body with ⟨_, h⟩ | ⟨p, hp, h⟩
    · simp only [Txdbus.Calls.step, h]; exact ⟨hc, by first | rfl | trivial⟩
    · simp only [Txdbus.Calls.step, h]; exact closed_complete hc hp _
  | expire tid =>
    rcases expireOp_char hI tid with ⟨_, h⟩ | ⟨σ, _, hp, h⟩
    · simp only [Txdbus.Calls.step, h]; exact ⟨hc, by first | rfl | trivial⟩
    · simp only [Txdbus.Calls.step, h]; exact closed_complete (p := ⟨tid, some tid⟩) hc hp _
  | lost r =>
    cases hr : s.ready with
    | false => simp only [Txdbus.Calls.step, lostOp, hr]; exact ⟨hc, by first | rfl | trivial⟩
    | true =>
      simp only [Txdbus.Calls.step, lostOp_char hI hr, firingsOf_append]
      refine ⟨⟨hc.1, by simp⟩, ?_⟩
      rw [firingsOf_eq_nil (l := s.pending.map _), List.append_nil]
      intro x hx
      obtain ⟨e, he, hx⟩ := List.mem_map.mp hx
      subst hx
      exact hc.2 e he

/-! ### Runs -/

/-- The calls awaiting a reply in `ops` carry pairwise distinct serials, none of them in the table. -/
def FreshRun (s : St V R) (ops : List (Op V R)) : Prop :=
  (ops.filterMap regSerial).Nodup ∧ ∀ σ ∈ ops.filterMap regSerial, ∀ e ∈ s.pending, e.1 ≠ σ

theorem FreshRun.head {s : St V R} {op : Op V R} {rest : List (Op V R)} (h : FreshRun s (op :: rest)) :
    FreshOp s op := by
  intro σ hσ
  apply h.2 σ
  simp [hσ]

theorem step_pending_keys {s : St V R} (hI : Inv s) (asStr : V → Option (List Char)) (op : Op V R)
    (hf : FreshOp s op) :
    ∀ e ∈ (step asStr s op).pending, e ∈ s.pending ∨ regSerial op = some e.1 := by
  intro e he
  cases op with
  | call σ er tmo rs =>
    cases er with
    | true =>
      simp only [Txdbus.Calls.step, callOp_true_eq (hf σ rfl), List.mem_append, List.mem_singleton] at he
      rcases he with he | he
      · exact Or.inl he
      · subst he; exact Or.inr rfl
    | false => exact Or.inl (by simpa [Txdbus.Calls.step, callOp, fire] using he)
  | callBad rs => exact Or.inl (by simpa [Txdbus.Calls.step, callBadOp, fire] using he)
  | ret rsn msg =>
    rcases retOp_char hI rsn msg with ⟨_, h⟩ | ⟨p, hp, h⟩
    · simp only [Txdbus.Calls.step, h] at he; exact Or.inl he
    · simp only [Txdbus.Calls.step, h] at he; exact Or.inl (mem_dDel.mp he).1
  | err rsn name body =>
    rcases errOp_char hI asStr rsn name body with ⟨_, h⟩ | ⟨p, hp, h⟩
    · simp only [Txdbus.Calls.step, h] at he; exact Or.inl he
    · simp only [Txdbus.Calls.step, h] at he; exact Or.inl (mem_dDel.mp he).1
  | expire tid =>
    rcases expireOp_char hI tid with ⟨_, h⟩ | ⟨σ, _, hp, h⟩
    · simp only [Txdbus.Calls.step, h] at he; exact Or.inl he
    · simp only [Txdbus.Calls.step, h] at he; exact Or.inl (mem_dDel.mp he).1
  | lost r =>
    cases hr : s.ready with
    | false => simp only [Txdbus.Calls.step, lostOp, hr] at he; exact Or.inl he
    | true => simp [Txdbus.Calls.step, lostOp_char hI hr] at he

theorem FreshRun.tail {s : St V R} (hI : Inv s) (asStr : V → Option (List Char)) {op : Op V R}
    {rest : List (Op V R)} (h : FreshRun s (op :: rest)) : FreshRun (step asStr s op) rest := by
  have hhead := h.head
  obtain ⟨hnd, hfr⟩ := h
  cases hreg : regSerial op with
  | none =>
    simp only [List.filterMap_cons, hreg] at hnd hfr
    refine ⟨hnd, ?_⟩
    intro σ hσ e he
    rcases step_pending_keys hI asStr op hhead e he with h | h
    · exact hfr σ hσ e h
    · rw [hreg] at h; cases h
  | some σ0 =>
    simp only [List.filterMap_cons, hreg] at hnd hfr
    have hnd' := List.nodup_cons.mp hnd
    refine ⟨hnd'.2, ?_⟩
    intro σ hσ e he
    rcases step_pending_keys hI asStr op hhead e he with h | h
    · exact hfr σ (List.mem_cons_of_mem _ hσ) e h
    · rw [hreg] at h
      cases h
      intro heq
      rw [heq] at hnd'
      exact hnd'.1 hσ

theorem run_cons (asStr : V → Option (List Char)) (s : St V R) (op : Op V R) (rest : List (Op V R)) :
    run asStr s (op :: rest) = run asStr (step asStr s op) rest := rfl

theorem run_append (asStr : V → Option (List Char)) (s : St V R) (a b : List (Op V R)) :
    run asStr s (a ++ b) = run asStr (run asStr s a) b := by
  simp [run, List.foldl_append]

theorem Inv.run (asStr : V → Option (List Char)) : ∀ (ops : List (Op V R)) {s : St V R}, Inv s →
    FreshRun s ops → Inv (run asStr s ops)
  | [], _, hI, _ => hI
  | op :: rest, _, hI, hf => Inv.run asStr rest (hI.step asStr op hf.head) (hf.tail hI asStr)

theorem closed_run (asStr : V → Option (List Char)) {k : Nat} : ∀ (ops : List (Op V R)) {s : St V R},
    Inv s → FreshRun s ops → Closed k s →
    Closed k (run asStr s ops) ∧ firingsOf k (run asStr s ops).log = firingsOf k s.log
  | [], _, _, _, hc => ⟨hc, rfl⟩
  | op :: rest, s, hI, hf, hc => by
    obtain ⟨hc', hl'⟩ := closed_step hI asStr op hf.head hc
    obtain ⟨hc'', hl''⟩ := closed_run asStr rest (hI.step asStr op hf.head) (hf.tail hI asStr) hc'
    exact ⟨hc'', by rw [run_cons, hl'', hl']⟩

/-! ### An open call is completed by the first event that concerns it -/

theorem remoteErrorFields_eq_spec (asStr : V → Option (List Char)) (body : Option (List V)) :
    remoteErrorFields asStr body = Spec.errorFields asStr body := by
  cases body with
  | none => rfl
  | some vs =>
    cases vs with
    | nil => rfl
    | cons v vs =>
      simp only [remoteErrorFields, Spec.errorFields, Option.getD_some, List.head?_cons, Option.bind_some]
      cases asStr v <;> rfl

theorem step_ready (asStr : V → Option (List Char)) (s : St V R) (op : Op V R) :
    (step asStr s op).ready = s.ready := by
  cases op <;> simp only [Txdbus.Calls.step, callOp, callBadOp, retOp, errOp, expireOp, lostOp, fire] <;>
    repeat' (first | rfl | split)

theorem open_complete_same {s : St V R} (hI : Inv s) {σ k : Nat} {tm : Option Nat}
    (hp : (σ, (⟨k, tm⟩ : Pending)) ∈ s.pending) (f : Firing V R) :
    (Closed k (complete s σ k f) ∧ ∀ e ∈ (complete s σ k f).pending, e.1 ≠ σ) ∧
      firingsOf k (complete s σ k f).log = [f] := by
  refine ⟨⟨⟨hI.did_lt _ hp, ?_⟩, fun e he => (mem_dDel.mp he).2⟩, ?_⟩
  · intro e he hd
    have he' := mem_dDel.mp he
    have := hI.did_inj e he'.1 _ hp hd
    exact he'.2 (by rw [this])
  · simp only [complete, firingsOf_append, firingsOf_single_self]
    rw [firingsOf_eq_nil (fun x hx => hI.unfired _ hp x hx)]
    rfl

theorem open_step {s : St V R} (hI : Inv s) (hr : s.ready = true) (asStr : V → Option (List Char))
    (op : Op V R) (hf : FreshOp s op) {σ k : Nat} {tm : Option Nat}
    (hp : (σ, (⟨k, tm⟩ : Pending)) ∈ s.pending) :
    match completes asStr σ k tm.isSome op with
    | some f => (Closed k (step asStr s op) ∧ ∀ e ∈ (step asStr s op).pending, e.1 ≠ σ) ∧
        firingsOf k (step asStr s op).log = [f]
    | none => (σ, (⟨k, tm⟩ : Pending)) ∈ (step asStr s op).pending := by
  cases op with
  | call σ' er tmo rs =>
    simp only [completes]
    cases er with
    | true =>
      simp only [Txdbus.Calls.step, callOp_true_eq (hf σ' rfl)]
      exact List.mem_append_left _ hp
    | false => simpa [Txdbus.Calls.step, callOp, fire] using hp
  | callBad rs =>
    simp only [completes]
    simpa [Txdbus.Calls.step, callBadOp, fire] using hp
  | ret rsn msg =>
    simp only [completes]
    rcases retOp_char hI rsn msg with ⟨hno, h⟩ | ⟨p, hp', h⟩
    · have hne : rsn ≠ σ := fun heq => hno _ hp heq.symm
      simp only [hne, if_false, Txdbus.Calls.step, h]
      exact hp
    · by_cases heq : rsn = σ
      · subst heq
        have hpe := hI.key_inj _ hp' _ hp rfl
        cases hpe
        simp only [if_true, Txdbus.Calls.step, h]
        exact open_complete_same hI hp _
      · simp only [heq, if_false, Txdbus.Calls.step, h]
        exact mem_dDel.mpr ⟨hp, fun h' => heq h'.symm⟩
  | err rsn name body =>
    simp only [completes]
    rcases errOp_char hI asStr rsn name body with ⟨hno, h⟩ | ⟨p, hp', h⟩
    · have hne : rsn ≠ σ := fun heq => hno _ hp heq.symm
      simp only [hne, if_false, Txdbus.Calls.step, h]
      exact hp
    · by_cases heq : rsn = σ
      · subst heq
        have hpe := hI.key_inj _ hp' _ hp rfl
        cases hpe
        simp only [if_true, Txdbus.Calls.step, h, remoteErrorFields_eq_spec]
        exact open_complete_same hI hp _
      · simp only [heq, if_false, Txdbus.Calls.step, h]
        exact mem_dDel.mpr ⟨hp, fun h' => heq h'.symm⟩
  | expire tid =>
    simp only [completes]
    rcases expireOp_char hI tid with ⟨hno, h⟩ | ⟨σ', hm, hp', h⟩
    · have hne : ¬ (tm.isSome = true ∧ tid = k) := by
        rintro ⟨h1, h2⟩
        obtain ⟨t, ht⟩ := Option.isSome_iff_exists.mp h1
        obtain ⟨h3, h4⟩ := hI.timer_did _ hp t ht
        simp only at h3 h4
        subst h3
        exact hno _ h4 h2.symm
      simp only [hne, if_false, Txdbus.Calls.step, h]
      exact hp
    · by_cases heq : tid = k
      · subst heq
        have hpe := hI.did_inj _ hp' _ hp rfl
        cases hpe
        simp only [Option.isSome_some, and_self, if_true, Txdbus.Calls.step, h]
        exact open_complete_same hI hp _
      · have hne : ¬ (tm.isSome = true ∧ tid = k) := fun h' => heq h'.2
        simp only [hne, if_false, Txdbus.Calls.step, h]
        refine mem_dDel.mpr ⟨hp, ?_⟩
        intro hσ
        have := hI.key_inj _ hp _ hp' hσ
        cases this
        exact heq rfl
  | lost r =>
    simp only [completes, Txdbus.Calls.step, lostOp_char hI hr, firingsOf_append]
    refine ⟨⟨⟨hI.did_lt _ hp, by simp⟩, by simp⟩, ?_⟩
    rw [firingsOf_eq_nil (fun x hx => hI.unfired _ hp x hx),
      firingsOf_map_entry _ s.pending hI.nodup hI.did_inj hp]
    rfl

/-- A serial that is neither in the table nor registered later never enters the table. -/
theorem keyfree_run (asStr : V → Option (List Char)) {σ : Nat} : ∀ (ops : List (Op V R)) {s : St V R},
    Inv s → FreshRun s ops → (∀ e ∈ s.pending, e.1 ≠ σ) → σ ∉ ops.filterMap regSerial →
    ∀ e ∈ (run asStr s ops).pending, e.1 ≠ σ
  | [], _, _, _, h, _ => h
  | op :: rest, s, hI, hf, h, hn => by
    rw [run_cons]
    refine keyfree_run asStr rest (hI.step asStr op hf.head) (hf.tail hI asStr) ?_ ?_
    · intro e he
      rcases step_pending_keys hI asStr op hf.head e he with h' | h'
      · exact h e h'
      · intro heq
        apply hn
        rw [List.filterMap_cons, h']
        simp [heq]
    · intro hm
      apply hn
      rw [List.filterMap_cons]
      cases regSerial op <;> simp [hm]

/-- What became of a call that was in the table, after any further operations. -/
theorem open_run (asStr : V → Option (List Char)) {σ k : Nat} {tm : Option Nat} :
    ∀ (ops : List (Op V R)) {s : St V R}, Inv s → s.ready = true → FreshRun s ops →
      (σ, (⟨k, tm⟩ : Pending)) ∈ s.pending →
      firingsOf k (run asStr s ops).log = (firstCompletion asStr σ k tm.isSome ops).toList ∧
      (firstCompletion asStr σ k tm.isSome ops = none → (σ, (⟨k, tm⟩ : Pending)) ∈ (run asStr s ops).pending) ∧
      (firstCompletion asStr σ k tm.isSome ops ≠ none →
        Closed k (run asStr s ops) ∧ ∀ e ∈ (run asStr s ops).pending, e.1 ≠ σ)
  | [], s, hI, _, _, hp => by
    simp only [run, List.foldl_nil, firstCompletion, Option.toList_none]
    exact ⟨firingsOf_eq_nil (fun x hx => hI.unfired _ hp x hx), fun _ => hp, fun h => absurd rfl h⟩
  | op :: rest, s, hI, hr, hf, hp => by
    have hstep := open_step hI hr asStr op hf.head hp
    have hI' := hI.step asStr op hf.head
    have hf' := hf.tail hI asStr
    have hσ : σ ∉ (op :: rest).filterMap regSerial := fun hm => hf.2 σ hm _ hp rfl
    have hσ' : σ ∉ rest.filterMap regSerial := by
      intro hm
      apply hσ
      rw [List.filterMap_cons]
      cases regSerial op <;> simp [hm]
    rw [run_cons]
    simp only [firstCompletion]
    cases hc : completes asStr σ k tm.isSome op with
    | some f =>
      rw [hc] at hstep
      simp only at hstep ⊢
      have hcl := closed_run asStr rest hI' hf' hstep.1.1
      refine ⟨?_, ?_, ?_⟩
      · rw [hcl.2, hstep.2]; rfl
      · intro h; cases h
      · intro _
        exact ⟨hcl.1, keyfree_run asStr rest hI' hf' hstep.1.2 hσ'⟩
    | none =>
      rw [hc] at hstep
      simp only at hstep ⊢
      exact open_run asStr rest hI' (by rw [step_ready, hr]) hf' hstep

end Txdbus.Calls
