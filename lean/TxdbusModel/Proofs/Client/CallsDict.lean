/-
C08 - lemmas about the association-list dict (`dGet`, `dSet`, `dDel`) and about `firingsOf`.
-/
import TxdbusModel.Client.Calls

namespace Txdbus.Calls

variable {α : Type}

/-- Keys determine entries (what a Python dict guarantees). -/
def KeyInj (l : List (Nat × α)) : Prop := ∀ e ∈ l, ∀ e' ∈ l, e.1 = e'.1 → e = e'

theorem dGet_some_mem {k : Nat} {v : α} : ∀ {l : List (Nat × α)}, dGet k l = some v → (k, v) ∈ l
  | [], h => by simp [dGet] at h
  | (k', v') :: t, h => by
    unfold dGet at h
    split at h
    · next hk => cases h; subst hk; exact List.mem_cons_self
    · exact List.mem_cons_of_mem _ (dGet_some_mem h)

theorem dGet_none_iff {k : Nat} : ∀ {l : List (Nat × α)}, dGet k l = none ↔ ∀ e ∈ l, e.1 ≠ k
  | [] => by simp [dGet]
  | (k', v') :: t => by
    unfold dGet
    split
    · next hk => subst hk; simp
    · next hk =>
      rw [dGet_none_iff (l := t)]
      simp [hk]

theorem dGet_of_mem {k : Nat} {v : α} {l : List (Nat × α)} (hinj : KeyInj l) (h : (k, v) ∈ l) :
    dGet k l = some v := by
  cases hg : dGet k l with
  | none =>
    have := (dGet_none_iff.mp hg) (k, v) h
    exact absurd rfl this
  | some v' =>
    have hm := dGet_some_mem hg
    have := hinj _ hm _ h rfl
    cases this
    rfl

theorem dSet_fresh {k : Nat} {v : α} : ∀ {l : List (Nat × α)}, (∀ e ∈ l, e.1 ≠ k) → dSet k v l = l ++ [(k, v)]
  | [], _ => rfl
  | (k', v') :: t, h => by
    have hk : k' ≠ k := h (k', v') List.mem_cons_self
    have ht : ∀ e ∈ t, e.1 ≠ k := fun e he => h e (List.mem_cons_of_mem _ he)
    simp [dSet, hk, dSet_fresh ht]

theorem mem_dDel {k : Nat} {l : List (Nat × α)} {e : Nat × α} : e ∈ dDel k l ↔ e ∈ l ∧ e.1 ≠ k := by
  simp [dDel]

/-! Membership in `dSet`, whatever the key. -/
theorem mem_dSet_self {k : Nat} {v : α} : ∀ {l : List (Nat × α)}, (k, v) ∈ dSet k v l
  | [] => by simp [dSet]
  | (k', v') :: t => by
    unfold dSet
    split
    · exact List.mem_cons_self
    · exact List.mem_cons_of_mem _ mem_dSet_self

theorem mem_dSet {k : Nat} {v : α} : ∀ {l : List (Nat × α)} {e : Nat × α},
    e ∈ dSet k v l → e = (k, v) ∨ e ∈ l
  | [], e, h => by simp [dSet] at h; exact Or.inl h
  | (k', v') :: t, e, h => by
    unfold dSet at h
    split at h
    · rcases List.mem_cons.mp h with h | h
      · exact Or.inl h
      · exact Or.inr (List.mem_cons_of_mem _ h)
    · rcases List.mem_cons.mp h with h | h
      · subst h; exact Or.inr List.mem_cons_self
      · rcases mem_dSet h with h | h
        · exact Or.inl h
        · exact Or.inr (List.mem_cons_of_mem _ h)

theorem mem_dSet_of_ne {k : Nat} {v : α} : ∀ {l : List (Nat × α)} {e : Nat × α}, e ∈ l → e.1 ≠ k →
    e ∈ dSet k v l
  | [], _, h, _ => by simp at h
  | (k', v') :: t, e, h, hne => by
    unfold dSet
    rcases List.mem_cons.mp h with h | h
    · subst h
      have : k' ≠ k := hne
      simp [this]
    · split
      · exact List.mem_cons_of_mem _ h
      · exact List.mem_cons_of_mem _ (mem_dSet_of_ne h hne)

theorem dGet_append_of_not_mem {k : Nat} : ∀ {a b : List (Nat × α)}, (∀ e ∈ a, e.1 ≠ k) →
    dGet k (a ++ b) = dGet k b
  | [], _, _ => rfl
  | (k', v') :: t, b, h => by
    have hk : k' ≠ k := h (k', v') List.mem_cons_self
    simp only [List.cons_append, dGet, hk, if_false]
    exact dGet_append_of_not_mem (fun e he => h e (List.mem_cons_of_mem _ he))

end Txdbus.Calls
