/-
C08 - re-entrant errbacks (a retry issued from inside the connection's own functions) reduce to
the sequential model: the state reached is the one reached by the operation followed by the
errback's calls as ordinary operations.  For `connectionLost` - where the errbacks run INSIDE the
loop - this needs the invariant (the timers the loop still has to cancel are not the new ones).
-/
import TxdbusModel.Proofs.Client.CallsTrace

namespace Txdbus.Calls

open Txdbus.Calls.Spec
open Txdbus.Gen

variable {V R : Type}

/-- A call issued by an errback, as an ordinary operation. -/
def NewCall.toOp (c : NewCall) : Op V R := .call c.serial true c.timeout c.rs

theorem issue_eq_run (asStr : V → Option (List Char)) : ∀ (cs : List NewCall) (s : St V R),
    issue s cs = run asStr s (cs.map NewCall.toOp)
  | [], _ => rfl
  | c :: cs, s => by
    simp only [issue, List.foldl_cons, List.map_cons, run_cons]
    exact issue_eq_run asStr cs _

theorem issue_append (s : St V R) (a b : List NewCall) : issue s (a ++ b) = issue (issue s a) b := by
  simp [issue, List.foldl_append]

theorem callOp_true_nextId (s : St V R) (σ : Nat) (tmo : Option Nat) (rs : RetSig) :
    (callOp s σ true tmo rs).nextId = s.nextId + 1 := by
  unfold callOp; simp only [if_true]; split <;> rfl

theorem callOp_true_timers_mem (s : St V R) (σ : Nat) (tmo : Option Nat) (rs : RetSig) {x : Nat × Nat}
    (hx : x ∈ s.timers) : x ∈ (callOp s σ true tmo rs).timers := by
  unfold callOp; simp only [if_true]; split
  · exact List.mem_append_left _ hx
  · exact hx

theorem issue_nextId_le : ∀ (cs : List NewCall) (s : St V R), s.nextId ≤ (issue s cs).nextId
  | [], _ => Nat.le_refl _
  | c :: cs, s => by
    simp only [issue, List.foldl_cons]
    have := issue_nextId_le cs (callOp s c.serial true c.timeout c.rs)
    simp only [issue] at this
    rw [callOp_true_nextId] at this
    omega

theorem issue_timers_mem : ∀ (cs : List NewCall) (s : St V R) {x : Nat × Nat}, x ∈ s.timers →
    x ∈ (issue s cs).timers
  | [], _, _, h => h
  | c :: cs, s, _, h => by
    simp only [issue, List.foldl_cons]
    exact issue_timers_mem cs _ (callOp_true_timers_mem s _ _ _ h)

/-! ### The part of a state the rest of the loop still changes: some timers go, firings are logged -/

def afterLoop (t : St V R) (keep : Nat × Nat → Bool) (lg : List (Nat × Firing V R)) : St V R :=
  { t with timers := t.timers.filter keep, log := t.log ++ lg }

theorem callOp_afterLoop (t : St V R) (keep : Nat × Nat → Bool) (lg : List (Nat × Firing V R))
    (σ : Nat) (tmo : Option Nat) (rs : RetSig) (hk : keep (t.nextId, σ) = true) :
    callOp (afterLoop t keep lg) σ true tmo rs = afterLoop (callOp t σ true tmo rs) keep lg := by
  unfold callOp afterLoop
  simp only [if_true]
  split <;> simp [List.filter_append, hk]

theorem issue_afterLoop (keep : Nat × Nat → Bool) (lg : List (Nat × Firing V R)) :
    ∀ (cs : List NewCall) (t : St V R), (∀ n σ, t.nextId ≤ n → keep (n, σ) = true) →
      issue (afterLoop t keep lg) cs = afterLoop (issue t cs) keep lg
  | [], _, _ => rfl
  | c :: cs, t, hk => by
    simp only [issue, List.foldl_cons]
    rw [callOp_afterLoop t keep lg _ _ _ (hk _ _ (Nat.le_refl _))]
    have := issue_afterLoop keep lg cs (callOp t c.serial true c.timeout c.rs)
      (fun n σ hn => hk n σ (by rw [callOp_true_nextId] at hn; omega))
    simpa [issue] using this

theorem afterLoop_afterLoop (t : St V R) (k1 k2 : Nat × Nat → Bool) (l1 l2 : List (Nat × Firing V R)) :
    afterLoop (afterLoop t k1 l1) k2 l2 = afterLoop t (fun x => k1 x && k2 x) (l1 ++ l2) := by
  simp [afterLoop, List.filter_filter, Bool.and_comm]

/-- Timers the loop over `l` leaves alone. -/
def keepOf (l : List (Nat × Pending)) (x : Nat × Nat) : Bool :=
  !(l.any (fun e => e.2.timer == some x.1))

theorem filter_const_true {α : Type} (l : List α) : l.filter (fun _ => true) = l :=
  List.filter_eq_self.mpr (fun _ _ => rfl)

theorem keepOf_nil : keepOf [] = fun _ => true := by
  funext x; simp [keepOf]

theorem react_lost (rx : Reactions) (s : St V R) (did : Nat) (r : R) :
    react rx s did (.lost r) = issue s (reactionOf rx did false) := by
  simp [react, outcome, isFailure]

/-- The loop of `connectionLost` with re-entrant errbacks = the plain loop, then the errbacks' calls. -/
theorem lostLoopR_eq (rx : Reactions) (r : R) : ∀ (l : List (Nat × Pending)) (t : St V R),
    (∀ e ∈ l, ∀ tm, e.2.timer = some tm → tm < t.nextId ∧ ∃ σ, (tm, σ) ∈ t.timers) →
    l.Pairwise (fun a b => ∀ tm, a.2.timer = some tm → b.2.timer ≠ some tm) →
    lostLoopR rx r l t =
      issue (afterLoop t (keepOf l) (l.map (fun e => (e.2.did, Firing.lost r))))
        (l.flatMap (fun e => reactionOf rx e.2.did false))
  | [], t, _, _ => by
    simp [lostLoopR, afterLoop, keepOf_nil, issue, filter_const_true]
  | (σ, p) :: rest, t, hact, hpw => by
    have hpw' := List.pairwise_cons.mp hpw
    -- the state after this entry's timer is cancelled and its Deferred fired
    have key : ∀ (k1 : Nat × Nat → Bool), cancelOpt p.timer t.timers = some (t.timers.filter k1) →
        (∀ n σ', t.nextId ≤ n → k1 (n, σ') = true) →
        (∀ x, (k1 x && keepOf rest x) = keepOf ((σ, p) :: rest) x) →
        (∀ e ∈ rest, ∀ tm, e.2.timer = some tm → ∀ σ', (tm, σ') ∈ t.timers → k1 (tm, σ') = true) →
        lostLoopR rx r ((σ, p) :: rest) t =
          issue (afterLoop t (keepOf ((σ, p) :: rest)) (((σ, p) :: rest).map (fun e => (e.2.did, Firing.lost r))))
            (((σ, p) :: rest).flatMap (fun e => reactionOf rx e.2.did false)) := by
      intro k1 hcancel hk1 hkeep hrestk
      simp only [lostLoopR, hcancel, react_lost]
      have hv : fire { t with timers := t.timers.filter k1 } p.did (Firing.lost r)
          = afterLoop t k1 [(p.did, Firing.lost r)] := rfl
      rw [hv]
      have hrestkeep : ∀ n σ', t.nextId ≤ n → keepOf rest (n, σ') = true := by
        intro n σ' hn
        simp only [keepOf, Bool.not_eq_true', List.any_eq_false, beq_iff_eq]
        intro e he heq
        have := (hact e (List.mem_cons_of_mem _ he) n heq).1
        omega
      rw [lostLoopR_eq rx r rest _ ?_ hpw'.2]
      · rw [← issue_afterLoop (keepOf rest) _ _ (afterLoop t k1 [(p.did, Firing.lost r)])
          (fun n σ' hn => hrestkeep n σ' hn)]
        rw [afterLoop_afterLoop, ← issue_append]
        simp only [List.map_cons, List.flatMap_cons, List.singleton_append]
        congr 2
        funext x
        exact hkeep x
      · intro e he tm htm
        obtain ⟨h1, σ', h2⟩ := hact e (List.mem_cons_of_mem _ he) tm htm
        refine ⟨?_, σ', ?_⟩
        · have := issue_nextId_le (reactionOf rx p.did false) (afterLoop t k1 [(p.did, Firing.lost r)])
          simp only [afterLoop] at this ⊢
          omega
        · apply issue_timers_mem
          simp only [afterLoop, List.mem_filter]
          exact ⟨h2, hrestk e he tm htm σ' h2⟩
    cases ht : p.timer with
    | none =>
      refine key (fun _ => true) ?_ (fun _ _ _ => rfl) ?_ (fun _ _ _ _ _ _ => rfl)
      · rw [ht]; simp [cancelOpt, filter_const_true]
      · intro x
        simp [keepOf, ht]
    | some tm =>
      obtain ⟨hlt, σ', hσ'⟩ := hact (σ, p) List.mem_cons_self tm ht
      have hactive : timerActive tm t.timers = true := by
        simp only [timerActive, List.any_eq_true]
        exact ⟨_, hσ', by simp⟩
      refine key (fun e => decide (e.1 ≠ tm)) ?_ ?_ ?_ ?_
      · simp [ht, cancelOpt, cancel, hactive]
      · intro n σ'' hn
        simp only [ne_eq, decide_eq_true_eq]
        omega
      · intro x
        simp only [keepOf, List.any_cons, ht, ne_eq]
        by_cases hx : x.1 = tm
        · simp [hx]
        · have : ¬ tm = x.1 := fun h => hx h.symm
          simp [hx, this]
      · intro e he tm' htm' σ'' _
        simp only [ne_eq, decide_eq_true_eq]
        intro heq
        subst heq
        exact hpw'.1 e he tm' ht htm'

/-- `connectionLost` with re-entrant errbacks = `connectionLost`, then the calls the errbacks issue, in
the order of the table. -/
theorem lostOpR_eq (asStr : V → Option (List Char)) (rx : Reactions) {s : St V R} (hI : Inv s) (r : R) :
    lostOpR rx s r = run asStr (lostOp s r)
      (if s.ready then (s.pending.flatMap (fun e => reactionOf rx e.2.did false)).map NewCall.toOp else []) := by
  rcases Bool.eq_false_or_eq_true s.ready with hr | hr
  case inr => simp [lostOpR, lostOp, hr, run]
  case inl =>
    rw [if_pos hr]
    have hact : ∀ e ∈ s.pending, ∀ tm, e.2.timer = some tm →
        tm < ({ s with pending := [] } : St V R).nextId ∧ ∃ σ, (tm, σ) ∈ ({ s with pending := [] } : St V R).timers := by
      intro e he tm htm
      obtain ⟨h1, h2⟩ := hI.timer_did e he tm htm
      exact ⟨by rw [h1]; exact hI.did_lt e he, e.1, h2⟩
    have hpw : s.pending.Pairwise (fun a b => ∀ t, a.2.timer = some t → b.2.timer ≠ some t) := by
      refine List.Pairwise.imp_of_mem ?_ hI.nodup
      intro a b ha hb hab t hta htb
      have h1 := (hI.timer_did a ha t hta).1
      have h2 := (hI.timer_did b hb t htb).1
      exact hab (hI.did_inj a ha b hb (by rw [← h1, ← h2]))
    have hloop := lostLoopR_eq rx r s.pending { s with pending := [] } hact hpw
    have hnil : s.timers.filter (keepOf s.pending) = [] := by
      rw [List.filter_eq_nil_iff]
      intro x hx
      have hp := hI.timer_pending x hx
      have hany : s.pending.any (fun e => e.2.timer == some x.1) = true :=
        List.any_eq_true.mpr ⟨_, hp, by simp⟩
      simp [keepOf, hany]
    have hbase : afterLoop ({ s with pending := [] } : St V R) (keepOf s.pending)
        (s.pending.map (fun e => (e.2.did, Firing.lost r))) = lostOp s r := by
      rw [lostOp_char hI hr]
      simp [afterLoop, hnil]
    have hnr : (!s.ready) = false := by simp [hr]
    unfold lostOpR
    simp only [hnr, Bool.false_eq_true, if_false]
    rw [hloop, hbase, issue_eq_run asStr]

/-! ### Every operation of the re-entrant model as a run of the sequential one -/

/-- The calls the callbacks of `did` issue when it is fired with `f`, as ordinary operations. -/
def reactOps (rx : Reactions) (s : St V R) (did : Nat) (f : Firing V R) : List (Op V R) :=
  (reactionOf rx did (!isFailure (outcome (rsOf s did) f))).map NewCall.toOp

theorem react_eq_run (asStr : V → Option (List Char)) (rx : Reactions) (s : St V R) (did : Nat)
    (f : Firing V R) : react rx s did f = run asStr s (reactOps rx s did f) :=
  issue_eq_run asStr _ _

/-- The calls issued by the callbacks of a list of firings, each against the state the previous ones left. -/
def afterOps (asStr : V → Option (List Char)) (rx : Reactions) :
    List (Nat × Firing V R) → St V R → List (Op V R)
  | [], _ => []
  | e :: rest, s => reactOps rx s e.1 e.2 ++ afterOps asStr rx rest (run asStr s (reactOps rx s e.1 e.2))

theorem foldl_react_eq_run (asStr : V → Option (List Char)) (rx : Reactions) :
    ∀ (fs : List (Nat × Firing V R)) (s : St V R),
      fs.foldl (fun s e => react rx s e.1 e.2) s = run asStr s (afterOps asStr rx fs s)
  | [], _ => rfl
  | e :: rest, s => by
    simp only [List.foldl_cons, afterOps, run_append]
    rw [react_eq_run asStr]
    exact foldl_react_eq_run asStr rx rest _

/-! ### Disconnect callbacks -/

/-- The calls the disconnect callbacks issue, in registration order. -/
def dcCalls : List DcAction → List NewCall
  | [] => []
  | .issues cs :: rest => cs ++ dcCalls rest
  | .raises :: rest => dcCalls rest

/-- No disconnect callback lets an exception out of `connectionLost`: each call is guarded in the source,
or none of them raises. -/
def QuietDcs (dcs : List DcAction) : Prop := C08Client.dcGuarded = true ∨ ∀ a ∈ dcs, a ≠ DcAction.raises

theorem runDcs_quiet : ∀ (dcs : List DcAction) (s : St V R), QuietDcs dcs →
    runDcs dcs s = (issue s (dcCalls dcs), false)
  | [], _, _ => rfl
  | .issues cs :: rest, s, hq => by
    have hq' : QuietDcs rest := hq.imp id (fun h a ha => h a (List.mem_cons_of_mem _ ha))
    simp only [runDcs, dcCalls, issue_append]
    exact runDcs_quiet rest _ hq'
  | .raises :: rest, s, hq => by
    have hq' : QuietDcs rest := hq.imp id (fun h a ha => h a (List.mem_cons_of_mem _ ha))
    rcases hq with hg | hn
    · simp only [runDcs, hg, if_true, dcCalls]
      exact runDcs_quiet rest _ hq'
    · exact absurd rfl (hn _ List.mem_cons_self)

/-- The sequential operations one re-entrant operation amounts to.  For `connectionLost`: the calls of
the disconnect callbacks come BEFORE the loss (they are in the table that is failed), the errbacks' retries
AFTER it (they go into the new table). -/
def opsOf (asStr : V → Option (List Char)) (sr : StR V R) : OpR V R → List (Op V R)
  | .onErr _ _ => []
  | .onOk _ _ => []
  | .onDisconnect _ => []
  | .op (.lost r) =>
    if sr.base.ready then
      (dcCalls sr.dcs).map NewCall.toOp ++ .lost r ::
        ((run asStr sr.base ((dcCalls sr.dcs).map NewCall.toOp)).pending.flatMap
          (fun e => reactionOf sr.rx e.2.did false)).map NewCall.toOp
    else [.lost r]
  | .op o =>
    o :: afterOps asStr sr.rx ((step asStr sr.base o).log.drop sr.base.log.length) (step asStr sr.base o)

theorem stepR_base (asStr : V → Option (List Char)) (sr : StR V R) (hI : Inv sr.base) (hq : QuietDcs sr.dcs)
    (o : OpR V R) (hf : FreshRun sr.base (opsOf asStr sr o)) :
    (stepR asStr sr o).base = run asStr sr.base (opsOf asStr sr o) := by
  cases o with
  | onErr did calls => rfl
  | onOk did calls => rfl
  | onDisconnect a => rfl
  | op o =>
    cases o with
    | lost r =>
      simp only [stepR, opsOf] at hf ⊢
      rcases Bool.eq_false_or_eq_true sr.base.ready with hr | hr
      case inr => simp [lostOpD, hr, run, Txdbus.Calls.step, lostOp]
      case inl =>
        rw [if_pos hr] at hf ⊢
        have hnr : (!sr.base.ready) = false := by simp [hr]
        have hI1 : Inv (run asStr sr.base ((dcCalls sr.dcs).map NewCall.toOp)) :=
          Inv.run asStr _ hI hf.prefix
        have hr1 : (run asStr sr.base ((dcCalls sr.dcs).map NewCall.toOp)).ready = true := by
          rw [run_ready, hr]
        unfold lostOpD
        simp only [hnr, Bool.false_eq_true, if_false, runDcs_quiet sr.dcs sr.base hq]
        rw [issue_eq_run asStr, lostOpR_eq asStr sr.rx hI1 r, if_pos hr1, run_append, run_cons]
        rfl
    | call σ er tmo rs => simp only [stepR, opsOf, run_cons, reactAll]; exact foldl_react_eq_run asStr _ _ _
    | callBad rs => simp only [stepR, opsOf, run_cons, reactAll]; exact foldl_react_eq_run asStr _ _ _
    | ret rsn msg => simp only [stepR, opsOf, run_cons, reactAll]; exact foldl_react_eq_run asStr _ _ _
    | err rsn name body => simp only [stepR, opsOf, run_cons, reactAll]; exact foldl_react_eq_run asStr _ _ _
    | expire tid => simp only [stepR, opsOf, run_cons, reactAll]; exact foldl_react_eq_run asStr _ _ _

/-- The whole sequential operation sequence a re-entrant run amounts to. -/
def flat (asStr : V → Option (List Char)) : StR V R → List (OpR V R) → List (Op V R)
  | _, [] => []
  | sr, o :: rest => opsOf asStr sr o ++ flat asStr (stepR asStr sr o) rest

/-- No operation registers a raising disconnect callback - unless the source guards the callbacks. -/
def NoRaise (ops : List (OpR V R)) : Prop :=
  C08Client.dcGuarded = true ∨ ∀ o ∈ ops, ∀ a, o = OpR.onDisconnect a → a ≠ DcAction.raises

theorem stepR_quiet (asStr : V → Option (List Char)) (sr : StR V R) (o : OpR V R) (hq : QuietDcs sr.dcs)
    (hn : C08Client.dcGuarded = true ∨ ∀ a, o = OpR.onDisconnect a → a ≠ DcAction.raises) :
    QuietDcs (stepR asStr sr o).dcs := by
  rcases hq with hg | hq
  · exact Or.inl hg
  rcases hn with hg | hn
  · exact Or.inl hg
  cases o with
  | onDisconnect a =>
    refine Or.inr ?_
    intro b hb
    simp only [stepR, List.mem_append, List.mem_singleton] at hb
    rcases hb with hb | hb
    · exact hq b hb
    · subst hb; exact hn _ rfl
  | onErr did calls => exact Or.inr hq
  | onOk did calls => exact Or.inr hq
  | op o => cases o <;> exact Or.inr hq

theorem runR_base (asStr : V → Option (List Char)) : ∀ (ops : List (OpR V R)) (sr : StR V R),
    Inv sr.base → QuietDcs sr.dcs → NoRaise ops → FreshRun sr.base (flat asStr sr ops) →
    (runR asStr sr ops).base = run asStr sr.base (flat asStr sr ops)
  | [], _, _, _, _, _ => rfl
  | o :: rest, sr, hI, hq, hn, hf => by
    simp only [flat] at hf ⊢
    have hstep := stepR_base asStr sr hI hq o hf.prefix
    have hI' : Inv (stepR asStr sr o).base := by
      rw [hstep]; exact Inv.run asStr _ hI hf.prefix
    have hf' : FreshRun (stepR asStr sr o).base (flat asStr (stepR asStr sr o) rest) := by
      rw [hstep]; exact FreshRun.append asStr _ hI hf
    have hq' := stepR_quiet asStr sr o hq (hn.imp id (fun h a => h o List.mem_cons_self a))
    have hn' : NoRaise rest := hn.imp id (fun h o' ho' => h o' (List.mem_cons_of_mem _ ho'))
    rw [run_append, ← hstep]
    exact runR_base asStr rest (stepR asStr sr o) hI' hq' hn' hf'

end Txdbus.Calls
