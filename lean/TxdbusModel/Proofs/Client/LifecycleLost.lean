import TxdbusModel.Proofs.Client.LifecycleWF
/-
C09 - what `connectionLost` shows on a ready connection: each pending call, timer, connection-level
callback and callback of a live proxy exactly once, whatever the callbacks do while they run.
-/
namespace Txdbus.Client.Lifecycle
open Txdbus.Client.Endpoints

/-! ## Counting in a `flatMap` whose pieces are keyed by distinct keys -/

theorem countP_flatMap_zero {α β : Type} (P : β → Bool) (f : α → List β) :
    ∀ l : List α, (∀ b ∈ l, ∀ y ∈ f b, P y = false) → (l.flatMap f).countP P = 0
  | [], _ => rfl
  | b :: t, h => by
    rw [List.flatMap_cons, List.countP_append,
      countP_flatMap_zero P f t (fun c hc => h c (List.mem_cons_of_mem _ hc))]
    simp only [Nat.add_zero]
    apply List.countP_eq_zero.mpr
    intro y hy
    simp [h b List.mem_cons_self y hy]

theorem countP_flatMap_key {α β κ : Type} (P : β → Bool) (f : α → List β) (key : α → κ) (a : α) :
    ∀ l : List α, (l.map key).Nodup → a ∈ l →
      (∀ b ∈ l, key b ≠ key a → ∀ y ∈ f b, P y = false) → (l.flatMap f).countP P = (f a).countP P
  | [], _, ha, _ => by cases ha
  | b :: t, hnd, ha, hother => by
    have hnd' : (t.map key).Nodup := (List.nodup_cons.mp (by simpa using hnd)).2
    have hb : key b ∉ t.map key := (List.nodup_cons.mp (by simpa using hnd)).1
    rw [List.flatMap_cons, List.countP_append]
    by_cases hk : key b = key a
    · have hab : a = b := eq_of_nodup_map hnd ha List.mem_cons_self hk.symm
      have hz : (t.flatMap f).countP P = 0 := by
        apply countP_flatMap_zero
        intro c hc
        apply hother c (List.mem_cons_of_mem _ hc)
        intro hca
        exact hb (hk ▸ hca ▸ List.mem_map_of_mem hc)
      rw [hz, hab]; rfl
    · have hat : a ∈ t := by
        rcases List.mem_cons.mp ha with rfl | h
        · exact absurd rfl hk
        · exact h
      have hz : (f b).countP P = 0 := by
        apply List.countP_eq_zero.mpr
        intro y hy
        simp [hother b List.mem_cons_self hk y hy]
      rw [hz, Nat.zero_add]
      exact countP_flatMap_key P f key a t hnd' hat (fun c hc => hother c (List.mem_cons_of_mem _ hc))

theorem countP_map_key {α β κ : Type} (P : β → Bool) (g : α → β) (key : α → κ) (a : α)
    (l : List α) (hnd : (l.map key).Nodup) (ha : a ∈ l)
    (hother : ∀ b ∈ l, key b ≠ key a → P (g b) = false) : (l.map g).countP P = if P (g a) then 1 else 0 := by
  have : ∀ l : List α, l.map g = l.flatMap (fun x => [g x]) := by
    intro l
    induction l with
    | nil => rfl
    | cons x t ih => simp [List.flatMap_cons, ih]
  have := this l
  rw [this, countP_flatMap_key P (fun x => [g x]) key a l hnd ha
    (fun b hb hk y hy => by simp at hy; rw [hy]; exact hother b hb hk)]
  cases h : P (g a) <;> simp [h]

theorem findProxy_of_mem {q : Proxy} : ∀ {l : List Proxy}, (l.map (·.id)).Nodup → q ∈ l → findProxy q.id l = some q
  | [], _, h => by cases h
  | x :: t, hnd, h => by
    have hnd' : (t.map (·.id)).Nodup := (List.nodup_cons.mp (by simpa using hnd)).2
    have hx : x.id ∉ t.map (·.id) := (List.nodup_cons.mp (by simpa using hnd)).1
    unfold findProxy
    rcases List.mem_cons.mp h with rfl | h
    · simp
    · have : x.id ≠ q.id := fun e => hx (e ▸ List.mem_map_of_mem h)
      simp [this, findProxy_of_mem hnd' h]

/-! ## The loss of a ready connection -/

/-- The effects `connectionLost` appends to the log of a ready connection: the connection-level
callbacks, the pending table as it is after them, then the registry as it is after both (callbacks and
errbacks may have obtained new proxies meanwhile). -/
def lossLog (s : St) : List Fx :=
  s.dcCallbacks.map (fun c => Fx.connCb c.id) ++ (lost1 s).pending.flatMap failFx ++
    (lost2 s).registry.flatMap (proxyFx (lost2 s).proxies)

theorem proxOk_registry_nodup {s : St} (h : ProxOk s) : (s.registry.map (·.2)).Nodup := by
  rw [h.reg]
  exact h.proxyIds.sublist ((List.filter_sublist (l := s.proxies)).map _)

theorem proxOk_slots_exist {s : St} (h : ProxOk s) : ∀ e ∈ s.registry, ∃ x, findProxy e.2 s.proxies = some x := by
  intro e he
  have hmem : e.2 ∈ (s.proxies.filter (·.alive)).map (·.id) := h.reg ▸ List.mem_map_of_mem he
  obtain ⟨q, hq, hqe⟩ := List.mem_map.mp hmem
  exact ⟨q, hqe ▸ findProxy_of_mem h.proxyIds (List.mem_filter.mp hq).1⟩

theorem registry_nodup (s : St) (hr : ReadyOk s) : (s.registry.map (·.2)).Nodup :=
  proxOk_registry_nodup hr.proxOk

/-- After the first two passes the proxies / registry part of the invariant still holds and the registry
has only grown. -/
theorem lost2_proxOk (s : St) (hr : ReadyOk s) : ProxOk (lost2 s) ∧ RegMono s (lost2 s) := by
  have h0 : ProxOk { s with phase := Phase.lost } := proxOk_congr hr.proxOk rfl rfl rfl (Nat.le_refl _)
  obtain ⟨a1, a2⟩ := runConnCbs_proxOk s.dcCallbacks _ h0
  have h1 : ProxOk { lost1 s with pending := [] } := proxOk_congr (s := lost1 s) a1 rfl rfl rfl (Nat.le_refl _)
  obtain ⟨b1, b2⟩ := failCalls_proxOk (lost1 s).pending _ h1
  exact ⟨b1, fun e he => b2 e (a2 e he)⟩

theorem lost3_log (s : St) (hr : ReadyOk s) : (lost3 s).log = s.log ++ lossLog s := by
  obtain ⟨_, _, _, _, b6, _⟩ := lost2_frame s
  obtain ⟨hp, _⟩ := lost2_proxOk s hr
  rw [lost3, runProxies_log (lost2 s).registry (proxOk_registry_nodup hp) (lost2 s) (proxOk_slots_exist hp), b6, lossLog]
  simp [List.append_assoc]

theorem lost3_timers (s : St) (hr : ReadyOk s) : (lost3 s).timers = [] := by
  apply List.eq_nil_iff_forall_not_mem.mpr
  intro t ht
  obtain ⟨h1, h2⟩ := (lost3_basic s).2.2.2 t ht
  obtain ⟨c, hc, hcs, hct⟩ := hr.timersOk t h1
  exact h2 c (runConnCbs_pending_mono _ _ c hc) hct hcs

theorem lost1_pendOk (s : St) (hr : ReadyOk s) : PendOk (lost1 s) :=
  runConnCbs_pendOk _ _ hr.pend

theorem mem_failFx {c : Call} {y : Fx} (h : y ∈ failFx c) :
    y = Fx.timerCancelled c.serial ∨ y = Fx.callErr c.serial (errKindOf c.kind) := by
  unfold failFx at h
  cases hct : c.timed <;> cases hcc : c.cancelled <;> simp [hct, hcc] at h
  · exact Or.inr h
  · exact h
  · exact Or.inl h

theorem mem_proxyFx {proxies : List Proxy} {e : Nat × Nat} {y : Fx} (h : y ∈ proxyFx proxies e) :
    ∃ c, y = Fx.proxyCb e.2 c := by
  unfold proxyFx at h
  split at h
  · split at h
    · obtain ⟨c, _, rfl⟩ := List.mem_map.mp h
      exact ⟨c.id, rfl⟩
    · cases h
  · cases h

/-- Each pending call's Deferred - unless the caller has cancelled it - fires exactly once, with the loss. -/
theorem loss_call_once (s : St) (hr : ReadyOk s) (c : Call) (hc : c ∈ s.pending) (hnc : c.cancelled = false) :
    (lossLog s).countP (Fx.completes c.serial) = 1 ∧ Fx.callErr c.serial (errKindOf c.kind) ∈ lossLog s := by
  have hc1 : c ∈ (lost1 s).pending := runConnCbs_pending_mono _ _ c hc
  constructor
  · unfold lossLog
    rw [List.countP_append, List.countP_append]
    have z1 : (s.dcCallbacks.map (fun c => Fx.connCb c.id)).countP (Fx.completes c.serial) = 0 := by
      apply List.countP_eq_zero.mpr
      intro y hy
      obtain ⟨d, _, rfl⟩ := List.mem_map.mp hy
      simp [Fx.completes]
    have z3 : ((lost2 s).registry.flatMap (proxyFx (lost2 s).proxies)).countP (Fx.completes c.serial) = 0 := by
      apply countP_flatMap_zero
      intro e _ y hy
      obtain ⟨d, rfl⟩ := mem_proxyFx hy
      simp [Fx.completes]
    rw [z1, z3, countP_flatMap_key (Fx.completes c.serial) failFx (·.serial) c _ (lost1_pendOk s hr).1 hc1]
    · unfold failFx
      cases c.timed <;> simp [Fx.completes, hnc]
    · intro b _ hb y hy
      rcases mem_failFx hy with rfl | rfl <;> simp [Fx.completes, hb]
  · unfold lossLog
    apply List.mem_append_left
    apply List.mem_append_right
    apply List.mem_flatMap.mpr
    exact ⟨c, hc1, by unfold failFx; simp [hnc]⟩

/-- A pending call whose Deferred the caller has cancelled: the loss fires nothing on it (the errback is
swallowed; the caller concluded it with CancelledError before). -/
theorem loss_cancelled_call_silent (s : St) (hr : ReadyOk s) (c : Call) (hc : c ∈ s.pending) (hcc : c.cancelled = true) :
    (lossLog s).countP (Fx.completes c.serial) = 0 := by
  have hc1 : c ∈ (lost1 s).pending := runConnCbs_pending_mono _ _ c hc
  unfold lossLog
  rw [List.countP_append, List.countP_append]
  have z1 : (s.dcCallbacks.map (fun c => Fx.connCb c.id)).countP (Fx.completes c.serial) = 0 := by
    apply List.countP_eq_zero.mpr
    intro y hy
    obtain ⟨d, _, rfl⟩ := List.mem_map.mp hy
    simp [Fx.completes]
  have z3 : ((lost2 s).registry.flatMap (proxyFx (lost2 s).proxies)).countP (Fx.completes c.serial) = 0 := by
    apply countP_flatMap_zero
    intro e _ y hy
    obtain ⟨d, rfl⟩ := mem_proxyFx hy
    simp [Fx.completes]
  rw [z1, z3, countP_flatMap_key (Fx.completes c.serial) failFx (·.serial) c _ (lost1_pendOk s hr).1 hc1]
  · unfold failFx
    cases c.timed <;> simp [Fx.completes, hcc]
  · intro b _ hb y hy
    rcases mem_failFx hy with rfl | rfl <;> simp [Fx.completes, hb]

/-- The timer of each pending call that has one is cancelled exactly once; no other cancellation happens. -/
theorem loss_timer_once (s : St) (hr : ReadyOk s) (c : Call) (hc : c ∈ s.pending) :
    (lossLog s).count (Fx.timerCancelled c.serial) = if c.timed then 1 else 0 := by
  have hc1 : c ∈ (lost1 s).pending := runConnCbs_pending_mono _ _ c hc
  unfold lossLog List.count
  rw [List.countP_append, List.countP_append]
  have z1 : (s.dcCallbacks.map (fun c => Fx.connCb c.id)).countP (· == Fx.timerCancelled c.serial) = 0 := by
    apply List.countP_eq_zero.mpr
    intro y hy
    obtain ⟨d, _, rfl⟩ := List.mem_map.mp hy
    simp
  have z3 : ((lost2 s).registry.flatMap (proxyFx (lost2 s).proxies)).countP (· == Fx.timerCancelled c.serial) = 0 := by
    apply countP_flatMap_zero
    intro e _ y hy
    obtain ⟨d, rfl⟩ := mem_proxyFx hy
    simp
  rw [z1, z3, countP_flatMap_key (· == Fx.timerCancelled c.serial) failFx (·.serial) c _ (lost1_pendOk s hr).1 hc1]
  · unfold failFx
    cases c.timed <;> cases c.cancelled <;> simp
  · intro b _ hb y hy
    rcases mem_failFx hy with rfl | rfl <;> simp [hb]

/-- Each connection-level callback runs exactly once. -/
theorem loss_conncb_once (s : St) (hr : ReadyOk s) (cb : Cb) (hcb : cb ∈ s.dcCallbacks) :
    (lossLog s).count (Fx.connCb cb.id) = 1 := by
  unfold lossLog List.count
  rw [List.countP_append, List.countP_append]
  have z2 : ((lost1 s).pending.flatMap failFx).countP (· == Fx.connCb cb.id) = 0 := by
    apply countP_flatMap_zero
    intro b _ y hy
    rcases mem_failFx hy with rfl | rfl <;> simp
  have z3 : ((lost2 s).registry.flatMap (proxyFx (lost2 s).proxies)).countP (· == Fx.connCb cb.id) = 0 := by
    apply countP_flatMap_zero
    intro e _ y hy
    obtain ⟨d, rfl⟩ := mem_proxyFx hy
    simp
  rw [z2, z3, countP_map_key (· == Fx.connCb cb.id) (fun c => Fx.connCb c.id) (·.id) cb _ hr.cbIds hcb]
  · simp
  · intro b _ hb; simp [hb]

/-- Each callback of each live proxy - explicit or introspected - runs exactly once. -/
theorem loss_proxycb_once (s : St) (hr : ReadyOk s) (p : Proxy) (hp : p ∈ s.proxies) (ha : p.alive = true)
    (cb : Cb) (hcb : cb ∈ p.cbs) : (lossLog s).count (Fx.proxyCb p.id cb.id) = 1 := by
  unfold lossLog List.count
  rw [List.countP_append, List.countP_append]
  have z1 : (s.dcCallbacks.map (fun c => Fx.connCb c.id)).countP (· == Fx.proxyCb p.id cb.id) = 0 := by
    apply List.countP_eq_zero.mpr
    intro y hy
    obtain ⟨d, _, rfl⟩ := List.mem_map.mp hy
    simp
  have z2 : ((lost1 s).pending.flatMap failFx).countP (· == Fx.proxyCb p.id cb.id) = 0 := by
    apply countP_flatMap_zero
    intro b _ y hy
    rcases mem_failFx hy with rfl | rfl <;> simp
  -- the proxy is (still) in the registry, under its own slot, and unchanged
  obtain ⟨hpo, hmono⟩ := lost2_proxOk s hr
  have hmem : p.id ∈ s.registry.map (·.2) := by
    rw [hr.reg]
    exact List.mem_map_of_mem (List.mem_filter.mpr ⟨hp, ha⟩)
  obtain ⟨e, he, hep⟩ := List.mem_map.mp hmem
  have hfind : findProxy p.id (lost2 s).proxies = some p :=
    (lost2_frame s).2.2.2.1 p.id p (findProxy_of_mem hr.proxyIds hp)
  rw [z1, z2, countP_flatMap_key (· == Fx.proxyCb p.id cb.id) (proxyFx (lost2 s).proxies) (·.2) e _
    (proxOk_registry_nodup hpo) (hmono e he)]
  · simp only [proxyFx, hep, hfind, ha, if_true, Nat.zero_add]
    rw [countP_map_key (· == Fx.proxyCb p.id cb.id) (fun c => Fx.proxyCb p.id c.id) (·.id) cb _ (hr.proxyCbIds p hp) hcb]
    · simp
    · intro b _ hb; simp [hb]
  · intro b _ hb y hy
    obtain ⟨d, rfl⟩ := mem_proxyFx hy
    have : b.2 ≠ p.id := fun h => hb (h.trans hep.symm)
    simp [this]

/-- Once lost, no event of the environment changes anything. -/
theorem lost_quiet_step (s : St) (hp : s.phase = .lost) (ht : s.timers = []) (e : Ev) (he : e.isEnv = true) :
    step .repaired s e = s := by
  cases e <;> simp [Ev.isEnv] at he <;> simp [step, hp, ht, St.transportOpen]

theorem lost_quiet_run (h : List Ev) : ∀ s : St, s.phase = .lost → s.timers = [] →
    (∀ e ∈ h, e.isEnv = true) → run .repaired s h = s := by
  induction h with
  | nil => intro s _ _ _; rfl
  | cons e t ih =>
    intro s hp ht he
    simp only [run]
    rw [lost_quiet_step s hp ht e (he e List.mem_cons_self)]
    exact ih s hp ht (fun x hx => he x (List.mem_cons_of_mem _ hx))

end Txdbus.Client.Lifecycle
