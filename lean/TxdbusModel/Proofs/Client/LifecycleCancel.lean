import TxdbusModel.Proofs.Client.LifecycleWF
/-
C09 - the caller cancelling the Deferred of an outstanding call (`Ev.cancelCall`).

The mark `Call.cancelled` on an entry of the pending table is not a fact about txdbus (which is never told)
but about the caller: in every reachable state, an entry carries the mark only if its Deferred HAS fired with
CancelledError - the effect `callErr serial .cancelled`, which only `Ev.cancelCall` produces - earlier in the
history.  So the clause of `lost_fails_everything_once` for marked entries ("the loss fires nothing on it")
speaks exactly of the calls their caller concluded, and the clause for unmarked ones of all the others.
-/
namespace Txdbus.Client.Lifecycle
open Txdbus.Client.Endpoints

/-- Every marked entry of the pending table was concluded by its caller (until the connection is lost: the
table then only holds what callbacks issued during the loss). -/
def CancelOk (s : St) : Prop :=
  s.phase ≠ .lost → ∀ c ∈ s.pending, c.cancelled = true → Fx.callErr c.serial .cancelled ∈ s.log

theorem cancelOk_mono {s s' : St} (h : CancelOk s) (hph : s'.phase ≠ .lost → s.phase ≠ .lost)
    (hlog : ∀ f ∈ s.log, f ∈ s'.log)
    (hp : ∀ c ∈ s'.pending, c.cancelled = true → c ∈ s.pending ∨ Fx.callErr c.serial .cancelled ∈ s'.log) :
    CancelOk s' := by
  intro hne c hc hcc
  rcases hp c hc hcc with h0 | h0
  · exact hlog _ (h (hph hne) c h0 hcc)
  · exact h0

theorem cancelOk_connect (eps : List Endpoint) : CancelOk (connect eps) := by
  intro _ c hc
  unfold connect at hc
  simp only [] at hc
  split at hc
  · simp [fire, St.empty] at hc
  · unfold tryNext at hc
    split at hc <;> simp [fire, St.empty] at hc

@[simp] theorem takeCall_pending (c : Call) (s : St) : (takeCall c s).pending = removeCall c.serial s.pending := by
  unfold takeCall; cases c.timed <;> simp

theorem takeCall_log_mono (c : Call) (s : St) : ∀ f ∈ s.log, f ∈ (takeCall c s).log := by
  intro f hf
  unfold takeCall; cases c.timed <;> simp [hf]

@[simp] theorem completeCall_pending (c : Call) (ok : Bool) (s : St) : (completeCall .repaired c ok s).pending = s.pending := by
  unfold completeCall; cases c.cancelled <;> cases c.kind <;> cases ok <;> simp [St.emit, makeProxy, makeProxyCbs]

theorem completeCall_log_mono (c : Call) (ok : Bool) (s : St) : ∀ f ∈ s.log, f ∈ (completeCall .repaired c ok s).log := by
  intro f hf
  unfold completeCall; cases c.cancelled <;> cases c.kind <;> cases ok <;> simp [St.emit, makeProxy, makeProxyCbs, hf]

/-- Losing a connection that never became ready leaves the table alone. -/
theorem cancelOk_early (s : St) (hi : Inv1 s) (hb : s.busName = false) (h : CancelOk s) :
    CancelOk (connectionLost .repaired s) := by
  have hne : s.phase ≠ .lost := fun hp => by
    have := hi.bus.mpr (Or.inr hp)
    rw [hb] at this; cases this
  rw [connectionLost_early s hb]
  intro _ c hc hcc
  have hc' : c ∈ s.pending := by
    revert hc; split <;> simp [fire]
  have hm := h hne c hc' hcc
  split <;> simp [fire, hm]

theorem cancelOk_step (s : St) (e : Ev) (hi : Inv1 s) (h : CancelOk s) : CancelOk (step .repaired s e) := by
  cases e with
  | attemptFails why =>
    simp only [step]
    split
    · unfold tryNext
      split
      · exact cancelOk_mono h (fun hne => by simp_all) (fun f hf => by simp [hf]) (fun c hc _ => Or.inl hc)
      · exact cancelOk_mono h (fun hne => by simp_all) (fun f hf => by simp [fire, hf]) (fun c hc _ => Or.inl (by simpa [fire] using hc))
    · exact h
  | attemptConnects =>
    simp only [step]
    split
    · exact cancelOk_mono h (fun hne => by simp_all) (fun f hf => hf) (fun c hc _ => Or.inl hc)
    · exact h
  | authProgress => exact h
  | authOk =>
    simp only [step]
    split
    · intro _ c hc hcc
      simp only [issueCall, List.nil_append, List.mem_singleton] at hc
      subst hc
      cases hcc
    · exact h
  | authFailed =>
    simp only [step]
    split
    · rename_i hp
      have hb : s.busName = false := by
        cases hbn : s.busName with
        | false => rfl
        | true => have := hi.bus.mp hbn; simp_all
      exact cancelOk_early s hi hb h
    · exact h
  | helloReply named =>
    simp only [step, repaired_helloNeedsName, if_true]
    split
    · rename_i hp
      split
      · rename_i c0 _
        cases named
        · exact cancelOk_mono h (fun _ => by simp [hp]) (fun f hf => by simp [fire, hf])
            (fun c hc _ => Or.inl ((removeCall_sublist c0.serial s.pending).subset (by simpa [fire] using hc)))
        · exact cancelOk_mono h (fun _ => by simp [hp]) (fun f hf => by simp [fire, hf])
            (fun c hc _ => Or.inl ((removeCall_sublist c0.serial s.pending).subset (by simpa [fire] using hc)))
      · exact h
    · exact h
  | helloError =>
    simp only [step]
    split
    · rename_i hp
      split
      · rename_i c0 _
        exact cancelOk_mono h (fun _ => by simp [hp]) (fun f hf => by simp [fire, hf])
          (fun c hc _ => Or.inl ((removeCall_sublist c0.serial s.pending).subset (by simpa [fire] using hc)))
      · exact h
    · exact h
  | close =>
    simp only [step]
    split
    · cases hbn : s.busName with
      | false => exact cancelOk_early s hi hbn h
      | true =>
        rw [connectionLost_ready_eq s hbn]
        intro hne
        exact absurd (lost3_basic s).1 hne
    · exact h
  | reply serial ok =>
    simp only [step]
    split
    · rename_i hp
      split
      · exact h
      · rename_i c0 _
        refine cancelOk_mono h (fun _ => by simp [hp]) ?_ ?_
        · intro f hf
          exact completeCall_log_mono _ _ _ f (takeCall_log_mono _ _ f hf)
        · intro c hc _
          rw [completeCall_pending, takeCall_pending] at hc
          exact Or.inl ((removeCall_sublist c0.serial s.pending).subset hc)
    · exact h
  | expire serial =>
    simp only [step]
    split
    · split
      · exact cancelOk_mono h (fun hne => by simpa [St.emit] using hne) (fun f hf => by simp [St.emit, hf])
          (fun c hc _ => Or.inl (by simpa [St.emit] using hc))
      · exact cancelOk_mono h (fun hne => by simpa using hne) (fun f hf => by simp [hf])
          (fun c hc _ => Or.inl ((removeCall_sublist serial s.pending).subset (by simpa using hc)))
    · exact h
  | call timed r =>
    simp only [step]
    split
    · rename_i hp
      refine cancelOk_mono h (fun _ => by simp [hp]) (fun f hf => by simpa [issueCall] using hf) ?_
      intro c hc hcc
      simp only [issueCall, List.mem_append, List.mem_singleton] at hc
      rcases hc with hc | rfl
      · exact Or.inl hc
      · cases hcc
    · exact h
  | notify r =>
    simp only [step]
    split
    · rename_i hp
      exact cancelOk_mono h (fun _ => by simp [hp]) (fun f hf => hf) (fun c hc _ => Or.inl hc)
    · exact h
  | cancelNotify c =>
    simp only [step]
    split
    · rename_i hp
      exact cancelOk_mono h (fun _ => by simp [hp]) (fun f hf => hf) (fun c hc _ => Or.inl hc)
    · exact h
  | proxyExplicit key =>
    simp only [step]
    split
    · rename_i hp
      exact cancelOk_mono h (fun _ => by simp [hp]) (fun f hf => by simpa [makeProxy, makeProxyCbs] using hf)
        (fun c hc _ => Or.inl (by simpa [makeProxy, makeProxyCbs] using hc))
    · exact h
  | proxyIntrospect key =>
    simp only [step]
    split
    · rename_i hp
      refine cancelOk_mono h (fun _ => by simp [hp]) (fun f hf => by simpa [issueCall] using hf) ?_
      intro c hc hcc
      simp only [issueCall, List.mem_append, List.mem_singleton] at hc
      rcases hc with hc | rfl
      · exact Or.inl hc
      · cases hcc
    · exact h
  | proxyNotify p r =>
    simp only [step]
    split
    · rename_i hp
      split
      · split
        · exact cancelOk_mono h (fun _ => by simp [hp]) (fun f hf => hf) (fun c hc _ => Or.inl hc)
        · exact h
      · exact h
    · exact h
  | proxyCancelNotify p c =>
    simp only [step]
    split
    · rename_i hp
      exact cancelOk_mono h (fun _ => by simp [hp]) (fun f hf => hf) (fun c hc _ => Or.inl hc)
    · exact h
  | dropProxy p =>
    simp only [step]
    split
    · rename_i hp
      exact cancelOk_mono h (fun _ => by simp [hp]) (fun f hf => hf) (fun c hc _ => Or.inl hc)
    · exact h
  | cancelCall serial =>
    simp only [step]
    split
    · rename_i hp
      split
      · split
        · exact h
        · refine cancelOk_mono h (fun _ => by simp [hp]) (fun f hf => by simp [hf]) ?_
          intro c hc _
          obtain ⟨c0, h0, hs, _, _, hor⟩ := mem_markCancelled hc
          rcases hor with rfl | ⟨hn, _⟩
          · exact Or.inl h0
          · exact Or.inr (by simp [hs, hn])
      · exact h
    · exact h

theorem reachable_cancelOk (eps : List Endpoint) (h : List Ev) : CancelOk (run .repaired (connect eps) h) := by
  suffices ∀ (h : List Ev) (s : St), Inv1 s → CancelOk s → CancelOk (run .repaired s h) from
    this h _ (inv1_connect eps) (cancelOk_connect eps)
  intro h
  induction h with
  | nil => intro s _ hc; exact hc
  | cons e t ih => intro s hi hc; exact ih _ (inv1_step s e hi) (cancelOk_step s e hi hc)

end Txdbus.Client.Lifecycle
