import TxdbusModel.Client.Lifecycle
/-
C09 - the address list walk of `client.connect`: `eplist.reverse()` and `pop()` from the end try the
addresses in listed order, one at a time, and stop at the first that connects.
-/
namespace Txdbus.Client.Lifecycle
open Txdbus.Client.Endpoints

/-- The reactor's answer to one connection attempt: it connects, or it fails - for whatever reason. -/
inductive Outcome
  | connects
  | fails (why : FailKind)
deriving DecidableEq, Repr

def Outcome.ok : Outcome → Bool
  | .connects => true
  | .fails _ => false

def walkEv : Outcome → Ev
  | .connects => .attemptConnects
  | .fails why => .attemptFails why

/-- Spec: the addresses that must have been tried - every unreachable one before the first reachable
one, then that one. -/
def expectedAttempts (tagged : List (Endpoint × Outcome)) : List Endpoint :=
  (tagged.takeWhile (fun t => !t.2.ok)).map (·.1) ++ ((tagged.find? (·.2.ok)).map (·.1)).toList

theorem expectedAttempts_cons (e : Endpoint) (b : Outcome) (t : List (Endpoint × Outcome)) :
    expectedAttempts ((e, b) :: t) = e :: (if b.ok then [] else expectedAttempts t) := by
  cases b <;> simp [expectedAttempts, List.takeWhile, List.find?, Outcome.ok]

theorem run_append (v : Variant) (h₁ h₂ : List Ev) : ∀ s : St, run v s (h₁ ++ h₂) = run v (run v s h₁) h₂ := by
  induction h₁ with
  | nil => intro s; rfl
  | cons e t ih => intro s; simp [run, ih]

theorem walk_noop (bs : List Outcome) : ∀ s : St, s.phase ≠ .connecting → run .repaired s (bs.map walkEv) = s := by
  induction bs with
  | nil => intro s _; rfl
  | cons b t ih =>
    intro s hp
    have : step .repaired s (walkEv b) = s := by cases b <;> simp [walkEv, step, hp]
    simp [run, this, ih s hp]

theorem attempts_emit_attempt (s : St) (e : Endpoint) (r : List Endpoint) (c : Option Endpoint) :
    attempts { s with remaining := r, current := c, log := s.log ++ [.attempt e] } = attempts s ++ [e] := by
  simp [attempts, List.filterMap_append]

/-- One attempt is outstanding (its outcome is `b`), `tagged` are the addresses after it. -/
theorem walk_from (tagged : List (Endpoint × Outcome)) : ∀ (b : Outcome) (s : St),
    s.phase = .connecting → s.remaining = (tagged.map (·.1)).reverse → s.fired = [] →
    attempts (run .repaired s (walkEv b :: tagged.map (fun t => walkEv t.2))) =
      attempts s ++ (if b.ok then [] else expectedAttempts tagged) ∧
    (b.ok = true → (run .repaired s (walkEv b :: tagged.map (fun t => walkEv t.2))).phase = .authenticating ∧
                (run .repaired s (walkEv b :: tagged.map (fun t => walkEv t.2))).current = s.current ∧
                (run .repaired s (walkEv b :: tagged.map (fun t => walkEv t.2))).fired = []) ∧
    (b.ok = false →
      match tagged.find? (·.2.ok) with
      | some t => (run .repaired s (walkEv b :: tagged.map (fun t => walkEv t.2))).phase = .authenticating ∧
                  (run .repaired s (walkEv b :: tagged.map (fun t => walkEv t.2))).current = some t.1 ∧
                  (run .repaired s (walkEv b :: tagged.map (fun t => walkEv t.2))).fired = []
      | none => (run .repaired s (walkEv b :: tagged.map (fun t => walkEv t.2))).phase = .exhausted ∧
                (run .repaired s (walkEv b :: tagged.map (fun t => walkEv t.2))).current = none ∧
                (run .repaired s (walkEv b :: tagged.map (fun t => walkEv t.2))).fired = [.unreachable]) := by
  induction tagged with
  | nil =>
    intro b s hp hr hf
    cases b with
    | fails why =>
      simp [run, walkEv, step, hp, tryNext, hr, fire, hf, attempts, List.filterMap_append, expectedAttempts, Outcome.ok]
    | connects => simp [run, walkEv, step, hp, attempts, hf, Outcome.ok]
  | cons x t ih =>
    intro b s hp hr hf
    obtain ⟨e, b'⟩ := x
    cases b with
    | fails why =>
      -- the outstanding attempt fails (for whatever reason): `try_next_ep` pops `e`
      have hlast : s.remaining.getLast? = some e := by simp [hr]
      have hdrop : s.remaining.dropLast = (t.map (·.1)).reverse := by simp [hr]
      have hstep : step .repaired s (walkEv (.fails why)) =
          { s with remaining := (t.map (·.1)).reverse, current := some e, log := s.log ++ [.attempt e] } := by
        simp [walkEv, step, hp, tryNext, hlast, hdrop]
      simp only [run, List.map_cons, hstep]
      obtain ⟨i1, i2, i3⟩ := ih b' { s with remaining := (t.map (·.1)).reverse, current := some e, log := s.log ++ [.attempt e] }
        hp rfl hf
      simp only [run] at i1 i2 i3
      refine ⟨?_, by simp [Outcome.ok], ?_⟩
      · rw [i1, attempts_emit_attempt, expectedAttempts_cons]; simp [Outcome.ok]
      · intro _
        cases hb' : b'.ok
        · simpa [List.find?, hb'] using i3 hb'
        · simpa [List.find?, hb'] using i2 hb'
    | connects =>
      -- the outstanding attempt connects: the later outcomes are never asked for
      have hstep : step .repaired s (walkEv .connects) = { s with phase := .authenticating } := by
        simp [walkEv, step, hp]
      have hnoop := walk_noop (((e, b') :: t).map (·.2)) { s with phase := .authenticating } (by simp)
      simp only [List.map_map] at hnoop
      have hmap : ((e, b') :: t).map (fun t => walkEv t.2) = List.map (walkEv ∘ fun x => x.snd) ((e, b') :: t) := rfl
      simp only [run, hstep, hmap, hnoop]
      simp [attempts, hf, Outcome.ok]

/-- `connect` on a non-empty list: the list is reversed and its first address popped from the end. -/
def started (e : Endpoint) (rest : List Endpoint) : St :=
  { St.empty with remaining := rest.reverse, current := some e, log := [.attempt e] }

theorem connect_cons (e : Endpoint) (rest : List Endpoint) : connect (e :: rest) = started e rest := by
  simp [connect, tryNext, St.empty, started]

theorem walk_connect (tagged : List (Endpoint × Outcome)) :
    attempts (run .repaired (connect (tagged.map (·.1))) (tagged.map (fun t => walkEv t.2))) = expectedAttempts tagged ∧
    (match tagged.find? (·.2.ok) with
     | some t =>
       (run .repaired (connect (tagged.map (·.1))) (tagged.map (fun t => walkEv t.2))).phase = .authenticating ∧
       (run .repaired (connect (tagged.map (·.1))) (tagged.map (fun t => walkEv t.2))).current = some t.1 ∧
       (run .repaired (connect (tagged.map (·.1))) (tagged.map (fun t => walkEv t.2))).fired = []
     | none =>
       (run .repaired (connect (tagged.map (·.1))) (tagged.map (fun t => walkEv t.2))).phase = .exhausted ∧
       (run .repaired (connect (tagged.map (·.1))) (tagged.map (fun t => walkEv t.2))).current = none ∧
       (run .repaired (connect (tagged.map (·.1))) (tagged.map (fun t => walkEv t.2))).fired =
         [if tagged.isEmpty then .noAddress else .unreachable]) := by
  cases tagged with
  | nil => simp [connect, fire, St.empty, run, attempts, expectedAttempts]
  | cons x t =>
    obtain ⟨e, b⟩ := x
    obtain ⟨w1, w2, w3⟩ := walk_from t b (started e (t.map (·.1))) rfl rfl rfl
    simp only [List.map_cons, connect_cons]
    refine ⟨?_, ?_⟩
    · rw [w1, expectedAttempts_cons]
      cases b <;> simp [attempts, started, St.empty, Outcome.ok]
    · cases hb : b.ok
      · have := w3 hb
        simp only [List.find?, hb]
        cases hf : t.find? (·.2.ok) with
        | none => simpa [hf] using this
        | some u => simpa [hf] using this
      · have := w2 hb
        simpa [List.find?, started, hb] using this

end Txdbus.Client.Lifecycle
