import TxdbusModel.Proofs.Client.LifecycleFrame
/-
C09 - the invariant behind `connect_fires_once`: the relation between the phase and the cell that
records the firings of the connect Deferred, preserved by every event.
-/
namespace Txdbus.Client.Lifecycle
open Txdbus.Client.Endpoints

structure Inv1 (s : St) : Prop where
  notYet : s.phase.concluded = false → s.fired = []
  done : s.phase.concluded = true → s.fired.length = 1
  bus : s.busName = true ↔ (s.phase = .ready ∨ s.phase = .lost)
  hello : s.phase = .helloSent → (helloCall s.pending).isSome = true
  quiet : s.phase.concluded = false → s.timers = []
  kind : (s.phase = .ready ∨ s.phase = .lost) → s.fired = [.connection]
  notConn : ¬ (s.phase = .ready ∨ s.phase = .lost) → ConnectResult.connection ∉ s.fired

theorem inv1_connect (eps : List Endpoint) : Inv1 (connect eps) := by
  unfold connect
  simp only []
  split
  · constructor <;> simp [fire, St.empty, Phase.concluded]
  · simp only [tryNext]
    split
    · constructor <;> simp [St.empty, Phase.concluded]
    · constructor <;> simp [fire, St.empty, Phase.concluded]

/-- `connectionLost` on a connection that never became ready. -/
theorem connectionLost_early (s : St) (hb : s.busName = false) :
    connectionLost .repaired s =
      { (if s.fired.isEmpty then fire .lostEarly s else s) with phase := .closedEarly } := by
  simp [connectionLost, hb, Variant.repaired]

/-- The three passes of `connectionLost` on a ready connection. -/
def lost1 (s : St) : St := runConnCbs .repaired s.dcCallbacks { s with phase := .lost }
def lost2 (s : St) : St := failCalls .repaired (lost1 s).pending { lost1 s with pending := [] }
def lost3 (s : St) : St := runProxies .repaired (lost2 s).registry (lost2 s)

theorem connectionLost_ready_eq (s : St) (hb : s.busName = true) : connectionLost .repaired s = lost3 s := by
  unfold connectionLost lost3 lost2 lost1
  simp only [hb, Bool.not_true, Bool.false_eq_true, if_false]
  rfl

theorem lost1_frame (s : St) :
    (lost1 s).phase = .lost ∧ (lost1 s).fired = s.fired ∧ (lost1 s).busName = s.busName ∧
    (lost1 s).timers = s.timers ∧ KeepsAll s (lost1 s) ∧
    (lost1 s).log = s.log ++ s.dcCallbacks.map (fun c => Fx.connCb c.id) := by
  obtain ⟨a1, a2, a3, a4, a5, a6⟩ := runConnCbs_frame s.dcCallbacks { s with phase := .lost }
  exact ⟨a1, a2, a3, a4, a5, a6⟩

theorem lost2_frame (s : St) :
    (lost2 s).phase = .lost ∧ (lost2 s).fired = s.fired ∧ (lost2 s).busName = s.busName ∧
    KeepsAll s (lost2 s) ∧
    (lost2 s).log = s.log ++ s.dcCallbacks.map (fun c => Fx.connCb c.id) ++ (lost1 s).pending.flatMap failFx ∧
    (∀ t ∈ (lost2 s).timers, t ∈ s.timers ∧ ∀ c ∈ (lost1 s).pending, c.timed = true → c.serial ≠ t) := by
  obtain ⟨a1, a2, a3, a4, a5, a7⟩ := lost1_frame s
  obtain ⟨b1, b2, b3, b5, b6, b7⟩ := failCalls_frame (lost1 s).pending { lost1 s with pending := [] }
  refine ⟨by rw [lost2, b1]; exact a1, by rw [lost2, b2]; exact a2, by rw [lost2, b3]; exact a3,
    ?_, by rw [lost2, b6]; simp [a7], ?_⟩
  · intro q x h
    exact b5 q x (a5 q x h)
  · intro t ht
    obtain ⟨h1, h2⟩ := b7 t ht
    exact ⟨by simpa [a4] using h1, h2⟩

theorem lost3_basic (s : St) :
    (lost3 s).phase = .lost ∧ (lost3 s).fired = s.fired ∧ (lost3 s).busName = s.busName ∧
    (∀ t ∈ (lost3 s).timers, t ∈ s.timers ∧ ∀ c ∈ (lost1 s).pending, c.timed = true → c.serial ≠ t) := by
  obtain ⟨b1, b2, b3, _, _, b7⟩ := lost2_frame s
  obtain ⟨c1, c2, c3, c5⟩ := runProxies_basic (lost2 s).registry (lost2 s)
  refine ⟨by rw [lost3, c1]; exact b1, by rw [lost3, c2]; exact b2, by rw [lost3, c3]; exact b3, ?_⟩
  intro t ht
  rw [lost3, c5] at ht
  exact b7 t ht

theorem inv1_step (s : St) (e : Ev) (h : Inv1 s) : Inv1 (step .repaired s e) := by
  obtain ⟨h1, h2, h3, h4, h5, h6, h7⟩ := h
  cases e with
  | attemptFails why =>
    simp only [step]
    split
    · rename_i hp
      unfold tryNext
      split
      · constructor <;> simp_all [Phase.concluded]
      · constructor <;> simp_all [Phase.concluded, fire]
    · exact ⟨h1, h2, h3, h4, h5, h6, h7⟩
  | attemptConnects =>
    simp only [step]
    split
    · constructor <;> simp_all [Phase.concluded]
    · exact ⟨h1, h2, h3, h4, h5, h6, h7⟩
  | authProgress => exact ⟨h1, h2, h3, h4, h5, h6, h7⟩
  | authOk =>
    simp only [step]
    split
    · constructor <;> simp_all [Phase.concluded, issueCall, helloCall]
    · exact ⟨h1, h2, h3, h4, h5, h6, h7⟩
  | authFailed =>
    simp only [step]
    split
    · rename_i hp
      have hb : s.busName = false := by
        cases hbn : s.busName with
        | false => rfl
        | true => have := h3.mp hbn; simp_all
      rw [connectionLost_early s hb]
      constructor <;> simp_all [Phase.concluded, fire]
    · exact ⟨h1, h2, h3, h4, h5, h6, h7⟩
  | helloReply named =>
    simp only [step, repaired_helloNeedsName, if_true]
    split
    · split
      · cases named <;> (constructor <;> simp_all [Phase.concluded, fire])
      · exact ⟨h1, h2, h3, h4, h5, h6, h7⟩
    · exact ⟨h1, h2, h3, h4, h5, h6, h7⟩
  | helloError =>
    simp only [step]
    split
    · split
      · constructor <;> simp_all [Phase.concluded, fire]
      · exact ⟨h1, h2, h3, h4, h5, h6, h7⟩
    · exact ⟨h1, h2, h3, h4, h5, h6, h7⟩
  | close =>
    simp only [step]
    split
    · rename_i hopen
      cases hbn : s.busName with
      | false =>
        rw [connectionLost_early s hbn]
        have hph : s.phase = .authenticating ∨ s.phase = .helloSent ∨ s.phase = .helloFailed := by
          have hnr : ¬ (s.phase = .ready ∨ s.phase = .lost) := fun hh => by
            have := h3.mpr hh; simp_all
          unfold St.transportOpen at hopen
          cases hp : s.phase <;> simp_all
        rcases hph with hp | hp | hp
        · constructor <;> simp_all [Phase.concluded, fire]
        · constructor <;> simp_all [Phase.concluded, fire]
        · have hl := h2 (by simp [hp, Phase.concluded])
          have hne : s.fired.isEmpty = false := by
            cases hf : s.fired with
            | nil => simp [hf] at hl
            | cons a t => rfl
          constructor <;> simp_all [Phase.concluded, fire]
      | true =>
        rw [connectionLost_ready_eq s hbn]
        obtain ⟨c1, c2, c3, _⟩ := lost3_basic s
        have hr := h3.mp hbn
        have hk := h6 hr
        constructor <;> simp_all [Phase.concluded]
    · exact ⟨h1, h2, h3, h4, h5, h6, h7⟩
  | reply serial ok =>
    simp only [step]
    split
    · split
      · exact ⟨h1, h2, h3, h4, h5, h6, h7⟩
      · constructor <;> simp_all [Phase.concluded]
    · exact ⟨h1, h2, h3, h4, h5, h6, h7⟩
  | expire serial =>
    simp only [step]
    split
    · rename_i hen
      have hc : s.phase.concluded = true := by
        cases hcc : s.phase.concluded with
        | true => rfl
        | false => simp [h5 hcc] at hen
      have hns : s.phase ≠ .helloSent := fun e => by simp [e, Phase.concluded] at hc
      split <;> (constructor <;> simp_all [Phase.concluded, St.emit])
    · exact ⟨h1, h2, h3, h4, h5, h6, h7⟩
  | call timed r =>
    simp only [step]
    split
    · constructor <;> simp_all [Phase.concluded, issueCall]
    · exact ⟨h1, h2, h3, h4, h5, h6, h7⟩
  | notify r =>
    simp only [step]
    split
    · constructor <;> simp_all [Phase.concluded]
    · exact ⟨h1, h2, h3, h4, h5, h6, h7⟩
  | cancelNotify c =>
    simp only [step]
    split
    · constructor <;> simp_all [Phase.concluded]
    · exact ⟨h1, h2, h3, h4, h5, h6, h7⟩
  | proxyExplicit key =>
    simp only [step]
    split
    · constructor <;> simp_all [Phase.concluded, makeProxy, makeProxyCbs]
    · exact ⟨h1, h2, h3, h4, h5, h6, h7⟩
  | proxyIntrospect key =>
    simp only [step]
    split
    · constructor <;> simp_all [Phase.concluded, issueCall]
    · exact ⟨h1, h2, h3, h4, h5, h6, h7⟩
  | proxyNotify p r =>
    simp only [step]
    split
    · split
      · split
        · constructor <;> simp_all [Phase.concluded]
        · exact ⟨h1, h2, h3, h4, h5, h6, h7⟩
      · exact ⟨h1, h2, h3, h4, h5, h6, h7⟩
    · exact ⟨h1, h2, h3, h4, h5, h6, h7⟩
  | proxyCancelNotify p c =>
    simp only [step]
    split
    · constructor <;> simp_all [Phase.concluded]
    · exact ⟨h1, h2, h3, h4, h5, h6, h7⟩
  | dropProxy p =>
    simp only [step]
    split
    · constructor <;> simp_all [Phase.concluded]
    · exact ⟨h1, h2, h3, h4, h5, h6, h7⟩
  | cancelCall serial =>
    simp only [step]
    split
    · split
      · split
        · exact ⟨h1, h2, h3, h4, h5, h6, h7⟩
        · constructor <;> simp_all [Phase.concluded]
      · exact ⟨h1, h2, h3, h4, h5, h6, h7⟩
    · exact ⟨h1, h2, h3, h4, h5, h6, h7⟩

theorem inv1_run (h : List Ev) : ∀ s : St, Inv1 s → Inv1 (run .repaired s h) := by
  induction h with
  | nil => intro s hs; exact hs
  | cons e t ih => intro s hs; exact ih _ (inv1_step s e hs)

/-- A concluded attempt stays concluded. -/
theorem concluded_step (s : St) (e : Ev) (hc : s.phase.concluded = true) :
    (step .repaired s e).phase.concluded = true := by
  have hnc : s.phase ≠ .connecting := fun h => by simp [h, Phase.concluded] at hc
  have hna : s.phase ≠ .authenticating := fun h => by simp [h, Phase.concluded] at hc
  have hnh : s.phase ≠ .helloSent := fun h => by simp [h, Phase.concluded] at hc
  cases e with
  | close =>
    simp only [step]
    split
    · cases hbn : s.busName with
      | false => rw [connectionLost_early s hbn]; simp [Phase.concluded]
      | true => rw [connectionLost_ready_eq s hbn]; simp [(lost3_basic s).1, Phase.concluded]
    · exact hc
  | reply serial ok =>
    simp only [step]
    split
    · split
      · exact hc
      · simp_all
    · exact hc
  | expire serial =>
    simp only [step]
    split
    · split <;> simp_all [St.emit]
    · exact hc
  | proxyNotify p r =>
    simp only [step]
    split
    · split
      · split <;> simp_all
      · exact hc
    · exact hc
  | authProgress => exact hc
  | cancelCall serial =>
    simp only [step]
    split
    · split
      · split <;> simp_all
      · exact hc
    · exact hc
  | _ => simp only [step] <;> split <;> simp_all [issueCall, makeProxy, makeProxyCbs, Phase.concluded]

theorem concluded_run (h : List Ev) : ∀ s : St, s.phase.concluded = true → (run .repaired s h).phase.concluded = true := by
  induction h with
  | nil => intro s hs; exact hs
  | cons e t ih => intro s hs; exact ih _ (concluded_step s e hs)

/-- A concluding event concludes. -/
theorem concludes_step (s : St) (e : Ev) (hi : Inv1 s) (hc : concludes s e = true) :
    (step .repaired s e).phase.concluded = true := by
  cases e with
  | helloReply named =>
    have hp : s.phase = .helloSent := by simpa [concludes] using hc
    have hh := hi.hello hp
    simp only [step, hp, if_true, repaired_helloNeedsName]
    cases hcall : helloCall s.pending with
    | none => simp [hcall] at hh
    | some c => cases named <;> simp [fire, Phase.concluded]
  | helloError =>
    have hp : s.phase = .helloSent := by simpa [concludes] using hc
    have hh := hi.hello hp
    simp only [step, hp, if_true]
    cases hcall : helloCall s.pending with
    | none => simp [hcall] at hh
    | some c => simp [fire, Phase.concluded]
  | close =>
    have ho : s.transportOpen = true := by simpa [concludes] using hc
    simp only [step, ho, if_true]
    cases hbn : s.busName with
    | false => rw [connectionLost_early s hbn]; simp [Phase.concluded]
    | true => rw [connectionLost_ready_eq s hbn]; simp [(lost3_basic s).1, Phase.concluded]
  | authFailed =>
    have hp : s.phase = .authenticating := by simpa [concludes] using hc
    have hb : s.busName = false := by
      cases hbn : s.busName with
      | false => rfl
      | true => have := hi.bus.mp hbn; simp_all
    simp only [step, hp, if_true]
    rw [connectionLost_early s hb]; simp [Phase.concluded]
  | attemptFails why =>
    have hp : s.phase = .connecting ∧ s.remaining = [] := by simpa [concludes] using hc
    simp [step, hp.1, tryNext, hp.2, fire, Phase.concluded]
  | _ => simp [concludes] at hc

/-- The event that concludes an unconcluded attempt fires the Deferred with the result that belongs to it. -/
theorem conclude_fired (s : St) (e : Ev) (hi : Inv1 s) (hc : concludes s e = true) (hn : s.phase.concluded = false) :
    (step .repaired s e).fired = [resultOf e] := by
  have hf := hi.notYet hn
  cases e with
  | helloReply named =>
    have hp : s.phase = .helloSent := by simpa [concludes] using hc
    have hh := hi.hello hp
    simp only [step, hp, if_true, repaired_helloNeedsName]
    cases hcall : helloCall s.pending with
    | none => simp [hcall] at hh
    | some c => cases named <;> simp [fire, hf, resultOf]
  | helloError =>
    have hp : s.phase = .helloSent := by simpa [concludes] using hc
    have hh := hi.hello hp
    simp only [step, hp, if_true]
    cases hcall : helloCall s.pending with
    | none => simp [hcall] at hh
    | some c => simp [fire, hf, resultOf]
  | close =>
    have ho : s.transportOpen = true := by simpa [concludes] using hc
    have hb : s.busName = false := by
      cases hbn : s.busName with
      | false => rfl
      | true =>
        rcases hi.bus.mp hbn with h | h <;> simp [h, Phase.concluded] at hn
    simp only [step, ho, if_true]
    rw [connectionLost_early s hb]; simp [hf, fire, resultOf]
  | authFailed =>
    have hp : s.phase = .authenticating := by simpa [concludes] using hc
    have hb : s.busName = false := by
      cases hbn : s.busName with
      | false => rfl
      | true => have := hi.bus.mp hbn; simp_all
    simp only [step, hp, if_true]
    rw [connectionLost_early s hb]; simp [hf, fire, resultOf]
  | attemptFails why =>
    have hp : s.phase = .connecting ∧ s.remaining = [] := by simpa [concludes] using hc
    simp [step, hp.1, tryNext, hp.2, fire, hf, resultOf]
  | _ => simp [concludes] at hc

/-- Once the attempt is over the cell never changes again. -/
theorem fired_stable_step (s : St) (e : Ev) (hi : Inv1 s) (hc : s.phase.concluded = true) :
    (step .repaired s e).fired = s.fired := by
  have hnc : s.phase ≠ .connecting := fun h => by simp [h, Phase.concluded] at hc
  have hna : s.phase ≠ .authenticating := fun h => by simp [h, Phase.concluded] at hc
  have hnh : s.phase ≠ .helloSent := fun h => by simp [h, Phase.concluded] at hc
  cases e with
  | close =>
    simp only [step]
    split
    · cases hbn : s.busName with
      | false =>
        have hl := hi.done hc
        have hne : s.fired.isEmpty = false := by
          cases hf : s.fired with
          | nil => simp [hf] at hl
          | cons a t => rfl
        rw [connectionLost_early s hbn]; simp [hne]
      | true => rw [connectionLost_ready_eq s hbn]; exact (lost3_basic s).2.1
    · rfl
  | reply serial ok =>
    simp only [step]
    split
    · split <;> simp
    · rfl
  | expire serial =>
    simp only [step]
    split
    · split <;> simp [St.emit]
    · rfl
  | proxyNotify p r =>
    simp only [step]
    split
    · split
      · split <;> simp
      · rfl
    · rfl
  | authProgress => rfl
  | cancelCall serial =>
    simp only [step]
    split
    · split
      · split <;> simp
      · rfl
    · rfl
  | _ => simp only [step] <;> split <;> simp_all [issueCall, makeProxy, makeProxyCbs]

theorem fired_stable_run (h : List Ev) : ∀ s : St, Inv1 s → s.phase.concluded = true →
    (run .repaired s h).fired = s.fired := by
  induction h with
  | nil => intro s _ _; rfl
  | cons e t ih =>
    intro s hi hc
    simp only [run]
    rw [ih _ (inv1_step s e hi) (concluded_step s e hc), fired_stable_step s e hi hc]

end Txdbus.Client.Lifecycle
