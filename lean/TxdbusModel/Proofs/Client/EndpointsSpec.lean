import TxdbusModel.Proofs.Client.Endpoints
/-
C09 - the parser against the spec-level rendering: a well-formed address list parses to exactly its
entries, in listed order.
-/
namespace Txdbus.Client.Endpoints
open Txdbus.Gen

/-! ## Digits -/

theorem digit_facts : ∀ d : Fin 10,
    ('0' ≤ digitChar d ∧ digitChar d ≤ '9') ∧ (digitChar d).toNat - '0'.toNat = d.val ∧
    digitChar d ≠ '-' ∧ digitChar d ≠ '+' ∧ digitChar d ≠ '_' ∧ isAsciiSpace (digitChar d) = false ∧
    (digitChar d).toNat < 256 ∧ digitChar d ≠ ';' ∧ digitChar d ≠ ',' ∧ digitChar d ≠ '=' := by decide

theorem digitsVal_digits : ∀ (ds : List (Fin 10)) (prev : Bool) (acc : Nat), ds ≠ [] ∨ prev = true →
    digitsVal (ds.map digitChar) prev acc = some (ds.foldl (fun a d => a * 10 + d.val) acc)
  | [], prev, acc, h => by
    rcases h with h | h
    · exact absurd rfl h
    · simp [digitsVal, h]
  | d :: t, prev, acc, _ => by
    obtain ⟨h1, h2, _⟩ := digit_facts d
    simp only [List.map_cons, digitsVal, h1, and_self, if_true, h2, List.foldl_cons]
    exact digitsVal_digits t true _ (Or.inr rfl)

theorem dropWhile_none {p : Char → Bool} : ∀ {l : List Char}, (∀ c ∈ l, p c = false) → l.dropWhile p = l
  | [], _ => rfl
  | c :: t, h => by simp [List.dropWhile, h c List.mem_cons_self]

theorem pyInt_digits (ds : List (Fin 10)) (hne : ds ≠ []) : pyInt (ds.map digitChar) = .ok (Int.ofNat (portVal ds)) := by
  have hsp : ∀ c ∈ ds.map digitChar, isAsciiSpace c = false := by
    intro c hc
    obtain ⟨d, _, rfl⟩ := List.mem_map.mp hc
    exact (digit_facts d).2.2.2.2.2.1
  have hsp' : ∀ c ∈ (ds.map digitChar).reverse, isAsciiSpace c = false := fun c hc => hsp c (List.mem_reverse.mp hc)
  have hstrip : stripSpace (ds.map digitChar) = ds.map digitChar := by
    unfold stripSpace
    rw [dropWhile_none hsp, dropWhile_none hsp', List.reverse_reverse]
  have hsmall : (ds.map digitChar).any (fun c => decide (c.toNat ≥ 256)) = false := by
    rw [List.any_eq_false]
    intro c hc
    obtain ⟨d, _, rfl⟩ := List.mem_map.mp hc
    have := (digit_facts d).2.2.2.2.2.2.1
    simp; omega
  cases ds with
  | nil => exact absurd rfl hne
  | cons d t =>
    obtain ⟨_, _, hm, hp, _⟩ := digit_facts d
    have hv := digitsVal_digits (d :: t) false 0 (Or.inl (by simp))
    have hsign : signSplit ((d :: t).map digitChar) = (false, (d :: t).map digitChar) := by
      simp only [List.map_cons]
      unfold signSplit
      split
      · rename_i heq; exact absurd (List.cons.inj heq).1 hm
      · rename_i heq; exact absurd (List.cons.inj heq).1 hp
      · rfl
    unfold pyInt
    simp only [hsmall, Bool.false_eq_true, if_false, hstrip, hsign, hv]
    simp [portVal]

/-! ## The `startswith` chain on rendered components -/

theorem isPrefixOf_append_self (pre rest : Str) : pre.isPrefixOf (pre ++ rest) = true := by
  induction pre with
  | nil => simp [List.isPrefixOf]
  | cons c t ih => simp [ih]

theorem match_unix (r : Str) :
    matchPrefix (['u','n','i','x',':'] ++ r) C09Endpoints.prefixTable = some (['u','n','i','x'], 5, none) := by
  simp [matchPrefix, C09Endpoints.prefixTable, List.isPrefixOf]

theorem match_tcp (r : Str) :
    matchPrefix (['t','c','p',':'] ++ r) C09Endpoints.prefixTable = some (['t','c','p'], 4, none) := by
  simp [matchPrefix, C09Endpoints.prefixTable, List.isPrefixOf]

theorem match_nonce (r : Str) :
    matchPrefix (['n','o','n','c','e','-','t','c','p',':'] ++ r) C09Endpoints.prefixTable =
      some (['t','c','p'], 10, some kNonceTcp) := by
  simp [matchPrefix, C09Endpoints.prefixTable, List.isPrefixOf, kNonceTcp]

theorem match_port (r : Str) : matchPrefix (kPort ++ r) C09Endpoints.prefixTable = none := by
  simp [matchPrefix, C09Endpoints.prefixTable, List.isPrefixOf, kPort]

theorem match_noncefile (r : Str) : matchPrefix (kNoncefile ++ r) C09Endpoints.prefixTable = none := by
  simp [matchPrefix, C09Endpoints.prefixTable, List.isPrefixOf, kNoncefile]

/-- `k, v = c.split('=')` on `key=value` with a plain key and value. -/
theorem split_kv (k v : Str) (hk : '=' ∉ k) (hv : '=' ∉ v) : splitOn '=' (k ++ '=' :: v) = [k, v] := by
  rw [splitOn_append_sep '=' v k hk, splitOn_no_sep '=' v hv]

theorem contains_kv (k v : Str) : (k ++ '=' :: v).contains '=' = true := by
  simp

/-! ## One component -/

theorem component_prefixed (pre knd : Str) (n : Nat) (flag : Option Str) (k v : Str) (kind : Kind) (d : Dict)
    (hm : matchPrefix (pre ++ (k ++ '=' :: v)) C09Endpoints.prefixTable = some (knd, n, flag))
    (hn : pre.length = n) (hk : '=' ∉ k) (hv : '=' ∉ v) :
    component (pre ++ (k ++ '=' :: v)) kind d =
      .ok (some knd, dictSet k (.str v) (match flag with | some key => dictSet key Val.true d | none => d)) := by
  have hsep : C09Endpoints.keyValueSep = '=' := by decide
  have hdrop : (pre ++ (k ++ '=' :: v)).drop n = k ++ '=' :: v := by rw [← hn]; exact List.drop_left
  unfold component
  simp only [hm, hdrop, hsep, contains_kv, if_true, split_kv k v hk hv]
  cases flag <;> rfl

theorem component_plain (k v : Str) (kind : Kind) (d : Dict)
    (hm : matchPrefix (k ++ '=' :: v) C09Endpoints.prefixTable = none) (hk : '=' ∉ k) (hv : '=' ∉ v) :
    component (k ++ '=' :: v) kind d = .ok (kind, dictSet k (.str v) d) := by
  have hsep : C09Endpoints.keyValueSep = '=' := by decide
  unfold component
  simp only [hm, hsep, contains_kv, if_true, split_kv k v hk hv]

/-! ## One entry -/

theorem digits_plain (ds : List (Fin 10)) : plain (ds.map digitChar) := by
  refine ⟨?_, ?_, ?_⟩ <;> intro h <;> obtain ⟨d, _, hd⟩ := List.mem_map.mp h
  · exact (digit_facts d).2.2.2.2.2.2.2.1 hd
  · exact (digit_facts d).2.2.2.2.2.2.2.2.1 hd
  · exact (digit_facts d).2.2.2.2.2.2.2.2.2 hd

/-- The body of the outer loop on the rendering of a well-formed entry. -/
def parseEntry (pid : Str) (e : Str) (path : Option Str) : Except Err (Option Endpoint × Option Str) := do
  let (kind, d) ← components (splitOn C09Endpoints.componentSep e) none []
  buildEndpoint pid kind d path

theorem entries_cons (pid : Str) (e : Str) (es : List Str) (path : Option Str) :
    entries pid (e :: es) path = (do
      let (ep, path) ← parseEntry pid e path
      let rest ← entries pid es path
      match ep with
      | some ep => pure (ep :: rest)
      | none => pure rest) := by
  simp only [entries, parseEntry, bind_assoc]
  rfl

theorem parse_unixPath (pid : Str) (p : Str) (hp : plain p) (path : Option Str) :
    parseEntry pid (SpecEntry.unixPath p).render path = .ok (some (SpecEntry.unixPath p).endpoint, some p) := by
  have hsep : C09Endpoints.componentSep = ',' := by decide
  have hc : ',' ∉ (SpecEntry.unixPath p).render := by simp [SpecEntry.render, kPath, hp.2.1]
  have hcomp := component_prefixed ['u','n','i','x',':'] ['u','n','i','x'] 5 none kPath p none []
    (match_unix _) rfl (by simp [kPath]) hp.2.2
  simp only [parseEntry, hsep, splitOn_no_sep ',' _ hc, components]
  simp only [SpecEntry.render] at hcomp ⊢
  rw [hcomp]
  simp [buildEndpoint, C09Endpoints.unixKind, C09Endpoints.unixPathRules, unixPath, dictGet, dictSet, kPath, valStr,
    pathOf, SpecEntry.endpoint, bind, Except.bind, pure, Except.pure]

theorem parse_unixAbstract (pid : Str) (a : Str) (ha : plain a) (path : Option Str) :
    parseEntry pid (SpecEntry.unixAbstract a).render path =
      .ok (some (SpecEntry.unixAbstract a).endpoint, some (Char.ofNat 0 :: a)) := by
  have hsep : C09Endpoints.componentSep = ',' := by decide
  have hc : ',' ∉ (SpecEntry.unixAbstract a).render := by simp [SpecEntry.render, kAbstract, ha.2.1]
  have hcomp := component_prefixed ['u','n','i','x',':'] ['u','n','i','x'] 5 none kAbstract a none []
    (match_unix _) rfl (by simp [kAbstract]) ha.2.2
  simp only [parseEntry, hsep, splitOn_no_sep ',' _ hc, components]
  simp only [SpecEntry.render] at hcomp ⊢
  rw [hcomp]
  simp [buildEndpoint, C09Endpoints.unixKind, C09Endpoints.unixPathRules, unixPath, dictGet, dictSet, kAbstract, valStr,
    pathOf, SpecEntry.endpoint, bind, Except.bind, pure, Except.pure]

theorem parse_tcp (pid : Str) (h : Str) (ds : List (Fin 10)) (hh : plain h) (hne : ds ≠ []) (path : Option Str) :
    parseEntry pid (SpecEntry.tcp h ds).render path = .ok (some (SpecEntry.tcp h ds).endpoint, path) := by
  have hsep : C09Endpoints.componentSep = ',' := by decide
  have hd := digits_plain ds
  have hA : ',' ∉ ['t','c','p',':'] ++ (kHost ++ '=' :: h) := by simp [kHost, hh.2.1]
  have hB : ',' ∉ kPort ++ '=' :: ds.map digitChar := by
    simp only [List.mem_append, List.mem_cons, not_or]
    exact ⟨by simp [kPort], by decide, hd.2.1⟩
  have hsplit : splitOn ',' (SpecEntry.tcp h ds).render =
      [['t','c','p',':'] ++ (kHost ++ '=' :: h), kPort ++ '=' :: ds.map digitChar] := by
    show splitOn ',' (['t','c','p',':'] ++ (kHost ++ '=' :: h) ++ ',' :: (kPort ++ '=' :: ds.map digitChar)) = _
    rw [splitOn_append_sep ',' _ _ hA, splitOn_no_sep ',' _ hB]
  have c1 := component_prefixed ['t','c','p',':'] ['t','c','p'] 4 none kHost h none []
    (match_tcp _) rfl (by simp [kHost]) hh.2.2
  have c2 := component_plain kPort (ds.map digitChar) (some ['t','c','p']) (dictSet kHost (.str h) [])
    (match_port _) (by simp [kPort]) hd.2.2
  simp only [parseEntry, hsep, hsplit, components, c1, c2, bind, Except.bind]
  simp [buildEndpoint, C09Endpoints.unixKind, C09Endpoints.tcpKind, C09Endpoints.tcpHostKey, C09Endpoints.tcpPortKey,
    dictGet, dictSet, kHost, kPort, valStr, pyInt_digits ds hne, SpecEntry.endpoint, bind, Except.bind]

theorem parse_nonceTcp (pid : Str) (h : Str) (ds : List (Fin 10)) (f : Str) (hh : plain h) (hne : ds ≠ []) (hf : plain f)
    (path : Option Str) :
    parseEntry pid (SpecEntry.nonceTcp h ds f).render path = .ok (some (SpecEntry.nonceTcp h ds f).endpoint, path) := by
  have hsep : C09Endpoints.componentSep = ',' := by decide
  have hd := digits_plain ds
  have hA : ',' ∉ ['n','o','n','c','e','-','t','c','p',':'] ++ (kHost ++ '=' :: h) := by simp [kHost, hh.2.1]
  have hB : ',' ∉ kPort ++ '=' :: ds.map digitChar := by
    simp only [List.mem_append, List.mem_cons, not_or]
    exact ⟨by simp [kPort], by decide, hd.2.1⟩
  have hC : ',' ∉ kNoncefile ++ '=' :: f := by
    simp only [List.mem_append, List.mem_cons, not_or]
    exact ⟨by simp [kNoncefile], by decide, hf.2.1⟩
  have hsplit : splitOn ',' (SpecEntry.nonceTcp h ds f).render =
      [['n','o','n','c','e','-','t','c','p',':'] ++ (kHost ++ '=' :: h), kPort ++ '=' :: ds.map digitChar,
       kNoncefile ++ '=' :: f] := by
    show splitOn ',' (['n','o','n','c','e','-','t','c','p',':'] ++ (kHost ++ '=' :: h) ++
      ',' :: (kPort ++ '=' :: ds.map digitChar) ++ ',' :: (kNoncefile ++ '=' :: f)) = _
    have e : ∀ X P C : Str, (X ++ ',' :: P) ++ ',' :: C = X ++ ',' :: (P ++ ',' :: C) := by
      intro X P C; rw [List.append_assoc]; rfl
    rw [e, splitOn_append_sep ',' _ _ hA, splitOn_append_sep ',' _ _ hB, splitOn_no_sep ',' _ hC]
  have c1 := component_prefixed ['n','o','n','c','e','-','t','c','p',':'] ['t','c','p'] 10 (some kNonceTcp) kHost h none []
    (match_nonce _) rfl (by simp [kHost]) hh.2.2
  have c2 := component_plain kPort (ds.map digitChar) (some ['t','c','p'])
    (dictSet kHost (.str h) (dictSet kNonceTcp Val.true [])) (match_port _) (by simp [kPort]) hd.2.2
  have c3 := component_plain kNoncefile f (some ['t','c','p'])
    (dictSet kPort (.str (ds.map digitChar)) (dictSet kHost (.str h) (dictSet kNonceTcp Val.true [])))
    (match_noncefile _) (by simp [kNoncefile]) hf.2.2
  simp only [parseEntry, hsep, hsplit, components, c1, c2, c3, bind, Except.bind]
  simp [buildEndpoint, C09Endpoints.unixKind, C09Endpoints.tcpKind, C09Endpoints.tcpHostKey, C09Endpoints.tcpPortKey,
    dictGet, dictSet, kHost, kPort, kNoncefile, kNonceTcp, valStr, pyInt_digits ds hne, SpecEntry.endpoint, bind,
    Except.bind]

/-! ## The whole list -/

theorem parse_entry (pid : Str) (e : SpecEntry) (h : e.WF) (path : Option Str) :
    ∃ path', parseEntry pid e.render path = .ok (some e.endpoint, path') := by
  cases e with
  | unixPath p => exact ⟨_, parse_unixPath pid p h path⟩
  | unixAbstract a => exact ⟨_, parse_unixAbstract pid a h path⟩
  | tcp hst ds => exact ⟨_, parse_tcp pid hst ds h.1 h.2 path⟩
  | nonceTcp hst ds f => exact ⟨_, parse_nonceTcp pid hst ds f h.1 h.2.1 h.2.2 path⟩

theorem entries_render (pid : Str) : ∀ (es : List SpecEntry), (∀ e ∈ es, e.WF) → ∀ path : Option Str,
    entries pid (es.map SpecEntry.render) path = .ok (es.map SpecEntry.endpoint)
  | [], _, _ => rfl
  | e :: t, h, path => by
    obtain ⟨path', hp⟩ := parse_entry pid e (h e List.mem_cons_self) path
    rw [List.map_cons, entries_cons, hp]
    simp only [bind, Except.bind]
    rw [entries_render pid t (fun x hx => h x (List.mem_cons_of_mem _ hx)) path']
    rfl

theorem renderList_eq_join : ∀ es : List SpecEntry, renderList es = joinWith ';' (es.map SpecEntry.render)
  | [] => rfl
  | [_] => rfl
  | e :: e' :: t => by
    simp only [renderList, List.map_cons, joinWith]
    rw [renderList_eq_join (e' :: t)]
    rfl

theorem render_no_semicolon (e : SpecEntry) (h : e.WF) : ';' ∉ e.render := by
  cases e with
  | unixPath p => simp [SpecEntry.render, kPath, h.1]
  | unixAbstract a => simp [SpecEntry.render, kAbstract, h.1]
  | tcp hst ds =>
    have := (digits_plain ds).1
    simp [SpecEntry.render, kHost, kPort, h.1.1, this]
  | nonceTcp hst ds f =>
    have := (digits_plain ds).1
    simp [SpecEntry.render, kHost, kPort, kNoncefile, h.1.1, h.2.2.1, this]

/-- A rendered entry starts with its transport name: never with 's' (the words `session` / `system`). -/
theorem render_head (e : SpecEntry) : ∃ c t, e.render = c :: t ∧ c ≠ 's' := by
  cases e <;> simp [SpecEntry.render]

theorem renderList_head : ∀ es : List SpecEntry, es ≠ [] → ∃ c t, renderList es = c :: t ∧ c ≠ 's'
  | [], h => absurd rfl h
  | [e], _ => render_head e
  | e :: e' :: t, _ => by
    obtain ⟨c, r, hr, hc⟩ := render_head e
    exact ⟨c, r ++ ';' :: renderList (e' :: t), by simp [renderList, hr], hc⟩

/-- The parser on the rendering of a well-formed address list: exactly the endpoints of its entries, in
listed order. -/
theorem parse_renderList (env : Env) (es : List SpecEntry) (hwf : ∀ e ∈ es, e.WF) :
    getDBusEndpoints env (renderList es) = .ok (es.map SpecEntry.endpoint) := by
  cases hes : es with
  | nil => simp [renderList, getDBusEndpoints, C09Endpoints.sessionWord, C09Endpoints.systemWord, splitOn, entries,
      components, component, matchPrefix, C09Endpoints.prefixTable, buildEndpoint, bind, Except.bind, pure, Except.pure,
      List.isPrefixOf]
  | cons e0 t0 =>
    rw [← hes]
    have hne : es ≠ [] := by rw [hes]; simp
    obtain ⟨c, r, hr, hc⟩ := renderList_head es hne
    have hs : renderList es ≠ C09Endpoints.sessionWord := by rw [hr]; simp [C09Endpoints.sessionWord, hc]
    have hy : renderList es ≠ C09Endpoints.systemWord := by rw [hr]; simp [C09Endpoints.systemWord, hc]
    have hsep : C09Endpoints.entrySep = ';' := by decide
    simp only [getDBusEndpoints, hs, hy, if_false, hsep]
    show entries env.pid (splitOn ';' (renderList es)) none = _
    rw [renderList_eq_join, splitOn_joinWith ';' _ (by simpa using hne)
      (fun p hp => by
        obtain ⟨e, he, rfl⟩ := List.mem_map.mp hp
        exact render_no_semicolon e (hwf e he))]
    exact entries_render env.pid es hwf none

end Txdbus.Client.Endpoints
