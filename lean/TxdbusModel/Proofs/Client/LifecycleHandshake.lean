import TxdbusModel.Client.ConnectAuth
import TxdbusModel.Proofs.Client.LifecycleInv
import TxdbusModel.Proofs.Client.LifecycleWalk
import TxdbusModel.Proofs.Auth.ClientSafety
import TxdbusModel.Proofs.Auth.ClientTraces
import TxdbusModel.Proofs.Auth.ClientFraming
import TxdbusModel.Auth.ClientHandshake
/-
C09 x C07 - proofs about the composed model of one connection attempt (`Client/ConnectAuth.lean`):

  * `Inv`: in every state reached by any steps, the lifecycle component IS the run of C09's model over the
    generated events, the handshake component IS the run of C07's model over the delivered reads, and the
    generated events are exactly `expectedEvs` (read off the final components);
  * `fired_of_expected`: what the connect Deferred has fired with, for each of the finitely many event shapes.
-/
namespace Txdbus.Client.ConnectAuth

open Txdbus.AuthClient (Bytes Proto Env clientRun dataReceived connectionMade)
open Txdbus.Client.Lifecycle (Inv1 Phase ConnectResult)

/-! ## the composed run -/

theorem run_append (cfg : Cfg) (a b : List Step) : ∀ s : St, run cfg s (a ++ b) = run cfg (run cfg s a) b := by
  induction a with
  | nil => intro s; rfl
  | cons x t ih => intro s; simp [run, ih]

theorem clientRun_snoc (pref : List Bytes) (unix : Bool) (envAt : Nat → Env) (ds : List Bytes) (d : Bytes) :
    clientRun pref unix envAt (ds ++ [d]) = dataReceived envAt (clientRun pref unix envAt ds) d := by
  simp [clientRun, List.foldl_append]

theorem dataReceived_authenticated (envAt : Nat → Env) (p : Proto) (d : Bytes) (h : p.authenticated = true) :
    (dataReceived envAt p d).authenticated = true ∧ (dataReceived envAt p d).disconnecting = p.disconnecting := by
  simp [dataReceived, h]

structure Inv (cfg : Cfg) (life0 : Lifecycle.St) (s : St) : Prop where
  lifeEq : s.life = Lifecycle.run cfg.v life0 s.evs
  evsEq : s.evs = expectedEvs s
  helloAuth : s.hello.isSome = true → s.proto.authenticated = true
  garbLost : s.hello = some .garbage → s.lost = true
  protoEq : s.proto = clientRun cfg.pref cfg.unix cfg.envAt s.delivered

theorem inv_init (cfg : Cfg) (life0 : Lifecycle.St) : Inv cfg life0 (init cfg life0) := by
  refine ⟨rfl, ?_, by simp [init], by simp [init], rfl⟩
  have : (connectionMade cfg.pref cfg.unix (cfg.envAt 0)).authenticated = false := by
    unfold connectionMade
    dsimp only
    split <;> simp [Proto.close]
  simp [init, expectedEvs, this]

theorem lifeEq_feed {cfg : Cfg} {life0 : Lifecycle.St} {s : St} (e : Lifecycle.Ev)
    (h : s.life = Lifecycle.run cfg.v life0 s.evs) :
    (feed cfg e s).life = Lifecycle.run cfg.v life0 (feed cfg e s).evs := by
  simp only [feed]
  rw [Lifecycle.run_append, ← h]
  rfl

/-- The Hello outcome after binary mode ran on the current binary stream. -/
def helloNow (cfg : Cfg) (s : St) : Option HelloOutcome :=
  match s.hello with
  | some o => some o
  | none => cfg.decode s.proto.binary

/-- Binary mode raises on the current binary stream. -/
def raisesNow (cfg : Cfg) (s : St) : Bool :=
  helloNow cfg s == some .garbage || ((helloNow cfg s).isSome && cfg.crash s.proto.binary)

/-- What `arrive` does, in one equation per component. -/
theorem arrive_spec (cfg : Cfg) (s : St) :
    (arrive cfg s).hello = helloNow cfg s ∧
    (arrive cfg s).proto = s.proto ∧ (arrive cfg s).delivered = s.delivered ∧
    (arrive cfg s).raised = (s.raised || raisesNow cfg s) ∧
    (arrive cfg s).lost = (s.lost || raisesNow cfg s) := by
  unfold arrive answer raisesNow helloNow
  cases hh : s.hello with
  | some o =>
    cases o <;> cases hc : cfg.crash s.proto.binary <;> simp [hh, hc, feed]
  | none =>
    cases hd : cfg.decode s.proto.binary with
    | none => simp [hh]
    | some o => cases o <;> cases hc : cfg.crash s.proto.binary <;> simp [hc, feed]

theorem answer_facts {cfg : Cfg} {life0 : Lifecycle.St} {s : St} (h : Inv cfg life0 s)
    (ha : s.proto.authenticated = true) (hl : s.lost = false) :
    (answer cfg s).life = Lifecycle.run cfg.v life0 (answer cfg s).evs ∧ (answer cfg s).proto = s.proto ∧
    (answer cfg s).delivered = s.delivered ∧ (answer cfg s).lost = false ∧
    (answer cfg s).evs = Lifecycle.Ev.authOk :: (match (answer cfg s).hello with | some o => [helloEv o] | none => []) := by
  unfold answer
  cases hh : s.hello with
  | some o =>
    refine ⟨h.lifeEq, rfl, rfl, hl, ?_⟩
    simp only [hh]
    rw [h.evsEq]; simp [expectedEvs, ha, hh, hl]
  | none =>
    cases hd : cfg.decode s.proto.binary with
    | none =>
      refine ⟨h.lifeEq, rfl, rfl, hl, ?_⟩
      simp only [hh]
      rw [h.evsEq]; simp [expectedEvs, ha, hh, hl]
    | some o =>
      refine ⟨lifeEq_feed (s := { s with hello := some o }) (helloEv o) h.lifeEq, rfl, rfl, hl, ?_⟩
      simp [feed, h.evsEq, expectedEvs, ha, hh, hl]

/-- `arrive` on a state in binary mode whose events are as expected. -/
theorem inv_arrive {cfg : Cfg} {life0 : Lifecycle.St} {s : St} (h : Inv cfg life0 s)
    (ha : s.proto.authenticated = true) (hl : s.lost = false) : Inv cfg life0 (arrive cfg s) := by
  obtain ⟨a1, a2, a3, a4, a5⟩ := answer_facts h ha hl
  unfold arrive
  generalize answer cfg s = a at *
  have haa : a.proto.authenticated = true := by rw [a2]; exact ha
  have hpe : a.proto = clientRun cfg.pref cfg.unix cfg.envAt a.delivered := by rw [a2, a3]; exact h.protoEq
  dsimp only
  split
  · rename_i hg
    refine ⟨a1, ?_, fun _ => haa, fun _ => rfl, hpe⟩
    show a.evs = _
    rw [a5, hg]; simp [expectedEvs, haa]
  · rename_i hg
    split
    · rename_i hc
      have hs : a.hello.isSome = true := by
        cases hx : a.hello.isSome with
        | true => rfl
        | false => simp [hx] at hc
      obtain ⟨o, ho⟩ := Option.isSome_iff_exists.mp hs
      refine ⟨lifeEq_feed (s := a) Lifecycle.Ev.close a1, ?_, fun _ => haa, fun _ => rfl, hpe⟩
      show a.evs ++ [Lifecycle.Ev.close] = _
      rw [a5]
      have : (some o : Option HelloOutcome) ≠ some .garbage := by rw [← ho]; exact hg
      simp [expectedEvs, feed, haa, ho, this]
    · refine ⟨a1, ?_, fun _ => haa, fun hh => absurd hh hg, hpe⟩
      rw [a5]
      cases ho : a.hello with
      | none => simp [expectedEvs, haa, ho, a4]
      | some o => simp [expectedEvs, haa, ho, a4]

theorem inv_step {cfg : Cfg} {life0 : Lifecycle.St} {s : St} (h : Inv cfg life0 s) (st : Step) :
    Inv cfg life0 (step cfg s st) := by
  cases st with
  | read data =>
    simp only [step]
    split
    · exact h
    · rename_i hr
      have hr' : s.lost = false ∧ s.proto.disconnecting = false := by simpa [receiving] using hr
      obtain ⟨hl, hd⟩ := hr'
      have hproto : dataReceived cfg.envAt s.proto data = clientRun cfg.pref cfg.unix cfg.envAt (s.delivered ++ [data]) := by
        rw [clientRun_snoc, ← h.protoEq]
      split
      · -- binary mode
        rename_i ha
        obtain ⟨ha', hd'⟩ := dataReceived_authenticated cfg.envAt s.proto data ha
        have base : Inv cfg life0
            { s with proto := dataReceived cfg.envAt s.proto data, delivered := s.delivered ++ [data] } := by
          refine ⟨h.lifeEq, ?_, fun _ => ha', h.garbLost, hproto⟩
          show s.evs = _
          rw [h.evsEq]
          simp [expectedEvs, ha, ha', hd', hd]
        exact inv_arrive base ha' hl
      · rename_i hna
        have hna' : s.proto.authenticated = false := by simpa using hna
        have hhn : s.hello = none := by
          cases hh : s.hello with
          | none => rfl
          | some o => have := h.helloAuth (by simp [hh]); simp [hna'] at this
        have hevs : s.evs = [] := by
          rw [h.evsEq]; simp [expectedEvs, hna', hhn, hl]
        split
        · -- the handshake completes in this read
          rename_i hpa
          have base : Inv cfg life0 (feed cfg .authOk
              { s with proto := dataReceived cfg.envAt s.proto data, delivered := s.delivered ++ [data] }) := by
            refine ⟨lifeEq_feed _ h.lifeEq, ?_, fun _ => hpa, ?_, hproto⟩
            · simp [feed, hevs, expectedEvs, hpa, hhn, hl]
            · intro hh; simp [feed, hhn] at hh
          split
          · exact base
          · exact inv_arrive base hpa hl
        · rename_i hpna
          have hpna' : (dataReceived cfg.envAt s.proto data).authenticated = false := by simpa using hpna
          refine ⟨h.lifeEq, ?_, ?_, ?_, hproto⟩
          · show s.evs = _
            simp [hevs, expectedEvs, hpna', hhn, hl]
          · intro hh; simp [hhn] at hh
          · intro hh; simp [hhn] at hh
  | lost =>
    simp only [step]
    split
    · exact h
    · rename_i hl
      have hl' : s.lost = false := by simpa using hl
      refine ⟨lifeEq_feed _ h.lifeEq, ?_, h.helloAuth, fun _ => rfl, h.protoEq⟩
      have hng : s.hello ≠ some .garbage := fun hg => by have := h.garbLost hg; simp [hl'] at this
      show s.evs ++ [_] = _
      rw [h.evsEq]
      simp [expectedEvs, feed, hl', hng]

theorem inv_run {cfg : Cfg} {life0 : Lifecycle.St} (steps : List Step) :
    ∀ {s : St}, Inv cfg life0 s → Inv cfg life0 (run cfg s steps) := by
  induction steps with
  | nil => intro s h; exact h
  | cons st t ih => intro s h; exact ih (inv_step h st)

/-! ## what has fired, shape by shape (model of the repaired code) -/

section Fired
open Lifecycle
variable {life0 : Lifecycle.St}

theorem authOk_phase (hi : Inv1 life0) (hp : life0.phase = .authenticating) :
    Inv1 (Lifecycle.step .repaired life0 .authOk) ∧ (Lifecycle.step .repaired life0 .authOk).phase = .helloSent := by
  refine ⟨inv1_step _ _ hi, ?_⟩
  simp [Lifecycle.step, hp, issueCall]

/-- the transport goes away during the handshake (the peer closed, or the client closed and the reactor followed up) -/
theorem fired_lost_in_auth (hi : Inv1 life0) (hp : life0.phase = .authenticating) (e : Lifecycle.Ev)
    (he : e = .authFailed ∨ e = .close) :
    (Lifecycle.run .repaired life0 [e]).fired = [.lostEarly] := by
  have hn : life0.phase.concluded = false := by simp [hp, Phase.concluded]
  rcases he with rfl | rfl
  · exact conclude_fired life0 .authFailed hi (by simp [concludes, hp]) hn
  · exact conclude_fired life0 .close hi (by simp [concludes, St.transportOpen, hp]) hn

theorem fired_authOk (hi : Inv1 life0) (hp : life0.phase = .authenticating) :
    (Lifecycle.run .repaired life0 [.authOk]).fired = [] := by
  obtain ⟨h1, h2⟩ := authOk_phase hi hp
  exact h1.notYet (by simp [h2, Phase.concluded])

/-- after the handshake: the Hello reply, the Hello error, or the loss of the transport concludes the attempt -/
theorem fired_after_authOk (hi : Inv1 life0) (hp : life0.phase = .authenticating) (e : Lifecycle.Ev)
    (he : (∃ b, e = .helloReply b) ∨ e = .helloError ∨ e = .close) (post : List Lifecycle.Ev) :
    (Lifecycle.run .repaired life0 (.authOk :: e :: post)).fired = [resultOf e] := by
  obtain ⟨h1, h2⟩ := authOk_phase hi hp
  have hn : (Lifecycle.step .repaired life0 .authOk).phase.concluded = false := by simp [h2, Phase.concluded]
  have hc : concludes (Lifecycle.step .repaired life0 .authOk) e = true := by
    rcases he with ⟨b, rfl⟩ | rfl | rfl <;> simp [concludes, St.transportOpen, h2]
  simp only [Lifecycle.run]
  rw [fired_stable_run post _ (inv1_step _ e h1) (concludes_step _ e h1 hc)]
  exact conclude_fired _ e h1 hc hn

end Fired

/-- THE TABLE: in every state of the composed model (repaired code) that satisfies the invariant, the cell of the
connect Deferred holds exactly `firedSpec`. -/
theorem fired_of_inv {cfg : Cfg} {life0 : Lifecycle.St} {s : St} (h : Inv cfg life0 s) (hv : cfg.v = .repaired)
    (hi : Inv1 life0) (hp : life0.phase = .authenticating) : s.life.fired = firedSpec s := by
  rw [h.lifeEq, h.evsEq, hv]
  unfold firedSpec expectedEvs
  cases hh : s.hello with
  | none =>
    cases hl : s.lost with
    | false =>
      cases ha : s.proto.authenticated with
      | false => simpa [Lifecycle.run] using hi.notYet (by simp [hp, Phase.concluded])
      | true => simpa using fired_authOk hi hp
    | true =>
      cases ha : s.proto.authenticated with
      | false =>
        cases hd : s.proto.disconnecting with
        | false => simpa using fired_lost_in_auth hi hp .close (Or.inr rfl)
        | true => simpa using fired_lost_in_auth hi hp .authFailed (Or.inl rfl)
      | true => simpa [Lifecycle.resultOf] using fired_after_authOk hi hp .close (Or.inr (Or.inr rfl)) []
  | some o =>
    have ha : s.proto.authenticated = true := h.helloAuth (by simp [hh])
    cases o with
    | garbage =>
      have hl : s.lost = true := h.garbLost hh
      simpa [ha, hl, helloEv, Lifecycle.resultOf] using fired_after_authOk hi hp .close (Or.inr (Or.inr rfl)) []
    | named =>
      cases hl : s.lost with
      | false => simpa [ha, helloEv, Lifecycle.resultOf] using fired_after_authOk hi hp (.helloReply true) (Or.inl ⟨_, rfl⟩) []
      | true =>
        simpa [ha, helloEv, Lifecycle.resultOf] using
          fired_after_authOk hi hp (.helloReply true) (Or.inl ⟨_, rfl⟩) [.close]
    | unnamed =>
      cases hl : s.lost with
      | false => simpa [ha, helloEv, Lifecycle.resultOf] using fired_after_authOk hi hp (.helloReply false) (Or.inl ⟨_, rfl⟩) []
      | true =>
        simpa [ha, helloEv, Lifecycle.resultOf] using
          fired_after_authOk hi hp (.helloReply false) (Or.inl ⟨_, rfl⟩) [.close]
    | error =>
      cases hl : s.lost with
      | false => simpa [ha, helloEv, Lifecycle.resultOf] using fired_after_authOk hi hp .helloError (Or.inr (Or.inl rfl)) []
      | true =>
        simpa [ha, helloEv, Lifecycle.resultOf] using
          fired_after_authOk hi hp .helloError (Or.inr (Or.inl rfl)) [.close]

/-! ## facts about C07's protocol model used by the composition (flags of `Proto` over any reads) -/

section Flags
open Txdbus.AuthClient (Core)

/-- One step of C07's step system: `disconnecting` and `authenticated` are never reset, and never both set. -/
theorem core_step_flags (c : Core) (st : AuthClient.Step) :
    (c.disconnecting = true → (c.step st).disconnecting = true) ∧
    (c.authenticated = true → (c.step st).authenticated = true) ∧
    (¬ (c.disconnecting = true ∧ c.authenticated = true) →
      ¬ ((c.step st).disconnecting = true ∧ (c.step st).authenticated = true)) := by
  cases st with
  | overflow =>
    simp only [Core.step]
    cases ha : c.authenticated <;> cases hd : c.disconnecting <;> simp [Core.close, ha, hd]
  | line env l =>
    obtain ⟨auth, disc, authd, trace⟩ := c
    cases authd with
    | true => simp [Core.step, Core.line]
    | false =>
      cases disc with
      | true => simp [Core.step, Core.line]
      | false =>
        simp only [Core.step, Core.line, Bool.false_eq_true, if_false]
        split
        · simp [Core.close]
        · split
          · simp [Core.close]
          · split <;> simp

theorem core_run_flags (steps : List AuthClient.Step) : ∀ c : Core,
    (c.disconnecting = true → (c.run steps).disconnecting = true) ∧
    (c.authenticated = true → (c.run steps).authenticated = true) ∧
    (¬ (c.disconnecting = true ∧ c.authenticated = true) →
      ¬ ((c.run steps).disconnecting = true ∧ (c.run steps).authenticated = true)) := by
  induction steps with
  | nil => intro c; exact ⟨id, id, id⟩
  | cons st t ih =>
    intro c
    obtain ⟨a1, a2, a3⟩ := core_step_flags c st
    obtain ⟨b1, b2, b3⟩ := ih (c.step st)
    exact ⟨fun h => b1 (a1 h), fun h => b2 (a2 h), fun h => b3 (a3 h)⟩

/-- The client never both closes and authenticates (any reads). -/
theorem clientRun_exclusive (pref : List Bytes) (unix : Bool) (envAt : Nat → Env) (chunks : List Bytes) :
    ¬ ((clientRun pref unix envAt chunks).disconnecting = true ∧ (clientRun pref unix envAt chunks).authenticated = true) := by
  obtain ⟨steps, hs⟩ := AuthClient.clientRun_core pref unix envAt chunks
  have h0 : ¬ ((connectionMade pref unix (envAt 0)).core.disconnecting = true ∧
      (connectionMade pref unix (envAt 0)).core.authenticated = true) := by
    unfold connectionMade
    dsimp only
    split <;> simp [AuthClient.Proto.core, AuthClient.Proto.close]
  have := (core_run_flags steps _).2.2 h0
  rw [← hs] at this
  exact this

/-- Further reads never reopen a closed connection and never undo the authentication. -/
theorem clientRun_mono (pref : List Bytes) (unix : Bool) (envAt : Nat → Env) (a b : List Bytes) :
    ((clientRun pref unix envAt a).disconnecting = true → (clientRun pref unix envAt (a ++ b)).disconnecting = true) ∧
    ((clientRun pref unix envAt a).authenticated = true → (clientRun pref unix envAt (a ++ b)).authenticated = true) := by
  have e : clientRun pref unix envAt (a ++ b) = b.foldl (dataReceived envAt) (clientRun pref unix envAt a) := by
    simp [clientRun, List.foldl_append]
  obtain ⟨steps, hs⟩ := AuthClient.foldl_dataReceived_core envAt b (clientRun pref unix envAt a)
  obtain ⟨m1, m2, _⟩ := core_run_flags steps (clientRun pref unix envAt a).core
  rw [e]
  constructor
  · intro h
    have := m1 h
    rw [← hs] at this
    exact this
  · intro h
    have := m2 h
    rw [← hs] at this
    exact this

end Flags

/-! ## stability; which reads are delivered -/

theorem step_of_lost {cfg : Cfg} {s : St} (h : s.lost = true) (st : Step) : step cfg s st = s := by
  cases st <;> simp [step, receiving, h]

theorem run_of_lost {cfg : Cfg} (steps : List Step) : ∀ {s : St}, s.lost = true → run cfg s steps = s := by
  induction steps with
  | nil => intro s _; rfl
  | cons st t ih => intro s h; simp only [run]; rw [step_of_lost h]; exact ih h

theorem arrive_hello {cfg : Cfg} {s : St} {o : HelloOutcome} (h : s.hello = some o) : (arrive cfg s).hello = some o := by
  rw [(arrive_spec cfg s).1, helloNow, h]

/-- Once the transport does not deliver reads any more (lost, or the client called loseConnection), it never
does again, and the protocol object does not change. -/
theorem step_not_receiving {cfg : Cfg} {s : St} (h : receiving s = false) (st : Step) :
    receiving (step cfg s st) = false ∧ (step cfg s st).proto = s.proto ∧ (step cfg s st).delivered = s.delivered ∧
    (step cfg s st).hello = s.hello := by
  cases st with
  | read data => simp [step, h]
  | lost =>
    simp only [step]
    split
    · exact ⟨h, rfl, rfl, rfl⟩
    · simp [feed, receiving]

theorem run_not_receiving {cfg : Cfg} (steps : List Step) : ∀ {s : St}, receiving s = false →
    receiving (run cfg s steps) = false ∧ (run cfg s steps).proto = s.proto ∧
    (run cfg s steps).delivered = s.delivered ∧ (run cfg s steps).hello = s.hello := by
  induction steps with
  | nil => intro s h; exact ⟨h, rfl, rfl, rfl⟩
  | cons st t ih =>
    intro s h
    obtain ⟨a1, a2, a3, a4⟩ := step_not_receiving (cfg := cfg) h st
    obtain ⟨b1, b2, b3, b4⟩ := ih a1
    exact ⟨b1, b2.trans a2, b3.trans a3, b4.trans a4⟩

theorem arrive_delivered (cfg : Cfg) (s : St) : (arrive cfg s).delivered = s.delivered :=
  (arrive_spec cfg s).2.2.1

theorem step_read_delivered {cfg : Cfg} {s : St} (h : receiving s = true) (d : Bytes) :
    (step cfg s (.read d)).delivered = s.delivered ++ [d] := by
  simp only [step, h, Bool.not_true, Bool.false_eq_true, if_false]
  split
  · rw [arrive_delivered]
  · split
    · split
      · rfl
      · rw [arrive_delivered]; rfl
    · rfl

theorem step_lost_delivered (cfg : Cfg) (s : St) : (step cfg s .lost).delivered = s.delivered := by
  simp only [step]; split <;> rfl

/-- The reads that reached `dataReceived` are a prefix of the reads the transport offered: exactly the reads
before the transport stopped delivering. -/
theorem delivered_prefix {cfg : Cfg} (steps : List Step) : ∀ s : St,
    ∃ k, (run cfg s steps).delivered = s.delivered ++ (readsOf steps).take k := by
  induction steps with
  | nil => intro s; exact ⟨0, by simp [run, readsOf]⟩
  | cons st t ih =>
    intro s
    cases st with
    | lost =>
      obtain ⟨k, hk⟩ := ih (step cfg s .lost)
      exact ⟨k, by simp only [run, readsOf]; rw [hk, step_lost_delivered]⟩
    | read d =>
      cases hr : receiving s with
      | false =>
        refine ⟨0, ?_⟩
        have := (run_not_receiving (cfg := cfg) (.read d :: t) hr).2.2.1
        simpa using this
      | true =>
        obtain ⟨k, hk⟩ := ih (step cfg s (.read d))
        refine ⟨k + 1, ?_⟩
        simp only [run, readsOf]
        rw [hk, step_read_delivered hr]
        simp

/-- While the transport still delivers at the end, every read was delivered. -/
theorem delivered_all {cfg : Cfg} (steps : List Step) : ∀ s : St, receiving (run cfg s steps) = true →
    (run cfg s steps).delivered = s.delivered ++ readsOf steps := by
  induction steps with
  | nil => intro s _; simp [run, readsOf]
  | cons st t ih =>
    intro s h
    cases hr : receiving s with
    | false =>
      have := (run_not_receiving (cfg := cfg) (st :: t) hr).1
      rw [h] at this
      cases this
    | true =>
      cases st with
      | lost =>
        have := ih (step cfg s .lost) h
        simp only [run, readsOf]
        rw [this, step_lost_delivered]
      | read d =>
        have := ih (step cfg s (.read d)) h
        simp only [run, readsOf]
        rw [this, step_read_delivered hr]
        simp

/-- `lost` is set by the step `lost`, or by bytes on which binary mode raises. -/
theorem step_lost_cause {cfg : Cfg} {s : St} (st : Step) (h : (step cfg s st).lost = true) :
    s.lost = true ∨ st = .lost ∨ ((step cfg s st).raised = true) := by
  cases st with
  | lost => exact Or.inr (Or.inl rfl)
  | read data =>
    cases hl : s.lost with
    | true => exact Or.inl rfl
    | false =>
      right; right
      revert h
      have key : ∀ x : St, x.lost = false → (arrive cfg x).lost = true → (arrive cfg x).raised = true := by
        intro x hx h
        obtain ⟨_, _, _, e4, e5⟩ := arrive_spec cfg x
        rw [e5, hx] at h
        rw [e4]
        simp only [Bool.false_or] at h
        simp [h]
      simp only [step]
      split
      · intro h; simp [hl] at h
      · split
        · exact key _ hl
        · split
          · split
            · intro h; simp [feed, hl] at h
            · exact key _ (by simp [feed, hl])
          · intro h; simp [hl] at h

theorem step_raised_stable {cfg : Cfg} {s : St} (h : s.raised = true) (st : Step) : (step cfg s st).raised = true := by
  cases st with
  | lost => simp only [step]; split <;> exact h
  | read data =>
    simp only [step]
    split
    · exact h
    · split
      · rw [(arrive_spec cfg _).2.2.2.1]; simp [h]
      · split
        · split
          · exact h
          · rw [(arrive_spec cfg _).2.2.2.1]; simp [feed, h]
        · exact h

theorem run_raised_stable {cfg : Cfg} (steps : List Step) : ∀ {s : St}, s.raised = true →
    (run cfg s steps).raised = true := by
  induction steps with
  | nil => intro s h; exact h
  | cons st t ih => intro s h; exact ih (step_raised_stable h st)

theorem step_lost_sets {cfg : Cfg} (s : St) : (step cfg s .lost).lost = true := by
  simp only [step]
  split
  · assumption
  · rfl

theorem step_hello_stable {cfg : Cfg} {s : St} {o : HelloOutcome} (h : s.hello = some o) (st : Step) :
    (step cfg s st).hello = some o := by
  cases st with
  | lost => simp only [step]; split <;> exact h
  | read data =>
    simp only [step]
    split
    · exact h
    · split
      · exact arrive_hello (by exact h)
      · split
        · split
          · exact h
          · exact arrive_hello (by exact h)
        · exact h

theorem run_hello_stable {cfg : Cfg} {o : HelloOutcome} (steps : List Step) : ∀ {s : St}, s.hello = some o →
    (run cfg s steps).hello = some o := by
  induction steps with
  | nil => intro s h; exact h
  | cons st t ih => intro s h; exact ih (step_hello_stable h st)

theorem run_lost_cause {cfg : Cfg} (steps : List Step) : ∀ {s : St}, (run cfg s steps).lost = true →
    s.lost = true ∨ Step.lost ∈ steps ∨ (run cfg s steps).raised = true := by
  induction steps with
  | nil => intro s h; exact Or.inl h
  | cons st t ih =>
    intro s h
    rcases ih (s := step cfg s st) h with h1 | h1 | h1
    · rcases step_lost_cause st h1 with h2 | h2 | h2
      · exact Or.inl h2
      · exact Or.inr (Or.inl (by simp [h2]))
      · exact Or.inr (Or.inr (run_raised_stable t h2))
    · exact Or.inr (Or.inl (by simp [h1]))
    · exact Or.inr (Or.inr h1)

theorem run_lost_of_mem {cfg : Cfg} (steps : List Step) : ∀ {s : St}, Step.lost ∈ steps →
    (run cfg s steps).lost = true := by
  induction steps with
  | nil => intro s h; simp at h
  | cons st t ih =>
    intro s h
    simp only [List.mem_cons] at h
    rcases h with h | h
    · subst h
      simp only [run]
      rw [run_of_lost t (step_lost_sets s)]
      exact step_lost_sets s
    · exact ih h

theorem readsOf_map_read (chunks : List Bytes) : readsOf (chunks.map Step.read) = chunks := by
  induction chunks with
  | nil => rfl
  | cons c t ih => simp [readsOf, ih]

theorem lost_not_mem_map_read (chunks : List Bytes) : Step.lost ∉ chunks.map Step.read := by
  simp

theorem readsOf_append (a b : List Step) : readsOf (a ++ b) = readsOf a ++ readsOf b := by
  induction a with
  | nil => rfl
  | cons x t ih => cases x <;> simp [readsOf, ih]

/-! ## the Hello outcome IS `decode` applied to the binary streams binary mode ran on -/

theorem binFold_snoc (cfg : Cfg) : ∀ (ds : List Bytes) (p : Proto) (b : BinObs) (d : Bytes),
    binFold cfg p b (ds ++ [d]) =
      binStep cfg (ds.foldl (dataReceived cfg.envAt) p)
        (dataReceived cfg.envAt (ds.foldl (dataReceived cfg.envAt) p) d) (binFold cfg p b ds) := by
  intro ds
  induction ds with
  | nil => intro p b d; simp [binFold]
  | cons x t ih => intro p b d; simp only [List.cons_append, binFold, List.foldl_cons]; exact ih _ _ d

theorem binSpec_snoc (cfg : Cfg) (ds : List Bytes) (d : Bytes) :
    binSpec cfg (ds ++ [d]) =
      binStep cfg (clientRun cfg.pref cfg.unix cfg.envAt ds)
        (dataReceived cfg.envAt (clientRun cfg.pref cfg.unix cfg.envAt ds) d) (binSpec cfg ds) := by
  unfold binSpec clientRun
  exact binFold_snoc cfg ds _ _ d

/-- The binary side of the composed state: the Hello outcome and the escaping exception are the function
`binSpec` of the delivered reads; an exception is a loss; an outcome is something `decode` said. -/
structure BinInv (cfg : Cfg) (s : St) : Prop where
  binEq : (⟨s.hello, s.raised⟩ : BinObs) = binSpec cfg s.delivered
  raisedLost : s.raised = true → s.lost = true
  raisedHello : s.raised = true → s.hello.isSome = true
  helloFrom : ∀ o, s.hello = some o → ∃ b, cfg.decode b = some o

theorem binv_init (cfg : Cfg) (life0 : Lifecycle.St) : BinInv cfg (init cfg life0) := by
  refine ⟨rfl, ?_, ?_, ?_⟩ <;> simp [init]

/-- `arrive` after a delivered read that took the protocol object from `p` to `x.proto` (binary mode ran). -/
theorem binv_arrive {cfg : Cfg} {x : St} (p : Proto) (d : Bytes) (ds : List Bytes)
    (hp : p = clientRun cfg.pref cfg.unix cfg.envAt ds) (hx : x.proto = dataReceived cfg.envAt p d)
    (hdel : x.delivered = ds ++ [d]) (hbin : (⟨x.hello, x.raised⟩ : BinObs) = binSpec cfg ds)
    (hran : (x.proto.authenticated && (p.authenticated || !x.proto.binary.isEmpty)) = true)
    (h1 : x.raised = true → x.lost = true) (h2 : x.raised = true → x.hello.isSome = true)
    (h3 : ∀ o, x.hello = some o → ∃ b, cfg.decode b = some o) : BinInv cfg (arrive cfg x) := by
  obtain ⟨e1, e2, e3, e4, e5⟩ := arrive_spec cfg x
  refine ⟨?_, ?_, ?_, ?_⟩
  · rw [e3, hdel, binSpec_snoc, ← hp, ← hx, ← hbin, e1, e4]
    simp only [binStep, hran, if_true, raisesNow, helloNow, Bool.or_assoc]
    cases x.hello <;> rfl
  · rw [e4, e5]
    intro h
    cases hr : x.raised with
    | true => simp [h1 hr]
    | false => rw [hr] at h; simp only [Bool.false_or] at h; simp [h]
  · rw [e4, e1]
    intro h
    cases hr : x.raised with
    | true =>
      obtain ⟨o, ho⟩ := Option.isSome_iff_exists.mp (h2 hr)
      simp [helloNow, ho]
    | false =>
      rw [hr] at h
      simp only [raisesNow, Bool.false_or, Bool.or_eq_true, Bool.and_eq_true, beq_iff_eq] at h
      rcases h with h | h
      · rw [h]; rfl
      · exact h.1
  · intro o ho
    rw [e1, helloNow] at ho
    cases hh : x.hello with
    | some o' => rw [hh] at ho; exact h3 o (by rw [hh]; exact ho)
    | none => rw [hh] at ho; exact ⟨_, ho⟩

theorem binv_step {cfg : Cfg} {life0 : Lifecycle.St} {s : St} (h : Inv cfg life0 s) (hb : BinInv cfg s) (st : Step) :
    BinInv cfg (step cfg s st) := by
  cases st with
  | lost =>
    simp only [step]
    split
    · exact hb
    · exact ⟨hb.binEq, fun _ => rfl, hb.raisedHello, hb.helloFrom⟩
  | read data =>
    simp only [step]
    split
    · exact hb
    · rename_i hr
      have hr' : s.lost = false ∧ s.proto.disconnecting = false := by simpa [receiving] using hr
      split
      · rename_i ha
        have ha' := (dataReceived_authenticated cfg.envAt s.proto data ha).1
        exact binv_arrive (x := { s with proto := dataReceived cfg.envAt s.proto data, delivered := s.delivered ++ [data] })
          s.proto data s.delivered h.protoEq rfl rfl hb.binEq (by simp [ha, ha']) hb.raisedLost hb.raisedHello hb.helloFrom
      · rename_i hna
        have hna' : s.proto.authenticated = false := by simpa using hna
        split
        · rename_i hpa
          split
          · rename_i hemp
            refine ⟨?_, hb.raisedLost, hb.raisedHello, hb.helloFrom⟩
            show (⟨s.hello, s.raised⟩ : BinObs) = binSpec cfg (s.delivered ++ [data])
            rw [binSpec_snoc, ← h.protoEq, ← hb.binEq]
            simp [binStep, hna', hemp]
          · rename_i hne
            exact binv_arrive (x := feed cfg .authOk
                { s with proto := dataReceived cfg.envAt s.proto data, delivered := s.delivered ++ [data] })
              s.proto data s.delivered h.protoEq rfl rfl hb.binEq (by simpa [feed, hpa, hna'] using hne)
              hb.raisedLost hb.raisedHello hb.helloFrom
        · rename_i hpna
          have hpna' : (dataReceived cfg.envAt s.proto data).authenticated = false := by simpa using hpna
          refine ⟨?_, hb.raisedLost, hb.raisedHello, hb.helloFrom⟩
          show (⟨s.hello, s.raised⟩ : BinObs) = binSpec cfg (s.delivered ++ [data])
          rw [binSpec_snoc, ← h.protoEq, ← hb.binEq]
          simp [binStep, hpna']

theorem binv_run {cfg : Cfg} {life0 : Lifecycle.St} (steps : List Step) :
    ∀ {s : St}, Inv cfg life0 s → BinInv cfg s → BinInv cfg (run cfg s steps) := by
  induction steps with
  | nil => intro s _ hb; exact hb
  | cons st t ih => intro s h hb; exact ih (inv_step h st) (binv_step h hb st)

/-! ## a server that rejects every mechanism (C07's model, any preference list) -/

section Reject
open Txdbus.AuthClient

def REJ : Bytes := b!"REJECTED\r\n"

theorem dataReceived_REJ_exhausted (envAt : Nat → Env) (p : Proto) (hd : p.disconnecting = false)
    (ha : p.authenticated = false) (hb : p.buffer = []) (ho : p.auth.authOrder = []) :
    (dataReceived envAt p REJ).disconnecting = true := by
  obtain ⟨auth, buffer, disc, authd, binary, seen, trace⟩ := p
  simp only at hd ha hb ho
  subst hd ha hb
  have hs : splitCRLF ([] ++ REJ) = ([b!"REJECTED"], []) := by decide
  have hlen : ¬ (b!"REJECTED").length > maxAuth := by decide
  have hh : handleAuthMessage (envAt seen) auth (b!"REJECTED") = .error .authFailed := by
    have : splitCmd (b!"REJECTED") = (b!"REJECTED", []) := by decide
    simp [handleAuthMessage, this, cREJECTED, authREJECTED, authTryNextMethod, ho]
  unfold dataReceived
  simp only [Bool.false_eq_true, if_false, hs]
  unfold processLines
  simp only [Bool.false_eq_true, if_false, hlen, hh]
  unfold processLines
  split <;> simp [Proto.close]

theorem dataReceived_REJ_next (envAt : Nat → Env) (p : Proto) (m : Bytes) (rest : List Bytes)
    (hd : p.disconnecting = false) (ha : p.authenticated = false) (haa : p.auth.authenticated = false)
    (hb : p.buffer = []) (ho : p.auth.authOrder = m :: rest) :
    let p' := dataReceived envAt p REJ
    p'.disconnecting = false ∧ p'.authenticated = false ∧ p'.auth.authenticated = false ∧ p'.buffer = [] ∧
    p'.auth.authOrder = rest := by
  obtain ⟨auth, buffer, disc, authd, binary, seen, trace⟩ := p
  simp only at hd ha hb ho haa
  subst hd ha hb
  have hs : splitCRLF ([] ++ REJ) = ([b!"REJECTED"], []) := by decide
  have hlen : ¬ (b!"REJECTED").length > maxAuth := by decide
  have hh : handleAuthMessage (envAt seen) auth (b!"REJECTED") =
      .ok ({ auth with authOrder := rest, authMech := some m, negotiating := false }, [authLine (envAt seen) m]) := by
    have : splitCmd (b!"REJECTED") = (b!"REJECTED", []) := by decide
    simp [handleAuthMessage, this, cREJECTED, authREJECTED, authTryNextMethod, ho]
  simp only
  unfold dataReceived
  simp only [Bool.false_eq_true, if_false, hs]
  unfold processLines
  simp only [Bool.false_eq_true, if_false, hlen, hh, haa]
  unfold processLines
  simp

theorem rejected_run (envAt : Nat → Env) : ∀ (ms : List Bytes) (p : Proto), p.disconnecting = false →
    p.authenticated = false → p.auth.authenticated = false → p.buffer = [] → p.auth.authOrder = ms →
    ((List.replicate (ms.length + 1) REJ).foldl (dataReceived envAt) p).disconnecting = true := by
  intro ms
  induction ms with
  | nil =>
    intro p hd ha _ hb ho
    simpa [List.replicate] using dataReceived_REJ_exhausted envAt p hd ha hb ho
  | cons m rest ih =>
    intro p hd ha haa hb ho
    obtain ⟨a1, a2, a3, a4, a5⟩ := dataReceived_REJ_next envAt p m rest hd ha haa hb ho
    have := ih (dataReceived envAt p REJ) a1 a2 a3 a4 a5
    simpa [List.replicate_succ] using this

/-- C07's client model against a server that answers REJECTED to every AUTH line: after as many rejections as
the preference list has mechanisms, the client has called `loseConnection` - for every preference list, both
transport kinds, every environment. -/
theorem rejected_by_every_mechanism_closes (pref : List Bytes) (unix : Bool) (envAt : Nat → Env) :
    (clientRun pref unix envAt (List.replicate pref.length REJ)).disconnecting = true := by
  unfold clientRun
  cases pref with
  | nil => simp [connectionMade, authTryNextMethod, Proto.close]
  | cons m rest =>
    have hp : connectionMade (m :: rest) unix (envAt 0) =
        { auth := { authOrder := rest, authMech := some m, unixFD := unix, negotiating := false,
                    authenticated := false, guid := none },
          buffer := [], disconnecting := false, authenticated := false, binary := [], seen := 0,
          trace := [Ev.nul] ++ [authLine (envAt 0) m].map Ev.send } := by
      simp [connectionMade, authTryNextMethod]
    rw [hp]
    exact rejected_run envAt rest _ rfl rfl rfl rfl rfl

end Reject

/-! ## success: reads after which C07's client is authenticated, then a named Hello reply -/

/-- If C07's model ends authenticated and open after `chunks`, the decoder can only ever answer "named", and it
does answer on the (non-empty) binary stream after the last read, then the composed run over these reads has the
Hello outcome `named`. -/
theorem hello_named_of_chunks {cfg : Cfg} {life0 : Lifecycle.St} (chunks : List Bytes)
    (hauth : (clientRun cfg.pref cfg.unix cfg.envAt chunks).authenticated = true)
    (hopen : (clientRun cfg.pref cfg.unix cfg.envAt chunks).disconnecting = false)
    (hdec : ∀ b, cfg.decode b = none ∨ cfg.decode b = some .named)
    (hlast : cfg.decode (clientRun cfg.pref cfg.unix cfg.envAt chunks).binary = some .named)
    (hne : (clientRun cfg.pref cfg.unix cfg.envAt chunks).binary ≠ []) :
    (run cfg (init cfg life0) (chunks.map Step.read)).hello = some .named := by
  have hinv : Inv cfg life0 (run cfg (init cfg life0) (chunks.map Step.read)) := inv_run _ (inv_init cfg life0)
  have hb : BinInv cfg (run cfg (init cfg life0) (chunks.map Step.read)) :=
    binv_run _ (inv_init cfg life0) (binv_init cfg life0)
  generalize hs : run cfg (init cfg life0) (chunks.map Step.read) = s at hinv hb
  cases hh : s.hello with
  | some o =>
    obtain ⟨b, hbo⟩ := hb.helloFrom o hh
    rcases hdec b with h | h
    · rw [h] at hbo; cases hbo
    · rw [h] at hbo; cases hbo; rfl
  | none =>
    exfalso
    have hr : s.raised = false := by
      cases h : s.raised with
      | false => rfl
      | true => have := hb.raisedHello h; simp [hh] at this
    have hl : s.lost = false := by
      cases h : s.lost with
      | false => rfl
      | true =>
        have h' : (run cfg (init cfg life0) (chunks.map Step.read)).lost = true := by rw [hs]; exact h
        rcases run_lost_cause (chunks.map Step.read) h' with h1 | h1 | h1
        · simp [init] at h1
        · exact absurd h1 (lost_not_mem_map_read chunks)
        · rw [hs, hr] at h1; cases h1
    obtain ⟨k, hk⟩ := delivered_prefix (cfg := cfg) (chunks.map Step.read) (init cfg life0)
    rw [hs] at hk
    have hdel : s.delivered = chunks.take k := by
      have : s.delivered = [] ++ (readsOf (chunks.map Step.read)).take k := hk
      rw [List.nil_append, readsOf_map_read] at this
      exact this
    have hd : s.proto.disconnecting = false := by
      cases h : s.proto.disconnecting with
      | false => rfl
      | true =>
        have hmono := (clientRun_mono cfg.pref cfg.unix cfg.envAt (chunks.take k) (chunks.drop k)).1
        rw [List.take_append_drop, ← hdel, ← hinv.protoEq] at hmono
        rw [hmono h] at hopen; cases hopen
    have hall : s.delivered = chunks := by
      have hrec : receiving (run cfg (init cfg life0) (chunks.map Step.read)) = true := by
        rw [hs]; simp [receiving, hl, hd]
      have : (run cfg (init cfg life0) (chunks.map Step.read)).delivered = [] ++ readsOf (chunks.map Step.read) :=
        delivered_all (cfg := cfg) (chunks.map Step.read) (init cfg life0) hrec
      rw [hs, List.nil_append, readsOf_map_read] at this
      exact this
    have hbin := hb.binEq
    rw [hall, hh, hr] at hbin
    -- the last read: binary mode ran and `decode` answered
    have hcne : chunks ≠ [] := by
      intro h
      rw [h] at hauth
      have : (connectionMade cfg.pref cfg.unix (cfg.envAt 0)).authenticated = false := by
        unfold connectionMade; dsimp only; split <;> simp [Proto.close]
      simp [clientRun, this] at hauth
    obtain ⟨ds, d, rfl⟩ : ∃ ds d, chunks = ds ++ [d] :=
      ⟨chunks.dropLast, chunks.getLast hcne, (List.dropLast_concat_getLast hcne).symm⟩
    rw [binSpec_snoc, ← clientRun_snoc] at hbin
    have hbe : ((clientRun cfg.pref cfg.unix cfg.envAt (ds ++ [d])).binary.isEmpty) = false := by
      cases hx : (clientRun cfg.pref cfg.unix cfg.envAt (ds ++ [d])).binary with
      | nil => exact absurd hx hne
      | cons _ _ => rfl
    have : (binStep cfg (clientRun cfg.pref cfg.unix cfg.envAt ds) (clientRun cfg.pref cfg.unix cfg.envAt (ds ++ [d]))
        (binSpec cfg ds)).hello.isSome = true := by
      simp only [binStep, hauth, hbe, Bool.not_false, Bool.or_true, Bool.and_self, if_true]
      cases (binSpec cfg ds).hello with
      | some o => rfl
      | none => simp [hlast]
    rw [← hbin] at this
    cases this

section SpecServer
open Txdbus.AuthClient

/-- The reads that reach the client in `handshakeLoopBytes` (C07's composition of the client model with the
reference server, every answer `line ++ CRLF` cut into reads by `cut`), in order. -/
def loopReads (cut : Bytes → List Bytes) (cfg : SpecServer.Cfg) (envAt : Nat → Env) :
    Nat → Sys → List Bytes → List Bytes
  | 0, _, _ => []
  | n + 1, sys, pending =>
    let r := SpecServer.feed cfg sys.server pending
    let reads := r.2.flatMap (fun l => cut (l ++ CRLF))
    let c' := r.2.foldl (fun c l => (cut (l ++ CRLF)).foldl (dataReceived envAt) c) sys.client
    let new := (sends c'.trace).drop (sends sys.client.trace).length
    let sys' : Sys := { client := c', server := r.1,
                        transcript := sys.transcript ++ pending.map (fun l => (true, l))
                                        ++ r.2.map (fun l => (false, l)) }
    if new.isEmpty then reads else reads ++ loopReads cut cfg envAt n sys' new

/-- What the reference server sends to the client during `handshakeBytes`, as the client reads it. -/
def specServerReads (cut : Bytes → List Bytes) (pref : List Bytes) (unix : Bool) (cfg : SpecServer.Cfg)
    (envAt : Nat → Env) (fuel : Nat) : List Bytes :=
  let c := connectionMade pref unix (envAt 0)
  loopReads cut cfg envAt fuel { client := c, server := .waitingForAuth, transcript := [] } (sends c.trace)

theorem foldl_flatMap_reads (envAt : Nat → Env) (cut : Bytes → List Bytes) (ls : List Bytes) : ∀ c : Proto,
    ls.foldl (fun c l => (cut (l ++ CRLF)).foldl (dataReceived envAt) c) c =
      (ls.flatMap (fun l => cut (l ++ CRLF))).foldl (dataReceived envAt) c := by
  induction ls with
  | nil => intro c; rfl
  | cons l t ih => intro c; simp [List.flatMap_cons, List.foldl_append, ih]

theorem loop_client_eq (cut : Bytes → List Bytes) (cfg : SpecServer.Cfg) (envAt : Nat → Env) :
    ∀ (n : Nat) (sys : Sys) (pending : List Bytes),
      (handshakeLoopBytes cut cfg envAt n sys pending).client =
        (loopReads cut cfg envAt n sys pending).foldl (dataReceived envAt) sys.client := by
  intro n
  induction n with
  | zero => intro sys pending; rfl
  | succ n ih =>
    intro sys pending
    unfold handshakeLoopBytes loopReads
    dsimp only
    split
    · exact foldl_flatMap_reads envAt cut _ _
    · rw [ih, List.foldl_append, ← foldl_flatMap_reads]

/-- The client of `handshakeBytes` is C07's `clientRun` over `specServerReads`. -/
theorem handshakeBytes_client (cut : Bytes → List Bytes) (pref : List Bytes) (unix : Bool) (cfg : SpecServer.Cfg)
    (envAt : Nat → Env) (fuel : Nat) :
    (handshakeBytes cut pref unix cfg envAt fuel).client = clientRun pref unix envAt (specServerReads cut pref unix cfg envAt fuel) := by
  unfold handshakeBytes specServerReads clientRun
  exact loop_client_eq cut cfg envAt fuel _ _

end SpecServer

end Txdbus.Client.ConnectAuth
