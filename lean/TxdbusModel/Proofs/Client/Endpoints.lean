import TxdbusModel.Client.Endpoints
/-
C09 - the address list is cut at ';' into its entries in listed order: `split` undoes `join`.
-/
namespace Txdbus.Client.Endpoints

/-- `sep.join(pieces)`. -/
def joinWith (sep : Char) : List Str → Str
  | [] => []
  | [p] => p
  | p :: q :: t => p ++ sep :: joinWith sep (q :: t)

theorem splitOn_ne_nil (sep : Char) : ∀ s : Str, splitOn sep s ≠ []
  | [] => by simp [splitOn]
  | c :: cs => by
    unfold splitOn
    split
    · simp
    · split <;> simp

theorem splitOn_no_sep (sep : Char) : ∀ p : Str, sep ∉ p → splitOn sep p = [p]
  | [], _ => rfl
  | c :: cs, h => by
    have hc : c ≠ sep := fun e => h (e ▸ List.mem_cons_self)
    have hcs : sep ∉ cs := fun e => h (List.mem_cons_of_mem _ e)
    simp [splitOn, hc, splitOn_no_sep sep cs hcs]

theorem splitOn_append_sep (sep : Char) (rest : Str) : ∀ p : Str, sep ∉ p →
    splitOn sep (p ++ sep :: rest) = p :: splitOn sep rest
  | [], _ => by simp [splitOn]
  | c :: cs, h => by
    have hc : c ≠ sep := fun e => h (e ▸ List.mem_cons_self)
    have hcs : sep ∉ cs := fun e => h (List.mem_cons_of_mem _ e)
    simp [splitOn, hc, splitOn_append_sep sep rest cs hcs]

theorem splitOn_joinWith (sep : Char) : ∀ pieces : List Str, pieces ≠ [] → (∀ p ∈ pieces, sep ∉ p) →
    splitOn sep (joinWith sep pieces) = pieces
  | [], h, _ => absurd rfl h
  | [p], _, hp => by simp [joinWith, splitOn_no_sep sep p (hp p List.mem_cons_self)]
  | p :: q :: t, _, hp => by
    simp only [joinWith]
    rw [splitOn_append_sep sep _ p (hp p List.mem_cons_self),
      splitOn_joinWith sep (q :: t) (by simp) (fun x hx => hp x (List.mem_cons_of_mem _ hx))]

end Txdbus.Client.Endpoints
