/-
C08 - from the step lemmas to statements about whole operation sequences starting at a fresh,
ready connection.
-/
import TxdbusModel.Proofs.Client.CallsRefine

namespace Txdbus.Calls

open Txdbus.Calls.Spec
open Txdbus.Gen

variable {V R : Type}

theorem step_nextId (asStr : V → Option (List Char)) (s : St V R) (op : Op V R) :
    (step asStr s op).nextId = s.nextId + (if isCall op then 1 else 0) := by
  cases op <;>
    simp only [Txdbus.Calls.step, callOp, callBadOp, retOp, errOp, expireOp, lostOp, fire, isCall] <;>
    repeat' (first | rfl | split)

theorem run_nextId (asStr : V → Option (List Char)) : ∀ (ops : List (Op V R)) (s : St V R),
    (run asStr s ops).nextId = s.nextId + (ops.filter isCall).length
  | [], s => by simp [run]
  | op :: rest, s => by
    rw [run_cons, run_nextId asStr rest, step_nextId, List.filter_cons]
    cases isCall op <;> simp <;> omega

theorem run_ready (asStr : V → Option (List Char)) : ∀ (ops : List (Op V R)) (s : St V R),
    (run asStr s ops).ready = s.ready
  | [], _ => rfl
  | op :: rest, s => by rw [run_cons, run_ready asStr rest, step_ready]

theorem FreshRun.append (asStr : V → Option (List Char)) : ∀ (a : List (Op V R)) {b : List (Op V R)}
    {s : St V R}, Inv s → FreshRun s (a ++ b) → FreshRun (run asStr s a) b
  | [], _, _, _, h => h
  | op :: rest, _, _, hI, h => by
    rw [run_cons]
    exact FreshRun.append asStr rest (hI.step asStr op h.head) (h.tail hI asStr)

theorem FreshRun.prefix {s : St V R} {a b : List (Op V R)} (h : FreshRun s (a ++ b)) : FreshRun s a := by
  obtain ⟨h1, h2⟩ := h
  rw [List.filterMap_append] at h1 h2
  exact ⟨(List.nodup_append.mp h1).1, fun σ hσ => h2 σ (List.mem_append_left _ hσ)⟩

theorem freshRun_init {ops : List (Op V R)} (hd : DistinctSerials ops) (ready : Bool) :
    FreshRun (St.init V R ready) ops :=
  ⟨hd, fun _ _ e he => by simp [St.init] at he⟩

/-- Every reachable state (distinct serials) satisfies the invariant. -/
theorem inv_reachable (asStr : V → Option (List Char)) {ops : List (Op V R)} (hd : DistinctSerials ops)
    (ready : Bool) : Inv (run asStr (St.init V R ready) ops) :=
  Inv.run asStr ops (Inv.init ready) (freshRun_init hd ready)

theorem split_at {ops : List (Op V R)} {i : Nat} {op : Op V R} (hi : ops[i]? = some op) :
    ops = ops.take i ++ op :: ops.drop (i + 1) := by
  obtain ⟨hlt, hget⟩ := List.getElem?_eq_some_iff.mp hi
  conv => lhs; rw [← List.take_append_drop i ops]
  rw [List.drop_eq_getElem_cons hlt, hget]

/-- The state in which the `callRemote` at position `i` is invoked. -/
theorem before_call (asStr : V → Option (List Char)) {ops : List (Op V R)} (hd : DistinctSerials ops)
    {i : Nat} {op : Op V R} (hi : ops[i]? = some op) :
    let s0 := run asStr (St.init V R true) (ops.take i)
    Inv s0 ∧ s0.ready = true ∧ s0.nextId = callId ops i ∧ FreshRun s0 (op :: ops.drop (i + 1)) ∧
      run asStr (St.init V R true) ops = run asStr (step asStr s0 op) (ops.drop (i + 1)) := by
  intro s0
  have hsplit := split_at hi
  have hfr : FreshRun (St.init V R true) (ops.take i ++ op :: ops.drop (i + 1)) := by
    rw [← hsplit]; exact freshRun_init hd true
  refine ⟨Inv.run asStr _ (Inv.init true) hfr.prefix, ?_, ?_, FreshRun.append asStr _ (Inv.init true) hfr, ?_⟩
  · simp only [s0, run_ready]; rfl
  · simp only [s0, run_nextId, callId]; simp [St.init]
  · conv => lhs; rw [hsplit]
    rw [run_append, run_cons]

/-- A call awaiting a reply, followed through the whole sequence. -/
theorem trace_call_open (asStr : V → Option (List Char)) {ops : List (Op V R)} (hd : DistinctSerials ops)
    {i σ : Nat} {tmo : Option Nat} {rs : RetSig} (hi : ops[i]? = some (.call σ true tmo rs)) :
    let k := callId ops i
    let fin := run asStr (St.init V R true) ops
    let fc := firstCompletion asStr σ k (truthyTimeout tmo) (ops.drop (i + 1))
    firingsOf k fin.log = fc.toList ∧
    (fc = none → (σ, (⟨k, if truthyTimeout tmo then some k else none⟩ : Pending)) ∈ fin.pending) ∧
    (fc ≠ none → Closed k fin ∧ ∀ e ∈ fin.pending, e.1 ≠ σ) := by
  intro k fin fc
  obtain ⟨hI0, hr0, hid, hfr, hrun⟩ := before_call asStr hd hi
  have hfresh : ∀ e ∈ (run asStr (St.init V R true) (ops.take i)).pending, e.1 ≠ σ := hfr.head σ rfl
  have hI1 := hI0.step asStr _ hfr.head
  have hf1 := hfr.tail hI0 asStr
  have hmem : (σ, (⟨k, if truthyTimeout tmo then some k else none⟩ : Pending)) ∈
      (step asStr (run asStr (St.init V R true) (ops.take i)) (.call σ true tmo rs)).pending := by
    simp only [Txdbus.Calls.step, callOp_true_eq hfresh, hid, List.mem_append, List.mem_singleton]
    exact Or.inr rfl
  have hr1 : (step asStr (run asStr (St.init V R true) (ops.take i)) (.call σ true tmo rs)).ready = true := by
    rw [step_ready, hr0]
  have h := open_run asStr (ops.drop (i + 1)) hI1 hr1 hf1 hmem
  have hsome : (if truthyTimeout tmo then some k else none : Option Nat).isSome = truthyTimeout tmo := by
    cases truthyTimeout tmo <;> rfl
  rw [hsome, ← hrun] at h
  exact h

/-- A call that completes at once (`expectReply=False`, or failed construction). -/
theorem trace_call_immediate (asStr : V → Option (List Char)) {ops : List (Op V R)} (hd : DistinctSerials ops)
    {i : Nat} {op : Op V R} (hi : ops[i]? = some op) (f : Firing V R) (rs : RetSig)
    (hstep : ∀ s : St V R, step asStr s op =
      fire { s with nextId := s.nextId + 1, issued := s.issued ++ [(s.nextId, rs)] } s.nextId f) :
    firingsOf (callId ops i) (run asStr (St.init V R true) ops).log = [f] ∧
      Closed (callId ops i) (run asStr (St.init V R true) ops) := by
  obtain ⟨hI0, _, hid, hfr, hrun⟩ := before_call asStr hd hi
  have hI1 := hI0.step asStr _ hfr.head
  have hf1 := hfr.tail hI0 asStr
  have hc : Closed (callId ops i) (step asStr (run asStr (St.init V R true) (ops.take i)) op) := by
    rw [hstep]
    refine ⟨by simp only [fire, hid]; omega, ?_⟩
    intro e he
    have := hI0.did_lt e (by simpa [fire] using he)
    omega
  have hl : firingsOf (callId ops i) (step asStr (run asStr (St.init V R true) (ops.take i)) op).log = [f] := by
    rw [hstep]
    simp only [fire, firingsOf_append, hid, firingsOf_single_self]
    rw [firingsOf_eq_nil]
    · rfl
    · intro x hx
      have := hI0.log_lt x hx
      omega
  have h := closed_run asStr (ops.drop (i + 1)) hI1 hf1 hc
  rw [← hrun] at h
  exact ⟨by rw [h.2, hl], h.1⟩

/-! ### Every Deferred handed out is either in the table or has fired exactly once -/

def Once (s : St V R) : Prop :=
  ∀ k < s.nextId, (∃ e ∈ s.pending, e.2.did = k) ∨ (firingsOf k s.log).length = 1

theorem once_init (ready : Bool) : Once (St.init V R ready) := by
  intro k hk
  simp [St.init] at hk

theorem once_step {s : St V R} (hI : Inv s) (hr : s.ready = true) (asStr : V → Option (List Char))
    (op : Op V R) (hf : FreshOp s op) (ho : Once s) : Once (step asStr s op) := by
  intro k hk
  rw [step_nextId] at hk
  by_cases hlt : k < s.nextId
  · rcases ho k hlt with ⟨e, he, hd⟩ | hone
    · obtain ⟨σ, p⟩ := e
      obtain ⟨k', tm⟩ := p
      simp only at hd
      subst hd
      have h := open_step hI hr asStr op hf he
      cases hc : completes asStr σ k' tm.isSome op with
      | some f =>
        rw [hc] at h
        exact Or.inr (by rw [h.2]; rfl)
      | none =>
        rw [hc] at h
        exact Or.inl ⟨_, h, rfl⟩
    · have hc : Closed k s := by
        refine ⟨hlt, ?_⟩
        intro e he hd
        have : firingsOf k s.log = [] := firingsOf_eq_nil (fun x hx => by rw [← hd]; exact hI.unfired e he x hx)
        rw [this] at hone
        cases hone
      exact Or.inr (by rw [(closed_step hI asStr op hf hc).2]; exact hone)
  · have hcall : isCall op = true := by
      cases h : isCall op
      · rw [h] at hk; simp at hk; omega
      · rfl
    have hk' : k = s.nextId := by rw [hcall] at hk; simp at hk; omega
    subst hk'
    have hnil : firingsOf s.nextId s.log = [] :=
      firingsOf_eq_nil (fun x hx => by have := hI.log_lt x hx; omega)
    cases op with
    | call σ er tmo rs =>
      cases er with
      | true =>
        refine Or.inl ⟨(σ, ⟨s.nextId, if truthyTimeout tmo then some s.nextId else none⟩), ?_, rfl⟩
        simp [Txdbus.Calls.step, callOp_true_eq (hf σ rfl)]
      | false =>
        refine Or.inr ?_
        simp [Txdbus.Calls.step, callOp, fire, firingsOf_append, hnil, firingsOf_single_self]
    | callBad rs =>
      refine Or.inr ?_
      simp [Txdbus.Calls.step, callBadOp, fire, firingsOf_append, hnil, firingsOf_single_self]
    | ret _ _ => cases hcall
    | err _ _ _ => cases hcall
    | expire _ => cases hcall
    | lost _ => cases hcall

theorem once_run (asStr : V → Option (List Char)) : ∀ (ops : List (Op V R)) {s : St V R}, Inv s →
    s.ready = true → FreshRun s ops → Once s → Once (run asStr s ops)
  | [], _, _, _, _, ho => ho
  | op :: rest, s, hI, hr, hf, ho => by
    rw [run_cons]
    exact once_run asStr rest (hI.step asStr op hf.head) (by rw [step_ready, hr]) (hf.tail hI asStr)
      (once_step hI hr asStr op hf.head ho)

end Txdbus.Calls
