import TxdbusModel.Proofs.Bus.Disconnect
import TxdbusModel.Bus.SpecNames
/-!
The abstraction from the code model's state to the specification's state, and the list-level
lemmas that relate `reqQueue` / `List.erase` on connections to `Spec.request` / `Spec.release` /
`Spec.without` on entries.
-/
namespace Txdbus.Bus

open Txdbus.Gen.C13Codes

/-- Entries of a queue of connections under a flag assignment. -/
def ent (φ : Conn → Bool) (q : List Conn) : List Spec.Entry := q.map (fun d => ⟨d, φ d⟩)

/-- The specification-level queue of a name. -/
def absQueue (s : State) (n : Name) : List Spec.Entry :=
  ent (fun d => (s.flag d n).getD false) (s.queue n)

/-- The specification-level state. -/
def abs (s : State) : Spec.State := { connected := s.connected, queue := absQueue s }

/-- The events the specification speaks about (NameOwnerChanged is left open). -/
def Event.toSpec : Event → Option Spec.Ev
  | .nameAcquired t n => some (.nameAcquired t n)
  | .nameLost t n => some (.nameLost t n)
  | .ownerChanged _ _ _ => none
  | .reply t c => some (.reply t c)
  | .replyOwner t o => some (.replyOwner t o)
  | .replyQueue t q => some (.replyQueue t q)
  | .replyNoOwner t => some (.replyNoOwner t)

def specFlags (fl : ReqFlags) : Spec.Flags := ⟨fl.allow, fl.replace, fl.dnq⟩

theorem specFlags_decode (w : Nat) : specFlags (decodeFlags w) = Spec.Flags.ofWord w := rfl

def specReply : ReqCase → Spec.ReqReply
  | .free => .primaryOwner
  | .already => .alreadyOwner
  | .replace _ => .primaryOwner
  | .refuse => .exists_
  | .enqueue => .inQueue

def specTold (c : Conn) : ReqCase → List Spec.Told
  | .free => [.acquired c]
  | .replace old => [.lost old, .acquired c]
  | _ => []

theorem reqCode_spec (k : ReqCase) : reqCode k = (specReply k).code := by
  cases k <;> rfl

theorem ent_congr {φ φ' : Conn → Bool} {q : List Conn} (h : ∀ d ∈ q, φ' d = φ d) :
    ent φ' q = ent φ q := by
  unfold ent
  apply List.map_congr_left
  intro d hd
  rw [h d hd]

theorem ent_map_conn (φ : Conn → Bool) (q : List Conn) : (ent φ q).map Spec.Entry.conn = q := by
  unfold ent
  rw [List.map_map]
  have : (Spec.Entry.conn ∘ fun d => (⟨d, φ d⟩ : Spec.Entry)) = id := by funext d; rfl
  rw [this, List.map_id]

theorem inQueue_ent (φ : Conn → Bool) (q : List Conn) (c : Conn) :
    Spec.inQueue (ent φ q) c = decide (c ∈ q) := by
  unfold Spec.inQueue ent
  induction q with
  | nil => simp
  | cons d t ih =>
    simp only [List.map_cons, List.any_cons, ih, List.mem_cons]
    by_cases h : d = c
    · subst h; simp
    · have : ¬ c = d := fun e => h e.symm
      simp [h, this]

theorem without_ent {φ : Conn → Bool} {q : List Conn} (hq : q.Nodup) (c : Conn) :
    Spec.without (ent φ q) c = ent φ (q.erase c) := by
  unfold Spec.without ent
  rw [hq.erase_eq_filter, List.filter_map]
  congr 1
  apply List.filter_congr
  intro d _
  by_cases h : d = c <;> simp [h]

theorem without_ent_not_mem {φ : Conn → Bool} {q : List Conn} (c : Conn) (h : c ∉ q) :
    Spec.without (ent φ q) c = ent φ q := by
  unfold Spec.without ent
  apply List.filter_eq_self.mpr
  intro e he
  obtain ⟨d, hd, rfl⟩ := List.mem_map.mp he
  simp only [ne_eq, decide_eq_true_eq]
  intro e; subst e; exact h hd

/-- RequestName: the code's queue transformation is the specification's (with the replaced owner
dropped), for any flag assignment `φ'` after the step that agrees with what the code writes. -/
theorem request_refines {q : List Conn} (hq : q.Nodup) (c : Conn) (fl : ReqFlags)
    (φ φ' : Conn → Bool) (a : Bool)
    (ha : ∀ o rest, q = o :: rest → a = φ o)
    (hc : reqCase q c fl a ≠ .refuse → φ' c = fl.allow)
    (hφ : ∀ d ∈ reqQueue q c (reqCase q c fl a), d ≠ c → φ' d = φ d) :
    Spec.request (ent φ q) c (specFlags fl) false
      = (ent φ' (reqQueue q c (reqCase q c fl a)), specReply (reqCase q c fl a),
         specTold c (reqCase q c fl a)) := by
  cases q with
  | nil =>
    have hk : reqCase [] c fl a = .free := rfl
    rw [hk] at hc hφ ⊢
    simp [Spec.request, ent, reqQueue, specReply, specTold, specFlags, hc (by simp)]
  | cons o rest =>
    have hao : a = φ o := ha o rest rfl
    have hnd := List.nodup_cons.mp hq
    by_cases hoc : o = c
    · have hk : reqCase (o :: rest) c fl a = .already := by simp [reqCase, hoc]
      rw [hk] at hc hφ ⊢
      subst hoc
      have hrest : ent φ' rest = ent φ rest := by
        apply ent_congr
        intro d hd
        apply hφ d (by simp [reqQueue, hd])
        intro e; subst e; exact hnd.1 hd
      simp only [Spec.request, ent, List.map_cons, if_true, reqQueue, specReply, specTold,
        specFlags, hc (by simp)]
      unfold ent at hrest
      rw [hrest]
    · by_cases hr : (fl.replace && a) = true
      · have hk : reqCase (o :: rest) c fl a = .replace o := by simp [reqCase, hoc, hr]
        rw [hk] at hc hφ ⊢
        have hrest : ent φ' (rest.erase c) = ent φ (rest.erase c) := by
          apply ent_congr
          intro d hd
          apply hφ d (by simp [reqQueue, hd])
          intro e; subst e
          exact ((hnd.2.mem_erase_iff).mp hd).1 rfl
        have hr' : (fl.replace && φ o) = true := hao ▸ hr
        simp only [Spec.request, ent, List.map_cons, hoc, if_false, specFlags, hr', if_true,
          reqQueue, List.drop_succ_cons, List.drop_zero, specReply, specTold, hc (by simp),
          Bool.false_eq_true, List.nil_append]
        have hw := without_ent (φ := φ) hnd.2 c
        unfold ent at hw hrest
        rw [hw, hrest]
      · have hr' : (fl.replace && φ o) = false := by
          rw [← hao]; simpa using hr
        have hbeq : ¬ (o == c) = true := by simpa using hoc
        by_cases hd : fl.dnq = true
        · have hk : reqCase (o :: rest) c fl a = .refuse := by simp [reqCase, hoc, hr, hd]
          rw [hk] at hc hφ ⊢
          have hall : ent φ' (o :: rest.erase c) = ent φ (o :: rest.erase c) := by
            apply ent_congr
            intro d hdm
            apply hφ d (by simpa [reqQueue, List.erase_cons_tail hbeq] using hdm)
            intro e; subst e
            simp only [List.mem_cons] at hdm
            rcases hdm with h | h
            · exact hoc h.symm
            · exact ((hnd.2.mem_erase_iff).mp h).1 rfl
          simp only [Spec.request, ent, List.map_cons, hoc, if_false, specFlags, hr',
            Bool.false_eq_true, hd, if_true, reqQueue, List.erase_cons_tail hbeq, specReply, specTold]
          have hw := without_ent (φ := φ) hnd.2 c
          unfold ent at hw hall
          simp only [List.map_cons] at hall
          rw [hw, hall]
        · have hk : reqCase (o :: rest) c fl a = .enqueue := by simp [reqCase, hoc, hr, hd]
          rw [hk] at hc hφ ⊢
          have hcv := hc (by simp)
          have hinq := inQueue_ent φ rest c
          unfold ent at hinq
          have hφo : φ' o = φ o := by
            apply hφ o _ hoc
            simp only [reqQueue]; split <;> simp
          simp only [Spec.request, ent, List.map_cons, hoc, if_false, specFlags, hr',
            Bool.false_eq_true, hd, reqQueue, specReply, specTold, hinq, decide_eq_true_eq,
            List.mem_cons]
          have hco : ¬ c = o := fun e => hoc e.symm
          simp only [hco, false_or]
          by_cases hmem : c ∈ rest
          · simp only [hmem, if_true, List.map_cons, hφo, List.map_map]
            congr 2
            apply List.map_congr_left
            intro d hdm
            by_cases hdc : d = c
            · subst hdc; simp [hcv]
            · have : φ' d = φ d := by
                apply hφ d _ hdc
                simp [reqQueue, hmem, hdm]
              simp [hdc, this]
          · simp only [hmem, if_false, List.map_cons, List.map_append, List.map_nil, hφo, hcv]
            congr 2
            have hrest : ent φ' rest = ent φ rest := by
              apply ent_congr
              intro d hdm
              apply hφ d _ (by intro e; subst e; exact hmem hdm)
              simp [reqQueue, hmem, hco, hdm]
            unfold ent at hrest
            rw [hrest]
            rfl

def specRelReply (q : List Conn) (c : Conn) : Spec.RelReply :=
  match q with
  | [] => .nonExistent
  | _ :: _ => if c ∈ q then .released else .notOwner

theorem relCode_spec (q : List Conn) (c : Conn) : relCode q c = (specRelReply q c).code := by
  cases q with
  | nil => rfl
  | cons o rest =>
    simp only [relCode, specRelReply]
    split <;> rfl

theorem handover_ent (φ : Conn → Bool) (q : List Conn) (c : Conn) (n : Name) :
    (handoverEvents q c n).filterMap Event.toSpec = (Spec.handover (ent φ q) c).map (Spec.Told.ev n) := by
  cases q with
  | nil => rfl
  | cons o rest =>
    cases rest with
    | nil => rfl
    | cons nx r2 =>
      simp only [handoverEvents, ent, List.map_cons, Spec.handover]
      split <;> rfl

theorem release_refines {q : List Conn} (hq : q.Nodup) (c : Conn) (n : Name) (φ : Conn → Bool) :
    Spec.release (ent φ q) c = (ent φ (q.erase c), specRelReply q c, (Spec.release (ent φ q) c).2.2)
    ∧ (relEvents q c n true).filterMap Event.toSpec
        = (Spec.release (ent φ q) c).2.2.map (Spec.Told.ev n) := by
  cases q with
  | nil => exact ⟨rfl, rfl⟩
  | cons o rest =>
    have hnd := List.nodup_cons.mp hq
    by_cases hoc : o = c
    · subst hoc
      constructor
      · simp [Spec.release, ent, specRelReply]
      · have hh := handover_ent φ (o :: rest) o n
        simp only [Spec.release, ent, List.map_cons, if_true, relEvents,
          List.filterMap_cons, Event.toSpec, List.singleton_append,
          Spec.Told.ev] at hh ⊢
        rw [hh]
    · have hbeq : ¬ (o == c) = true := by simpa using hoc
      have hco : ¬ c = o := fun e => hoc e.symm
      have hinq := inQueue_ent φ rest c
      unfold ent at hinq
      by_cases hmem : c ∈ rest
      · constructor
        · have hw := without_ent (φ := φ) hnd.2 c
          unfold ent at hw
          simp [Spec.release, ent, hoc, hinq, hmem, List.erase_cons_tail hbeq, hw, specRelReply]
        · simp [Spec.release, ent, hoc, hinq, hmem, relEvents]
      · constructor
        · simp [Spec.release, ent, hoc, hinq, hmem, List.erase_cons_tail hbeq,
            List.erase_of_not_mem hmem, specRelReply, hco]
        · simp [Spec.release, ent, hoc, hinq, hmem, relEvents]

end Txdbus.Bus
