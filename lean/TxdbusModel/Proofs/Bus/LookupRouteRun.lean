import TxdbusModel.Proofs.Bus.LookupRoute
/-!
# One bus: C13's name table driving C14's router  (extension 2026-09-30, revised after review 3)

`Linked enc s hs es`: the history `es` of C14's model (`Txdbus.BusRoute`) is a run of the SAME bus as the
history `hs` of C13's model (`Txdbus.Bus`), started in C13's state `s`:

* a C13 `connect` is, in C14's model, `connect` followed at once by the connection's Hello (ANY message that
  is a call of `Hello` on the bus, with any classification `op`) - so C13's connection `k` is C14's `k - 1`;
* a RequestName / ReleaseName of C13 is ANY method call addressed to the bus (member other than Hello) by
  that connection, classified `.exec effs`, where the OWNER PART of `effs` is what C13's model computes
  (`ownerEffects`); any signals may be interleaved in `effs`;
* a C13 `disconnect` is `disconnect (k - 1) effs` with the same condition on `effs`;
* C13's queries, questions, messages (`getOwner`, `listQueued`, `other`, `ask`, `send`, `sendBus`) need no
  event of their own;
* between any two of these, ANY message event of C14's model by ANY connection index may occur, with any
  content and any classification that carries no owner effect (`OwnerFree`): AddMatch (so connections may
  hold match rules), broadcasts, addressed messages, Ping, a second Hello, garbage from dead connections.

What `Linked` does NOT reach (hence the `_partial` in the theorems of Properties/C13.lean, section 11): C14
histories in which a connection authenticates (`connect`) and stays silent, or speaks first with something
other than Hello while other connections are being named - there C13's number `k` and C14's index are no
longer `k - 1` apart (a relational map through `nameOf` is needed).

`Joint enc s r` is the invariant of linked runs.
-/
namespace Txdbus.NamesRoute

open Txdbus
open Txdbus.BusRoute (Effect dget dset ddel applyEffect applyEffects Cfg ConnId Msg Event BusOp uniqueNameOf busName)

variable {ρ : Type}

/-- The first message of a well-behaved client. -/
def IsHello (m : Msg) : Prop :=
  m.mtype = .call ∧ m.dest = some busName ∧ m.member = some BusRoute.helloMember

/-- A method call addressed to the bus that is not Hello (RequestName, ReleaseName, ...). -/
def IsNameCall (m : Msg) : Prop :=
  m.mtype = .call ∧ m.dest = some busName ∧ m.member ≠ some BusRoute.helloMember

/-- A classification that does not touch the name table. -/
def OwnerFree (op : BusOp ρ) : Prop := ∀ effs, op = .exec effs → effs.filterMap ownerPart = []

/-- Two effect lists with the same owner parts (signals are free). -/
def SameOwners (a b : List Effect) : Prop := a.filterMap ownerPart = b.filterMap ownerPart

/-- A method call addressed to the bus (every field the model does not look at: default). -/
def busCallMsg (member : BusRoute.Name) : Msg :=
  { (default : Msg) with mtype := .call, dest := some busName, member := some member }

/-- A message addressed to `d`. -/
def addressedMsg (d : BusRoute.Name) : Msg :=
  { (default : Msg) with mtype := .call, dest := some d }

/-- Any member other than Hello. -/
def nameMember : BusRoute.Name := "RequestName".toList

theorem busCallMsg_hello : IsHello (busCallMsg BusRoute.helloMember) := ⟨rfl, rfl, rfl⟩

theorem busCallMsg_nameCall : IsNameCall (busCallMsg nameMember) := ⟨rfl, rfl, by decide⟩

/-! ### what C14's model does with these events -/

theorem ownersAfter_ownerFree (o : List (BusRoute.Name × ConnId)) (effs : List Effect)
    (h : effs.filterMap ownerPart = []) : ownersAfter o effs = o := by
  induction effs generalizing o with
  | nil => rfl
  | cons e es ih =>
    simp only [List.filterMap_cons] at h
    simp only [ownersAfter]
    cases he : ownerPart e with
    | none => rw [he] at h; exact ih o h
    | some p => rw [he] at h; cases h

theorem ensureNamed_named (r : BusRoute.State ρ) (i : ConnId) (c : BusRoute.Conn) (nm : BusRoute.Name)
    (hname : c.uniqueName = some nm) : BusRoute.ensureNamed r i c = (r, nm, none) := by
  unfold BusRoute.ensureNamed
  rw [hname]

/-- A call to the bus other than Hello by a named live connection, classified `.exec effs`: the state
afterwards is the one `applyEffects` leaves. -/
theorem step_nameCall (cfg : Cfg ρ) (r : BusRoute.State ρ) (i : ConnId) (c : BusRoute.Conn)
    (nm : BusRoute.Name) (m : Msg) (effs : List Effect)
    (hc : r.conns[i]? = some c) (hlive : c.isConnected = true) (hname : c.uniqueName = some nm)
    (hm : IsNameCall m) :
    (BusRoute.step cfg r (.msg i m (.exec effs))).1 = (applyEffects cfg r effs).1 := by
  rw [BusRoute.step_msg_live cfg r i _ _ c hc hlive, ensureNamed_named r i c nm hname]
  simp [BusRoute.stepNamed, BusRoute.messageReceived, BusRoute.busCall, hm.1, hm.2.1, hm.2.2]

/-- A new connection whose first message is Hello. -/
theorem final_connect_hello (cfg : Cfg ρ) (r : BusRoute.State ρ) (m : Msg) (op : BusOp ρ) (hm : IsHello m) :
    BusRoute.final cfg r [.connect, .msg r.conns.length m op] =
      { r with conns := r.conns ++ [{ uniqueName := some (uniqueNameOf r.nextId), calledHello := true,
                                      isConnected := true, matchRules := [] }],
               nextId := r.nextId + 1,
               clients := dset (uniqueNameOf r.nextId) r.conns.length r.clients } := by
  simp [BusRoute.final, BusRoute.step, BusRoute.stepMsg, BusRoute.Conn.fresh, BusRoute.ensureNamed,
    BusRoute.stepNamed, BusRoute.modifyConn, hm.1, hm.2.1, hm.2.2]

/-- `owners` after the rest of `rawDBusMessageReceived`: untouched, or what the event's own effects make of
it (the frame lemma C14's files do not state). -/
theorem stepNamed_owners (cfg : Cfg ρ) (s1 : BusRoute.State ρ) (i : ConnId) (nm : BusRoute.Name)
    (named : Option (ConnId × BusRoute.Name)) (called : Bool) (m : Msg) (op : BusOp ρ) :
    (BusRoute.stepNamed cfg s1 i nm named called m op).1.owners = s1.owners ∨
    ∃ effs, op = .exec effs ∧
      (BusRoute.stepNamed cfg s1 i nm named called m op).1.owners = ownersAfter s1.owners effs := by
  unfold BusRoute.stepNamed
  split
  · exact Or.inl (BusRoute.modifyConn_other s1 i _).2.1
  · simp only [BusRoute.messageReceived]
    split
    · cases op with
      | always => exact Or.inl rfl
      | addMatch x =>
        left
        simp only [BusRoute.busCall, BusRoute.addMatch]
        split
        · exact (BusRoute.modifyConn_other _ i _).2.1
        · rfl
      | exec effs => exact Or.inr ⟨effs, rfl, applyEffects_owners cfg s1 effs⟩
    · exact Or.inl rfl

/-! ### the joint invariant -/

/-- When every connection says Hello at once, C13's connection `k` (of `:1.k`) is C14's connection `k - 1`. -/
def phi (k : Bus.Conn) : ConnId := k - 1

structure Joint (enc : Bus.Name → BusRoute.Name) (s : Bus.State) (r : BusRoute.State ρ) : Prop where
  invN : Bus.Inv s
  invR : BusRoute.Inv r
  /-- unique names start at 1 -/
  pos : ∀ c, s.connected c = true → 1 ≤ c
  next : r.nextId = s.nextId
  len : r.conns.length + 1 = s.nextId
  /-- connection `i` of C14's model is C13's `i + 1`: it carries the unique name `:1.(i+1)` ... -/
  name : ∀ i, i < r.conns.length → BusRoute.nameOf r i = some (uniqueNameOf (i + 1))
  /-- ... and is live iff C13 has it connected (nothing is said about its rules or its Hello flag) -/
  live : ∀ i, i < r.conns.length → BusRoute.connected r i = s.connected (i + 1)
  owners : OwnersAgree enc phi s r.owners

theorem Joint.init (enc : Bus.Name → BusRoute.Name) : Joint enc Bus.State.init (BusRoute.State.init : BusRoute.State ρ) := by
  refine ⟨Bus.inv_init, BusRoute.Inv.init, ?_, rfl, rfl, ?_, ?_, fun n => rfl⟩
  · intro c hc; simp [Bus.State.connected, Bus.State.init, Bus.Dict.get?] at hc
  · intro i hi; simp [BusRoute.State.init] at hi
  · intro i hi; simp [BusRoute.State.init] at hi

section
variable {enc : Bus.Name → BusRoute.Name} {s : Bus.State} {r : BusRoute.State ρ}

/-- A connected connection of C13's model is there, named and live, in C14's. -/
theorem Joint.conn_of (J : Joint enc s r) {c : Bus.Conn} (hc : s.connected c = true) :
    phi c + 1 = c ∧ phi c < r.conns.length ∧
    ∃ x, r.conns[phi c]? = some x ∧ x.uniqueName = some (uniqueNameOf c) ∧ x.isConnected = true := by
  have key : ∀ (c n len : Nat), 1 ≤ c → c < n → len + 1 = n → c - 1 + 1 = c ∧ c - 1 < len := by
    intros; omega
  obtain ⟨hp, hl⟩ := key c s.nextId r.conns.length (J.pos c hc) (J.invN.fresh c hc) J.len
  have hp : phi c + 1 = c := hp
  have hl : phi c < r.conns.length := hl
  refine ⟨hp, hl, ?_⟩
  cases hx : r.conns[phi c]? with
  | none =>
    have := List.getElem?_eq_none_iff.mp hx
    exact absurd hl (Nat.not_lt.mpr this)
  | some x =>
    refine ⟨x, rfl, ?_, ?_⟩
    · have := J.name _ hl
      rw [BusRoute.nameOf_of_getElem r _ x hx, hp] at this
      exact this
    · have := J.live _ hl
      rw [BusRoute.connected_of_getElem r _ x hx, hp, hc] at this
      exact this

/-- Changes that keep every connection's name and liveness. -/
theorem Joint.of_keeps (J : Joint enc s r) {s' : Bus.State} {r' : BusRoute.State ρ}
    (hN : Bus.Inv s') (hR : BusRoute.Inv r')
    (hconn : ∀ d, s'.connected d = s.connected d) (hnext : s'.nextId = s.nextId)
    (hk : BusRoute.KeepsNames r r') (hown : OwnersAgree enc phi s' r'.owners) : Joint enc s' r' := by
  obtain ⟨_, k2, k3, k4, k5⟩ := hk
  refine ⟨hN, hR, ?_, ?_, ?_, ?_, ?_, hown⟩
  · intro c hc; rw [hconn] at hc; exact J.pos c hc
  · rw [k2, hnext]; exact J.next
  · rw [k5, hnext]; exact J.len
  · intro i hi; rw [k5] at hi; rw [k3]; exact J.name i hi
  · intro i hi; rw [k5] at hi; rw [k4, hconn]; exact J.live i hi

/-- ANY message event that carries no owner effect - by any connection index, alive, dead or absent, with
any content - keeps the joint invariant (C13's state does not move). -/
theorem Joint.neutral (J : Joint enc s r) {cfg : Cfg ρ} (hr : cfg.Repaired) (i : ConnId) (m : Msg)
    (op : BusOp ρ) (hop : OwnerFree op) : Joint enc s (BusRoute.step cfg r (.msg i m op)).1 := by
  have hR' := BusRoute.step_inv hr J.invR (.msg i m op)
  cases hc : r.conns[i]? with
  | none =>
    have : (BusRoute.step cfg r (.msg i m op)).1 = r := by simp [BusRoute.step, BusRoute.stepMsg, hc]
    rw [this]; exact J
  | some c =>
    by_cases hconn : c.isConnected = true
    · have hi : i < r.conns.length := (List.getElem?_eq_some_iff.mp hc).1
      have hname : c.uniqueName = some (uniqueNameOf (i + 1)) := by
        have := J.name i hi
        rw [BusRoute.nameOf_of_getElem r i c hc] at this
        exact this
      have hst := BusRoute.step_msg_live cfg r i m op c hc hconn
      rw [ensureNamed_named r i c _ hname] at hst
      rw [hst] at hR' ⊢
      -- names and liveness
      have hk : BusRoute.KeepsNames r
          (BusRoute.stepNamed cfg r i (uniqueNameOf (i + 1)) none c.calledHello m op).1 := by
        rcases BusRoute.dest_trichotomy m with ⟨d, ha⟩ | hb | hn
        · rw [(BusRoute.stepNamed_unicast hr r i _ none c.calledHello m op d ha).1]
          exact BusRoute.KeepsNames.refl r
        · exact (BusRoute.stepNamed_bus hr J.invR i c _ none c.calledHello m op hc hconn hname hb).2.1
        · rw [(BusRoute.stepNamed_broadcast hr r i _ none c.calledHello m op hn).1]
          exact BusRoute.KeepsNames.refl r
      -- the table
      have hown : (BusRoute.stepNamed cfg r i (uniqueNameOf (i + 1)) none c.calledHello m op).1.owners = r.owners := by
        rcases stepNamed_owners cfg r i (uniqueNameOf (i + 1)) none c.calledHello m op with h | ⟨effs, he, h⟩
        · exact h
        · rw [h, ownersAfter_ownerFree _ _ (hop effs he)]
      exact J.of_keeps J.invN hR' (fun _ => rfl) rfl hk (by rw [hown]; exact J.owners)
    · have hconn' : c.isConnected = false := by simpa using hconn
      have : (BusRoute.step cfg r (.msg i m op)).1 = r := by
        simp [BusRoute.step, BusRoute.stepMsg, hc, hconn']
      rw [this]; exact J

/-! ### linked histories -/

/-- The events of C14's model that a step `s -> s'` of C13's model requires (see the header). -/
def GenFor (enc : Bus.Name → BusRoute.Name) (s s' : Bus.State) : Bus.HStep → List (Event ρ) → Prop
  | .op .connect, evs => ∃ m op, IsHello m ∧ evs = [.connect, .msg (s.nextId - 1) m op]
  | .op (.disconnect c), evs =>
    ∃ effs, SameOwners effs (ownerEffects enc phi (Bus.changedNames s (.disconnect c)) s s') ∧
      evs = [.disconnect (phi c) effs]
  | .op (.request c n w), evs =>
    ∃ m effs, IsNameCall m ∧ SameOwners effs (ownerEffects enc phi (Bus.changedNames s (.request c n w)) s s') ∧
      evs = [.msg (phi c) m (.exec effs)]
  | .op (.release c n), evs =>
    ∃ m effs, IsNameCall m ∧ SameOwners effs (ownerEffects enc phi (Bus.changedNames s (.release c n)) s s') ∧
      evs = [.msg (phi c) m (.exec effs)]
  | _, evs => evs = []

inductive Linked (enc : Bus.Name → BusRoute.Name) : Bus.State → List Bus.HStep → List (Event ρ) → Prop where
  | nil (s : Bus.State) : Linked enc s [] []
  /-- any owner-free message event of C14's model, by anybody -/
  | neutral {s : Bus.State} {hs : List Bus.HStep} {es : List (Event ρ)} (i : ConnId) (m : Msg) (op : BusOp ρ)
      (hop : OwnerFree op) : Linked enc s hs es → Linked enc s hs (.msg i m op :: es)
  /-- a step of C13's model with the events it requires -/
  | step {s s' : Bus.State} {h : Bus.HStep} {o : Bus.HOut} {hs : List Bus.HStep} {evs es : List (Event ρ)} :
      Bus.stepL s h = .ok (s', o) → GenFor enc s s' h evs → Linked enc s' hs es →
      Linked enc s (h :: hs) (evs ++ es)

/-- One step of C13's model and the events required for it keep the joint invariant. -/
theorem joint_stepL {cfg : Cfg ρ} (hr : cfg.Repaired) (he : NameEnc enc)
    (J : Joint enc s r) {h : Bus.HStep} {s' : Bus.State} {o : Bus.HOut}
    (hs : Bus.stepL s h = .ok (s', o)) {evs : List (Event ρ)} (hg : GenFor enc s s' h evs) :
    Joint enc s' (BusRoute.final cfg r evs) := by
  have hN' : Bus.Inv s' := (Bus.stepL_refines J.invN hs).1
  have hR' : BusRoute.Inv (BusRoute.final cfg r evs) := BusRoute.final_inv hr J.invR _
  -- steps that need no event and change nothing
  have same : s' = s → evs = [] → Joint enc s' (BusRoute.final cfg r evs) := by
    intro e1 e2; subst e1; subst e2; exact J
  cases h with
  | send c d => simp only [Bus.stepL] at hs; cases hs; exact same rfl hg
  | sendBus c => simp only [Bus.stepL] at hs; cases hs; exact same rfl hg
  | ask c d =>
    simp only [Bus.stepL, Bus.getNameOwnerOf_post J.invN c d] at hs
    cases hs; exact same rfl hg
  | op op =>
    simp only [Bus.stepL] at hs
    cases h1 : Bus.step s op with
    | error e => simp [h1] at hs
    | ok p =>
      obtain ⟨s1, evs1⟩ := p
      simp only [h1] at hs
      cases hs
      obtain ⟨hconn, hnext⟩ := Bus.step_connected J.invN h1
      cases op with
      | getOwner c n =>
        have : Bus.step s (.getOwner c n) = Bus.getNameOwner s c n := rfl
        rw [this, Bus.getNameOwner_post J.invN] at h1
        cases h1; exact same rfl hg
      | listQueued c n =>
        have : Bus.step s (.listQueued c n) = Bus.listQueuedOwners s c n := rfl
        rw [this, Bus.listQueuedOwners_post] at h1
        cases h1; exact same rfl hg
      | other c =>
        have : Bus.step s (.other c) = .ok (s, []) := rfl
        rw [this] at h1
        cases h1; exact same rfl hg
      | request c n w =>
        simp only [Bus.connectedAfter, Bus.nextIdAfter] at hconn hnext
        obtain ⟨m, effs, hm, heffs, rfl⟩ := hg
        have hc : s.connected c = true := Bus.requestName_connected (show Bus.requestName s c n w = _ from h1)
        obtain ⟨_, _, x, hget, hxn, hxl⟩ := J.conn_of hc
        have hst : BusRoute.final cfg r [.msg (phi c) m (.exec effs)] = (applyEffects cfg r effs).1 :=
          step_nameCall cfg r (phi c) x _ m effs hget hxl hxn hm
        rw [hst] at hR' ⊢
        exact J.of_keeps hN' hR' hconn hnext
          (BusRoute.KeepsNames.of_frame (BusRoute.applyEffects_frame cfg r effs))
          (agree_applyEffects he cfg (fun k hk => Bus.step_lookup_frame J.invN h1 k hk) r J.owners effs heffs)
      | release c n =>
        simp only [Bus.connectedAfter, Bus.nextIdAfter] at hconn hnext
        obtain ⟨m, effs, hm, heffs, rfl⟩ := hg
        have hc : s.connected c = true := Bus.releaseName_connected (show Bus.releaseName s c n = _ from h1)
        obtain ⟨_, _, x, hget, hxn, hxl⟩ := J.conn_of hc
        have hst : BusRoute.final cfg r [.msg (phi c) m (.exec effs)] = (applyEffects cfg r effs).1 :=
          step_nameCall cfg r (phi c) x _ m effs hget hxl hxn hm
        rw [hst] at hR' ⊢
        exact J.of_keeps hN' hR' hconn hnext
          (BusRoute.KeepsNames.of_frame (BusRoute.applyEffects_frame cfg r effs))
          (agree_applyEffects he cfg (fun k hk => Bus.step_lookup_frame J.invN h1 k hk) r J.owners effs heffs)
      | disconnect c =>
        simp only [Bus.connectedAfter, Bus.nextIdAfter] at hconn hnext
        obtain ⟨effs, heffs, rfl⟩ := hg
        have hc : s.connected c = true := Bus.disconnect_connected (show Bus.disconnect s c = _ from h1)
        obtain ⟨hp, hl, x, hget, hxn, hxl⟩ := J.conn_of hc
        have hok := BusRoute.disconnectOk_of_inv J.invR (phi c) x hget hxl
        obtain ⟨f1, _, _, _, f5, _⟩ := BusRoute.stepDisconnect_fields cfg r (phi c) effs x hget hxl hok
        have hown : (BusRoute.stepDisconnect cfg r (phi c) effs).1.owners =
            (applyEffects cfg
              ({ r with conns := r.conns.set (phi c) { x with isConnected := false },
                        rules := r.rules.filter (fun y => !(x.matchRules.contains y.id)) } : BusRoute.State ρ)
              effs).1.owners := by
          simp only [BusRoute.stepDisconnect, hget, hxl, hok, Bool.true_eq_false, if_false]
          exact (BusRoute.dropClient_fields _ _).2.2.2.2
        show Joint enc s' (BusRoute.stepDisconnect cfg r (phi c) effs).1
        have hR'' : BusRoute.Inv (BusRoute.stepDisconnect cfg r (phi c) effs).1 := hR'
        refine ⟨hN', hR'', ?_, ?_, ?_, ?_, ?_, ?_⟩
        · intro d hd
          rw [hconn d] at hd
          by_cases hdc : d = c
          · simp [hdc] at hd
          · simp only [hdc, if_false] at hd; exact J.pos d hd
        · rw [f5, hnext]; exact J.next
        · rw [f1, hnext]; simp only [List.length_set]; exact J.len
        · intro i hi
          rw [f1] at hi
          simp only [List.length_set] at hi
          rw [BusRoute.nameOf_set' r (phi c) x _ hget _ f1 i]
          by_cases hi2 : i = phi c
          · rw [if_pos hi2, hi2, hp]; exact hxn
          · rw [if_neg hi2]; exact J.name i hi
        · intro i hi
          rw [f1] at hi
          simp only [List.length_set] at hi
          rw [BusRoute.connected_set r (phi c) x _ hget _ f1 i, hconn (i + 1)]
          by_cases hi2 : i = phi c
          · rw [if_pos hi2, hi2, hp]; simp
          · have : i + 1 ≠ c := by
              intro e; apply hi2; rw [← e]; rfl
            rw [if_neg hi2, if_neg this]; exact J.live i hi
        · rw [hown]
          exact agree_applyEffects he cfg (fun k hk => Bus.step_lookup_frame J.invN h1 k hk)
            ({ r with conns := r.conns.set (phi c) { x with isConnected := false },
                      rules := r.rules.filter (fun y => !(x.matchRules.contains y.id)) } : BusRoute.State ρ)
            J.owners effs heffs
      | connect =>
        simp only [Bus.connectedAfter, Bus.nextIdAfter] at hconn hnext
        obtain ⟨m, op, hm, rfl⟩ := hg
        have hlen : s.nextId - 1 = r.conns.length := by
          have := J.len; omega
        have hst : BusRoute.final cfg r [.connect, .msg (s.nextId - 1) m op] =
            { r with conns := r.conns ++ [{ uniqueName := some (uniqueNameOf r.nextId), calledHello := true,
                                            isConnected := true, matchRules := [] }],
                     nextId := r.nextId + 1,
                     clients := dset (uniqueNameOf r.nextId) r.conns.length r.clients } := by
          rw [hlen]
          exact final_connect_hello cfg r m op hm
        rw [hst] at hR' ⊢
        have h3 : r.conns.length + 1 = s.nextId := J.len
        refine ⟨hN', hR', ?_, ?_, ?_, ?_, ?_, ?_⟩
        · intro d hd
          rw [hconn d] at hd
          by_cases hdn : d = s.nextId
          · rw [hdn, ← J.len]; exact Nat.succ_le_succ (Nat.zero_le _)
          · simp only [hdn, if_false] at hd; exact J.pos d hd
        · show r.nextId + 1 = s'.nextId
          rw [hnext, J.next]
        · show (r.conns ++ [_]).length + 1 = s'.nextId
          rw [hnext, List.length_append, ← J.len]; rfl
        · intro i hi
          have hi' : i < r.conns.length + 1 := by simpa using hi
          by_cases hlt : i < r.conns.length
          · have := J.name i hlt
            simp only [BusRoute.nameOf] at this ⊢
            rw [List.getElem?_append_left hlt]; exact this
          · have hi3 : i = r.conns.length := by omega
            subst hi3
            simp only [BusRoute.nameOf, List.getElem?_append_right (Nat.le_refl _), Nat.sub_self,
              List.getElem?_cons_zero, Option.bind_some, J.next, h3]
        · intro i hi
          have hi' : i < r.conns.length + 1 := by simpa using hi
          rw [hconn (i + 1)]
          by_cases hlt : i < r.conns.length
          · have hne : i + 1 ≠ s.nextId := by omega
            have := J.live i hlt
            simp only [BusRoute.connected] at this ⊢
            rw [List.getElem?_append_left hlt, if_neg hne]; exact this
          · have hi3 : i = r.conns.length := by omega
            subst hi3
            simp only [BusRoute.connected, List.getElem?_append_right (Nat.le_refl _), Nat.sub_self,
              List.getElem?_cons_zero, h3, if_true]
        · intro n
          show dget (enc n) r.owners = _
          rw [Bus.step_lookup_frame J.invN h1 n (by simp [Bus.changedNames])]
          exact J.owners n

/-- Linked histories keep the joint invariant: if C13's model runs `hs` from `s` to `s'`, C14's model run
on the linked `es` ends in a state joint with `s'`. -/
theorem joint_linked {cfg : Cfg ρ} (hr : cfg.Repaired) (he : NameEnc enc) {hs : List Bus.HStep}
    {es : List (Event ρ)} {s0 : Bus.State} (hl : Linked enc s0 hs es) :
    ∀ {r : BusRoute.State ρ} {s' : Bus.State} {outs : List Bus.HOut},
    Joint enc s0 r → Bus.runL s0 hs = .ok (s', outs) → Joint enc s' (BusRoute.final cfg r es) := by
  induction hl with
  | nil s =>
    intro r s' outs J h
    simp only [Bus.runL] at h
    cases h
    exact J
  | neutral i m op hop _ ih =>
    intro r s' outs J h
    exact ih (J.neutral hr i m op hop) h
  | @step s1 s2 hh o hs' evs es' h1 hg _ ih =>
    intro r s' outs J h
    simp only [Bus.runL, h1] at h
    cases h2 : Bus.runL s2 hs' with
    | error e => simp [h2] at h
    | ok p =>
      obtain ⟨s3, os3⟩ := p
      simp only [h2] at h
      cases h
      rw [BusRoute.final_append]
      exact ih (joint_stepL hr he J h1 hg) h2

/-! ### deliveries in a joint state -/

/-- The string of a destination; `fgn` is a colon name that was never handed out. -/
def destStr (enc : Bus.Name → BusRoute.Name) (fgn : BusRoute.Name) : Bus.Dest → BusRoute.Name
  | .unique k => uniqueNameOf k
  | .foreign => fgn
  | .wellKnown n => enc n

/-- In a joint state C14's lookup for the string of ANY destination is C13's `routerLookup`
(well-known names through `owners`, unique names through C14's own client table). -/
theorem Joint.resolve (J : Joint enc s r) (he : NameEnc enc) (fgn : BusRoute.Name)
    (hf : fgn.head? = some ':') (hf2 : ∀ k, fgn ≠ uniqueNameOf k) (d : Bus.Dest) :
    BusRoute.resolve r (destStr enc fgn d) = (Bus.routerLookup s d).map phi := by
  cases d with
  | wellKnown n => exact resolve_is_routerLookup he r J.owners n
  | foreign =>
    show BusRoute.resolve r fgn = none
    unfold BusRoute.resolve
    rw [if_pos hf]
    cases hd : dget fgn r.clients with
    | none => rfl
    | some j =>
      obtain ⟨hn, _⟩ := (J.invR.clients_iff fgn j).mp hd
      have hj := BusRoute.nameOf_some_lt r j fgn hn
      rw [J.name j hj] at hn
      exact absurd (Option.some.inj hn).symm (hf2 (j + 1))
  | unique k =>
    show BusRoute.resolve r (uniqueNameOf k) = _
    unfold BusRoute.resolve
    rw [if_pos (BusRoute.uniqueNameOf_head k), Bus.routerLookup_unique]
    by_cases hk : s.connected k = true
    · rw [if_pos hk]
      obtain ⟨hp, hl, x, hget, hxn, hxl⟩ := J.conn_of hk
      apply (J.invR.clients_iff (uniqueNameOf k) (phi k)).mpr
      refine ⟨?_, ?_⟩
      · rw [BusRoute.nameOf_of_getElem r _ _ hget]; exact hxn
      · rw [BusRoute.connected_of_getElem r _ _ hget]; exact hxl
    · rw [if_neg hk]
      cases hd : dget (uniqueNameOf k) r.clients with
      | none => rfl
      | some j =>
        obtain ⟨hn, hcn⟩ := (J.invR.clients_iff (uniqueNameOf k) j).mp hd
        have hj := BusRoute.nameOf_some_lt r j _ hn
        rw [J.name j hj] at hn
        rw [J.live j hj] at hcn
        have hjk : j + 1 = k := BusRoute.uniqueNameOf_injective (Option.some.inj hn)
        have : s.connected k = true := by rw [← hjk]; exact hcn
        exact absurd this hk

/-- In a joint state ANY message `m` addressed to (the string of) a destination `d`, sent by a connected
`c`, under ANY classification `op`: nothing changes, and it is delivered to (C14's index of) the connection
C13's `routerLookup` finds - to nobody else, whatever match rules anybody holds - or to nobody. -/
theorem Joint.send (J : Joint enc s r) {cfg : Cfg ρ} (hr : cfg.Repaired) (he : NameEnc enc)
    (fgn : BusRoute.Name) (hf : fgn.head? = some ':') (hf2 : ∀ k, fgn ≠ uniqueNameOf k)
    {c : Bus.Conn} (hc : s.connected c = true) (d : Bus.Dest) (m : Msg) (op : BusOp ρ)
    (hm : BusRoute.Addressed m (destStr enc fgn d)) :
    (BusRoute.step cfg r (.msg (phi c) m op)).1 = r ∧
    (BusRoute.step cfg r (.msg (phi c) m op)).2.deliveries =
      (match Bus.routerLookup s d with
       | some k => [⟨phi k, .fwd (phi c) (BusRoute.remarshal m (uniqueNameOf c))⟩]
       | none => []) := by
  obtain ⟨hp, _, x, hget, hxn, hxl⟩ := J.conn_of hc
  rw [BusRoute.step_msg_live cfg r (phi c) m op x hget hxl, ensureNamed_named r (phi c) x _ hxn]
  obtain ⟨a, b, _⟩ := BusRoute.stepNamed_unicast hr r (phi c) (uniqueNameOf c) none x.calledHello m op _ hm
  refine ⟨a, ?_⟩
  rw [b]
  unfold BusRoute.busSend
  rw [J.resolve he fgn hf hf2 d]
  cases Bus.routerLookup s d <;> rfl

/-- A message addressed to the bus itself is forwarded to nobody (C14's own theorem, in a joint state). -/
theorem Joint.sendBus (J : Joint enc s r) {cfg : Cfg ρ} (hr : cfg.Repaired) {c : Bus.Conn}
    (hc : s.connected c = true) (m : Msg) (op : BusOp ρ) (hm : m.dest = some busName) :
    ∀ dl ∈ (BusRoute.step cfg r (.msg (phi c) m op)).2.deliveries, dl.what.isFwd = false := by
  obtain ⟨_, _, x, hget, _, hxl⟩ := J.conn_of hc
  have hlive : BusRoute.Live r (phi c) := by
    show BusRoute.connected r (phi c) = true
    rw [BusRoute.connected_of_getElem r _ _ hget]; exact hxl
  exact (BusRoute.bus_calls_from hr J.invR (phi c) m op hm hlive).1

/-- In a joint state the owner of a well-known name according to C14 is a live connection. -/
theorem Joint.owner_live (J : Joint enc s r) (he : NameEnc enc) (hs : Bus.Reachable s) (j : ConnId) (n : Bus.Name)
    (hj : BusRoute.Owns r j (enc n)) : BusRoute.Live r j := by
  apply names_owner_live he hs r J.owners _ j n hj
  intro k hk
  obtain ⟨_, _, x, hget, _, hxl⟩ := J.conn_of hk
  show BusRoute.connected r (phi k) = true
  rw [BusRoute.connected_of_getElem r _ _ hget]; exact hxl

/-! ### `Linked` is inhabited for every history: the canonical events -/

/-- The least history of C14's model for a history of C13's model: Hello per connect, one bus call
carrying exactly C13's effects per name operation. -/
def gen (enc : Bus.Name → BusRoute.Name) (s : Bus.State) : List Bus.HStep → List (Event ρ)
  | [] => []
  | h :: hs =>
    match Bus.stepL s h with
    | .error _ => []
    | .ok (s', _) =>
      (match h with
       | .op .connect => [.connect, .msg (s.nextId - 1) (busCallMsg BusRoute.helloMember) (.exec [])]
       | .op (.disconnect c) =>
         [.disconnect (phi c) (ownerEffects enc phi (Bus.changedNames s (.disconnect c)) s s')]
       | .op (.request c n w) =>
         [.msg (phi c) (busCallMsg nameMember)
            (.exec (ownerEffects enc phi (Bus.changedNames s (.request c n w)) s s'))]
       | .op (.release c n) =>
         [.msg (phi c) (busCallMsg nameMember)
            (.exec (ownerEffects enc phi (Bus.changedNames s (.release c n)) s s'))]
       | _ => []) ++ gen enc s' hs

theorem linked_gen {hs : List Bus.HStep} : ∀ {s s' : Bus.State} {outs : List Bus.HOut},
    Bus.runL s hs = .ok (s', outs) → Linked (ρ := ρ) enc s hs (gen enc s hs) := by
  induction hs with
  | nil => intro s s' outs _; exact Linked.nil s
  | cons x xs ih =>
    intro s s' outs h
    simp only [Bus.runL] at h
    cases h1 : Bus.stepL s x with
    | error e => simp [h1] at h
    | ok p =>
      obtain ⟨s1, o1⟩ := p
      simp only [h1] at h
      cases h2 : Bus.runL s1 xs with
      | error e => simp [h2] at h
      | ok p2 =>
        obtain ⟨s2, os2⟩ := p2
        simp only [gen, h1]
        refine Linked.step h1 ?_ (ih h2)
        cases x with
        | send c d => rfl
        | sendBus c => rfl
        | ask c d => rfl
        | op op =>
          cases op with
          | connect => exact ⟨_, _, busCallMsg_hello, rfl⟩
          | disconnect c => exact ⟨_, rfl, rfl⟩
          | request c n w => exact ⟨_, _, busCallMsg_nameCall, rfl, rfl⟩
          | release c n => exact ⟨_, _, busCallMsg_nameCall, rfl, rfl⟩
          | getOwner c n => rfl
          | listQueued c n => rfl
          | other c => rfl

/-! ### a concrete instance -/

/-- A colon name the bus never hands out. -/
def exForeign : BusRoute.Name := [':', 'x']

theorem exForeign_ok : exForeign.head? = some ':' ∧ ∀ k, exForeign ≠ uniqueNameOf k := by
  refine ⟨rfl, fun k h => ?_⟩
  simp [exForeign, uniqueNameOf] at h

/-- A unicast SIGNAL with a forged sender field, serial 7, addressed to the first well-known name. -/
def exMsg : Msg :=
  { (default : Msg) with mtype := .sig, serial := 7, sender := some exForeign, dest := some (exEnc 0) }

theorem busName_head : busName.head? = some 'o' := by decide

theorem exEnc_addressed : ∀ a, exEnc a ≠ [] ∧ exEnc a ≠ busName := by
  intro a
  refine ⟨by simp [exEnc, List.replicate_succ], fun e => ?_⟩
  have h1 : (exEnc a).head? = some 'a' := by simp [exEnc, List.replicate_succ]
  rw [e, busName_head] at h1
  cases h1

end

end Txdbus.NamesRoute
