import TxdbusModel.Proofs.Bus.LookupRoute
/-!
# One bus: C13's name table driving C14's router  (extension 2026-09-30)

A C13 history with lookups is turned into a history of C14's model (`gen`): a connect + Hello per C13
`connect`; a bus call carrying the effects C13's model computes per RequestName / ReleaseName; a
`disconnect` with C13's effects; a message per `send`.  `Joint` relates the two states.
-/
namespace Txdbus.NamesRoute

open Txdbus
open Txdbus.BusRoute (Effect dget dset ddel applyEffect applyEffects Cfg ConnId Msg Event BusOp uniqueNameOf busName)

variable {ρ : Type}

/-- A method call addressed to the bus (every field the model does not look at: default). -/
def busCallMsg (member : BusRoute.Name) : Msg :=
  { (default : Msg) with mtype := .call, dest := some busName, member := some member }

/-- A message addressed to `d`. -/
def addressedMsg (d : BusRoute.Name) : Msg :=
  { (default : Msg) with mtype := .call, dest := some d }

/-! ### what C14's model does with the generated events -/

theorem ensureNamed_named (r : BusRoute.State ρ) (i : ConnId) (c : BusRoute.Conn) (nm : BusRoute.Name)
    (hname : c.uniqueName = some nm) : BusRoute.ensureNamed r i c = (r, nm, none) := by
  unfold BusRoute.ensureNamed
  rw [hname]

/-- A call to the bus (not the first Hello) by a named live connection that carries `effs`: the state
afterwards is the one `applyEffects` leaves. -/
theorem step_busCall (cfg : Cfg ρ) (r : BusRoute.State ρ) (i : ConnId) (c : BusRoute.Conn)
    (nm member : BusRoute.Name) (effs : List Effect)
    (hc : r.conns[i]? = some c) (hlive : c.isConnected = true) (hname : c.uniqueName = some nm)
    (hcalled : c.calledHello = true) :
    (BusRoute.step cfg r (.msg i (busCallMsg member) (.exec effs))).1 = (applyEffects cfg r effs).1 := by
  rw [BusRoute.step_msg_live cfg r i _ _ c hc hlive, ensureNamed_named r i c nm hname]
  simp [BusRoute.stepNamed, hcalled, BusRoute.messageReceived, busCallMsg, BusRoute.busCall]

/-- A message for `d` (set, non-empty, not the bus) by a named live connection: nothing changes, the
deliveries are those of `busSend`. -/
theorem step_send {cfg : Cfg ρ} (hr : cfg.Repaired) (r : BusRoute.State ρ) (i : ConnId) (c : BusRoute.Conn)
    (nm d : BusRoute.Name) (hc : r.conns[i]? = some c) (hlive : c.isConnected = true)
    (hname : c.uniqueName = some nm) (hd : d ≠ []) (hb : d ≠ busName) :
    (BusRoute.step cfg r (.msg i (addressedMsg d) (.exec []))).1 = r ∧
    (BusRoute.step cfg r (.msg i (addressedMsg d) (.exec []))).2.deliveries =
      BusRoute.busSend r d (.fwd i (BusRoute.remarshal (addressedMsg d) nm)) := by
  rw [BusRoute.step_msg_live cfg r i _ _ c hc hlive, ensureNamed_named r i c nm hname]
  have ha : BusRoute.Addressed (addressedMsg d) d := ⟨rfl, hd, hb⟩
  obtain ⟨a, b, _⟩ := BusRoute.stepNamed_unicast hr r i nm none c.calledHello (addressedMsg d) (.exec []) d ha
  exact ⟨a, b⟩

/-- The loss of a live connection whose remembered keys are all there. -/
theorem step_disconnect_state (cfg : Cfg ρ) (r : BusRoute.State ρ) (i : ConnId) (effs : List Effect)
    (c : BusRoute.Conn) (hc : r.conns[i]? = some c) (hlive : c.isConnected = true)
    (hok : BusRoute.disconnectOk r c = true) :
    (BusRoute.step cfg r (.disconnect i effs)).1 =
      BusRoute.dropClient
        (applyEffects cfg { r with conns := r.conns.set i { c with isConnected := false },
                                   rules := r.rules.filter (fun x => !(c.matchRules.contains x.id)) } effs).1
        c.uniqueName := by
  simp [BusRoute.step, BusRoute.stepDisconnect, hc, hlive, hok]

/-- A new connection that says Hello at once. -/
theorem final_connect_hello (cfg : Cfg ρ) (r : BusRoute.State ρ) :
    BusRoute.final cfg r [.connect, .msg r.conns.length (busCallMsg BusRoute.helloMember) (.exec [])] =
      { r with conns := r.conns ++ [{ uniqueName := some (uniqueNameOf r.nextId), calledHello := true,
                                      isConnected := true, matchRules := [] }],
               nextId := r.nextId + 1,
               clients := dset (uniqueNameOf r.nextId) r.conns.length r.clients } := by
  simp [BusRoute.final, BusRoute.step, BusRoute.stepMsg, BusRoute.Conn.fresh, BusRoute.ensureNamed,
    BusRoute.stepNamed, busCallMsg, BusRoute.modifyConn]

/-! ### the generated history -/

/-- When every connection says Hello at once, C13's connection `k` (of `:1.k`) is C14's connection `k - 1`. -/
def phi (k : Bus.Conn) : ConnId := k - 1

/-- Any member other than Hello (the routing model does not look at it). -/
def nameMember : BusRoute.Name := "RequestName".toList

/-- The string of a destination; `fgn` is the colon name that was never handed out. -/
def destStr (enc : Bus.Name → BusRoute.Name) (fgn : BusRoute.Name) : Bus.Dest → BusRoute.Name
  | .unique k => uniqueNameOf k
  | .foreign => fgn
  | .wellKnown n => enc n

/-- A bus call without effect on the names, if the caller is connected. -/
def genQuery (s : Bus.State) (c : Bus.Conn) : List (Event ρ) :=
  if s.connected c = true then [.msg (phi c) (busCallMsg nameMember) (.exec [])] else []

/-- The events of C14's model for one step `s -> s'` of C13's model. -/
def genStep (enc : Bus.Name → BusRoute.Name) (fgn : BusRoute.Name) (s s' : Bus.State) : Bus.HStep → List (Event ρ)
  | .op .connect => [.connect, .msg (s.nextId - 1) (busCallMsg BusRoute.helloMember) (.exec [])]
  | .op (.disconnect c) =>
    [.disconnect (phi c) (ownerEffects enc phi (Bus.changedNames s (.disconnect c)) s s')]
  | .op (.request c n w) =>
    [.msg (phi c) (busCallMsg nameMember) (.exec (ownerEffects enc phi (Bus.changedNames s (.request c n w)) s s'))]
  | .op (.release c n) =>
    [.msg (phi c) (busCallMsg nameMember) (.exec (ownerEffects enc phi (Bus.changedNames s (.release c n)) s s'))]
  | .op (.getOwner c _) => genQuery s c
  | .op (.listQueued c _) => genQuery s c
  | .op (.other c) => genQuery s c
  | .ask c _ => genQuery s c
  | .send c d =>
    if s.connected c = true then [.msg (phi c) (addressedMsg (destStr enc fgn d)) (.exec [])] else []

/-- The history of C14's model for a history with lookups of C13's model. -/
def gen (enc : Bus.Name → BusRoute.Name) (fgn : BusRoute.Name) (s : Bus.State) : List Bus.HStep → List (Event ρ)
  | [] => []
  | h :: hs =>
    match Bus.stepL s h with
    | .error _ => []
    | .ok (s', _) => genStep enc fgn s s' h ++ gen enc fgn s' hs

/-! ### the joint invariant -/

/-- C14's record of the connection that C13 calls `i + 1`. -/
def connOf (s : Bus.State) (i : Nat) : BusRoute.Conn :=
  { uniqueName := some (uniqueNameOf (i + 1)), calledHello := true, isConnected := s.connected (i + 1),
    matchRules := [] }

structure Joint (enc : Bus.Name → BusRoute.Name) (s : Bus.State) (r : BusRoute.State ρ) : Prop where
  invN : Bus.Inv s
  invR : BusRoute.Inv r
  /-- unique names start at 1 -/
  pos : ∀ c, s.connected c = true → 1 ≤ c
  next : r.nextId = s.nextId
  len : r.conns.length + 1 = s.nextId
  /-- connection `i` of C14's model is C13's `i + 1`: named `:1.(i+1)`, has said Hello, live iff connected -/
  conn : ∀ i, i < r.conns.length → r.conns[i]? = some (connOf s i)
  rules : r.rules = []
  owners : OwnersAgree enc phi s r.owners

theorem Joint.init (enc : Bus.Name → BusRoute.Name) : Joint enc Bus.State.init (BusRoute.State.init : BusRoute.State ρ) := by
  refine ⟨Bus.inv_init, BusRoute.Inv.init, ?_, rfl, rfl, ?_, rfl, fun n => rfl⟩
  · intro c hc; simp [Bus.State.connected, Bus.State.init, Bus.Dict.get?] at hc
  · intro i hi; simp [BusRoute.State.init] at hi

section
variable {enc : Bus.Name → BusRoute.Name} {s : Bus.State} {r : BusRoute.State ρ}

/-- A connected connection of C13's model is there in C14's. -/
theorem Joint.conn_of (J : Joint enc s r) {c : Bus.Conn} (hc : s.connected c = true) :
    phi c + 1 = c ∧ phi c < r.conns.length ∧ r.conns[phi c]? = some (connOf s (phi c)) ∧
    (connOf s (phi c)).isConnected = true := by
  have key : ∀ (c n len : Nat), 1 ≤ c → c < n → len + 1 = n → c - 1 + 1 = c ∧ c - 1 < len := by
    intros; omega
  obtain ⟨hp, hl⟩ := key c s.nextId r.conns.length (J.pos c hc) (J.invN.fresh c hc) J.len
  have hp : phi c + 1 = c := hp
  have hl : phi c < r.conns.length := hl
  refine ⟨hp, hl, J.conn _ hl, ?_⟩
  show s.connected (phi c + 1) = true
  rw [hp]; exact hc

/-- Changes that leave the connections alone. -/
theorem Joint.of_frame (J : Joint enc s r) {s' : Bus.State} {r' : BusRoute.State ρ}
    (hN : Bus.Inv s') (hR : BusRoute.Inv r')
    (hconn : ∀ d, s'.connected d = s.connected d) (hnext : s'.nextId = s.nextId)
    (hconns : r'.conns = r.conns) (hrn : r'.nextId = r.nextId) (hrules : r'.rules = r.rules)
    (hown : OwnersAgree enc phi s' r'.owners) : Joint enc s' r' := by
  refine ⟨hN, hR, ?_, ?_, ?_, ?_, ?_, hown⟩
  · intro c hc; rw [hconn] at hc; exact J.pos c hc
  · rw [hrn, hnext]; exact J.next
  · rw [hconns, hnext]; exact J.len
  · intro i hi
    rw [hconns] at hi ⊢
    rw [J.conn i hi]
    simp only [connOf, hconn]
  · rw [hrules]; exact J.rules

/-- A bus call carrying `effs` by a connected connection of a joint state. -/
theorem Joint.busCall_state (J : Joint enc s r) (cfg : Cfg ρ) {c : Bus.Conn} (hc : s.connected c = true)
    (effs : List Effect) :
    BusRoute.final cfg r [.msg (phi c) (busCallMsg nameMember) (.exec effs)] = (applyEffects cfg r effs).1 := by
  obtain ⟨_, _, hget, hlive⟩ := J.conn_of hc
  exact step_busCall cfg r (phi c) _ _ nameMember effs hget hlive rfl rfl

theorem Joint.query_state (J : Joint enc s r) (cfg : Cfg ρ) (c : Bus.Conn) :
    BusRoute.final cfg r (genQuery s c) = r := by
  unfold genQuery
  by_cases hc : s.connected c = true
  · rw [if_pos hc, J.busCall_state cfg hc []]; rfl
  · rw [if_neg hc]; rfl

theorem busName_head : busName.head? = some 'o' := by decide

/-- The strings of the destinations are set, non-empty and not the bus's own name. -/
theorem destStr_addressed (hne : ∀ a, enc a ≠ [] ∧ enc a ≠ busName) (fgn : BusRoute.Name)
    (hf : fgn.head? = some ':') (d : Bus.Dest) : destStr enc fgn d ≠ [] ∧ destStr enc fgn d ≠ busName := by
  cases d with
  | unique k =>
    refine ⟨BusRoute.uniqueNameOf_ne_nil k, fun e => ?_⟩
    have := BusRoute.uniqueNameOf_head k
    simp only [destStr] at e
    rw [e, busName_head] at this
    cases this
  | foreign =>
    refine ⟨fun e => ?_, fun e => ?_⟩
    · simp only [destStr] at e; rw [e] at hf; cases hf
    · simp only [destStr] at e; rw [e, busName_head] at hf; cases hf
  | wellKnown n => exact hne n

/-- One step of C13's model and the events generated for it keep the joint invariant. -/
theorem joint_stepL {cfg : Cfg ρ} (hr : cfg.Repaired) (he : NameEnc enc)
    (hne : ∀ a, enc a ≠ [] ∧ enc a ≠ busName) (fgn : BusRoute.Name) (hf : fgn.head? = some ':')
    (J : Joint enc s r) {h : Bus.HStep} {s' : Bus.State} {o : Bus.HOut}
    (hs : Bus.stepL s h = .ok (s', o)) :
    Joint enc s' (BusRoute.final cfg r (genStep enc fgn s s' h)) := by
  have hN' : Bus.Inv s' := (Bus.stepL_refines J.invN hs).1
  have hR' : BusRoute.Inv (BusRoute.final cfg r (genStep enc fgn s s' h)) := BusRoute.final_inv hr J.invR _
  -- steps that change nothing on either side
  have same : s' = s → BusRoute.final cfg r (genStep enc fgn s s' h) = r →
      Joint enc s' (BusRoute.final cfg r (genStep enc fgn s s' h)) := by
    intro e1 e2; subst e1; rw [e2]; exact J
  cases h with
  | send c d =>
    simp only [Bus.stepL] at hs
    cases hs
    apply same rfl
    simp only [genStep]
    by_cases hc : s.connected c = true
    · rw [if_pos hc]
      obtain ⟨_, _, hget, hlive⟩ := J.conn_of hc
      obtain ⟨hd, hb⟩ := destStr_addressed hne fgn hf d
      exact (step_send hr r (phi c) _ _ _ hget hlive rfl hd hb).1
    · rw [if_neg hc]; rfl
  | ask c d =>
    simp only [Bus.stepL, Bus.getNameOwnerOf_post J.invN c d] at hs
    cases hs
    exact same rfl (J.query_state cfg c)
  | op op =>
    simp only [Bus.stepL] at hs
    cases h1 : Bus.step s op with
    | error e => simp [h1] at hs
    | ok p =>
      obtain ⟨s1, evs⟩ := p
      simp only [h1] at hs
      cases hs
      obtain ⟨hconn, hnext⟩ := Bus.step_connected J.invN h1
      cases op with
      | getOwner c n =>
        have : Bus.step s (.getOwner c n) = Bus.getNameOwner s c n := rfl
        rw [this, Bus.getNameOwner_post J.invN] at h1
        cases h1
        exact same rfl (J.query_state cfg c)
      | listQueued c n =>
        have : Bus.step s (.listQueued c n) = Bus.listQueuedOwners s c n := rfl
        rw [this, Bus.listQueuedOwners_post] at h1
        cases h1
        exact same rfl (J.query_state cfg c)
      | other c =>
        have : Bus.step s (.other c) = .ok (s, []) := rfl
        rw [this] at h1
        cases h1
        exact same rfl (J.query_state cfg c)
      | request c n w =>
        simp only [Bus.connectedAfter, Bus.nextIdAfter] at hconn hnext
        have hc : s.connected c = true := Bus.requestName_connected (show Bus.requestName s c n w = _ from h1)
        have hst : BusRoute.final cfg r (genStep enc fgn s s' (.op (.request c n w))) = _ :=
          J.busCall_state cfg hc _
        rw [hst] at hR' ⊢
        obtain ⟨f1, _, f3, _, f5⟩ := BusRoute.applyEffects_frame cfg r
          (ownerEffects enc phi (Bus.changedNames s (.request c n w)) s s')
        exact J.of_frame hN' hR' hconn hnext f1 f5 f3 (agree_step he cfg J.invN h1 r J.owners)
      | release c n =>
        simp only [Bus.connectedAfter, Bus.nextIdAfter] at hconn hnext
        have hc : s.connected c = true := Bus.releaseName_connected (show Bus.releaseName s c n = _ from h1)
        have hst : BusRoute.final cfg r (genStep enc fgn s s' (.op (.release c n))) = _ :=
          J.busCall_state cfg hc _
        rw [hst] at hR' ⊢
        obtain ⟨f1, _, f3, _, f5⟩ := BusRoute.applyEffects_frame cfg r
          (ownerEffects enc phi (Bus.changedNames s (.release c n)) s s')
        exact J.of_frame hN' hR' hconn hnext f1 f5 f3 (agree_step he cfg J.invN h1 r J.owners)
      | disconnect c =>
        simp only [Bus.connectedAfter, Bus.nextIdAfter] at hconn hnext
        have hc : s.connected c = true := Bus.disconnect_connected (show Bus.disconnect s c = _ from h1)
        obtain ⟨hp, hl, hget, hlive⟩ := J.conn_of hc
        have hok := BusRoute.disconnectOk_of_inv J.invR (phi c) _ hget hlive
        have hst : BusRoute.final cfg r (genStep enc fgn s s' (.op (.disconnect c))) = _ :=
          step_disconnect_state cfg r (phi c) _ _ hget hlive hok
        rw [hst] at hR' ⊢
        obtain ⟨d1, d2, _, d4, d5⟩ := BusRoute.dropClient_fields
          (applyEffects cfg { r with conns := r.conns.set (phi c) { connOf s (phi c) with isConnected := false },
                                     rules := r.rules.filter (fun x => !((connOf s (phi c)).matchRules.contains x.id)) }
            (ownerEffects enc phi (Bus.changedNames s (.disconnect c)) s s')).1
          (connOf s (phi c)).uniqueName
        obtain ⟨f1, _, f3, _, f5⟩ := BusRoute.applyEffects_frame cfg
          ({ r with conns := r.conns.set (phi c) { connOf s (phi c) with isConnected := false },
                    rules := r.rules.filter (fun x => !((connOf s (phi c)).matchRules.contains x.id)) } : BusRoute.State ρ)
          (ownerEffects enc phi (Bus.changedNames s (.disconnect c)) s s')
        refine ⟨hN', hR', ?_, ?_, ?_, ?_, ?_, ?_⟩
        · intro d hd
          rw [hconn d] at hd
          by_cases hdc : d = c
          · simp [hdc] at hd
          · simp only [hdc, if_false] at hd; exact J.pos d hd
        · rw [d4, f5, hnext]; exact J.next
        · rw [d1, f1, hnext]; simp only [List.length_set]; exact J.len
        · intro i hi
          rw [d1, f1] at hi ⊢
          simp only [List.length_set] at hi
          rw [List.getElem?_set]
          by_cases hi2 : phi c = i
          · subst hi2
            simp only [if_true, hl, connOf, hp, hconn c]
          · simp only [hi2, if_false]
            rw [J.conn i hi]
            have : i + 1 ≠ c := by
              intro e; apply hi2; rw [← e]; rfl
            simp only [connOf, hconn (i + 1), this, if_false]
        · rw [d2, f3]; simp [J.rules]
        · rw [d5]
          exact agree_applyEffects he cfg (fun n hn => Bus.step_lookup_frame J.invN h1 n hn)
            ({ r with conns := r.conns.set (phi c) { connOf s (phi c) with isConnected := false },
                      rules := r.rules.filter (fun x => !((connOf s (phi c)).matchRules.contains x.id)) } : BusRoute.State ρ)
            J.owners _ rfl
      | connect =>
        simp only [Bus.connectedAfter, Bus.nextIdAfter] at hconn hnext
        have hlen : s.nextId - 1 = r.conns.length := by
          have := J.len; omega
        have hst : BusRoute.final cfg r (genStep enc fgn s s' (.op .connect)) =
            { r with conns := r.conns ++ [{ uniqueName := some (uniqueNameOf r.nextId), calledHello := true,
                                            isConnected := true, matchRules := [] }],
                     nextId := r.nextId + 1,
                     clients := dset (uniqueNameOf r.nextId) r.conns.length r.clients } := by
          simp only [genStep, hlen]
          exact final_connect_hello cfg r
        rw [hst] at hR' ⊢
        refine ⟨hN', hR', ?_, ?_, ?_, ?_, J.rules, ?_⟩
        · intro d hd
          rw [hconn d] at hd
          by_cases hdn : d = s.nextId
          · rw [hdn, ← J.len]; exact Nat.succ_le_succ (Nat.zero_le _)
          · simp only [hdn, if_false] at hd; exact J.pos d hd
        · show r.nextId + 1 = s'.nextId
          rw [hnext, J.next]
        · show (r.conns ++ [_]).length + 1 = s'.nextId
          rw [hnext, List.length_append, ← J.len]; rfl
        · intro i hi
          have hi' : i < r.conns.length + 1 := by simpa using hi
          show (r.conns ++ [_])[i]? = _
          by_cases hlt : i < r.conns.length
          · rw [List.getElem?_append_left hlt, J.conn i hlt]
            have : i + 1 ≠ s.nextId := by have := J.len; omega
            simp only [connOf, hconn (i + 1), this, if_false]
          · have hi3 : i = r.conns.length := by omega
            subst hi3
            rw [List.getElem?_append_right (Nat.le_refl _)]
            have h3 : r.conns.length + 1 = s.nextId := J.len
            have hc1 : s'.connected s.nextId = true := by rw [hconn]; simp
            simp only [Nat.sub_self, List.getElem?_cons_zero, connOf, h3, hc1, J.next]
        · intro n
          show dget (enc n) r.owners = _
          rw [Bus.step_lookup_frame J.invN h1 n (by simp [Bus.changedNames])]
          exact J.owners n

/-- Whole histories. -/
theorem joint_run {cfg : Cfg ρ} (hr : cfg.Repaired) (he : NameEnc enc)
    (hne : ∀ a, enc a ≠ [] ∧ enc a ≠ busName) (fgn : BusRoute.Name) (hf : fgn.head? = some ':')
    {hs : List Bus.HStep} : ∀ {s : Bus.State} {r : BusRoute.State ρ} {s' : Bus.State} {outs : List Bus.HOut},
    Joint enc s r → Bus.runL s hs = .ok (s', outs) →
    Joint enc s' (BusRoute.final cfg r (gen enc fgn s hs)) := by
  induction hs with
  | nil =>
    intro s r s' outs J h
    simp only [Bus.runL] at h
    cases h
    exact J
  | cons x xs ih =>
    intro s r s' outs J h
    simp only [Bus.runL] at h
    cases h1 : Bus.stepL s x with
    | error e => simp [h1] at h
    | ok r1 =>
      obtain ⟨s1, o1⟩ := r1
      simp only [h1] at h
      cases h2 : Bus.runL s1 xs with
      | error e => simp [h2] at h
      | ok r2 =>
        obtain ⟨s2, os2⟩ := r2
        simp only [h2] at h
        cases h
        have J1 := joint_stepL hr he hne fgn hf J h1
        have := ih J1 h2
        simp only [gen, h1, BusRoute.final_append]
        exact this

/-- In a joint state C14's lookup for the string of ANY destination is C13's `routerLookup`
(well-known names through `owners`, unique names through C14's own client table). -/
theorem Joint.resolve (J : Joint enc s r) (he : NameEnc enc) (fgn : BusRoute.Name)
    (hf : fgn.head? = some ':') (hf2 : ∀ k, fgn ≠ uniqueNameOf k) (d : Bus.Dest) :
    BusRoute.resolve r (destStr enc fgn d) = (Bus.routerLookup s d).map phi := by
  cases d with
  | wellKnown n => exact resolve_is_routerLookup he r J.owners n
  | foreign =>
    show BusRoute.resolve r fgn = none
    unfold BusRoute.resolve
    rw [if_pos hf]
    cases hd : dget fgn r.clients with
    | none => rfl
    | some j =>
      obtain ⟨hn, _⟩ := (J.invR.clients_iff fgn j).mp hd
      have hj := BusRoute.nameOf_some_lt r j fgn hn
      rw [BusRoute.nameOf_of_getElem r j _ (J.conn j hj)] at hn
      exact absurd (Option.some.inj hn).symm (hf2 (j + 1))
  | unique k =>
    show BusRoute.resolve r (uniqueNameOf k) = _
    unfold BusRoute.resolve
    rw [if_pos (BusRoute.uniqueNameOf_head k), Bus.routerLookup_unique]
    by_cases hk : s.connected k = true
    · rw [if_pos hk]
      obtain ⟨hp, _, hget, hlive⟩ := J.conn_of hk
      apply (J.invR.clients_iff (uniqueNameOf k) (phi k)).mpr
      refine ⟨?_, ?_⟩
      · rw [BusRoute.nameOf_of_getElem r _ _ hget]
        show some (uniqueNameOf (phi k + 1)) = _
        rw [hp]
      · rw [BusRoute.connected_of_getElem r _ _ hget]; exact hlive
    · rw [if_neg hk]
      cases hd : dget (uniqueNameOf k) r.clients with
      | none => rfl
      | some j =>
        obtain ⟨hn, hcn⟩ := (J.invR.clients_iff (uniqueNameOf k) j).mp hd
        have hj := BusRoute.nameOf_some_lt r j _ hn
        rw [BusRoute.nameOf_of_getElem r j _ (J.conn j hj)] at hn
        rw [BusRoute.connected_of_getElem r j _ (J.conn j hj)] at hcn
        have hjk : j + 1 = k := BusRoute.uniqueNameOf_injective (Option.some.inj hn)
        have : s.connected k = true := by rw [← hjk]; exact hcn
        exact absurd this hk

/-- In a joint state the event generated for `send c d` by a connected `c` changes nothing and is
delivered to (C14's index of) the connection C13's `routerLookup` finds - and to nobody else, and to
nobody when it finds none. -/
theorem Joint.send (J : Joint enc s r) {cfg : Cfg ρ} (hr : cfg.Repaired) (he : NameEnc enc)
    (hne : ∀ a, enc a ≠ [] ∧ enc a ≠ busName) (fgn : BusRoute.Name) (hf : fgn.head? = some ':')
    (hf2 : ∀ k, fgn ≠ uniqueNameOf k) {c : Bus.Conn} (hc : s.connected c = true) (d : Bus.Dest) :
    (BusRoute.step cfg r (.msg (phi c) (addressedMsg (destStr enc fgn d)) (.exec []))).1 = r ∧
    (BusRoute.step cfg r (.msg (phi c) (addressedMsg (destStr enc fgn d)) (.exec []))).2.deliveries =
      (match Bus.routerLookup s d with
       | some k => [⟨phi k, .fwd (phi c) (BusRoute.remarshal (addressedMsg (destStr enc fgn d)) (uniqueNameOf c))⟩]
       | none => []) := by
  obtain ⟨hp, _, hget, hlive⟩ := J.conn_of hc
  obtain ⟨hd, hb⟩ := destStr_addressed hne fgn hf d
  have hname : (connOf s (phi c)).uniqueName = some (uniqueNameOf c) := by
    show some (uniqueNameOf (phi c + 1)) = _
    rw [hp]
  obtain ⟨a, b⟩ := step_send hr r (phi c) _ (uniqueNameOf c) _ hget hlive hname hd hb
  refine ⟨a, ?_⟩
  rw [b]
  unfold BusRoute.busSend
  rw [J.resolve he fgn hf hf2 d]
  cases Bus.routerLookup s d <;> rfl

theorem gen_append (fgn : BusRoute.Name) {h1 h2 : List Bus.HStep} : ∀ {s s1 : Bus.State} {o1 : List Bus.HOut},
    Bus.runL s h1 = .ok (s1, o1) →
    gen (ρ := ρ) enc fgn s (h1 ++ h2) = gen enc fgn s h1 ++ gen enc fgn s1 h2 := by
  induction h1 with
  | nil =>
    intro s s1 o1 h
    simp only [Bus.runL] at h
    cases h
    rfl
  | cons x xs ih =>
    intro s s1 o1 h
    simp only [Bus.runL] at h
    cases hx : Bus.stepL s x with
    | error e => simp [hx] at h
    | ok p =>
      obtain ⟨sx, ox⟩ := p
      simp only [hx] at h
      cases h2 : Bus.runL sx xs with
      | error e => simp [h2] at h
      | ok p2 =>
        obtain ⟨s2, os2⟩ := p2
        simp only [h2] at h
        cases h
        simp only [List.cons_append, gen, hx, ih h2, List.append_assoc]

/-- In a joint state the owner of a well-known name according to C14 is a live connection. -/
theorem Joint.owner_live (J : Joint enc s r) (he : NameEnc enc) (hs : Bus.Reachable s) (j : ConnId) (n : Bus.Name)
    (hj : BusRoute.Owns r j (enc n)) : BusRoute.Live r j := by
  apply names_owner_live he hs r J.owners _ j n hj
  intro k hk
  obtain ⟨_, _, hget, hlive⟩ := J.conn_of hk
  show BusRoute.connected r (phi k) = true
  rw [BusRoute.connected_of_getElem r _ _ hget]; exact hlive

/-! ### a concrete instance -/

/-- A colon name the bus never hands out. -/
def exForeign : BusRoute.Name := [':', 'x']

theorem exForeign_ok : exForeign.head? = some ':' ∧ ∀ k, exForeign ≠ uniqueNameOf k := by
  refine ⟨rfl, fun k h => ?_⟩
  simp [exForeign, uniqueNameOf] at h

theorem exEnc_addressed : ∀ a, exEnc a ≠ [] ∧ exEnc a ≠ busName := by
  intro a
  refine ⟨by simp [exEnc, List.replicate_succ], fun e => ?_⟩
  have h1 : (exEnc a).head? = some 'a' := by simp [exEnc, List.replicate_succ]
  rw [e, busName_head] at h1
  cases h1

end

end Txdbus.NamesRoute
