import TxdbusModel.Bus.Names
/-!
Lemmas about the Python-dict model and about the three *views* of the bus state
(`State.queue`, `State.connected`, `State.flag`): how `Dict.set`, `Dict.erase`, `setFlag`,
`delFlag` change them.  Everything later is stated through the views.
-/
namespace Txdbus.Bus

namespace Dict
variable {κ : Type} {ν : Type} [DecidableEq κ]

theorem get?_set (d : List (κ × ν)) (k q : κ) (v : ν) :
    get? (set d k v) q = if q = k then some v else get? d q := by
  induction d with
  | nil =>
    simp only [set, get?]
    by_cases h : q = k
    · simp [h]
    · have : ¬ k = q := fun e => h e.symm
      simp [h, this]
  | cons p t ih =>
    obtain ⟨k0, v0⟩ := p
    simp only [set]
    by_cases h0 : k0 = k
    · subst h0
      simp only [if_true, get?]
      by_cases h : q = k0
      · subst h; simp
      · have : ¬ k0 = q := fun e => h e.symm
        simp [h, this]
    · simp only [h0, if_false, get?, ih]
      by_cases h : q = k
      · subst h; simp [h0]
      · simp [h]

theorem get?_erase (d : List (κ × ν)) (k q : κ) :
    get? (erase d k) q = if q = k then none else get? d q := by
  induction d with
  | nil => simp [erase, get?]
  | cons p t ih =>
    obtain ⟨k0, v0⟩ := p
    unfold erase at ih ⊢
    by_cases h0 : k0 = k
    · subst h0
      simp only [List.filter, ne_eq, not_true_eq_false, decide_false, ih, get?]
      by_cases h : q = k0
      · simp [h]
      · have : ¬ k0 = q := fun e => h e.symm
        simp [h, this]
    · simp only [List.filter, ne_eq, h0, not_false_eq_true, decide_true, get?, ih]
      by_cases h : q = k
      · subst h; simp [h0]
      · simp [h]

end Dict

/-! ### views of raw components -/

def queueOf (bn : List (Name × List Conn)) (n : Name) : List Conn := (Dict.get? bn n).getD []
def connIn (cl : List (Conn × List (Name × Bool))) (c : Conn) : Bool := (Dict.get? cl c).isSome
def flagIn (cl : List (Conn × List (Name × Bool))) (c : Conn) (n : Name) : Option Bool :=
  (Dict.get? cl c).bind (fun t => Dict.get? t n)

theorem State.queue_eq (s : State) (n : Name) : s.queue n = queueOf s.busNames n := rfl
theorem State.connected_eq (s : State) (c : Conn) : s.connected c = connIn s.clients c := rfl
theorem State.flag_eq (s : State) (c : Conn) (n : Name) : s.flag c n = flagIn s.clients c n := rfl

theorem queueOf_set (bn : List (Name × List Conn)) (n m : Name) (q : List Conn) :
    queueOf (Dict.set bn n q) m = if m = n then q else queueOf bn m := by
  unfold queueOf; rw [Dict.get?_set]; split <;> rfl

theorem queueOf_erase (bn : List (Name × List Conn)) (n m : Name) :
    queueOf (Dict.erase bn n) m = if m = n then [] else queueOf bn m := by
  unfold queueOf; rw [Dict.get?_erase]; split <;> rfl

theorem connIn_setFlag (cl : List (Conn × List (Name × Bool))) (c d : Conn) (n : Name) (b : Bool) :
    connIn (setFlag cl c n b) d = connIn cl d := by
  unfold setFlag connIn
  cases h : Dict.get? cl c with
  | none => rfl
  | some t =>
    simp only [Dict.get?_set]
    by_cases hd : d = c
    · subst hd; simp [h]
    · simp [hd]

theorem connIn_delFlag (cl : List (Conn × List (Name × Bool))) (c d : Conn) (n : Name) :
    connIn (delFlag cl c n) d = connIn cl d := by
  unfold delFlag connIn
  cases h : Dict.get? cl c with
  | none => rfl
  | some t =>
    simp only [Dict.get?_set]
    by_cases hd : d = c
    · subst hd; simp [h]
    · simp [hd]

theorem flagIn_setFlag (cl : List (Conn × List (Name × Bool))) (c d : Conn) (n m : Name) (b : Bool)
    (hc : connIn cl c = true) :
    flagIn (setFlag cl c n b) d m = if d = c ∧ m = n then some b else flagIn cl d m := by
  unfold connIn at hc
  unfold setFlag flagIn
  cases h : Dict.get? cl c with
  | none => simp [h] at hc
  | some t =>
    simp only [Dict.get?_set]
    by_cases hd : d = c
    · subst hd
      simp only [if_true, Option.bind, Dict.get?_set, h, true_and]
    · simp [hd]

theorem flagIn_delFlag (cl : List (Conn × List (Name × Bool))) (c d : Conn) (n m : Name) :
    flagIn (delFlag cl c n) d m = if d = c ∧ m = n then none else flagIn cl d m := by
  unfold delFlag flagIn
  cases h : Dict.get? cl c with
  | none =>
    by_cases hd : d = c
    · subst hd; simp [h]
    · simp [hd]
  | some t =>
    simp only [Dict.get?_set]
    by_cases hd : d = c
    · subst hd
      simp only [if_true, Option.bind, Dict.get?_erase, h, true_and]
    · simp [hd]

theorem connIn_set (cl : List (Conn × List (Name × Bool))) (c d : Conn) (t : List (Name × Bool)) :
    connIn (Dict.set cl c t) d = if d = c then true else connIn cl d := by
  unfold connIn; rw [Dict.get?_set]; split <;> rfl

theorem connIn_erase (cl : List (Conn × List (Name × Bool))) (c d : Conn) :
    connIn (Dict.erase cl c) d = if d = c then false else connIn cl d := by
  unfold connIn; rw [Dict.get?_erase]; split <;> rfl

theorem flagIn_set_nil (cl : List (Conn × List (Name × Bool))) (c d : Conn) (m : Name) :
    flagIn (Dict.set cl c []) d m = if d = c then none else flagIn cl d m := by
  unfold flagIn; rw [Dict.get?_set]; split <;> rfl

theorem flagIn_erase (cl : List (Conn × List (Name × Bool))) (c d : Conn) (m : Name) :
    flagIn (Dict.erase cl c) d m = if d = c then none else flagIn cl d m := by
  unfold flagIn; rw [Dict.get?_erase]; split <;> rfl

theorem removeIfPresent_eq (q : List Conn) (c : Conn) : removeIfPresent q c = q.erase c := by
  unfold removeIfPresent
  split
  · rfl
  · rename_i h; exact (List.erase_of_not_mem h).symm

end Txdbus.Bus
