import TxdbusModel.Proofs.Bus.Reach
/-!
The router's reading of the name table (`routerLookup`, `getNameOwnerOf`, extension 2026-09-30):
it is the owner the specification names, on every state satisfying the invariant; histories with
lookups refine `Spec.RunL`.
-/
namespace Txdbus.Bus

/-! ### the lookup in terms of the views -/

theorem routerLookup_wellKnown {s : State} (hI : Inv s) (n : Name) :
    routerLookup s (.wellKnown n) = s.owner n := by
  unfold State.owner
  cases hq : Dict.get? s.busNames n with
  | none => simp only [routerLookup, hq, queue_of_get_none hq, List.head?_nil]
  | some q =>
    cases q with
    | nil => exact absurd hq (hI.noEmpty n)
    | cons o rest => simp only [routerLookup, hq, queue_of_get_some hq, List.head?_cons]

theorem routerLookup_unique (s : State) (k : Conn) :
    routerLookup s (.unique k) = if s.connected k = true then some k else none := by
  unfold State.connected
  cases hg : Dict.get? s.clients k <;> simp [routerLookup, hg]

theorem routerLookup_foreign (s : State) : routerLookup s .foreign = none := rfl

theorem head_absQueue (s : State) (n : Name) :
    ((absQueue s n).head?).map Spec.Entry.conn = (s.queue n).head? := by
  unfold absQueue ent
  cases s.queue n <;> rfl

theorem absQueue_eq_nil (s : State) (n : Name) : absQueue s n = [] ↔ s.queue n = [] := by
  unfold absQueue ent
  cases s.queue n <;> simp

/-- The router's lookup is the specification's owner of the abstracted state. -/
theorem routerLookup_abs {s : State} (hI : Inv s) (d : Dest) :
    routerLookup s d = (abs s).ownerOf d := by
  cases d with
  | unique k =>
    rw [routerLookup_unique]
    show _ = if s.connected k = true then some k else none
    rfl
  | foreign => rfl
  | wellKnown n =>
    rw [routerLookup_wellKnown hI]
    show _ = ((absQueue s n).head?).map Spec.Entry.conn
    rw [head_absQueue]
    rfl

/-- Whoever the router finds is connected. -/
theorem routerLookup_alive {s : State} (hI : Inv s) {d : Dest} {o : Conn}
    (h : routerLookup s d = some o) : s.connected o = true := by
  cases d with
  | unique k =>
    rw [routerLookup_unique] at h
    by_cases hk : s.connected k = true
    · rw [if_pos hk] at h; cases h; exact hk
    · rw [if_neg hk] at h; cases h
  | foreign => cases h
  | wellKnown n =>
    rw [routerLookup_wellKnown hI] at h
    unfold State.owner at h
    apply hI.alive n o
    cases hq : s.queue n with
    | nil => rw [hq] at h; cases h
    | cons x rest =>
      rw [hq] at h
      simp only [List.head?_cons, Option.some.injEq] at h
      subst h
      simp

/-- What GetNameOwner of any name answers: the router's lookup. -/
def lookupEvent (o : Option Conn) (c : Conn) : Event :=
  match o with
  | some x => .replyOwner c x
  | none => .replyNoOwner c

theorem getNameOwnerOf_post {s : State} (hI : Inv s) (c : Conn) (d : Dest) :
    getNameOwnerOf s c d = .ok (s, [lookupEvent (routerLookup s d) c]) := by
  cases d with
  | unique k =>
    cases hg : Dict.get? s.clients k <;> simp [getNameOwnerOf, routerLookup, hg, lookupEvent]
  | foreign => rfl
  | wellKnown n =>
    show getNameOwner s c n = _
    rw [getNameOwner_post hI, routerLookup_wellKnown hI]
    unfold State.owner
    cases s.queue n <;> rfl

theorem lookupEvent_toSpec (s : State) (hI : Inv s) (c : Conn) (d : Dest) :
    (lookupEvent (routerLookup s d) c).toSpec = some (Spec.ownerOfAnswer (abs s) c d) := by
  unfold Spec.ownerOfAnswer
  rw [← routerLookup_abs hI d]
  cases routerLookup s d <;> rfl

/-! ### histories with lookups -/

def HOut.toSpec : HOut → Spec.HEv
  | .events evs => .events (evs.filterMap Event.toSpec)
  | .delivered to => .delivered to

/-- One step of a history with lookups keeps the invariant and is a step of the specification. -/
theorem stepL_refines {s : State} (hI : Inv s) {h : HStep} {s' : State} {o : HOut}
    (hs : stepL s h = .ok (s', o)) : Inv s' ∧ Spec.StepL (abs s) h o.toSpec (abs s') := by
  cases h with
  | op op =>
    simp only [stepL] at hs
    cases h1 : step s op with
    | error e => simp [h1] at hs
    | ok r =>
      obtain ⟨s1, evs⟩ := r
      simp only [h1] at hs
      cases hs
      exact step_refines hI h1
  | send c d =>
    simp only [stepL] at hs
    cases hs
    exact ⟨hI, rfl, routerLookup_abs hI d⟩
  | sendBus c =>
    simp only [stepL] at hs
    cases hs
    exact ⟨hI, rfl, rfl⟩
  | ask c d =>
    simp only [stepL, getNameOwnerOf_post hI c d] at hs
    cases hs
    refine ⟨hI, rfl, ?_⟩
    show [lookupEvent (routerLookup s d) c].filterMap Event.toSpec = _
    simp [lookupEvent_toSpec s hI c d]

theorem runL_refines {hs : List HStep} : ∀ {s s' : State} {outs : List HOut}, Inv s →
    runL s hs = .ok (s', outs) → Inv s' ∧ Spec.RunL (abs s) hs (outs.map HOut.toSpec) (abs s') := by
  induction hs with
  | nil =>
    intro s s' outs hI h
    simp only [runL] at h
    cases h
    exact ⟨hI, Spec.RunL.nil _⟩
  | cons x xs ih =>
    intro s s' outs hI h
    simp only [runL] at h
    cases h1 : stepL s x with
    | error e => simp [h1] at h
    | ok r1 =>
      obtain ⟨s1, o1⟩ := r1
      simp only [h1] at h
      cases h2 : runL s1 xs with
      | error e => simp [h2] at h
      | ok r2 =>
        obtain ⟨s2, os2⟩ := r2
        simp only [h2] at h
        cases h
        obtain ⟨hI1, hst⟩ := stepL_refines hI h1
        obtain ⟨hI2, hrun⟩ := ih hI1 h2
        exact ⟨hI2, Spec.RunL.cons hst hrun⟩

/-- A history with lookups, cut at any point: the prefix runs, and the rest runs from where it ended. -/
theorem runL_append {h1 h2 : List HStep} : ∀ {s s' : State} {outs : List HOut},
    runL s (h1 ++ h2) = .ok (s', outs) →
    ∃ s1 o1 o2, runL s h1 = .ok (s1, o1) ∧ runL s1 h2 = .ok (s', o2) ∧ outs = o1 ++ o2 := by
  induction h1 with
  | nil =>
    intro s s' outs h
    exact ⟨s, [], outs, rfl, h, rfl⟩
  | cons x xs ih =>
    intro s s' outs h
    simp only [List.cons_append, runL] at h
    cases hx : stepL s x with
    | error e => simp [hx] at h
    | ok r1 =>
      obtain ⟨sx, ox⟩ := r1
      simp only [hx] at h
      cases hr : runL sx (xs ++ h2) with
      | error e => simp [hr] at h
      | ok r2 =>
        obtain ⟨s2, os2⟩ := r2
        simp only [hr] at h
        cases h
        obtain ⟨s1, o1, o2, ha, hb, hc⟩ := ih hr
        refine ⟨s1, ox :: o1, o2, ?_, hb, by rw [hc]; rfl⟩
        simp only [runL, hx, ha]

theorem runL_length {hs : List HStep} : ∀ {s s' : State} {outs : List HOut},
    runL s hs = .ok (s', outs) → outs.length = hs.length := by
  induction hs with
  | nil =>
    intro s s' outs h
    simp only [runL] at h
    cases h; rfl
  | cons x xs ih =>
    intro s s' outs h
    simp only [runL] at h
    cases h1 : stepL s x with
    | error e => simp [h1] at h
    | ok r1 =>
      obtain ⟨s1, o1⟩ := r1
      simp only [h1] at h
      cases h2 : runL s1 xs with
      | error e => simp [h2] at h
      | ok r2 =>
        obtain ⟨s2, os2⟩ := r2
        simp only [h2] at h
        cases h
        simp [ih h2]

/-- The name operations of a history with lookups (sends and questions are other traffic). -/
def HStep.toOp : HStep → Op
  | .op o => o
  | .send c _ => .other c
  | .ask c _ => .other c
  | .sendBus c => .other c

/-- The states a history with lookups goes through are states of the plain name history: lookups
change nothing. -/
theorem runL_state {hs : List HStep} : ∀ {s s' : State} {outs : List HOut}, Inv s →
    runL s hs = .ok (s', outs) → ∃ evss, run s (hs.map HStep.toOp) = .ok (s', evss) := by
  induction hs with
  | nil =>
    intro s s' outs _ h
    simp only [runL] at h
    cases h
    exact ⟨[], rfl⟩
  | cons x xs ih =>
    intro s s' outs hI h
    simp only [runL] at h
    cases h1 : stepL s x with
    | error e => simp [h1] at h
    | ok r1 =>
      obtain ⟨s1, o1⟩ := r1
      simp only [h1] at h
      cases h2 : runL s1 xs with
      | error e => simp [h2] at h
      | ok r2 =>
        obtain ⟨s2, os2⟩ := r2
        simp only [h2] at h
        cases h
        have hI1 := (stepL_refines hI h1).1
        obtain ⟨evss, hrun⟩ := ih hI1 h2
        cases x with
        | op o =>
          simp only [stepL] at h1
          cases h3 : step s o with
          | error e => simp [h3] at h1
          | ok r3 =>
            obtain ⟨s3, ev3⟩ := r3
            simp only [h3] at h1
            cases h1
            exact ⟨ev3 :: evss, by simp only [List.map_cons, HStep.toOp, run, h3, hrun]⟩
        | send c d =>
          simp only [stepL] at h1
          cases h1
          exact ⟨[] :: evss, by simp only [List.map_cons, HStep.toOp, run, step, hrun]⟩
        | sendBus c =>
          simp only [stepL] at h1
          cases h1
          exact ⟨[] :: evss, by simp only [List.map_cons, HStep.toOp, run, step, hrun]⟩
        | ask c d =>
          simp only [stepL, getNameOwnerOf_post hI c d] at h1
          cases h1
          exact ⟨[] :: evss, by simp only [List.map_cons, HStep.toOp, run, step, hrun]⟩

/-! ### which lookups an operation can change (what a router that keeps its own copy must be told) -/

theorem step_queue_frame {s : State} (hI : Inv s) {op : Op} {s' : State} {evs : List Event}
    (h : step s op = .ok (s', evs)) (n : Name) (hn : n ∉ changedNames s op) :
    s'.queue n = s.queue n := by
  cases op with
  | connect =>
    obtain ⟨s1, ev1, h1, p⟩ := connect_post hI
    have : step s .connect = connect s := rfl
    rw [this, h1] at h
    cases h
    exact p.queue_eq n
  | disconnect c =>
    have hs : step s (.disconnect c) = disconnect s c := rfl
    rw [hs] at h
    have hc := disconnect_connected h
    obtain ⟨s1, ev1, h1, p⟩ := disconnect_post hI hc
    rw [h1] at h
    cases h
    rw [p.queue_eq n]
    apply List.erase_of_not_mem
    intro hmem
    obtain ⟨t, b, ht, hb, _⟩ := flag_get (hI.tabled n c hmem)
    apply hn
    simp only [changedNames, ht]
    exact mem_keys_of_get hb
  | request c m w =>
    have hs : step s (.request c m w) = requestName s c m w := rfl
    rw [hs] at h
    have hc := requestName_connected h
    obtain ⟨s1, ev1, h1, p⟩ := requestName_post hI hc m w
    rw [h1] at h
    cases h
    have hne : n ≠ m := by
      intro e; apply hn; simp [changedNames, e]
    rw [p.queue_eq n, if_neg hne]
  | release c m =>
    have hs : step s (.release c m) = releaseName s c m := rfl
    rw [hs] at h
    have hc := releaseName_connected h
    obtain ⟨s1, ev1, code, h1, p⟩ := releaseName_post hI hc m
    rw [h1] at h
    cases h
    have hne : n ≠ m := by
      intro e; apply hn; simp [changedNames, e]
    rw [p.queue_eq n, if_neg hne]
  | getOwner c m =>
    have hs : step s (.getOwner c m) = getNameOwner s c m := rfl
    rw [hs, getNameOwner_post hI] at h
    cases h; rfl
  | listQueued c m =>
    have hs : step s (.listQueued c m) = listQueuedOwners s c m := rfl
    rw [hs, listQueuedOwners_post] at h
    cases h; rfl
  | other c =>
    have hs : step s (.other c) = .ok (s, []) := rfl
    rw [hs] at h
    cases h; rfl

/-- An operation changes the router's answer only for the names in `changedNames`. -/
theorem step_lookup_frame {s : State} (hI : Inv s) {op : Op} {s' : State} {evs : List Event}
    (h : step s op = .ok (s', evs)) (n : Name) (hn : n ∉ changedNames s op) :
    routerLookup s' (.wellKnown n) = routerLookup s (.wellKnown n) := by
  have hI' := (step_refines hI h).1
  rw [routerLookup_wellKnown hI', routerLookup_wellKnown hI]
  unfold State.owner
  rw [step_queue_frame hI h n hn]

/-- Who is connected after an operation. -/
def connectedAfter (s : State) (op : Op) (d : Conn) : Bool :=
  match op with
  | .connect => if d = s.nextId then true else s.connected d
  | .disconnect c => if d = c then false else s.connected d
  | _ => s.connected d

/-- Which unique name comes next after an operation. -/
def nextIdAfter (s : State) (op : Op) : Nat :=
  match op with
  | .connect => s.nextId + 1
  | _ => s.nextId

theorem step_connected {s : State} (hI : Inv s) {op : Op} {s' : State} {evs : List Event}
    (h : step s op = .ok (s', evs)) :
    (∀ d, s'.connected d = connectedAfter s op d) ∧ s'.nextId = nextIdAfter s op := by
  cases op with
  | connect =>
    obtain ⟨s1, ev1, h1, p⟩ := connect_post hI
    have : step s .connect = connect s := rfl
    rw [this, h1] at h
    cases h
    exact ⟨p.conn_eq, p.next_eq⟩
  | disconnect c =>
    have hs : step s (.disconnect c) = disconnect s c := rfl
    rw [hs] at h
    have hc := disconnect_connected h
    obtain ⟨s1, ev1, h1, p⟩ := disconnect_post hI hc
    rw [h1] at h
    cases h
    exact ⟨p.conn_eq, p.next_eq⟩
  | request c m w =>
    have hs : step s (.request c m w) = requestName s c m w := rfl
    rw [hs] at h
    have hc := requestName_connected h
    obtain ⟨s1, ev1, h1, p⟩ := requestName_post hI hc m w
    rw [h1] at h
    cases h
    exact ⟨p.conn_eq, p.next_eq⟩
  | release c m =>
    have hs : step s (.release c m) = releaseName s c m := rfl
    rw [hs] at h
    have hc := releaseName_connected h
    obtain ⟨s1, ev1, code, h1, p⟩ := releaseName_post hI hc m
    rw [h1] at h
    cases h
    refine ⟨fun d => ?_, p.next_eq⟩
    simp only [State.connected, p.clients_eq, connectedAfter]
  | getOwner c m =>
    have hs : step s (.getOwner c m) = getNameOwner s c m := rfl
    rw [hs, getNameOwner_post hI] at h
    cases h; exact ⟨fun _ => rfl, rfl⟩
  | listQueued c m =>
    have hs : step s (.listQueued c m) = listQueuedOwners s c m := rfl
    rw [hs, listQueuedOwners_post] at h
    cases h; exact ⟨fun _ => rfl, rfl⟩
  | other c =>
    have hs : step s (.other c) = .ok (s, []) := rfl
    rw [hs] at h
    cases h; exact ⟨fun _ => rfl, rfl⟩

end Txdbus.Bus
