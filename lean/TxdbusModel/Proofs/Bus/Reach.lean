import TxdbusModel.Proofs.Bus.StepRefine
/-!
Reachable states of the code model, the invariant on them, totality for connected callers,
and the history-level refinement.
-/
namespace Txdbus.Bus

/-- States a fresh bus can get into by any finite history of operations (any number of
connections and names; a step on which Python would raise has no successor). -/
inductive Reachable : State → Prop where
  | init : Reachable State.init
  | step {s s' : State} {op : Op} {evs : List Event} :
      Reachable s → step s op = .ok (s', evs) → Reachable s'

theorem inv_init : Inv State.init := by
  constructor
  · intro n; simp [State.queue, State.init, Dict.get?]
  · intro n c h; simp [State.queue, State.init, Dict.get?] at h
  · intro n c h; simp [State.queue, State.init, Dict.get?] at h
  · intro n; simp [State.init, Dict.get?]
  · intro c h; simp [State.connected, State.init, Dict.get?] at h

theorem inv_of_reachable {s : State} (h : Reachable s) : Inv s := by
  induction h with
  | init => exact inv_init
  | step _ hs ih => exact (step_refines ih hs).1

/-- The connection that sends the operation (none for a new connection). -/
def Op.caller : Op → Option Conn
  | .connect => none
  | .disconnect c => some c
  | .request c _ _ => some c
  | .release c _ => some c
  | .getOwner c _ => some c
  | .listQueued c _ => some c
  | .other c => some c

theorem step_ok {s : State} (hI : Inv s) (op : Op)
    (hc : ∀ c, op.caller = some c → s.connected c = true) : ∃ s' evs, step s op = .ok (s', evs) := by
  cases op with
  | connect => exact ⟨_, _, rfl⟩
  | disconnect c =>
    obtain ⟨s', evs, h, _⟩ := disconnect_post hI (hc c rfl)
    exact ⟨s', evs, h⟩
  | request c n w =>
    obtain ⟨s', evs, h, _⟩ := requestName_post hI (hc c rfl) n w
    exact ⟨s', evs, h⟩
  | release c n =>
    obtain ⟨s', evs, code, h, _⟩ := releaseName_post hI (hc c rfl) n
    exact ⟨s', _, h⟩
  | getOwner c n => exact ⟨_, _, getNameOwner_post hI c n⟩
  | listQueued c n => exact ⟨_, _, listQueuedOwners_post s c n⟩
  | other c => exact ⟨_, _, rfl⟩

/-- A history in which every operation is sent by a connection that is connected when it sends. -/
def WellFormed : State → List Op → Prop
  | _, [] => True
  | s, op :: ops =>
    (∀ c, op.caller = some c → s.connected c = true) ∧
    ∀ s' evs, step s op = .ok (s', evs) → WellFormed s' ops

theorem run_ok_of_wellFormed : ∀ (ops : List Op) {s : State}, Inv s → WellFormed s ops →
    ∃ s' evss, run s ops = .ok (s', evss)
  | [], s, _, _ => ⟨s, [], rfl⟩
  | op :: ops, s, hI, hw => by
    obtain ⟨s1, ev1, h1⟩ := step_ok hI op hw.1
    have hI1 := (step_refines hI h1).1
    obtain ⟨s2, evss, h2⟩ := run_ok_of_wellFormed ops hI1 (hw.2 s1 ev1 h1)
    exact ⟨s2, ev1 :: evss, by simp only [run, h1, h2]⟩

theorem abs_init : abs State.init = Spec.State.init := by
  unfold abs Spec.State.init
  congr 1

theorem run_refines {ops : List Op} : ∀ {s s' : State} {evss : List (List Event)}, Inv s →
    run s ops = .ok (s', evss) →
    Inv s' ∧ Spec.Run (abs s) ops (evss.map (fun evs => evs.filterMap Event.toSpec)) (abs s') := by
  induction ops with
  | nil =>
    intro s s' evss hI h
    simp only [run] at h
    cases h
    exact ⟨hI, Spec.Run.nil _⟩
  | cons op ops ih =>
    intro s s' evss hI h
    simp only [run] at h
    cases h1 : step s op with
    | error e => simp [h1] at h
    | ok r1 =>
      obtain ⟨s1, ev1⟩ := r1
      simp only [h1] at h
      cases h2 : run s1 ops with
      | error e => simp [h2] at h
      | ok r2 =>
        obtain ⟨s2, evs2⟩ := r2
        simp only [h2] at h
        cases h
        obtain ⟨hI1, hst⟩ := step_refines hI h1
        obtain ⟨hI2, hrun⟩ := ih hI1 h2
        exact ⟨hI2, Spec.Run.cons hst hrun⟩

theorem reachable_of_run {ops : List Op} : ∀ {s s' : State} {evss : List (List Event)}, Reachable s →
    run s ops = .ok (s', evss) → Reachable s' := by
  induction ops with
  | nil =>
    intro s s' evss hr h
    simp only [run] at h
    cases h; exact hr
  | cons op ops ih =>
    intro s s' evss hr h
    simp only [run] at h
    cases h1 : step s op with
    | error e => simp [h1] at h
    | ok r1 =>
      obtain ⟨s1, ev1⟩ := r1
      simp only [h1] at h
      cases h2 : run s1 ops with
      | error e => simp [h2] at h
      | ok r2 =>
        obtain ⟨s2, evs2⟩ := r2
        simp only [h2] at h
        cases h
        exact ih (Reachable.step hr h1) h2

end Txdbus.Bus
