import TxdbusModel.Bus.SpecNames
/-!
The executable instance `Spec.exec` of the specification (used by the driver to cross-check the
harness's reference table) only makes steps the relation `Spec.Step` allows.
-/
namespace Txdbus.Bus.Spec

theorem handover_only (q : List Entry) (c : Conn) (n : Name) :
    ∀ e ∈ (handover q c).map (Told.ev n), ∃ t, e = .nameAcquired t n := by
  intro e he
  cases q with
  | nil => simp [handover] at he
  | cons o rest =>
    cases rest with
    | nil => simp [handover] at he
    | cons nx r2 =>
      simp only [handover] at he
      split at he
      · simp only [List.map_cons, List.map_nil, List.mem_singleton] at he
        exact ⟨nx.conn, he⟩
      · simp at he

theorem filter_handover (q : List Entry) (c : Conn) (n m : Name) :
    ((handover q c).map (Told.ev n)).filter (fun e => decide (e.name? = some m))
      = if m = n then (handover q c).map (Told.ev n) else [] := by
  have hall := handover_only q c n
  by_cases hm : m = n
  · subst hm
    simp only [if_true]
    apply List.filter_eq_self.mpr
    intro e he
    obtain ⟨t, rfl⟩ := hall e he
    simp [Ev.name?]
  · simp only [hm, if_false]
    apply List.filter_eq_nil_iff.mpr
    intro e he
    obtain ⟨t, rfl⟩ := hall e he
    simp only [Ev.name?, Option.some.injEq, decide_eq_true_eq]
    exact fun e => hm e.symm

theorem filter_flatMap_handover (σ : State) (c : Conn) (m : Name) (names : List Name)
    (hnd : names.Nodup) :
    (names.flatMap (fun n => (handover (σ.queue n) c).map (Told.ev n))).filter
        (fun e => decide (e.name? = some m))
      = if m ∈ names then (handover (σ.queue m) c).map (Told.ev m) else [] := by
  induction names with
  | nil => simp
  | cons n rest ih =>
    have hnd' := List.nodup_cons.mp hnd
    simp only [List.flatMap_cons, List.filter_append, filter_handover, ih hnd'.2, List.mem_cons]
    by_cases hm : m = n
    · subst hm
      simp [hnd'.1]
    · simp [hm]

/-- `exec` is sound: whenever it makes a step, `Step` allows that step - provided `names` lists,
without repetition, every name whose queue could hand over on a disconnect. -/
theorem exec_sound {names : List Name} {fresh : Conn} {σ σ' : State} {op : Op} {evs : List Ev}
    (hnd : names.Nodup) (hcover : ∀ n, σ.queue n ≠ [] → n ∈ names)
    (h : exec names fresh σ op = some (σ', evs)) : Step σ op evs σ' := by
  cases op with
  | connect =>
    simp only [exec] at h
    split at h
    · cases h
    · rename_i hc
      cases h
      exact ⟨fresh, by simpa using hc, rfl, rfl, rfl⟩
  | request c n w =>
    simp only [exec] at h
    split at h
    · rename_i hc
      cases h
      exact ⟨hc, false, rfl, rfl, rfl⟩
    · cases h
  | release c n =>
    simp only [exec] at h
    split at h
    · rename_i hc
      cases h
      exact ⟨hc, rfl, rfl, rfl⟩
    · cases h
  | disconnect c =>
    simp only [exec] at h
    split at h
    · rename_i hc
      cases h
      refine ⟨hc, rfl, fun _ => rfl, ?_, ?_⟩
      · intro e he
        obtain ⟨n, _, hen⟩ := List.mem_flatMap.mp he
        obtain ⟨t, rfl⟩ := handover_only _ _ _ e hen
        exact ⟨t, n, rfl⟩
      · intro m
        rw [filter_flatMap_handover σ c m names hnd]
        split
        · rfl
        · rename_i hm
          have : σ.queue m = [] := by
            cases hq : σ.queue m with
            | nil => rfl
            | cons o r => exact absurd (hcover m (by rw [hq]; simp)) hm
          rw [this]; rfl
    · cases h
  | getOwner c n =>
    simp only [exec] at h
    cases h
    exact ⟨rfl, rfl⟩
  | listQueued c n =>
    simp only [exec] at h
    cases h
    exact ⟨rfl, rfl⟩
  | other c =>
    simp only [exec] at h
    cases h
    exact ⟨rfl, rfl⟩

end Txdbus.Bus.Spec
