import TxdbusModel.Proofs.Bus.Invariant
/-!
`releaseAll`, `disconnect`, `connect` and the queries: exact effect on the views, invariant.
-/
namespace Txdbus.Bus

open Txdbus.Gen.C13Codes

/-- The name a signal is about. -/
def Event.about : Event → Option Name
  | .nameAcquired _ n => some n
  | .nameLost _ n => some n
  | .ownerChanged n _ _ => some n
  | _ => none

theorem relEvents_false (q : List Conn) (c : Conn) (n : Name) :
    relEvents q c n false = handoverEvents q c n := by
  cases q with
  | nil => rfl
  | cons o rest =>
    cases rest with
    | nil => simp [relEvents, handoverEvents]
    | cons nx r2 =>
      simp only [relEvents, handoverEvents]
      split <;> simp

theorem handoverEvents_not_mem {q : List Conn} {c : Conn} (n : Name) (h : c ∉ q) :
    handoverEvents q c n = [] := by
  cases q with
  | nil => rfl
  | cons o rest =>
    cases rest with
    | nil => rfl
    | cons nx r2 =>
      simp only [handoverEvents]
      have : ¬ o = c := by
        intro e; subst e; exact h (by simp)
      simp [this]

theorem handoverEvents_only (q : List Conn) (c : Conn) (n : Name) :
    ∀ e ∈ handoverEvents q c n, ∃ t, e = .nameAcquired t n := by
  intro e he
  cases q with
  | nil => simp [handoverEvents] at he
  | cons o rest =>
    cases rest with
    | nil => simp [handoverEvents] at he
    | cons nx r2 =>
      simp only [handoverEvents] at he
      split at he
      · simp only [List.mem_singleton] at he; exact ⟨nx, he⟩
      · simp at he

theorem filter_about_handover (q : List Conn) (c : Conn) (n m : Name) :
    (handoverEvents q c n).filter (fun e => decide (e.about = some m))
      = if m = n then handoverEvents q c n else [] := by
  have hall := handoverEvents_only q c n
  by_cases hm : m = n
  · subst hm
    simp only [if_true]
    apply List.filter_eq_self.mpr
    intro e he
    obtain ⟨t, rfl⟩ := hall e he
    simp [Event.about]
  · simp only [hm, if_false]
    apply List.filter_eq_nil_iff.mpr
    intro e he
    obtain ⟨t, rfl⟩ := hall e he
    simp only [Event.about, Option.some.injEq, decide_eq_true_eq]
    exact fun e => hm e.symm

theorem erase_erase_self {q : List Conn} (hq : q.Nodup) (c : Conn) :
    (q.erase c).erase c = q.erase c := by
  apply List.erase_of_not_mem
  intro h
  exact ((hq.mem_erase_iff).mp h).1 rfl

structure RelAllPost (s : State) (c : Conn) (ns : List Name) (s' : State) (evs : List Event) : Prop where
  queue_eq : ∀ m, s'.queue m = if m ∈ ns then (s.queue m).erase c else s.queue m
  clients_eq : s'.clients = s.clients
  next_eq : s'.nextId = s.nextId
  inv : Inv s'
  evs_only : ∀ e ∈ evs, ∃ t n, e = .nameAcquired t n
  evs_eq : ∀ m, evs.filter (fun e => decide (e.about = some m))
              = if m ∈ ns then handoverEvents (s.queue m) c m else []

theorem releaseAll_post (c : Conn) (ns : List Name) :
    ∀ {s : State}, Inv s → s.connected c = true →
      ∃ s' evs, releaseAll s c ns = .ok (s', evs) ∧ RelAllPost s c ns s' evs := by
  induction ns with
  | nil =>
    intro s hI hc
    refine ⟨s, [], rfl, ?_⟩
    constructor
    · intro m; simp
    · rfl
    · rfl
    · exact hI
    · intro e he; cases he
    · intro m; simp
  | cons n rest ih =>
    intro s hI hc
    obtain ⟨s1, ev1, code, h1, p1⟩ := releaseCore_post hI hc n false
    have hI1 : Inv s1 := releaseCore_inv hI p1
    have hc1 : s1.connected c = true := by
      simp only [State.connected, p1.clients_eq]; exact hc
    obtain ⟨s2, ev2, h2, p2⟩ := ih hI1 hc1
    refine ⟨s2, ev1 ++ ev2, ?_, ?_⟩
    · simp only [releaseAll, h1, h2]
    · have hev1 : ev1 = handoverEvents (s.queue n) c n := by
        rw [p1.evs_eq, relEvents_false]
      constructor
      · intro m
        rw [p2.queue_eq, p1.queue_eq]
        by_cases hm : m = n
        · subst hm
          simp only [if_true, List.mem_cons, true_or]
          split
          · exact erase_erase_self (hI.nodup m) c
          · rfl
        · simp only [hm, if_false, List.mem_cons, false_or]
      · rw [p2.clients_eq, p1.clients_eq]
      · rw [p2.next_eq, p1.next_eq]
      · exact p2.inv
      · intro e he
        rcases List.mem_append.mp he with h | h
        · rw [hev1] at h
          obtain ⟨t, ht⟩ := handoverEvents_only _ _ _ e h
          exact ⟨t, n, ht⟩
        · exact p2.evs_only e h
      · intro m
        rw [List.filter_append, p2.evs_eq, hev1, filter_about_handover]
        by_cases hm : m = n
        · subst hm
          simp only [if_true, List.mem_cons, true_or]
          split
          · rw [p1.queue_eq]
            simp only [if_true]
            have hnot : c ∉ (s.queue m).erase c := by
              intro h; exact (((hI.nodup m).mem_erase_iff).mp h).1 rfl
            rw [handoverEvents_not_mem m hnot]; simp
          · simp
        · simp only [hm, if_false, List.mem_cons, false_or, List.nil_append]
          rw [p1.queue_eq]; simp only [hm, if_false]

theorem mem_keys_of_get {t : List (Name × Bool)} {m : Name} {b : Bool}
    (h : Dict.get? t m = some b) : m ∈ Dict.keys t := by
  induction t with
  | nil => simp [Dict.get?] at h
  | cons p t ih =>
    obtain ⟨k, v⟩ := p
    simp only [Dict.get?] at h
    by_cases hk : k = m
    · subst hk; simp [Dict.keys]
    · simp only [hk, if_false] at h
      have := ih h
      simp only [Dict.keys, List.map_cons, List.mem_cons] at this ⊢
      exact Or.inr this

structure DiscPost (s : State) (c : Conn) (s' : State) (evs : List Event) : Prop where
  queue_eq : ∀ m, s'.queue m = (s.queue m).erase c
  conn_eq : ∀ d, s'.connected d = if d = c then false else s.connected d
  flag_eq : ∀ d m, s'.flag d m = if d = c then none else s.flag d m
  next_eq : s'.nextId = s.nextId
  noEmpty : ∀ m, Dict.get? s'.busNames m ≠ some []
  evs_only : ∀ e ∈ evs, ∃ t n, e = .nameAcquired t n
  evs_eq : ∀ m, evs.filter (fun e => decide (e.about = some m)) = handoverEvents (s.queue m) c m

theorem disconnect_post {s : State} (hI : Inv s) {c : Conn} (hc : s.connected c = true) :
    ∃ s' evs, disconnect s c = .ok (s', evs) ∧ DiscPost s c s' evs := by
  obtain ⟨t, ht⟩ := connected_get hc
  obtain ⟨s1, evs, h1, p1⟩ := releaseAll_post c (Dict.keys t) hI hc
  refine ⟨{ s1 with clients := Dict.erase s1.clients c }, evs, ?_, ?_⟩
  · simp only [disconnect, ht, h1]
  · have hnot : ∀ m, m ∉ Dict.keys t → c ∉ s.queue m := by
      intro m hm hmem
      obtain ⟨t', b, ht', hb, _⟩ := flag_get (hI.tabled m c hmem)
      rw [ht] at ht'
      cases ht'
      exact hm (mem_keys_of_get hb)
    constructor
    · intro m
      show queueOf s1.busNames m = _
      rw [← State.queue_eq, p1.queue_eq]
      split
      · rfl
      · rename_i hm; exact (List.erase_of_not_mem (hnot m hm)).symm
    · intro d
      show connIn (Dict.erase s1.clients c) d = _
      rw [connIn_erase, p1.clients_eq]; rfl
    · intro d m
      show flagIn (Dict.erase s1.clients c) d m = _
      rw [flagIn_erase, p1.clients_eq]; rfl
    · exact p1.next_eq
    · exact p1.inv.noEmpty
    · exact p1.evs_only
    · intro m
      rw [p1.evs_eq]
      split
      · rfl
      · rename_i hm; exact (handoverEvents_not_mem m (hnot m hm)).symm

theorem disconnect_inv {s : State} (hI : Inv s) {c : Conn} {s' : State} {evs : List Event}
    (hp : DiscPost s c s' evs) : Inv s' := by
  constructor
  · intro m; rw [hp.queue_eq]; exact (hI.nodup m).erase c
  · intro m d hd
    rw [hp.queue_eq] at hd
    have := ((hI.nodup m).mem_erase_iff).mp hd
    rw [hp.conn_eq]; simp only [this.1, if_false]
    exact hI.alive m d this.2
  · intro m d hd
    rw [hp.queue_eq] at hd
    have := ((hI.nodup m).mem_erase_iff).mp hd
    rw [hp.flag_eq]; simp only [this.1, if_false]
    exact hI.tabled m d this.2
  · exact hp.noEmpty
  · intro d hd
    rw [hp.conn_eq] at hd
    rw [hp.next_eq]
    split at hd
    · cases hd
    · exact hI.fresh d hd

structure ConnPost (s : State) (s' : State) (evs : List Event) : Prop where
  evs_eq : evs = []
  queue_eq : ∀ m, s'.queue m = s.queue m
  conn_eq : ∀ d, s'.connected d = if d = s.nextId then true else s.connected d
  flag_eq : ∀ d m, s'.flag d m = if d = s.nextId then none else s.flag d m
  next_eq : s'.nextId = s.nextId + 1
  noEmpty : ∀ m, Dict.get? s'.busNames m ≠ some []

theorem connect_post {s : State} (hI : Inv s) :
    ∃ s' evs, connect s = .ok (s', evs) ∧ ConnPost s s' evs := by
  refine ⟨_, _, rfl, ?_⟩
  constructor
  · rfl
  · intro m; rfl
  · intro d
    show connIn (Dict.set s.clients s.nextId []) d = _
    rw [connIn_set]; rfl
  · intro d m
    show flagIn (Dict.set s.clients s.nextId []) d m = _
    rw [flagIn_set_nil]; rfl
  · rfl
  · exact hI.noEmpty

theorem fresh_not_connected {s : State} (hI : Inv s) : s.connected s.nextId = false := by
  cases h : s.connected s.nextId with
  | false => rfl
  | true => exact absurd (hI.fresh _ h) (Nat.lt_irrefl _)

theorem connect_inv {s : State} (hI : Inv s) {s' : State} {evs : List Event}
    (hp : ConnPost s s' evs) : Inv s' := by
  have hne : ∀ m d, d ∈ s.queue m → d ≠ s.nextId := by
    intro m d hd e
    have := hI.fresh d (hI.alive m d hd)
    rw [e] at this
    exact Nat.lt_irrefl _ this
  constructor
  · intro m; rw [hp.queue_eq]; exact hI.nodup m
  · intro m d hd
    rw [hp.queue_eq] at hd
    rw [hp.conn_eq]; simp only [hne m d hd, if_false]
    exact hI.alive m d hd
  · intro m d hd
    rw [hp.queue_eq] at hd
    rw [hp.flag_eq]; simp only [hne m d hd, if_false]
    exact hI.tabled m d hd
  · exact hp.noEmpty
  · intro d hd
    rw [hp.conn_eq] at hd
    rw [hp.next_eq]
    split at hd
    · rename_i h; rw [h]; exact Nat.lt_succ_self _
    · exact Nat.lt_succ_of_lt (hI.fresh d hd)

/-! ### queries -/

def ownerEvent (q : List Conn) (c : Conn) : Event :=
  match q with
  | [] => .replyNoOwner c
  | o :: _ => .replyOwner c o

def listEvent (q : List Conn) (c : Conn) : Event :=
  match q with
  | [] => .replyNoOwner c
  | _ :: _ => .replyQueue c q

theorem getNameOwner_post {s : State} (hI : Inv s) (c : Conn) (n : Name) :
    getNameOwner s c n = .ok (s, [ownerEvent (s.queue n) c]) := by
  unfold getNameOwner
  cases hq : Dict.get? s.busNames n with
  | none => rw [queue_of_get_none hq]; rfl
  | some q =>
    cases q with
    | nil => exact absurd hq (hI.noEmpty n)
    | cons o rest => rw [queue_of_get_some hq]; rfl

theorem listQueuedOwners_post (s : State) (c : Conn) (n : Name) :
    listQueuedOwners s c n = .ok (s, [listEvent (s.queue n) c]) := by
  unfold listQueuedOwners
  cases hq : Dict.get? s.busNames n with
  | none => rw [queue_of_get_none hq]; rfl
  | some q =>
    cases q with
    | nil => rw [queue_of_get_some hq]; rfl
    | cons o rest => rw [queue_of_get_some hq]; rfl

theorem releaseName_post {s : State} (hI : Inv s) {c : Conn} (hc : s.connected c = true)
    (n : Name) :
    ∃ s' evs code, releaseName s c n = .ok (s', evs ++ [.reply c code]) ∧ RelPost s c n true s' evs code := by
  obtain ⟨s', evs, code, h, p⟩ := releaseCore_post hI hc n true
  exact ⟨s', evs, code, by simp only [releaseName, h], p⟩

end Txdbus.Bus
