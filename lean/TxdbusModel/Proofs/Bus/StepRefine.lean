import TxdbusModel.Proofs.Bus.Refine
/-!
Every successful step of the code model preserves the invariant and is a step of the
specification (on the abstracted states, with the NameOwnerChanged broadcasts dropped).
-/
namespace Txdbus.Bus

open Txdbus.Gen.C13Codes

theorem requestName_connected {s : State} {c : Conn} {n : Name} {w : Nat} {r : State × List Event}
    (h : requestName s c n w = .ok r) : s.connected c = true := by
  unfold requestName at h
  unfold State.connected
  cases hg : Dict.get? s.clients c with
  | none => simp [hg] at h
  | some t => rfl

theorem releaseName_connected {s : State} {c : Conn} {n : Name} {r : State × List Event}
    (h : releaseName s c n = .ok r) : s.connected c = true := by
  unfold releaseName releaseCore at h
  unfold State.connected
  cases hg : Dict.get? s.clients c with
  | none => simp [hg] at h
  | some t => rfl

theorem disconnect_connected {s : State} {c : Conn} {r : State × List Event}
    (h : disconnect s c = .ok r) : s.connected c = true := by
  unfold disconnect at h
  unfold State.connected
  cases hg : Dict.get? s.clients c with
  | none => simp [hg] at h
  | some t => rfl

theorem ownerAllow_head {s : State} {n : Name} {o : Conn} {rest : List Conn}
    (h : s.queue n = o :: rest) : s.ownerAllow n = (s.flag o n).getD false := by
  simp [State.ownerAllow, h]

theorem reqEvents_toSpec (c : Conn) (n : Name) (k : ReqCase) :
    (reqEvents c n k).filterMap Event.toSpec
      = (specTold c k).map (Spec.Told.ev n) ++ [.reply c (specReply k).code] := by
  cases k <;> rfl

theorem absQueue_request {s s' : State} (hI : Inv s) {c : Conn} {n : Name} {w : Nat}
    {evs : List Event} (p : ReqPost s c n w s' evs) (m : Name) :
    absQueue s' m =
      if m = n then (Spec.request (absQueue s n) c (Spec.Flags.ofWord w) false).1 else absQueue s m := by
  by_cases hm : m = n
  · subst hm
    simp only [if_true]
    have hr := request_refines (hI.nodup m) c (decodeFlags w)
      (fun d => (s.flag d m).getD false) (fun d => (s'.flag d m).getD false) (s.ownerAllow m)
      (fun o rest h => ownerAllow_head h)
      (by
        intro hk
        simp only [p.flag_eq]
        cases hcase : reqCase (s.queue m) c (decodeFlags w) (s.ownerAllow m) with
        | refuse => exact absurd hcase hk
        | _ => simp [reqFlag])
      (by
        intro d hd hdc
        simp only [p.flag_eq]
        cases hcase : reqCase (s.queue m) c (decodeFlags w) (s.ownerAllow m) with
        | replace old =>
          rw [hcase] at hd
          have hdo : d ≠ old := by
            intro e; subst e
            exact old_not_mem_reqQueue (hI.nodup m) hcase hd
          simp [reqFlag, hdc, hdo]
        | _ => simp [reqFlag, hdc])
    rw [specFlags_decode] at hr
    unfold absQueue
    rw [hr, p.queue_eq]
    simp
  · simp only [hm, if_false]
    unfold absQueue
    rw [p.queue_eq]
    simp only [hm, if_false]
    apply ent_congr
    intro d _
    rw [p.flag_eq]
    cases reqCase (s.queue n) c (decodeFlags w) (s.ownerAllow n) <;> simp [reqFlag, hm]

theorem request_reply_told {s : State} (hI : Inv s) (c : Conn) (n : Name) (w : Nat) :
    (Spec.request (absQueue s n) c (Spec.Flags.ofWord w) false).2
      = (specReply (reqCase (s.queue n) c (decodeFlags w) (s.ownerAllow n)),
         specTold c (reqCase (s.queue n) c (decodeFlags w) (s.ownerAllow n))) := by
  have hr := request_refines (hI.nodup n) c (decodeFlags w)
      (fun d => (s.flag d n).getD false)
      (fun d => if d = c then (decodeFlags w).allow else (s.flag d n).getD false) (s.ownerAllow n)
      (fun o rest h => ownerAllow_head h)
      (by intro _; simp)
      (by intro d _ hdc; simp [hdc])
  rw [specFlags_decode] at hr
  unfold absQueue
  rw [hr]

/-- One step of the code model is one step of the specification, and keeps the invariant. -/
theorem step_refines {s : State} (hI : Inv s) {op : Op} {s' : State} {evs : List Event}
    (h : step s op = .ok (s', evs)) :
    Inv s' ∧ Spec.Step (abs s) op (evs.filterMap Event.toSpec) (abs s') := by
  cases op with
  | connect =>
    obtain ⟨s1, ev1, h1, p⟩ := connect_post hI
    simp only [step] at h
    rw [h1] at h
    cases h
    refine ⟨connect_inv hI p, s.nextId, fresh_not_connected hI, ?_, ?_, ?_⟩
    · funext d
      show s'.connected d = _
      rw [p.conn_eq]; rfl
    · funext m
      show absQueue s' m = absQueue s m
      unfold absQueue
      rw [p.queue_eq]
      apply ent_congr
      intro d hd
      rw [p.flag_eq]
      have : d ≠ s.nextId := by
        intro e
        have := hI.fresh d (hI.alive m d hd)
        rw [e] at this
        exact Nat.lt_irrefl _ this
      simp [this]
    · rw [p.evs_eq]; rfl
  | disconnect c =>
    simp only [step] at h
    have hc := disconnect_connected h
    obtain ⟨s1, ev1, h1, p⟩ := disconnect_post hI hc
    rw [h1] at h
    cases h
    refine ⟨disconnect_inv hI p, hc, ?_, ?_, ?_, ?_⟩
    · funext d
      show s'.connected d = _
      rw [p.conn_eq]; rfl
    · intro m
      show absQueue s' m = Spec.without (absQueue s m) c
      unfold absQueue
      rw [without_ent (hI.nodup m) c, p.queue_eq]
      apply ent_congr
      intro d hd
      have := ((hI.nodup m).mem_erase_iff).mp hd
      rw [p.flag_eq]; simp [this.1]
    · intro e he
      obtain ⟨e0, he0, hte⟩ := List.mem_filterMap.mp he
      obtain ⟨t, n, rfl⟩ := p.evs_only e0 he0
      simp only [Event.toSpec, Option.some.injEq] at hte
      exact ⟨t, n, hte.symm⟩
    · intro m
      have hfil : (evs.filterMap Event.toSpec).filter (fun e => decide (e.name? = some m))
          = (evs.filter (fun e => decide (e.about = some m))).filterMap Event.toSpec := by
        have hall := p.evs_only
        clear h1 p
        induction evs with
        | nil => rfl
        | cons e rest ih =>
          obtain ⟨t, n, rfl⟩ := hall _ (List.mem_cons_self)
          have ih' := ih (fun e he => hall e (List.mem_cons_of_mem _ he))
          have ha : (Event.nameAcquired t n).about = some n := rfl
          have hb : (Spec.Ev.nameAcquired t n).name? = some n := rfl
          simp only [List.filterMap_cons, Event.toSpec, List.filter_cons, ha, hb]
          by_cases hnm : n = m
          · subst hnm
            simp only [decide_true, if_true, List.filterMap_cons, Event.toSpec, ih']
          · have hne : ¬ (some n = some m) := by simpa using hnm
            simp only [hne, decide_false, Bool.false_eq_true, if_false, ih']
      rw [hfil, p.evs_eq]
      exact handover_ent _ _ _ _
  | request c n w =>
    simp only [step] at h
    have hc := requestName_connected h
    obtain ⟨s1, ev1, h1, p⟩ := requestName_post hI hc n w
    rw [h1] at h
    cases h
    refine ⟨requestName_inv hI hc p, hc, false, ?_, ?_, ?_⟩
    · funext d; exact p.conn_eq d
    · funext m
      show absQueue s' m = _
      rw [absQueue_request hI p m]
      unfold Spec.upd
      rfl
    · rw [p.evs_eq, reqEvents_toSpec]
      show _ = List.map (Spec.Told.ev n) (Spec.request (absQueue s n) c (Spec.Flags.ofWord w) false).2.2
            ++ [Spec.Ev.reply c (Spec.request (absQueue s n) c (Spec.Flags.ofWord w) false).2.1.code]
      rw [request_reply_told hI c n w]
  | release c n =>
    simp only [step] at h
    have hc := releaseName_connected h
    obtain ⟨s1, ev1, code, h1, p⟩ := releaseName_post hI hc n
    rw [h1] at h
    cases h
    have hflag : ∀ d m, s'.flag d m = s.flag d m := by
      intro d m; simp only [State.flag, p.clients_eq]
    obtain ⟨hrel, hev⟩ := release_refines (hI.nodup n) c n (fun d => (s.flag d n).getD false)
    refine ⟨releaseCore_inv hI p, hc, ?_, ?_, ?_⟩
    · funext d
      show s'.connected d = s.connected d
      simp only [State.connected, p.clients_eq]
    · funext m
      show absQueue s' m = Spec.upd (absQueue s) n (Spec.release (absQueue s n) c).1 m
      unfold Spec.upd
      by_cases hm : m = n
      · subst hm
        simp only [if_true]
        unfold absQueue
        rw [hrel, p.queue_eq]
        simp only [if_true]
        apply ent_congr
        intro d _; rw [hflag]
      · simp only [hm, if_false]
        unfold absQueue
        rw [p.queue_eq]; simp only [hm, if_false]
        apply ent_congr
        intro d _; rw [hflag]
    · show List.filterMap Event.toSpec (ev1 ++ [Event.reply c code]) =
        List.map (Spec.Told.ev n) (Spec.release (absQueue s n) c).2.2
          ++ [Spec.Ev.reply c (Spec.release (absQueue s n) c).2.1.code]
      rw [List.filterMap_append, p.evs_eq, hev]
      unfold absQueue
      rw [hrel, p.code_eq, relCode_spec]
      rfl
  | getOwner c n =>
    simp only [step] at h
    rw [getNameOwner_post hI c n] at h
    cases h
    refine ⟨hI, rfl, ?_⟩
    show _ = [Spec.ownerAnswer (absQueue s n) c]
    unfold absQueue ent
    cases s.queue n <;> rfl
  | listQueued c n =>
    simp only [step] at h
    rw [listQueuedOwners_post s c n] at h
    cases h
    refine ⟨hI, rfl, ?_⟩
    show _ = [Spec.queueAnswer (absQueue s n) c]
    have hm := ent_map_conn (fun d => (s.flag d n).getD false) (s.queue n)
    unfold absQueue
    cases hq : s.queue n with
    | nil => rfl
    | cons o rest =>
      rw [hq] at hm
      simp only [listEvent, List.filterMap_cons, Event.toSpec, List.filterMap_nil, Spec.queueAnswer, ent,
        List.map_cons]
      simp only [ent, List.map_cons] at hm
      rw [hm]
  | other c =>
    simp only [step] at h
    cases h
    exact ⟨hI, rfl, rfl⟩

end Txdbus.Bus
