import TxdbusModel.Bus.RouteSpec
/-
C14 - basic lemmas: the dictionary operations, how the per-connection accessors change under the
primitive state updates, and frame lemmas (what each sub-function leaves alone).
-/
namespace Txdbus.BusRoute

/-! ### dictionaries -/
section dict
variable {α : Type}

theorem dget_dset_self (k : Name) (v : α) (d : List (Name × α)) : dget k (dset k v d) = some v := by
  induction d with
  | nil => simp [dset, dget]
  | cons e t ih =>
    obtain ⟨k', v'⟩ := e
    by_cases h : k' = k <;> simp [dset, dget, h, ih]

theorem dget_dset_ne (k k' : Name) (v : α) (d : List (Name × α)) (h : k' ≠ k) :
    dget k' (dset k v d) = dget k' d := by
  induction d with
  | nil => simp [dset, dget, Ne.symm h]
  | cons e t ih =>
    obtain ⟨k2, v2⟩ := e
    by_cases h2 : k2 = k
    · subst h2
      have : ¬ k2 = k' := fun e => h e.symm
      simp [dset, dget, this]
    · by_cases h3 : k2 = k'
      · subst h3; simp [dset, dget, h2]
      · simp [dset, dget, h2, h3, ih]

theorem ddel_cons (k k' : Name) (v : α) (t : List (Name × α)) :
    ddel k ((k', v) :: t) = if k' = k then ddel k t else (k', v) :: ddel k t := by
  by_cases h : k' = k <;> simp [ddel, List.filter_cons, h]

theorem dget_ddel_self (k : Name) (d : List (Name × α)) : dget k (ddel k d) = none := by
  induction d with
  | nil => simp [ddel, dget]
  | cons e t ih =>
    obtain ⟨k', v'⟩ := e
    rw [ddel_cons]
    by_cases h : k' = k
    · simp [h, ih]
    · simp [h, dget, ih]

theorem dget_ddel_ne (k k' : Name) (d : List (Name × α)) (h : k' ≠ k) :
    dget k' (ddel k d) = dget k' d := by
  induction d with
  | nil => simp [ddel, dget]
  | cons e t ih =>
    obtain ⟨k2, v2⟩ := e
    rw [ddel_cons]
    by_cases h2 : k2 = k
    · subst h2
      have : ¬ k2 = k' := fun e => h e.symm
      simp [dget, this, ih]
    · by_cases h3 : k2 = k'
      · subst h3; simp [dget, h2]
      · simp [dget, h2, h3, ih]

end dict

/-! ### unique names -/

theorem uniqueNameOf_head (n : Nat) : (uniqueNameOf n).head? = some ':' := by
  simp [uniqueNameOf]

theorem uniqueNameOf_ne_nil (n : Nat) : uniqueNameOf n ≠ [] := by
  simp [uniqueNameOf]

/-! ### the re-marshalling step against the generated per-class header tables -/

/-- DESTINATION is in `_headerAttrs` of all four message classes (checked on the generated table). -/
theorem keeps_destination (t : MType) : keeps t .destination = true := by cases t <;> decide
/-- SENDER is in `_headerAttrs` of all four message classes. -/
theorem keeps_sender (t : MType) : keeps t .sender = true := by cases t <;> decide

theorem remarshal_dest (m : Msg) (nm : Name) : (remarshal m nm).dest = m.dest := by
  simp [remarshal, keeps_destination]
theorem remarshal_sender (m : Msg) (nm : Name) : (remarshal m nm).sender = some nm := by
  simp [remarshal, keeps_sender]
theorem remarshal_mtype (m : Msg) (nm : Name) : (remarshal m nm).mtype = m.mtype := rfl
theorem remarshal_serial (m : Msg) (nm : Name) : (remarshal m nm).serial = m.serial := rfl
theorem remarshal_body (m : Msg) (nm : Name) : (remarshal m nm).body = m.body := rfl
theorem remarshal_flags (m : Msg) (nm : Name) :
    (remarshal m nm).noReply = m.noReply ∧ (remarshal m nm).noAutoStart = m.noAutoStart ∧
    (remarshal m nm).otherFlags = m.otherFlags := ⟨rfl, rfl, rfl⟩

/-- The forwarded form does not depend on the name except in the sender field. -/
theorem eraseSender_remarshal (m : Msg) (nm : Name) : eraseSender (remarshal m nm) = wireForm m := by
  simp [eraseSender, withSender, wireForm, remarshal]

/-- For a message that carries only the header fields of its type and no unknown field, parse +
re-marshal changes the sender and nothing else. -/
theorem remarshal_canonical (m : Msg) (nm : Name) (h : Canonical m) : remarshal m nm = withSender m (some nm) := by
  obtain ⟨h0, h1, h2, h3, h4, h5⟩ := h
  have e1 : (if keeps m.mtype .path = true then m.path else none) = m.path := by
    by_cases k : keeps m.mtype .path = true
    · simp [k]
    · simp [k, h1 (by simpa using k)]
  have e2 : (if keeps m.mtype .interface = true then m.iface else none) = m.iface := by
    by_cases k : keeps m.mtype .interface = true
    · simp [k]
    · simp [k, h2 (by simpa using k)]
  have e3 : (if keeps m.mtype .member = true then m.member else none) = m.member := by
    by_cases k : keeps m.mtype .member = true
    · simp [k]
    · simp [k, h3 (by simpa using k)]
  have e4 : (if keeps m.mtype .errorName = true then m.errorName else none) = m.errorName := by
    by_cases k : keeps m.mtype .errorName = true
    · simp [k]
    · simp [k, h4 (by simpa using k)]
  have e5 : (if keeps m.mtype .replySerial = true then m.replySerial else none) = m.replySerial := by
    by_cases k : keeps m.mtype .replySerial = true
    · simp [k]
    · simp [k, h5 (by simpa using k)]
  cases m
  simp only [remarshal, withSender, keeps_destination, keeps_sender, if_true] at *
  simp [e1, e2, e3, e4, e5, h0]

theorem wireForm_canonical (m : Msg) (h : Canonical m) : wireForm m = eraseSender m := by
  unfold wireForm
  rw [remarshal_canonical m [] h]
  rfl

section
variable {ρ : Type}

/-- The rule ids a connection remembers. -/
def rulesOf (s : State ρ) (j : ConnId) : List Nat :=
  match s.conns[j]? with
  | some c => c.matchRules
  | none => []

/-! ### accessors under `conns.set` and `conns ++ [_]` -/

theorem nameOf_set (s : State ρ) (i : ConnId) (c c' : Conn) (conns : List Conn)
    (hc : s.conns[i]? = some c) (h : conns = s.conns.set i c') (s' : State ρ) (hs : s'.conns = conns) (j : ConnId) :
    nameOf s' j = if j = i then c'.uniqueName else nameOf s j := by
  have hi : i < s.conns.length := by
    rcases List.getElem?_eq_some_iff.mp hc with ⟨h1, _⟩; exact h1
  subst h
  by_cases hj : j = i
  · subst hj; simp [nameOf, hs, hi]
  · have : ¬ i = j := fun e => hj e.symm
    simp [nameOf, hs, hj, this]

theorem connected_set (s : State ρ) (i : ConnId) (c c' : Conn)
    (hc : s.conns[i]? = some c) (s' : State ρ) (hs : s'.conns = s.conns.set i c') (j : ConnId) :
    connected s' j = if j = i then c'.isConnected else connected s j := by
  have hi : i < s.conns.length := by
    rcases List.getElem?_eq_some_iff.mp hc with ⟨h1, _⟩; exact h1
  by_cases hj : j = i
  · subst hj; simp [connected, hs, hi]
  · have : ¬ i = j := fun e => hj e.symm
    simp [connected, hs, hj, this]

theorem rulesOf_set (s : State ρ) (i : ConnId) (c c' : Conn)
    (hc : s.conns[i]? = some c) (s' : State ρ) (hs : s'.conns = s.conns.set i c') (j : ConnId) :
    rulesOf s' j = if j = i then c'.matchRules else rulesOf s j := by
  have hi : i < s.conns.length := by
    rcases List.getElem?_eq_some_iff.mp hc with ⟨h1, _⟩; exact h1
  by_cases hj : j = i
  · subst hj; simp [rulesOf, hs, hi]
  · have : ¬ i = j := fun e => hj e.symm
    simp [rulesOf, hs, hj, this]

theorem nameOf_set' (s : State ρ) (i : ConnId) (c c' : Conn)
    (hc : s.conns[i]? = some c) (s' : State ρ) (hs : s'.conns = s.conns.set i c') (j : ConnId) :
    nameOf s' j = if j = i then c'.uniqueName else nameOf s j :=
  nameOf_set s i c c' _ hc rfl s' hs j

theorem nameOf_of_getElem (s : State ρ) (i : ConnId) (c : Conn) (hc : s.conns[i]? = some c) :
    nameOf s i = c.uniqueName := by simp [nameOf, hc]

theorem connected_of_getElem (s : State ρ) (i : ConnId) (c : Conn) (hc : s.conns[i]? = some c) :
    connected s i = c.isConnected := by simp [connected, hc]

theorem rulesOf_of_getElem (s : State ρ) (i : ConnId) (c : Conn) (hc : s.conns[i]? = some c) :
    rulesOf s i = c.matchRules := by simp [rulesOf, hc]

theorem nameOf_some_lt (s : State ρ) (j : ConnId) (n : Name) (h : nameOf s j = some n) : j < s.conns.length := by
  unfold nameOf at h
  cases hc : s.conns[j]? with
  | none => simp [hc] at h
  | some c => exact (List.getElem?_eq_some_iff.mp hc).1

theorem connected_true_lt (s : State ρ) (j : ConnId) (h : connected s j = true) : j < s.conns.length := by
  unfold connected at h
  cases hc : s.conns[j]? with
  | none => simp [hc] at h
  | some c => exact (List.getElem?_eq_some_iff.mp hc).1

theorem mem_rulesOf_lt (s : State ρ) (j : ConnId) (id : Nat) (h : id ∈ rulesOf s j) : j < s.conns.length := by
  unfold rulesOf at h
  cases hc : s.conns[j]? with
  | none => simp [hc] at h
  | some c => exact (List.getElem?_eq_some_iff.mp hc).1

/-! ### accessors depend on `conns` only -/

theorem nameOf_congr (s s' : State ρ) (h : s'.conns = s.conns) (j : ConnId) : nameOf s' j = nameOf s j := by
  simp [nameOf, h]
theorem connected_congr (s s' : State ρ) (h : s'.conns = s.conns) (j : ConnId) : connected s' j = connected s j := by
  simp [connected, h]
theorem rulesOf_congr (s s' : State ρ) (h : s'.conns = s.conns) (j : ConnId) : rulesOf s' j = rulesOf s j := by
  simp [rulesOf, h]

/-! ### frame: effects touch the name table only -/

/-- Everything but `owners` is the same. -/
def FrameOwners (s s' : State ρ) : Prop :=
  s'.conns = s.conns ∧ s'.clients = s.clients ∧ s'.rules = s.rules ∧ s'.ruleId = s.ruleId ∧ s'.nextId = s.nextId

theorem FrameOwners.refl (s : State ρ) : FrameOwners s s := ⟨rfl, rfl, rfl, rfl, rfl⟩

theorem FrameOwners.trans {a b c : State ρ} (h1 : FrameOwners a b) (h2 : FrameOwners b c) : FrameOwners a c := by
  obtain ⟨a1, a2, a3, a4, a5⟩ := h1
  obtain ⟨b1, b2, b3, b4, b5⟩ := h2
  exact ⟨b1.trans a1, b2.trans a2, b3.trans a3, b4.trans a4, b5.trans a5⟩

theorem applyEffect_frame (cfg : Cfg ρ) (s : State ρ) (e : Effect) : FrameOwners s (applyEffect cfg s e).1 := by
  cases e <;> simp [applyEffect, FrameOwners]

theorem applyEffects_frame (cfg : Cfg ρ) (s : State ρ) (es : List Effect) :
    FrameOwners s (applyEffects cfg s es).1 := by
  induction es generalizing s with
  | nil => exact FrameOwners.refl s
  | cons e es ih =>
    simp only [applyEffects]
    exact (applyEffect_frame cfg s e).trans (ih _)

/-- A delivery whose payload is a signal built by the bus. -/
def Delivery.isBusSignal (dl : Delivery) : Prop := ∃ m, dl.what = .busSignal m

theorem applyEffect_sig (cfg : Cfg ρ) (s : State ρ) (e : Effect) :
    ∀ dl ∈ (applyEffect cfg s e).2, dl.isBusSignal := by
  cases e with
  | setOwner n j => simp [applyEffect]
  | unsetOwner n => simp [applyEffect]
  | signalTo j member body args => simp [applyEffect, Delivery.isBusSignal]
  | broadcast member body args =>
    intro dl hdl
    simp only [applyEffect, route, List.mem_map] at hdl
    obtain ⟨r, _, rfl⟩ := hdl
    exact ⟨_, rfl⟩

theorem applyEffects_sig (cfg : Cfg ρ) (s : State ρ) (es : List Effect) :
    ∀ dl ∈ (applyEffects cfg s es).2, dl.isBusSignal := by
  induction es generalizing s with
  | nil => simp [applyEffects]
  | cons e es ih =>
    intro dl hdl
    simp only [applyEffects, List.mem_append] at hdl
    rcases hdl with h | h
    · exact applyEffect_sig cfg s e dl h
    · exact ih _ dl h

end
end Txdbus.BusRoute
