import TxdbusModel.Bus.Route
/-
C14 (extension 2026-09-30) - changing the rule type along a map `f : ρ → σ` that preserves the rule
predicate changes nothing observable: the bus model over `σ` on the mapped history produces the same
outputs, and its state is the mapped state.  Used to read the theorems about the first version's
`SimpleRule` instance as theorems about a fragment of the full rule language.
-/
namespace Txdbus.BusRoute

section
variable {ρ σ : Type} (f : ρ → σ)

def BusOp.mapRule : BusOp ρ → BusOp σ
  | .always => .always
  | .addMatch r => .addMatch (f r)
  | .exec effs => .exec effs

def Event.mapRule : Event ρ → Event σ
  | .connect => .connect
  | .msg i m op => .msg i m (op.mapRule f)
  | .disconnect i effs => .disconnect i effs

def RuleEntry.mapRule (e : RuleEntry ρ) : RuleEntry σ := ⟨e.id, e.conn, f e.pred⟩

def State.mapRule (s : State ρ) : State σ :=
  { conns := s.conns, clients := s.clients, owners := s.owners, rules := s.rules.map (RuleEntry.mapRule f),
    ruleId := s.ruleId, nextId := s.nextId }

/-- The two configurations agree along `f`. -/
structure CfgAlong (cr : Cfg ρ) (cs : Cfg σ) : Prop where
  holds : ∀ r m, cs.holds (f r) m = cr.holds r m
  routeUnicast : cs.routeUnicast = cr.routeUnicast
  recordRuleId : cs.recordRuleId = cr.recordRuleId

variable {f} {cr : Cfg ρ} {cs : Cfg σ}

theorem route_map (ha : CfgAlong f cr cs) (s : State ρ) (m : Msg) (p : Payload) :
    route cs (s.mapRule f) m p = route cr s m p := by
  unfold route State.mapRule
  simp only [List.filter_map, List.map_map]
  congr 1
  · apply List.filter_congr
    intro r _
    simp [RuleEntry.mapRule, ha.holds]

theorem modifyConn_map (s : State ρ) (i : ConnId) (g : Conn → Conn) :
    modifyConn (s.mapRule f) i g = (modifyConn s i g).mapRule f := by
  unfold modifyConn
  show (match s.conns[i]? with
    | some c => { s.mapRule f with conns := (s.mapRule f).conns.set i (g c) }
    | none => s.mapRule f) = _
  cases s.conns[i]? <;> rfl

theorem applyEffect_map (ha : CfgAlong f cr cs) (s : State ρ) (e : Effect) :
    applyEffect cs (s.mapRule f) e = ((applyEffect cr s e).1.mapRule f, (applyEffect cr s e).2) := by
  cases e with
  | setOwner n j => rfl
  | unsetOwner n => rfl
  | signalTo j member body args => rfl
  | broadcast member body args =>
    simp only [applyEffect, route_map ha]

theorem applyEffects_map (ha : CfgAlong f cr cs) (s : State ρ) (es : List Effect) :
    applyEffects cs (s.mapRule f) es = ((applyEffects cr s es).1.mapRule f, (applyEffects cr s es).2) := by
  induction es generalizing s with
  | nil => rfl
  | cons e es ih =>
    simp only [applyEffects, applyEffect_map ha, ih]

theorem reply_map (s : State ρ) (nm : Name) (m : Msg) : reply (s.mapRule f) nm m = reply s nm m := rfl

theorem addMatch_map (ha : CfgAlong f cr cs) (s : State ρ) (i : ConnId) (r : ρ) :
    addMatch cs (s.mapRule f) i (f r) = (addMatch cr s i r).mapRule f := by
  unfold addMatch
  rw [ha.recordRuleId]
  have h1 : ({ s.mapRule f with rules := (s.mapRule f).rules ++ [⟨(s.mapRule f).ruleId, i, f r⟩],
                                ruleId := (s.mapRule f).ruleId + 1 } : State σ)
      = State.mapRule f { s with rules := s.rules ++ [⟨s.ruleId, i, r⟩], ruleId := s.ruleId + 1 } := by
    simp [State.mapRule, RuleEntry.mapRule]
  split
  · rw [h1, modifyConn_map]; rfl
  · exact h1

theorem busCall_map (ha : CfgAlong f cr cs) (s : State ρ) (i : ConnId) (nm : Name) (m : Msg) (op : BusOp ρ) :
    busCall cs (s.mapRule f) i nm m (op.mapRule f)
      = ((busCall cr s i nm m op).1.mapRule f, (busCall cr s i nm m op).2) := by
  cases op with
  | always => rfl
  | addMatch r =>
    simp only [BusOp.mapRule, busCall, addMatch_map ha]
    split <;> rfl
  | exec effs =>
    simp only [BusOp.mapRule, busCall, applyEffects_map ha]
    split <;> rfl

theorem dispatch_map (ha : CfgAlong f cr cs) (s : State ρ) (i : ConnId) (m w : Msg) :
    dispatch cs (s.mapRule f) i m w = dispatch cr s i m w := by
  unfold dispatch
  rw [ha.routeUnicast]
  simp only [route_map ha]
  rfl

theorem messageReceived_map (ha : CfgAlong f cr cs) (s : State ρ) (i : ConnId) (nm : Name) (m w : Msg)
    (op : BusOp ρ) :
    messageReceived cs (s.mapRule f) i nm m w (op.mapRule f)
      = ((messageReceived cr s i nm m w op).1.mapRule f, (messageReceived cr s i nm m w op).2) := by
  unfold messageReceived
  split
  · simp only [busCall_map ha, dispatch_map ha]
  · simp only [dispatch_map ha]

theorem stepNamed_map (ha : CfgAlong f cr cs) (s : State ρ) (i : ConnId) (nm : Name)
    (named : Option (ConnId × Name)) (called : Bool) (m : Msg) (op : BusOp ρ) :
    stepNamed cs (s.mapRule f) i nm named called m (op.mapRule f)
      = ((stepNamed cr s i nm named called m op).1.mapRule f, (stepNamed cr s i nm named called m op).2) := by
  unfold stepNamed
  split
  · simp only [modifyConn_map]
  · simp only [messageReceived_map ha]

theorem ensureNamed_map (s : State ρ) (i : ConnId) (c : Conn) :
    ensureNamed (s.mapRule f) i c
      = ((ensureNamed s i c).1.mapRule f, (ensureNamed s i c).2.1, (ensureNamed s i c).2.2) := by
  unfold ensureNamed
  cases c.uniqueName <;> rfl

theorem stepMsg_map (ha : CfgAlong f cr cs) (s : State ρ) (i : ConnId) (m : Msg) (op : BusOp ρ) :
    stepMsg cs (s.mapRule f) i m (op.mapRule f)
      = ((stepMsg cr s i m op).1.mapRule f, (stepMsg cr s i m op).2) := by
  have hc : (s.mapRule f).conns[i]? = s.conns[i]? := rfl
  unfold stepMsg
  rw [hc]
  cases s.conns[i]? with
  | none => rfl
  | some c =>
    simp only
    split
    · rfl
    · rw [ensureNamed_map]
      exact stepNamed_map ha _ i _ _ _ m op

theorem disconnectOk_map (s : State ρ) (c : Conn) : disconnectOk (s.mapRule f) c = disconnectOk s c := by
  unfold disconnectOk State.mapRule
  simp [List.any_map, RuleEntry.mapRule, Function.comp_def]

theorem dropClient_map (s : State ρ) (n : Option Name) :
    dropClient (s.mapRule f) n = (dropClient s n).mapRule f := by
  cases n <;> rfl

theorem stepDisconnect_map (ha : CfgAlong f cr cs) (s : State ρ) (i : ConnId) (effs : List Effect) :
    stepDisconnect cs (s.mapRule f) i effs
      = ((stepDisconnect cr s i effs).1.mapRule f, (stepDisconnect cr s i effs).2) := by
  have hc : (s.mapRule f).conns[i]? = s.conns[i]? := rfl
  unfold stepDisconnect
  rw [hc]
  cases s.conns[i]? with
  | none => rfl
  | some c =>
    simp only [disconnectOk_map]
    split
    · rfl
    · split
      · rfl
      · have hs2 : (⟨(s.mapRule f).conns.set i { c with isConnected := false }, (s.mapRule f).clients,
                      (s.mapRule f).owners,
                      (s.mapRule f).rules.filter (fun r => !(c.matchRules.contains r.id)),
                      (s.mapRule f).ruleId, (s.mapRule f).nextId⟩ : State σ)
            = State.mapRule f ⟨s.conns.set i { c with isConnected := false }, s.clients, s.owners,
                                s.rules.filter (fun r => !(c.matchRules.contains r.id)), s.ruleId, s.nextId⟩ := by
          simp [State.mapRule, List.filter_map, RuleEntry.mapRule, Function.comp_def] <;> rfl
        rw [hs2, applyEffects_map ha, dropClient_map]

/-- One step: same output, mapped state. -/
theorem step_map (ha : CfgAlong f cr cs) (s : State ρ) (e : Event ρ) :
    step cs (s.mapRule f) (e.mapRule f) = ((step cr s e).1.mapRule f, (step cr s e).2) := by
  cases e with
  | connect => rfl
  | msg i m op => exact stepMsg_map ha s i m op
  | disconnect i effs => exact stepDisconnect_map ha s i effs

theorem final_map (ha : CfgAlong f cr cs) (s : State ρ) (h : List (Event ρ)) :
    final cs (s.mapRule f) (h.map (Event.mapRule f)) = (final cr s h).mapRule f := by
  induction h generalizing s with
  | nil => rfl
  | cons e es ih => simp only [List.map_cons, final, step_map ha, ih]

/-- Whole histories: the outputs are the same. -/
theorem exec_map (ha : CfgAlong f cr cs) (s : State ρ) (h : List (Event ρ)) :
    exec cs (s.mapRule f) (h.map (Event.mapRule f)) = exec cr s h := by
  induction h generalizing s with
  | nil => rfl
  | cons e es ih => simp only [List.map_cons, exec, step_map ha, ih]

theorem init_map : (State.init : State ρ).mapRule f = State.init := rfl

end
end Txdbus.BusRoute
