import TxdbusModel.Proofs.Bus.RouteStep
/-
C14 - statements over whole histories: the names handed out, the order of arrival, and who
holds which rule.
-/
namespace Txdbus.BusRoute

section
variable {ρ : Type}

/-! ### one step and the names -/

theorem stepNamed_keeps {cfg : Cfg ρ} (hr : cfg.Repaired) {s1 : State ρ} (inv : Inv s1) (i : ConnId) (c1 : Conn)
    (nm : Name) (named : Option (ConnId × Name)) (called : Bool) (m : Msg) (op : BusOp ρ)
    (hc : s1.conns[i]? = some c1) (hconn : c1.isConnected = true) (hname : c1.uniqueName = some nm) :
    KeepsNames s1 (stepNamed cfg s1 i nm named called m op).1 ∧
    (stepNamed cfg s1 i nm named called m op).2.named = named := by
  rcases dest_trichotomy m with ⟨d, ha⟩ | hb | hn
  · obtain ⟨a, _, b⟩ := stepNamed_unicast hr s1 i nm named called m op d ha
    rw [a]; exact ⟨KeepsNames.refl s1, b⟩
  · obtain ⟨_, a, b, _⟩ := stepNamed_bus hr inv i c1 nm named called m op hc hconn hname hb
    exact ⟨a, b⟩
  · obtain ⟨a, _, b⟩ := stepNamed_broadcast hr s1 i nm named called m op hn
    rw [a]; exact ⟨KeepsNames.refl s1, b⟩

/-- What a step does to names: either nothing, or exactly one connection that had no name gets
the next fresh one. -/
theorem step_names {cfg : Cfg ρ} (hr : cfg.Repaired) {s : State ρ} (inv : Inv s) (e : Event ρ) :
    ((step cfg s e).2.named = none ∧ (step cfg s e).1.nextId = s.nextId ∧
      ∀ j, nameOf (step cfg s e).1 j = nameOf s j) ∨
    (∃ i, (step cfg s e).2.named = some (i, uniqueNameOf s.nextId) ∧
      (step cfg s e).1.nextId = s.nextId + 1 ∧ nameOf s i = none ∧
      ∀ j, nameOf (step cfg s e).1 j = if j = i then some (uniqueNameOf s.nextId) else nameOf s j) := by
  cases e with
  | connect =>
    left
    exact ⟨rfl, rfl, fun j => nameOf_append s _ rfl j⟩
  | disconnect i effs =>
    left
    cases hc : s.conns[i]? with
    | none => simp [step, stepDisconnect, hc]
    | some c =>
      by_cases hconn : c.isConnected = false
      · simp [step, stepDisconnect, hc, hconn]
      · have hconn' : c.isConnected = true := by simpa using hconn
        obtain ⟨h1, _, _, _, h5, _, h7, _⟩ := stepDisconnect_fields cfg s i effs c hc hconn'
          (disconnectOk_of_inv inv i c hc hconn')
        refine ⟨h7, h5, fun j => ?_⟩
        show nameOf (stepDisconnect cfg s i effs).1 j = nameOf s j
        rw [nameOf_set' s i c _ hc _ h1 j]
        by_cases hj : j = i
        · subst hj; simp [nameOf_of_getElem s j c hc]
        · simp [hj]
  | msg i m op =>
    cases hc : s.conns[i]? with
    | none => left; simp [step, stepMsg, hc]
    | some c =>
      by_cases hconn : c.isConnected = false
      · left; simp [step, stepMsg, hc, hconn]
      · have hconn' : c.isConnected = true := by simpa using hconn
        have ns := ensureNamed_spec inv i c hc hconn'
        obtain ⟨c1, h1, h2, h3, _⟩ := ns.conn
        have e : stepMsg cfg s i m op =
            stepNamed cfg (ensureNamed s i c).1 i (ensureNamed s i c).2.1 (ensureNamed s i c).2.2
              c.calledHello m op := by
          simp [stepMsg, hc, hconn]
        show ((stepMsg cfg s i m op).2.named = none ∧ (stepMsg cfg s i m op).1.nextId = s.nextId ∧
            ∀ j, nameOf (stepMsg cfg s i m op).1 j = nameOf s j) ∨
          (∃ i', (stepMsg cfg s i m op).2.named = some (i', uniqueNameOf s.nextId) ∧
            (stepMsg cfg s i m op).1.nextId = s.nextId + 1 ∧ nameOf s i' = none ∧
            ∀ j, nameOf (stepMsg cfg s i m op).1 j = if j = i' then some (uniqueNameOf s.nextId) else nameOf s j)
        obtain ⟨keeps, hnamed⟩ := stepNamed_keeps hr ns.inv i c1 _ (ensureNamed s i c).2.2 c.calledHello m op h1 h2 h3
        obtain ⟨_, k2, k3, _, _⟩ := keeps
        rcases ns.cases with ⟨_, a2, a3⟩ | ⟨b1, _, b3, b4, b5⟩
        · left
          rw [e]
          refine ⟨by rw [hnamed, a2], by rw [k2, a3], fun j => by rw [k3, a3]⟩
        · right
          refine ⟨i, ?_, ?_, ?_, ?_⟩
          · rw [e, hnamed, b3]
          · rw [e, k2, b4]
          · rw [nameOf_of_getElem s i c hc]; exact b1
          · intro j; rw [e, k3, b5]
            by_cases hj : j = i
            · simp [hj]; exact (ensureNamed_spec inv i c hc hconn').cases.elim
                (fun h => by rw [b1] at h; exact absurd h.1 (by simp))
                (fun h => h.2.1)
            · simp [hj]

/-! ### T1: the names handed out are :1.k, k = 1, 2, 3, ... in this order -/

theorem allocated_cons (o : Out) (outs : List Out) :
    allocated (o :: outs) = (match o.named with | some x => [x] | none => []) ++ allocated outs := by
  unfold allocated
  cases h : o.named <;> simp [List.filterMap_cons, h]

theorem allocated_from {cfg : Cfg ρ} (hr : cfg.Repaired) {s : State ρ} (inv : Inv s) (h : List (Event ρ)) :
    (allocated (exec cfg s h)).map (·.2) =
      (List.range' s.nextId (allocated (exec cfg s h)).length).map uniqueNameOf := by
  induction h generalizing s with
  | nil => simp [exec, allocated]
  | cons e es ih =>
    have inv' := step_inv hr inv e
    have ih' := ih inv'
    simp only [exec, allocated_cons]
    rcases step_names hr inv e with ⟨a, b, _⟩ | ⟨i, a, b, _, _⟩
    · rw [a]; rw [b] at ih'; simpa using ih'
    · rw [a]; rw [b] at ih'
      simp only [List.singleton_append, List.map_cons, List.length_cons, List.range'_succ]
      rw [ih']

/-! ### the name of a connection is the one it was allocated -/

theorem name_iff_allocated {cfg : Cfg ρ} (hr : cfg.Repaired) {s : State ρ} (inv : Inv s) (h : List (Event ρ))
    (j : ConnId) (n : Name) :
    nameOf (final cfg s h) j = some n ↔ (nameOf s j = some n ∨ (j, n) ∈ allocated (exec cfg s h)) := by
  induction h generalizing s with
  | nil => simp [final, exec, allocated]
  | cons e es ih =>
    have inv' := step_inv hr inv e
    simp only [final, exec, allocated_cons, List.mem_append]
    rw [ih inv']
    rcases step_names hr inv e with ⟨a, _, c⟩ | ⟨i, a, _, c, d⟩
    · rw [a, c]; simp
    · rw [a, d]
      by_cases hj : j = i
      · subst hj
        simp only [if_true, List.mem_singleton, Prod.mk.injEq, true_and, c]
        constructor
        · rintro (h | h)
          · right; left; exact (Option.some.inj h).symm
          · right; right; exact h
        · rintro (h | h | h)
          · exact absurd h (by simp)
          · left; rw [h]
          · right; exact h
      · have : ¬ (j = i ∧ n = uniqueNameOf s.nextId) := fun h => hj h.1
        simp [hj, this]

/-! ### T4: order per (sender, destination) -/

theorem filterMap_fwdOf_sigs (i : ConnId) (d : Name) (l : List Delivery) (h : ∀ dl ∈ l, dl.isBusSignal) :
    l.filterMap (fwdOf i d) = [] := by
  rw [List.filterMap_eq_nil_iff]
  intro dl hdl
  obtain ⟨m, hm⟩ := h dl hdl
  simp [fwdOf, hm]


/-- The forwards of one step that come from `i` and are for `d` are, up to the sender field, a
sublist of the wire forms of what `i` sent to `d` in this step. -/
theorem step_arrived {cfg : Cfg ρ} (hr : cfg.Repaired) {s : State ρ} (inv : Inv s) (e : Event ρ)
    (i : ConnId) (d : Name) (hd : d ≠ []) :
    List.Sublist (((step cfg s e).2.deliveries.filterMap (fwdOf i d)).map eraseSender)
      ((sentOf i d e).map wireForm) := by
  cases e with
  | connect => simp [step, sentOf]
  | disconnect i' effs =>
    cases hc : s.conns[i']? with
    | none => simp [step, stepDisconnect, hc, sentOf]
    | some c =>
      by_cases hconn : c.isConnected = false
      · simp [step, stepDisconnect, hc, hconn, sentOf]
      · have hconn' : c.isConnected = true := by simpa using hconn
        obtain ⟨_, _, _, _, _, h6, _⟩ := stepDisconnect_fields cfg s i' effs c hc hconn'
          (disconnectOk_of_inv inv i' c hc hconn')
        show List.Sublist (((stepDisconnect cfg s i' effs).2.deliveries.filterMap (fwdOf i d)).map eraseSender) _
        rw [filterMap_fwdOf_sigs i d _ h6]
        simp
  | msg i' m op =>
    cases hc : s.conns[i']? with
    | none => simp [step, stepMsg, hc]
    | some c =>
      by_cases hconn : c.isConnected = false
      · simp [step, stepMsg, hc, hconn]
      · have hconn' : c.isConnected = true := by simpa using hconn
        have ns := ensureNamed_spec inv i' c hc hconn'
        obtain ⟨c1, h1, h2, h3, _⟩ := ns.conn
        have e : step cfg s (.msg i' m op) =
            stepNamed cfg (ensureNamed s i' c).1 i' (ensureNamed s i' c).2.1 (ensureNamed s i' c).2.2
              c.calledHello m op := by
          simp [step, stepMsg, hc, hconn]
        rw [e]
        rcases dest_trichotomy m with ⟨d', ha⟩ | hb | hn
        · obtain ⟨_, a, _⟩ := stepNamed_unicast hr (ensureNamed s i' c).1 i' (ensureNamed s i' c).2.1
            (ensureNamed s i' c).2.2 c.calledHello m op d' ha
          rw [a]
          by_cases hcond : i' = i ∧ m.dest = some d
          · have hs : sentOf i d (Event.msg i' m op) = [m] := by simp [sentOf, hcond]
            rw [hs]
            unfold busSend
            cases resolve (ensureNamed s i' c).1 d' with
            | none => simp
            | some j =>
              have : fwdOf i d ⟨j, .fwd i' (remarshal m (ensureNamed s i' c).2.1)⟩ =
                  some (remarshal m (ensureNamed s i' c).2.1) := by
                simp [fwdOf, remarshal_dest, hcond]
              simp [List.filterMap_cons, this, eraseSender_remarshal]
          · have hs : sentOf i d (Event.msg i' m op) = [] := by simp [sentOf, hcond]
            rw [hs]
            unfold busSend
            cases resolve (ensureNamed s i' c).1 d' with
            | none => simp
            | some j =>
              have : fwdOf i d ⟨j, .fwd i' (remarshal m (ensureNamed s i' c).2.1)⟩ = none := by
                simp only [fwdOf, remarshal_dest]
                exact if_neg hcond
              simp [List.filterMap_cons, this]
        · obtain ⟨_, _, _, sigs, hs, hdl⟩ := stepNamed_bus hr ns.inv i' c1 (ensureNamed s i' c).2.1
            (ensureNamed s i' c).2.2 c.calledHello m op h1 h2 h3 hb
          rw [hdl, List.filterMap_append, filterMap_fwdOf_sigs i d _ hs]
          have : (if answered c.calledHello m op = true then
              [({ to := i', what := if c.calledHello = false ∧ m.member = some helloMember
                    then Payload.helloReply m.serial (ensureNamed s i' c).2.1
                    else Payload.busReply m.serial (ensureNamed s i' c).2.1 } : Delivery)]
              else []).filterMap (fwdOf i d) = [] := by
            split
            · split <;> simp [fwdOf]
            · simp
          rw [this]
          simp
        · obtain ⟨_, a, _⟩ := stepNamed_broadcast hr (ensureNamed s i' c).1 i' (ensureNamed s i' c).2.1
            (ensureNamed s i' c).2.2 c.calledHello m op hn
          rw [a]
          have : (route cfg (ensureNamed s i' c).1 (withSender m (some (ensureNamed s i' c).2.1))
              (.fwd i' (remarshal m (ensureNamed s i' c).2.1))).filterMap (fwdOf i d) = [] := by
            rw [List.filterMap_eq_nil_iff]
            intro dl hdl
            simp only [route, List.mem_map] at hdl
            obtain ⟨r, _, rfl⟩ := hdl
            have hne : m.dest ≠ some d := by
              intro h; rw [h, truthy_some_ne_nil hd] at hn; exact absurd hn (by simp)
            simp [fwdOf, remarshal_dest, hne]
          rw [this]
          simp

theorem arrivedFrom_cons (i : ConnId) (d : Name) (o : Out) (outs : List Out) :
    arrivedFrom i d (o :: outs) = o.deliveries.filterMap (fwdOf i d) ++ arrivedFrom i d outs := by
  simp [arrivedFrom, List.filterMap_append]

theorem arrived_sublist_sent {cfg : Cfg ρ} (hr : cfg.Repaired) {s : State ρ} (inv : Inv s) (h : List (Event ρ))
    (i : ConnId) (d : Name) (hd : d ≠ []) :
    List.Sublist ((arrivedFrom i d (exec cfg s h)).map eraseSender) ((sentTo i d h).map wireForm) := by
  induction h generalizing s with
  | nil => simp [exec, arrivedFrom, sentTo]
  | cons e es ih =>
    simp only [exec, arrivedFrom_cons, sentTo, List.flatMap_cons, List.map_append]
    exact List.Sublist.append (step_arrived hr inv e i d hd) (ih (step_inv hr inv e))

end
end Txdbus.BusRoute
