import TxdbusModel.Proofs.Bus.Semantics
/-!
What the connections are *told*: a connection that tracks NameAcquired / NameLost for a name
believes it owns the name exactly when the table says so.  Hence, among the connected clients,
at most one believes it owns a name at any time ("is told so").
-/
namespace Txdbus.Bus

open Txdbus.Gen.C13Codes

/-- Connection `d` hears one event about name `n`. -/
def hear (d : Conn) (n : Name) (b : Bool) : Event → Bool
  | .nameAcquired t m => if t = d ∧ m = n then true else b
  | .nameLost t m => if t = d ∧ m = n then false else b
  | _ => b

/-- Does `d` believe it owns `n` after the events `evs`, having believed `b` before? -/
def told (d : Conn) (n : Name) (b : Bool) (evs : List Event) : Bool := evs.foldl (hear d n) b

/-- `B d n`: connection `d` believes it owns `n`.  Consistent with the table when every
connected client believes so exactly if it is the owner, and no connection of the future
believes anything. -/
structure Bel (s : State) (B : Conn → Name → Bool) : Prop where
  owner_iff : ∀ d n, s.connected d = true → (B d n = true ↔ s.owner n = some d)
  future : ∀ d n, s.nextId ≤ d → B d n = false

/-- The connection a signal is addressed to. -/
def Event.target : Event → Option Conn
  | .nameAcquired t _ => some t
  | .nameLost t _ => some t
  | _ => none

theorem told_no_target {d : Conn} {n : Name} {evs : List Event}
    (h : ∀ e ∈ evs, e.target ≠ some d) (b : Bool) : told d n b evs = b := by
  unfold told
  induction evs generalizing b with
  | nil => rfl
  | cons e es ih =>
    have he := h e (List.mem_cons_self)
    have hes := fun e' he' => h e' (List.mem_cons_of_mem _ he')
    simp only [List.foldl_cons]
    rw [ih hes]
    cases e with
    | nameAcquired t m =>
      have : ¬ t = d := by simpa [Event.target] using he
      simp [hear, this]
    | nameLost t m =>
      have : ¬ t = d := by simpa [Event.target] using he
      simp [hear, this]
    | _ => rfl

theorem told_other_name {d : Conn} {n : Name} {evs : List Event}
    (h : ∀ e ∈ evs, e.about ≠ some n) (b : Bool) : told d n b evs = b := by
  unfold told
  induction evs generalizing b with
  | nil => rfl
  | cons e es ih =>
    have he := h e (List.mem_cons_self)
    have hes := fun e' he' => h e' (List.mem_cons_of_mem _ he')
    simp only [List.foldl_cons]
    rw [ih hes]
    cases e with
    | nameAcquired t m =>
      have : ¬ m = n := by simpa [Event.about] using he
      simp [hear, this]
    | nameLost t m =>
      have : ¬ m = n := by simpa [Event.about] using he
      simp [hear, this]
    | _ => rfl

/-- Only NameAcquired events: the belief can only be switched on. -/
theorem told_only_acquired {d : Conn} {n : Name} {evs : List Event}
    (h : ∀ e ∈ evs, ∃ t m, e = .nameAcquired t m) (b : Bool) :
    told d n b evs = (b || decide (Event.nameAcquired d n ∈ evs)) := by
  unfold told
  induction evs generalizing b with
  | nil => simp
  | cons e es ih =>
    obtain ⟨t, m, rfl⟩ := h _ (List.mem_cons_self)
    have hes := fun e' he' => h e' (List.mem_cons_of_mem _ he')
    simp only [List.foldl_cons]
    rw [ih hes]
    by_cases htd : t = d ∧ m = n
    · obtain ⟨rfl, rfl⟩ := htd
      simp [hear]
    · have hne : ¬ (Event.nameAcquired d n = Event.nameAcquired t m) := by
        intro e; cases e; exact htd ⟨rfl, rfl⟩
      simp only [hear, htd, if_false, List.mem_cons, hne, false_or]

theorem handoverEvents_mem {q : List Conn} {c : Conn} {n : Name} {e : Event}
    (h : e ∈ handoverEvents q c n) : ∃ t, e = .nameAcquired t n ∧ t ∈ q := by
  cases q with
  | nil => simp [handoverEvents] at h
  | cons o rest =>
    cases rest with
    | nil => simp [handoverEvents] at h
    | cons nx r2 =>
      simp only [handoverEvents] at h
      split at h
      · simp only [List.mem_singleton] at h
        exact ⟨nx, h, by simp⟩
      · simp at h

theorem owner_eq_head (s : State) (n : Name) : s.owner n = (s.queue n).head? := rfl

theorem head_erase_ne {q : List Conn} {c : Conn} (h : q.head? ≠ some c) :
    (q.erase c).head? = q.head? := by
  cases q with
  | nil => rfl
  | cons o rest =>
    have hoc : ¬ o = c := by
      intro e; subst e; exact h rfl
    have hbeq : ¬ (o == c) = true := by simpa using hoc
    rw [List.erase_cons_tail hbeq]; rfl

theorem bel_request {s : State} (hI : Inv s) {B : Conn → Name → Bool} (hB : Bel s B)
    {c : Conn} (hc : s.connected c = true) {n : Name} {w : Nat} {s' : State} {evs : List Event}
    (p : ReqPost s c n w s' evs) : Bel s' (fun d m => told d m (B d m) evs) := by
  have sem := requestSemantics_of_post hI p
  have hcn : c < s.nextId := hI.fresh c hc
  constructor
  · intro d m hd
    rw [sem.connected] at hd
    by_cases hm : m = n
    · subst hm
      have hBd := hB.owner_iff d m hd
      rw [owner_eq_head] at hBd ⊢
      cases hq : s.queue m with
      | nil =>
        obtain ⟨hq', hev⟩ := sem.free hq
        rw [hq', hev]
        rw [hq] at hBd
        by_cases hdc : d = c
        · subst hdc; simp [told, hear]
        · have hcd : ¬ c = d := fun e => hdc e.symm
          have : B d m = false := by
            cases hb : B d m with
            | false => rfl
            | true =>
              have := hBd.mp hb
              simp at this
          simp [told, hear, hcd, this]
      | cons o rest =>
        rw [hq] at hBd
        have ho : s.connected o = true := hI.alive m o (by rw [hq]; simp)
        by_cases hoc : o = c
        · subst hoc
          obtain ⟨hq', hev⟩ := sem.already rest hq
          rw [hq', hev]
          simpa [told, hear] using hBd
        · by_cases hrep : (decodeFlags w).replace = true ∧ s.flag o m = some true
          · obtain ⟨hq', hev⟩ := sem.replace o rest hq hoc hrep.1 hrep.2
            rw [hq', hev]
            by_cases hdc : d = c
            · subst hdc
              have : ¬ o = d := hoc
              simp [told, hear, this]
            · have hcd : ¬ c = d := fun e => hdc e.symm
              by_cases hdo : d = o
              · subst hdo; simp [told, hear, hcd]
              · have hod : ¬ o = d := fun e => hdo e.symm
                have : B d m = false := by
                  cases hb : B d m with
                  | false => rfl
                  | true =>
                    have := hBd.mp hb
                    simp only [List.head?_cons, Option.some.injEq] at this
                    exact absurd this hod
                simp [told, hear, hcd, hod, this]
          · cases hdq : (decodeFlags w).dnq with
            | true =>
              obtain ⟨hq', hev⟩ := sem.refuse o rest hq hoc hrep hdq
              rw [hq', hev]
              simpa [told, hear] using hBd
            | false =>
              obtain ⟨hq', hev⟩ := sem.enqueue o rest hq hoc hrep hdq
              rw [hq', hev]
              have : (if c ∈ rest then o :: rest else o :: (rest ++ [c])).head? = some o := by
                split <;> rfl
              rw [this]
              simpa [told, hear] using hBd
    · have hBd := hB.owner_iff d m hd
      rw [owner_eq_head] at hBd ⊢
      rw [sem.others m hm]
      have : told d m (B d m) evs = B d m := by
        apply told_other_name
        intro e he
        rw [p.evs_eq] at he
        have hnm : ¬ n = m := fun e => hm e.symm
        cases hk : reqCase (s.queue n) c (decodeFlags w) (s.ownerAllow n) with
        | replace old =>
          rw [hk] at he
          simp only [reqEvents, List.mem_cons, List.not_mem_nil, or_false] at he
          rcases he with rfl | rfl | rfl | rfl <;> simp [Event.about, hnm]
        | free =>
          rw [hk] at he
          simp only [reqEvents, List.mem_cons, List.not_mem_nil, or_false] at he
          rcases he with rfl | rfl | rfl <;> simp [Event.about, hnm]
        | already =>
          rw [hk] at he
          simp only [reqEvents, List.mem_cons, List.not_mem_nil, or_false] at he
          subst he; simp [Event.about]
        | refuse =>
          rw [hk] at he
          simp only [reqEvents, List.mem_cons, List.not_mem_nil, or_false] at he
          subst he; simp [Event.about]
        | enqueue =>
          rw [hk] at he
          simp only [reqEvents, List.mem_cons, List.not_mem_nil, or_false] at he
          subst he; simp [Event.about]
      simp only [this]; exact hBd
  · intro d m hd
    rw [p.next_eq] at hd
    have : told d m (B d m) evs = B d m := by
      apply told_no_target
      intro e he
      rw [p.evs_eq] at he
      have hcd : c ≠ d := by
        intro e; subst e; exact absurd hcn (Nat.not_lt.mpr hd)
      cases hk : reqCase (s.queue n) c (decodeFlags w) (s.ownerAllow n) with
      | replace old =>
        obtain ⟨rest, hq, _, _, _⟩ := reqCase_replace hk
        have hold : s.connected old = true := hI.alive n old (by rw [hq]; simp)
        have hod : old ≠ d := by
          intro e; subst e; exact absurd (hI.fresh _ hold) (Nat.not_lt.mpr hd)
        rw [hk] at he
        simp only [reqEvents, List.mem_cons, List.not_mem_nil, or_false] at he
        rcases he with rfl | rfl | rfl | rfl <;> simp [Event.target, hcd, hod]
      | free =>
        rw [hk] at he
        simp only [reqEvents, List.mem_cons, List.not_mem_nil, or_false] at he
        rcases he with rfl | rfl | rfl <;> simp [Event.target, hcd]
      | already =>
        rw [hk] at he
        simp only [reqEvents, List.mem_cons, List.not_mem_nil, or_false] at he
        subst he; simp [Event.target]
      | refuse =>
        rw [hk] at he
        simp only [reqEvents, List.mem_cons, List.not_mem_nil, or_false] at he
        subst he; simp [Event.target]
      | enqueue =>
        rw [hk] at he
        simp only [reqEvents, List.mem_cons, List.not_mem_nil, or_false] at he
        subst he; simp [Event.target]
    simp only [this]
    exact hB.future d m hd

theorem bel_release {s : State} (hI : Inv s) {B : Conn → Name → Bool} (hB : Bel s B)
    {c : Conn} (hc : s.connected c = true) {n : Name} {s' : State} {evs : List Event} {code : Nat}
    (p : RelPost s c n true s' evs code) :
    Bel s' (fun d m => told d m (B d m) (evs ++ [.reply c code])) := by
  have sem := releaseSemantics_of_post hI p
  have hcn : c < s.nextId := hI.fresh c hc
  have hnd := hI.nodup n
  have htold : ∀ d m b, told d m b (evs ++ [.reply c code]) = told d m b evs := by
    intro d m b; simp [told, hear]
  constructor
  · intro d m hd
    rw [sem.connected] at hd
    have hBd := hB.owner_iff d m hd
    rw [owner_eq_head] at hBd ⊢
    rw [htold]
    by_cases hm : m = n
    · subst hm
      rw [sem.queue, p.evs_eq]
      cases hq : s.queue m with
      | nil => rw [hq] at hBd; simpa [relEvents, told] using hBd
      | cons o rest =>
        rw [hq] at hBd hnd
        by_cases hoc : o = c
        · subst hoc
          have hnot : o ∉ rest := (List.nodup_cons.mp hnd).1
          cases rest with
          | nil =>
            by_cases hdo : d = o
            · subst hdo; simp [relEvents, handoverEvents, told, hear]
            · have hod : ¬ o = d := fun e => hdo e.symm
              have : B d m = false := by
                cases hb : B d m with
                | false => rfl
                | true =>
                  have := hBd.mp hb
                  simp only [List.head?_cons, Option.some.injEq] at this
                  exact absurd this hod
              simp [relEvents, handoverEvents, told, hear, hod, this]
          | cons nx r2 =>
            have hnxo : ¬ nx = o := by
              intro e; subst e; exact hnot (by simp)
            by_cases hdo : d = o
            · subst hdo
              simp [relEvents, handoverEvents, told, hear, hnxo]
            · have hod : ¬ o = d := fun e => hdo e.symm
              have hbf : B d m = false := by
                cases hb : B d m with
                | false => rfl
                | true =>
                  have := hBd.mp hb
                  simp only [List.head?_cons, Option.some.injEq] at this
                  exact absurd this hod
              by_cases hdn : d = nx
              · subst hdn; simp [relEvents, handoverEvents, told, hear, hod]
              · have hnd' : ¬ nx = d := fun e => hdn e.symm
                simp [relEvents, handoverEvents, told, hear, hod, hnd', hbf]
        · have hbeq : ¬ (o == c) = true := by simpa using hoc
          rw [List.erase_cons_tail hbeq]
          simpa [relEvents, hoc, told] using hBd
    · rw [sem.others m hm]
      have : told d m (B d m) evs = B d m := by
        apply told_other_name
        intro e he
        rw [p.evs_eq] at he
        have hmn : ¬ n = m := fun e => hm e.symm
        cases hq : s.queue n with
        | nil => rw [hq] at he; simp [relEvents] at he
        | cons o rest =>
          rw [hq] at he
          simp only [relEvents] at he
          split at he
          · simp only [if_true, List.singleton_append, List.mem_cons] at he
            rcases he with rfl | he
            · simp [Event.about, hmn]
            · obtain ⟨t, rfl⟩ := handoverEvents_only _ _ _ e he
              simp [Event.about, hmn]
          · simp at he
      rw [this]; exact hBd
  · intro d m hd
    rw [p.next_eq] at hd
    rw [htold]
    have : told d m (B d m) evs = B d m := by
      apply told_no_target
      intro e he
      rw [p.evs_eq] at he
      have hcd : c ≠ d := by
        intro e; subst e; exact absurd hcn (Nat.not_lt.mpr hd)
      cases hq : s.queue n with
      | nil => rw [hq] at he; simp [relEvents] at he
      | cons o rest =>
        rw [hq] at he
        simp only [relEvents] at he
        split at he
        · simp only [if_true, List.singleton_append, List.mem_cons] at he
          rcases he with rfl | he
          · simp [Event.target, hcd]
          · obtain ⟨t, rfl, ht⟩ := handoverEvents_mem he
            have hnx : s.connected t = true := hI.alive n t (by rw [hq]; exact ht)
            have : t ≠ d := by
              intro e; subst e; exact absurd (hI.fresh _ hnx) (Nat.not_lt.mpr hd)
            simp [Event.target, this]
        · simp at he
    rw [this]
    exact hB.future d m hd

theorem bel_disconnect {s : State} (hI : Inv s) {B : Conn → Name → Bool} (hB : Bel s B)
    {c : Conn} {s' : State} {evs : List Event} (p : DiscPost s c s' evs) :
    Bel s' (fun d m => told d m (B d m) evs) := by
  have sem := disconnectSemantics_of_post hI p
  constructor
  · intro d m hd
    rw [p.conn_eq] at hd
    by_cases hdc : d = c
    · simp [hdc] at hd
    · simp only [hdc, if_false] at hd
      have hBd := hB.owner_iff d m hd
      rw [owner_eq_head] at hBd ⊢
      rw [told_only_acquired p.evs_only, p.queue_eq]
      by_cases hown : (s.queue m).head? = some c
      · -- c owned m: d did not believe; it does now iff it is next in line
        have hbf : B d m = false := by
          cases hb : B d m with
          | false => rfl
          | true =>
            have := hBd.mp hb
            rw [hown] at this
            exact absurd (Option.some.inj this).symm hdc
        cases hq : s.queue m with
        | nil => rw [hq] at hown; cases hown
        | cons o rest =>
          rw [hq] at hown
          simp only [List.head?_cons, Option.some.injEq] at hown
          subst hown
          cases rest with
          | nil =>
            have : Event.nameAcquired d m ∉ evs := by
              intro hmem
              obtain ⟨nx, m', r, he, hq'⟩ := sem.only _ hmem
              cases he
              rw [hq] at hq'; cases hq'
            simp [hbf, this]
          | cons nx r2 =>
            obtain ⟨_, _, hmem⟩ := sem.handover m nx r2 hq
            by_cases hdn : d = nx
            · subst hdn; simp [hmem]
            · have : Event.nameAcquired d m ∉ evs := by
                intro hmem'
                obtain ⟨nx', m', r, he, hq'⟩ := sem.only _ hmem'
                cases he
                rw [hq] at hq'
                simp only [List.cons.injEq, true_and] at hq'
                exact hdn hq'.1.symm
              have hnd' : ¬ nx = d := fun e => hdn e.symm
              simp [hbf, this, hnd']
      · have : Event.nameAcquired d m ∉ evs := by
          intro hmem
          obtain ⟨nx, m', r, he, hq'⟩ := sem.only _ hmem
          cases he
          rw [hq'] at hown
          exact hown rfl
        rw [head_erase_ne hown]
        simpa [this] using hBd
  · intro d m hd
    rw [p.next_eq] at hd
    rw [told_only_acquired p.evs_only]
    have : Event.nameAcquired d m ∉ evs := by
      intro hmem
      obtain ⟨nx, m', r, he, hq'⟩ := sem.only _ hmem
      cases he
      have hnx : s.connected d = true := hI.alive m d (by rw [hq']; simp)
      exact absurd (hI.fresh _ hnx) (Nat.not_lt.mpr hd)
    simp [this, hB.future d m hd]

/-- Every step keeps the connections' beliefs consistent with the table. -/
theorem bel_step {s : State} (hI : Inv s) {B : Conn → Name → Bool} (hB : Bel s B)
    {op : Op} {s' : State} {evs : List Event} (h : step s op = .ok (s', evs)) :
    Bel s' (fun d m => told d m (B d m) evs) := by
  cases op with
  | connect =>
    obtain ⟨s1, ev1, h1, p⟩ := connect_post hI
    simp only [step] at h
    rw [h1] at h
    cases h
    rw [p.evs_eq]
    constructor
    · intro d m hd
      rw [p.conn_eq] at hd
      show B d m = true ↔ _
      rw [owner_eq_head, p.queue_eq]
      by_cases hdn : d = s.nextId
      · subst hdn
        rw [hB.future _ m (Nat.le_refl _)]
        constructor
        · intro h; cases h
        · intro hh
          have hmem : s.nextId ∈ s.queue m := List.mem_of_mem_head? hh
          exact absurd (hI.fresh _ (hI.alive m _ hmem)) (Nat.lt_irrefl _)
      · simp only [hdn, if_false] at hd
        exact hB.owner_iff d m hd
    · intro d m hd
      rw [p.next_eq] at hd
      exact hB.future d m (Nat.le_of_succ_le hd)
  | disconnect c =>
    simp only [step] at h
    have hc := disconnect_connected h
    obtain ⟨s1, ev1, h1, p⟩ := disconnect_post hI hc
    rw [h1] at h
    cases h
    exact bel_disconnect hI hB p
  | request c n w =>
    simp only [step] at h
    have hc := requestName_connected h
    obtain ⟨s1, ev1, h1, p⟩ := requestName_post hI hc n w
    rw [h1] at h
    cases h
    exact bel_request hI hB hc p
  | release c n =>
    simp only [step] at h
    have hc := releaseName_connected h
    obtain ⟨s1, ev1, code, h1, p⟩ := releaseName_post hI hc n
    rw [h1] at h
    cases h
    exact bel_release hI hB hc p
  | getOwner c n =>
    simp only [step] at h
    rw [getNameOwner_post hI c n] at h
    cases h
    have : ∀ d m b, told d m b [ownerEvent (s.queue n) c] = b := by
      intro d m b; cases s.queue n <;> rfl
    simp only [this]
    exact hB
  | listQueued c n =>
    simp only [step] at h
    rw [listQueuedOwners_post s c n] at h
    cases h
    have : ∀ d m b, told d m b [listEvent (s.queue n) c] = b := by
      intro d m b; cases s.queue n <;> rfl
    simp only [this]
    exact hB
  | other c =>
    simp only [step] at h
    cases h
    exact hB

/-- Beliefs after a whole history, starting from "nobody believes anything". -/
def beliefs : List (List Event) → Conn → Name → Bool
  | [], _, _ => false
  | evss, d, n => told d n false evss.flatten

theorem told_append (d : Conn) (n : Name) (b : Bool) (e1 e2 : List Event) :
    told d n b (e1 ++ e2) = told d n (told d n b e1) e2 := by
  simp [told, List.foldl_append]

theorem bel_run {ops : List Op} : ∀ {s s' : State} {evss : List (List Event)} {B : Conn → Name → Bool},
    Inv s → Bel s B → run s ops = .ok (s', evss) →
    Bel s' (fun d m => told d m (B d m) evss.flatten) := by
  induction ops with
  | nil =>
    intro s s' evss B hI hB h
    simp only [run] at h
    cases h
    exact hB
  | cons op ops ih =>
    intro s s' evss B hI hB h
    simp only [run] at h
    cases h1 : step s op with
    | error e => simp [h1] at h
    | ok r1 =>
      obtain ⟨s1, ev1⟩ := r1
      simp only [h1] at h
      cases h2 : run s1 ops with
      | error e => simp [h2] at h
      | ok r2 =>
        obtain ⟨s2, evs2⟩ := r2
        simp only [h2] at h
        cases h
        have hI1 := (step_refines hI h1).1
        have hB1 := bel_step hI hB h1
        have := ih hI1 hB1 h2
        simp only [List.flatten_cons, told_append]
        exact this

theorem bel_init : Bel State.init (fun _ _ => false) := by
  constructor
  · intro d n hd; simp [State.connected, State.init, Dict.get?] at hd
  · intro d n _; rfl

end Txdbus.Bus
