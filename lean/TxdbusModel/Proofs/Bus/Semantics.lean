import TxdbusModel.Proofs.Bus.Reach
/-!
Readable consequences of the `*_post` characterisations: what a request, a release, a
disconnect and the queries do to the queues, and what they answer.
-/
namespace Txdbus.Bus

open Txdbus.Gen.C13Codes

theorem getD_false_eq_true {x : Option Bool} : (x.getD false = true) ↔ x = some true := by
  cases x with
  | none => simp
  | some b => simp

/-- RequestName, case by case. -/
structure RequestSemantics (s : State) (c : Conn) (n : Name) (w : Nat) (s' : State)
    (evs : List Event) : Prop where
  others : ∀ m, m ≠ n → s'.queue m = s.queue m
  connected : ∀ d, s'.connected d = s.connected d
  free : s.queue n = [] →
    s'.queue n = [c] ∧
    evs = [.nameAcquired c n, .ownerChanged n none (some c), .reply c nameAcquired]
  already : ∀ rest, s.queue n = c :: rest →
    s'.queue n = c :: rest ∧ evs = [.reply c nameAlreadyOwner]
  replace : ∀ o rest, s.queue n = o :: rest → o ≠ c →
    (decodeFlags w).replace = true → s.flag o n = some true →
    s'.queue n = c :: rest.erase c ∧
    evs = [.nameLost o n, .nameAcquired c n, .ownerChanged n (some o) (some c), .reply c nameAcquired]
  refuse : ∀ o rest, s.queue n = o :: rest → o ≠ c →
    ¬ ((decodeFlags w).replace = true ∧ s.flag o n = some true) → (decodeFlags w).dnq = true →
    s'.queue n = o :: rest.erase c ∧ evs = [.reply c nameInUse]
  enqueue : ∀ o rest, s.queue n = o :: rest → o ≠ c →
    ¬ ((decodeFlags w).replace = true ∧ s.flag o n = some true) → (decodeFlags w).dnq = false →
    s'.queue n = (if c ∈ rest then o :: rest else o :: (rest ++ [c])) ∧ evs = [.reply c nameInQueue]
  /-- the allow-replacement setting the caller is remembered with -/
  setting : c ∈ s'.queue n → s'.flag c n = some (decodeFlags w).allow

theorem requestSemantics_of_post {s : State} (hI : Inv s) {c : Conn} {n : Name} {w : Nat}
    {s' : State} {evs : List Event} (p : ReqPost s c n w s' evs) :
    RequestSemantics s c n w s' evs := by
  have hqn : s'.queue n = reqQueue (s.queue n) c (reqCase (s.queue n) c (decodeFlags w) (s.ownerAllow n)) := by
    rw [p.queue_eq]; simp
  constructor
  · intro m hm; rw [p.queue_eq]; simp [hm]
  · exact p.conn_eq
  · intro hq
    rw [hqn, p.evs_eq, hq]
    exact ⟨rfl, rfl⟩
  · intro rest hq
    have hk : reqCase (s.queue n) c (decodeFlags w) (s.ownerAllow n) = .already := by
      simp [hq, reqCase]
    rw [hqn, p.evs_eq, hk, hq]
    exact ⟨rfl, rfl⟩
  · intro o rest hq hoc hrep hfl
    have hk : reqCase (s.queue n) c (decodeFlags w) (s.ownerAllow n) = .replace o := by
      simp [hq, reqCase, hoc, hrep, ownerAllow_head hq, hfl]
    rw [hqn, p.evs_eq, hk, hq]
    exact ⟨rfl, rfl⟩
  · intro o rest hq hoc hnr hd
    have hbeq : ¬ (o == c) = true := by simpa using hoc
    have hk : reqCase (s.queue n) c (decodeFlags w) (s.ownerAllow n) = .refuse := by
      have : ((decodeFlags w).replace && (s.flag o n).getD false) = false := by
        cases h1 : (decodeFlags w).replace with
        | false => rfl
        | true =>
          cases h2 : (s.flag o n).getD false with
          | false => rfl
          | true => exact absurd ⟨h1, getD_false_eq_true.mp h2⟩ hnr
      simp [hq, reqCase, hoc, ownerAllow_head hq, this, hd]
    rw [hqn, p.evs_eq, hk, hq]
    exact ⟨by simp [reqQueue, List.erase_cons_tail hbeq], rfl⟩
  · intro o rest hq hoc hnr hd
    have hco : ¬ c = o := fun e => hoc e.symm
    have hk : reqCase (s.queue n) c (decodeFlags w) (s.ownerAllow n) = .enqueue := by
      have : ((decodeFlags w).replace && (s.flag o n).getD false) = false := by
        cases h1 : (decodeFlags w).replace with
        | false => rfl
        | true =>
          cases h2 : (s.flag o n).getD false with
          | false => rfl
          | true => exact absurd ⟨h1, getD_false_eq_true.mp h2⟩ hnr
      simp [hq, reqCase, hoc, ownerAllow_head hq, this, hd]
    rw [hqn, p.evs_eq, hk, hq]
    refine ⟨?_, rfl⟩
    simp only [reqQueue, List.mem_cons, hco, false_or]
    split <;> rfl
  · intro hmem
    rw [p.flag_eq]
    cases hk : reqCase (s.queue n) c (decodeFlags w) (s.ownerAllow n) with
    | refuse =>
      rw [hqn, hk] at hmem
      exact absurd hmem (fun h => ((hI.nodup n).mem_erase_iff.mp h).1 rfl)
    | _ => simp [reqFlag]

/-- The reply code states the caller's resulting relation to the name. -/
theorem reply_relation_of_post {s : State} (hI : Inv s) {c : Conn} {n : Name} {w : Nat}
    {s' : State} {evs : List Event} (p : ReqPost s c n w s' evs) :
    ∃ code, evs.getLast? = some (.reply c code) ∧
      ((code = nameAcquired ∨ code = nameAlreadyOwner) ↔ s'.owner n = some c) ∧
      (code = nameInQueue ↔ (c ∈ s'.queue n ∧ s'.owner n ≠ some c)) ∧
      (code = nameInUse ↔ c ∉ s'.queue n) := by
  have hqn : s'.queue n = reqQueue (s.queue n) c (reqCase (s.queue n) c (decodeFlags w) (s.ownerAllow n)) := by
    rw [p.queue_eq]; simp
  have hnd := hI.nodup n
  refine ⟨reqCode (reqCase (s.queue n) c (decodeFlags w) (s.ownerAllow n)), ?_, ?_⟩
  · rw [p.evs_eq]
    cases reqCase (s.queue n) c (decodeFlags w) (s.ownerAllow n) <;> rfl
  · unfold State.owner
    rw [hqn]
    cases hk : reqCase (s.queue n) c (decodeFlags w) (s.ownerAllow n) with
    | free =>
      simp [reqQueue, reqCode, nameAcquired, nameAlreadyOwner, nameInQueue, nameInUse]
    | already =>
      have : ∃ rest, s.queue n = c :: rest := by
        unfold reqCase at hk
        cases hq : s.queue n with
        | nil => simp [hq] at hk
        | cons o rest =>
          simp only [hq] at hk
          by_cases hoc : o = c
          · exact ⟨rest, by rw [hoc]⟩
          · simp only [hoc, if_false] at hk
            repeat (first | split at hk | cases hk)
      obtain ⟨rest, hq⟩ := this
      simp [reqQueue, reqCode, hq, nameAcquired, nameAlreadyOwner, nameInQueue, nameInUse]
    | replace old =>
      simp [reqQueue, reqCode, nameAcquired, nameAlreadyOwner, nameInQueue, nameInUse]
    | refuse =>
      have hnot : c ∉ (s.queue n).erase c := fun h => (hnd.mem_erase_iff.mp h).1 rfl
      have hhead : ((s.queue n).erase c).head? ≠ some c := by
        intro h
        exact hnot (List.mem_of_mem_head? h)
      simp [reqQueue, reqCode, hnot, hhead, nameAcquired, nameAlreadyOwner, nameInQueue, nameInUse]
    | enqueue =>
      obtain ⟨o, rest, hq, hoc⟩ : ∃ o rest, s.queue n = o :: rest ∧ o ≠ c := by
        unfold reqCase at hk
        cases hq : s.queue n with
        | nil => simp [hq] at hk
        | cons o rest =>
          simp only [hq] at hk
          by_cases hoc : o = c
          · simp [hoc] at hk
          · exact ⟨o, rest, rfl, hoc⟩
      have hco : ¬ c = o := fun e => hoc e.symm
      simp only [reqQueue, reqCode, hq, List.mem_cons, hco, false_or]
      by_cases hmem : c ∈ rest
      · simp [hmem, hoc, nameAcquired, nameAlreadyOwner, nameInQueue, nameInUse]
      · simp [hmem, hoc, nameAcquired, nameAlreadyOwner, nameInQueue, nameInUse]

/-- ReleaseName. -/
structure ReleaseSemantics (s : State) (c : Conn) (n : Name) (s' : State) (evs : List Event) : Prop where
  others : ∀ m, m ≠ n → s'.queue m = s.queue m
  connected : ∀ d, s'.connected d = s.connected d
  /-- the caller is gone from the queue; everybody else keeps their place -/
  queue : s'.queue n = (s.queue n).erase c
  gone : c ∉ s'.queue n
  nonExistent : s.queue n = [] → evs = [.reply c nameNonExistent]
  notOwner : s.queue n ≠ [] → c ∉ s.queue n → evs = [.reply c nameNotOwner]
  queued : ∀ o rest, s.queue n = o :: rest → o ≠ c → c ∈ rest →
    evs = [.reply c nameReleased] ∧ s'.owner n = some o
  ownerAlone : s.queue n = [c] → evs = [.nameLost c n, .reply c nameReleased] ∧ s'.owner n = none
  /-- the longest-waiting queued connection becomes owner and is told so -/
  ownerHandover : ∀ next rest, s.queue n = c :: next :: rest →
    evs = [.nameLost c n, .nameAcquired next n, .reply c nameReleased] ∧
    s'.queue n = next :: rest ∧ s'.owner n = some next

theorem releaseSemantics_of_post {s : State} (hI : Inv s) {c : Conn} {n : Name} {s' : State}
    {evs : List Event} {code : Nat} (p : RelPost s c n true s' evs code) :
    ReleaseSemantics s c n s' (evs ++ [.reply c code]) := by
  have hqn : s'.queue n = (s.queue n).erase c := by rw [p.queue_eq]; simp
  have hnd := hI.nodup n
  constructor
  · intro m hm; rw [p.queue_eq]; simp [hm]
  · intro d; simp only [State.connected, p.clients_eq]
  · exact hqn
  · rw [hqn]; exact fun h => (hnd.mem_erase_iff.mp h).1 rfl
  · intro hq
    rw [p.evs_eq, p.code_eq, hq]; rfl
  · intro hne hnot
    rw [p.evs_eq, p.code_eq]
    cases hq : s.queue n with
    | nil => exact absurd hq hne
    | cons o rest =>
      have hoc : ¬ o = c := by
        intro e; subst e; exact hnot (by rw [hq]; simp)
      rw [hq] at hnot
      simp [relEvents, relCode, hoc, hnot]
  · intro o rest hq hoc hmem
    have hbeq : ¬ (o == c) = true := by simpa using hoc
    rw [p.evs_eq, p.code_eq, hq]
    unfold State.owner
    rw [hqn, hq, List.erase_cons_tail hbeq]
    simp [relEvents, relCode, hoc, hmem]
  · intro hq
    rw [p.evs_eq, p.code_eq]
    unfold State.owner
    rw [hqn, hq]
    simp [relEvents, relCode, handoverEvents]
  · intro next rest hq
    rw [p.evs_eq, p.code_eq]
    unfold State.owner
    rw [hqn, hq]
    simp [relEvents, relCode, handoverEvents]

/-- Disconnect. -/
structure DisconnectSemantics (s : State) (c : Conn) (s' : State) (evs : List Event) : Prop where
  disconnected : s'.connected c = false
  connected : ∀ d, d ≠ c → s'.connected d = s.connected d
  /-- gone from every queue; everybody else keeps their place -/
  queue : ∀ m, s'.queue m = (s.queue m).erase c
  gone : ∀ m, c ∉ s'.queue m
  /-- wherever it owned a name with a non-empty queue, the longest-waiting connection is the
  new owner and is told so -/
  handover : ∀ m next rest, s.queue m = c :: next :: rest →
    s'.queue m = next :: rest ∧ s'.owner m = some next ∧ Event.nameAcquired next m ∈ evs
  /-- nothing else is sent: only NameAcquired, and only to such successors -/
  only : ∀ e ∈ evs, ∃ next m rest, e = .nameAcquired next m ∧ s.queue m = c :: next :: rest

theorem disconnectSemantics_of_post {s : State} (hI : Inv s) {c : Conn} {s' : State}
    {evs : List Event} (p : DiscPost s c s' evs) : DisconnectSemantics s c s' evs := by
  constructor
  · rw [p.conn_eq]; simp
  · intro d hd; rw [p.conn_eq]; simp [hd]
  · exact p.queue_eq
  · intro m; rw [p.queue_eq]; exact fun h => ((hI.nodup m).mem_erase_iff.mp h).1 rfl
  · intro m next rest hq
    unfold State.owner
    rw [p.queue_eq, hq]
    refine ⟨by simp, by simp, ?_⟩
    have h := p.evs_eq m
    rw [hq] at h
    have : Event.nameAcquired next m ∈ evs.filter (fun e => decide (e.about = some m)) := by
      rw [h]; simp [handoverEvents]
    exact (List.mem_filter.mp this).1
  · intro e he
    obtain ⟨t, m, rfl⟩ := p.evs_only e he
    have hmem : Event.nameAcquired t m ∈ evs.filter (fun e => decide (e.about = some m)) := by
      apply List.mem_filter.mpr
      exact ⟨he, by simp [Event.about]⟩
    rw [p.evs_eq m] at hmem
    cases hq : s.queue m with
    | nil => rw [hq] at hmem; simp [handoverEvents] at hmem
    | cons o rest =>
      cases rest with
      | nil => rw [hq] at hmem; simp [handoverEvents] at hmem
      | cons nx r2 =>
        rw [hq] at hmem
        simp only [handoverEvents] at hmem
        split at hmem
        · rename_i hoc
          simp only [List.mem_singleton, Event.nameAcquired.injEq] at hmem
          exact ⟨t, m, r2, rfl, by rw [hq, hoc, hmem.1]⟩
        · simp at hmem

theorem mem_clientSuccessCodes (code : Nat) :
    code ∈ clientSuccessCodes ↔ (code = nameAcquired ∨ code = nameAlreadyOwner) := by
  simp [clientSuccessCodes, nameAcquired, nameAlreadyOwner]

theorem clientOnResult_ok_iff (code : Nat) :
    clientOnResult true code = .ok code ↔ (code = nameAcquired ∨ code = nameAlreadyOwner) := by
  rw [← mem_clientSuccessCodes]
  unfold clientOnResult
  by_cases hm : code ∈ clientSuccessCodes <;> simp [hm]

theorem clientOnResult_error_iff (code : Nat) :
    clientOnResult true code = .error code ↔ ¬ (code = nameAcquired ∨ code = nameAlreadyOwner) := by
  rw [← mem_clientSuccessCodes]
  unfold clientOnResult
  by_cases hm : code ∈ clientSuccessCodes <;> simp [hm]

end Txdbus.Bus
