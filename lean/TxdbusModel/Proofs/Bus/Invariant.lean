import TxdbusModel.Proofs.Bus.Release
/-!
Every operation of the code model preserves the invariant `Inv` (for a connected caller), and
never raises.
-/
namespace Txdbus.Bus

open Txdbus.Gen.C13Codes

theorem reqCase_replace {q : List Conn} {c : Conn} {fl : ReqFlags} {a : Bool} {old : Conn}
    (h : reqCase q c fl a = .replace old) :
    ∃ rest, q = old :: rest ∧ old ≠ c ∧ fl.replace = true ∧ a = true := by
  unfold reqCase at h
  cases q with
  | nil => simp at h
  | cons o rest =>
    simp only at h
    by_cases hoc : o = c
    · simp [hoc] at h
    · simp only [hoc, if_false] at h
      cases hr : (fl.replace && a) with
      | true =>
        simp only [hr, if_true, ReqCase.replace.injEq] at h
        subst h
        simp only [Bool.and_eq_true] at hr
        exact ⟨rest, rfl, hoc, hr.1, hr.2⟩
      | false =>
        simp only [hr, Bool.false_eq_true, if_false] at h
        split at h <;> cases h

theorem reqCase_free {q : List Conn} {c : Conn} {fl : ReqFlags} {a : Bool}
    (h : reqCase q c fl a = .free) : q = [] := by
  unfold reqCase at h
  cases q with
  | nil => rfl
  | cons o rest =>
    simp only at h
    repeat (first | split at h | cases h)

theorem reqCase_nonfree {q : List Conn} {c : Conn} {fl : ReqFlags} {a : Bool}
    (h : reqCase q c fl a ≠ .free) : ∃ o rest, q = o :: rest := by
  cases q with
  | nil => exact absurd rfl h
  | cons o rest => exact ⟨o, rest, rfl⟩

theorem reqQueue_nodup {q : List Conn} {c : Conn} {fl : ReqFlags} {a : Bool}
    (hq : q.Nodup) : (reqQueue q c (reqCase q c fl a)).Nodup := by
  cases hk : reqCase q c fl a with
  | free => simp [reqQueue]
  | already => exact hq
  | replace old =>
    obtain ⟨rest, rfl, _, _, _⟩ := reqCase_replace hk
    simp only [reqQueue, List.drop_succ_cons, List.drop_zero]
    have hr : rest.Nodup := (List.nodup_cons.mp hq).2
    refine List.nodup_cons.mpr ⟨?_, hr.erase c⟩
    intro hmem
    exact ((hr.mem_erase_iff).mp hmem).1 rfl
  | refuse => exact hq.erase c
  | enqueue =>
    simp only [reqQueue]
    split
    · exact hq
    · rename_i hn
      refine List.nodup_append.mpr ⟨hq, by simp, ?_⟩
      intro x hx y hy
      simp only [List.mem_singleton] at hy
      subst hy
      intro e; subst e; exact hn hx

theorem mem_reqQueue {q : List Conn} {c d : Conn} {k : ReqCase}
    (h : d ∈ reqQueue q c k) : d = c ∨ d ∈ q := by
  cases k with
  | free => simp [reqQueue] at h; exact Or.inl h
  | already => exact Or.inr h
  | replace old =>
    simp only [reqQueue, List.mem_cons] at h
    rcases h with h | h
    · exact Or.inl h
    · exact Or.inr (List.mem_of_mem_drop (List.mem_of_mem_erase h))
  | refuse => exact Or.inr (List.mem_of_mem_erase h)
  | enqueue =>
    simp only [reqQueue] at h
    split at h
    · exact Or.inr h
    · simp only [List.mem_append, List.mem_singleton] at h
      rcases h with h | h
      · exact Or.inr h
      · exact Or.inl h

theorem old_not_mem_reqQueue {q : List Conn} {c : Conn} {fl : ReqFlags} {a : Bool} {old : Conn}
    (hq : q.Nodup) (hk : reqCase q c fl a = .replace old) :
    old ∉ reqQueue q c (.replace old) := by
  obtain ⟨rest, rfl, hne, _, _⟩ := reqCase_replace hk
  simp only [reqQueue, List.drop_succ_cons, List.drop_zero, List.mem_cons, not_or]
  refine ⟨hne, ?_⟩
  intro h
  exact (List.nodup_cons.mp hq).1 (List.mem_of_mem_erase h)

theorem requestName_inv {s : State} (hI : Inv s) {c : Conn} (hc : s.connected c = true)
    {n : Name} {w : Nat} {s' : State} {evs : List Event} (hp : ReqPost s c n w s' evs) : Inv s' := by
  constructor
  · intro m
    rw [hp.queue_eq]
    split
    · exact reqQueue_nodup (hI.nodup n)
    · exact hI.nodup m
  · intro m d hd
    rw [hp.conn_eq]
    rw [hp.queue_eq] at hd
    split at hd
    · rcases mem_reqQueue hd with h | h
      · rw [h]; exact hc
      · exact hI.alive n d h
    · exact hI.alive m d hd
  · intro m d hd
    rw [hp.flag_eq]
    rw [hp.queue_eq] at hd
    by_cases hm : m = n
    · subst hm
      simp only [if_true] at hd
      cases hk : reqCase (s.queue m) c (decodeFlags w) (s.ownerAllow m) with
      | refuse =>
        rw [hk] at hd
        exact hI.tabled m d (List.mem_of_mem_erase hd)
      | replace old =>
        rw [hk] at hd
        simp only [reqFlag]
        by_cases hdc : d = c
        · simp [hdc]
        · have hdo : d ≠ old := by
            intro e; subst e
            exact old_not_mem_reqQueue (hI.nodup m) hk hd
          simp only [hdc, false_and, if_false, hdo]
          rcases mem_reqQueue hd with h | h
          · exact absurd h hdc
          · exact hI.tabled m d h
      | free =>
        rw [hk] at hd
        simp only [reqFlag]
        by_cases hdc : d = c
        · simp [hdc]
        · simp only [hdc, false_and, if_false]
          rcases mem_reqQueue hd with h | h
          · exact absurd h hdc
          · exact hI.tabled m d h
      | already =>
        rw [hk] at hd
        simp only [reqFlag]
        by_cases hdc : d = c
        · simp [hdc]
        · simp only [hdc, false_and, if_false]
          rcases mem_reqQueue hd with h | h
          · exact absurd h hdc
          · exact hI.tabled m d h
      | enqueue =>
        rw [hk] at hd
        simp only [reqFlag]
        by_cases hdc : d = c
        · simp [hdc]
        · simp only [hdc, false_and, if_false]
          rcases mem_reqQueue hd with h | h
          · exact absurd h hdc
          · exact hI.tabled m d h
    · simp only [hm, if_false] at hd
      have := hI.tabled m d hd
      cases hk : reqCase (s.queue n) c (decodeFlags w) (s.ownerAllow n) <;>
        simp [reqFlag, hm, this]
  · exact hp.noEmpty
  · intro d hd
    rw [hp.next_eq]
    rw [hp.conn_eq] at hd
    exact hI.fresh d hd

theorem releaseCore_inv {s : State} (hI : Inv s) {c : Conn} {n : Name} {ic : Bool} {s' : State}
    {evs : List Event} {code : Nat} (hp : RelPost s c n ic s' evs code) : Inv s' := by
  have hconn : ∀ d, s'.connected d = s.connected d := by
    intro d; simp only [State.connected, hp.clients_eq]
  have hflag : ∀ d m, s'.flag d m = s.flag d m := by
    intro d m; simp only [State.flag, hp.clients_eq]
  constructor
  · intro m
    rw [hp.queue_eq]
    split
    · exact (hI.nodup n).erase c
    · exact hI.nodup m
  · intro m d hd
    rw [hconn]
    rw [hp.queue_eq] at hd
    split at hd
    · exact hI.alive n d (List.mem_of_mem_erase hd)
    · exact hI.alive m d hd
  · intro m d hd
    rw [hflag]
    rw [hp.queue_eq] at hd
    split at hd
    · rename_i hm; subst hm; exact hI.tabled m d (List.mem_of_mem_erase hd)
    · exact hI.tabled m d hd
  · exact hp.noEmpty
  · intro d hd
    rw [hp.next_eq]
    rw [hconn] at hd
    exact hI.fresh d hd

end Txdbus.Bus
