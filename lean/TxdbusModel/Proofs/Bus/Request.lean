import TxdbusModel.Proofs.Bus.Views
/-!
The invariant of the bus name table and the exact effect of `requestName` on the views.
-/
namespace Txdbus.Bus

open Txdbus.Gen.C13Codes

/-- The invariant of the name table (all in terms of the views). -/
structure Inv (s : State) : Prop where
  /-- no connection is in a queue twice -/
  nodup : ∀ n, (s.queue n).Nodup
  /-- every queued connection (the owner included) is connected -/
  alive : ∀ n c, c ∈ s.queue n → s.connected c = true
  /-- a connection's own table has every name whose queue contains it -/
  tabled : ∀ n c, c ∈ s.queue n → (s.flag c n).isSome = true
  /-- `Bus.busNames` never keeps an empty queue -/
  noEmpty : ∀ n, Dict.get? s.busNames n ≠ some []
  /-- unique names are handed out in increasing order -/
  fresh : ∀ c, s.connected c = true → c < s.nextId

/-- Does the owner of `n` (if any) allow replacement? -/
def State.ownerAllow (s : State) (n : Name) : Bool :=
  match s.queue n with
  | [] => false
  | o :: _ => (s.flag o n).getD false

/-- The five outcomes of a RequestName, as the code distinguishes them. -/
inductive ReqCase where
  | free                    -- the name had no queue
  | already                 -- the caller is the owner
  | replace (old : Conn)    -- the caller takes the name from `old`
  | refuse                  -- not replaced, caller declined queueing
  | enqueue                 -- not replaced, caller waits
  deriving DecidableEq, Repr

def reqCase (q : List Conn) (c : Conn) (fl : ReqFlags) (oallow : Bool) : ReqCase :=
  match q with
  | [] => .free
  | o :: _ =>
    if o = c then .already
    else if fl.replace && oallow then .replace o
    else if fl.dnq then .refuse
    else .enqueue

def reqQueue (q : List Conn) (c : Conn) : ReqCase → List Conn
  | .free => [c]
  | .already => q
  | .replace _ => c :: (q.drop 1).erase c
  | .refuse => q.erase c
  | .enqueue => if c ∈ q then q else q ++ [c]

def reqCode : ReqCase → Nat
  | .free => nameAcquired
  | .already => nameAlreadyOwner
  | .replace _ => nameAcquired
  | .refuse => nameInUse
  | .enqueue => nameInQueue

def reqEvents (c : Conn) (n : Name) : ReqCase → List Event
  | .free => [.nameAcquired c n, .ownerChanged n none (some c), .reply c nameAcquired]
  | .already => [.reply c nameAlreadyOwner]
  | .replace old => [.nameLost old n, .nameAcquired c n, .ownerChanged n (some old) (some c),
                     .reply c nameAcquired]
  | .refuse => [.reply c nameInUse]
  | .enqueue => [.reply c nameInQueue]

def reqFlag (s : State) (c : Conn) (n : Name) (allow : Bool) (k : ReqCase) (d : Conn) (m : Name) :
    Option Bool :=
  match k with
  | .refuse => s.flag d m
  | .replace old =>
    if d = c ∧ m = n then some allow else if d = old ∧ m = n then none else s.flag d m
  | _ => if d = c ∧ m = n then some allow else s.flag d m

theorem queue_of_get_none {s : State} {n : Name} (h : Dict.get? s.busNames n = none) :
    s.queue n = [] := by
  simp [State.queue, h]

theorem queue_of_get_some {s : State} {n : Name} {q : List Conn}
    (h : Dict.get? s.busNames n = some q) : s.queue n = q := by
  simp [State.queue, h]

theorem connected_get {s : State} {c : Conn} (h : s.connected c = true) :
    ∃ t, Dict.get? s.clients c = some t := by
  unfold State.connected at h
  cases hg : Dict.get? s.clients c with
  | none => simp [hg] at h
  | some t => exact ⟨t, rfl⟩

theorem flag_get {s : State} {c : Conn} {n : Name} (h : (s.flag c n).isSome = true) :
    ∃ t b, Dict.get? s.clients c = some t ∧ Dict.get? t n = some b ∧ s.flag c n = some b := by
  unfold State.flag at h ⊢
  cases hg : Dict.get? s.clients c with
  | none => simp [hg] at h
  | some t =>
    cases hb : Dict.get? t n with
    | none => simp [hg, hb] at h
    | some b => exact ⟨t, b, rfl, hb, by simp [hb]⟩

/-- What `requestName` does, for a connected caller in a state satisfying the invariant. -/
structure ReqPost (s : State) (c : Conn) (n : Name) (w : Nat) (s' : State) (evs : List Event) : Prop where
  evs_eq : evs = reqEvents c n (reqCase (s.queue n) c (decodeFlags w) (s.ownerAllow n))
  queue_eq : ∀ m, s'.queue m =
    if m = n then reqQueue (s.queue n) c (reqCase (s.queue n) c (decodeFlags w) (s.ownerAllow n))
    else s.queue m
  conn_eq : ∀ d, s'.connected d = s.connected d
  flag_eq : ∀ d m, s'.flag d m =
    reqFlag s c n (decodeFlags w).allow (reqCase (s.queue n) c (decodeFlags w) (s.ownerAllow n)) d m
  next_eq : s'.nextId = s.nextId
  noEmpty : ∀ m, Dict.get? s'.busNames m ≠ some []

theorem noEmpty_set {bn : List (Name × List Conn)} {n : Name} {q : List Conn}
    (h : ∀ m, Dict.get? bn m ≠ some []) (hq : q ≠ []) :
    ∀ m, Dict.get? (Dict.set bn n q) m ≠ some [] := by
  intro m
  rw [Dict.get?_set]
  split
  · intro e; exact hq (Option.some.inj e)
  · exact h m

theorem noEmpty_erase {bn : List (Name × List Conn)} {n : Name}
    (h : ∀ m, Dict.get? bn m ≠ some []) :
    ∀ m, Dict.get? (Dict.erase bn n) m ≠ some [] := by
  intro m
  rw [Dict.get?_erase]
  split
  · intro e; cases e
  · exact h m

theorem requestName_post {s : State} (hI : Inv s) {c : Conn} (hc : s.connected c = true)
    (n : Name) (w : Nat) :
    ∃ s' evs, requestName s c n w = .ok (s', evs) ∧ ReqPost s c n w s' evs := by
  obtain ⟨t, ht⟩ := connected_get hc
  have hcI : connIn s.clients c = true := hc
  unfold requestName
  simp only [ht]
  cases hq : Dict.get? s.busNames n with
  | none =>
    have hq0 := queue_of_get_none hq
    have hcase : reqCase (s.queue n) c (decodeFlags w) (s.ownerAllow n) = .free := by
      simp [reqCase, hq0]
    refine ⟨_, _, rfl, ?_⟩
    constructor
    · rw [hcase]; rfl
    · intro m
      rw [hcase]
      show queueOf (Dict.set s.busNames n [c]) m = _
      rw [queueOf_set]; rfl
    · intro d; exact connIn_setFlag _ _ _ _ _
    · intro d m
      rw [hcase]
      exact flagIn_setFlag _ _ _ _ _ _ hcI
    · rfl
    · exact noEmpty_set hI.noEmpty (by simp)
  | some q =>
    have hq0 := queue_of_get_some hq
    cases q with
    | nil => exact absurd hq (hI.noEmpty n)
    | cons o rest =>
      simp only []
      by_cases hoc : o = c
      · have hcase : reqCase (s.queue n) c (decodeFlags w) (s.ownerAllow n) = .already := by
          simp [reqCase, hq0, hoc]
        simp only [hoc, if_true]
        refine ⟨_, _, rfl, ?_⟩
        constructor
        · rw [hcase]; rfl
        · intro m
          rw [hcase]
          show queueOf s.busNames m = _
          by_cases hm : m = n
          · subst hm; simp only [if_true, reqQueue]; rfl
          · simp only [hm, if_false]; rfl
        · intro d; exact connIn_setFlag _ _ _ _ _
        · intro d m
          rw [hcase]
          exact flagIn_setFlag _ _ _ _ _ _ hcI
        · rfl
        · exact hI.noEmpty
      · simp only [hoc, if_false]
        have hbeq : ¬ (o == c) = true := by simpa using hoc
        have ho_mem : o ∈ s.queue n := by rw [hq0]; simp
        obtain ⟨ot, ob, hot, hob, hof⟩ := flag_get (hI.tabled n o ho_mem)
        have hallow : s.ownerAllow n = ob := by simp [State.ownerAllow, hq0, hof]
        have hrn : replaceNow s o n (decodeFlags w).replace
            = .ok ((decodeFlags w).replace && ob) := by
          unfold replaceNow ownerAllows
          cases (decodeFlags w).replace <;> simp [hot, hob]
        rw [hrn]
        cases hrep : ((decodeFlags w).replace && ob) with
        | true =>
          simp only []
          have hcase : reqCase (s.queue n) c (decodeFlags w) (s.ownerAllow n) = .replace o := by
            simp [reqCase, hq0, hoc, hallow, hrep]
          refine ⟨_, _, rfl, ?_⟩
          constructor
          · rw [hcase]; rfl
          · intro m
            rw [hcase]
            show queueOf (Dict.set s.busNames n _) m = _
            rw [queueOf_set, removeIfPresent_eq, List.erase_cons_tail hbeq]
            by_cases hm : m = n
            · subst hm; simp only [if_true, reqQueue, hq0, List.drop_succ_cons, List.drop_zero]
            · simp only [hm, if_false]; rfl
          · intro d
            show connIn (setFlag (delFlag s.clients o n) c n _) d = _
            rw [connIn_setFlag, connIn_delFlag]; rfl
          · intro d m
            have hcI' : connIn (delFlag s.clients o n) c = true := by
              rw [connIn_delFlag]; exact hcI
            rw [hcase]
            show flagIn (setFlag (delFlag s.clients o n) c n _) d m = _
            rw [flagIn_setFlag _ _ _ _ _ _ hcI', flagIn_delFlag]; rfl
          · rfl
          · exact noEmpty_set hI.noEmpty (by simp)
        | false =>
          simp only []
          cases hd : (decodeFlags w).dnq with
          | true =>
            simp only [if_true]
            have hcase : reqCase (s.queue n) c (decodeFlags w) (s.ownerAllow n) = .refuse := by
              simp [reqCase, hq0, hoc, hallow, hrep, hd]
            refine ⟨_, _, rfl, ?_⟩
            constructor
            · rw [hcase]; rfl
            · intro m
              rw [hcase]
              show queueOf (Dict.set s.busNames n _) m = _
              rw [queueOf_set, removeIfPresent_eq]
              by_cases hm : m = n
              · subst hm; simp only [if_true, reqQueue, hq0]
              · simp only [hm, if_false]; rfl
            · intro d; rfl
            · intro d m; rw [hcase]; rfl
            · rfl
            · refine noEmpty_set hI.noEmpty ?_
              rw [removeIfPresent_eq, List.erase_cons_tail hbeq]
              simp
          | false =>
            simp only [Bool.false_eq_true, if_false]
            have hcase : reqCase (s.queue n) c (decodeFlags w) (s.ownerAllow n) = .enqueue := by
              simp [reqCase, hq0, hoc, hallow, hrep, hd]
            refine ⟨_, _, rfl, ?_⟩
            constructor
            · rw [hcase]; rfl
            · intro m
              rw [hcase]
              show queueOf (Dict.set s.busNames n _) m = _
              rw [queueOf_set]
              by_cases hm : m = n
              · subst hm; simp only [if_true, reqQueue, hq0]
              · simp only [hm, if_false]; rfl
            · intro d; exact connIn_setFlag _ _ _ _ _
            · intro d m
              rw [hcase]
              exact flagIn_setFlag _ _ _ _ _ _ hcI
            · rfl
            · refine noEmpty_set hI.noEmpty ?_
              split <;> simp

end Txdbus.Bus
