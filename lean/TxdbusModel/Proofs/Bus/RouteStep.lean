import TxdbusModel.Proofs.Bus.RouteInv
/-
C14 - what one step of the repaired model does: the three kinds of destination (another
connection, the bus, none), the state it leaves, and preservation of the invariant.
-/
namespace Txdbus.BusRoute

section
variable {ρ : Type}

theorem truthy_some_ne_nil {d : Name} (h : d ≠ []) : truthy (some d) = true := by
  cases d with
  | nil => exact absurd rfl h
  | cons a t => rfl

theorem busName_ne_nil : busName ≠ [] := by decide

theorem not_busName_of_falsy {o : Option Name} (h : truthy o = false) : o ≠ some busName := by
  intro e; subst e; revert h; decide

/-! ### dispatch -/

theorem dispatch_unicast {cfg : Cfg ρ} (hr : cfg.Repaired) (s : State ρ) (i : ConnId) (m w : Msg) (d : Name)
    (hd : m.dest = some d) (h1 : d ≠ []) (h2 : d ≠ busName) :
    dispatch cfg s i m w = busSend s d (.fwd i w) := by
  simp [dispatch, hr.1, hd, truthy_some_ne_nil h1, h2]

theorem dispatch_bus {cfg : Cfg ρ} (hr : cfg.Repaired) (s : State ρ) (i : ConnId) (m w : Msg)
    (hd : m.dest = some busName) : dispatch cfg s i m w = [] := by
  simp [dispatch, hr.1, hd, truthy_some_ne_nil busName_ne_nil]

theorem dispatch_broadcast {cfg : Cfg ρ} (hr : cfg.Repaired) (s : State ρ) (i : ConnId) (m w : Msg)
    (hd : truthy m.dest = false) : dispatch cfg s i m w = route cfg s m (.fwd i w) := by
  unfold dispatch
  rw [hr.1]
  cases hm : m.dest with
  | none => simp
  | some d => rw [hm] at hd; simp [hd]

/-! ### resolution against ownership -/

theorem resolve_owns {s : State ρ} (inv : Inv s) (d : Name) (j : ConnId) :
    resolve s d = some j ↔ Owns s j d := by
  unfold resolve Owns Live
  by_cases h : d.head? = some ':'
  · rw [if_pos h, if_pos h, inv.clients_iff d j]
    exact ⟨fun ⟨a, b⟩ => ⟨b, a⟩, fun ⟨a, b⟩ => ⟨b, a⟩⟩
  · rw [if_neg h, if_neg h]

theorem busSend_owner {s : State ρ} (inv : Inv s) (d : Name) (p : Payload) (j : ConnId) (h : Owns s j d) :
    busSend s d p = [⟨j, p⟩] := by
  unfold busSend
  rw [(resolve_owns inv d j).mpr h]

theorem busSend_no_owner {s : State ρ} (inv : Inv s) (d : Name) (p : Payload) (h : ∀ j, ¬ Owns s j d) :
    busSend s d p = [] := by
  unfold busSend
  cases hr : resolve s d with
  | none => rfl
  | some j => exact absurd ((resolve_owns inv d j).mp hr) (h j)

theorem owns_unique {s : State ρ} (inv : Inv s) (d : Name) (j j' : ConnId) (h : Owns s j d) (h' : Owns s j' d) :
    j = j' := by
  have a := (resolve_owns inv d j).mpr h
  have b := (resolve_owns inv d j').mpr h'
  rw [a] at b
  exact Option.some.inj b

/-- The reply to a connected, named caller reaches exactly that caller. -/
theorem reply_to_caller {s : State ρ} (inv : Inv s) (i : ConnId) (nm : Name) (m : Msg)
    (hn : nameOf s i = some nm) (hc : connected s i = true) :
    reply s nm m = [⟨i, .busReply m.serial nm⟩] := by
  unfold reply
  apply busSend_owner inv
  obtain ⟨k, _, _, e⟩ := inv.names_bound i nm hn
  unfold Owns Live
  rw [if_pos (by rw [e]; exact uniqueNameOf_head k)]
  exact ⟨hc, hn⟩

/-! ### modifyConn -/

theorem modifyConn_conns (s : State ρ) (i : ConnId) (c : Conn) (f : Conn → Conn) (hc : s.conns[i]? = some c) :
    (modifyConn s i f).conns = s.conns.set i (f c) := by
  simp [modifyConn, hc]

theorem modifyConn_other (s : State ρ) (i : ConnId) (f : Conn → Conn) :
    (modifyConn s i f).clients = s.clients ∧ (modifyConn s i f).owners = s.owners ∧
    (modifyConn s i f).rules = s.rules ∧ (modifyConn s i f).ruleId = s.ruleId ∧
    (modifyConn s i f).nextId = s.nextId := by
  unfold modifyConn
  cases s.conns[i]? <;> simp

/-! ### AddMatch, calls to the bus -/


/-- What `busCall` leaves alone: the client table, the name counter, and for every connection its
name and whether it is connected. -/
def KeepsNames (s s' : State ρ) : Prop :=
  s'.clients = s.clients ∧ s'.nextId = s.nextId ∧ (∀ j, nameOf s' j = nameOf s j) ∧
  (∀ j, connected s' j = connected s j) ∧ s'.conns.length = s.conns.length

theorem KeepsNames.refl (s : State ρ) : KeepsNames s s := ⟨rfl, rfl, fun _ => rfl, fun _ => rfl, rfl⟩

theorem KeepsNames.of_frame {s s' : State ρ} (h : FrameOwners s s') : KeepsNames s s' :=
  ⟨h.2.1, h.2.2.2.2, nameOf_congr s s' h.1, connected_congr s s' h.1, by rw [h.1]⟩

theorem addMatch_spec {cfg : Cfg ρ} (hr : cfg.Repaired) {s : State ρ} (inv : Inv s) (i : ConnId) (c : Conn)
    (r : ρ) (hc : s.conns[i]? = some c) (hconn : c.isConnected = true) :
    Inv (addMatch cfg s i r) ∧ KeepsNames s (addMatch cfg s i r) ∧
    (addMatch cfg s i r).rules = s.rules ++ [⟨s.ruleId, i, r⟩] ∧
    (addMatch cfg s i r).owners = s.owners := by
  have hi : i < s.conns.length := (List.getElem?_eq_some_iff.mp hc).1
  have hconns : (addMatch cfg s i r).conns = s.conns.set i { c with matchRules := s.ruleId :: c.matchRules } := by
    simp [addMatch, hr.2, modifyConn, hc]
  have hcl : (addMatch cfg s i r).clients = s.clients := by
    simp [addMatch, hr.2, modifyConn, hc]
  have hru : (addMatch cfg s i r).rules = s.rules ++ [⟨s.ruleId, i, r⟩] := by
    simp [addMatch, hr.2, modifyConn, hc]
  have hid : (addMatch cfg s i r).ruleId = s.ruleId + 1 := by
    simp [addMatch, hr.2, modifyConn, hc]
  have hnx : (addMatch cfg s i r).nextId = s.nextId := by
    simp [addMatch, hr.2, modifyConn, hc]
  have how : (addMatch cfg s i r).owners = s.owners := by
    simp [addMatch, hr.2, modifyConn, hc]
  refine ⟨inv.addMatch i c r hc hconn hconns hcl hru hid hnx, ⟨hcl, hnx, ?_, ?_, ?_⟩, hru, how⟩
  · intro j
    rw [nameOf_set' s i c _ hc _ hconns j]
    by_cases hj : j = i
    · subst hj; simp [nameOf_of_getElem s j c hc]
    · simp [hj]
  · intro j
    rw [connected_set s i c _ hc _ hconns j]
    by_cases hj : j = i
    · subst hj; simp [connected_of_getElem s j c hc]
    · simp [hj]
  · rw [hconns]; simp

theorem busCall_spec {cfg : Cfg ρ} (hr : cfg.Repaired) {s : State ρ} (inv : Inv s) (i : ConnId) (c : Conn)
    (nm : Name) (m : Msg) (op : BusOp ρ) (hc : s.conns[i]? = some c) (hconn : c.isConnected = true)
    (hname : c.uniqueName = some nm) :
    Inv (busCall cfg s i nm m op).1 ∧ KeepsNames s (busCall cfg s i nm m op).1 ∧
    (∃ sigs, (∀ dl ∈ sigs, dl.isBusSignal) ∧
      (busCall cfg s i nm m op).2 = sigs ++
        (if opReplies op m then [⟨i, .busReply m.serial nm⟩] else [])) := by
  have hn : nameOf s i = some nm := by rw [nameOf_of_getElem s i c hc]; exact hname
  have hcn : connected s i = true := by rw [connected_of_getElem s i c hc]; exact hconn
  cases op with
  | always =>
    refine ⟨inv, KeepsNames.refl s, [], by simp, ?_⟩
    simp [busCall, opReplies, reply_to_caller inv i nm m hn hcn]
  | addMatch r =>
    obtain ⟨inv2, keeps, _, _⟩ := addMatch_spec hr inv i c r hc hconn
    refine ⟨inv2, keeps, [], by simp, ?_⟩
    have hn2 : nameOf (addMatch cfg s i r) i = some nm := by rw [keeps.2.2.1]; exact hn
    have hc2 : connected (addMatch cfg s i r) i = true := by rw [keeps.2.2.2.1]; exact hcn
    cases hnr : m.noReply <;> simp [busCall, opReplies, hnr, reply_to_caller inv2 i nm m hn2 hc2]
  | exec effs =>
    have fr := applyEffects_frame cfg s effs
    have inv2 := inv.frame fr
    have keeps := KeepsNames.of_frame fr
    refine ⟨inv2, keeps, (applyEffects cfg s effs).2, applyEffects_sig cfg s effs, ?_⟩
    have hn2 : nameOf (applyEffects cfg s effs).1 i = some nm := by rw [keeps.2.2.1]; exact hn
    have hc2 : connected (applyEffects cfg s effs).1 i = true := by rw [keeps.2.2.2.1]; exact hcn
    cases hnr : m.noReply <;> simp [busCall, opReplies, hnr, reply_to_caller inv2 i nm m hn2 hc2]

/-! ### the first message: naming -/

/-- What naming guarantees about the state handed to the rest of `rawDBusMessageReceived`. -/
structure NamedSpec (s : State ρ) (i : ConnId) (c : Conn) (r : State ρ × Name × Option (ConnId × Name)) : Prop where
  inv : Inv r.1
  conn : ∃ c1, r.1.conns[i]? = some c1 ∧ c1.isConnected = true ∧ c1.uniqueName = some r.2.1 ∧
          c1.calledHello = c.calledHello
  owners : r.1.owners = s.owners
  rules : r.1.rules = s.rules
  len : r.1.conns.length = s.conns.length
  connected : ∀ j, connected r.1 j = connected s j
  cases : (c.uniqueName = some r.2.1 ∧ r.2.2 = none ∧ r.1 = s) ∨
          (c.uniqueName = none ∧ r.2.1 = uniqueNameOf s.nextId ∧ r.2.2 = some (i, uniqueNameOf s.nextId) ∧
           r.1.nextId = s.nextId + 1 ∧ (∀ j, nameOf r.1 j = if j = i then some r.2.1 else nameOf s j))

theorem ensureNamed_spec {s : State ρ} (inv : Inv s) (i : ConnId) (c : Conn) (hc : s.conns[i]? = some c)
    (hconn : c.isConnected = true) : NamedSpec s i c (ensureNamed s i c) := by
  have hi : i < s.conns.length := (List.getElem?_eq_some_iff.mp hc).1
  cases hu : c.uniqueName with
  | some n =>
    have e : ensureNamed s i c = (s, n, none) := by simp [ensureNamed, hu]
    rw [e]
    exact ⟨inv, ⟨c, hc, hconn, hu, rfl⟩, rfl, rfl, rfl, fun _ => rfl, Or.inl ⟨hu, rfl, rfl⟩⟩
  | none =>
    have e : ensureNamed s i c =
        ({ s with conns := s.conns.set i { c with uniqueName := some (uniqueNameOf s.nextId) },
                  nextId := s.nextId + 1,
                  clients := dset (uniqueNameOf s.nextId) i s.clients }, uniqueNameOf s.nextId,
         some (i, uniqueNameOf s.nextId)) := by simp [ensureNamed, hu]
    rw [e]
    refine ⟨inv.named i c hc hu hconn rfl rfl rfl rfl rfl,
      ⟨{ c with uniqueName := some (uniqueNameOf s.nextId) }, by simp [hi], hconn, rfl, rfl⟩, rfl, rfl, by simp,
      ?_, Or.inr ⟨hu, rfl, rfl, rfl, ?_⟩⟩
    · intro j
      rw [connected_set s i c _ hc _ rfl j]
      by_cases hj : j = i
      · subst hj; simp [connected_of_getElem s j c hc, hconn]
      · simp [hj]
    · intro j
      exact nameOf_set' s i c { c with uniqueName := some (uniqueNameOf s.nextId) } hc
        ({ s with conns := s.conns.set i { c with uniqueName := some (uniqueNameOf s.nextId) },
                  nextId := s.nextId + 1,
                  clients := dset (uniqueNameOf s.nextId) i s.clients } : State ρ) rfl j

/-! ### the rest of `rawDBusMessageReceived`, by kind of destination -/

/-- A message for another connection: the state is untouched and the only delivery is the
forward. -/
theorem stepNamed_unicast {cfg : Cfg ρ} (hr : cfg.Repaired) (s1 : State ρ) (i : ConnId) (nm : Name)
    (named : Option (ConnId × Name)) (called : Bool) (m : Msg) (op : BusOp ρ) (d : Name)
    (ha : Addressed m d) :
    (stepNamed cfg s1 i nm named called m op).1 = s1 ∧
    (stepNamed cfg s1 i nm named called m op).2.deliveries =
      busSend s1 d (.fwd i (remarshal m nm)) ∧
    (stepNamed cfg s1 i nm named called m op).2.named = named := by
  obtain ⟨hd, h1, h2⟩ := ha
  have hne : m.dest ≠ some busName := by rw [hd]; intro e; exact h2 (Option.some.inj e)
  have hd' : ({ m with sender := some nm } : Msg).dest = some d := hd
  simp [stepNamed, hne, messageReceived, dispatch_unicast hr s1 i _ _ d hd' h1 h2]

/-- A message without destination: the state is untouched and the deliveries are those of the
router. -/
theorem stepNamed_broadcast {cfg : Cfg ρ} (hr : cfg.Repaired) (s1 : State ρ) (i : ConnId) (nm : Name)
    (named : Option (ConnId × Name)) (called : Bool) (m : Msg) (op : BusOp ρ)
    (hd : truthy m.dest = false) :
    (stepNamed cfg s1 i nm named called m op).1 = s1 ∧
    (stepNamed cfg s1 i nm named called m op).2.deliveries =
      route cfg s1 (withSender m (some nm)) (.fwd i (remarshal m nm)) ∧
    (stepNamed cfg s1 i nm named called m op).2.named = named := by
  have hne : m.dest ≠ some busName := not_busName_of_falsy hd
  have hd' : truthy ({ m with sender := some nm } : Msg).dest = false := hd
  simp [stepNamed, hne, messageReceived, dispatch_broadcast hr s1 i _ _ hd', withSender]

/-- A message addressed to the bus: no forward; a call is answered to the caller. -/
theorem stepNamed_bus {cfg : Cfg ρ} (hr : cfg.Repaired) {s1 : State ρ} (inv : Inv s1) (i : ConnId) (c1 : Conn)
    (nm : Name) (named : Option (ConnId × Name)) (called : Bool) (m : Msg) (op : BusOp ρ)
    (hc : s1.conns[i]? = some c1) (hconn : c1.isConnected = true) (hname : c1.uniqueName = some nm)
    (hd : m.dest = some busName) :
    Inv (stepNamed cfg s1 i nm named called m op).1 ∧
    KeepsNames s1 (stepNamed cfg s1 i nm named called m op).1 ∧
    (stepNamed cfg s1 i nm named called m op).2.named = named ∧
    (∃ sigs, (∀ dl ∈ sigs, dl.isBusSignal) ∧
      (stepNamed cfg s1 i nm named called m op).2.deliveries = sigs ++
        (if answered called m op then
          [⟨i, if called = false ∧ m.member = some helloMember then Payload.helloReply m.serial nm
               else Payload.busReply m.serial nm⟩]
         else [])) := by
  by_cases hhello : called = false ∧ m.mtype = .call ∧ m.dest = some busName ∧ m.member = some helloMember
  · -- the Hello short-cut
    obtain ⟨h1, h2, _, h4⟩ := hhello
    have hconns := modifyConn_conns s1 i c1 (fun c => { c with calledHello := true }) hc
    obtain ⟨a1, _, a3, a4, a5⟩ := modifyConn_other s1 i (fun c => { c with calledHello := true })
    have hnm : ∀ j, nameOf (modifyConn s1 i (fun c => { c with calledHello := true })) j = nameOf s1 j := by
      intro j
      rw [nameOf_set' s1 i c1 _ hc _ hconns j]
      by_cases hj : j = i
      · subst hj; simp [nameOf_of_getElem s1 j c1 hc]
      · simp [hj]
    have hcn : ∀ j, connected (modifyConn s1 i (fun c => { c with calledHello := true })) j = connected s1 j := by
      intro j
      rw [connected_set s1 i c1 _ hc _ hconns j]
      by_cases hj : j = i
      · subst hj; simp [connected_of_getElem s1 j c1 hc]
      · simp [hj]
    have hru : ∀ j, rulesOf (modifyConn s1 i (fun c => { c with calledHello := true })) j = rulesOf s1 j := by
      intro j
      rw [rulesOf_set s1 i c1 _ hc _ hconns j]
      by_cases hj : j = i
      · subst hj; simp [rulesOf_of_getElem s1 j c1 hc]
      · simp [hj]
    have e : stepNamed cfg s1 i nm named called m op =
        (modifyConn s1 i (fun c => { c with calledHello := true }),
         { deliveries := [⟨i, .helloReply m.serial nm⟩], named := named }) := by
      simp [stepNamed, h1, h2, hd, h4]
    rw [e]
    refine ⟨inv.transfer hnm hcn hru a1 a3 a4 a5, ⟨a1, a5, hnm, hcn, by rw [hconns]; simp⟩, rfl, [], by simp, ?_⟩
    simp [answered, h1, h2, h4]
  · have e : stepNamed cfg s1 i nm named called m op =
        ((messageReceived cfg s1 i nm { m with sender := some nm } (remarshal m nm) op).1,
         { deliveries := (messageReceived cfg s1 i nm { m with sender := some nm } (remarshal m nm) op).2, named := named,
           lose := decide (called = false ∧ m.mtype = .call ∧ m.dest ≠ some busName) }) := by
      simp only [stepNamed, if_neg hhello]
    rw [e]
    have hd' : ({ m with sender := some nm } : Msg).dest = some busName := hd
    have hnothello : ¬ (called = false ∧ m.member = some helloMember) ∨ m.mtype ≠ .call := by
      by_cases hm : m.mtype = .call
      · left; intro ⟨a, b⟩; exact hhello ⟨a, hm, hd, b⟩
      · right; exact hm
    by_cases hm : m.mtype = .call
    · obtain ⟨inv2, keeps, sigs, hs, hb⟩ := busCall_spec hr inv i c1 nm { m with sender := some nm } op hc hconn hname
      have ho : opReplies op ({ m with sender := some nm } : Msg) = opReplies op m := by cases op <;> rfl
      rw [ho] at hb
      have hcond : ({ m with sender := some nm } : Msg).mtype = .call ∧
          ({ m with sender := some nm } : Msg).dest = some busName := ⟨hm, hd⟩
      have hnh : ¬ (called = false ∧ m.member = some helloMember) := by
        rcases hnothello with h | h
        · exact h
        · exact absurd hm h
      refine ⟨by simpa [messageReceived, hm, hd] using inv2, by simpa [messageReceived, hm, hd] using keeps, rfl,
        sigs, hs, ?_⟩
      simp only [messageReceived, if_pos hcond, dispatch_bus hr _ i _ _ hd', List.append_nil, hb]
      simp [answered, hm, hnh]
    · have hcond : ¬ (({ m with sender := some nm } : Msg).mtype = .call ∧
          ({ m with sender := some nm } : Msg).dest = some busName) := fun h => hm h.1
      refine ⟨by simpa [messageReceived, hm] using inv, by simpa [messageReceived, hm] using KeepsNames.refl s1,
        rfl, [], by simp, ?_⟩
      simp [messageReceived, hcond, dispatch_bus hr _ i _ _ hd', answered, hm]

/-- Every message is of exactly one of the three kinds. -/
theorem dest_trichotomy (m : Msg) :
    (∃ d, Addressed m d) ∨ m.dest = some busName ∨ truthy m.dest = false := by
  match hd : m.dest with
  | none => right; right; rfl
  | some d =>
    by_cases h1 : d = []
    · right; right; rw [h1]; rfl
    · by_cases h2 : d = busName
      · right; left; rw [h2]
      · left; exact ⟨d, hd, h1, h2⟩

/-! ### the invariant is preserved -/

theorem stepNamed_inv {cfg : Cfg ρ} (hr : cfg.Repaired) {s1 : State ρ} (inv : Inv s1) (i : ConnId) (c1 : Conn)
    (nm : Name) (named : Option (ConnId × Name)) (called : Bool) (m : Msg) (op : BusOp ρ)
    (hc : s1.conns[i]? = some c1) (hconn : c1.isConnected = true) (hname : c1.uniqueName = some nm) :
    Inv (stepNamed cfg s1 i nm named called m op).1 := by
  rcases dest_trichotomy m with ⟨d, ha⟩ | hb | hn
  · rw [(stepNamed_unicast hr s1 i nm named called m op d ha).1]; exact inv
  · exact (stepNamed_bus hr inv i c1 nm named called m op hc hconn hname hb).1
  · rw [(stepNamed_broadcast hr s1 i nm named called m op hn).1]; exact inv

theorem stepMsg_inv {cfg : Cfg ρ} (hr : cfg.Repaired) {s : State ρ} (inv : Inv s) (i : ConnId) (m : Msg)
    (op : BusOp ρ) : Inv (stepMsg cfg s i m op).1 := by
  unfold stepMsg
  cases hc : s.conns[i]? with
  | none => exact inv
  | some c =>
    by_cases hconn : c.isConnected = false
    · simp [hconn]; exact inv
    · have hconn' : c.isConnected = true := by simpa using hconn
      simp only [hconn, if_false]
      have ns := ensureNamed_spec inv i c hc hconn'
      obtain ⟨c1, h1, h2, h3, _⟩ := ns.conn
      exact stepNamed_inv hr ns.inv i c1 _ _ _ m op h1 h2 h3

theorem dropClient_fields (s : State ρ) (o : Option Name) :
    (dropClient s o).conns = s.conns ∧ (dropClient s o).rules = s.rules ∧
    (dropClient s o).ruleId = s.ruleId ∧ (dropClient s o).nextId = s.nextId ∧
    (dropClient s o).owners = s.owners := by
  cases o <;> simp [dropClient]

theorem dropClient_clients (s : State ρ) (o : Option Name) :
    (dropClient s o).clients = (match o with
                                | some n => ddel n s.clients
                                | none => s.clients) := by
  cases o <;> rfl

/-- Under the invariant every key a disconnect deletes is there. -/
theorem disconnectOk_of_inv {s : State ρ} (inv : Inv s) (i : ConnId) (c : Conn)
    (hc : s.conns[i]? = some c) (hconn : c.isConnected = true) : disconnectOk s c = true := by
  have hri : rulesOf s i = c.matchRules := rulesOf_of_getElem s i c hc
  have hcn : connected s i = true := by rw [connected_of_getElem s i c hc]; exact hconn
  unfold disconnectOk
  rw [Bool.and_eq_true]
  constructor
  · rw [List.all_eq_true]
    intro id hid
    rw [← hri] at hid
    obtain ⟨r, hr, hre⟩ := inv.ids_present i id hid hcn
    rw [List.any_eq_true]
    exact ⟨r, hr, by simp [hre]⟩
  · cases hu : c.uniqueName with
    | none => rfl
    | some n =>
      have : dget n s.clients = some i :=
        (inv.clients_iff n i).mpr ⟨by rw [nameOf_of_getElem s i c hc]; exact hu, hcn⟩
      simp [this]

/-- The state a disconnect leaves, field by field. -/
theorem stepDisconnect_fields (cfg : Cfg ρ) (s : State ρ) (i : ConnId) (effs : List Effect) (c : Conn)
    (hc : s.conns[i]? = some c) (hconn : c.isConnected = true) (hok : disconnectOk s c = true) :
    (stepDisconnect cfg s i effs).1.conns = s.conns.set i { c with isConnected := false } ∧
    (stepDisconnect cfg s i effs).1.clients =
      (match c.uniqueName with
       | some n => ddel n s.clients
       | none => s.clients) ∧
    (stepDisconnect cfg s i effs).1.rules = s.rules.filter (fun r => !(c.matchRules.contains r.id)) ∧
    (stepDisconnect cfg s i effs).1.ruleId = s.ruleId ∧
    (stepDisconnect cfg s i effs).1.nextId = s.nextId ∧
    (∀ dl ∈ (stepDisconnect cfg s i effs).2.deliveries, dl.isBusSignal) ∧
    (stepDisconnect cfg s i effs).2.named = none ∧
    (stepDisconnect cfg s i effs).2.raised = false := by
  have fr := applyEffects_frame cfg
    ({ s with conns := s.conns.set i { c with isConnected := false },
              rules := s.rules.filter (fun r => !(c.matchRules.contains r.id)) } : State ρ) effs
  have sg := applyEffects_sig cfg
    ({ s with conns := s.conns.set i { c with isConnected := false },
              rules := s.rules.filter (fun r => !(c.matchRules.contains r.id)) } : State ρ) effs
  obtain ⟨f1, f2, f3, f4, f5⟩ := fr
  simp only [stepDisconnect, hc, hconn, hok, Bool.true_eq_false, if_false]
  refine ⟨?_, ?_, ?_, ?_, ?_, sg, trivial, trivial⟩
  · rw [(dropClient_fields _ _).1]; exact f1
  · rw [dropClient_clients, f2]
  · rw [(dropClient_fields _ _).2.1]; exact f3
  · rw [(dropClient_fields _ _).2.2.1]; exact f4
  · rw [(dropClient_fields _ _).2.2.2.1]; exact f5

theorem stepDisconnect_inv (cfg : Cfg ρ) {s : State ρ} (inv : Inv s) (i : ConnId) (effs : List Effect) :
    Inv (stepDisconnect cfg s i effs).1 := by
  cases hc : s.conns[i]? with
  | none => simp [stepDisconnect, hc]; exact inv
  | some c =>
    by_cases hconn : c.isConnected = false
    · simp [stepDisconnect, hc, hconn]; exact inv
    · have hconn' : c.isConnected = true := by simpa using hconn
      obtain ⟨h1, h2, h3, h4, h5, _⟩ := stepDisconnect_fields cfg s i effs c hc hconn'
        (disconnectOk_of_inv inv i c hc hconn')
      exact inv.disconnect i c hc h1 h2 h3 h4 h5

theorem step_inv {cfg : Cfg ρ} (hr : cfg.Repaired) {s : State ρ} (inv : Inv s) (e : Event ρ) :
    Inv (step cfg s e).1 := by
  cases e with
  | connect => exact inv.connect rfl rfl rfl rfl rfl
  | msg i m op => exact stepMsg_inv hr inv i m op
  | disconnect i effs => exact stepDisconnect_inv cfg inv i effs

theorem final_inv {cfg : Cfg ρ} (hr : cfg.Repaired) {s : State ρ} (inv : Inv s) (h : List (Event ρ)) :
    Inv (final cfg s h) := by
  induction h generalizing s with
  | nil => exact inv
  | cons e es ih => exact ih (step_inv hr inv e)

end
end Txdbus.BusRoute
