import Std.Data.String.ToNat
import TxdbusModel.Proofs.Bus.RouteBasic
/-
C14 - the invariant of the repaired bus model and its preservation by every step.

  * `clients` is exactly the table "unique name -> connected connection that was given this name";
  * every name is `uniqueNameOf k` for some `1 ≤ k < nextId`; two connections never share a name
    (disconnected connections keep theirs: a name is never reused);
  * every rule in the router belongs to a connected connection and its id is remembered there;
    rule ids are below `router._id` and remembered by one connection only.
-/
namespace Txdbus.BusRoute

theorem uniqueNameOf_injective {a b : Nat} (h : uniqueNameOf a = uniqueNameOf b) : a = b := by
  unfold uniqueNameOf at h
  have h2 : Nat.toDigits 10 a = Nat.toDigits 10 b := List.append_cancel_left h
  have h3 : Nat.repr a = Nat.repr b := by
    unfold Nat.repr; rw [h2]
  exact Nat.repr_injective h3

section
variable {ρ : Type}

structure Inv (s : State ρ) : Prop where
  nextId_pos : 1 ≤ s.nextId
  clients_iff : ∀ n j, dget n s.clients = some j ↔ (nameOf s j = some n ∧ connected s j = true)
  names_bound : ∀ j n, nameOf s j = some n → ∃ k, 1 ≤ k ∧ k < s.nextId ∧ n = uniqueNameOf k
  names_inj : ∀ j j' n, nameOf s j = some n → nameOf s j' = some n → j = j'
  rules_ok : ∀ r ∈ s.rules, r.id < s.ruleId ∧ connected s r.conn = true ∧ r.id ∈ rulesOf s r.conn
  ids_bound : ∀ j id, id ∈ rulesOf s j → id < s.ruleId
  ids_inj : ∀ j j' id, id ∈ rulesOf s j → id ∈ rulesOf s j' → j = j'
  ids_present : ∀ j id, id ∈ rulesOf s j → connected s j = true → ∃ r ∈ s.rules, r.id = id

theorem Inv.init : Inv (State.init : State ρ) := by
  constructor <;> simp [State.init, dget, nameOf, rulesOf]

/-- Same accessors, same tables: same invariant. -/
theorem Inv.transfer {s s' : State ρ}
    (hn : ∀ j, nameOf s' j = nameOf s j) (hc : ∀ j, connected s' j = connected s j)
    (hr : ∀ j, rulesOf s' j = rulesOf s j) (h2 : s'.clients = s.clients) (h3 : s'.rules = s.rules)
    (h4 : s'.ruleId = s.ruleId) (h5 : s'.nextId = s.nextId) (inv : Inv s) : Inv s' := by
  constructor
  · rw [h5]; exact inv.nextId_pos
  · intro n j; rw [h2, hn, hc]; exact inv.clients_iff n j
  · intro j n h; rw [hn] at h; rw [h5]; exact inv.names_bound j n h
  · intro j j' n h h'; rw [hn] at h h'; exact inv.names_inj j j' n h h'
  · intro r hr'; rw [h3] at hr'; rw [h4, hc, hr]; exact inv.rules_ok r hr'
  · intro j id h; rw [hr] at h; rw [h4]; exact inv.ids_bound j id h
  · intro j j' id h h'; rw [hr] at h h'; exact inv.ids_inj j j' id h h'
  · intro j id h hcj; rw [hr] at h; rw [hc] at hcj; rw [h3]; exact inv.ids_present j id h hcj

theorem Inv.frame {s s' : State ρ} (h : FrameOwners s s') (inv : Inv s) : Inv s' := by
  obtain ⟨h1, h2, h3, h4, h5⟩ := h
  exact inv.transfer (nameOf_congr s s' h1) (connected_congr s s' h1) (rulesOf_congr s s' h1) h2 h3 h4 h5

/-! ### connect -/

theorem nameOf_append (s s' : State ρ) (h : s'.conns = s.conns ++ [Conn.fresh]) (j : ConnId) :
    nameOf s' j = nameOf s j := by
  unfold nameOf
  rw [h, List.getElem?_append]
  by_cases hj : j < s.conns.length
  · simp [hj]
  · have hle : s.conns.length ≤ j := Nat.le_of_not_lt hj
    have : s.conns[j]? = none := by rw [List.getElem?_eq_none_iff]; exact hle
    rw [if_neg hj, this]
    by_cases h0 : j - s.conns.length = 0
    · simp [h0, Conn.fresh]
    · have : ([Conn.fresh])[j - s.conns.length]? = none := by
        rw [List.getElem?_eq_none_iff]
        have : 1 ≤ j - s.conns.length := Nat.one_le_iff_ne_zero.mpr h0
        simpa using this
      simp [this]

theorem rulesOf_append (s s' : State ρ) (h : s'.conns = s.conns ++ [Conn.fresh]) (j : ConnId) :
    rulesOf s' j = rulesOf s j := by
  unfold rulesOf
  rw [h, List.getElem?_append]
  by_cases hj : j < s.conns.length
  · simp [hj]
  · have hle : s.conns.length ≤ j := Nat.le_of_not_lt hj
    have : s.conns[j]? = none := by rw [List.getElem?_eq_none_iff]; exact hle
    rw [if_neg hj, this]
    by_cases h0 : j - s.conns.length = 0
    · simp [h0, Conn.fresh]
    · have : ([Conn.fresh])[j - s.conns.length]? = none := by
        rw [List.getElem?_eq_none_iff]
        have : 1 ≤ j - s.conns.length := Nat.one_le_iff_ne_zero.mpr h0
        simpa using this
      simp [this]

theorem connected_append_lt (s s' : State ρ) (h : s'.conns = s.conns ++ [Conn.fresh]) (j : ConnId)
    (hj : j < s.conns.length) : connected s' j = connected s j := by
  unfold connected
  rw [h, List.getElem?_append]
  simp [hj]

theorem connected_append_new (s s' : State ρ) (h : s'.conns = s.conns ++ [Conn.fresh]) :
    connected s' s.conns.length = true := by
  unfold connected
  rw [h, List.getElem?_append]
  simp [Conn.fresh]

theorem Inv.connect {s s' : State ρ} (inv : Inv s) (h1 : s'.conns = s.conns ++ [Conn.fresh])
    (h2 : s'.clients = s.clients) (h3 : s'.rules = s.rules) (h4 : s'.ruleId = s.ruleId)
    (h5 : s'.nextId = s.nextId) : Inv s' := by
  have hn := nameOf_append s s' h1
  have hr := rulesOf_append s s' h1
  constructor
  · rw [h5]; exact inv.nextId_pos
  · intro n j
    rw [h2, hn, inv.clients_iff n j]
    constructor
    · rintro ⟨a, b⟩
      exact ⟨a, by rw [connected_append_lt s s' h1 j (nameOf_some_lt s j n a)]; exact b⟩
    · rintro ⟨a, b⟩
      exact ⟨a, by rw [connected_append_lt s s' h1 j (nameOf_some_lt s j n a)] at b; exact b⟩
  · intro j n h; rw [hn] at h; rw [h5]; exact inv.names_bound j n h
  · intro j j' n h h'; rw [hn] at h h'; exact inv.names_inj j j' n h h'
  · intro r hr'
    rw [h3] at hr'
    obtain ⟨a, b, c⟩ := inv.rules_ok r hr'
    refine ⟨by rw [h4]; exact a, ?_, by rw [hr]; exact c⟩
    rw [connected_append_lt s s' h1 _ (connected_true_lt s _ b)]; exact b
  · intro j id h; rw [hr] at h; rw [h4]; exact inv.ids_bound j id h
  · intro j j' id h h'; rw [hr] at h h'; exact inv.ids_inj j j' id h h'
  · intro j id h hcj
    rw [hr] at h
    rw [connected_append_lt s s' h1 j (mem_rulesOf_lt s j id h)] at hcj
    rw [h3]; exact inv.ids_present j id h hcj

/-! ### the first message: a fresh name -/

theorem Inv.fresh_not_used {s : State ρ} (inv : Inv s) (j : ConnId) :
    nameOf s j ≠ some (uniqueNameOf s.nextId) := by
  intro h
  obtain ⟨k, _, hk, e⟩ := inv.names_bound j _ h
  have := uniqueNameOf_injective e
  omega

theorem Inv.named {s s' : State ρ} (inv : Inv s) (i : ConnId) (c : Conn)
    (hc : s.conns[i]? = some c) (hnone : c.uniqueName = none) (hconn : c.isConnected = true)
    (h1 : s'.conns = s.conns.set i { c with uniqueName := some (uniqueNameOf s.nextId) })
    (h2 : s'.clients = dset (uniqueNameOf s.nextId) i s.clients) (h3 : s'.rules = s.rules)
    (h4 : s'.ruleId = s.ruleId) (h5 : s'.nextId = s.nextId + 1) : Inv s' := by
  have hn : ∀ j, nameOf s' j = if j = i then some (uniqueNameOf s.nextId) else nameOf s j :=
    fun j => nameOf_set' s i c _ hc s' h1 j
  have hcn : ∀ j, connected s' j = connected s j := by
    intro j
    rw [connected_set s i c _ hc s' h1 j]
    by_cases hj : j = i
    · subst hj; simp [connected_of_getElem s j c hc, hconn]
    · simp [hj]
  have hr : ∀ j, rulesOf s' j = rulesOf s j := by
    intro j
    rw [rulesOf_set s i c _ hc s' h1 j]
    by_cases hj : j = i
    · subst hj; simp [rulesOf_of_getElem s j c hc]
    · simp [hj]
  have hi_none : nameOf s i = none := by rw [nameOf_of_getElem s i c hc]; exact hnone
  have hi_conn : connected s i = true := by rw [connected_of_getElem s i c hc]; exact hconn
  constructor
  · rw [h5]; omega
  · intro n j
    rw [h2, hn, hcn]
    by_cases hnn : n = uniqueNameOf s.nextId
    · subst hnn
      rw [dget_dset_self]
      by_cases hj : j = i
      · subst hj; simp [hi_conn]
      · have : ¬ i = j := fun e => hj e.symm
        simp [hj, this, inv.fresh_not_used j]
    · rw [dget_dset_ne _ _ _ _ hnn, inv.clients_iff n j]
      by_cases hj : j = i
      · subst hj
        have : ¬ uniqueNameOf s.nextId = n := fun e => hnn e.symm
        simp [hi_none, this]
      · simp [hj]
  · intro j n h
    rw [hn] at h
    rw [h5]
    by_cases hj : j = i
    · simp [hj] at h
      exact ⟨s.nextId, inv.nextId_pos, by omega, h.symm⟩
    · simp [hj] at h
      obtain ⟨k, a, b, e⟩ := inv.names_bound j n h
      exact ⟨k, a, by omega, e⟩
  · intro j j' n h h'
    rw [hn] at h h'
    by_cases hj : j = i <;> by_cases hj' : j' = i
    · rw [hj, hj']
    · simp [hj] at h; simp [hj'] at h'
      rw [← h] at h'
      exact absurd h' (inv.fresh_not_used j')
    · simp [hj] at h; simp [hj'] at h'
      rw [← h'] at h
      exact absurd h (inv.fresh_not_used j)
    · simp [hj] at h; simp [hj'] at h'
      exact inv.names_inj j j' n h h'
  · intro r hr'; rw [h3] at hr'; rw [h4, hcn, hr]; exact inv.rules_ok r hr'
  · intro j id h; rw [hr] at h; rw [h4]; exact inv.ids_bound j id h
  · intro j j' id h h'; rw [hr] at h h'; exact inv.ids_inj j j' id h h'
  · intro j id h hcj; rw [hr] at h; rw [hcn] at hcj; rw [h3]; exact inv.ids_present j id h hcj

/-! ### AddMatch -/

theorem Inv.addMatch {s s' : State ρ} (inv : Inv s) (i : ConnId) (c : Conn) (r : ρ)
    (hc : s.conns[i]? = some c) (hconn : c.isConnected = true)
    (h1 : s'.conns = s.conns.set i { c with matchRules := s.ruleId :: c.matchRules })
    (h2 : s'.clients = s.clients) (h3 : s'.rules = s.rules ++ [⟨s.ruleId, i, r⟩])
    (h4 : s'.ruleId = s.ruleId + 1) (h5 : s'.nextId = s.nextId) : Inv s' := by
  have hn : ∀ j, nameOf s' j = nameOf s j := by
    intro j
    rw [nameOf_set' s i c _ hc s' h1 j]
    by_cases hj : j = i
    · subst hj; simp [nameOf_of_getElem s j c hc]
    · simp [hj]
  have hcn : ∀ j, connected s' j = connected s j := by
    intro j
    rw [connected_set s i c _ hc s' h1 j]
    by_cases hj : j = i
    · subst hj; simp [connected_of_getElem s j c hc]
    · simp [hj]
  have hr : ∀ j, rulesOf s' j = if j = i then s.ruleId :: rulesOf s i else rulesOf s j := by
    intro j
    rw [rulesOf_set s i c _ hc s' h1 j, rulesOf_of_getElem s i c hc]
  have hi_conn : connected s i = true := by rw [connected_of_getElem s i c hc]; exact hconn
  have fresh : ∀ j, s.ruleId ∉ rulesOf s j := by
    intro j h
    have := inv.ids_bound j _ h
    omega
  constructor
  · rw [h5]; exact inv.nextId_pos
  · intro n j; rw [h2, hn, hcn]; exact inv.clients_iff n j
  · intro j n h; rw [hn] at h; rw [h5]; exact inv.names_bound j n h
  · intro j j' n h h'; rw [hn] at h h'; exact inv.names_inj j j' n h h'
  · intro r' hr'
    rw [h3, List.mem_append] at hr'
    rw [h4, hcn, hr]
    rcases hr' with hold | hnew
    · obtain ⟨a, b, cc⟩ := inv.rules_ok r' hold
      refine ⟨by omega, b, ?_⟩
      by_cases hj : r'.conn = i
      · rw [if_pos hj, ← hj]; exact List.mem_cons_of_mem _ cc
      · rw [if_neg hj]; exact cc
    · simp only [List.mem_singleton] at hnew
      subst hnew
      exact ⟨by simp, hi_conn, by simp⟩
  · intro j id h
    rw [hr] at h
    rw [h4]
    by_cases hj : j = i
    · rw [if_pos hj] at h
      rcases List.mem_cons.mp h with e | h
      · omega
      · have := inv.ids_bound i id h; omega
    · rw [if_neg hj] at h
      have := inv.ids_bound j id h; omega
  · intro j j' id h h'
    rw [hr] at h h'
    by_cases hj : j = i <;> by_cases hj' : j' = i
    · rw [hj, hj']
    · rw [if_pos hj] at h; rw [if_neg hj'] at h'
      rcases List.mem_cons.mp h with e | h
      · subst e; exact absurd h' (fresh j')
      · rw [hj]; exact inv.ids_inj i j' id h h'
    · rw [if_neg hj] at h; rw [if_pos hj'] at h'
      rcases List.mem_cons.mp h' with e | h'
      · subst e; exact absurd h (fresh j)
      · rw [hj']; exact inv.ids_inj j i id h h'
    · rw [if_neg hj] at h; rw [if_neg hj'] at h'
      exact inv.ids_inj j j' id h h'
  · intro j id h hcj
    rw [hr] at h
    rw [hcn] at hcj
    rw [h3]
    by_cases hj : j = i
    · rw [if_pos hj] at h
      rcases List.mem_cons.mp h with e | h
      · exact ⟨⟨s.ruleId, i, r⟩, by simp, e.symm⟩
      · obtain ⟨x, hx, hxe⟩ := inv.ids_present i id h (by rw [← hj]; exact hcj)
        exact ⟨x, List.mem_append_left _ hx, hxe⟩
    · rw [if_neg hj] at h
      obtain ⟨x, hx, hxe⟩ := inv.ids_present j id h hcj
      exact ⟨x, List.mem_append_left _ hx, hxe⟩

/-! ### disconnect -/

theorem Inv.disconnect {s s' : State ρ} (inv : Inv s) (i : ConnId) (c : Conn)
    (hc : s.conns[i]? = some c)
    (h1 : s'.conns = s.conns.set i { c with isConnected := false })
    (h2 : s'.clients = match c.uniqueName with
                        | some n => ddel n s.clients
                        | none => s.clients)
    (h3 : s'.rules = s.rules.filter (fun r => !(c.matchRules.contains r.id)))
    (h4 : s'.ruleId = s.ruleId) (h5 : s'.nextId = s.nextId) : Inv s' := by
  have hn : ∀ j, nameOf s' j = nameOf s j := by
    intro j
    rw [nameOf_set' s i c _ hc s' h1 j]
    by_cases hj : j = i
    · subst hj; simp [nameOf_of_getElem s j c hc]
    · simp [hj]
  have hcn : ∀ j, connected s' j = if j = i then false else connected s j := by
    intro j
    rw [connected_set s i c _ hc s' h1 j]
  have hr : ∀ j, rulesOf s' j = rulesOf s j := by
    intro j
    rw [rulesOf_set s i c _ hc s' h1 j]
    by_cases hj : j = i
    · subst hj; simp [rulesOf_of_getElem s j c hc]
    · simp [hj]
  have hi_name : nameOf s i = c.uniqueName := nameOf_of_getElem s i c hc
  have hi_rules : rulesOf s i = c.matchRules := rulesOf_of_getElem s i c hc
  constructor
  · rw [h5]; exact inv.nextId_pos
  · intro n j
    rw [h2, hn, hcn]
    cases hu : c.uniqueName with
    | none =>
      simp only
      rw [inv.clients_iff n j]
      by_cases hj : j = i
      · subst hj; simp [hi_name, hu]
      · simp [hj]
    | some n0 =>
      simp only
      by_cases hnn : n = n0
      · subst hnn
        rw [dget_ddel_self]
        by_cases hj : j = i
        · simp [hj]
        · have : nameOf s j ≠ some n := by
            intro h
            exact hj (inv.names_inj j i n h (by rw [hi_name, hu]))
          simp [hj, this]
      · rw [dget_ddel_ne _ _ _ hnn, inv.clients_iff n j]
        by_cases hj : j = i
        · subst hj
          have : ¬ n0 = n := fun e => hnn e.symm
          simp [hi_name, hu, this]
        · simp [hj]
  · intro j n h; rw [hn] at h; rw [h5]; exact inv.names_bound j n h
  · intro j j' n h h'; rw [hn] at h h'; exact inv.names_inj j j' n h h'
  · intro r hr'
    rw [h3, List.mem_filter] at hr'
    obtain ⟨hmem, hnot⟩ := hr'
    obtain ⟨a, b, cc⟩ := inv.rules_ok r hmem
    rw [h4, hcn, hr]
    refine ⟨a, ?_, cc⟩
    by_cases hj : r.conn = i
    · rw [hj, hi_rules] at cc
      simp [cc] at hnot
    · rw [if_neg hj]; exact b
  · intro j id h; rw [hr] at h; rw [h4]; exact inv.ids_bound j id h
  · intro j j' id h h'; rw [hr] at h h'; exact inv.ids_inj j j' id h h'
  · intro j id h hcj
    rw [hr] at h
    rw [hcn] at hcj
    by_cases hj : j = i
    · rw [if_pos hj] at hcj; exact absurd hcj (by simp)
    · rw [if_neg hj] at hcj
      obtain ⟨x, hx, hxe⟩ := inv.ids_present j id h hcj
      refine ⟨x, ?_, hxe⟩
      rw [h3, List.mem_filter]
      refine ⟨hx, ?_⟩
      have : x.id ∉ c.matchRules := by
        intro hin
        rw [hxe, ← hi_rules] at hin
        exact hj (inv.ids_inj j i id h hin)
      simp [this]

end
end Txdbus.BusRoute
