import TxdbusModel.Proofs.Bus.RouteHeld
/-
C14 - the step-level statements in the form used by Properties/C14.lean: from any state that
satisfies the invariant (every reachable state does).
-/
namespace Txdbus.BusRoute

section
variable {ρ : Type}

theorem final_append (cfg : Cfg ρ) (s : State ρ) (h h' : List (Event ρ)) :
    final cfg s (h ++ h') = final cfg (final cfg s h) h' := by
  induction h generalizing s with
  | nil => rfl
  | cons e es ih => simp [final, ih]

theorem exec_append (cfg : Cfg ρ) (s : State ρ) (h h' : List (Event ρ)) :
    exec cfg s (h ++ h') = exec cfg s h ++ exec cfg (final cfg s h) h' := by
  induction h generalizing s with
  | nil => rfl
  | cons e es ih => simp [final, exec, ih]

/-- A message from a live connection: what `step` computes. -/
theorem step_msg_live (cfg : Cfg ρ) (s : State ρ) (i : ConnId) (m : Msg) (op : BusOp ρ) (c : Conn)
    (hc : s.conns[i]? = some c) (hconn : c.isConnected = true) :
    step cfg s (.msg i m op) =
      stepNamed cfg (ensureNamed s i c).1 i (ensureNamed s i c).2.1 (ensureNamed s i c).2.2 c.calledHello m op := by
  simp [step, stepMsg, hc, hconn]

theorem live_conn {s : State ρ} {i : ConnId} (hl : Live s i) : ∃ c, s.conns[i]? = some c ∧ c.isConnected = true := by
  unfold Live connected at hl
  cases hc : s.conns[i]? with
  | none => rw [hc] at hl; exact absurd hl (by simp)
  | some c => rw [hc] at hl; exact ⟨c, rfl, hl⟩

/-! ### T2 -/

theorem unicast_exact_from {cfg : Cfg ρ} (hr : cfg.Repaired) {s : State ρ} (inv : Inv s) (i : ConnId) (m : Msg)
    (op : BusOp ρ) (d : Name) (ha : Addressed m d) (hl : Live s i) :
    ∃ n, nameOf (step cfg s (.msg i m op)).1 i = some n ∧
    (∀ j, Owns (step cfg s (.msg i m op)).1 j d →
      (step cfg s (.msg i m op)).2.deliveries = [⟨j, .fwd i (remarshal m n)⟩]) ∧
    ((∀ j, ¬ Owns (step cfg s (.msg i m op)).1 j d) → (step cfg s (.msg i m op)).2.deliveries = []) := by
  obtain ⟨c, hc, hconn⟩ := live_conn hl
  have ns := ensureNamed_spec inv i c hc hconn
  obtain ⟨c1, h1, _, h3, _⟩ := ns.conn
  rw [step_msg_live cfg s i m op c hc hconn]
  obtain ⟨a, b, _⟩ := stepNamed_unicast hr (ensureNamed s i c).1 i (ensureNamed s i c).2.1
    (ensureNamed s i c).2.2 c.calledHello m op d ha
  have hn : nameOf (ensureNamed s i c).1 i = some (ensureNamed s i c).2.1 := by
    rw [nameOf_of_getElem _ i c1 h1]; exact h3
  rw [a, b]
  exact ⟨_, hn, fun j ho => busSend_owner ns.inv d _ j ho, fun hno => busSend_no_owner ns.inv d _ hno⟩

/-! ### T3 -/

theorem sender_is_true_from {cfg : Cfg ρ} (hr : cfg.Repaired) {s : State ρ} (inv : Inv s) (e : Event ρ)
    (dl : Delivery) (hdl : dl ∈ (step cfg s e).2.deliveries) (o : ConnId) (m' : Msg) (hw : dl.what = .fwd o m') :
    ∃ m op n, e = .msg o m op ∧ nameOf (step cfg s e).1 o = some n ∧ m' = remarshal m n := by
  cases e with
  | connect => simp [step] at hdl
  | disconnect i effs =>
    cases hc : s.conns[i]? with
    | none => simp [step, stepDisconnect, hc] at hdl
    | some c =>
      by_cases hconn : c.isConnected = false
      · simp [step, stepDisconnect, hc, hconn] at hdl
      · have hconn' : c.isConnected = true := by simpa using hconn
        obtain ⟨_, _, _, _, _, h6, _⟩ := stepDisconnect_fields cfg s i effs c hc hconn'
          (disconnectOk_of_inv inv i c hc hconn')
        obtain ⟨x, hx⟩ := h6 dl hdl
        rw [hx] at hw; cases hw
  | msg i m op =>
    cases hc : s.conns[i]? with
    | none => simp [step, stepMsg, hc] at hdl
    | some c =>
      by_cases hconn : c.isConnected = false
      · simp [step, stepMsg, hc, hconn] at hdl
      · have hconn' : c.isConnected = true := by simpa using hconn
        have ns := ensureNamed_spec inv i c hc hconn'
        obtain ⟨c1, h1, h2, h3, _⟩ := ns.conn
        have hn : nameOf (ensureNamed s i c).1 i = some (ensureNamed s i c).2.1 := by
          rw [nameOf_of_getElem _ i c1 h1]; exact h3
        rw [step_msg_live cfg s i m op c hc hconn'] at hdl ⊢
        rcases dest_trichotomy m with ⟨d, ha⟩ | hb | hnn
        · obtain ⟨a, b, _⟩ := stepNamed_unicast hr (ensureNamed s i c).1 i (ensureNamed s i c).2.1
            (ensureNamed s i c).2.2 c.calledHello m op d ha
          rw [b] at hdl
          rw [a]
          unfold busSend at hdl
          cases hres : resolve (ensureNamed s i c).1 d with
          | none => rw [hres] at hdl; simp at hdl
          | some j =>
            rw [hres] at hdl
            simp only [List.mem_singleton] at hdl
            subst hdl
            cases hw
            exact ⟨m, op, _, rfl, hn, rfl⟩
        · obtain ⟨_, _, _, sigs, hs, hdeliv⟩ := stepNamed_bus hr ns.inv i c1 (ensureNamed s i c).2.1
            (ensureNamed s i c).2.2 c.calledHello m op h1 h2 h3 hb
          rw [hdeliv, List.mem_append] at hdl
          rcases hdl with h | h
          · obtain ⟨x, hx⟩ := hs dl h
            rw [hx] at hw; cases hw
          · split at h
            · simp only [List.mem_singleton] at h
              subst h
              split at hw <;> cases hw
            · simp at h
        · obtain ⟨a, b, _⟩ := stepNamed_broadcast hr (ensureNamed s i c).1 i (ensureNamed s i c).2.1
            (ensureNamed s i c).2.2 c.calledHello m op hnn
          rw [b] at hdl
          rw [a]
          simp only [route, List.mem_map] at hdl
          obtain ⟨r, _, rfl⟩ := hdl
          cases hw
          exact ⟨m, op, _, rfl, hn, rfl⟩

/-! ### T5 -/

theorem helloCalled_of_getElem (s : State ρ) (i : ConnId) (c : Conn) (hc : s.conns[i]? = some c) :
    helloCalled s i = c.calledHello := by simp [helloCalled, hc]

theorem bus_calls_from {cfg : Cfg ρ} (hr : cfg.Repaired) {s : State ρ} (inv : Inv s) (i : ConnId) (m : Msg)
    (op : BusOp ρ) (hd : m.dest = some busName) (hl : Live s i) :
    (∀ dl ∈ (step cfg s (.msg i m op)).2.deliveries, dl.what.isFwd = false) ∧
    (step cfg s (.msg i m op)).2.deliveries.filterMap replyOf =
      (if answered (helloCalled s i) m op then [(i, m.serial)] else []) ∧
    (∀ dl ∈ (step cfg s (.msg i m op)).2.deliveries, ∀ j nm, helloNameOf dl = some (j, nm) →
      j = i ∧ nameOf (step cfg s (.msg i m op)).1 i = some nm) := by
  obtain ⟨c, hc, hconn⟩ := live_conn hl
  have ns := ensureNamed_spec inv i c hc hconn
  obtain ⟨c1, h1, h2, h3, _⟩ := ns.conn
  rw [step_msg_live cfg s i m op c hc hconn, helloCalled_of_getElem s i c hc]
  obtain ⟨_, keeps, _, sigs, hs, hdeliv⟩ := stepNamed_bus hr ns.inv i c1 (ensureNamed s i c).2.1
    (ensureNamed s i c).2.2 c.calledHello m op h1 h2 h3 hd
  have hn : nameOf (ensureNamed s i c).1 i = some (ensureNamed s i c).2.1 := by
    rw [nameOf_of_getElem _ i c1 h1]; exact h3
  rw [hdeliv]
  have hsig : sigs.filterMap replyOf = [] := by
    rw [List.filterMap_eq_nil_iff]
    intro dl hdl
    obtain ⟨x, hx⟩ := hs dl hdl
    simp [replyOf, hx]
  refine ⟨?_, ?_, ?_⟩
  · intro dl hdl
    rw [List.mem_append] at hdl
    rcases hdl with h | h
    · obtain ⟨x, hx⟩ := hs dl h
      rw [hx]; rfl
    · split at h
      · simp only [List.mem_singleton] at h
        subst h
        show Payload.isFwd (if _ then _ else _) = false
        split <;> rfl
      · simp at h
  · rw [List.filterMap_append, hsig, List.nil_append]
    have hrep : ∀ (p : Prop) [Decidable p] (nm : Name),
        replyOf ⟨i, if p then Payload.helloReply m.serial nm else Payload.busReply m.serial nm⟩ =
          some (i, m.serial) := by
      intro p _ nm
      by_cases hp : p <;> simp [replyOf, hp]
    split
    · simp [List.filterMap_cons, hrep]
    · simp
  · intro dl hdl j nm hh
    rw [List.mem_append] at hdl
    rcases hdl with h | h
    · obtain ⟨x, hx⟩ := hs dl h
      simp [helloNameOf, hx] at hh
    · split at h
      · simp only [List.mem_singleton] at h
        subst h
        by_cases hp : c.calledHello = false ∧ m.member = some helloMember
        · simp only [helloNameOf, if_pos hp, Option.some.injEq, Prod.mk.injEq] at hh
          obtain ⟨rfl, rfl⟩ := hh
          exact ⟨rfl, by rw [keeps.2.2.1]; exact hn⟩
        · simp [helloNameOf, if_neg hp] at hh
      · simp at h

/-! ### T6 -/

theorem route_eq_held (cfg : Cfg ρ) (s : State ρ) (m : Msg) (p : Payload) :
    route cfg s m p = ((heldBy s).filter (fun e => cfg.holds e.2 m)).map (fun e => ⟨e.1, p⟩) := by
  unfold route heldBy
  rw [List.filter_map, List.map_map]
  rfl

theorem broadcast_exact_from {cfg : Cfg ρ} (hr : cfg.Repaired) {s : State ρ} (inv : Inv s) (i : ConnId) (m : Msg)
    (op : BusOp ρ) (hd : truthy m.dest = false) (hl : Live s i) :
    ∃ n, nameOf (step cfg s (.msg i m op)).1 i = some n ∧
    (step cfg s (.msg i m op)).2.deliveries =
      ((heldBy s).filter (fun e => cfg.holds e.2 (withSender m (some n)))).map
        (fun e => ⟨e.1, .fwd i (remarshal m n)⟩) ∧
    (∀ j, connected (step cfg s (.msg i m op)).1 j = connected s j) := by
  obtain ⟨c, hc, hconn⟩ := live_conn hl
  have ns := ensureNamed_spec inv i c hc hconn
  obtain ⟨c1, h1, _, h3, _⟩ := ns.conn
  rw [step_msg_live cfg s i m op c hc hconn]
  obtain ⟨a, b, _⟩ := stepNamed_broadcast hr (ensureNamed s i c).1 i (ensureNamed s i c).2.1
    (ensureNamed s i c).2.2 c.calledHello m op hd
  have hn : nameOf (ensureNamed s i c).1 i = some (ensureNamed s i c).2.1 := by
    rw [nameOf_of_getElem _ i c1 h1]; exact h3
  rw [a, b]
  refine ⟨_, hn, ?_, ns.connected⟩
  rw [route_eq_held]
  have : heldBy (ensureNamed s i c).1 = heldBy s := by unfold heldBy; rw [ns.rules]
  rw [this]

/-- Every rule in the table belongs to a connected connection. -/
theorem held_live {s : State ρ} (inv : Inv s) (j : ConnId) (r : ρ) (h : (j, r) ∈ heldBy s) : Live s j := by
  unfold heldBy at h
  rw [List.mem_map] at h
  obtain ⟨e, he, heq⟩ := h
  obtain ⟨_, hcn, _⟩ := inv.rules_ok e he
  cases heq
  exact hcn

end
end Txdbus.BusRoute
