import TxdbusModel.Proofs.Bus.Lookup
import TxdbusModel.Proofs.Bus.RouteMain
/-!
# The seam between C13 (name table) and C14 (routing)  -  extension 2026-09-30

C14's routing model (`Txdbus.BusRoute`, `Bus/Route.lean`) does not import C13's name table.  Its
notion of "owner of a well-known destination" is a field of its state, `State.owners`, which only
changes through the `Effect`s `setOwner` / `unsetOwner` that its events carry (observed on the real
bus by C14's harness); its theorems `unicast_exact` / `owner_unique` hold for EVERY effect list and
say nothing about what `owners` contains.  This file instantiates that field with C13's model:

* `ownerEffects enc φ names s s'` - the effects C13's model computes for a step `s -> s'`
  (one `setOwner` / `unsetOwner` per name whose `routerLookup` changed);
* `agree_applyEffects` - feeding them to C14's `applyEffects` keeps `owners` equal to C13's
  `routerLookup` (`OwnersAgree`), whatever signals are interleaved; `agree_step` - for every step of
  C13's model with `names = changedNames s op`;
* `unicast_reaches_names_owner` - hence C14's `unicast_exact`, for a bus whose `owners` agree with a
  reachable state of C13's model, delivers a message for a well-known name to exactly the connection
  C13's specification names as the owner at that moment, or to nobody;
* `names_owner_live` - and that receiver is a live connection of C14's model (C14's own invariant says
  nothing about the liveness of the owner of a well-known name).

Only these parts of C14's files are used: `State.owners`, `Effect.setOwner/unsetOwner`, `applyEffects`,
`dget/dset/ddel` and their lemmas, `Owns`, `Live`, `nameOf`, `step_msg_live`, `stepNamed_unicast`,
`ensureNamed`, `unicast_exact_from`, `final_inv`.  Nothing depends on the rule type `ρ` or on `Cfg.holds`.

`enc` writes C13's abstract well-known names as strings, `φ` maps C13's connection numbers (`k` of
`:1.k`) to C14's connection indices.
-/
namespace Txdbus.NamesRoute

open Txdbus
open Txdbus.BusRoute (Effect dget dset ddel applyEffect applyEffects Cfg ConnId)

variable {ρ : Type}

/-- The strings of C13's well-known names: different names are different strings, none starts with ':'. -/
structure NameEnc (enc : Bus.Name → BusRoute.Name) : Prop where
  inj : ∀ a b, enc a = enc b → a = b
  wellKnown : ∀ a, (enc a).head? ≠ some ':'

/-! ### what an effect list does to `owners` -/

/-- The owner part of an effect (signals have none). -/
def ownerPart : Effect → Option (BusRoute.Name × Option ConnId)
  | .setOwner n j => some (n, some j)
  | .unsetOwner n => some (n, none)
  | _ => none

def applyOwner (o : List (BusRoute.Name × ConnId)) : BusRoute.Name × Option ConnId → List (BusRoute.Name × ConnId)
  | (n, some j) => dset n j o
  | (n, none) => ddel n o

/-- `owners` after an effect list: only the owner parts count. -/
def ownersAfter (o : List (BusRoute.Name × ConnId)) : List Effect → List (BusRoute.Name × ConnId)
  | [] => o
  | e :: es =>
    match ownerPart e with
    | some p => ownersAfter (applyOwner o p) es
    | none => ownersAfter o es

theorem applyEffect_owners (cfg : Cfg ρ) (r : BusRoute.State ρ) (e : Effect) :
    (applyEffect cfg r e).1.owners = (match ownerPart e with
                                      | some p => applyOwner r.owners p
                                      | none => r.owners) := by
  cases e <;> rfl

theorem applyEffects_owners (cfg : Cfg ρ) (r : BusRoute.State ρ) (es : List Effect) :
    (applyEffects cfg r es).1.owners = ownersAfter r.owners es := by
  induction es generalizing r with
  | nil => rfl
  | cons e es ih =>
    simp only [applyEffects, ownersAfter]
    rw [ih, applyEffect_owners]
    cases ownerPart e <;> rfl

theorem ownersAfter_append (o : List (BusRoute.Name × ConnId)) (a b : List Effect) :
    ownersAfter o (a ++ b) = ownersAfter (ownersAfter o a) b := by
  induction a generalizing o with
  | nil => rfl
  | cons e es ih =>
    simp only [List.cons_append, ownersAfter]
    cases ownerPart e <;> simp only [ih]

/-! ### the effects C13's model computes -/

/-- C14's table agrees with C13's lookup: for every well-known name, the connection C14 has as its
owner is (the image of) the one C13's router lookup finds, and there is none iff C13 finds none. -/
def OwnersAgree (enc : Bus.Name → BusRoute.Name) (φ : Bus.Conn → ConnId) (s : Bus.State)
    (o : List (BusRoute.Name × ConnId)) : Prop :=
  ∀ n, dget (enc n) o = (Bus.routerLookup s (.wellKnown n)).map φ

/-- What C13's model says happened to the owner of `n` between `s` and `s'`. -/
def ownerEffect (enc : Bus.Name → BusRoute.Name) (φ : Bus.Conn → ConnId) (s s' : Bus.State) (n : Bus.Name) :
    List Effect :=
  if Bus.routerLookup s' (.wellKnown n) = Bus.routerLookup s (.wellKnown n) then []
  else match Bus.routerLookup s' (.wellKnown n) with
    | some k => [.setOwner (enc n) (φ k)]
    | none => [.unsetOwner (enc n)]

def ownerEffects (enc : Bus.Name → BusRoute.Name) (φ : Bus.Conn → ConnId) (names : List Bus.Name)
    (s s' : Bus.State) : List Effect :=
  names.flatMap (ownerEffect enc φ s s')

/-- An owner change of C13's model as an effect of C14's. -/
def toEffect (enc : Bus.Name → BusRoute.Name) (φ : Bus.Conn → ConnId) : Bus.Name × Option Bus.Conn → Effect
  | (n, some k) => .setOwner (enc n) (φ k)
  | (n, none) => .unsetOwner (enc n)

/-- `ownerEffects` is the list the driver prints (`Bus.ownerChanges`, command `e`, compared with the changes of
the heads of `Bus.busNames` on the real bus by stream `router-lookup-bytes`), written as C14's effects. -/
theorem ownerEffects_eq_changes (enc : Bus.Name → BusRoute.Name) (φ : Bus.Conn → ConnId) (s s' : Bus.State)
    (op : Bus.Op) :
    ownerEffects enc φ (Bus.changedNames s op) s s' = (Bus.ownerChanges s s' op).map (toEffect enc φ) := by
  unfold ownerEffects Bus.ownerChanges
  rw [List.map_flatMap]
  congr 1
  funext n
  unfold ownerEffect Bus.ownerChange
  split
  · rfl
  · cases Bus.routerLookup s' (.wellKnown n) <;> rfl

section
variable {enc : Bus.Name → BusRoute.Name} {φ : Bus.Conn → ConnId}

/-- One name: afterwards C14's entry for it is C13's new answer, every other name's entry is untouched. -/
theorem ownerEffect_spec (he : NameEnc enc) (s s' : Bus.State) (m : Bus.Name)
    (o : List (BusRoute.Name × ConnId))
    (hm : dget (enc m) o = (Bus.routerLookup s (.wellKnown m)).map φ ∨
          dget (enc m) o = (Bus.routerLookup s' (.wellKnown m)).map φ) :
    dget (enc m) (ownersAfter o (ownerEffect enc φ s s' m)) = (Bus.routerLookup s' (.wellKnown m)).map φ ∧
    ∀ n, n ≠ m → dget (enc n) (ownersAfter o (ownerEffect enc φ s s' m)) = dget (enc n) o := by
  unfold ownerEffect
  by_cases hsame : Bus.routerLookup s' (.wellKnown m) = Bus.routerLookup s (.wellKnown m)
  · rw [if_pos hsame]
    refine ⟨?_, fun _ _ => rfl⟩
    show dget (enc m) o = _
    rcases hm with h | h
    · rw [h, hsame]
    · exact h
  · rw [if_neg hsame]
    cases hl : Bus.routerLookup s' (.wellKnown m) with
    | some k =>
      refine ⟨?_, ?_⟩
      · show dget (enc m) (dset (enc m) (φ k) o) = _
        rw [BusRoute.dget_dset_self]; rfl
      · intro n hn
        show dget (enc n) (dset (enc m) (φ k) o) = _
        exact BusRoute.dget_dset_ne _ _ _ _ (fun e => hn (he.inj _ _ e))
    | none =>
      refine ⟨?_, ?_⟩
      · show dget (enc m) (ddel (enc m) o) = _
        rw [BusRoute.dget_ddel_self]; rfl
      · intro n hn
        show dget (enc n) (ddel (enc m) o) = _
        exact BusRoute.dget_ddel_ne _ _ _ (fun e => hn (he.inj _ _ e))

theorem ownerEffects_spec (he : NameEnc enc) (s s' : Bus.State) (names : List Bus.Name) :
    ∀ o : List (BusRoute.Name × ConnId),
    (∀ n, dget (enc n) o = (Bus.routerLookup s (.wellKnown n)).map φ ∨
          dget (enc n) o = (Bus.routerLookup s' (.wellKnown n)).map φ) →
    (∀ n, dget (enc n) (ownersAfter o (ownerEffects enc φ names s s')) = (Bus.routerLookup s (.wellKnown n)).map φ ∨
          dget (enc n) (ownersAfter o (ownerEffects enc φ names s s')) = (Bus.routerLookup s' (.wellKnown n)).map φ) ∧
    (∀ n, n ∈ names →
          dget (enc n) (ownersAfter o (ownerEffects enc φ names s s')) = (Bus.routerLookup s' (.wellKnown n)).map φ) ∧
    (∀ n, dget (enc n) o = (Bus.routerLookup s' (.wellKnown n)).map φ →
          dget (enc n) (ownersAfter o (ownerEffects enc φ names s s')) = (Bus.routerLookup s' (.wellKnown n)).map φ) := by
  induction names with
  | nil =>
    intro o h
    exact ⟨h, fun _ hn => absurd hn (by simp), fun _ hn => hn⟩
  | cons m ms ih =>
    intro o h
    have hstep := ownerEffect_spec (φ := φ) he s s' m o (h m)
    have hsplit : ownersAfter o (ownerEffects enc φ (m :: ms) s s')
        = ownersAfter (ownersAfter o (ownerEffect enc φ s s' m)) (ownerEffects enc φ ms s s') := by
      unfold ownerEffects
      rw [List.flatMap_cons, ownersAfter_append]
    rw [hsplit]
    have h1 : ∀ n, dget (enc n) (ownersAfter o (ownerEffect enc φ s s' m)) = (Bus.routerLookup s (.wellKnown n)).map φ ∨
        dget (enc n) (ownersAfter o (ownerEffect enc φ s s' m)) = (Bus.routerLookup s' (.wellKnown n)).map φ := by
      intro n
      by_cases hn : n = m
      · subst hn; exact Or.inr hstep.1
      · rw [hstep.2 n hn]; exact h n
    obtain ⟨a, b, c⟩ := ih _ h1
    refine ⟨a, ?_, ?_⟩
    · intro n hn
      rcases List.mem_cons.mp hn with e | e
      · subst e; exact c _ hstep.1
      · exact b n e
    · intro n hn
      apply c
      by_cases hnm : n = m
      · subst hnm; exact hstep.1
      · rw [hstep.2 n hnm]; exact hn

/-- Feeding the effects C13's model computes to C14's table keeps the two in agreement, provided `names`
lists every name whose lookup changed (duplicates and unchanged names do not matter). -/
theorem agree_ownersAfter (he : NameEnc enc) {s s' : Bus.State} {names : List Bus.Name}
    (hcover : ∀ n, n ∉ names → Bus.routerLookup s' (.wellKnown n) = Bus.routerLookup s (.wellKnown n))
    {o : List (BusRoute.Name × ConnId)} (ha : OwnersAgree enc φ s o) :
    OwnersAgree enc φ s' (ownersAfter o (ownerEffects enc φ names s s')) := by
  intro n
  obtain ⟨a, b, _⟩ := ownerEffects_spec (φ := φ) he s s' names o (fun n => Or.inl (ha n))
  by_cases hn : n ∈ names
  · exact b n hn
  · rcases a n with h | h
    · rw [h, hcover n hn]
    · exact h

/-- The same through C14's own `applyEffects`, with any signals interleaved: only the owner parts of the
effect list have to be those C13 computes. -/
theorem agree_applyEffects (he : NameEnc enc) (cfg : Cfg ρ) {s s' : Bus.State} {names : List Bus.Name}
    (hcover : ∀ n, n ∉ names → Bus.routerLookup s' (.wellKnown n) = Bus.routerLookup s (.wellKnown n))
    (r : BusRoute.State ρ) (ha : OwnersAgree enc φ s r.owners) (effs : List Effect)
    (heffs : effs.filterMap ownerPart = (ownerEffects enc φ names s s').filterMap ownerPart) :
    OwnersAgree enc φ s' (applyEffects cfg r effs).1.owners := by
  have key : ∀ (es : List Effect) (o : List (BusRoute.Name × ConnId)),
      ownersAfter o es = (es.filterMap ownerPart).foldl applyOwner o := by
    intro es
    induction es with
    | nil => intro o; rfl
    | cons e es ih =>
      intro o
      simp only [ownersAfter, List.filterMap_cons]
      cases ownerPart e <;> simp [ih]
  rw [applyEffects_owners, key, heffs, ← key]
  exact agree_ownersAfter he hcover ha

/-- Every successful step of C13's model: the effects for `changedNames s op` keep C14's table in
agreement with C13's lookup. -/
theorem agree_step (he : NameEnc enc) (cfg : Cfg ρ) {s s' : Bus.State} (hI : Bus.Inv s) {op : Bus.Op}
    {evs : List Bus.Event} (hs : Bus.step s op = .ok (s', evs))
    (r : BusRoute.State ρ) (ha : OwnersAgree enc φ s r.owners) :
    OwnersAgree enc φ s' (applyEffects cfg r (ownerEffects enc φ (Bus.changedNames s op) s s')).1.owners :=
  agree_applyEffects he cfg (fun n hn => Bus.step_lookup_frame hI hs n hn) r ha _ rfl

/-- A lookup or a question of C13's history changes nothing, and needs no effect. -/
theorem agree_stepL (he : NameEnc enc) (cfg : Cfg ρ) {s s' : Bus.State} (hI : Bus.Inv s) {h : Bus.HStep}
    {o : Bus.HOut} (hs : Bus.stepL s h = .ok (s', o))
    (r : BusRoute.State ρ) (ha : OwnersAgree enc φ s r.owners) :
    OwnersAgree enc φ s'
      (applyEffects cfg r (ownerEffects enc φ (Bus.changedNames s h.toOp) s s')).1.owners := by
  cases h with
  | op op =>
    simp only [Bus.stepL] at hs
    cases h1 : Bus.step s op with
    | error e => simp [h1] at hs
    | ok p =>
      obtain ⟨s1, evs⟩ := p
      simp only [h1] at hs
      cases hs
      exact agree_step he cfg hI h1 r ha
  | send c d =>
    simp only [Bus.stepL] at hs
    cases hs
    exact ha
  | sendBus c =>
    simp only [Bus.stepL] at hs
    cases hs
    exact ha
  | ask c d =>
    simp only [Bus.stepL, Bus.getNameOwnerOf_post hI c d] at hs
    cases hs
    exact ha

/-- The effect lists C13's model computes along a history with lookups, one per step. -/
def runEffects (enc : Bus.Name → BusRoute.Name) (φ : Bus.Conn → ConnId) (s : Bus.State) :
    List Bus.HStep → List (List Effect)
  | [] => []
  | h :: hs =>
    match Bus.stepL s h with
    | .error _ => []
    | .ok (s', _) => ownerEffects enc φ (Bus.changedNames s h.toOp) s s' :: runEffects enc φ s' hs

/-- Whole histories: a table that is fed, step by step, the effects C13's model computes agrees with
C13's lookup at the end (and, the statement holding for every prefix, at every point on the way). -/
theorem agree_run (he : NameEnc enc) {hs : List Bus.HStep} : ∀ {s s' : Bus.State} {outs : List Bus.HOut}
    {o : List (BusRoute.Name × ConnId)}, Bus.Inv s → OwnersAgree enc φ s o →
    Bus.runL s hs = .ok (s', outs) →
    OwnersAgree enc φ s' (ownersAfter o (runEffects enc φ s hs).flatten) := by
  induction hs with
  | nil =>
    intro s s' outs o _ ha h
    simp only [Bus.runL] at h
    cases h
    exact ha
  | cons x xs ih =>
    intro s s' outs o hI ha h
    simp only [Bus.runL] at h
    cases h1 : Bus.stepL s x with
    | error e => simp [h1] at h
    | ok r1 =>
      obtain ⟨s1, o1⟩ := r1
      simp only [h1] at h
      cases h2 : Bus.runL s1 xs with
      | error e => simp [h2] at h
      | ok r2 =>
        obtain ⟨s2, os2⟩ := r2
        simp only [h2] at h
        cases h
        have hI1 := (Bus.stepL_refines hI h1).1
        have hcover : ∀ n, n ∉ Bus.changedNames s x.toOp →
            Bus.routerLookup s1 (.wellKnown n) = Bus.routerLookup s (.wellKnown n) := by
          intro n hn
          cases x with
          | op op =>
            simp only [Bus.stepL] at h1
            cases h3 : Bus.step s op with
            | error e => simp [h3] at h1
            | ok p =>
              obtain ⟨s3, ev3⟩ := p
              simp only [h3] at h1
              cases h1
              exact Bus.step_lookup_frame hI h3 n hn
          | send c d => simp only [Bus.stepL] at h1; cases h1; rfl
          | sendBus c => simp only [Bus.stepL] at h1; cases h1; rfl
          | ask c d =>
            simp only [Bus.stepL, Bus.getNameOwnerOf_post hI c d] at h1
            cases h1; rfl
        have ha1 := agree_ownersAfter (φ := φ) he hcover ha
        have := ih hI1 ha1 h2
        simp only [runEffects, h1, List.flatten_cons, ownersAfter_append]
        exact this

/-! ### C14's theorems on a table that agrees with C13's model -/

theorem owns_wellKnown (he : NameEnc enc) (r : BusRoute.State ρ) (j : ConnId) (n : Bus.Name) :
    BusRoute.Owns r j (enc n) ↔ dget (enc n) r.owners = some j := by
  unfold BusRoute.Owns
  rw [if_neg (he.wellKnown n)]

/-- C14's `Owns` for a well-known name is C13's specification owner. -/
theorem owns_iff_spec_owner (he : NameEnc enc) {s : Bus.State} (hI : Bus.Inv s) (r : BusRoute.State ρ)
    (ha : OwnersAgree enc φ s r.owners) (j : ConnId) (n : Bus.Name) :
    BusRoute.Owns r j (enc n) ↔ ((Bus.abs s).ownerOf (.wellKnown n)).map φ = some j := by
  rw [owns_wellKnown he, ha n, Bus.routerLookup_abs hI]

/-- C14's `resolve` (its model of `Bus.sendMessage`'s lookup) IS C13's `routerLookup` on such a table. -/
theorem resolve_is_routerLookup (he : NameEnc enc) {s : Bus.State} (r : BusRoute.State ρ)
    (ha : OwnersAgree enc φ s r.owners) (n : Bus.Name) :
    BusRoute.resolve r (enc n) = (Bus.routerLookup s (.wellKnown n)).map φ := by
  unfold BusRoute.resolve
  rw [if_neg (he.wellKnown n)]
  exact ha n

theorem ensureNamed_owners (r : BusRoute.State ρ) (i : ConnId) (c : BusRoute.Conn) :
    (BusRoute.ensureNamed r i c).1.owners = r.owners := by
  unfold BusRoute.ensureNamed
  split <;> rfl

/-- A message for another connection leaves C14's `owners` alone. -/
theorem unicast_step_owners {cfg : Cfg ρ} (hr : cfg.Repaired) (r : BusRoute.State ρ) (i : ConnId)
    (m : BusRoute.Msg) (op : BusRoute.BusOp ρ) (d : BusRoute.Name) (hm : BusRoute.Addressed m d)
    (hl : BusRoute.Live r i) :
    (BusRoute.step cfg r (.msg i m op)).1.owners = r.owners := by
  obtain ⟨c, hc, hconn⟩ := BusRoute.live_conn hl
  rw [BusRoute.step_msg_live cfg r i m op c hc hconn]
  rw [(BusRoute.stepNamed_unicast hr _ i _ _ c.calledHello m op d hm).1]
  exact ensureNamed_owners r i c

/-- **C14's `unicast_exact` for the bus whose names are managed by C13's model.**  After any history
`h` of C14's model, if its `owners` table agrees with a reachable state `s` of C13's model (kept by
`agree_step`), a message for the well-known name `enc n`, sent by a live connection, is delivered
exactly once, to the connection that C13's SPECIFICATION names as the owner of `n` in `abs s` - and
that connection is connected according to C13 - or to nobody when the specification has no owner. -/
theorem unicast_reaches_names_owner {cfg : Cfg ρ} (hr : cfg.Repaired) (h : List (BusRoute.Event ρ))
    (he : NameEnc enc) {s : Bus.State} (hs : Bus.Reachable s)
    (ha : OwnersAgree enc φ s (BusRoute.final cfg BusRoute.State.init h).owners)
    (i : ConnId) (m : BusRoute.Msg) (op : BusRoute.BusOp ρ) (n : Bus.Name)
    (hm : BusRoute.Addressed m (enc n)) (hl : BusRoute.Live (BusRoute.final cfg BusRoute.State.init h) i) :
    ∃ nm, BusRoute.nameOf (BusRoute.step cfg (BusRoute.final cfg BusRoute.State.init h) (.msg i m op)).1 i = some nm ∧
      (BusRoute.step cfg (BusRoute.final cfg BusRoute.State.init h) (.msg i m op)).2.deliveries =
        (match (Bus.abs s).ownerOf (.wellKnown n) with
         | some k => [⟨φ k, .fwd i (BusRoute.remarshal m nm)⟩]
         | none => []) ∧
      (∀ k, (Bus.abs s).ownerOf (.wellKnown n) = some k → s.connected k = true) := by
  have hI := Bus.inv_of_reachable hs
  have inv := BusRoute.final_inv hr (BusRoute.Inv.init (ρ := ρ)) h
  obtain ⟨nm, hnm, hown, hnone⟩ := BusRoute.unicast_exact_from hr inv i m op (enc n) hm hl
  have hsame := unicast_step_owners hr _ i m op (enc n) hm hl
  have ha' : OwnersAgree enc φ s
      (BusRoute.step cfg (BusRoute.final cfg BusRoute.State.init h) (.msg i m op)).1.owners := by
    rw [hsame]; exact ha
  refine ⟨nm, hnm, ?_, ?_⟩
  · cases hk : (Bus.abs s).ownerOf (.wellKnown n) with
    | some k =>
      apply hown (φ k)
      rw [owns_iff_spec_owner he hI _ ha', hk]; rfl
    | none =>
      apply hnone
      intro j hj
      rw [owns_iff_spec_owner he hI _ ha', hk] at hj
      cases hj
  · intro k hk
    rw [← Bus.routerLookup_abs hI] at hk
    exact Bus.routerLookup_alive hI hk

/-- C14's `owner_unique` needs no hypothesis about the table; what C13 adds is that the owner of a
well-known name is ALIVE in C14's model as soon as C13's connected connections are (C14's invariant does
not constrain `owners`). -/
theorem names_owner_live (he : NameEnc enc) {s : Bus.State} (hs : Bus.Reachable s) (r : BusRoute.State ρ)
    (ha : OwnersAgree enc φ s r.owners)
    (hlive : ∀ k, s.connected k = true → BusRoute.Live r (φ k))
    (j : ConnId) (n : Bus.Name) (hj : BusRoute.Owns r j (enc n)) : BusRoute.Live r j := by
  have hI := Bus.inv_of_reachable hs
  rw [owns_wellKnown he, ha n] at hj
  cases hk : Bus.routerLookup s (.wellKnown n) with
  | none => rw [hk] at hj; cases hj
  | some k =>
    rw [hk] at hj
    simp only [Option.map_some, Option.some.injEq] at hj
    subst hj
    exact hlive k (Bus.routerLookup_alive hI hk)

end

/-! ### a concrete instance (used by the `example` in Properties/C13.lean) -/

def exEnc (n : Bus.Name) : BusRoute.Name := List.replicate (n + 1) 'a'

theorem exEnc_ok : NameEnc exEnc := by
  constructor
  · intro a b h
    have := congrArg List.length h
    simp [exEnc] at this
    exact this
  · intro a
    simp [exEnc, List.replicate_succ]

def exHist : List Bus.HStep :=
  [.op .connect, .op .connect, .op (.request 1 0 0), .op (.request 2 0 0), .send 2 (.wellKnown 0),
   .op (.disconnect 1)]

/-- The state of C14's model in which the effects of the example are applied: two connections, the
first already marked lost (`stepDisconnect` applies the effects after that). -/
def exBase : BusRoute.State ρ :=
  { conns := [{ BusRoute.Conn.fresh with isConnected := false }, BusRoute.Conn.fresh] }

end Txdbus.NamesRoute
