import TxdbusModel.Proofs.Bus.Request
/-!
The exact effect of `releaseCore`, `releaseName`, `releaseAll`, `disconnect`, `connect` and the
two queries on the views.
-/
namespace Txdbus.Bus

open Txdbus.Gen.C13Codes

/-- The NameAcquired sent to the next in line when `c` was the owner. -/
def handoverEvents (q : List Conn) (c : Conn) (n : Name) : List Event :=
  match q with
  | o :: next :: _ => if o = c then [.nameAcquired next n] else []
  | _ => []

def relEvents (q : List Conn) (c : Conn) (n : Name) (isConnected : Bool) : List Event :=
  match q with
  | [] => []
  | o :: _ => if o = c then (if isConnected then [.nameLost c n] else []) ++ handoverEvents q c n else []

def relCode (q : List Conn) (c : Conn) : Nat :=
  match q with
  | [] => nameNonExistent
  | _ :: _ => if c ∈ q then nameReleased else nameNotOwner

structure RelPost (s : State) (c : Conn) (n : Name) (ic : Bool) (s' : State) (evs : List Event)
    (code : Nat) : Prop where
  evs_eq : evs = relEvents (s.queue n) c n ic
  code_eq : code = relCode (s.queue n) c
  queue_eq : ∀ m, s'.queue m = if m = n then (s.queue n).erase c else s.queue m
  clients_eq : s'.clients = s.clients
  next_eq : s'.nextId = s.nextId
  noEmpty : ∀ m, Dict.get? s'.busNames m ≠ some []

theorem releaseCore_post {s : State} (hI : Inv s) {c : Conn} (hc : s.connected c = true)
    (n : Name) (ic : Bool) :
    ∃ s' evs code, releaseCore s c n ic = .ok (s', evs, code) ∧ RelPost s c n ic s' evs code := by
  obtain ⟨t, ht⟩ := connected_get hc
  unfold releaseCore
  simp only [ht]
  cases hq : Dict.get? s.busNames n with
  | none =>
    have hq0 := queue_of_get_none hq
    refine ⟨_, _, _, rfl, ?_⟩
    constructor
    · rw [hq0]; rfl
    · rw [hq0]; rfl
    · intro m
      by_cases hm : m = n
      · subst hm; simp [hq0]
      · simp [hm]
    · rfl
    · rfl
    · exact hI.noEmpty
  | some q =>
    have hq0 := queue_of_get_some hq
    cases q with
    | nil => exact absurd hq (hI.noEmpty n)
    | cons o rest =>
      simp only []
      by_cases hco : c = o
      · subst hco
        simp only [ne_eq, not_true_eq_false, if_false]
        have hnd : (c :: rest).Nodup := hq0 ▸ hI.nodup n
        cases rest with
        | nil =>
          refine ⟨_, _, _, rfl, ?_⟩
          constructor
          · rw [hq0]; simp [relEvents, handoverEvents]
          · rw [hq0]; simp [relCode]
          · intro m
            show queueOf (Dict.erase s.busNames n) m = _
            rw [queueOf_erase]
            by_cases hm : m = n
            · subst hm; simp [hq0]
            · simp only [hm, if_false]; rfl
          · rfl
          · rfl
          · exact noEmpty_erase hI.noEmpty
        | cons nx rest2 =>
          refine ⟨_, _, _, rfl, ?_⟩
          constructor
          · rw [hq0]; simp [relEvents, handoverEvents]
          · rw [hq0]; simp [relCode]
          · intro m
            show queueOf (Dict.set s.busNames n (nx :: rest2)) m = _
            rw [queueOf_set]
            by_cases hm : m = n
            · subst hm; simp [hq0]
            · simp only [hm, if_false]; rfl
          · rfl
          · rfl
          · exact noEmpty_set hI.noEmpty (by simp)
      · have hoc : ¬ o = c := fun e => hco e.symm
        have hbeq : ¬ (o == c) = true := by simpa using hoc
        simp only [ne_eq, hco, not_false_eq_true, if_true]
        by_cases hmem : c ∈ o :: rest
        · simp only [hmem, if_true]
          refine ⟨_, _, _, rfl, ?_⟩
          constructor
          · rw [hq0]; simp [relEvents, hoc]
          · rw [hq0]; simp only [relCode, hmem, if_true]
          · intro m
            show queueOf (Dict.set s.busNames n _) m = _
            rw [queueOf_set]
            by_cases hm : m = n
            · subst hm; simp only [if_true, hq0]
            · simp only [hm, if_false]; rfl
          · rfl
          · rfl
          · refine noEmpty_set hI.noEmpty ?_
            rw [List.erase_cons_tail hbeq]; simp
        · simp only [hmem, if_false]
          refine ⟨_, _, _, rfl, ?_⟩
          constructor
          · rw [hq0]; simp [relEvents, hoc]
          · rw [hq0]; simp only [relCode, hmem, if_false]
          · intro m
            by_cases hm : m = n
            · subst hm; simp only [if_true, hq0, List.erase_of_not_mem hmem]
            · simp only [hm, if_false]
          · rfl
          · rfl
          · exact hI.noEmpty

end Txdbus.Bus
