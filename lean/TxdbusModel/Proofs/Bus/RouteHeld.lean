import TxdbusModel.Proofs.Bus.RouteHistory
/-
C14 - the router's rule table is exactly "the rules of the AddMatch calls processed so far, minus
those of connections that have disconnected" (`heldAfter`), for every history.  This is where the
repair of F22 is needed: without it the rules of a disconnected client stay in the table.
-/
namespace Txdbus.BusRoute

section
variable {ρ : Type}

/-- The bus's tables against the history-level bookkeeping. -/
def Sim (s : State ρ) (sp : Holders ρ) : Prop :=
  sp.alive = s.conns.map (·.isConnected) ∧ sp.held = heldBy s

theorem alive_lookup (s : State ρ) (i : ConnId) :
    (s.conns.map (·.isConnected))[i]? = some true ↔ ∃ c, s.conns[i]? = some c ∧ c.isConnected = true := by
  rw [List.getElem?_map]
  cases s.conns[i]? <;> simp

theorem map_connected_eq (s s' : State ρ) (hl : s'.conns.length = s.conns.length)
    (hc : ∀ j, connected s' j = connected s j) :
    s'.conns.map (·.isConnected) = s.conns.map (·.isConnected) := by
  apply List.ext_getElem?
  intro j
  rw [List.getElem?_map, List.getElem?_map]
  have := hc j
  unfold connected at this
  by_cases hj : j < s.conns.length
  · have hj' : j < s'.conns.length := by rw [hl]; exact hj
    rw [List.getElem?_eq_getElem hj, List.getElem?_eq_getElem hj'] at this ⊢
    simpa using this
  · have h1 : s.conns[j]? = none := by rw [List.getElem?_eq_none_iff]; exact Nat.le_of_not_lt hj
    have h2 : s'.conns[j]? = none := by rw [List.getElem?_eq_none_iff, hl]; exact Nat.le_of_not_lt hj
    rw [h1, h2]

theorem ensureNamed_ruleId (s : State ρ) (i : ConnId) (c : Conn) : (ensureNamed s i c).1.ruleId = s.ruleId := by
  unfold ensureNamed
  cases c.uniqueName <;> rfl

theorem addMatch_rules (cfg : Cfg ρ) (s : State ρ) (i : ConnId) (r : ρ) :
    (addMatch cfg s i r).rules = s.rules ++ [⟨s.ruleId, i, r⟩] := by
  unfold addMatch
  by_cases h : cfg.recordRuleId = true
  · simp only [h, if_true]
    rw [(modifyConn_other _ i _).2.2.1]
  · simp [h]

/-- The rule table after the part of `rawDBusMessageReceived` that follows naming. -/
theorem stepNamed_rules (cfg : Cfg ρ) (s1 : State ρ) (i : ConnId) (nm : Name)
    (named : Option (ConnId × Name)) (called : Bool) (m : Msg) (op : BusOp ρ) :
    (stepNamed cfg s1 i nm named called m op).1.rules =
      if m.mtype = .call ∧ m.dest = some busName ∧ ¬ (called = false ∧ m.member = some helloMember) then
        (match op with
         | .addMatch r => s1.rules ++ [⟨s1.ruleId, i, r⟩]
         | _ => s1.rules)
      else s1.rules := by
  by_cases hhello : called = false ∧ m.mtype = .call ∧ m.dest = some busName ∧ m.member = some helloMember
  · obtain ⟨h1, h2, h3, h4⟩ := hhello
    have : ¬ (m.mtype = .call ∧ m.dest = some busName ∧ ¬ (called = false ∧ m.member = some helloMember)) := by
      intro ⟨_, _, h⟩; exact h ⟨h1, h4⟩
    rw [if_neg this]
    simp only [stepNamed, h1, h2, h3, h4, and_self, if_true]
    exact (modifyConn_other s1 i _).2.2.1
  · simp only [stepNamed, if_neg hhello, messageReceived]
    by_cases hcb : m.mtype = .call ∧ m.dest = some busName
    · have hcond : m.mtype = .call ∧ m.dest = some busName ∧ ¬ (called = false ∧ m.member = some helloMember) :=
        ⟨hcb.1, hcb.2, fun h => hhello ⟨h.1, hcb.1, hcb.2, h.2⟩⟩
      rw [if_pos hcond, if_pos hcb]
      cases op with
      | always => rfl
      | addMatch r => simp only [busCall]; exact addMatch_rules cfg s1 i r
      | exec effs => simp only [busCall]; exact (applyEffects_frame cfg s1 effs).2.2.1
    · have hcond : ¬ (m.mtype = .call ∧ m.dest = some busName ∧ ¬ (called = false ∧ m.member = some helloMember)) :=
        fun h => hcb ⟨h.1, h.2.1⟩
      rw [if_neg hcond, if_neg hcb]

theorem helloMember_ne_addMatch : (some addMatchMember : Option Name) ≠ some helloMember := by decide

theorem heldBy_append (s : State ρ) (rules : List (RuleEntry ρ)) (e : RuleEntry ρ) (s' : State ρ)
    (h : s'.rules = rules ++ [e]) (h0 : s.rules = rules) : heldBy s' = heldBy s ++ [(e.conn, e.pred)] := by
  simp [heldBy, h, h0]

theorem Sim.step {cfg : Cfg ρ} (hr : cfg.Repaired) {s : State ρ} {sp : Holders ρ} (inv : Inv s)
    (sim : Sim s sp) (e : Event ρ) (wf : e.wf) : Sim (step cfg s e).1 (sp.step e) := by
  obtain ⟨ha, hh⟩ := sim
  cases e with
  | connect =>
    refine ⟨?_, ?_⟩
    · simp [Txdbus.BusRoute.step, Holders.step, ha, Conn.fresh]
    · simp [Txdbus.BusRoute.step, Holders.step, hh, heldBy]
  | disconnect i effs =>
    cases hc : s.conns[i]? with
    | none =>
      have hna : ¬ sp.alive[i]? = some true := by
        rw [ha, alive_lookup]; rintro ⟨c, h, _⟩; rw [hc] at h; exact absurd h (by simp)
      simp only [Txdbus.BusRoute.step, stepDisconnect, hc, Holders.step, if_neg hna]
      exact ⟨ha, hh⟩
    | some c =>
      by_cases hconn : c.isConnected = false
      · have hna : ¬ sp.alive[i]? = some true := by
          rw [ha, alive_lookup]; rintro ⟨c', h, h'⟩
          rw [hc] at h; cases h; rw [hconn] at h'; exact absurd h' (by simp)
        simp only [Txdbus.BusRoute.step, stepDisconnect, hc, hconn, if_true, Holders.step, if_neg hna]
        exact ⟨ha, hh⟩
      · have hconn' : c.isConnected = true := by simpa using hconn
        have hal : sp.alive[i]? = some true := by
          rw [ha, alive_lookup]; exact ⟨c, hc, hconn'⟩
        obtain ⟨h1, _, h3, _, _, _, _⟩ := stepDisconnect_fields cfg s i effs c hc hconn'
          (disconnectOk_of_inv inv i c hc hconn')
        simp only [Txdbus.BusRoute.step, Holders.step, if_pos hal]
        refine ⟨?_, ?_⟩
        · show sp.alive.set i false = (stepDisconnect cfg s i effs).1.conns.map (·.isConnected)
          rw [h1, ha, List.map_set]
        · show sp.held.filter (fun e => decide (e.1 ≠ i)) = heldBy (stepDisconnect cfg s i effs).1
          unfold heldBy
          rw [h3, hh]
          unfold heldBy
          rw [List.filter_map]
          congr 1
          apply List.filter_congr
          intro r hr'
          obtain ⟨_, _, hmem⟩ := inv.rules_ok r hr'
          have hri : rulesOf s i = c.matchRules := rulesOf_of_getElem s i c hc
          by_cases hj : r.conn = i
          · rw [hj, hri] at hmem
            simp [hj, hmem]
          · have : r.id ∉ c.matchRules := by
              intro h
              rw [← hri] at h
              exact hj (inv.ids_inj r.conn i r.id hmem h)
            simp [hj, this]
  | msg i m op =>
    cases hc : s.conns[i]? with
    | none =>
      have hna : ¬ sp.alive[i]? = some true := by
        rw [ha, alive_lookup]; rintro ⟨c, h, _⟩; rw [hc] at h; exact absurd h (by simp)
      have e1 : (Txdbus.BusRoute.step cfg s (.msg i m op)).1 = s := by simp [Txdbus.BusRoute.step, stepMsg, hc]
      have e2 : sp.step (.msg i m op) = sp := by
        cases op <;> simp [Holders.step, hna]
      rw [e1, e2]; exact ⟨ha, hh⟩
    | some c =>
      by_cases hconn : c.isConnected = false
      · have hna : ¬ sp.alive[i]? = some true := by
          rw [ha, alive_lookup]; rintro ⟨c', h, h'⟩
          rw [hc] at h; cases h; rw [hconn] at h'; exact absurd h' (by simp)
        have e1 : (Txdbus.BusRoute.step cfg s (.msg i m op)).1 = s := by
          simp [Txdbus.BusRoute.step, stepMsg, hc, hconn]
        have e2 : sp.step (.msg i m op) = sp := by
          cases op <;> simp [Holders.step, hna]
        rw [e1, e2]; exact ⟨ha, hh⟩
      · have hconn' : c.isConnected = true := by simpa using hconn
        have hal : sp.alive[i]? = some true := by
          rw [ha, alive_lookup]; exact ⟨c, hc, hconn'⟩
        have ns := ensureNamed_spec inv i c hc hconn'
        obtain ⟨c1, h1, h2, h3, _⟩ := ns.conn
        have e : (Txdbus.BusRoute.step cfg s (.msg i m op)) =
            stepNamed cfg (ensureNamed s i c).1 i (ensureNamed s i c).2.1 (ensureNamed s i c).2.2
              c.calledHello m op := by
          simp [Txdbus.BusRoute.step, stepMsg, hc, hconn]
        obtain ⟨keeps, _⟩ := stepNamed_keeps hr ns.inv i c1 _ (ensureNamed s i c).2.2 c.calledHello m op h1 h2 h3
        obtain ⟨_, _, _, k4, k5⟩ := keeps
        have hrules := stepNamed_rules cfg (ensureNamed s i c).1 i (ensureNamed s i c).2.1
          (ensureNamed s i c).2.2 c.calledHello m op
        rw [ns.rules, ensureNamed_ruleId] at hrules
        have halive : sp.alive = (Txdbus.BusRoute.step cfg s (.msg i m op)).1.conns.map (·.isConnected) := by
          rw [ha, e]
          symm
          apply map_connected_eq
          · rw [k5, ns.len]
          · intro j; rw [k4, ns.connected]
        cases op with
        | always =>
          refine ⟨halive, ?_⟩
          show sp.held = heldBy _
          rw [hh]; unfold heldBy; rw [e, hrules]; simp
        | exec effs =>
          refine ⟨halive, ?_⟩
          show sp.held = heldBy _
          rw [hh]; unfold heldBy; rw [e, hrules]; simp
        | addMatch r =>
          have hwf : m.member = some addMatchMember := wf
          have hnh : ¬ (c.calledHello = false ∧ m.member = some helloMember) := by
            rintro ⟨_, h⟩; rw [hwf] at h; exact helloMember_ne_addMatch h
          by_cases hcb : m.mtype = .call ∧ m.dest = some busName
          · have hcond : m.mtype = .call ∧ m.dest = some busName ∧
                ¬ (c.calledHello = false ∧ m.member = some helloMember) := ⟨hcb.1, hcb.2, hnh⟩
            rw [if_pos hcond] at hrules
            have hsp : sp.step (.msg i m (.addMatch r)) = { sp with held := sp.held ++ [(i, r)] } := by
              simp [Holders.step, hal, hcb.1, hcb.2]
            rw [hsp]
            refine ⟨halive, ?_⟩
            show sp.held ++ [(i, r)] = heldBy _
            rw [hh]; unfold heldBy; rw [e, hrules]; simp
          · have hcond : ¬ (m.mtype = .call ∧ m.dest = some busName ∧
                ¬ (c.calledHello = false ∧ m.member = some helloMember)) := fun h => hcb ⟨h.1, h.2.1⟩
            rw [if_neg hcond] at hrules
            have hsp : sp.step (.msg i m (.addMatch r)) = sp := by
              have : ¬ (sp.alive[i]? = some true ∧ m.mtype = .call ∧ m.dest = some busName) :=
                fun h => hcb ⟨h.2.1, h.2.2⟩
              simp only [Holders.step, if_neg this]
            rw [hsp]
            refine ⟨halive, ?_⟩
            rw [hh]; unfold heldBy; rw [e, hrules]

theorem Sim.run {cfg : Cfg ρ} (hr : cfg.Repaired) {s : State ρ} {sp : Holders ρ} (inv : Inv s)
    (sim : Sim s sp) (h : List (Event ρ)) (wf : ∀ e ∈ h, e.wf) : Sim (final cfg s h) (Holders.run sp h) := by
  induction h generalizing s sp with
  | nil => exact sim
  | cons e es ih =>
    simp only [final, Holders.run]
    exact ih (step_inv hr inv e) (sim.step hr inv e (wf e (by simp))) (fun e' he' => wf e' (by simp [he']))

theorem Sim.init : Sim (State.init : State ρ) {} := by
  simp [Sim, State.init, heldBy]

end
end Txdbus.BusRoute
