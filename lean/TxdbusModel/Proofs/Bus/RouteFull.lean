import TxdbusModel.Bus.RouteFullSpec
import TxdbusModel.Proofs.Route.Match
import TxdbusModel.Proofs.Route.Text
import TxdbusModel.Proofs.Bus.RouteMain
/-
C14 x C12 (extension 2026-09-30) - lemmas: the bus's rule predicate against the specification
(`holds_iff_spec`, on top of C12's `explicit_match_iff`), the `arg0namespace` clause, where the held rules
come from, broadcasts step by step.
-/
namespace Txdbus.BusRoute

open Txdbus.Route (Str Arg Attr RuleArgs Rule Tables Outcome PyVal mkRule explicitRule optStr optPairs optE)

/-! ### the rule predicate of the bus is the specification -/

theorem holdsWith_cur (b : Bool) (a : FullRule) (m : Msg) :
    FullRule.holdsWith Tables.cur b a m = ((explicitRule a).matchWith b (ruleView m) == .call) := by
  unfold FullRule.holdsWith
  rw [Txdbus.Route.mkRule_cur]

/-- The bus's rule predicate on the current tables against C12's relation for the same router
(C12's `explicit_matchWith_iff`, the lemma behind `match_eq_spec_with`). -/
theorem holds_iff_specWith_cur (b : Bool) (a : FullRule) (m : Msg) (hwf : RuleArgs.WFAll a) :
    FullRule.holdsWith Tables.cur b a m = true ↔ Txdbus.Route.Spec.specMatchesWith b a (ruleView m) = true := by
  rw [holdsWith_cur, beq_iff_eq]
  exact Txdbus.Route.explicit_matchWith_iff b a (ruleView m) hwf

/-- The rules for which txdbus's router can meet the property's relation: no constraint value is the empty string
(C12's `WFAll`: the router drops such a constraint while the specification would have it match nothing); NO
`sender` constraint (never evaluated: known finding); no `arg0namespace` constraint unless the router evaluates
it (`b`). -/
def FullRule.InSpec (b : Bool) (a : FullRule) : Prop :=
  RuleArgs.WFAll a ∧ a.sender = none ∧ (b = true ∨ a.arg0ns = none)

theorem specMatchesWith_inSpec (b : Bool) (a : FullRule) (v : Txdbus.Route.Msg) (h : b = true ∨ a.arg0ns = none) :
    Txdbus.Route.Spec.specMatchesWith b a v = Txdbus.Route.Spec.specMatchesFull a v := by
  unfold Txdbus.Route.Spec.specMatchesWith
  cases b with
  | true => rfl
  | false =>
    rcases h with h | h
    · cases h
    · simp [Txdbus.Route.Spec.specMatchesFull, h, Txdbus.Route.Spec.optAll]

/-- For a rule inside `InSpec`, the bus's rule predicate is the property's relation. -/
theorem holds_iff_spec_cur (b : Bool) (ownerName : Str → Option Str) (a : FullRule) (m : Msg)
    (h : FullRule.InSpec b a) :
    FullRule.holdsWith Tables.cur b a m = true ↔ busSpecMatches ownerName a (ruleView m) = true := by
  rw [holds_iff_specWith_cur b a m h.1, specMatchesWith_inSpec b a _ h.2.2]
  unfold busSpecMatches
  rw [h.2.1]
  simp [Txdbus.Route.Spec.optAll]

/-- The AddMatch event carries the text a txdbus client writes for some constraints `a` inside `InSpec`
(`Route.renderRule`: C12's model of `DBusClientConnection.addMatch`), and registers what the bus's parser
(`addMatchOp`) makes of that text. -/
def Event.fromClientText (b : Bool) : Event FullRule → Prop
  | .msg _ m (.addMatch r) =>
      ∃ a, FullRule.InSpec b a ∧ ruleTextOf m = some (Txdbus.Route.renderRule a)
        ∧ addMatchOp (Txdbus.Route.renderRule a) = some (.addMatch r)
  | _ => True

theorem FullRule.InSpec.normalize {b : Bool} {a : FullRule} (h : FullRule.InSpec b a) :
    FullRule.InSpec b a.normalize :=
  ⟨⟨⟨h.1.base.mtype, h.1.base.iface, h.1.base.member, h.1.base.path, h.1.base.dest, h.1.base.pathNs⟩, h.1.arg0ns⟩,
   h.2.1, h.2.2⟩

/-! ### the simple rules of the first version are the full rules without the new keys -/

theorem mtypeName_num (t v : MType) :
    (Txdbus.Route.Spec.mtypeName t.num == some v.ruleName) = decide (t = v) := by
  cases t <;> cases v <;> decide

/-- No constraint value of the simple rule is the empty string (the router would drop it). -/
def SimpleRule.NonEmpty (r : SimpleRule) : Prop :=
  r.iface ≠ some [] ∧ r.member ≠ some [] ∧ r.path ≠ some [] ∧ r.destination ≠ some []

theorem SimpleRule.toFull_wf (r : SimpleRule) (h : r.NonEmpty) : RuleArgs.WFAll r.toFull := by
  obtain ⟨h1, h2, h3, h4⟩ := h
  refine ⟨⟨?_, h1, h2, h3, h4, by simp [SimpleRule.toFull]⟩, by simp [SimpleRule.toFull]⟩
  show Option.map MType.ruleName r.mtype ≠ some []
  cases r.mtype with
  | none => simp
  | some t => cases t <;> decide

theorem optAttr_beq (o : Option Name) (v : Name) : (optAttr o == Attr.some v) = decide (o = some v) := by
  cases o with
  | none => simp [optAttr]
  | some w =>
    simp only [optAttr]
    by_cases h : w = v
    · subst h; simp
    · have : ¬ (Attr.some w = Attr.some v) := fun e => h (by injection e)
      simp [h, this]

theorem memberAttr_beq (o : Option Name) (v : Name) : (memberAttr o == Attr.some v) = decide (o = some v) := by
  cases o with
  | none => simp [memberAttr]
  | some w =>
    simp only [memberAttr]
    by_cases h : w = v
    · subst h; simp
    · have : ¬ (Attr.some w = Attr.some v) := fun e => h (by injection e)
      simp [h, this]

/-- C12's specification on an embedded simple rule is the equality test of the first model. -/
theorem specMatches_toFull (r : SimpleRule) (m : Msg) :
    Txdbus.Route.Spec.specMatches r.toFull (ruleView m) = r.holds m := by
  unfold Txdbus.Route.Spec.specMatches SimpleRule.holds SimpleRule.toFull ruleView
  simp only [Txdbus.Route.Spec.optAll, Option.getD_none, List.all_nil, Bool.and_true]
  cases r.mtype <;> cases r.iface <;> cases r.member <;> cases r.path <;> cases r.destination <;>
    simp [mtypeName_num, optAttr_beq, memberAttr_beq]

/-! ### where held rules come from -/

section
variable {ρ : Type}

theorem holders_run_mem (h : List (Event ρ)) (sp : Holders ρ) (j : ConnId) (r : ρ)
    (hm : (j, r) ∈ (Holders.run sp h).held) :
    (j, r) ∈ sp.held ∨ ∃ m, Event.msg j m (.addMatch r) ∈ h := by
  induction h generalizing sp with
  | nil => exact Or.inl hm
  | cons e es ih =>
    rcases ih (sp.step e) hm with h1 | ⟨m, h2⟩
    · cases e with
      | connect => exact Or.inl h1
      | disconnect i effs =>
        simp only [Holders.step] at h1
        split at h1
        · exact Or.inl (List.mem_filter.mp h1).1
        · exact Or.inl h1
      | msg i m op =>
        cases op with
        | always => exact Or.inl h1
        | exec effs => exact Or.inl h1
        | addMatch r' =>
          simp only [Holders.step] at h1
          split at h1
          · rcases List.mem_append.mp h1 with h3 | h3
            · exact Or.inl h3
            · simp only [List.mem_singleton, Prod.mk.injEq] at h3
              obtain ⟨rfl, rfl⟩ := h3
              exact Or.inr ⟨m, List.mem_cons_self⟩
          · exact Or.inl h1
    · exact Or.inr ⟨m, List.mem_cons_of_mem _ h2⟩

/-- Every rule held after a history was registered by an AddMatch event of that history. -/
theorem heldAfter_mem (h : List (Event ρ)) (j : ConnId) (r : ρ) (hm : (j, r) ∈ heldAfter h) :
    ∃ m, Event.msg j m (.addMatch r) ∈ h := by
  rcases holders_run_mem h {} j r hm with h1 | h2
  · simp at h1
  · exact h2

/-! ### the bus's own signals: what an effect list delivers -/

theorem applyEffect_deliv_congr (cfg : Cfg ρ) (s s' : State ρ) (e : Effect) (hr : s'.rules = s.rules)
    (hc : s'.conns = s.conns) : (applyEffect cfg s' e).2 = (applyEffect cfg s e).2 := by
  cases e with
  | setOwner n j => rfl
  | unsetOwner n => rfl
  | signalTo j member body args => simp [applyEffect, hc]
  | broadcast member body args => simp [applyEffect, route, hr]

/-- Effects change `owners` only, so every effect of a list delivers what it would deliver in the first state. -/
theorem applyEffects_deliveries (cfg : Cfg ρ) (s : State ρ) (es : List Effect) :
    (applyEffects cfg s es).2 = es.flatMap (fun e => (applyEffect cfg s e).2) := by
  induction es generalizing s with
  | nil => rfl
  | cons e es ih =>
    simp only [applyEffects, List.flatMap_cons]
    rw [ih]
    obtain ⟨f1, _, f3, _, _⟩ := applyEffect_frame cfg s e
    congr 1
    have : (fun e' => (applyEffect cfg (applyEffect cfg s e).1 e').2) = (fun e' => (applyEffect cfg s e').2) := by
      funext e'
      exact applyEffect_deliv_congr cfg s _ e' f3 f1
    rw [this]

theorem filter_isSig_of_sig (l : List Delivery) (h : ∀ dl ∈ l, dl.isBusSignal) : l.filter Delivery.isSig = l := by
  rw [List.filter_eq_self]
  intro dl hdl
  obtain ⟨m, hm⟩ := h dl hdl
  simp [Delivery.isSig, hm]

theorem filter_isSig_busSend (s : State ρ) (d : Name) (p : Payload) (hp : ∀ m, p ≠ .busSignal m) :
    (busSend s d p).filter Delivery.isSig = [] := by
  unfold busSend
  cases resolve s d with
  | none => rfl
  | some j =>
    cases p with
    | busSignal m => exact absurd rfl (hp m)
    | fwd o m => rfl
    | helloReply a b => rfl
    | busReply a b => rfl

/-- A call to the bus that reaches a method (`exec effs`) and is not the Hello short-cut: the bus signals of the step
are what the effects deliver in the state after naming. -/
theorem stepNamed_exec_sigs {cfg : Cfg ρ} (hr : cfg.Repaired) (s1 : State ρ) (i : ConnId) (nm : Name)
    (named : Option (ConnId × Name)) (called : Bool) (m : Msg) (effs : List Effect)
    (hcall : m.mtype = .call) (hd : m.dest = some busName)
    (hnh : ¬ (called = false ∧ m.member = some helloMember)) :
    (stepNamed cfg s1 i nm named called m (.exec effs)).2.deliveries.filter Delivery.isSig
      = effs.flatMap (fun e => (applyEffect cfg s1 e).2) ∧
    (stepNamed cfg s1 i nm named called m (.exec effs)).1.conns = s1.conns := by
  have hne : ¬ (called = false ∧ m.mtype = .call ∧ m.dest = some busName ∧ m.member = some helloMember) :=
    fun h => hnh ⟨h.1, h.2.2.2⟩
  have hfr := applyEffects_frame cfg s1 effs
  have hsig := applyEffects_sig cfg s1 effs
  have hstep : stepNamed cfg s1 i nm named called m (.exec effs) =
      (let r1 := applyEffects cfg s1 effs
       (r1.1, { deliveries := (r1.2 ++ (if m.noReply then [] else reply r1.1 nm { m with sender := some nm }))
                  ++ dispatch cfg r1.1 i { m with sender := some nm } (remarshal m nm),
                named := named,
                lose := decide (called = false ∧ m.mtype = .call ∧ m.dest ≠ some busName) })) := by
    unfold stepNamed
    rw [if_neg hne]
    simp only [messageReceived, busCall, hcall, hd, and_self, if_true]
  rw [hstep]
  simp only
  rw [dispatch_bus hr _ i _ _ (show ({ m with sender := some nm } : Msg).dest = some busName from hd), List.append_nil]
  refine ⟨?_, hfr.1⟩
  rw [List.filter_append, filter_isSig_of_sig _ hsig, applyEffects_deliveries]
  split
  · simp
  · simp only [reply]
    rw [filter_isSig_busSend _ _ _ (by intro m' h; cases h)]
    simp

/-! ### broadcasts, step by step -/

/-- Whatever connection `j` receives in the step of event `e` as a destination-less forward from `i` is the
(wire form of the) message `i` sent in `e`, which had no destination. -/
theorem step_bcast {cfg : Cfg ρ} (hr : cfg.Repaired) {s : State ρ} (inv : Inv s) (e : Event ρ) (i j : ConnId) :
    ∀ x ∈ (step cfg s e).2.deliveries.filterMap (bcastOf i j),
      (bcastSent i e).map wireForm = some (eraseSender x) := by
  intro x hx
  obtain ⟨dl, hdl, hb⟩ := List.mem_filterMap.mp hx
  unfold bcastOf at hb
  split at hb
  · rename_i o m' hw
    split at hb
    · rename_i hcond
      obtain ⟨rfl, _, hd⟩ := hcond
      cases hb
      obtain ⟨m, op, n, he, _, hm⟩ := sender_is_true_from hr inv e dl hdl o x hw
      subst he
      have hd' : truthy m.dest = false := by rw [hm, remarshal_dest] at hd; exact hd
      simp [bcastSent, hd', hm, eraseSender_remarshal]
    · cases hb
  · cases hb

theorem exec_stepwise {cfg : Cfg ρ} (hr : cfg.Repaired) {s : State ρ} (inv : Inv s) (h : List (Event ρ))
    (P : Event ρ → Out → Prop) (hP : ∀ (s : State ρ), Inv s → ∀ e, P e (step cfg s e).2) :
    Stepwise P h (exec cfg s h) := by
  induction h generalizing s with
  | nil => exact trivial
  | cons e es ih => exact ⟨hP s inv e, ih (step_inv hr inv e)⟩

/-- Sublist form: the first copy per step. -/
theorem firstBcast_sublist (i j : ConnId) (h : List (Event ρ)) (outs : List Out)
    (hf : Stepwise (fun e o => ∀ x ∈ o.deliveries.filterMap (bcastOf i j),
      (bcastSent i e).map wireForm = some (eraseSender x)) h outs) :
    List.Sublist ((outs.filterMap (firstBcast i j)).map eraseSender) ((h.filterMap (bcastSent i)).map wireForm) := by
  induction h generalizing outs with
  | nil =>
    cases outs with
    | nil => simp
    | cons o os => exact absurd hf (by simp [Stepwise])
  | cons e es ih =>
    cases outs with
    | nil => exact absurd hf (by simp [Stepwise])
    | cons o os =>
      obtain ⟨hhead, htail⟩ := hf
      have ih' := ih os htail
      simp only [List.filterMap_cons]
      cases hfirst : firstBcast i j o with
      | none =>
        cases bcastSent i e with
        | none => exact ih'
        | some m => simp only [List.map_cons]; exact List.Sublist.cons _ ih'
      | some x =>
        have hx : x ∈ o.deliveries.filterMap (bcastOf i j) := by
          unfold firstBcast at hfirst
          exact List.mem_of_head? hfirst
        have := hhead x hx
        cases hs : bcastSent i e with
        | none => rw [hs] at this; simp at this
        | some m =>
          rw [hs] at this
          simp only [Option.map_some, Option.some.injEq] at this
          simp only [List.map_cons, this]
          exact List.Sublist.cons_cons _ ih'

end

end Txdbus.BusRoute
