import TxdbusModel.Bus.RouteFullSpec
import TxdbusModel.Proofs.Route.Match
import TxdbusModel.Proofs.Route.Text
import TxdbusModel.Proofs.Bus.RouteMain
/-
C14 x C12 (extension 2026-09-30) - lemmas: the bus's rule predicate against the specification
(`holds_iff_spec`, on top of C12's `explicit_match_iff`), the `arg0namespace` clause, where the held rules
come from, broadcasts step by step.
-/
namespace Txdbus.BusRoute

open Txdbus.Route (Str Arg Attr RuleArgs Rule Tables Outcome PyVal mkRule explicitRule optStr optPairs optE)

/-! ### the rule predicate of the bus is the specification -/

theorem holdsWith_cur (b : Bool) (a : FullRule) (m : Msg) :
    FullRule.holdsWith Tables.cur b a m = (fullMatch b (explicitRule a) (ruleView m) == .call) := by
  unfold FullRule.holdsWith
  rw [Txdbus.Route.mkRule_cur]

/-- `getattr(rule, 'arg0namespace')` of the rule stored for `a`. -/
theorem lookup_arg0ns (a : RuleArgs) :
    (explicitRule a).attrs.lookup "arg0namespace".toList
      = if (optStr a.arg0ns).truthy then some (optStr a.arg0ns) else none := by
  unfold explicitRule optE
  cases (optStr a.arg0ns).truthy <;> cases (optPairs a.argPaths).truthy <;> cases (optPairs a.args).truthy
    <;> cases (optStr a.pathNs).truthy <;> cases (optStr a.sender).truthy <;> rfl

theorem matchArg0ns_ne_call (r : Rule) (body : List Arg) : matchArg0ns r body ≠ some .call := by
  unfold matchArg0ns
  split
  · simp
  · split
    · split <;> simp
    · simp
  · simp

/-- The `arg0namespace` test of the repaired router is the clause of the DBus specification. -/
theorem matchArg0ns_iff (a : RuleArgs) (v : Txdbus.Route.Msg) (h : a.arg0ns ≠ some []) :
    matchArg0ns (explicitRule a) (v.body.getD []) = none
      ↔ Txdbus.Route.Spec.optAll a.arg0ns (arg0InNamespace v) = true := by
  unfold matchArg0ns
  rw [lookup_arg0ns]
  cases hn : a.arg0ns with
  | none => simp [optStr, PyVal.truthy, Txdbus.Route.Spec.optAll]
  | some ns =>
    have hne : ns ≠ [] := fun e => h (by rw [hn, e])
    have ht : (optStr (some ns)).truthy = true := by
      cases ns with
      | nil => exact absurd rfl hne
      | cons c t => rfl
    rw [ht]
    simp only [if_true, optStr, Txdbus.Route.Spec.optAll, arg0InNamespace, Txdbus.Route.Msg.arg?]
    cases hb : v.body.getD [] with
    | nil => simp
    | cons x t =>
      cases x with
      | other => simp
      | str s =>
        simp [inBusNamespace]
        by_cases hs : s = ns <;> simp [hs]

theorem fullMatch_call_iff (b : Bool) (r : Rule) (v : Txdbus.Route.Msg) :
    fullMatch b r v = .call ↔
      r.match v = .call ∧ (b = true → matchArg0ns r (v.body.getD []) = none) := by
  unfold fullMatch
  cases hm : r.match v with
  | skip => simp
  | err => simp
  | call =>
    cases b with
    | false => simp
    | true =>
      have := matchArg0ns_ne_call r (v.body.getD [])
      cases ha : matchArg0ns r (v.body.getD []) with
      | none => simp
      | some o =>
        rw [ha] at this
        simp only [if_true, true_and, forall_const]
        constructor
        · intro h; exact absurd (by rw [h]) this
        · intro h; cases h

/-- A rule the theorems speak about: no constraint value is the empty string (C12's `RuleArgs.WF`: the router
drops such a constraint while the specification would have it match nothing), and the same for `arg0namespace`
where the router evaluates it. -/
def FullRule.WF (b : Bool) (a : FullRule) : Prop :=
  RuleArgs.WF a ∧ (b = true → a.arg0ns ≠ some [])

/-- The bus's rule predicate on the current tables is the specification: C12's `explicit_match_iff`
(`Rule.match` = `specMatches`) plus the `arg0namespace` clause. -/
theorem holds_iff_spec_cur (b : Bool) (a : FullRule) (m : Msg) (hwf : FullRule.WF b a) :
    FullRule.holdsWith Tables.cur b a m = true ↔ busSpecMatches b a (ruleView m) = true := by
  rw [holdsWith_cur, beq_iff_eq, fullMatch_call_iff, Txdbus.Route.explicit_match_iff a (ruleView m) hwf.1]
  unfold busSpecMatches
  cases b with
  | false => simp
  | true =>
    rw [matchArg0ns_iff a (ruleView m) (hwf.2 rfl)]
    simp

/-- Every AddMatch event of a history registers a well-formed rule. -/
def Event.ruleWF (b : Bool) : Event FullRule → Prop
  | .msg _ _ (.addMatch a) => FullRule.WF b a
  | _ => True

/-- The AddMatch event carries the text a txdbus client writes for some well-formed constraints `a`
(`Route.renderRule`: C12's model of `DBusClientConnection.addMatch`), and registers what the bus's parser
(`addMatchOp`) makes of that text. -/
def Event.fromClientText (b : Bool) : Event FullRule → Prop
  | .msg _ m (.addMatch r) =>
      ∃ a, FullRule.WF b a ∧ ruleTextOf m = some (Txdbus.Route.renderRule a)
        ∧ addMatchOp (Txdbus.Route.renderRule a) = some (.addMatch r)
  | _ => True

theorem FullRule.WF.normalize {b : Bool} {a : FullRule} (h : FullRule.WF b a) : FullRule.WF b a.normalize :=
  ⟨⟨h.1.mtype, h.1.iface, h.1.member, h.1.path, h.1.dest, h.1.pathNs⟩, h.2⟩

/-! ### the simple rules of the first version are the full rules without the new keys -/

theorem mtypeName_num (t v : MType) :
    (Txdbus.Route.Spec.mtypeName t.num == some v.ruleName) = decide (t = v) := by
  cases t <;> cases v <;> decide

/-- No constraint value of the simple rule is the empty string (the router would drop it). -/
def SimpleRule.NonEmpty (r : SimpleRule) : Prop :=
  r.iface ≠ some [] ∧ r.member ≠ some [] ∧ r.path ≠ some [] ∧ r.destination ≠ some []

theorem SimpleRule.toFull_wf (b : Bool) (r : SimpleRule) (h : r.NonEmpty) : FullRule.WF b r.toFull := by
  obtain ⟨h1, h2, h3, h4⟩ := h
  refine ⟨⟨?_, h1, h2, h3, h4, by simp [SimpleRule.toFull]⟩, fun _ => by simp [SimpleRule.toFull]⟩
  show Option.map MType.ruleName r.mtype ≠ some []
  cases r.mtype with
  | none => simp
  | some t => cases t <;> decide

theorem optAttr_beq (o : Option Name) (v : Name) : (optAttr o == Attr.some v) = decide (o = some v) := by
  cases o with
  | none => simp [optAttr]
  | some w =>
    simp only [optAttr]
    by_cases h : w = v
    · subst h; simp
    · have : ¬ (Attr.some w = Attr.some v) := fun e => h (by injection e)
      simp [h, this]

theorem memberAttr_beq (o : Option Name) (v : Name) : (memberAttr o == Attr.some v) = decide (o = some v) := by
  cases o with
  | none => simp [memberAttr]
  | some w =>
    simp only [memberAttr]
    by_cases h : w = v
    · subst h; simp
    · have : ¬ (Attr.some w = Attr.some v) := fun e => h (by injection e)
      simp [h, this]

/-- C12's specification on an embedded simple rule is the equality test of the first model. -/
theorem specMatches_toFull (r : SimpleRule) (m : Msg) :
    Txdbus.Route.Spec.specMatches r.toFull (ruleView m) = r.holds m := by
  unfold Txdbus.Route.Spec.specMatches SimpleRule.holds SimpleRule.toFull ruleView
  simp only [Txdbus.Route.Spec.optAll, Option.getD_none, List.all_nil, Bool.and_true]
  cases r.mtype <;> cases r.iface <;> cases r.member <;> cases r.path <;> cases r.destination <;>
    simp [mtypeName_num, optAttr_beq, memberAttr_beq]

/-! ### where held rules come from -/

section
variable {ρ : Type}

theorem holders_run_mem (h : List (Event ρ)) (sp : Holders ρ) (j : ConnId) (r : ρ)
    (hm : (j, r) ∈ (Holders.run sp h).held) :
    (j, r) ∈ sp.held ∨ ∃ m, Event.msg j m (.addMatch r) ∈ h := by
  induction h generalizing sp with
  | nil => exact Or.inl hm
  | cons e es ih =>
    rcases ih (sp.step e) hm with h1 | ⟨m, h2⟩
    · cases e with
      | connect => exact Or.inl h1
      | disconnect i effs =>
        simp only [Holders.step] at h1
        split at h1
        · exact Or.inl (List.mem_filter.mp h1).1
        · exact Or.inl h1
      | msg i m op =>
        cases op with
        | always => exact Or.inl h1
        | exec effs => exact Or.inl h1
        | addMatch r' =>
          simp only [Holders.step] at h1
          split at h1
          · rcases List.mem_append.mp h1 with h3 | h3
            · exact Or.inl h3
            · simp only [List.mem_singleton, Prod.mk.injEq] at h3
              obtain ⟨rfl, rfl⟩ := h3
              exact Or.inr ⟨m, List.mem_cons_self⟩
          · exact Or.inl h1
    · exact Or.inr ⟨m, List.mem_cons_of_mem _ h2⟩

/-- Every rule held after a history was registered by an AddMatch event of that history. -/
theorem heldAfter_mem (h : List (Event ρ)) (j : ConnId) (r : ρ) (hm : (j, r) ∈ heldAfter h) :
    ∃ m, Event.msg j m (.addMatch r) ∈ h := by
  rcases holders_run_mem h {} j r hm with h1 | h2
  · simp at h1
  · exact h2

/-! ### broadcasts, step by step -/

/-- Whatever connection `j` receives in the step of event `e` as a destination-less forward from `i` is the
(wire form of the) message `i` sent in `e`, which had no destination. -/
theorem step_bcast {cfg : Cfg ρ} (hr : cfg.Repaired) {s : State ρ} (inv : Inv s) (e : Event ρ) (i j : ConnId) :
    ∀ x ∈ (step cfg s e).2.deliveries.filterMap (bcastOf i j),
      (bcastSent i e).map wireForm = some (eraseSender x) := by
  intro x hx
  obtain ⟨dl, hdl, hb⟩ := List.mem_filterMap.mp hx
  unfold bcastOf at hb
  split at hb
  · rename_i o m' hw
    split at hb
    · rename_i hcond
      obtain ⟨rfl, _, hd⟩ := hcond
      cases hb
      obtain ⟨m, op, n, he, _, hm⟩ := sender_is_true_from hr inv e dl hdl o x hw
      subst he
      have hd' : truthy m.dest = false := by rw [hm, remarshal_dest] at hd; exact hd
      simp [bcastSent, hd', hm, eraseSender_remarshal]
    · cases hb
  · cases hb

theorem exec_stepwise {cfg : Cfg ρ} (hr : cfg.Repaired) {s : State ρ} (inv : Inv s) (h : List (Event ρ))
    (P : Event ρ → Out → Prop) (hP : ∀ (s : State ρ), Inv s → ∀ e, P e (step cfg s e).2) :
    Stepwise P h (exec cfg s h) := by
  induction h generalizing s with
  | nil => exact trivial
  | cons e es ih => exact ⟨hP s inv e, ih (step_inv hr inv e)⟩

/-- Sublist form: the first copy per step. -/
theorem firstBcast_sublist (i j : ConnId) (h : List (Event ρ)) (outs : List Out)
    (hf : Stepwise (fun e o => ∀ x ∈ o.deliveries.filterMap (bcastOf i j),
      (bcastSent i e).map wireForm = some (eraseSender x)) h outs) :
    List.Sublist ((outs.filterMap (firstBcast i j)).map eraseSender) ((h.filterMap (bcastSent i)).map wireForm) := by
  induction h generalizing outs with
  | nil =>
    cases outs with
    | nil => simp
    | cons o os => exact absurd hf (by simp [Stepwise])
  | cons e es ih =>
    cases outs with
    | nil => exact absurd hf (by simp [Stepwise])
    | cons o os =>
      obtain ⟨hhead, htail⟩ := hf
      have ih' := ih os htail
      simp only [List.filterMap_cons]
      cases hfirst : firstBcast i j o with
      | none =>
        cases bcastSent i e with
        | none => exact ih'
        | some m => simp only [List.map_cons]; exact List.Sublist.cons _ ih'
      | some x =>
        have hx : x ∈ o.deliveries.filterMap (bcastOf i j) := by
          unfold firstBcast at hfirst
          exact List.mem_of_head? hfirst
        have := hhead x hx
        cases hs : bcastSent i e with
        | none => rw [hs] at this; simp at this
        | some m =>
          rw [hs] at this
          simp only [Option.map_some, Option.some.injEq] at this
          simp only [List.map_cons, this]
          exact List.Sublist.cons_cons _ ih'

end

end Txdbus.BusRoute
