/-
C17 - class FAMILIES: instances of SEVERAL classes of one inheritance chain alive together.

`Obj/Props.lean` models one chain with instances of the most derived class, all class caches built.  Here the
class-level state of txdbus/objects.py is explicit and shared by the whole history, the way the code keeps it:

  * `DBusObject._iterIFaceCaches`: every class of the chain has ONE `_dbusIfaceCache`, built the first time ANY
    instance whose MRO contains the class walks it, by `_cacheInterfaces` called on THAT instance - the
    `DBusProperty` objects of the class (shared by every subclass) are bound with `self.getInterfaces()` of
    the walker                                                     -> `ClassCaches`, `walkLevels`, `walkFrom`
  * an instance of class `k` of the chain (0 = most derived) sees the interfaces of `D.drop k` and the caches of
    the classes of its own MRO, whoever built them                  -> `ifacesAt`, `worldOf`
  * every operation of `Props.step` is run in the world of the instance's own class   -> `fstep`

Nothing else is kept on a class by the code as it stands; the theorem `family_object_independent`
(Properties/C17.lean) says that, for declarations every class can bind by itself (`stable`), what an object
answers is what the one-class model answers for the chain of ITS class on the operations applied to IT - whatever
was done before to objects of other classes of the family, in whatever order they were created.  Without
`stable` the order matters (`unstable_family_order_matters`: the known finding
sibling-classes-share-descriptor).  Instances are created warmed up (the walk `exportObject` does), as in the
harness.  Core Lean only.
-/
import TxdbusModel.Obj.Props

namespace Txdbus.Obj.Props

/-- Per class of the chain (most derived first): `none` while the class has no `_dbusIfaceCache`, else the
bound `DBusProperty` objects of its class dict, in class-dict order. -/
abbrev ClassCaches := List (Option (List Bound))

/-- `getInterfaces()` of an instance of class `k` of the chain. -/
def ifacesAt (D : Decls) (k : Nat) : List IfaceDef := getInterfaces (D.drop k)

/-- `_iterIFaceCaches` run to its end by an instance whose `getInterfaces()` is `ifs` and whose class is `k`
levels below the head of the list: classes above it are not in its MRO and stay as they are; a class of its MRO
that has a cache keeps it; one that has none is bound NOW, with `ifs` (`none`: `_cacheInterfaces` raised). -/
def walkLevels (ifs : List IfaceDef) : Nat → Decls → ClassCaches → Option ClassCaches
  | _, [], _ => some []
  | _, _ :: _, [] => none
  | k + 1, _ :: ds, e :: cc => (walkLevels ifs k ds cc).map (e :: ·)
  | 0, _ :: ds, some lv :: cc => (walkLevels ifs 0 ds cc).map (some lv :: ·)
  | 0, c :: ds, none :: cc =>
    (c.descs.mapM (bindDesc ifs)).bind fun lv => (walkLevels ifs 0 ds cc).map (some lv :: ·)

def walkFrom (D : Decls) (k : Nat) (cc : ClassCaches) : Option ClassCaches :=
  walkLevels (ifacesAt D k) k D cc

/-- What an instance of class `k` works with: its own interfaces and the caches of the classes of its MRO
(`none`: one of them does not exist yet - the instance never walked). -/
def worldOf (D : Decls) (k : Nat) (cc : ClassCaches) : Option World :=
  ((cc.drop k).mapM id).map fun lv => ⟨ifacesAt D k, lv, lv.map buildCache ++ [baseCache]⟩

structure FSt where
  /-- class-level state -/
  cc : ClassCaches
  /-- class (level in the chain) of every instance created so far -/
  cls : List (Nat × Nat)
  /-- instance-level state and the handler's exports -/
  st : St

def FSt.init (D : Decls) : FSt := ⟨D.map fun _ => none, [], St.init⟩

inductive FOp where
  /-- instance `o` of class `k` comes into being and walks its class caches -/
  | new (o k : Nat)
  | op (x : Op)

def Op.obj : Op → Nat
  | .export o => o
  | .assign o _ _ => o
  | .get o _ _ => o
  | .set o _ _ _ => o
  | .getAll o _ => o

def fstep (cfg : Cfg) (D : Decls) (s : FSt) : FOp → FSt × List Out
  | .new o k =>
    if (dget s.cls o).isSome ∨ D.length < k then (s, [.raised])
    else
      match walkFrom D k s.cc with
      | some cc' => ({ s with cc := cc', cls := dset s.cls o k }, [.done])
      | none => (s, [.raised])
  | .op x =>
    match dget s.cls x.obj with
    | none => (s, [.raised])
    | some k =>
      match worldOf D k s.cc with
      | none => (s, [.raised])
      | some W => ({ s with st := (step cfg W s.st x).1 }, (step cfg W s.st x).2)

/-- A family history with what every operation produced. -/
def ftrace (cfg : Cfg) (D : Decls) (s : FSt) : List FOp → List (FOp × List Out)
  | [] => []
  | op :: h => (op, (fstep cfg D s op).2) :: ftrace cfg D (fstep cfg D s op).1 h

/-! ### vocabulary of the statement -/

/-- Every class can bind its `DBusProperty` objects by itself, and every class derived from it binds them to
the same declaration: `bindDesc` with the interfaces `ifs` of a more derived walker agrees with `bindDesc` with
the class's own interfaces. -/
def stableFrom (ifs : List IfaceDef) : Decls → Bool
  | [] => true
  | c :: ds =>
    (c.descs.all fun d =>
      decide (bindDesc ifs d = bindDesc (getInterfaces (c :: ds)) d) && (bindDesc ifs d).isSome) &&
    stableFrom ifs ds

def stable : Decls → Bool
  | [] => true
  | c :: ds => stableFrom (getInterfaces (c :: ds)) (c :: ds) && stable ds

/-- Well-formed family history: an instance is created once, with a class of the chain (`D.length` = a plain
`DBusObject`), before it is used. -/
def wf (D : Decls) : List Nat → List FOp → Bool
  | _, [] => true
  | created, .new o k :: h => !created.contains o && decide (k ≤ D.length) && wf D (o :: created) h
  | created, .op x :: h => created.contains x.obj && wf D created h

/-- The class instance `o` is created with. -/
def classIn (o : Nat) : List FOp → Option Nat
  | [] => none
  | .new o' k :: h => if o' = o then some k else classIn o h
  | .op _ :: h => classIn o h

/-- The operations applied to instance `o`. -/
def projOps (o : Nat) : List FOp → List Op
  | [] => []
  | .new _ _ :: h => projOps o h
  | .op x :: h => if x.obj = o then x :: projOps o h else projOps o h

/-- What the operations applied to instance `o` produced. -/
def projOuts (o : Nat) : List (FOp × List Out) → List (List Out)
  | [] => []
  | (.new _ _, _) :: t => projOuts o t
  | (.op x, outs) :: t => if x.obj = o then outs :: projOuts o t else projOuts o t

end Txdbus.Obj.Props
