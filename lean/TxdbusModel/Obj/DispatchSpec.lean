/-
C10 SPEC, written from the property statement (and DESIGN.md section 5, C10, "Binding"):

  "Every incoming method call receives at most one reply, addressed to the caller and carrying
   the call's serial: exactly one if the call expects a reply, and none when a call flagged as
   expecting no reply is dispatched to its implementation.  The implementation bound to the
   addressed object path, interface and member runs exactly once with the decoded arguments (and
   the caller's unique name when it asks for it) if and only if that path is exported, the
   member exists on that interface and the argument signature matches; otherwise the reply is
   UnknownObject, UnknownMethod or InvalidArgs and no user code runs.  A returned value, or the
   eventual result of a returned Deferred, is encoded under the declared return signature, and a
   raised exception becomes an error reply named by its dbusErrorName or
   org.txdbus.PythonException.<Class> (org.txdbus.InvalidErrorName if that is not a valid DBus
   error name) with the exception text as message."

It shares the vocabulary (declarations, calls, messages, events) with the code model but none
of its lookup functions: everything here is phrased with the `List` library (`find?`,
`findSome?`, `any`, `reverse`), not with the code's loops and caches.
Core Lean only.
-/
import TxdbusModel.Obj.Dispatch

namespace Txdbus.Obj.DispatchSpec

open Txdbus.Obj.Dispatch

/-! ### What a call addresses -/

/-- The object exported at a path. -/
def exported (ex : Exports) (path : Str) : Option Obj :=
  (ex.find? fun e => e.1 = path).map (·.2)

/-- `p` lies strictly below `path` in the object tree. -/
def below (path p : Str) : Bool :=
  (if path.getLast? = some '/' then path else path ++ ['/']).isPrefixOf p

/-- The path is a node of the exported tree: exported itself or an ancestor of an exported path. -/
def nodeKnown (ex : Exports) (path : Str) : Bool :=
  (exported ex path).isSome || ex.any fun e => below path e.1

/-- The interfaces an object has: `dbusInterfaces` of every class of its chain that declares
some, most derived class first. -/
def declared (o : Obj) : List Iface :=
  o.classes.flatMap fun c => c.ifaces.getD []

/-- The member of an interface. -/
def memberOf (i : Iface) (member : Str) : Option Method :=
  (i.methods.find? fun e => e.1 = member).map (·.2)

/-- The interface a call addresses on an object: the first declared interface of that name, or,
when the call names no interface, the first declared interface that has the member. -/
def addressedIface {V : Type} (o : Obj) (c : Call V) : Option Iface :=
  match c.iface with
  | some (ch :: t) => (declared o).find? fun i => i.name = ch :: t
  | _ => (declared o).find? fun i => (memberOf i c.member).isSome

/-- The method a call addresses. -/
def addressed {V : Type} (o : Obj) (c : Call V) : Option (Iface × Method) :=
  match addressedIface o c with
  | some i => (memberOf i c.member).map fun m => (i, m)
  | none => none

/-! ### Binding (DESIGN C10 "Binding": the documented resolution order) -/

/-- Python attribute lookup: the function the first class of the chain defines under `name`. -/
def attr (o : Obj) (name : Str) : Option Func :=
  o.classes.findSome? fun c => (c.attrs.find? fun a => a.1 = name).map (·.2)

/-- The interface names a class body mentions, in order (with repetitions): the interface a function is
decorated for, the interface a `DBusProperty` attribute belongs to. -/
def bodyIfaces (body : List BodyEntry) : List Str :=
  body.filterMap fun e => match e with
    | .func a => a.2.deco.map (·.1)
    | .prop i => some i

/-- The last function of a class body decorated for `(i, m)`: its attribute name. -/
def lastDecorated (attrs : List (Str × Func)) (i m : Str) : Option Str :=
  (attrs.reverse.find? fun a => a.2.deco = some (i, m)).map (·.1)

/-- For an interface WITHOUT a name: the decorated functions of the class body are searched whatever
interface they name - the interfaces in the order the class body first mentions them (by a decorated
function OR by a property), the first of them that has a function decorated for `member` decides (its
last such function). -/
def decoratedAnyIn (c : Class) (member : Str) : Option Str :=
  (bodyIfaces c.body).findSome? fun i => lastDecorated c.attrs i member

/-- The attribute name under which class `c` provides a function decorated for `(iname, member)`:
the last such function of the class body; `decoratedAnyIn` when the interface name is EMPTY (an
interface declared as `DBusInterface('')`: the code's `if interfaceName:` is false). -/
def decoratedName (c : Class) (iname member : Str) : Option Str :=
  if iname ≠ [] then lastDecorated c.attrs iname member else decoratedAnyIn c member

/-- The decorator table of the class chain: the first class that has a function decorated for
`(iname, member)` decides; within a class the last such function; the function is then taken by
its name from the instance (so an override in a more derived class wins). -/
def decorated (o : Obj) (iname member : Str) : Option Func :=
  match o.classes.findSome? fun c => decoratedName c iname member with
  | some name => attr o name
  | none => none

/-- `f` is decorated for an interface other than `iname`. -/
def foreignDeco (f : Func) (iname : Str) : Bool :=
  match f.deco with
  | some (i, _) => i ≠ iname
  | none => false

/-- The implementation bound to `(iname, member)`: a method named `dbus_<member>` serves the
member on every interface unless it carries a decorator for a different interface; otherwise
the decorator table decides. -/
def bound (o : Obj) (iname member : Str) : Option Func :=
  match attr o (attrPrefix ++ member) with
  | some f => if foreignDeco f iname then decorated o iname member else some f
  | none => decorated o iname member

/-! ### Verdict -/

inductive Builtin where
  | ping | introspect | managed
  deriving DecidableEq, Repr

/-- What the property statement says must happen to a call. -/
inductive Verdict where
  /-- answered by the handler itself (Peer.Ping anywhere, Introspect on a node of the tree,
  GetManagedObjects on an exported object) -/
  | builtin (b : Builtin)
  | unknownObject
  | unknownMethod
  | invalidArgs (m : Method)
  /-- the method is declared but nothing implements it (no user code can run) -/
  | unbound (m : Method)
  /-- the bound implementation `f` of declared method `m` runs -/
  | run (f : Func) (m : Method)
  deriving DecidableEq, Repr

def isPair {V : Type} (c : Call V) (p : Str × Str) : Bool :=
  c.iface = some p.1 && c.member = p.2

def verdict {V : Type} (ex : Exports) (c : Call V) : Verdict :=
  if isPair c peerPair then .builtin .ping
  else if isPair c introspectPair && nodeKnown ex c.path then .builtin .introspect
  else match exported ex c.path with
    | none => .unknownObject
    | some o =>
      if isPair c managedPair then .builtin .managed
      else match addressed o c with
        | none => .unknownMethod
        | some (i, m) =>
          if c.sig.getD [] ≠ m.sigIn then .invalidArgs m
          else match bound o i.name c.member with
            | none => .unbound m
            | some f => .run f m

/-- The call is one the handler answers itself. -/
def handledByHandler {V : Type} (ex : Exports) (c : Call V) : Bool :=
  isPair c peerPair || (isPair c introspectPair && nodeKnown ex c.path) ||
    ((exported ex c.path).isSome && isPair c managedPair)

/-- The statement's condition for user code to run: the path is exported, the member exists on
the addressed (or first matching) interface, the argument signature matches - and the call is
not one the handler answers itself, and something implements the member. -/
def Runnable {V : Type} (ex : Exports) (c : Call V) (f : Func) (m : Method) : Prop :=
  handledByHandler ex c = false ∧
  ∃ o i, exported ex c.path = some o ∧ addressed o c = some (i, m) ∧ c.sig.getD [] = m.sigIn ∧
    bound o i.name c.member = some f

/-- The call is dispatched to user code. -/
def Verdict.runs : Verdict → Bool
  | .run _ _ => true
  | _ => false

/-! ### Observations -/

/-- The replies among the events. -/
def replies {V : Type} (evs : List (Event V)) : List (Msg V) :=
  evs.filterMap fun e => match e with
    | .sent m => some m
    | .invoked _ _ _ => none

/-- The invocations of user code among the events: (function, arguments, dbusCaller). -/
def invocations {V : Type} (evs : List (Event V)) : List (Nat × List V × Option (Option Str)) :=
  evs.filterMap fun e => match e with
    | .sent _ => none
    | .invoked f args caller => some (f, args, caller)

/-- The events of call number `k` in a tagged trace. -/
def eventsOf {V : Type} (k : Nat) (tr : List (Nat × Event V)) : List (Event V) :=
  (tr.filter fun e => e.1 = k).map (·.2)

/-- The invocation the statement demands for verdict `run f _`. -/
def expectedInvocation {V : Type} (c : Call V) (f : Func) : Nat × List V × Option (Option Str) :=
  (f.id, c.body, if f.wantsCaller then some c.sender else none)

/-- All the invocations of user code the statement allows for a call. -/
def expectedInvocations {V : Type} (c : Call V) : Verdict → List (Nat × List V × Option (Option Str))
  | .run f _ => [expectedInvocation c f]
  | _ => []

/-- A reply is addressed to the caller and carries the call's serial. -/
def AddressedTo {V : Type} (c : Call V) (m : Msg V) : Prop :=
  m.replySerial = c.serial ∧ m.dest = c.sender

/-- `resolve k _` occurs in the history after position `k`: the Deferred call `k` returned fired. -/
def firstResolve {V : Type} (k : Nat) : List (Op V) → Option (Resolution V)
  | [] => none
  | .resolve j r :: rest => if j = k then some r else firstResolve k rest
  | .call _ _ :: rest => firstResolve k rest
  | .exportObj _ _ :: rest => firstResolve k rest
  | .unexportObj _ :: rest => firstResolve k rest

/-- The exported objects after a history that started with `ex`: `exportObject` puts (or replaces)
the object at its path, `unexportObject` removes the path. -/
def exportsAfter {V : Type} (ex : Exports) : List (Op V) → Exports
  | [] => ex
  | .exportObj path o :: rest => exportsAfter (dictSet ex path o) rest
  | .unexportObj path :: rest => exportsAfter (dictErase ex path) rest
  | _ :: rest => exportsAfter ex rest

/-- What is exported when operation number `k` of the history arrives. -/
def exportsAt {V : Type} (ex : Exports) (ops : List (Op V)) (k : Nat) : Exports :=
  exportsAfter ex (ops.take k)

/-- The result the user code of call `k` produced, now or through its Deferred; `none` while the
returned Deferred has not fired. -/
def resultOf {V : Type} (ops : List (Op V)) (k : Nat) (oc : Outcome V) : Option (Resolution V) :=
  match oc with
  | .value r => some (.value r)
  | .raise e => some (.fail e)
  | .deferred => firstResolve k (ops.drop (k + 1))

/-- The name of the error reply for exception `e` (the statement's naming rule). -/
def errorName (validErr : Str → Bool) (e : Exc) : Str :=
  let n := match e.errName with
    | some n => n
    | none => pyExceptionPrefix ++ e.cls
  if validErr n then n else invalidErrorName

/-- The message of the error reply for exception `e`: the exception text, preceded by a notice
naming the rejected error name when that name is not a valid DBus error name. -/
def errorText (validErr : Str → Bool) (e : Exc) : Str :=
  let n := match e.errName with
    | some n => n
    | none => pyExceptionPrefix ++ e.cls
  if validErr n then e.text else pyFormat invalidNameNotice [n] ++ e.text

/-- The values sent for a result under a declared signature with `nret` complete types: a
sequence stands for the individual return values unless exactly one is declared. -/
def replyBody {V : Type} (ofSeq : List V → V) (nret : Nat) : Ret V → List V
  | .single v => [v]
  | .seq vs => if nret = 1 then [ofSeq vs] else vs

/-- Well-formed declarations: every declared interface has a (non-empty) name.  (Since the
extension of 2026-09-30 no theorem needs this any more: `bound` covers the empty name.) -/
def NamedIfaces (ex : Exports) : Prop :=
  ∀ e ∈ ex, ∀ i ∈ declared e.2, i.name ≠ []

/-- Well-formed history: the initial exports and every object exported later have named interfaces. -/
def HistoryNamed {V : Type} (ex : Exports) (ops : List (Op V)) : Prop :=
  ∀ k, NamedIfaces (exportsAt ex ops k)

/-- The repaired dispatcher: `send_error` always produces a text it can send. -/
def TextTotal {V : Type} (env : Env V) : Prop :=
  ∀ t, (env.textFix t).isSome = true

end Txdbus.Obj.DispatchSpec
