/-
C17 - how the code model is read against the specification: the declared properties of an elaborated
class chain, the hypotheses under which the property is claimed, and the refinement relation between
code state and specification state.  Definitions only (the statements of Properties/C17.lean use them).
-/
import TxdbusModel.Obj.Props
import TxdbusModel.Obj.PropsSpec

namespace Txdbus.Obj.Props
open Txdbus.Obj.PropsSpec

/-- A bound descriptor as a declared property: readable unless access is 'write', writeable unless access
is 'read', emitting iff the mode is 'true'. -/
def toS (b : Bound) : SProp :=
  ⟨b.attr, b.iface, b.pname, b.iprop.sig, decide (b.iprop.access ≠ .write), decide (b.iprop.access ≠ .read),
   decide (b.iprop.emits = .yes)⟩

/-- The declarations of a class chain as the statement sees them: every `DBusProperty` of every class
(most derived class first), and the interfaces `getInterfaces()` reports. -/
def sdeclOf (W : World) : SDecl :=
  ⟨W.levels.flatten.map toS, W.ifaces.map fun f => f.name⟩

/-- Well-formedness of the declarations beyond bindability: an attribute name redefined in another class
of the chain is bound to the same (interface, property) - overriding is allowed, shadowing one property's
attribute with another property is not. -/
def AttrConsistent (W : World) : Prop :=
  ∀ b1 ∈ W.levels.flatten, ∀ b2 ∈ W.levels.flatten, b1.attr = b2.attr →
    b1.iface = b2.iface ∧ b1.pname = b2.pname

/-- The theorems speak about properties declared with one of the 14 signatures whose typing the model
mirrors and proves: the 12 basic types, `as`, `v` (`declarable`).  Properties of other container types are
handled by the model through the shared codec model (C01/C02) and compared with the code by the harness,
but no theorem is claimed for them. -/
def Modelled (W : World) : Prop :=
  ∀ b ∈ W.levels.flatten, declarable b.iprop.sig = true

/-- What the theorems need of the code: an injective storage key and the three repaired behaviours. -/
structure Cfg.Sound (cfg : Cfg) : Prop where
  key_inj : ∀ i p i' p', cfg.key i p = cfg.key i' p' → i = i' ∧ p = p'
  allLevels : cfg.getAllAllLevels = true
  unknownErr : cfg.getAllUnknownErr = true
  setChecks : cfg.setChecks = true

/-- Histories the claim is about: every remote Set names an interface (the empty name, "any interface", is
outside the statement) and carries a value that can have come off the wire. -/
def GoodOp : Op → Prop
  | .set _ i _ v => i ≠ [] ∧ wireOk v = true
  | _ => True

instance (op : Op) : Decidable (GoodOp op) := by
  cases op <;> simp only [GoodOp] <;> infer_instance

def GoodHist (h : List Op) : Prop := ∀ op ∈ h, GoodOp op

/-- Code state `st` represents specification state `s`: same exported instances, and the slot of every
declared property holds exactly the specification's value for it. -/
structure Sim (cfg : Cfg) (W : World) (st : St) (s : SSt) : Prop where
  att : ∀ o, o ∈ st.attached ↔ s.attached o = true
  val : ∀ o b, b ∈ W.levels.flatten →
    dget st.store (o, cfg.key b.iface b.pname) = s.val o b.iface b.pname

/-- The specification state after history `h`, the history being annotated with what the code produced. -/
def specRun (cfg : Cfg) (W : World) (h : List Op) : SSt :=
  PropsSpec.run (sdeclOf W) (annotate cfg W St.init h)

end Txdbus.Obj.Props
