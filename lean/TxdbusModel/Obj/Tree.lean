/-
C16 - Code model of the exported-object table of `txdbus.objects.DBusObjectHandler` and of the
three places where a remote peer sees it:

* `exports` (objects.py `DBusObjectHandler.__init__/exportObject/unexportObject`): a Python
  `dict` path -> object, i.e. an insertion-ordered table (assignment to an existing key keeps
  its position, `del` of a missing key raises `KeyError`), and the `InterfacesAdded` /
  `InterfacesRemoved` signals handed to `conn.sendMessage`;
* the child-node computation of `introspection.generateIntrospectionXML`, on strings, as the
  code does it (`endswith('/')`, `startswith`, slice, `partition('/')[0]`, `not in matches`);
* the descendant selection of `DBusObjectHandler.getManagedObjects` (`sorted(keys)`,
  `startswith`);
* the head of `handleMethodCallMessage`: Peer.Ping, Introspectable.Introspect (falls through
  when the XML is `None`), the `UnknownObject` branch, ObjectManager.GetManagedObjects, and
  "everything else goes on to method dispatch" (C10).

The model mirrors the code AFTER the repairs fixes/C16-01 (F23) and fixes/C16-02 (F24); the
pre-repair variants are kept (`childLoopOrig`, `managedOrig`) for the witness theorems.
Objects are abstract (`Txdbus.Obj.Obj`).  Core Lean only.
-/
import TxdbusModel.Obj.TreeSpec

namespace Txdbus.Obj.Tree

/-! ### Python string helpers -/

/-- `s.startswith(t)` -/
def startsWith : Str → Str → Bool
  | _, [] => true
  | [], _ :: _ => false
  | a :: s, b :: t => a == b && startsWith s t

/-- `s.endswith('/')` -/
def endsWithSlash : Str → Bool
  | [] => false
  | [c] => c == '/'
  | _ :: c :: s => endsWithSlash (c :: s)

/-- `s.partition('/')[0]` -/
def beforeSlash (s : Str) : Str := s.takeWhile (fun c => !(c == '/'))

/-- `str.__le__`: lexicographic on code points. -/
def strLe : Str → Str → Bool
  | [], _ => true
  | _ :: _, [] => false
  | a :: s, b :: t =>
    if a.toNat < b.toNat then true else if b.toNat < a.toNat then false else strLe s t

def insertSorted (x : Str) : List Str → List Str
  | [] => [x]
  | y :: ys => if strLe x y then x :: y :: ys else y :: insertSorted x ys

/-- `sorted(list_of_str)` -/
def sortStr (l : List Str) : List Str := l.foldr insertSorted []

/-- Keys of a `dict` filled by `d[k] = …` for `k` in `l`: first occurrences, in order. -/
def dictKeys (l : List Str) : List Str :=
  l.foldl (fun acc k => if acc.contains k then acc else acc ++ [k]) []

/-! ### The table `self.exports` -/

/-- `dict` path -> object in insertion order. -/
abbrev Exports := List (Str × Obj)

/-- `exports.get(p, None)` -/
def lookup : Exports → Str → Option Obj
  | [], _ => none
  | (k, o) :: e, p => if k = p then some o else lookup e p

/-- `exports[p] = o`: an existing key keeps its position. -/
def setItem : Exports → Str → Obj → Exports
  | [], p, o => [(p, o)]
  | (k, v) :: e, p, o => if k = p then (k, o) :: e else (k, v) :: setItem e p o

/-- `del exports[p]` (the caller has looked the key up before). -/
def delItem (e : Exports) (p : Str) : Exports := e.filter (fun kv => !(kv.1 == p))

/-- `exports.keys()` -/
def keys (e : Exports) : List Str := e.map Prod.fst

/-! ### export / unexport -/

/-- The two ObjectManager signals, as handed to `conn.sendMessage`: the path in the message
header, the first body argument, the interface names of the second body argument (keys of
the dict `a{sa{sv}}`, resp. the array `as`) and, for InterfacesAdded, the properties. -/
inductive Signal where
  | interfacesAdded (hdrPath argPath : Str) (ifaces : List Str) (payload : Nat)
  | interfacesRemoved (hdrPath argPath : Str) (ifaces : List Str)
  deriving DecidableEq, Repr

/-- Result of one API call: the table afterwards, the messages sent, whether `KeyError` was raised. -/
structure StepResult where
  exports : Exports
  sent : List Signal
  keyError : Bool
  deriving DecidableEq, Repr

/-- `exportObject(o)` / `unexportObject(p)`. -/
def step (e : Exports) : Op → StepResult
  | .export o =>
    { exports := setItem e o.path o
      sent := [.interfacesAdded o.path o.path (dictKeys o.ifaces) o.payload]
      keyError := false }
  | .unexport p =>
    match lookup e p with
    | none => { exports := e, sent := [], keyError := true }      -- `o = self.exports[objectPath]` raises
    | some o =>
      { exports := delItem e p
        sent := [.interfacesRemoved o.path o.path o.ifaces]
        keyError := false }

/-- The table after a history of calls (a `KeyError` leaves it unchanged). -/
def run (h : List Op) : Exports := h.foldl (fun e op => (step e op).exports) []

/-! ### Introspection: child nodes -/

/-- `if not objectPath.endswith('/'): objectPath += '/'` -/
def dirPrefix (p : Str) : Str := if endsWithSlash p then p else p ++ ['/']

/-- `path[len(objectPath):].partition('/')[0]` -/
def childOf (pre path : Str) : Str := beforeSlash (path.drop pre.length)

/-- The loop over `exportedObjects.keys()` (repaired: an empty name is not a child). -/
def childLoop (pre : Str) : List Str → List Str → List Str
  | [], acc => acc
  | path :: rest, acc =>
    if startsWith path pre then
      let name := childOf pre path
      if !name.isEmpty && !acc.contains name then childLoop pre rest (acc ++ [name])
      else childLoop pre rest acc
    else childLoop pre rest acc

/-- The loop as it was before the repair of F23. -/
def childLoopOrig (pre : Str) : List Str → List Str → List Str
  | [], acc => acc
  | path :: rest, acc =>
    if startsWith path pre then
      let name := childOf pre path
      if !acc.contains name then childLoopOrig pre rest (acc ++ [name])
      else childLoopOrig pre rest acc
    else childLoopOrig pre rest acc

/-- `<node name=…/>` children listed for `p`. -/
def introspectChildren (p : Str) (e : Exports) : List Str := childLoop (dirPrefix p) (keys e) []

def introspectChildrenOrig (p : Str) (e : Exports) : List Str := childLoopOrig (dirPrefix p) (keys e) []

/-- `generateIntrospectionXML`: `None`, or the interface names of the object at `p` (if any;
the three built-in interfaces of `_intro` follow them) and the child node names. -/
def introspect (p : Str) (e : Exports) : Option (Option (List Str) × List Str) :=
  let obj := lookup e p
  let kids := introspectChildren p e
  if obj.isNone && kids.isEmpty then none
  else some (obj.map (·.ifaces), kids)

/-! ### GetManagedObjects -/

/-- One entry of the reply dict: path, interface names (dict keys), the properties. -/
abbrev Entry := Str × List Str × Nat

def entryOf (e : Exports) (k : Str) : Option Entry :=
  (lookup e k).map fun o => (k, dictKeys o.ifaces, o.payload)

/-- `getManagedObjects(objectPath)` (repaired: the prefix test is on `objectPath + '/'`). -/
def managed (p : Str) (e : Exports) : List Entry :=
  let pre := dirPrefix p
  ((sortStr (keys e)).filter fun k => !(!startsWith k pre || k == p)).filterMap (entryOf e)

/-- Before the repair of F24: `p.startswith(objectPath)`. -/
def managedOrig (p : Str) (e : Exports) : List Entry :=
  ((sortStr (keys e)).filter fun k => !(!startsWith k p || k == p)).filterMap (entryOf e)

/-! ### Head of `handleMethodCallMessage` -/

inductive Call where
  | ping                 -- org.freedesktop.DBus.Peer.Ping
  | introspect           -- org.freedesktop.DBus.Introspectable.Introspect
  | getManagedObjects    -- org.freedesktop.DBus.ObjectManager.GetManagedObjects
  | ordinary             -- any other interface / member
  deriving DecidableEq, Repr

inductive Reply where
  | pong
  | introspection (ifaces : Option (List Str)) (children : List Str)
  | managed (entries : List Entry)
  /-- error `org.freedesktop.DBus.Error.UnknownObject`, text `<path> is not an object provided by this process.` -/
  | unknownObject (path : Str)
  /-- the call goes on to interface / method lookup on this object (C10) -/
  | dispatch (o : Obj)
  deriving DecidableEq, Repr

def handle (e : Exports) (p : Str) (c : Call) : Reply :=
  if c = .ping then .pong else
  match (if c = .introspect then introspect p e else none) with
  | some (ifs, kids) => .introspection ifs kids
  | none =>
    match lookup e p with
    | none => .unknownObject p
    | some o =>
      if c = .getManagedObjects then .managed (managed o.path e)
      else .dispatch o

end Txdbus.Obj.Tree
